import GT.Bridge.Inv
import GT.Math.RankOne
import GT.Props.C02
import GT.Props.C01
/-!
# C04 — cached covariance, log-determinants, mean and log-partition always match

`MeasureB.Inv` (GT/Bridge/Inv.lean) is the invariant.  This file proves that every modelled
operation on measures preserves it — products through full inversion, through the
Sherman–Morrison / matrix-determinant-lemma fast path, through covariance reuse — and lifts it
to every finite history by induction (`Reachable`), with arbitrary interleaving of the
cache-filling read-only queries.
-/
namespace GT.Props.C04
open GT Matrix

variable {R R1 R2 Ro D : Nat}

/-- a conjugate factor as the library documents it: positive semidefinite precision -/
def FactorPSD (f : Factor R D ℝ) : Prop := ∀ r, (toM (f.toB.Lambda r)).PosSemidef

theorem toM_tab2_add (A B : Mat D D ℝ) :
    toM (tab2 fun i j => A i j + B i j) = toM A + toM B := by
  ext i j; simp

section products
variable {be : Backend ℝ} (hbe : be.Spec)
include hbe

theorem inv_finishInvert (uf : Bool) (b : MeasureB R D ℝ) (hPD : ∀ r, (toM (b.Lambda r)).PosDef)
    (hcls : b.cls.isDiag = false) (hcov : b.cov = none) (hl : b.lnDetLambda = none) (hmu : b.mu = none)
    (hz : b.lnZ = none) : (finishInvert be uf b).Inv := by
  unfold finishInvert
  split
  · refine ⟨hPD, by simp [hcls], ?_, ?_, by simp [hmu], by simp [hz], by simp [hz], by simp [hmu]⟩
    · intro c hc r
      simp only [Option.some.injEq] at hc
      subst hc
      have hs := invertBatch_spec hbe false b.Lambda hPD (by simp) r
      refine ⟨hs.1, ?_⟩
      simp only [tab_apply]
      rw [hs.2, hs.1, Matrix.det_nonsing_inv, Ring.inverse_eq_inv', Real.log_inv]
    · intro l hl' r
      simp only [Option.some.injEq] at hl'
      subst hl'
      exact (invertBatch_spec hbe false b.Lambda hPD (by simp) r).2
  · exact ⟨hPD, by simp [hcls], by simp [hcov], by simp [hl], by simp [hmu], by simp [hz], by simp [hz],
      by simp [hmu]⟩

omit hbe in
theorem inv_finishCov (b : MeasureB R D ℝ) (S : Arr R (Mat D D ℝ)) (ld : Arr R ℝ)
    (hPD : ∀ r, (toM (b.Lambda r)).PosDef) (hcls : b.cls.isDiag = false)
    (hmu : b.mu = none) (hz : b.lnZ = none)
    (hS : ∀ r, CovOK (toM (b.Lambda r)) (toM (S r)) (ld r)) : (finishCov b S ld).Inv := by
  refine ⟨hPD, by simp [finishCov, hcls], ?_, ?_, by simp [finishCov, hmu], by simp [finishCov, hz],
    by simp [finishCov, hz], by simp [finishCov, hmu]⟩
  · intro c hc r
    simp only [finishCov, Option.some.injEq] at hc
    subst hc
    exact hS r
  · intro l hl r
    simp only [finishCov, Option.some.injEq] at hl
    subst hl
    simp only [tab_apply]
    rw [(hS r).logdet_neg]; simp [finishCov]

omit hbe in
/-- the Sherman–Morrison / determinant-lemma branch returns the covariance cache of the updated
precision (M5) -/
theorem shermanMorrison_covOK (L : Mat D D ℝ) (S : Mat D D ℝ) (ld : ℝ) (v : Vec D ℝ) (g : ℝ)
    (hL : (toM L).PosDef) (hc : CovOK (toM L) (toM S) ld)
    (hnew : (toM L + g • vecMulVec (toV v) (toV v)).PosDef) :
    CovOK (toM L + g • vecMulVec (toV v) (toV v)) (toM (shermanMorrison S ld v g).1)
      (shermanMorrison S ld v g).2 := by
  have hLu : IsUnit (toM L).det := hL.det_pos.ne'.isUnit
  have hLS : toM L * toM S = 1 := by rw [hc.inv]; exact Matrix.mul_nonsing_inv _ hLu
  have hLsym : (toM L)ᵀ = toM L := by
    rw [← Matrix.conjTranspose_eq_transpose_of_trivial]; exact hL.isHermitian
  have hSsym : (toM S)ᵀ = toM S := by rw [hc.inv, Matrix.transpose_nonsing_inv, hLsym]
  have hdet := GT.Math.det_rank_one_update (toM L) hLu (toV v) g
  rw [← hc.inv] at hdet
  have hpos : 0 < 1 + g * (toV v ⬝ᵥ toM S *ᵥ toV v) := by
    have h1 := hnew.det_pos
    rw [hdet] at h1
    by_contra hneg
    push Not at hneg
    have := mul_nonpos_of_nonneg_of_nonpos hL.det_pos.le hneg
    linarith
  have hSM := GT.Math.sherman_morrison (toM L) (toM S) hLS hSsym (toV v) g hpos.ne'
  have hden : dot (mulVec S v) v = toV v ⬝ᵥ toM S *ᵥ toV v := by
    rw [dot_eq, toV_mulVec, dotProduct_comm]
  have hSM' : toM (shermanMorrison S ld v g).1 = (toM L + g • vecMulVec (toV v) (toV v))⁻¹ := by
    rw [hSM]
    ext i j
    simp only [shermanMorrison, toM_apply, tab2_apply, Matrix.sub_apply, Matrix.smul_apply,
      vecMulVec_apply, smul_eq_mul, hden]
    have hi : (mulVec S v) i = (toM S *ᵥ toV v) i := by rw [← toV_mulVec]; rfl
    have hj : (mulVec S v) j = (toM S *ᵥ toV v) j := by rw [← toV_mulVec]; rfl
    rw [hi, hj]
    field_simp
  refine ⟨hSM', ?_⟩
  rw [hSM', Matrix.det_nonsing_inv, Ring.inverse_eq_inv', Real.log_inv, hdet,
    Real.log_mul hL.det_pos.ne' hpos.ne']
  simp only [shermanMorrison, transc_log, hden]
  rw [hc.logdet_neg]
  ring

/-- **C04, products**: every product path (full inversion, Sherman–Morrison, covariance reuse, no
covariance at all) yields a consistent measure. -/
theorem inv_productSel (su : Fin Ro → Fin R1) (sf : Fin Ro → Fin R2) (u : MeasureB R1 D ℝ)
    (f : Factor R2 D ℝ) (uf : Bool) (hu : u.Inv) (hf : FactorPSD f) :
    (productSel be su sf u f uf).Inv := by
  have hsum : ∀ r, (toM (u.Lambda (su r)) + toM (f.toB.Lambda (sf r))).PosDef :=
    fun r => (hu.posDef (su r)).add_posSemidef (hf (sf r))
  cases f with
  | general f =>
    simp only [productSel]
    apply inv_finishInvert hbe <;> try rfl
    intro r
    simp only [MeasureB.mk0, tab_apply]
    have := hsum r
    simp only [Factor.toB] at this
    rwa [show toM (tab2 fun i j => u.Lambda (su r) i j + f.Lambda (sf r) i j) =
      toM (u.Lambda (su r)) + toM (f.Lambda (sf r)) from toM_tab2_add _ _]
  | oneRank v g nu lb =>
    have hLf : ∀ r, toM ((oneRankLambda v g) r) = g r • vecMulVec (toV (v r)) (toV (v r)) := by
      intro r; ext i j
      simp [oneRankLambda, vecMulVec_apply]; ring
    have hbasePD : ∀ r, (toM ((tab3 fun r i j => u.Lambda (su r) i j + (oneRankLambda v g) (sf r) i j) r)).PosDef := by
      intro r
      have := hsum r
      simp only [Factor.toB] at this
      simp only [tab_apply]
      rwa [show toM (tab2 fun i j => u.Lambda (su r) i j + (oneRankLambda v g) (sf r) i j) =
        toM (u.Lambda (su r)) + toM ((oneRankLambda v g) (sf r)) from toM_tab2_add _ _]
    simp only [productSel]
    split
    · split
      · apply inv_finishInvert hbe <;> try rfl
        exact hbasePD
      · next c hc =>
        apply inv_finishCov <;> try rfl
        · exact hbasePD
        · intro r
          simp only [MeasureB.mk0, tab_apply]
          have hnew := hsum r
          simp only [Factor.toB, hLf] at hnew
          have := shermanMorrison_covOK (u.Lambda (su r)) (c.Sigma (su r)) (c.lnDetSigma (su r))
            (v (sf r)) (g (sf r)) (hu.posDef (su r)) (hu.cov c hc (su r)) hnew
          rw [show toM (tab2 fun i j => u.Lambda (su r) i j + (oneRankLambda v g) (sf r) i j) =
            toM (u.Lambda (su r)) + toM ((oneRankLambda v g) (sf r)) from toM_tab2_add _ _, hLf]
          exact this
    · exact ⟨hbasePD, by simp [MeasureB.mk0, MCls.isDiag], by simp [MeasureB.mk0], by simp [MeasureB.mk0],
        by simp [MeasureB.mk0], by simp [MeasureB.mk0], by simp [MeasureB.mk0], by simp [MeasureB.mk0]⟩
  | linear nu lb =>
    have hbasePD : ∀ r, (toM ((tab fun r => u.Lambda (su r)) r)).PosDef := by
      intro r; simp only [tab_apply]; exact hu.posDef (su r)
    simp only [productSel]
    split
    · split
      · apply inv_finishInvert hbe <;> try rfl
        exact hbasePD
      · next c hc =>
        apply inv_finishCov <;> try rfl
        · exact hbasePD
        · intro r
          simp only [MeasureB.mk0, tab_apply]
          exact hu.cov c hc (su r)
    · exact ⟨hbasePD, by simp [MeasureB.mk0, MCls.isDiag], by simp [MeasureB.mk0], by simp [MeasureB.mk0],
        by simp [MeasureB.mk0], by simp [MeasureB.mk0], by simp [MeasureB.mk0], by simp [MeasureB.mk0]⟩
  | constant lb =>
    have hbasePD : ∀ r, (toM ((tab fun r => u.Lambda (su r)) r)).PosDef := by
      intro r; simp only [tab_apply]; exact hu.posDef (su r)
    simp only [productSel]
    split
    · split
      · apply inv_finishInvert hbe <;> try rfl
        exact hbasePD
      · next c hc =>
        apply inv_finishCov <;> try rfl
        · exact hbasePD
        · intro r
          simp only [MeasureB.mk0, tab_apply]
          exact hu.cov c hc (su r)
    · exact ⟨hbasePD, by simp [MeasureB.mk0, MCls.isDiag], by simp [MeasureB.mk0], by simp [MeasureB.mk0],
        by simp [MeasureB.mk0], by simp [MeasureB.mk0], by simp [MeasureB.mk0], by simp [MeasureB.mk0]⟩

theorem C04_multiply (u : MeasureB R1 D ℝ) (f : Factor R2 D ℝ) (uf : Bool) (hu : u.Inv)
    (hf : FactorPSD f) : (u.multiply be f uf).Inv :=
  inv_productSel hbe _ _ u f uf hu hf

theorem C04_hadamard (u : MeasureB R D ℝ) (f : Factor R D ℝ) (uf : Bool) (hu : u.Inv)
    (hf : FactorPSD f) : (u.hadamard be f uf).Inv :=
  inv_productSel hbe _ _ u f uf hu hf

theorem C04_hadamard_bcast_factor (u : MeasureB R D ℝ) (f : Factor 1 D ℝ) (uf : Bool) (hu : u.Inv)
    (hf : FactorPSD f) : (u.hadamardBF be f uf).Inv :=
  inv_productSel hbe _ _ u f uf hu hf

theorem C04_hadamard_bcast_measure (u : MeasureB 1 D ℝ) (f : Factor R D ℝ) (uf : Bool) (hu : u.Inv)
    (hf : FactorPSD f) : (u.hadamardBU be f uf).Inv :=
  inv_productSel hbe _ _ u f uf hu hf

end products

/-! ## the exposed relation `ln det Σ = − ln det Λ` and `Σ Λ = 1` -/

theorem C04_sigma_mul_lambda {m : MeasureB R D ℝ} (h : m.Inv) (c : Cov R D ℝ) (hc : m.cov = some c)
    (r : Fin R) : toM (c.Sigma r) * toM (m.Lambda r) = 1 := by
  rw [(h.cov c hc r).inv]
  exact Matrix.nonsing_inv_mul _ (h.posDef r).det_pos.ne'.isUnit

theorem C04_lndet_relation {m : MeasureB R D ℝ} (h : m.Inv) (c : Cov R D ℝ) (hc : m.cov = some c)
    (r : Fin R) : c.lnDetSigma r = Real.log (toM (c.Sigma r)).det ∧
      c.lnDetSigma r = -Real.log (toM (m.Lambda r)).det :=
  ⟨(h.cov c hc r).logdet, (h.cov c hc r).logdet_neg⟩

/-! ## histories -/

/-- read-only queries of the public API; each of them may fill caches -/
inductive Query where
  | integral | logIntegral | logIntegralLight | integralLight | prepare | computeLnZ | computeMu
  deriving DecidableEq

/-- the state after a read-only query -/
noncomputable def runQuery (be : Backend ℝ) (m : MeasureB R D ℝ) : Query → MeasureB R D ℝ
  | .integral => (m.integral be).1
  | .logIntegral => (m.logIntegral be).1
  | .logIntegralLight => (m.logIntegralLight be).1
  | .integralLight => (m.integralLight be).1
  | .prepare => m.prepare be
  | .computeLnZ => (m.computeLnZ be).1
  | .computeMu => (m.computeMu be).1

theorem inv_runQuery {be : Backend ℝ} (hbe : be.Spec) {m : MeasureB R D ℝ} (h : m.Inv) (q : Query) :
    (runQuery be m q).Inv := by
  cases q <;> simp only [runQuery, MeasureB.integral, MeasureB.logIntegral, MeasureB.logIntegralLight,
    MeasureB.integralLight]
  · exact inv_prepare hbe h
  · exact inv_prepare hbe h
  · exact inv_ensureLnZ hbe h
  · exact inv_ensureLnZ hbe h
  · exact inv_prepare hbe h
  · exact inv_computeLnZ hbe h
  · exact inv_computeMu hbe h

/-- queries never change the function the object evaluates to -/
theorem runQuery_toB (be : Backend ℝ) (m : MeasureB R D ℝ) (q : Query) :
    (runQuery be m q).toB = m.toB := by
  cases q <;> simp only [runQuery, MeasureB.integral, MeasureB.logIntegral, MeasureB.logIntegralLight,
    MeasureB.integralLight, MeasureB.toB, prepare_Lambda, prepare_nu, prepare_lnBeta, ensureLnZ_Lambda,
    ensureLnZ_nu, ensureLnZ_lnBeta, computeLnZ_fst_Lambda, computeLnZ_fst_nu, computeLnZ_fst_lnBeta,
    computeMu_fst_Lambda, computeMu_fst_nu, computeMu_fst_lnBeta]

/-- measures (of any batch size and dimension) reachable by a finite history of the modelled
public operations, with arbitrary interleaved read-only queries -/
inductive Reachable (be : Backend ℝ) : {R D : Nat} → MeasureB R D ℝ → Prop where
  /-- `GaussianMeasure(Lambda, nu, ln_beta)` / `GaussianDiagMeasure(…)` with a documented precision -/
  | ctor {R D : Nat} (cls : MCls) (hc : cls.isPdf = false) (L : Arr R (Mat D D ℝ)) (nu : Arr R (Vec D ℝ))
      (lb : Arr R ℝ) (hL : ∀ r, (toM (L r)).PosDef) (hd : cls.isDiag = true → ∀ r i j, i ≠ j → L r i j = 0) :
      Reachable be (MeasureB.mk0 cls L nu lb)
  /-- `GaussianPDF(Sigma, mu, Lambda?, ln_det_Sigma?)` with consistent arguments -/
  | pdf {R D : Nat} (diag : Bool) (S : Arr R (Mat D D ℝ)) (mu : Arr R (Vec D ℝ))
      (L : Option (Arr R (Mat D D ℝ))) (ld : Option (Arr R ℝ)) (h : C02.PdfArgsOK diag S L ld) :
      Reachable be (mkPdf be diag S mu L ld)
  | query {R D : Nat} {m : MeasureB R D ℝ} (q : Query) : Reachable be m → Reachable be (runQuery be m q)
  | normalize {R D : Nat} {m : MeasureB R D ℝ} : Reachable be m → Reachable be (m.normalize be)
  | getDensity {R D : Nat} {m : MeasureB R D ℝ} : Reachable be m → Reachable be (m.getDensity be).2
  | multiply {R1 R2 D : Nat} {u : MeasureB R1 D ℝ} (f : Factor R2 D ℝ) (uf : Bool) (hf : FactorPSD f) :
      Reachable be u → Reachable be (u.multiply be f uf)
  /-- a measure or density used as the factor of a product -/
  | multiplyMeasure {R1 R2 D : Nat} {u : MeasureB R1 D ℝ} {w : MeasureB R2 D ℝ} (uf : Bool) :
      Reachable be u → Reachable be w → Reachable be (u.multiply be w.toFactor uf)
  | hadamard {R D : Nat} {u : MeasureB R D ℝ} (f : Factor R D ℝ) (uf : Bool) (hf : FactorPSD f) :
      Reachable be u → Reachable be (u.hadamard be f uf)
  | hadamardBF {R D : Nat} {u : MeasureB R D ℝ} (f : Factor 1 D ℝ) (uf : Bool) (hf : FactorPSD f) :
      Reachable be u → Reachable be (u.hadamardBF be f uf)
  | hadamardBU {R D : Nat} {u : MeasureB 1 D ℝ} (f : Factor R D ℝ) (uf : Bool) (hf : FactorPSD f) :
      Reachable be u → Reachable be (u.hadamardBU be f uf)

theorem getDensity_inv {be : Backend ℝ} (hbe : be.Spec) {m : MeasureB R D ℝ} (h : m.Inv) :
    (m.getDensity be).2.Inv := by
  have hp := inv_prepare (be := be) hbe h
  have hmu : (m.prepare be).mu.isSome := C02.ensureMu_mu_isSome
  have hcov : (m.prepare be).cov.isSome := hp.covOfMu hmu
  simp only [MeasureB.getDensity, MeasureB.densityOf]
  cases hc : (m.prepare be).cov with
  | none => simp [hc] at hcov
  | some c =>
    cases hm : (m.prepare be).mu with
    | none => simp [hm] at hmu
    | some mu =>
      simp only []
      apply C02.mkPdf_inv hbe
      refine ⟨?_, by simp, ?_, ?_⟩
      · intro r
        rw [(hp.cov c hc r).inv]
        exact (hp.posDef r).inv
      · intro L hL r
        simp only [Option.some.injEq] at hL
        subst hL
        rw [(hp.cov c hc r).inv, Matrix.nonsing_inv_nonsing_inv _ (hp.posDef r).det_pos.ne'.isUnit]
      · intro L ld _ hld r
        simp only [Option.some.injEq] at hld
        subst hld
        exact (hp.cov c hc r).logdet

/-- **C04**: every reachable measure/density is consistent — all history lengths, all batch sizes
and dimensions, all factor kinds and cache paths. -/
theorem C04_reachable {be : Backend ℝ} (hbe : be.Spec) {R D : Nat} {m : MeasureB R D ℝ}
    (h : Reachable be m) : m.Inv := by
  induction h with
  | ctor cls hc L nu lb hL hd => exact inv_mk0 cls L nu lb hL hd
  | pdf diag S mu L ld h => exact C02.mkPdf_inv hbe diag S mu L ld h
  | query q _ ih => exact inv_runQuery hbe ih q
  | normalize _ ih => exact inv_normalize hbe ih
  | getDensity _ ih => exact getDensity_inv hbe ih
  | multiply f uf hf _ ih => exact C04_multiply hbe _ f uf ih hf
  | multiplyMeasure uf _ _ ihu ihw =>
    exact C04_multiply hbe _ _ uf ihu (fun r => (ihw.posDef r).posSemidef)
  | hadamard f uf hf _ ih => exact C04_hadamard hbe _ f uf ih hf
  | hadamardBF f uf hf _ ih => exact C04_hadamard_bcast_factor hbe _ f uf ih hf
  | hadamardBU f uf hf _ ih => exact C04_hadamard_bcast_measure hbe _ f uf ih hf

/-- **C04, query independence**: the function a product evaluates to does not depend on which
read-only queries were made on the measure beforehand (any list of queries). -/
theorem C04_query_independence (be : Backend ℝ) (u : MeasureB R1 D ℝ) (f : Factor R2 D ℝ) (uf : Bool)
    (qs : List Query) :
    ((qs.foldl (runQuery be) u).multiply be f uf).toB = (u.multiply be f uf).toB := by
  have hq : (qs.foldl (runQuery be) u).toB = u.toB := by
    induction qs generalizing u with
    | nil => rfl
    | cons q qs ih => simp only [List.foldl_cons]; rw [ih, runQuery_toB]
  simp only [MeasureB.toB, FactorB.mk.injEq] at hq
  obtain ⟨h1, h2, h3⟩ := hq
  simp only [MeasureB.multiply, C01.productSel_toB, h1, h2, h3]

/-- and the total mass agrees as well: after any queries, through either cache path, the reported
log-integral of the product is the same real number -/
theorem C04_query_independence_mass {be : Backend ℝ} (hbe : be.Spec) (u : MeasureB R1 D ℝ)
    (f : Factor R2 D ℝ) (uf uf' : Bool) (qs : List Query) (hu : u.Inv) (hf : FactorPSD f)
    (k : Fin (R1 * R2)) :
    (((qs.foldl (runQuery be) u).multiply be f uf).logIntegral be).2 k =
      ((u.multiply be f uf').logIntegral be).2 k := by
  have hq : ∀ (qs : List Query) (u : MeasureB R1 D ℝ), u.Inv → (qs.foldl (runQuery be) u).Inv := by
    intro qs
    induction qs with
    | nil => intro u hu; exact hu
    | cons q qs ih => intro u hu; exact ih _ (inv_runQuery hbe hu q)
  have h1 := C04_multiply hbe _ f uf (hq qs u hu) hf
  have h2 := C04_multiply hbe _ f uf' hu hf
  rw [C02.logIntegral_value hbe h1 k, C02.logIntegral_value hbe h2 k]
  have hB := C04_query_independence be u f uf qs
  have hB' : (u.multiply be f uf).toB = (u.multiply be f uf').toB := by
    simp only [MeasureB.multiply, C01.productSel_toB]
  rw [hB'] at hB
  simp only [MeasureB.toB, FactorB.mk.injEq] at hB
  obtain ⟨e1, e2, e3⟩ := hB
  rw [e1, e2, e3]

/-! ## non-vacuity -/

example (be : Backend ℝ) : Reachable be
    ((MeasureB.mk0 .measure (tab fun _ : Fin 1 => (eye : Mat 2 2 ℝ)) (tab fun _ => zeroV) (tab fun _ => 0)).multiply be
      (Factor.constant (tab fun _ : Fin 2 => (1 : ℝ))) true) := by
  apply Reachable.multiply
  · intro r
    simp only [Factor.toB, tab_apply, toM_zeroM]
    exact Matrix.PosSemidef.zero
  · apply Reachable.ctor _ rfl
    · intro r; simp only [tab_apply, toM_eye]; exact Matrix.PosDef.one
    · simp [MCls.isDiag]

end GT.Props.C04
