import GT.Model.Truncated
import GT.Bridge.PdfOK
import GT.Bridge.SpecSat
import GT.Math.TruncMoments
/-!
# C20 — truncated one-dimensional Gaussian measures integrate correctly

The model (`GT/Model/Truncated.lean`) at `α := ℝ`; `Transc.normCdf = Phi`.
-/
namespace GT.Props.C20
open GT GT.Math MeasureTheory Set

variable {R : Nat}

/-! ## the scalar primitives over `ℝ` -/

@[simp] theorem npow_real (x : ℝ) (n : ℕ) : npow x n = x ^ n := by
  induction n with
  | zero => simp [npow]
  | succ n ih => simp [npow, ih, pow_succ]

theorem choose_eq (n k : ℕ) : GT.choose n k = Nat.choose n k := by
  induction n generalizing k with
  | zero => cases k <;> simp [GT.choose]
  | succ n ih => cases k <;> simp [GT.choose, ih, Nat.choose_succ_succ]

@[simp] theorem binom_real (k i : ℕ) : (binom k i : ℝ) = (Nat.choose k i : ℝ) := by
  simp [binom, choose_eq]

@[simp] theorem normalPdf_real (x : ℝ) : normalPdf x = phi x := by
  simp only [normalPdf, transc_exp, transc_sqrt, transc_pi, two_real, phi_eq]
  congr 2
  ring_nf

/-- the patched cdf is the cdf: the patch only applies where `Phi x = 1` (never, over `ℝ`) -/
@[simp] theorem normalCdf_real (x : ℝ) : normalCdf x = Phi x := by
  have h : Phi x < 1 := Phi_lt_one x
  have e : (Transc.normCdf x : ℝ) = Phi x := rfl
  simp only [normalCdf, transc_lt, e]
  simp [h]

@[simp] theorem ne0_real (z : ℝ) : ne0 z = decide (z ≠ 0) := by
  simp only [ne0, transc_lt]
  rcases lt_trichotomy z 0 with h | h | h
  · simp [h, h.ne]
  · simp [h]
  · simp [h, h.ne']


/-! ## limits -/

@[simp] theorem cdf_negInf : (Lim.negInf : Lim ℝ).cdf = 0 := rfl
@[simp] theorem cdf_posInf : (Lim.posInf : Lim ℝ).cdf = 1 := rfl
@[simp] theorem cdf_fin (x : ℝ) : (Lim.fin x).cdf = Phi x := normalCdf_real x
@[simp] theorem pdf_negInf : (Lim.negInf : Lim ℝ).pdf = 0 := rfl
@[simp] theorem pdf_posInf : (Lim.posInf : Lim ℝ).pdf = 0 := rfl
@[simp] theorem pdf_fin (x : ℝ) : (Lim.fin x).pdf = phi x := normalPdf_real x
@[simp] theorem powPdf_negInf (n : ℕ) : (Lim.negInf : Lim ℝ).powPdf n = 0 := rfl
@[simp] theorem powPdf_posInf (n : ℕ) : (Lim.posInf : Lim ℝ).powPdf n = 0 := rfl
@[simp] theorem powPdf_fin (x : ℝ) (n : ℕ) : (Lim.fin x).powPdf n = x ^ n * phi x := by
  simp [Lim.powPdf]

/-- mirroring a limit mirrors the cdf (`Phi(−x) = 1 − Phi(x)`) -/
theorem cdf_neg (l : Lim ℝ) : l.neg.cdf = 1 - l.cdf := by
  cases l with
  | negInf => simp [Lim.neg]
  | fin x => simp [Lim.neg, Phi_neg]
  | posInf => simp [Lim.neg]

/-- **C20 (cdf difference)**: the mirrored evaluation in the upper tail is mathematically the
identity: `_cdf_difference(α, β) = Phi(β) − Phi(α)` with `Phi(−∞) = 0`, `Phi(+∞) = 1`. -/
theorem C20_cdf_difference (a b : Lim ℝ) : Lim.cdfDifference a b = b.cdf - a.cdf := by
  unfold Lim.cdfDifference
  cases a.isPos
  · simp
  · simp only [if_true, cdf_neg]; ring

/-- the order of limits: `−∞ < x < +∞`, finite limits by `<` -/
def LimLt : Lim ℝ → Lim ℝ → Prop
  | .negInf, .fin _ => True
  | .negInf, .posInf => True
  | .fin x, .fin y => x < y
  | .fin _, .posInf => True
  | _, _ => False

/-- the closed support `{x | lower ≤ x ≤ upper}` as the code's `>=`, `<=` tests -/
def supp (a b : Lim ℝ) : Set ℝ := {x | Lim.geOf x a = true ∧ Lim.leOf x b = true}

theorem mem_supp (a b : Lim ℝ) (x : ℝ) : x ∈ supp a b ↔ (Lim.geOf x a && Lim.leOf x b) = true := by
  simp [supp]

@[simp] theorem supp_fin_fin (a b : ℝ) : supp (.fin a) (.fin b) = Icc a b := by
  ext x; simp [supp, Lim.geOf, Lim.leOf]
@[simp] theorem supp_negInf_fin (b : ℝ) : supp .negInf (.fin b) = Iic b := by
  ext x; simp [supp, Lim.geOf, Lim.leOf]
@[simp] theorem supp_fin_posInf (a : ℝ) : supp (.fin a) .posInf = Ici a := by
  ext x; simp [supp, Lim.geOf, Lim.leOf]
@[simp] theorem supp_negInf_posInf : supp .negInf .posInf = univ := by
  ext x; simp [supp, Lim.geOf, Lim.leOf]

theorem measurableSet_supp (a b : Lim ℝ) : MeasurableSet (supp a b) := by
  have h1 : MeasurableSet {x : ℝ | Lim.geOf x a = true} := by
    cases a with
    | negInf => simp [Lim.geOf]
    | fin a =>
      have : {x : ℝ | Lim.geOf x (Lim.fin a) = true} = Ici a := by ext x; simp [Lim.geOf]
      rw [this]; exact measurableSet_Ici
    | posInf => simp [Lim.geOf]
  have h2 : MeasurableSet {x : ℝ | Lim.leOf x b = true} := by
    cases b with
    | negInf => simp [Lim.leOf]
    | fin b =>
      have : {x : ℝ | Lim.leOf x (Lim.fin b) = true} = Iic b := by ext x; simp [Lim.leOf]
      rw [this]; exact measurableSet_Iic
    | posInf => simp [Lim.leOf]
  exact h1.inter h2

/-- `∫_{[a,b]} φ = Phi(b) − Phi(a)` for limits in `[−∞, ∞]` -/
theorem mom_supp_zero {a b : Lim ℝ} (h : LimLt a b) : mom (supp a b) 0 = b.cdf - a.cdf := by
  cases a <;> cases b <;> simp only [LimLt] at h
  · simp [mom_Iic_zero]
  · simp [mom_univ_zero]
  · simp [mom_Icc_zero h.le]
  · simp [mom_Ici_zero]

/-- `∫_{[a,b]} t φ(t) dt = φ(a) − φ(b)` -/
theorem mom_supp_one {a b : Lim ℝ} (h : LimLt a b) : mom (supp a b) 1 = a.pdf - b.pdf := by
  cases a <;> cases b <;> simp only [LimLt] at h
  · simp [mom_Iic_one]
  · simp [mom_univ_one]
  · simp [mom_Icc_one h.le]
  · simp [mom_Ici_one]

/-- the moment recursion with the code's boundary terms (`0` at an infinite limit) -/
theorem mom_supp_succ_succ {a b : Lim ℝ} (h : LimLt a b) (k : ℕ) :
    mom (supp a b) (k + 2) =
      -(b.powPdf (k + 1) - a.powPdf (k + 1)) + ((k : ℝ) + 1) * mom (supp a b) k := by
  cases a <;> cases b <;> simp only [LimLt] at h
  · simp [mom_Iic_succ_succ]
  · simp [mom_univ_succ_succ]
  · simp [mom_Icc_succ_succ h.le]
  · simp [mom_Ici_succ_succ]

/-- the standard normal mass of a non-degenerate interval is positive -/
theorem cdf_sub_pos {a b : Lim ℝ} (h : LimLt a b) : 0 < b.cdf - a.cdf := by
  cases a <;> cases b <;> simp only [LimLt] at h
  · simpa using Phi_pos _
  · simp
  · simpa using strictMono_Phi h
  · simpa using Phi_lt_one _


/-! ## evaluation -/

/-- a one-point argument -/
def vec1 (x : ℝ) : Vec 1 ℝ := tab fun _ => x

@[simp] theorem vec1_apply (x : ℝ) (i : Fin 1) : vec1 x i = x := by simp [vec1]

theorem vec1_eta (x : Vec 1 ℝ) : vec1 (x 0) = x := by
  ext i; obtain rfl : i = 0 := Subsingleton.elim _ _; simp

/-- the evaluated base function `u_r(x) = exp(−½ Λ x² + ν x + ln β)` of the wrapped measure -/
noncomputable def u (t : TruncB R ℝ) (r : Fin R) (x : ℝ) : ℝ := Real.exp (t.measure.evalLn r (vec1 x))

theorem evalLn_vec1 (m : MeasureB R 1 ℝ) (r : Fin R) (x : ℝ) :
    m.evalLn r (vec1 x) = -(1 / 2) * (m.Lambda r 0 0 * x ^ 2) + m.nu r 0 * x + m.lnBeta r := by
  simp only [MeasureB.evalLn, MeasureB.toB, FactorB.evalLn, half_real, quad_real, dot_real,
    Fin.sum_univ_one, Fin.isValue, vec1_apply]
  ring

theorem inLimits_iff (t : TruncB R ℝ) (r : Fin R) (x : Vec 1 ℝ) :
    t.inLimits r x = true ↔ x 0 ∈ supp (t.lower r) (t.upper r) := by
  rw [mem_supp]; rfl

open Classical in
/-- **C20 (evaluation)**: `__call__` is the base function (times `constant` for the density class)
on the closed interval `[lower, upper]` and `0` outside. -/
theorem C20_eval (t : TruncB R ℝ) (r : Fin R) (x : Vec 1 ℝ) :
    t.call r x =
      if x 0 ∈ supp (t.lower r) (t.upper r) then
        (if t.isPdf then u t r (x 0) * t.constant r else u t r (x 0))
      else 0 := by
  have hu : t.measure.toB.eval r x = u t r (x 0) := by
    rw [u, vec1_eta]; rfl
  simp only [TruncB.call, TruncB.callBase, hu]
  by_cases hin : x 0 ∈ supp (t.lower r) (t.upper r)
  · rw [if_pos hin, (inLimits_iff t r x).2 hin]
    cases t.isPdf <;> simp
  · have : t.inLimits r x = false := by
      rw [← inLimits_iff] at hin; simpa using hin
    rw [if_neg hin, this]
    cases t.isPdf <;> simp

/-! ## the consistency hypothesis -/

/-- standardising a limit -/
def stdLim (μ sΛ : ℝ) : Lim ℝ → Lim ℝ
  | .fin a => .fin ((a - μ) * sΛ)
  | .negInf => .negInf
  | .posInf => .posInf

theorem standardise_apply (d : PdfV R 1 ℝ) (l : Arr R (Lim ℝ)) (r : Fin R) :
    standardise d l r = stdLim (d.mu r 0) (Real.sqrt (d.Lambda r 0 0)) (l r) := by
  simp only [standardise, tab_apply]
  cases h : l r <;> simp [stdLim, Lim.finOr0]

/-- What `TruncatedGaussianMeasure.__post_init__` establishes (see `mkTruncMeasure_ok`): the density
view carries the mean `μ = ν/Λ`, the variance `Σ = 1/Λ` and the precision of the wrapped measure,
`alpha`, `beta` are the standardised limits, and the interval is non-degenerate. -/
structure TruncOK (t : TruncB R ℝ) : Prop where
  lamPos : ∀ r, 0 < t.measure.Lambda r 0 0
  dLambda : ∀ r, t.density.Lambda r 0 0 = t.measure.Lambda r 0 0
  dSigma : ∀ r, t.density.Sigma r 0 0 * t.measure.Lambda r 0 0 = 1
  dMu : ∀ r, t.density.mu r 0 * t.measure.Lambda r 0 0 = t.measure.nu r 0
  dNu : ∀ r, t.density.nu r 0 = t.measure.nu r 0
  alpha : t.alpha = standardise t.density t.lower
  beta : t.beta = standardise t.density t.upper
  lt : ∀ r, LimLt (t.lower r) (t.upper r)

/-- the total mass of the wrapped measure in closed form: `exp(ln β + μν/2) · σ · √(2π)` -/
noncomputable def kappa (t : TruncB R ℝ) (r : Fin R) : ℝ :=
  Real.exp (t.measure.lnBeta r + t.density.mu r 0 * t.measure.nu r 0 / 2)
    * Real.sqrt (t.density.Sigma r 0 0) * Real.sqrt (2 * Real.pi)

section ok
variable {t : TruncB R ℝ} (h : TruncOK t) (r : Fin R)
include h

theorem TruncOK.sigma_pos : 0 < t.density.Sigma r 0 0 := by
  have h1 := h.dSigma r
  have h2 := h.lamPos r
  by_contra hc
  push Not at hc
  nlinarith

theorem TruncOK.sqrtSigma_pos : 0 < Real.sqrt (t.density.Sigma r 0 0) :=
  Real.sqrt_pos.2 (h.sigma_pos r)

theorem TruncOK.sqrt_mul_sqrt :
    Real.sqrt (t.density.Sigma r 0 0) * Real.sqrt (t.density.Lambda r 0 0) = 1 := by
  rw [h.dLambda, ← Real.sqrt_mul (h.sigma_pos r).le, h.dSigma, Real.sqrt_one]

theorem TruncOK.sqrtLambda_eq :
    Real.sqrt (t.density.Lambda r 0 0) = 1 / Real.sqrt (t.density.Sigma r 0 0) := by
  have := h.sqrt_mul_sqrt r
  have hp := h.sqrtSigma_pos r
  field_simp
  linarith

theorem TruncOK.sq_sqrtSigma :
    Real.sqrt (t.density.Sigma r 0 0) ^ 2 = t.density.Sigma r 0 0 :=
  Real.sq_sqrt (h.sigma_pos r).le

/-- the base function is `κ` times the normal density with mean `μ` and standard deviation `σ` -/
theorem u_eq (x : ℝ) :
    u t r x = kappa t r *
      (phi ((x - t.density.mu r 0) / Real.sqrt (t.density.Sigma r 0 0)) / Real.sqrt (t.density.Sigma r 0 0)) := by
  have hσ := h.sqrtSigma_pos r
  have hσ2 := h.sq_sqrtSigma r
  have hSL := h.dSigma r
  have hμ := h.dMu r
  have h2π : 0 < Real.sqrt (2 * Real.pi) := Real.sqrt_pos.2 (by positivity)
  set σ := Real.sqrt (t.density.Sigma r 0 0) with hσdef
  set μ := t.density.mu r 0
  set Λ := t.measure.Lambda r 0 0
  set ν := t.measure.nu r 0
  rw [u, evalLn_vec1, kappa, phi_eq]
  have hexp : -((x - μ) / σ) ^ 2 / 2 = -(1 / 2) * (Λ * x ^ 2) + ν * x - μ * ν / 2 := by
    have : ((x - μ) / σ) ^ 2 = Λ * (x - μ) ^ 2 := by
      rw [div_pow, hσ2]
      have hS := h.sigma_pos r
      field_simp
      linear_combination (-(x - μ) ^ 2) * hSL
    rw [this, ← hμ]
    ring
  rw [hexp]
  have : Real.exp (t.measure.lnBeta r + μ * ν / 2) * σ * Real.sqrt (2 * Real.pi) *
      (Real.exp (-(1 / 2) * (Λ * x ^ 2) + ν * x - μ * ν / 2) / Real.sqrt (2 * Real.pi) / σ) =
      Real.exp (t.measure.lnBeta r + μ * ν / 2) * Real.exp (-(1 / 2) * (Λ * x ^ 2) + ν * x - μ * ν / 2) := by
    field_simp
  rw [this, ← Real.exp_add]
  congr 1
  ring

theorem kappa_pos : 0 < kappa t r := by
  have := h.sqrtSigma_pos r
  have h2π : 0 < Real.sqrt (2 * Real.pi) := Real.sqrt_pos.2 (by positivity)
  unfold kappa
  positivity

theorem limLt_std : LimLt (t.alpha r) (t.beta r) := by
  have hl := h.lt r
  have hs : 0 < Real.sqrt (t.density.Lambda r 0 0) := by
    rw [h.sqrtLambda_eq]; exact one_div_pos.2 (h.sqrtSigma_pos r)
  rw [h.alpha, h.beta, standardise_apply, standardise_apply]
  cases hlo : t.lower r <;> cases hup : t.upper r <;> rw [hlo, hup] at hl <;>
    simp only [LimLt, stdLim] at hl ⊢
  exact mul_lt_mul_of_pos_right (by linarith) hs

/-- the standardised support is the preimage of the support under `τ ↦ μ + σ τ` -/
theorem preimage_supp :
    (fun τ => t.density.mu r 0 + Real.sqrt (t.density.Sigma r 0 0) * τ) ⁻¹'
      supp (t.lower r) (t.upper r) = supp (t.alpha r) (t.beta r) := by
  have hσ := h.sqrtSigma_pos r
  rw [h.alpha, h.beta, standardise_apply, standardise_apply, h.sqrtLambda_eq]
  set σ := Real.sqrt (t.density.Sigma r 0 0)
  set μ := t.density.mu r 0
  have hge : ∀ (l : Lim ℝ) (τ : ℝ), Lim.geOf (μ + σ * τ) l = Lim.geOf τ (stdLim μ (1 / σ) l) := by
    intro l τ
    cases l with
    | negInf => rfl
    | posInf => rfl
    | fin a =>
      simp only [Lim.geOf, stdLim, transc_lt]
      congr 1
      rw [decide_eq_decide, mul_one_div, lt_div_iff₀ hσ]
      constructor <;> intro <;> linarith
  have hle : ∀ (l : Lim ℝ) (τ : ℝ), Lim.leOf (μ + σ * τ) l = Lim.leOf τ (stdLim μ (1 / σ) l) := by
    intro l τ
    cases l with
    | negInf => rfl
    | posInf => rfl
    | fin a =>
      simp only [Lim.leOf, stdLim, transc_lt]
      congr 1
      rw [decide_eq_decide, mul_one_div, div_lt_iff₀ hσ]
      constructor <;> intro <;> linarith
  ext τ
  simp only [supp, mem_preimage, mem_ofPred_eq, hge, hle]

/-- **the k-th moment of the base function over the support**, reduced to standard normal moments
(affine substitution and binomial expansion) -/
theorem integral_pow_u (k : ℕ) :
    ∫ x in supp (t.lower r) (t.upper r), x ^ k * u t r x =
      kappa t r * ∑ i ∈ Finset.range (k + 1),
        ((k.choose i : ℝ) * Real.sqrt (t.density.Sigma r 0 0) ^ i * t.density.mu r 0 ^ (k - i))
          * mom (supp (t.alpha r) (t.beta r)) i := by
  have h1 : ∀ x, x ^ k * u t r x = kappa t r *
      (x ^ k * (phi ((x - t.density.mu r 0) / Real.sqrt (t.density.Sigma r 0 0)) /
        Real.sqrt (t.density.Sigma r 0 0))) := by
    intro x; rw [u_eq h r x]; ring
  simp_rw [h1]
  rw [integral_const_mul,
    setIntegral_pow_mul_scaled_phi _ (measurableSet_supp _ _) _ (h.sqrtSigma_pos r), preimage_supp h r]


omit h in
/-- **C20 (`_expectation_integral`)**: the standard normal mass of the standardised interval,
`Phi(β) − Phi(α)` with `Phi(−∞) = 0`, `Phi(+∞) = 1` -/
theorem C20_expectation_integral :
    t.expectationIntegral r = (t.beta r).cdf - (t.alpha r).cdf := by
  simp only [TruncB.expectationIntegral, tab_apply, C20_cdf_difference]

theorem expectationIntegral_eq_mom :
    t.expectationIntegral r = mom (supp (t.alpha r) (t.beta r)) 0 := by
  rw [C20_expectation_integral, mom_supp_zero (limLt_std h r)]

theorem expectationIntegral_pos : 0 < t.expectationIntegral r := by
  rw [C20_expectation_integral]; exact cdf_sub_pos (limLt_std h r)

/-- the total mass of the base function is `κ` -/
theorem integral_u : ∫ x, u t r x = kappa t r := by
  have h1 : ∀ x, u t r x = kappa t r *
      (x ^ 0 * (phi ((x - t.density.mu r 0) / Real.sqrt (t.density.Sigma r 0 0)) /
        Real.sqrt (t.density.Sigma r 0 0))) := by
    intro x; rw [u_eq h r x]; ring
  simp_rw [h1]
  rw [integral_const_mul, ← setIntegral_univ,
    setIntegral_pow_mul_scaled_phi _ MeasurableSet.univ _ (h.sqrtSigma_pos r)]
  simp [mom_univ_zero]

/-- the mass over the support -/
theorem integral_supp_u :
    ∫ x in supp (t.lower r) (t.upper r), u t r x = t.expectationIntegral r * kappa t r := by
  have := integral_pow_u h r 0
  simp only [pow_zero, one_mul, zero_add, Finset.range_one, Finset.sum_singleton, Nat.choose_self,
    Nat.cast_one, Nat.sub_self, mul_one] at this
  rw [this, expectationIntegral_eq_mom h]
  ring

end ok

/-! ## the moment recursion of `_get_moment` -/

/-- **C20 (scan)**: after `j` steps the carry of `lax.scan` is `(L_j, L_{j+1}) / den` with
`L_i = ∫_α^β t^i φ(t) dt`, provided `den = L_0 = Phi(β) − Phi(α)`. -/
theorem C20_scan {a b : Lim ℝ} (hab : LimLt a b) (den : ℝ) (hden : den = mom (supp a b) 0) (j : ℕ) :
    TruncB.scanCarry a b den j = (mom (supp a b) j / den, mom (supp a b) (j + 1) / den) := by
  have hpos : 0 < den := by rw [hden, mom_supp_zero hab]; exact cdf_sub_pos hab
  induction j with
  | zero =>
    simp only [TruncB.scanCarry, zero_add]
    rw [mom_supp_one hab, ← hden, div_self hpos.ne']
    congr 1
    ring
  | succ j ih =>
    simp only [TruncB.scanCarry, ih, ofNat_real]
    rw [mom_supp_succ_succ hab j]
    congr 1
    push_cast
    field_simp

section ok
variable {t : TruncB R ℝ} (h : TruncOK t) (r : Fin R)
include h

theorem momentDen_eq : t.momentDen r = t.expectationIntegral r := by
  have hp := expectationIntegral_pos h r
  simp only [TruncB.momentDen, TruncB.expectationIntegral, tab_apply, ne0_real] at hp ⊢
  simp [hp.ne']

/-- the rows of `Ls` are the normalised standard moments -/
theorem scanLs_eq (order : ℕ) (j : Fin (TruncB.lsRows order)) :
    t.scanLs order j r = mom (supp (t.alpha r) (t.beta r)) j / t.expectationIntegral r := by
  have hden := expectationIntegral_eq_mom h r
  simp only [TruncB.scanLs, tab2_apply, momentDen_eq h r]
  rcases j with ⟨j, hj⟩
  cases j with
  | zero => simp only; rw [hden, div_self]; rw [← hden]; exact (expectationIntegral_pos h r).ne'
  | succ k => simp only; rw [C20_scan (limLt_std h r) _ hden k]

/-- `_get_moment(k)` is the `k`-th moment of the normalised truncated density -/
theorem getMoment_eq (k : ℕ) :
    t.getMoment k r = (∑ i ∈ Finset.range (k + 1),
        ((k.choose i : ℝ) * Real.sqrt (t.density.Sigma r 0 0) ^ i * t.density.mu r 0 ^ (k - i))
          * mom (supp (t.alpha r) (t.beta r)) i) / t.expectationIntegral r := by
  have hp := expectationIntegral_pos h r
  simp only [TruncB.getMoment, tab_apply, momentDen_eq h r, ne0_real, vsum_real]
  rw [if_pos (by simpa using hp.ne')]
  simp only [TruncB.momentTerms, tab2_apply, scanLs_eq h r, binom_real, npow_real, transc_sqrt]
  rw [Finset.sum_div, ← Fin.sum_univ_eq_sum_range
    (fun i => ((k.choose i : ℝ) * Real.sqrt (t.density.Sigma r 0 0) ^ i * t.density.mu r 0 ^ (k - i))
          * mom (supp (t.alpha r) (t.beta r)) i / t.expectationIntegral r) (k + 1)]
  refine Finset.sum_congr rfl fun j _ => ?_
  ring

/-- core identity: `_get_moment(k) · Z · κ = ∫_{[lower,upper]} x^k u(x) dx` -/
theorem getMoment_mul (k : ℕ) :
    t.getMoment k r * (t.expectationIntegral r * kappa t r) =
      ∫ x in supp (t.lower r) (t.upper r), x ^ k * u t r x := by
  have hp := expectationIntegral_pos h r
  rw [integral_pow_u h r k, getMoment_eq h r k]
  field_simp


/-! ### mean and variance of the truncated density -/

theorem expectationX_eq (i : Fin 1) :
    t.expectationX r i = t.density.mu r 0 +
      mom (supp (t.alpha r) (t.beta r)) 1 / t.expectationIntegral r * Real.sqrt (t.density.Sigma r 0 0) := by
  obtain rfl : i = 0 := Subsingleton.elim _ _
  have hp := expectationIntegral_pos h r
  have hne : decide (t.expectationIntegral r ≠ 0) = true := by simpa using hp.ne'
  simp only [TruncB.expectationX, tab2_apply, ne0_real, transc_sqrt, hne, if_true]
  rw [mom_supp_one (limLt_std h r)]

omit h in
theorem betaPdf_eq (d : PdfV R 1 ℝ) (l : Arr R (Lim ℝ)) :
    (if (l r).isFinite then (standardise d l r).finOr0 else 0) * (standardise d l r).pdf =
      (standardise d l r).powPdf 1 := by
  rw [standardise_apply]
  cases l r <;> simp [stdLim, Lim.isFinite, Lim.finOr0]

theorem getVariance_eq (i : Fin 1) :
    t.getVariance r i = t.density.Sigma r 0 0 *
      (1 - ((t.beta r).powPdf 1 - (t.alpha r).powPdf 1) / t.expectationIntegral r
        - mom (supp (t.alpha r) (t.beta r)) 1 * mom (supp (t.alpha r) (t.beta r)) 1
          / (t.expectationIntegral r * t.expectationIntegral r)) := by
  obtain rfl : i = 0 := Subsingleton.elim _ _
  have hp := expectationIntegral_pos h r
  have hb := betaPdf_eq r t.density t.upper
  have ha := betaPdf_eq r t.density t.lower
  rw [← h.beta] at hb
  rw [← h.alpha] at ha
  have hne : decide (t.expectationIntegral r ≠ 0) = true := by simpa using hp.ne'
  simp only [TruncB.getVariance, tab2_apply, ne0_real, hne, if_true]
  rw [mom_supp_one (limLt_std h r), hb, ha]

end ok

/-! ## the property theorems for the measure class -/

/-- `constant` is the total mass of the wrapped measure (`self.constant = self.measure.integrate()`) -/
def ConstIsMass (t : TruncB R ℝ) : Prop := ∀ r, t.constant r = ∫ x, u t r x

section meas
variable {t : TruncB R ℝ} (h : TruncOK t) (hc : ConstIsMass t) (r : Fin R)
include h hc

/-- **C20 (mass)**: `integral()` is the integral of the base function over `[lower, upper]`
(either limit possibly infinite). -/
theorem C20_mass : t.integral r = ∫ x in supp (t.lower r) (t.upper r), u t r x := by
  simp only [TruncB.integral, tab_apply]
  rw [hc r, integral_u h r, integral_supp_u h r]

/-- **C20 (`x^k`)**: `integrate_x_pow_k(k)` is `∫_{[lower,upper]} x^k u(x) dx`, for every `k`. -/
theorem C20_xk (k : ℕ) (i : Fin 1) :
    t.integrateXPowK k r i = ∫ x in supp (t.lower r) (t.upper r), x ^ k * u t r x := by
  simp only [TruncB.integrateXPowK, TruncB.integral, tab_apply]
  rw [hc r, integral_u h r, getMoment_mul h r k]

/-- **C20 (`x`)**: `integrate_x()` is `∫_{[lower,upper]} x u(x) dx`. -/
theorem C20_x (i : Fin 1) :
    t.integrateX r i = ∫ x in supp (t.lower r) (t.upper r), x * u t r x := by
  have h1 := integral_pow_u h r 1
  simp only [pow_one] at h1
  simp only [TruncB.integrateX, TruncB.integral, tab_apply]
  rw [hc r, integral_u h r, h1, expectationX_eq h r i, Finset.sum_range_succ, Finset.sum_range_one,
    ← expectationIntegral_eq_mom h r]
  have hp := expectationIntegral_pos h r
  simp
  field_simp

/-- **C20 (`x²`)**: `integrate_x_pow_2()` is `∫_{[lower,upper]} x² u(x) dx`. -/
theorem C20_x2 (i : Fin 1) :
    t.integrateXPow2 r i = ∫ x in supp (t.lower r) (t.upper r), x ^ 2 * u t r x := by
  have h2 := mom_supp_succ_succ (limLt_std h r) 0
  simp only [zero_add, Nat.cast_zero] at h2
  simp only [TruncB.integrateXPow2, TruncB.integral, tab_apply]
  rw [hc r, integral_u h r, integral_pow_u h r 2, expectationX_eq h r i, getVariance_eq h r i,
    Finset.sum_range_succ, Finset.sum_range_succ, Finset.sum_range_one, h2,
    ← expectationIntegral_eq_mom h r, ← h.sq_sqrtSigma r]
  have hp := expectationIntegral_pos h r
  simp
  field_simp
  ring

end meas

/-! ## exact truncated mean and variance (both classes) -/

section ratio
variable {t : TruncB R ℝ} (h : TruncOK t) (r : Fin R)
include h

theorem integrable_pow_mul_u (k : ℕ) : Integrable fun x => x ^ k * u t r x := by
  have h1 : ∀ x, x ^ k * u t r x = kappa t r *
      (x ^ k * (phi ((x - t.density.mu r 0) / Real.sqrt (t.density.Sigma r 0 0)) /
        Real.sqrt (t.density.Sigma r 0 0))) := by
    intro x; rw [u_eq h r x]; ring
  simp_rw [h1]
  exact (integrable_pow_mul_scaled_phi _ (h.sqrtSigma_pos r).ne' k).const_mul _

theorem integral_supp_u_pos : 0 < ∫ x in supp (t.lower r) (t.upper r), u t r x := by
  rw [integral_supp_u h r]
  exact mul_pos (expectationIntegral_pos h r) (kappa_pos h r)

/-- **`_expectation_x` is the exact mean** of the base function restricted to `[lower, upper]` -/
theorem C20_mean (i : Fin 1) :
    t.expectationX r i =
      (∫ x in supp (t.lower r) (t.upper r), x * u t r x) /
        ∫ x in supp (t.lower r) (t.upper r), u t r x := by
  have h1 := integral_pow_u h r 1
  simp only [pow_one] at h1
  rw [h1, integral_supp_u h r, expectationX_eq h r i, Finset.sum_range_succ, Finset.sum_range_one,
    ← expectationIntegral_eq_mom h r]
  have hp := expectationIntegral_pos h r
  have hk := kappa_pos h r
  simp
  field_simp

/-- **`_get_variance` is the exact variance** `E[x²] − E[x]²` of the base function restricted to
`[lower, upper]` -/
theorem C20_variance (i : Fin 1) :
    t.getVariance r i =
      (∫ x in supp (t.lower r) (t.upper r), x ^ 2 * u t r x) /
          (∫ x in supp (t.lower r) (t.upper r), u t r x)
        - ((∫ x in supp (t.lower r) (t.upper r), x * u t r x) /
          ∫ x in supp (t.lower r) (t.upper r), u t r x) ^ 2 := by
  have h2 := mom_supp_succ_succ (limLt_std h r) 0
  simp only [zero_add, Nat.cast_zero] at h2
  rw [← C20_mean h r i, integral_pow_u h r 2, integral_supp_u h r, expectationX_eq h r i,
    getVariance_eq h r i, Finset.sum_range_succ, Finset.sum_range_succ, Finset.sum_range_one, h2,
    ← expectationIntegral_eq_mom h r, ← h.sq_sqrtSigma r]
  have hp := expectationIntegral_pos h r
  have hk := kappa_pos h r
  simp
  field_simp
  ring

end ratio

/-! ## adjacent intervals add up -/

theorem supp_split {a b : Lim ℝ} {c : ℝ} (hac : LimLt a (.fin c)) (hcb : LimLt (.fin c) b) :
    supp a (.fin c) = supp a b ∩ Iic c ∧ supp (.fin c) b = supp a b ∩ Ici c := by
  cases a <;> cases b <;> simp only [LimLt] at hac hcb <;> constructor <;> ext x <;>
    simp only [supp, Lim.geOf, Lim.leOf, transc_lt, mem_ofPred_eq, mem_inter_iff, mem_Iic, mem_Ici,
      Bool.not_eq_true', decide_eq_false_iff_not, not_lt, true_and, and_true] <;> grind

theorem setIntegral_supp_add {a b : Lim ℝ} {c : ℝ} (hac : LimLt a (.fin c)) (hcb : LimLt (.fin c) b)
    (f : ℝ → ℝ) (hf : Integrable f) :
    (∫ x in supp a (.fin c), f x) + ∫ x in supp (.fin c) b, f x = ∫ x in supp a b, f x := by
  rw [(supp_split hac hcb).1, (supp_split hac hcb).2]
  exact setIntegral_inter_Iic_add_inter_Ici _ c f hf.integrableOn

/-- **C20 (additivity)**: for the same wrapped measure, the `k`-th moment integrals over `[a, c]` and
`[c, b]` (`a`, `b` possibly infinite) add up to the one over `[a, b]`; with `a = −∞`, `b = +∞` the
right-hand side is the untruncated integral. -/
theorem C20_additive {t₁ t₂ t₃ : TruncB R ℝ} (h₁ : TruncOK t₁) (h₂ : TruncOK t₂) (h₃ : TruncOK t₃)
    (c₁ : ConstIsMass t₁) (c₂ : ConstIsMass t₂) (c₃ : ConstIsMass t₃)
    (hm₁ : t₁.measure = t₃.measure) (hm₂ : t₂.measure = t₃.measure) (r : Fin R) (c : ℝ)
    (hlo : t₁.lower r = t₃.lower r) (hmid₁ : t₁.upper r = .fin c) (hmid₂ : t₂.lower r = .fin c)
    (hup : t₂.upper r = t₃.upper r) (k : ℕ) (i : Fin 1) :
    t₁.integrateXPowK k r i + t₂.integrateXPowK k r i = t₃.integrateXPowK k r i := by
  have hu₁ : u t₁ r = u t₃ r := by funext x; simp only [u, hm₁]
  have hu₂ : u t₂ r = u t₃ r := by funext x; simp only [u, hm₂]
  have hac : LimLt (t₃.lower r) (.fin c) := by rw [← hlo, ← hmid₁]; exact h₁.lt r
  have hcb : LimLt (.fin c) (t₃.upper r) := by rw [← hup, ← hmid₂]; exact h₂.lt r
  rw [C20_xk h₁ c₁, C20_xk h₂ c₂, C20_xk h₃ c₃, hu₁, hu₂, hlo, hmid₁, hmid₂, hup]
  exact setIntegral_supp_add hac hcb _ (integrable_pow_mul_u h₃ r k)

/-- additivity of the masses (`integral()`) -/
theorem C20_additive_mass {t₁ t₂ t₃ : TruncB R ℝ} (h₁ : TruncOK t₁) (h₂ : TruncOK t₂) (h₃ : TruncOK t₃)
    (c₁ : ConstIsMass t₁) (c₂ : ConstIsMass t₂) (c₃ : ConstIsMass t₃)
    (hm₁ : t₁.measure = t₃.measure) (hm₂ : t₂.measure = t₃.measure) (r : Fin R) (c : ℝ)
    (hlo : t₁.lower r = t₃.lower r) (hmid₁ : t₁.upper r = .fin c) (hmid₂ : t₂.lower r = .fin c)
    (hup : t₂.upper r = t₃.upper r) :
    t₁.integral r + t₂.integral r = t₃.integral r := by
  have hu₁ : u t₁ r = u t₃ r := by funext x; simp only [u, hm₁]
  have hu₂ : u t₂ r = u t₃ r := by funext x; simp only [u, hm₂]
  have hac : LimLt (t₃.lower r) (.fin c) := by rw [← hlo, ← hmid₁]; exact h₁.lt r
  have hcb : LimLt (.fin c) (t₃.upper r) := by rw [← hup, ← hmid₂]; exact h₂.lt r
  rw [C20_mass h₁ c₁, C20_mass h₂ c₂, C20_mass h₃ c₃, hu₁, hu₂, hlo, hmid₁, hmid₂, hup]
  have := integrable_pow_mul_u h₃ r 0
  simp only [pow_zero, one_mul] at this
  exact setIntegral_supp_add hac hcb _ this

/-- additivity of `integrate_x()` and `integrate_x_pow_2()` -/
theorem C20_additive_x {t₁ t₂ t₃ : TruncB R ℝ} (h₁ : TruncOK t₁) (h₂ : TruncOK t₂) (h₃ : TruncOK t₃)
    (c₁ : ConstIsMass t₁) (c₂ : ConstIsMass t₂) (c₃ : ConstIsMass t₃)
    (hm₁ : t₁.measure = t₃.measure) (hm₂ : t₂.measure = t₃.measure) (r : Fin R) (c : ℝ)
    (hlo : t₁.lower r = t₃.lower r) (hmid₁ : t₁.upper r = .fin c) (hmid₂ : t₂.lower r = .fin c)
    (hup : t₂.upper r = t₃.upper r) (i : Fin 1) :
    t₁.integrateX r i + t₂.integrateX r i = t₃.integrateX r i ∧
      t₁.integrateXPow2 r i + t₂.integrateXPow2 r i = t₃.integrateXPow2 r i := by
  have hu₁ : u t₁ r = u t₃ r := by funext x; simp only [u, hm₁]
  have hu₂ : u t₂ r = u t₃ r := by funext x; simp only [u, hm₂]
  have hac : LimLt (t₃.lower r) (.fin c) := by rw [← hlo, ← hmid₁]; exact h₁.lt r
  have hcb : LimLt (.fin c) (t₃.upper r) := by rw [← hup, ← hmid₂]; exact h₂.lt r
  constructor
  · rw [C20_x h₁ c₁, C20_x h₂ c₂, C20_x h₃ c₃, hu₁, hu₂, hlo, hmid₁, hmid₂, hup]
    have := integrable_pow_mul_u h₃ r 1
    simp only [pow_one] at this
    exact setIntegral_supp_add hac hcb _ this
  · rw [C20_x2 h₁ c₁, C20_x2 h₂ c₂, C20_x2 h₃ c₃, hu₁, hu₂, hlo, hmid₁, hmid₂, hup]
    exact setIntegral_supp_add hac hcb _ (integrable_pow_mul_u h₃ r 2)

/-! ## the constructor establishes the hypotheses -/

section construct
open Matrix

theorem inv_one_apply (A : Matrix (Fin 1) (Fin 1) ℝ) (hA : A 0 0 ≠ 0) : A⁻¹ 0 0 * A 0 0 = 1 := by
  have hdet : A.det = A 0 0 := Matrix.det_fin_one A
  have h := Matrix.nonsing_inv_mul A (isUnit_iff_ne_zero.2 (hdet ▸ hA))
  have := congrFun (congrFun h 0) 0
  simpa [Matrix.mul_apply] using this

theorem exp_half_log {x : ℝ} (hx : 0 < x) : Real.exp (1 / 2 * Real.log x) = Real.sqrt x := by
  rw [← Real.exp_log (Real.sqrt_pos.2 hx), Real.log_sqrt hx.le]
  congr 1
  ring

/-- the view `d` carries the parameters of the (one-dimensional) measure `m` -/
structure DensOf (m : MeasureB R 1 ℝ) (d : PdfV R 1 ℝ) : Prop where
  lambda : ∀ r, toM (d.Lambda r) = toM (m.Lambda r)
  nu : ∀ r, toV (d.nu r) = toV (m.nu r)
  sigma : ∀ r, toM (d.Sigma r) = (toM (m.Lambda r))⁻¹
  mu : ∀ r, toV (d.mu r) = (toM (m.Lambda r))⁻¹ *ᵥ toV (m.nu r)

/-- scalar consequences of `DensOf` in one dimension -/
theorem DensOf.scalars {m : MeasureB R 1 ℝ} (hm : m.Inv) {d : PdfV R 1 ℝ} (hd : DensOf m d) (r : Fin R) :
    0 < m.Lambda r 0 0 ∧ d.Lambda r 0 0 = m.Lambda r 0 0 ∧ d.Sigma r 0 0 * m.Lambda r 0 0 = 1 ∧
      d.mu r 0 * m.Lambda r 0 0 = m.nu r 0 ∧ d.nu r 0 = m.nu r 0 ∧
      (toM (m.Lambda r)).det = m.Lambda r 0 0 ∧
      toV (m.nu r) ⬝ᵥ (toM (m.Lambda r))⁻¹ *ᵥ toV (m.nu r) = m.nu r 0 * d.mu r 0 := by
  have hpos : 0 < m.Lambda r 0 0 := by
    have := (hm.posDef r).diag_pos (i := 0)
    simpa using this
  have hinv := inv_one_apply (toM (m.Lambda r)) (by simpa using hpos.ne')
  have hL : d.Lambda r 0 0 = m.Lambda r 0 0 := by
    have := congrFun (congrFun (hd.lambda r) 0) 0
    simpa using this
  have hS : d.Sigma r 0 0 = (toM (m.Lambda r))⁻¹ 0 0 := by
    have := congrFun (congrFun (hd.sigma r) 0) 0
    simpa using this
  have hmu : d.mu r 0 = (toM (m.Lambda r))⁻¹ 0 0 * m.nu r 0 := by
    have := congrFun (hd.mu r) 0
    simpa [Matrix.mulVec, dotProduct] using this
  have hnu : d.nu r 0 = m.nu r 0 := by
    have := congrFun (hd.nu r) 0
    simpa using this
  simp only [toM_apply] at hinv
  refine ⟨hpos, hL, ?_, ?_, hnu, by simp, ?_⟩
  · rw [hS]; exact hinv
  · rw [hmu]; linear_combination (m.nu r 0) * hinv
  · rw [← hd.mu r]; simp [dotProduct]

variable {be : Backend ℝ} (hbe : be.Spec)
include hbe

/-- the object assembled by `__post_init__` from a consistent measure and its density view -/
theorem truncOK_of_densOf (m1 : MeasureB R 1 ℝ) (h1 : m1.Inv) (d : PdfV R 1 ℝ) (hd : DensOf m1 d)
    (lo up : Arr R (Lim ℝ)) (hlt : ∀ r, LimLt (lo r) (up r)) :
    TruncOK (⟨false, (m1.integral be).1, lo, up, d, (m1.integral be).2, standardise d lo,
        standardise d up⟩ : TruncB R ℝ) ∧
      ConstIsMass (⟨false, (m1.integral be).1, lo, up, d, (m1.integral be).2, standardise d lo,
        standardise d up⟩ : TruncB R ℝ) := by
  have hfst : (m1.integral be).1 = m1.prepare be := rfl
  have hok : TruncOK (⟨false, (m1.integral be).1, lo, up, d, (m1.integral be).2, standardise d lo,
        standardise d up⟩ : TruncB R ℝ) := by
    refine ⟨?_, ?_, ?_, ?_, ?_, rfl, rfl, hlt⟩ <;> intro r <;>
      obtain ⟨s1, s2, s3, s4, s5, -, -⟩ := hd.scalars h1 r <;>
      simp only [hfst, prepare_Lambda, prepare_nu] <;> assumption
  refine ⟨hok, ?_⟩
  intro r
  rw [integral_u hok r]
  obtain ⟨s1, s2, s3, s4, s5, s6, s7⟩ := hd.scalars h1 r
  have hSpos : 0 < d.Sigma r 0 0 := by
    by_contra hc
    push Not at hc
    nlinarith
  have hlogL : Real.log (m1.Lambda r 0 0) = -Real.log (d.Sigma r 0 0) := by
    have : m1.Lambda r 0 0 = (d.Sigma r 0 0)⁻¹ := by field_simp; linarith
    rw [this, Real.log_inv]
  have hli : (m1.logIntegral be).1 = m1.prepare be := rfl
  simp only [kappa, MeasureB.integral, tab_apply, transc_exp, hli, prepare_lnBeta, prepare_nu]
  rw [Props.C02.logIntegral_value hbe h1 r, lnZRef, s6, s7, hlogL, Nat.cast_one, one_mul]
  have : 1 / 2 * (m1.nu r 0 * d.mu r 0 + Real.log (2 * Real.pi) - -Real.log (d.Sigma r 0 0)) + m1.lnBeta r =
      (m1.lnBeta r + d.mu r 0 * m1.nu r 0 / 2) + 1 / 2 * Real.log (d.Sigma r 0 0)
        + 1 / 2 * Real.log (2 * Real.pi) := by ring
  rw [this, Real.exp_add, Real.exp_add, exp_half_log hSpos, exp_half_log (by positivity)]


omit hbe in
/-- a density object with its caches is its own view -/
theorem densOf_asPdf {m : MeasureB R 1 ℝ} (hm : m.Inv) {d : PdfV R 1 ℝ} (hd : m.asPdf = some d) :
    DensOf m d := by
  unfold MeasureB.asPdf at hd
  cases hc : m.cov with
  | none => simp [hc] at hd
  | some c =>
    cases hmu : m.mu with
    | none => simp [hc, hmu] at hd
    | some mu =>
      cases hz : m.lnZ with
      | none => simp [hc, hmu, hz] at hd
      | some z =>
        simp only [hc, hmu, hz, Option.some.injEq] at hd
        subst hd
        exact ⟨fun r => rfl, fun r => rfl, fun r => (hm.cov c hc r).inv, fun r => hm.mu mu hmu r⟩

/-- the view of `get_density()` carries the parameters of the measure, and is normalised -/
theorem densOf_getDensity {m : MeasureB R 1 ℝ} (hm : m.Inv) {d : PdfV R 1 ℝ}
    (hd : (m.getDensity be).2.asPdf = some d) :
    DensOf (m.prepare be) d ∧ ∀ r, d.lnBeta r = -lnZRef (toM (m.Lambda r)) (toV (m.nu r)) := by
  have hp := inv_prepare (be := be) hbe hm
  have hmu : (m.prepare be).mu.isSome := Props.C02.ensureMu_mu_isSome
  have hcov : (m.prepare be).cov.isSome := hp.covOfMu hmu
  simp only [MeasureB.getDensity, MeasureB.densityOf] at hd
  cases hc : (m.prepare be).cov with
  | none => simp [hc] at hcov
  | some c =>
    cases hmm : (m.prepare be).mu with
    | none => simp [hmm] at hmu
    | some mu =>
      rw [hc, hmm] at hd
      simp only at hd
      have hunit : ∀ r, IsUnit (toM ((m.prepare be).Lambda r)).det := fun r => (hp.posDef r).det_pos.ne'.isUnit
      have hargs : Props.C02.PdfArgsOK false c.Sigma (some (m.prepare be).Lambda) (some c.lnDetSigma) := by
        refine ⟨?_, by simp, ?_, ?_⟩
        · intro r
          rw [(hp.cov c hc r).inv]
          exact (hp.posDef r).inv
        · intro L hL r
          simp only [Option.some.injEq] at hL
          subst hL
          rw [(hp.cov c hc r).inv, Matrix.nonsing_inv_nonsing_inv _ (hunit r)]
        · intro L ld _ hld r
          simp only [Option.some.injEq] at hld
          subst hld
          exact (hp.cov c hc r).logdet
      obtain ⟨j, hj, hS, hmu', -, hL, hnu, hlb, -⟩ :=
        mkPdf_asPdf (be := be) false c.Sigma mu (some (m.prepare be).Lambda) (some c.lnDetSigma)
      rw [hj] at hd
      cases hd
      have hpar := fun r => mkPdf_params hbe false c.Sigma mu (some (m.prepare be).Lambda)
        (some c.lnDetSigma) hargs r
      have hSi : ∀ r, (toM (c.Sigma r))⁻¹ = toM ((m.prepare be).Lambda r) := fun r => by
        rw [(hp.cov c hc r).inv, Matrix.nonsing_inv_nonsing_inv _ (hunit r)]
      have hnu' : ∀ r, (toM (c.Sigma r))⁻¹ *ᵥ toV (mu r) = toV ((m.prepare be).nu r) := fun r => by
        rw [hSi, hp.mu mu hmm r, Matrix.mulVec_mulVec, Matrix.mul_nonsing_inv _ (hunit r), Matrix.one_mulVec]
      refine ⟨⟨?_, ?_, ?_, ?_⟩, ?_⟩
      · intro r; rw [hL, (hpar r).1, hSi]
      · intro r; rw [hnu, (hpar r).2.1, hnu']
      · intro r; rw [hS]; exact (hp.cov c hc r).inv
      · intro r; rw [hmu']; exact hp.mu mu hmm r
      · intro r
        rw [hlb, (hpar r).2.2, hnu', hSi, prepare_Lambda, prepare_nu]

/-- **`TruncatedGaussianMeasure(measure, lower, upper)` establishes the hypotheses** of the C20
theorems, for every consistent one-dimensional measure (any of the four classes) and limits with
`lower < upper` in every component. -/
theorem mkTruncMeasure_ok {m : MeasureB R 1 ℝ} (hm : m.Inv) (lower upper : Option (LimArg R ℝ))
    {m' : MeasureB R 1 ℝ} {t : TruncB R ℝ} (hres : mkTruncMeasure be m lower upper = some (m', t))
    (hlt : ∀ r, LimLt (t.lower r) (t.upper r)) :
    TruncOK t ∧ ConstIsMass t ∧ t.isPdf = false := by
  unfold mkTruncMeasure at hres
  cases hcl : checkLimits lower upper with
  | none => simp [hcl] at hres
  | some lu =>
    obtain ⟨lo, up⟩ := lu
    simp only [hcl] at hres
    by_cases hcls : m.cls.isPdf = true
    · simp only [hcls, if_true] at hres
      cases hd : m.asPdf with
      | none => simp [hd] at hres
      | some d =>
        simp only [hd, Option.some.injEq, Prod.mk.injEq] at hres
        obtain ⟨-, rfl⟩ := hres
        have := truncOK_of_densOf hbe m hm d (densOf_asPdf hm hd) lo up hlt
        exact ⟨this.1, this.2, rfl⟩
    · simp only [hcls, Bool.false_eq_true, if_false] at hres
      cases hd : (m.getDensity be).2.asPdf with
      | none => simp [hd] at hres
      | some d =>
        simp only [hd, Option.some.injEq, Prod.mk.injEq] at hres
        obtain ⟨-, rfl⟩ := hres
        have := truncOK_of_densOf hbe (m.prepare be) (inv_prepare hbe hm) d
          (densOf_getDensity hbe hm hd).1 lo up hlt
        exact ⟨this.1, this.2, rfl⟩

end construct

/-! ## the normalised truncated density -/

/-- what `TruncatedGaussianPDF.__post_init__` does after the parent constructor -/
noncomputable def toPdf (t : TruncB R ℝ) : TruncB R ℝ :=
  { t with isPdf := true, measure := t.density.toMeasure,
           constant := tab fun r => 1 / t.expectationIntegral r }

theorem mkTruncPdf_eq (be : Backend ℝ) (m : MeasureB R 1 ℝ) (lower upper : Option (LimArg R ℝ)) :
    mkTruncPdf be m lower upper =
      (mkTruncMeasure be m lower upper).map fun p => (p.1, toPdf p.2) := by
  unfold mkTruncPdf
  cases mkTruncMeasure be m lower upper <;> rfl

/-- `get_density()` of a truncated measure -/
theorem getDensity_eq (be : Backend ℝ) (t : TruncB R ℝ) :
    t.getDensity be =
      (mkTruncMeasure be t.density.toMeasure (some (.perComp t.lower)) (some (.perComp t.upper))).map
        fun p => toPdf p.2 := by
  unfold TruncB.getDensity
  rw [mkTruncPdf_eq, Option.map_map]
  rfl

/-- the normalised base density `N(x; μ, σ²)` stored in the object -/
noncomputable def dens (t : TruncB R ℝ) (r : Fin R) (x : ℝ) : ℝ := Real.exp (t.density.evalLn r (vec1 x))

/-- the stored density view is normalised (established by the constructor, `mkTruncMeasure_densNorm`) -/
def DensNorm (t : TruncB R ℝ) : Prop := ∀ r, ∫ x, dens t r x = 1

theorem u_toPdf (t : TruncB R ℝ) (r : Fin R) : u (toPdf t) r = dens t r := rfl

theorem TruncOK.toPdf {t : TruncB R ℝ} (h : TruncOK t) : TruncOK (toPdf t) := by
  refine ⟨?_, fun r => rfl, ?_, ?_, fun r => rfl, h.alpha, h.beta, h.lt⟩
  · intro r
    show 0 < t.density.Lambda r 0 0
    rw [h.dLambda]; exact h.lamPos r
  · intro r
    show t.density.Sigma r 0 0 * t.density.Lambda r 0 0 = 1
    rw [h.dLambda]; exact h.dSigma r
  · intro r
    show t.density.mu r 0 * t.density.Lambda r 0 0 = t.density.nu r 0
    rw [h.dLambda, h.dNu]; exact h.dMu r

section density
variable {t : TruncB R ℝ} (h : TruncOK t) (hn : DensNorm t) (r : Fin R)
include h hn

theorem kappa_toPdf : kappa (toPdf t) r = 1 := by
  rw [← integral_u h.toPdf r, u_toPdf]; exact hn r

/-- the truncated mass of the normalised density is `Phi(β) − Phi(α)` -/
theorem C20_density_Z :
    ∫ x in supp (t.lower r) (t.upper r), dens t r x = t.expectationIntegral r := by
  have := integral_supp_u h.toPdf r
  rw [kappa_toPdf h hn r, mul_one, u_toPdf] at this
  exact this

open Classical in
/-- **C20 (density, evaluation)**: `TruncatedGaussianPDF.__call__` is the normalised base density
divided by its mass over `[lower, upper]` inside the interval, `0` outside. -/
theorem C20_density_eval (x : Vec 1 ℝ) :
    (toPdf t).call r x =
      if x 0 ∈ supp (t.lower r) (t.upper r) then
        dens t r (x 0) / ∫ y in supp (t.lower r) (t.upper r), dens t r y
      else 0 := by
  rw [C20_eval, C20_density_Z h hn r, u_toPdf]
  simp only [toPdf, tab_apply, if_true]
  congr 1
  ring

omit hn in
/-- **C20 (density, `integral()`)**: the code's `integral()` of the normalised truncated density is 1 -/
theorem C20_density_integral : (toPdf t).integral r = 1 := by
  have hp := expectationIntegral_pos h r
  simp only [TruncB.integral, tab_apply]
  show t.expectationIntegral r * (toPdf t).constant r = 1
  simp only [toPdf, tab_apply]
  field_simp

omit h hn in
/-- integrals against `__call__` over the whole line are integrals over the support -/
theorem integral_call_toPdf (g : ℝ → ℝ) :
    ∫ x, g x * (toPdf t).call r (vec1 x) =
      (∫ x in supp (t.lower r) (t.upper r), g x * dens t r x) / t.expectationIntegral r := by
  classical
  have h1 : ∀ x, g x * (toPdf t).call r (vec1 x) =
      (supp (t.lower r) (t.upper r)).indicator (fun x => g x * dens t r x / t.expectationIntegral r) x := by
    intro x
    rw [C20_eval, u_toPdf]
    simp only [vec1_apply, toPdf, tab_apply, if_true, indicator]
    split_ifs <;> ring
  simp_rw [h1]
  rw [integral_indicator (measurableSet_supp _ _), integral_div]

/-- **C20 (density, true integral)**: the evaluated function integrates to one -/
theorem C20_density_integrates_to_one : ∫ x, (toPdf t).call r (vec1 x) = 1 := by
  have hp := expectationIntegral_pos h r
  have := integral_call_toPdf (t := t) r (fun _ => 1)
  simp only [one_mul] at this
  rw [this, C20_density_Z h hn r, div_self hp.ne']

/-- **C20 (density, mean)**: `_expectation_x` (= `integrate("x")` of the density, `get_mean`) is the
mean of the evaluated function -/
theorem C20_density_mean (i : Fin 1) :
    (toPdf t).expectationX r i = ∫ x, x * (toPdf t).call r (vec1 x) := by
  rw [integral_call_toPdf r, C20_mean h.toPdf r i, u_toPdf, ← C20_density_Z h hn r]
  rfl

/-- **C20 (density, variance)**: `_get_variance` is the variance of the evaluated function -/
theorem C20_density_variance (i : Fin 1) :
    (toPdf t).getVariance r i =
      (∫ x, x ^ 2 * (toPdf t).call r (vec1 x)) - (∫ x, x * (toPdf t).call r (vec1 x)) ^ 2 := by
  rw [integral_call_toPdf r, integral_call_toPdf r, C20_variance h.toPdf r i, u_toPdf,
    ← C20_density_Z h hn r]
  rfl

/-- `integrate_x`, `integrate_x_pow_2`, `integrate_x_pow_k` of the density are its moments -/
theorem C20_density_xk (k : ℕ) (i : Fin 1) :
    (toPdf t).integrateXPowK k r i = ∫ x, x ^ k * (toPdf t).call r (vec1 x) := by
  have hp := expectationIntegral_pos h r
  have hg := getMoment_mul h.toPdf r k
  rw [kappa_toPdf h hn r] at hg
  have hl : (toPdf t).lower = t.lower := rfl
  have hu' : (toPdf t).upper = t.upper := rfl
  rw [hl, hu'] at hg
  rw [integral_call_toPdf r, ← u_toPdf, ← hg]
  simp only [TruncB.integrateXPowK, tab_apply, C20_density_integral h r]
  have : (toPdf t).expectationIntegral r = t.expectationIntegral r := rfl
  rw [this]
  field_simp

end density

/-! ## the constructor establishes normalisation; it does not fail -/

section construct2
open Matrix
variable {be : Backend ℝ} (hbe : be.Spec)

theorem exp_lnZRef_one {m1 : MeasureB R 1 ℝ} (h1 : m1.Inv) {d : PdfV R 1 ℝ} (hd : DensOf m1 d) (r : Fin R) :
    Real.exp (lnZRef (toM (m1.Lambda r)) (toV (m1.nu r))) =
      Real.exp (d.mu r 0 * m1.nu r 0 / 2) * Real.sqrt (d.Sigma r 0 0) * Real.sqrt (2 * Real.pi) := by
  obtain ⟨s1, s2, s3, s4, s5, s6, s7⟩ := hd.scalars h1 r
  have hSpos : 0 < d.Sigma r 0 0 := by
    by_contra hc
    push Not at hc
    nlinarith
  have hlogL : Real.log (m1.Lambda r 0 0) = -Real.log (d.Sigma r 0 0) := by
    have : m1.Lambda r 0 0 = (d.Sigma r 0 0)⁻¹ := by field_simp; linarith
    rw [this, Real.log_inv]
  rw [lnZRef, s6, s7, hlogL, Nat.cast_one, one_mul]
  have : 1 / 2 * (m1.nu r 0 * d.mu r 0 + Real.log (2 * Real.pi) - -Real.log (d.Sigma r 0 0)) =
      d.mu r 0 * m1.nu r 0 / 2 + 1 / 2 * Real.log (d.Sigma r 0 0) + 1 / 2 * Real.log (2 * Real.pi) := by ring
  rw [this, Real.exp_add, Real.exp_add, exp_half_log hSpos, exp_half_log (by positivity)]

/-- a view with `ln β = −lnZ` is normalised -/
theorem densNorm_of {m1 : MeasureB R 1 ℝ} (h1 : m1.Inv) {t : TruncB R ℝ} (hd : DensOf m1 t.density)
    (hlb : ∀ r, t.density.lnBeta r = -lnZRef (toM (m1.Lambda r)) (toV (m1.nu r))) (ht : TruncOK t) :
    DensNorm t := by
  intro r
  have h2 := integral_u ht.toPdf r
  rw [u_toPdf] at h2
  rw [h2]
  obtain ⟨s1, s2, s3, s4, s5, s6, s7⟩ := hd.scalars h1 r
  have hL := exp_lnZRef_one h1 hd r
  show Real.exp (t.density.lnBeta r + t.density.mu r 0 * t.density.nu r 0 / 2)
    * Real.sqrt (t.density.Sigma r 0 0) * Real.sqrt (2 * Real.pi) = 1
  rw [hlb r, s5, neg_add_eq_sub, Real.exp_sub, hL]
  have hσ := ht.sqrtSigma_pos r
  have h2π : 0 < Real.sqrt (2 * Real.pi) := Real.sqrt_pos.2 (by positivity)
  have he := Real.exp_pos (t.density.mu r 0 * m1.nu r 0 / 2)
  field_simp

include hbe

/-- **the density view stored by the constructor is normalised** (for a density-class input this
needs `ln β = −lnZ`, which the density constructor guarantees) -/
theorem mkTruncMeasure_densNorm {m : MeasureB R 1 ℝ} (hm : m.Inv)
    (hnorm : m.cls.isPdf = true → ∀ r, m.lnBeta r = -lnZRef (toM (m.Lambda r)) (toV (m.nu r)))
    (lower upper : Option (LimArg R ℝ))
    {m' : MeasureB R 1 ℝ} {t : TruncB R ℝ} (hres : mkTruncMeasure be m lower upper = some (m', t))
    (hlt : ∀ r, LimLt (t.lower r) (t.upper r)) : DensNorm t := by
  have hok := (mkTruncMeasure_ok hbe hm lower upper hres hlt).1
  unfold mkTruncMeasure at hres
  cases hcl : checkLimits lower upper with
  | none => simp [hcl] at hres
  | some lu =>
    obtain ⟨lo, up⟩ := lu
    simp only [hcl] at hres
    by_cases hcls : m.cls.isPdf = true
    · simp only [hcls, if_true] at hres
      cases hd : m.asPdf with
      | none => simp [hd] at hres
      | some d =>
        simp only [hd, Option.some.injEq, Prod.mk.injEq] at hres
        obtain ⟨-, rfl⟩ := hres
        refine densNorm_of hm (densOf_asPdf hm hd) ?_ hok
        intro r
        have : d.lnBeta = m.lnBeta := by
          unfold MeasureB.asPdf at hd
          split at hd
          · simp only [Option.some.injEq] at hd; subst hd; rfl
          · simp at hd
        show d.lnBeta r = _
        rw [this]; exact hnorm hcls r
    · simp only [hcls, Bool.false_eq_true, if_false] at hres
      cases hd : (m.getDensity be).2.asPdf with
      | none => simp [hd] at hres
      | some d =>
        simp only [hd, Option.some.injEq, Prod.mk.injEq] at hres
        obtain ⟨-, rfl⟩ := hres
        have hdd := densOf_getDensity hbe hm hd
        refine densNorm_of (inv_prepare hbe hm) hdd.1 ?_ hok
        intro r
        show d.lnBeta r = _
        rw [hdd.2 r, prepare_Lambda, prepare_nu]

/-- the constructor returns an object whenever a limit is given (measure-class input) -/
theorem mkTruncMeasure_isSome {m : MeasureB R 1 ℝ} (hm : m.Inv) (hcls : m.cls.isPdf = false)
    (lower upper : Option (LimArg R ℝ)) (hlim : lower.isSome ∨ upper.isSome) :
    (mkTruncMeasure be m lower upper).isSome := by
  have hp := inv_prepare (be := be) hbe hm
  have hmu : (m.prepare be).mu.isSome := Props.C02.ensureMu_mu_isSome
  have hcov : (m.prepare be).cov.isSome := hp.covOfMu hmu
  obtain ⟨c, hc⟩ := Option.isSome_iff_exists.1 hcov
  obtain ⟨mu, hmm⟩ := Option.isSome_iff_exists.1 hmu
  have hdens : ∃ j, (m.getDensity be).2.asPdf = some j := by
    simp only [MeasureB.getDensity, MeasureB.densityOf, hc, hmm]
    obtain ⟨j, hj, -⟩ := mkPdf_asPdf (be := be) false c.Sigma mu (some (m.prepare be).Lambda)
      (some c.lnDetSigma)
    exact ⟨j, hj⟩
  obtain ⟨j, hj⟩ := hdens
  have hchk : ∃ lu, checkLimits lower upper = some lu := by
    cases lower <;> cases upper <;> simp_all [checkLimits]
  obtain ⟨lu, hlu⟩ := hchk
  unfold mkTruncMeasure
  simp [hlu, hcls, hj]

omit hbe in
/-- the limits stored in the object are the broadcast arguments -/
theorem mkTruncMeasure_limits {m : MeasureB R 1 ℝ} (lower upper : Option (LimArg R ℝ))
    {m' : MeasureB R 1 ℝ} {t : TruncB R ℝ} (hres : mkTruncMeasure be m lower upper = some (m', t)) :
    checkLimits lower upper = some (t.lower, t.upper) := by
  unfold mkTruncMeasure at hres
  cases hcl : checkLimits lower upper with
  | none => simp [hcl] at hres
  | some lu =>
    obtain ⟨lo, up⟩ := lu
    simp only [hcl] at hres
    split at hres
    · simp at hres
    · simp only [Option.some.injEq, Prod.mk.injEq] at hres
      obtain ⟨-, rfl⟩ := hres
      rfl

end construct2

/-! ## finite limits as interval integrals, and the untruncated case -/

theorem setIntegral_supp_fin {a b : ℝ} (hab : a ≤ b) (f : ℝ → ℝ) :
    ∫ x in supp (.fin a) (.fin b), f x = ∫ x in a..b, f x := by
  rw [supp_fin_fin, intervalIntegral.integral_of_le hab, integral_Icc_eq_integral_Ioc]

/-- **C20 for finite limits**: mass and `k`-th moments as interval integrals `∫_a^b` -/
theorem C20_xk_interval {t : TruncB R ℝ} (h : TruncOK t) (hc : ConstIsMass t) (r : Fin R) {a b : ℝ}
    (hlo : t.lower r = .fin a) (hup : t.upper r = .fin b) (k : ℕ) (i : Fin 1) :
    t.integral r = (∫ x in a..b, u t r x) ∧
      t.integrateXPowK k r i = ∫ x in a..b, x ^ k * u t r x := by
  have hab : a ≤ b := by
    have := h.lt r
    rw [hlo, hup] at this
    exact le_of_lt this
  rw [C20_mass h hc, C20_xk h hc, hlo, hup, setIntegral_supp_fin hab, setIntegral_supp_fin hab]
  exact ⟨rfl, rfl⟩

/-- one-sided and doubly infinite limits: integrals over `(−∞, b]`, `[a, ∞)`, `ℝ` -/
theorem C20_xk_infinite {t : TruncB R ℝ} (h : TruncOK t) (hc : ConstIsMass t) (r : Fin R) (k : ℕ)
    (i : Fin 1) :
    (∀ b, t.lower r = .negInf → t.upper r = .fin b →
      t.integrateXPowK k r i = ∫ x in Iic b, x ^ k * u t r x) ∧
    (∀ a, t.lower r = .fin a → t.upper r = .posInf →
      t.integrateXPowK k r i = ∫ x in Ici a, x ^ k * u t r x) ∧
    (t.lower r = .negInf → t.upper r = .posInf →
      t.integrateXPowK k r i = ∫ x, x ^ k * u t r x) := by
  refine ⟨fun b hlo hup => ?_, fun a hlo hup => ?_, fun hlo hup => ?_⟩ <;>
    rw [C20_xk h hc, hlo, hup] <;> simp

/-! ## non-vacuity -/

/-- the constructor applied to the measure `exp(−x² + x)` truncated to `[−1, ∞)` returns an object
satisfying every hypothesis used above -/
example : ∃ (m' : MeasureB 1 1 ℝ) (t : TruncB 1 ℝ),
    mkTruncMeasure Backend.sat
      (MeasureB.mk0 .measure (tab fun _ => ofM !![2]) (tab fun _ => ofV ![1]) (tab fun _ => 0))
      (some (.scalar (.fin (-1)))) none = some (m', t) ∧
    TruncOK t ∧ ConstIsMass t ∧ DensNorm t ∧ TruncOK (toPdf t) := by
  have hm : (MeasureB.mk0 .measure (tab fun _ => ofM !![2]) (tab fun _ => ofV ![1])
      (tab fun _ => 0) : MeasureB 1 1 ℝ).Inv := by
    refine inv_mk0 _ _ _ _ ?_ (by simp [MCls.isDiag])
    intro r
    simp only [tab_apply, toM_ofM]
    apply Matrix.PosDef.of_dotProduct_mulVec_pos
    · ext i j; fin_cases i; fin_cases j; simp
    · intro x hx
      have hx' : x 0 ≠ 0 := by
        intro h0
        apply hx
        ext i; fin_cases i; simpa using h0
      simp only [dotProduct, Matrix.mulVec, Fin.sum_univ_one, star_trivial, Matrix.of_apply,
        Matrix.cons_val', Matrix.cons_val_fin_one]
      nlinarith [sq_pos_of_ne_zero hx']
  have hsome := mkTruncMeasure_isSome Backend.sat_spec hm rfl (some (.scalar (.fin (-1)))) none
    (Or.inl rfl)
  obtain ⟨⟨m', t⟩, hres⟩ := Option.isSome_iff_exists.1 hsome
  have hlim := mkTruncMeasure_limits _ _ hres
  have hlt : ∀ r, LimLt (t.lower r) (t.upper r) := by
    intro r
    simp only [checkLimits, Option.some.injEq, Prod.mk.injEq] at hlim
    rw [← hlim.1, ← hlim.2]
    simp [LimLt]
  obtain ⟨h1, h2, -⟩ := mkTruncMeasure_ok Backend.sat_spec hm _ _ hres hlt
  have h3 := mkTruncMeasure_densNorm Backend.sat_spec hm (by intro h; simp [MeasureB.mk0, MCls.isPdf] at h)
    _ _ hres hlt
  exact ⟨m', t, hres, h1, h2, h3, h1.toPdf⟩

end GT.Props.C20

#print axioms GT.Props.C20.C20_cdf_difference
#print axioms GT.Props.C20.C20_expectation_integral
#print axioms GT.Props.C20.C20_eval
#print axioms GT.Props.C20.C20_mass
#print axioms GT.Props.C20.C20_x
#print axioms GT.Props.C20.C20_x2
#print axioms GT.Props.C20.C20_scan
#print axioms GT.Props.C20.C20_xk
#print axioms GT.Props.C20.C20_xk_interval
#print axioms GT.Props.C20.C20_xk_infinite
#print axioms GT.Props.C20.C20_mean
#print axioms GT.Props.C20.C20_variance
#print axioms GT.Props.C20.C20_additive
#print axioms GT.Props.C20.C20_additive_mass
#print axioms GT.Props.C20.C20_additive_x
#print axioms GT.Props.C20.mkTruncMeasure_ok
#print axioms GT.Props.C20.mkTruncMeasure_densNorm
#print axioms GT.Props.C20.mkTruncMeasure_isSome
#print axioms GT.Props.C20.mkTruncPdf_eq
#print axioms GT.Props.C20.C20_density_Z
#print axioms GT.Props.C20.C20_density_eval
#print axioms GT.Props.C20.C20_density_integral
#print axioms GT.Props.C20.C20_density_integrates_to_one
#print axioms GT.Props.C20.C20_density_mean
#print axioms GT.Props.C20.C20_density_variance
#print axioms GT.Props.C20.C20_density_xk
