import GT.Model.HeteroTrunc
import GT.Props.C05
import GT.Props.C16
import GT.Props.C20
import Mathlib.Probability.Moments.ComplexMGF
import Mathlib.Probability.Distributions.Gaussian.Real

/-!
# C16 (continued) — the step and rectified-linear heteroscedastic link classes

Model: `GT/Model/HeteroTrunc.lean` (`heavisideOps`, `reluOps`).  Both classes compute the expected
link value `_integrate_noise_diagonal(p_x)[r, k] = E_{p_r}[link(h_k(x))]`, `h_k(x) = w_kᵀx + w0_k`, by
pushing `p(x)` forward to the one-dimensional density of `h_k` (`get_density_of_linear_sum`) and
integrating over `h ≥ 0` with a `TruncatedGaussianMeasure`.

PROVED (no extra hypothesis beyond `be.Spec`, `PdfInv p` and non-zero input weights
`WeightsNonzero c`; all sizes, any number `R` of components of `p(x)`)
* mathematics: `gaussProb_map_affine` — the image of a Gaussian `N(Λ⁻¹ν, Λ⁻¹)` on `ℝⁿ` under
  `x ↦ t ⬝ x + c` is Mathlib's `gaussianReal (t ⬝ Λ⁻¹ν + c) (t ⬝ Λ⁻¹t)` (uniqueness of the moment
  generating function, `gaussian_mgf_linear`); `integral_comp_affine_gaussW` — the resulting change of
  variables `∫ f(t ⬝ x + c) N(x) dx = ∫ f(h) N(h) dh` for every measurable `f` (`t ≠ 0`).
* `push_hDensity`: the object returned by `get_density_of_linear_sum(w, w0)` is the law of
  `wᵀx + w0` under `p_r`, for every measurable `f`.
* `heavisideUnit_eq`, `reluUnit_eq`: `tp_h.integral()` is `∫ 1[wᵀx + w0 ≥ 0] p_r(x) dx` and
  `tp_h.integrate('x')` is `∫ max(wᵀx + w0, 0) p_r(x) dx` (with C20: `C20_mass`, `C20_x`).
* `noiseOK_heaviside`, `noiseOK_relu`: `NoiseOK` of C16 for the two classes (value and integrability),
  hence `C16_heaviside_cov`, `C16_relu_cov`, `…_marginal_params`, `…_joint_params`,
  `…_conditional_params`: the matched moments of both classes are the tower-rule moments, for every
  component of `p(x)`.

NOT PROVED HERE: the lower bounds of `E[ln p(y|x)]` of the two classes (`get_lb_log_det`,
`get_lb_heteroscedastic_term_i`, `_lower_bound_integrals`); zero input weights (`w_k = 0`: the image
density is degenerate and the density constructor is outside its domain).
-/

set_option linter.unusedSimpArgs false

namespace GT.Math
open MeasureTheory ProbabilityTheory Matrix Real
open scoped NNReal ENNReal

variable {n : Type*} [Fintype n] [DecidableEq n]

/-- the normalised Gaussian weight as a measure -/
noncomputable def gaussProb (Λ : Matrix n n ℝ) (ν : n → ℝ) : Measure (n → ℝ) :=
  ENNReal.ofReal (∫ x, gaussW Λ ν x)⁻¹ • gaussMeasure Λ ν

theorem gaussMeasure_univ {Λ : Matrix n n ℝ} (hΛ : Λ.PosDef) (ν : n → ℝ) :
    gaussMeasure Λ ν Set.univ = ENNReal.ofReal (∫ x, gaussW Λ ν x) := by
  unfold gaussMeasure
  rw [withDensity_apply _ MeasurableSet.univ, Measure.restrict_univ,
    ofReal_integral_eq_lintegral_ofReal (integrable_gaussW hΛ ν)
      (Filter.Eventually.of_forall fun x => (gaussW_pos Λ ν x).le)]
  rfl

theorem gaussProb_isProb {Λ : Matrix n n ℝ} (hΛ : Λ.PosDef) (ν : n → ℝ) :
    IsProbabilityMeasure (gaussProb Λ ν) := by
  constructor
  have hZ := integral_gaussW_pos hΛ ν
  rw [gaussProb, Measure.smul_apply, gaussMeasure_univ hΛ, smul_eq_mul,
    ← ENNReal.ofReal_mul (inv_pos.2 hZ).le, inv_mul_cancel₀ hZ.ne', ENNReal.ofReal_one]

theorem integral_gaussProb {Λ : Matrix n n ℝ} (hΛ : Λ.PosDef) (ν : n → ℝ) (g : (n → ℝ) → ℝ) :
    ∫ x, g x ∂(gaussProb Λ ν) = (∫ x, gaussW Λ ν x)⁻¹ * ∫ x, g x * gaussW Λ ν x := by
  have hZ := integral_gaussW_pos hΛ ν
  rw [gaussProb, integral_smul_measure, integral_gaussMeasure,
    ENNReal.toReal_ofReal (inv_pos.2 hZ).le, smul_eq_mul]

theorem integrable_gaussProb_iff {Λ : Matrix n n ℝ} (hΛ : Λ.PosDef) (ν : n → ℝ) (g : (n → ℝ) → ℝ) :
    Integrable g (gaussProb Λ ν) ↔ Integrable (fun x => g x * gaussW Λ ν x) := by
  have hZ := integral_gaussW_pos hΛ ν
  rw [gaussProb, integrable_smul_measure (by simpa using hZ) ENNReal.ofReal_ne_top,
    integrable_gaussMeasure_iff]


/-- the variance of the linear form `t ⬝ x` -/
noncomputable def linVar (Λ : Matrix n n ℝ) (t : n → ℝ) : ℝ≥0 := (t ⬝ᵥ Λ⁻¹ *ᵥ t).toNNReal

theorem linVar_coe {Λ : Matrix n n ℝ} (hΛ : Λ.PosDef) (t : n → ℝ) :
    (linVar Λ t : ℝ) = t ⬝ᵥ Λ⁻¹ *ᵥ t := by
  have := hΛ.inv.posSemidef.dotProduct_mulVec_nonneg t
  simp only [star_trivial] at this
  exact Real.coe_toNNReal _ this

theorem linVar_ne_zero {Λ : Matrix n n ℝ} (hΛ : Λ.PosDef) {t : n → ℝ} (ht : t ≠ 0) :
    linVar Λ t ≠ 0 := by
  have := hΛ.inv.dotProduct_mulVec_pos ht
  simp only [star_trivial] at this
  intro h
  have h2 := linVar_coe hΛ t
  rw [h] at h2
  simp at h2
  linarith

/-- **law of an affine form under a Gaussian**: the image of the normalised Gaussian weight with
precision `Λ` and natural location `ν` under `x ↦ t ⬝ x + c` is the one-dimensional Gaussian with
mean `t ⬝ Λ⁻¹ν + c` and variance `t ⬝ Λ⁻¹ t` (by uniqueness of the moment generating function) -/
theorem gaussProb_map_affine {Λ : Matrix n n ℝ} (hΛ : Λ.PosDef) (ν t : n → ℝ) (c : ℝ) :
    (gaussProb Λ ν).map (fun x => t ⬝ᵥ x + c)
      = gaussianReal (t ⬝ᵥ Λ⁻¹ *ᵥ ν + c) (linVar Λ t) := by
  have := gaussProb_isProb hΛ ν
  have hZ := integral_gaussW_pos hΛ ν
  have hmeas : Measurable fun x : n → ℝ => t ⬝ᵥ x + c :=
    ((continuous_const.dotProduct continuous_id).add continuous_const).measurable
  have hint : ∀ s : ℝ, Integrable (fun x : n → ℝ => rexp (s * (t ⬝ᵥ x + c))) (gaussProb Λ ν) := by
    intro s
    rw [integrable_gaussProb_iff hΛ]
    have : ∀ x : n → ℝ, rexp (s * (t ⬝ᵥ x + c)) * gaussW Λ ν x
        = rexp (s * c) * (rexp (s * (t ⬝ᵥ x)) * gaussW Λ ν x) := by
      intro x; rw [mul_add, Real.exp_add]; ring
    simp only [this]
    exact (integrable_exp_mul_gaussW hΛ ν t s).const_mul _
  have hmgf : mgf (fun x : n → ℝ => t ⬝ᵥ x + c) (gaussProb Λ ν)
      = mgf id (gaussianReal (t ⬝ᵥ Λ⁻¹ *ᵥ ν + c) (linVar Λ t)) := by
    funext s
    rw [mgf_id_gaussianReal, mgf, integral_gaussProb hΛ]
    have : ∀ x : n → ℝ, rexp (s * (t ⬝ᵥ x + c)) * gaussW Λ ν x
        = rexp (s * c) * (rexp (s * (t ⬝ᵥ x)) * gaussW Λ ν x) := by
      intro x; rw [mul_add, Real.exp_add]; ring
    simp only [this]
    rw [integral_const_mul, gaussian_mgf_linear hΛ, linVar_coe hΛ]
    rw [← mul_assoc, ← mul_assoc, mul_comm _ (rexp (s * c)), mul_assoc (rexp (s * c)),
      inv_mul_cancel₀ hZ.ne', mul_one, ← Real.exp_add]
    congr 1; ring
  have hset : integrableExpSet (fun x : n → ℝ => t ⬝ᵥ x + c) (gaussProb Λ ν) = Set.univ :=
    Set.eq_univ_of_forall hint
  have hc : complexMGF (fun x : n → ℝ => t ⬝ᵥ x + c) (gaussProb Λ ν)
      = complexMGF id (gaussianReal (t ⬝ᵥ Λ⁻¹ *ᵥ ν + c) (linVar Λ t)) := by
    funext z
    exact eqOn_complexMGF_of_mgf hmgf (by simp [hset])
  have := Measure.ext_of_complexMGF_eq hmeas.aemeasurable aemeasurable_id hc
  simpa using this

/-- **change of variables**: for every measurable `f`,
`∫ f(t ⬝ x + c) N(x) dx = ∫ f(h) N(h; t ⬝ Λ⁻¹ν + c, t ⬝ Λ⁻¹t) dh` -/
theorem integral_comp_affine_gaussW {Λ : Matrix n n ℝ} (hΛ : Λ.PosDef) (ν t : n → ℝ) (ht : t ≠ 0)
    (c : ℝ) (f : ℝ → ℝ) (hf : Measurable f) :
    (∫ x, gaussW Λ ν x)⁻¹ * ∫ x, f (t ⬝ᵥ x + c) * gaussW Λ ν x
      = ∫ h, f h * gaussianPDFReal (t ⬝ᵥ Λ⁻¹ *ᵥ ν + c) (linVar Λ t) h := by
  have hmeas : Measurable fun x : n → ℝ => t ⬝ᵥ x + c :=
    ((continuous_const.dotProduct continuous_id).add continuous_const).measurable
  rw [← integral_gaussProb hΛ ν (fun x => f (t ⬝ᵥ x + c)),
    ← integral_map hmeas.aemeasurable hf.aestronglyMeasurable, gaussProb_map_affine hΛ,
    integral_gaussianReal_eq_integral_smul (linVar_ne_zero hΛ ht)]
  simp only [smul_eq_mul, mul_comm]

end GT.Math

namespace GT.Props.C16
open GT Matrix MeasureTheory GT.Math ProbabilityTheory
open scoped NNReal

variable {Dy Dx Da Dk R : Nat}

/-! ## the one-dimensional normal density -/

/-- a one-dimensional `normalLn` is the log of Mathlib's `gaussianPDFReal` -/
theorem exp_normalLn_one (a : Fin 1 → ℝ) (S : Matrix (Fin 1) (Fin 1) ℝ) (hS : 0 < S 0 0)
    (y : Fin 1 → ℝ) :
    Real.exp (normalLn a S⁻¹ (Real.log S.det) y) = gaussianPDFReal (a 0) (S 0 0).toNNReal (y 0) := by
  have hinv : S⁻¹ 0 0 = (S 0 0)⁻¹ := by
    have := C20.inv_one_apply S hS.ne'
    field_simp
    exact this
  have hdet : S.det = S 0 0 := by simp
  simp only [normalLn, hdet, dotProduct, Matrix.mulVec, Fin.sum_univ_one, Pi.sub_apply, hinv,
    gaussianPDFReal, Real.coe_toNNReal _ hS.le, Nat.cast_one, one_mul]
  have h2π : (0 : ℝ) < 2 * Real.pi := by positivity
  rw [Real.exp_sub, ← Real.log_mul h2π.ne' hS.ne', C20.exp_half_log (by positivity)]
  rw [div_eq_mul_inv, mul_comm]
  congr 2
  field_simp

/-- over the reals the links are the documented functions -/
theorem heavisideLink_real (h : ℝ) : heavisideLink h = if 0 ≤ h then 1 else 0 := by
  simp only [heavisideLink, transc_lt]
  by_cases hh : h < 0
  · simp [hh, not_le.2 hh]
  · simp [hh, not_lt.1 hh]

theorem reluLink_real (h : ℝ) : reluLink h = max h 0 := by
  simp only [reluLink, transc_lt]
  by_cases hh : h < 0
  · simp [hh, hh.le]
  · simp [hh, not_lt.1 hh]

/-! ## the density of `h = wᵀx + w0` -/

section pushforward
variable {be : Backend ℝ} (hbe : be.Spec) {p : PdfV R Dx ℝ} (hp : PdfInv p)
include hp

/-- the hypotheses of C16 on `p(x)` imply those of C05 -/
theorem pdfOK_of_pdfInv : PdfOK p := by
  have hm := hp.inv
  have hcov : ∀ r, CovOK (toM (p.Lambda r)) (toM (p.Sigma r)) (p.lnDetSigma r) :=
    fun r => hm.cov ⟨p.Sigma, p.lnDetSigma⟩ rfl r
  have hpd : ∀ r, (toM (p.Lambda r)).PosDef := hm.posDef
  refine ⟨fun r => ?_, fun r => ?_, fun r => (hcov r).logdet⟩
  · rw [(hcov r).inv]; exact (hpd r).inv
  · rw [(hcov r).inv, Matrix.nonsing_inv_nonsing_inv _ (hpd r).det_pos.ne'.isUnit]

/-- the weight row of `get_density_of_linear_sum` -/
def wRow (Wi : Vec (Dx + 1) ℝ) : Arr R (Mat 1 Dx ℝ) := tab fun _ => tab fun _ => wTail Wi

omit hp in
theorem hDensity_eq (Wi : Vec (Dx + 1) ℝ) :
    hDensity be p Wi = p.linearSum be (wRow Wi) (some (tab fun _ => tab fun _ => wHead Wi)) := rfl

theorem wRow_posDef (Wi : Vec (Dx + 1) ℝ) (hw : toV (wTail Wi) ≠ 0) (r : Fin R) :
    (toM (wRow (R := R) Wi r) * toM (p.Sigma r) * (toM (wRow (R := R) Wi r))ᵀ).PosDef := by
  refine C05.linearSum_posDef_of_linearIndependent_rows p (pdfOK_of_pdfInv hp) (wRow Wi) (fun r => ?_) r
  rw [linearIndependent_unique_iff]
  intro h
  apply hw
  funext j
  have := congrFun h j
  simpa [wRow, Matrix.row] using this

omit hp in
theorem wRow_quad (Wi : Vec (Dx + 1) ℝ) (r : Fin R) :
    (toM (wRow (R := R) Wi r) * toM (p.Sigma r) * (toM (wRow (R := R) Wi r))ᵀ) 0 0
      = toV (wTail Wi) ⬝ᵥ toM (p.Sigma r) *ᵥ toV (wTail Wi) := by
  simp only [Matrix.mul_apply, Matrix.transpose_apply, toM_apply, wRow, tab_apply, dotProduct,
    Matrix.mulVec, toV_apply, Finset.sum_mul, Finset.mul_sum]
  rw [Finset.sum_comm]
  exact Finset.sum_congr rfl fun i _ => Finset.sum_congr rfl fun j _ => by ring

include hbe

/-- **the object returned by `get_density_of_linear_sum` is the law of `h = wᵀx + w0`**: for every
measurable `f`, `∫ f(wᵀx + w0) p_r(x) dx = ∫ f(h) p_h,r(h) dh` (non-zero `w`) -/
theorem push_hDensity (Wi : Vec (Dx + 1) ℝ) (hw : toV (wTail Wi) ≠ 0) (r : Fin R) (f : ℝ → ℝ)
    (hf : Measurable f) :
    ∫ x, f (toV (wTail Wi) ⬝ᵥ x + wHead Wi) * wgt p r x
      = ∫ h, f h * Real.exp ((hDensity be p Wi).evalLn r (C20.vec1 h)) := by
  have hm := hp.inv
  have hΛ : (toM (p.Lambda r)).PosDef := hm.posDef r
  have hSig : toM (p.Sigma r) = (toM (p.Lambda r))⁻¹ := (hm.cov ⟨p.Sigma, p.lnDetSigma⟩ rfl r).inv
  have hmu : toV (p.mu r) = (toM (p.Lambda r))⁻¹ *ᵥ toV (p.nu r) := hm.mu p.mu rfl r
  have hZ := integral_gaussW_pos hΛ (toV (p.nu r))
  have hw_eq : ∀ x, wgt p r x = Real.exp (p.lnBeta r) * gaussW (toM (p.Lambda r)) (toV (p.nu r)) x :=
    fun x => C03.exp_evalLn_eq p.toMeasure r x
  have hbeta : Real.exp (p.lnBeta r) = (∫ x, gaussW (toM (p.Lambda r)) (toV (p.nu r)) x)⁻¹ := by
    have h1 := hp.mass r
    have h2 : ∀ x, Real.exp (p.evalLn r (ofV x))
        = Real.exp (p.lnBeta r) * gaussW (toM (p.Lambda r)) (toV (p.nu r)) x := hw_eq
    simp only [h2] at h1
    rw [integral_const_mul] at h1
    exact eq_inv_of_mul_eq_one_left h1
  have hS := wRow_posDef hp Wi hw r
  have hS0 : 0 < (toM (wRow (R := R) Wi r) * toM (p.Sigma r) * (toM (wRow (R := R) Wi r))ᵀ) 0 0 := by
    have := hS.diag_pos (i := 0)
    simpa using this
  have hR : ∀ h : ℝ, Real.exp ((hDensity be p Wi).evalLn r (C20.vec1 h))
      = gaussianPDFReal (toV (wTail Wi) ⬝ᵥ (toM (p.Lambda r))⁻¹ *ᵥ toV (p.nu r) + wHead Wi)
          (linVar (toM (p.Lambda r)) (toV (wTail Wi))) h := by
    intro h
    have e1 : C20.vec1 h = ofV fun _ => h := rfl
    rw [e1, hDensity_eq, C05.C05_linear_sum_evalLn hbe p (wRow Wi) _ (wRow_posDef hp Wi hw) r,
      exp_normalLn_one _ _ hS0, wRow_quad, linVar, hmu, ← hSig]
    congr 1
    simp only [C05.offset, Pi.add_apply, Matrix.mulVec, dotProduct, toM_apply, wRow, tab_apply,
      toV_apply, Matrix.of_apply]
  simp only [hR, hw_eq, hbeta]
  rw [← integral_comp_affine_gaussW hΛ (toV (p.nu r)) (toV (wTail Wi)) hw (wHead Wi) f hf,
    ← integral_const_mul]
  exact integral_congr_ae (Filter.Eventually.of_forall fun x => by ring)

end pushforward

/-! ## the truncated object of both link classes -/

/-- `TruncatedGaussianMeasure(p_h, lower_limit=0, upper_limit=inf)` for the view `d` of `p_h` -/
noncomputable def hTrunc (be : Backend ℝ) (p : PdfV R Dx ℝ) (Wi : Vec (Dx + 1) ℝ) (d : PdfV R 1 ℝ) :
    TruncB R ℝ :=
  ⟨false, ((hDensity be p Wi).integral be).1, tab fun _ => .fin 0, tab fun _ => .posInf, d,
    ((hDensity be p Wi).integral be).2, standardise d (tab fun _ => .fin 0),
    standardise d (tab fun _ => .posInf)⟩

/-- the constructor call of both classes succeeds and returns `hTrunc` -/
theorem truncPos_hDensity (be : Backend ℝ) (p : PdfV R Dx ℝ) (Wi : Vec (Dx + 1) ℝ) :
    ∃ d, (hDensity be p Wi).asPdf = some d ∧
      truncPos be (hDensity be p Wi) true = some (hTrunc be p Wi d) := by
  obtain ⟨d, hd⟩ := mkPdf_asPdf_isSome be false
    (tab fun r => mmul (mmul (wRow (R := R) Wi r) (p.Sigma r)) (transpose (wRow (R := R) Wi r)))
    (tab fun r => vadd (mulVec (wRow (R := R) Wi r) (p.mu r))
      ((tab fun _ => tab fun _ => wHead Wi : Arr R (Vec 1 ℝ)) r)) none none
  have hd' : (hDensity be p Wi).asPdf = some d := hd
  have hcls : (hDensity be p Wi).cls.isPdf = true := by
    simp [hDensity, PdfV.linearSum, mkPdf, pdfPre, MeasureB.prepare, MeasureB.ensureLnZ,
      MeasureB.computeLnZ, MeasureB.ensureCov, MeasureB.ensureMu, MeasureB.normalize, MCls.isPdf]
  refine ⟨d, hd', ?_⟩
  simp [truncPos, mkTruncMeasure, checkLimits, hcls, hd', hTrunc]

section units
variable {be : Backend ℝ} (hbe : be.Spec) {p : PdfV R Dx ℝ} (hp : PdfInv p)
include hbe hp

theorem hTrunc_ok (Wi : Vec (Dx + 1) ℝ) (hw : toV (wTail Wi) ≠ 0) {d : PdfV R 1 ℝ}
    (hd : (hDensity be p Wi).asPdf = some d) :
    C20.TruncOK (hTrunc be p Wi d) ∧ C20.ConstIsMass (hTrunc be p Wi d) := by
  have hm : (hDensity be p Wi).Inv := by
    rw [hDensity_eq]
    exact C05.C05_linear_sum_inv hbe p (wRow Wi) _ (wRow_posDef hp Wi hw)
  have hlt : ∀ r : Fin R, C20.LimLt ((tab fun _ => Lim.fin (0 : ℝ) : Arr R (Lim ℝ)) r)
      ((tab fun _ => Lim.posInf : Arr R (Lim ℝ)) r) := fun r => by
    simp only [tab_apply, C20.LimLt]
  exact C20.truncOK_of_densOf hbe (hDensity be p Wi) hm d (C20.densOf_asPdf hm hd) _ _ hlt

omit hbe hp in
/-- the base function of `hTrunc` is the density of `h` -/
theorem u_hTrunc (Wi : Vec (Dx + 1) ℝ) (d : PdfV R 1 ℝ) (r : Fin R) (h : ℝ) :
    C20.u (hTrunc be p Wi d) r h = Real.exp ((hDensity be p Wi).evalLn r (C20.vec1 h)) := by
  have hfst : ((hDensity be p Wi).integral be).1 = (hDensity be p Wi).prepare be := rfl
  simp only [C20.u, hTrunc, hfst]
  rw [C20.evalLn_vec1, C20.evalLn_vec1, prepare_Lambda, prepare_nu, prepare_lnBeta]

omit hbe hp in
theorem measurable_heavisideLink : Measurable (heavisideLink : ℝ → ℝ) := by
  have : (heavisideLink : ℝ → ℝ) = fun h => if h < 0 then 0 else 1 := by
    funext h; simp [heavisideLink]
  rw [this]
  exact Measurable.ite (measurableSet_lt measurable_id measurable_const) measurable_const
    measurable_const

omit hbe hp in
theorem measurable_reluLink : Measurable (reluLink : ℝ → ℝ) := by
  have : (reluLink : ℝ → ℝ) = fun h => if h < 0 then 0 else h := by
    funext h; simp [reluLink]
  rw [this]
  exact Measurable.ite (measurableSet_lt measurable_id measurable_const) measurable_const
    measurable_id

/-- **step link, one unit**: `P(h ≥ 0)` as computed (`tp_h.integral()`) is `∫ 1[wᵀx + w0 ≥ 0] p_r(x) dx` -/
theorem heavisideUnit_eq (Wi : Vec (Dx + 1) ℝ) (hw : toV (wTail Wi) ≠ 0) (r : Fin R) :
    heavisideUnitIntegral be p Wi r
      = ∫ x, heavisideLink (toV (wTail Wi) ⬝ᵥ x + wHead Wi) * wgt p r x := by
  obtain ⟨d, hd, ht⟩ := truncPos_hDensity be p Wi
  obtain ⟨hok, hcm⟩ := hTrunc_ok hbe hp Wi hw hd
  rw [push_hDensity hbe hp Wi hw r _ measurable_heavisideLink]
  simp only [heavisideUnitIntegral, ht]
  rw [C20.C20_mass hok hcm r]
  have hl : (hTrunc be p Wi d).lower r = .fin 0 := by simp [hTrunc]
  have hu : (hTrunc be p Wi d).upper r = .posInf := by simp [hTrunc]
  rw [hl, hu, C20.supp_fin_posInf, ← integral_indicator measurableSet_Ici]
  refine integral_congr_ae (Filter.Eventually.of_forall fun h => ?_)
  simp only [u_hTrunc, Set.indicator, Set.mem_Ici, heavisideLink, transc_lt]
  by_cases hh : h < 0
  · simp [hh, not_le.2 hh]
  · simp [hh, not_lt.1 hh]

/-- **rectified-linear link, one unit**: `tp_h.integrate('x')` is `∫ max(wᵀx + w0, 0) p_r(x) dx` -/
theorem reluUnit_eq (Wi : Vec (Dx + 1) ℝ) (hw : toV (wTail Wi) ≠ 0) (r : Fin R) :
    reluUnitIntegral be p Wi r
      = ∫ x, reluLink (toV (wTail Wi) ⬝ᵥ x + wHead Wi) * wgt p r x := by
  obtain ⟨d, hd, ht⟩ := truncPos_hDensity be p Wi
  obtain ⟨hok, hcm⟩ := hTrunc_ok hbe hp Wi hw hd
  rw [push_hDensity hbe hp Wi hw r _ measurable_reluLink]
  simp only [reluUnitIntegral, ht, tab_apply]
  rw [C20.C20_x hok hcm r 0]
  have hl : (hTrunc be p Wi d).lower r = .fin 0 := by simp [hTrunc]
  have hu : (hTrunc be p Wi d).upper r = .posInf := by simp [hTrunc]
  rw [hl, hu, C20.supp_fin_posInf, ← integral_indicator measurableSet_Ici]
  refine integral_congr_ae (Filter.Eventually.of_forall fun h => ?_)
  simp only [u_hTrunc, Set.indicator, Set.mem_Ici, reluLink, transc_lt]
  by_cases hh : h < 0
  · simp [hh, not_le.2 hh]
  · simp [hh, not_lt.1 hh]

end units

/-! ## `NoiseOK` for the step and the rectified-linear link -/

section noise
variable {be : Backend ℝ} (hbe : be.Spec) {p : PdfV R Dx ℝ} (hp : PdfInv p)
  (c : HeteroB Dy Dx Da Dk ℝ)

/-- every noise unit has a non-zero input weight vector `w_k = W[k, 1:]` (the density of
`h_k = w_kᵀx + w0_k` is then non-degenerate) -/
def WeightsNonzero (c : HeteroB Dy Dx Da Dk ℝ) : Prop := ∀ k, ∃ j, c.wMat k j ≠ 0

variable {c}

theorem WeightsNonzero.tail_ne (hw : WeightsNonzero c) (k : Fin Dk) : toV (wTail (c.W k)) ≠ 0 := by
  obtain ⟨j, hj⟩ := hw k
  intro h
  apply hj
  have := congrFun h j
  simpa [HeteroB.wMat] using this

theorem hLin_eq (c : HeteroB Dy Dx Da Dk ℝ) (k : Fin Dk) (x : Fin Dx → ℝ) :
    hLin c k x = toV (wTail (c.W k)) ⬝ᵥ x + wHead (c.W k) := by
  simp only [hLin, HeteroB.wMat, HeteroB.w0, tab_apply, dotProduct, toV_apply]

theorem measurable_hLin (c : HeteroB Dy Dx Da Dk ℝ) (k : Fin Dk) : Measurable (hLin c k) := by
  have : hLin c k = fun x => toV (wTail (c.W k)) ⬝ᵥ x + wHead (c.W k) := funext (hLin_eq c k)
  rw [this]
  exact ((continuous_const.dotProduct continuous_id).add continuous_const).measurable

include hp

theorem integrable_hLin_wgt (c : HeteroB Dy Dx Da Dk ℝ) (r : Fin R) (k : Fin Dk) :
    Integrable fun x => hLin c k x * wgt p r x := by
  have hw_eq : ∀ x, wgt p r x = Real.exp (p.lnBeta r) * gaussW (toM (p.Lambda r)) (toV (p.nu r)) x :=
    fun x => C03.exp_evalLn_eq p.toMeasure r x
  have hL : (toM (p.Lambda r)).PosDef := hp.inv.posDef r
  have := (C03.integrable_affine_one hL (toV (p.nu r)) (toV (wTail (c.W k)))
    (wHead (c.W k))).const_mul (Real.exp (p.lnBeta r))
  refine this.congr (Filter.Eventually.of_forall fun x => ?_)
  simp only [hw_eq, hLin_eq]
  ring

include hbe

/-- **step link**: `_integrate_noise_diagonal` is `E_{p_r}[1[h_k(x) ≥ 0]] = P_r(h_k ≥ 0)` for every
component `r` of `p(x)` and every noise unit `k` -/
theorem noiseOK_heaviside (hw : WeightsNonzero c) : NoiseOK heavisideOps be c p := by
  intro r k
  have hlink : ∀ x : Fin Dx → ℝ, heavisideOps.linkFunction (hLin c k x) = heavisideLink (hLin c k x) :=
    fun x => rfl
  simp only [hlink]
  constructor
  · refine (integrable_wgt hp r).mono'
      (((measurable_heavisideLink.comp (measurable_hLin c k)).aestronglyMeasurable).mul
        (integrable_wgt hp r).aestronglyMeasurable) (Filter.Eventually.of_forall fun x => ?_)
    have hpos : 0 ≤ wgt p r x := (Real.exp_pos _).le
    rw [Real.norm_eq_abs, abs_mul, abs_of_nonneg hpos]
    have : |heavisideLink (hLin c k x)| ≤ 1 := by
      simp only [heavisideLink, transc_lt]
      split <;> simp
    calc |heavisideLink (hLin c k x)| * wgt p r x ≤ 1 * wgt p r x :=
          mul_le_mul_of_nonneg_right this hpos
      _ = wgt p r x := one_mul _
  · have hval : heavisideOps.integrateNoiseDiagonal be c p (flat r k)
        = heavisideUnitIntegral be p (c.W k) r := by
      simp only [heavisideOps, heavisideIntegrateNoiseDiagonal, truncNoiseFlat, tab_apply,
        unflatR_flat, unflatL_flat]
    rw [hval, heavisideUnit_eq hbe hp (c.W k) (hw.tail_ne k) r]
    simp only [hLin_eq]

/-- **rectified-linear link**: `_integrate_noise_diagonal` is `E_{p_r}[max(h_k(x), 0)]` for every
component `r` of `p(x)` and every noise unit `k` -/
theorem noiseOK_relu (hw : WeightsNonzero c) : NoiseOK reluOps be c p := by
  intro r k
  have hlink : ∀ x : Fin Dx → ℝ, reluOps.linkFunction (hLin c k x) = reluLink (hLin c k x) :=
    fun x => rfl
  simp only [hlink]
  constructor
  · refine (integrable_hLin_wgt hp c r k).norm.mono'
      (((measurable_reluLink.comp (measurable_hLin c k)).aestronglyMeasurable).mul
        (integrable_wgt hp r).aestronglyMeasurable) (Filter.Eventually.of_forall fun x => ?_)
    have hpos : 0 ≤ wgt p r x := (Real.exp_pos _).le
    rw [Real.norm_eq_abs, Real.norm_eq_abs, abs_mul, abs_mul]
    refine mul_le_mul_of_nonneg_right ?_ (abs_nonneg _)
    simp only [reluLink, transc_lt]
    split <;> simp
  · have hval : reluOps.integrateNoiseDiagonal be c p (flat r k)
        = reluUnitIntegral be p (c.W k) r := by
      simp only [reluOps, reluIntegrateNoiseDiagonal, truncNoiseFlat, tab_apply,
        unflatR_flat, unflatL_flat]
    rw [hval, reluUnit_eq hbe hp (c.W k) (hw.tail_ne k) r]
    simp only [hLin_eq]

end noise

/-! ## moment matching of the two classes: the general theorems of C16 apply -/

section corollaries
variable {be : Backend ℝ} (hbe : be.Spec) {p : PdfV R Dx ℝ} (hp : PdfInv p)
  {c : HeteroB Dy Dx Da Dk ℝ} (hc : HetOK c) (hw : WeightsNonzero c)
include hbe hp hc hw

/-- **covariance, step link**, every component `r` of `p(x)` -/
theorem C16_heaviside_cov (r : Fin R) (i j : Fin Dy) :
    (c.getExpectedMoments heavisideOps be p).2 r i j
      = hMomYY c heavisideOps p r i j - hMeanY c p r i * hMeanY c p r j :=
  C16_hetero_cov hbe hp hc (noiseOK_heaviside hbe hp hw) r i j

/-- **covariance, rectified-linear link**, every component `r` of `p(x)` -/
theorem C16_relu_cov (r : Fin R) (i j : Fin Dy) :
    (c.getExpectedMoments reluOps be p).2 r i j
      = hMomYY c reluOps p r i j - hMeanY c p r i * hMeanY c p r j :=
  C16_hetero_cov hbe hp hc (noiseOK_relu hbe hp hw) r i j

theorem C16_heaviside_marginal_params :
    c.affineMarginal heavisideOps be p
      = mkPdf be false (hCovYA c heavisideOps p) (hMeanYA c p) none none :=
  C16_hetero_marginal_params hbe hp hc (noiseOK_heaviside hbe hp hw)

theorem C16_relu_marginal_params :
    c.affineMarginal reluOps be p = mkPdf be false (hCovYA c reluOps p) (hMeanYA c p) none none :=
  C16_hetero_marginal_params hbe hp hc (noiseOK_relu hbe hp hw)

theorem C16_heaviside_joint_params :
    c.affineJoint heavisideOps be p = mkPdf be false
      (tab fun r => block (covXA p r) (transpose (hCovYXA c p r)) (hCovYXA c p r)
        (hCovYA c heavisideOps p r))
      (tab fun r => vappend (meanXA p r) (hMeanYA c p r)) none none :=
  C16_hetero_joint_params hbe hp hc (noiseOK_heaviside hbe hp hw)

theorem C16_relu_joint_params :
    c.affineJoint reluOps be p = mkPdf be false
      (tab fun r => block (covXA p r) (transpose (hCovYXA c p r)) (hCovYXA c p r)
        (hCovYA c reluOps p r))
      (tab fun r => vappend (meanXA p r) (hMeanYA c p r)) none none :=
  C16_hetero_joint_params hbe hp hc (noiseOK_relu hbe hp hw)

theorem C16_heaviside_conditional_params :
    c.affineConditional heavisideOps be p =
      (let Mn : Arr R (Mat Dx Dy ℝ) := tab fun r =>
         mmul (transpose (hCovYXA c p r)) ((invertBatch be false (hCovYA c heavisideOps p)).1 r)
       let bn : Arr R (Vec Dx ℝ) := tab fun r => vsub (meanXA p r) (mulVec (Mn r) (hMeanYA c p r))
       let Sn : Arr R (Mat Dx Dx ℝ) := tab fun r => msub (covXA p r) (mmul (Mn r) (hCovYXA c p r))
       some ⟨false, Mn, bn, Sn, (invertBatch be false Sn).1, (invertBatch be false Sn).2⟩) :=
  C16_hetero_conditional_params hbe hp hc (noiseOK_heaviside hbe hp hw)

theorem C16_relu_conditional_params :
    c.affineConditional reluOps be p =
      (let Mn : Arr R (Mat Dx Dy ℝ) := tab fun r =>
         mmul (transpose (hCovYXA c p r)) ((invertBatch be false (hCovYA c reluOps p)).1 r)
       let bn : Arr R (Vec Dx ℝ) := tab fun r => vsub (meanXA p r) (mulVec (Mn r) (hMeanYA c p r))
       let Sn : Arr R (Mat Dx Dx ℝ) := tab fun r => msub (covXA p r) (mmul (Mn r) (hCovYXA c p r))
       some ⟨false, Mn, bn, Sn, (invertBatch be false Sn).1, (invertBatch be false Sn).2⟩) :=
  C16_hetero_conditional_params hbe hp hc (noiseOK_relu hbe hp hw)

end corollaries

/-- non-vacuity: a concrete object built by the constructor (non-zero input weights `(2, −1)`,
offset `1`), a two-component `p(x)`; both link classes satisfy `NoiseOK` and the covariance
statement holds for both components -/
example : ∃ (c : HeteroB 2 2 2 1 ℝ) (p : PdfV 2 2 ℝ), Backend.sat.Spec ∧ HetOK c ∧ PdfInv p ∧
    WeightsNonzero c ∧ c.W 0 1 = 2 ∧ p.mu 1 1 = 2 ∧
    NoiseOK heavisideOps Backend.sat c p ∧ NoiseOK reluOps Backend.sat c p ∧
    (∀ r i j, (c.getExpectedMoments heavisideOps Backend.sat p).2 r i j
      = hMomYY c heavisideOps p r i j - hMeanY c p r i * hMeanY c p r j) ∧
    (∀ r i j, (c.getExpectedMoments reluOps Backend.sat p).2 r i j
      = hMomYY c reluOps p r i j - hMeanY c p r i * hMeanY c p r j) ∧
    c.affineMarginal reluOps Backend.sat p
      = mkPdf Backend.sat false (hCovYA c reluOps p) (hMeanYA c p) none none := by
  have hbe := Backend.sat_spec
  have hS : ∀ r : Fin 2, (toM ((tab fun _ : Fin 2 => ofM !![2, 1; 1, 2]) r)).PosDef := fun r => by
    simp only [tab_apply, toM_ofM]; exact posDef_two_one
  have hargs : C02.PdfArgsOK false (tab fun _ : Fin 2 => ofM !![2, 1; 1, 2]) none none :=
    ⟨hS, by simp, by simp, by simp⟩
  obtain ⟨p, hp⟩ := mkPdf_asPdf_isSome Backend.sat false (tab fun _ : Fin 2 => ofM !![2, 1; 1, 2])
    (tab fun r => if r = 0 then ofV ![1, -1] else ofV ![0, 2]) none none
  have hpi : PdfInv p := pdfInv_of_mkPdf hbe _ _ _ _ _ hargs hp
  obtain ⟨-, hmu⟩ := mkPdf_asPdf_sigma_mu Backend.sat _ _ _ _ _ hp
  let c : HeteroB 2 2 2 1 ℝ := mkHetero Backend.sat (tab fun _ => ofM !![1, 2; 0, -1])
    (tab fun _ => ofV ![1, 2]) (tab fun _ => ofM !![2, 1; 0, 1]) (tab fun _ => ofV ![1, 2, -1])
    (le_refl _) (by norm_num)
  have hc : HetOK c := mkHetero_ok _ _ _ _ _ _
  have hw : WeightsNonzero c := by
    intro k
    refine ⟨0, ?_⟩
    simp [c, mkHetero, HeteroB.wMat, wTail, ofV]
  have h1 := noiseOK_heaviside hbe hpi hw
  have h2 := noiseOK_relu hbe hpi hw
  refine ⟨c, p, hbe, hc, hpi, hw, ?_, ?_, h1, h2, fun r i j => C16_heaviside_cov hbe hpi hc hw r i j,
    fun r i j => C16_relu_cov hbe hpi hc hw r i j, C16_relu_marginal_params hbe hpi hc hw⟩
  · simp [c, mkHetero, ofV]
  · rw [hmu]; simp [ofV]

end GT.Props.C16

section axioms
#print axioms GT.Math.gaussProb_map_affine
#print axioms GT.Math.integral_comp_affine_gaussW
#print axioms GT.Props.C16.push_hDensity
#print axioms GT.Props.C16.heavisideUnit_eq
#print axioms GT.Props.C16.reluUnit_eq
#print axioms GT.Props.C16.noiseOK_heaviside
#print axioms GT.Props.C16.noiseOK_relu
#print axioms GT.Props.C16.C16_heaviside_cov
#print axioms GT.Props.C16.C16_relu_cov
#print axioms GT.Props.C16.C16_heaviside_marginal_params
#print axioms GT.Props.C16.C16_relu_marginal_params
#print axioms GT.Props.C16.C16_heaviside_joint_params
#print axioms GT.Props.C16.C16_relu_joint_params
#print axioms GT.Props.C16.C16_heaviside_conditional_params
#print axioms GT.Props.C16.C16_relu_conditional_params
end axioms
