import GT.Props.C17
import GT.Props.C16Trunc
import GT.Props.C06
import Mathlib.Probability.Distributions.Gaussian.HasGaussianLaw.Independence

/-!
# C17 (continued) — step and rectified-linear links: `integrate_log_conditional_y`

Model: `GT/Model/HeteroTrunc.lean` (`heavisideOps`, `reluOps`), `α := ℝ`, all sizes, any number `R` of
components of `p(x)`.  Notation: `h_k(x) = w_kᵀx + w0_k` (`hW (c.W k) x`), `g_k(x) = ã_kᵀ(y − Mx − b)`
(`proj c y x k`, `ã_k` column `k` of `ΛA_k`), `p_r` the density of component `r` of `p(x)` (`dens p r`).
Hypotheses on `p(x)`: `PdfInv p` (consistent caches, mass one; holds for every constructed
`GaussianPDF`, `pdfInv_of_mkPdf`); on the conditional: `WeightsNonzero c` (every `w_k ≠ 0`, otherwise
the density of `h_k` is degenerate) and, only for `Dx > 1`, `UnitsRegular p c`: the `2×2` covariance of
`(g_k, h_k)` that `project_GH` inverts is regular (implied by linear independence of `ã_kᵀM` and `w_k`,
`jointRegular_of_linearIndependent`; void for `Dx = 1`, `unitsRegular_one`).

## What is proved (everything stated below, no extra hypothesis)

Mathematics (`GT.Math`): affine forms of a Gaussian vector are jointly Gaussian
(`hasGaussianLaw_affine_pair`), their covariance is `tᵀΣw` (`covariance_affine_gaussProb`), uncorrelated
ones are independent (`indepFun_affine_of_uncorrelated`), hence the conditioning identity
`E[ψ(h) g²] = E[ψ(h)((c0 + c1 h)² + s)]` for the regression coefficients of `g` on `h`
(`gauss_condition_sq`), every measurable `ψ` with `ψ(h)(1+|h|+h²)` integrable.

1. **step link, log-det term** (`heaviside_logdet_integral`): `get_lb_log_det` returns
   `ln det AAᵀ + Σ_k ∫ log 2 · 1[h_k ≥ 0] p_r`.
2. **step link, pointwise identity** (`C17_pointwise_step`): the log-density built from the returned
   precision / log-determinant is `lnForm` with `G_k = ½·1[h_k ≥ 0]`, `ℓ_k = log 2·1[h_k ≥ 0]`
   (`stepIntegrand`); an EQUALITY.
3. / 4. **step link, heteroscedastic term, both branches of `project_GH`** (`heaviside_het_integral`,
   `heaviside_het_integral_Dx1`, `heaviside_het_integral_DxGt1`):
   `get_lb_heteroscedastic_term_i = ∫ ½·1[h_k ≥ 0] g_k² p_r`.  Ingredients: `projectGH_one`,
   `regressOK_one` (`Dx == 1`); `projectGH_ne`, `marginal_eq_hDensity` (`p_hg.get_marginal([1])` IS the
   object `get_density_of_linear_sum(w, w0)`), `regressOK_ne` (the `M`, `b`, `Sigma` of
   `condition_on_explicit([1],[0])` are slope, intercept and residual variance of the regression of `g`
   on `h`) (`Dx > 1`); `regress_integral` (conditioning); `hTrunc_moments` (truncated moments, C20).
5. **step link, assembly**: `C17_step_value_eq_integral`, `C17_step_equality_coded` (all shapes, against
   the log-density built from the returned precision / log-determinant), `C17_step_equality`
   (`Decoupled c`: the true `E[ln p(y|x)]`), `C17_step_equality_model` (right-hand side through
   `condition_on_x(x).evaluate_ln(y)`): the returned value EQUALS the expectation.
6. **rectified-linear link**: scalar bounds for EVERY `ω ≥ 0` (`reluK_ge`: tangent of `log(1+h)`;
   `reluLb_le`: `h·exp(phiLn ω h) ≤ h/(1+h)`), pointwise minorant `C17_pointwise_relu`, identification of
   `k_func` (`relu_kfunc_integral`) and of `_lower_bound_integrals` (`relu_het_integral`, both branches;
   `relu_trunc_moments`: the truncated object built from `p_h · exp(phiLn)` exists and its moments are
   the expectations, up to the fourth order), `ω† = E_r[max(h,0)]/P_r(h ≥ 0) ≥ 0` (`reluOmega_eq`,
   `reluOmega_nonneg`), `ω* ≥ 0` for the result of the fixed-point loop of `_get_omega_star` as a LOOP
   INVARIANT (`reluOmegaStar_nonneg`: `_update_omega_star = quartic/where(cubic≠0,cubic,1)` is a quotient of
   integrals of non-negative functions for every `ω ≥ 0`, `relu_lbi4_of_project`, `relu_update_nonneg`; no
   statement about the number of iterations or convergence), value = integral at `(ω*, ω†)`
   (`C17_relu_value_eq_integral`) and the bound `C17_lower_bound_relu_coded` (all shapes, integrability of
   the right-hand side included), `C17_lower_bound_relu`, `C17_lower_bound_relu_model` (`Decoupled c`).

## Not proved
zero input weights (`w_k = 0`), collinear `ã_kᵀM`, `w_k` for `Dx > 1` (the code inverts a singular
matrix), `Da > Dy` without `Decoupled` (only the `…_coded` statements), floating point.
-/

set_option linter.unusedSimpArgs false
set_option linter.unnecessarySeqFocus false

/-! ## mathematics: uncorrelated affine forms of a Gaussian vector are independent; conditioning -/
namespace GT.Math
open MeasureTheory ProbabilityTheory Matrix Real
open scoped NNReal ENNReal

variable {n : Type*} [Fintype n] [DecidableEq n]

omit [DecidableEq n] in
theorem measurable_affine (t : n → ℝ) (c : ℝ) : Measurable fun x : n → ℝ => t ⬝ᵥ x + c :=
  ((continuous_const.dotProduct continuous_id).add continuous_const).measurable

section affine
variable {Λ : Matrix n n ℝ} (hΛ : Λ.PosDef) (ν : n → ℝ)
include hΛ

theorem memLp_affine_gaussProb (t : n → ℝ) (c : ℝ) (q : ℝ≥0) :
    MemLp (fun x : n → ℝ => t ⬝ᵥ x + c) q (gaussProb Λ ν) := by
  have h := memLp_id_gaussianReal (μ := t ⬝ᵥ Λ⁻¹ *ᵥ ν + c) (v := linVar Λ t) q
  rw [← gaussProb_map_affine hΛ ν t c,
    memLp_map_measure_iff aestronglyMeasurable_id (measurable_affine t c).aemeasurable] at h
  exact h

theorem integral_affine_gaussProb (t : n → ℝ) (c : ℝ) :
    ∫ x, (t ⬝ᵥ x + c) ∂(gaussProb Λ ν) = t ⬝ᵥ Λ⁻¹ *ᵥ ν + c := by
  have h := integral_map (μ := gaussProb Λ ν) (measurable_affine t c).aemeasurable
    (f := fun y : ℝ => y) aestronglyMeasurable_id
  rw [gaussProb_map_affine hΛ, integral_id_gaussianReal] at h
  exact h.symm

theorem variance_affine_gaussProb (t : n → ℝ) (c : ℝ) :
    Var[fun x : n → ℝ => t ⬝ᵥ x + c; gaussProb Λ ν] = t ⬝ᵥ Λ⁻¹ *ᵥ t := by
  have h := variance_map (μ := gaussProb Λ ν) (X := fun y : ℝ => y) (Y := fun x : n → ℝ => t ⬝ᵥ x + c)
    aemeasurable_id (measurable_affine t c).aemeasurable
  rw [gaussProb_map_affine hΛ, variance_fun_id_gaussianReal, linVar_coe hΛ] at h
  exact h.symm

theorem covariance_affine_gaussProb (t w : n → ℝ) (c β : ℝ) :
    cov[fun x : n → ℝ => t ⬝ᵥ x + c, fun x : n → ℝ => w ⬝ᵥ x + β; gaussProb Λ ν] = t ⬝ᵥ Λ⁻¹ *ᵥ w := by
  have := gaussProb_isProb hΛ ν
  have h := variance_fun_add (memLp_affine_gaussProb hΛ ν t c 2) (memLp_affine_gaussProb hΛ ν w β 2)
  have e : (fun x : n → ℝ => (t ⬝ᵥ x + c) + (w ⬝ᵥ x + β)) = fun x => (t + w) ⬝ᵥ x + (c + β) := by
    funext x; rw [add_dotProduct]; ring
  rw [e] at h
  rw [variance_affine_gaussProb hΛ, variance_affine_gaussProb hΛ, variance_affine_gaussProb hΛ] at h
  have hs := dotProduct_mulVec_symm (PosDef_inv_transpose hΛ) w t
  simp only [mulVec_add, add_dotProduct, dotProduct_add, hs] at h
  linarith

/-- a pair of affine forms of a Gaussian vector is Gaussian -/
theorem hasGaussianLaw_affine_pair (t w : n → ℝ) (c β : ℝ) :
    HasGaussianLaw (fun x : n → ℝ => (t ⬝ᵥ x + c, w ⬝ᵥ x + β)) (gaussProb Λ ν) := by
  constructor
  have hF : Measurable fun x : n → ℝ => (t ⬝ᵥ x + c, w ⬝ᵥ x + β) :=
    (measurable_affine t c).prodMk (measurable_affine w β)
  refine isGaussian_of_map_eq_gaussianReal fun L => ?_
  rw [Measure.map_map L.continuous.measurable hF]
  have e : (L ∘ fun x : n → ℝ => (t ⬝ᵥ x + c, w ⬝ᵥ x + β))
      = fun x => (L (1, 0) • t + L (0, 1) • w) ⬝ᵥ x + (L (1, 0) * c + L (0, 1) * β) := by
    funext x
    have h1 : ((t ⬝ᵥ x + c, w ⬝ᵥ x + β) : ℝ × ℝ)
        = (t ⬝ᵥ x + c) • ((1, 0) : ℝ × ℝ) + (w ⬝ᵥ x + β) • ((0, 1) : ℝ × ℝ) := by
      ext <;> simp
    simp only [Function.comp_apply]
    rw [h1, map_add, map_smul, map_smul, add_dotProduct, smul_dotProduct, smul_dotProduct]
    simp only [smul_eq_mul]
    ring
  rw [e, gaussProb_map_affine hΛ]
  exact ⟨_, _, rfl⟩

/-- uncorrelated affine forms of a Gaussian vector are independent -/
theorem indepFun_affine_of_uncorrelated (t w : n → ℝ) (c β : ℝ) (h0 : t ⬝ᵥ Λ⁻¹ *ᵥ w = 0) :
    IndepFun (fun x : n → ℝ => t ⬝ᵥ x + c) (fun x : n → ℝ => w ⬝ᵥ x + β) (gaussProb Λ ν) :=
  (hasGaussianLaw_affine_pair hΛ ν t w c β).indepFun_of_covariance_eq_zero
    (by rw [covariance_affine_gaussProb hΛ, h0])

/-- **Gaussian conditioning, second moment**: if `g = a⬝x + α`, `h = w⬝x + β` and `c1`, `c0` are the
regression coefficients of `g` on `h` (`(a − c1 w)ᵀΣw = 0`, `E g = c0 + c1 E h`), then for every
measurable `ψ` with `ψ(h)(1 + |h| + h²)` integrable,
`E[ψ(h) g²] = E[ψ(h) ((c0 + c1 h)² + s)]` with the residual variance `s = (a − c1 w)ᵀΣ(a − c1 w)`. -/
theorem gauss_condition_sq (a w : n → ℝ) (α β c1 c0 : ℝ)
    (hc1 : (a - c1 • w) ⬝ᵥ Λ⁻¹ *ᵥ w = 0)
    (hc0 : a ⬝ᵥ Λ⁻¹ *ᵥ ν + α = c0 + c1 * (w ⬝ᵥ Λ⁻¹ *ᵥ ν + β))
    (ψ : ℝ → ℝ) (hψ : Measurable ψ)
    (i0 : Integrable (fun x : n → ℝ => ψ (w ⬝ᵥ x + β)) (gaussProb Λ ν))
    (i1 : Integrable (fun x : n → ℝ => ψ (w ⬝ᵥ x + β) * (w ⬝ᵥ x + β)) (gaussProb Λ ν))
    (i2 : Integrable (fun x : n → ℝ => ψ (w ⬝ᵥ x + β) * (w ⬝ᵥ x + β) ^ 2) (gaussProb Λ ν)) :
    Integrable (fun x : n → ℝ => ψ (w ⬝ᵥ x + β) * (a ⬝ᵥ x + α) ^ 2) (gaussProb Λ ν) ∧
    ∫ x, ψ (w ⬝ᵥ x + β) * (a ⬝ᵥ x + α) ^ 2 ∂(gaussProb Λ ν)
      = ∫ x, ψ (w ⬝ᵥ x + β) * ((c0 + c1 * (w ⬝ᵥ x + β)) ^ 2
          + (a - c1 • w) ⬝ᵥ Λ⁻¹ *ᵥ (a - c1 • w)) ∂(gaussProb Λ ν) := by
  have := gaussProb_isProb hΛ ν
  set P := gaussProb Λ ν with hP
  set te : n → ℝ := a - c1 • w with hte
  set ce : ℝ := α - c1 * β - c0 with hce
  set s : ℝ := te ⬝ᵥ Λ⁻¹ *ᵥ te with hs
  let ε : (n → ℝ) → ℝ := fun x => te ⬝ᵥ x + ce
  let h : (n → ℝ) → ℝ := fun x => w ⬝ᵥ x + β
  have hmε : Measurable ε := measurable_affine te ce
  have hmh : Measurable h := measurable_affine w β
  have hg : ∀ x, a ⬝ᵥ x + α = (c0 + c1 * h x) + ε x := by
    intro x
    simp only [ε, h, hte, hce, sub_dotProduct, smul_dotProduct, smul_eq_mul]
    ring
  have hind : IndepFun ε h P := indepFun_affine_of_uncorrelated hΛ ν te w ce β hc1
  -- moments of ε
  have hEε : ∫ x, ε x ∂P = 0 := by
    rw [integral_affine_gaussProb hΛ]
    simp only [hte, hce, sub_dotProduct, smul_dotProduct, smul_eq_mul]
    linarith
  have hLε : MemLp ε 2 P := memLp_affine_gaussProb hΛ ν te ce 2
  have hiε : Integrable ε P := (memLp_affine_gaussProb hΛ ν te ce 1).integrable le_rfl
  have hiε2 : Integrable (fun x => ε x ^ 2) P := hLε.integrable_sq
  have hEε2 : ∫ x, ε x ^ 2 ∂P = s := by
    have hv := variance_eq_sub hLε
    rw [variance_affine_gaussProb hΛ] at hv
    simp only [Pi.pow_apply] at hv
    rw [hEε] at hv
    linarith
  -- the three pieces
  have iA : Integrable (fun x => ψ (h x) * (c0 + c1 * h x) ^ 2) P := by
    have : (fun x => ψ (h x) * (c0 + c1 * h x) ^ 2)
        = fun x => c0 ^ 2 * ψ (h x) + 2 * c0 * c1 * (ψ (h x) * h x) + c1 ^ 2 * (ψ (h x) * h x ^ 2) := by
      funext x; ring
    rw [this]
    exact ((i0.const_mul _).add (i1.const_mul _)).add (i2.const_mul _)
  have iB0 : Integrable (fun x => ψ (h x) * (c0 + c1 * h x)) P := by
    have : (fun x => ψ (h x) * (c0 + c1 * h x)) = fun x => c0 * ψ (h x) + c1 * (ψ (h x) * h x) := by
      funext x; ring
    rw [this]
    exact (i0.const_mul _).add (i1.const_mul _)
  have indB : IndepFun (fun x => ψ (h x) * (c0 + c1 * h x)) ε P :=
    (hind.symm).comp (φ := fun t => ψ t * (c0 + c1 * t)) (ψ := id)
      (hψ.mul (measurable_const.add (measurable_const.mul measurable_id))) measurable_id
  have indC : IndepFun (fun x => ψ (h x)) (fun x => ε x ^ 2) P :=
    (hind.symm).comp (φ := ψ) (ψ := fun e => e ^ 2) hψ (measurable_id.pow_const 2)
  have iB : Integrable (fun x => ψ (h x) * (c0 + c1 * h x) * ε x) P := indB.integrable_mul iB0 hiε
  have iC : Integrable (fun x => ψ (h x) * ε x ^ 2) P := indC.integrable_mul i0 hiε2
  have eB : ∫ x, ψ (h x) * (c0 + c1 * h x) * ε x ∂P = 0 := by
    rw [indB.integral_fun_mul_eq_mul_integral iB0.aestronglyMeasurable hiε.aestronglyMeasurable, hEε,
      mul_zero]
  have eC : ∫ x, ψ (h x) * ε x ^ 2 ∂P = (∫ x, ψ (h x) ∂P) * s := by
    rw [indC.integral_fun_mul_eq_mul_integral i0.aestronglyMeasurable hiε2.aestronglyMeasurable, hEε2]
  have hsplit : ∀ x, ψ (h x) * (a ⬝ᵥ x + α) ^ 2
      = ψ (h x) * (c0 + c1 * h x) ^ 2 + 2 * (ψ (h x) * (c0 + c1 * h x) * ε x) + ψ (h x) * ε x ^ 2 := by
    intro x; rw [hg x]; ring
  have iAB : Integrable (fun x => ψ (h x) * (c0 + c1 * h x) ^ 2
      + 2 * (ψ (h x) * (c0 + c1 * h x) * ε x)) P := iA.add (iB.const_mul 2)
  constructor
  · simp_rw [show ∀ x, ψ (w ⬝ᵥ x + β) = ψ (h x) from fun _ => rfl, hsplit]
    exact iAB.add iC
  · have hR : ∀ x, ψ (h x) * ((c0 + c1 * h x) ^ 2 + s)
        = ψ (h x) * (c0 + c1 * h x) ^ 2 + s * ψ (h x) := by intro x; ring
    show ∫ x, ψ (h x) * (a ⬝ᵥ x + α) ^ 2 ∂P = ∫ x, ψ (h x) * ((c0 + c1 * h x) ^ 2 + s) ∂P
    simp_rw [hsplit, hR]
    rw [integral_add iAB iC, integral_add iA (iB.const_mul 2), integral_const_mul, eB, eC,
      integral_add iA (i0.const_mul s), integral_const_mul]
    ring

end affine
end GT.Math


namespace GT.Props.C17Trunc
open GT Matrix MeasureTheory GT.Props.C17 GT.Props.C16 GT.Math ProbabilityTheory
open scoped NNReal

variable {Dy Dx Da Dk R : Nat}

/-! ## step link: pointwise identity -/
section pointwise
open Real

theorem wgt_eq_dens (p : PdfV R Dx ℝ) (r : Fin R) (x : Fin Dx → ℝ) : wgt p r x = dens p r x := rfl

theorem dval_heaviside (c : HeteroB Dy Dx Da Dk ℝ) (x : Fin Dx → ℝ) (k : Fin Dk) :
    dval heavisideOps c x k = heavisideLink (hW (c.W k) x) := by
  simp only [dval, hval_eq_hW]; rfl

theorem heavisideLink_cases (h : ℝ) : heavisideLink h = 0 ∨ heavisideLink h = 1 := by
  rw [heavisideLink_real]; split <;> simp

theorem heavisideLink_nonneg (h : ℝ) : 0 ≤ heavisideLink h := by
  rcases heavisideLink_cases h with e | e <;> rw [e] <;> norm_num

theorem heavisideLink_le_one (h : ℝ) : heavisideLink h ≤ 1 := by
  rcases heavisideLink_cases h with e | e <;> rw [e] <;> norm_num

theorem heaviside_G (h : ℝ) : heavisideLink h / (1 + heavisideLink h) = heavisideLink h / 2 := by
  rcases heavisideLink_cases h with e | e <;> rw [e] <;> norm_num

theorem heaviside_ell (h : ℝ) : log (1 + heavisideLink h) = log 2 * heavisideLink h := by
  rcases heavisideLink_cases h with e | e <;> rw [e] <;> norm_num

theorem dval_heaviside_nonneg (c : HeteroB Dy Dx Da Dk ℝ) (x : Fin Dx → ℝ) (k : Fin Dk) :
    0 ≤ dval heavisideOps c x k := by
  rw [dval_heaviside]; exact heavisideLink_nonneg _

/-- the integrand of the step class: `G_k = ½·1[h_k ≥ 0]`, `ℓ_k = log 2 · 1[h_k ≥ 0]` -/
noncomputable def stepIntegrand (c : HeteroB Dy Dx Da Dk ℝ) (y : Fin Dy → ℝ) (x : Fin Dx → ℝ) : ℝ :=
  lnForm c y x (fun k => heavisideLink (hW (c.W k) x) / 2) (fun k => log 2 * heavisideLink (hW (c.W k) x))

/-- **C17 (pointwise identity, step link)** -/
theorem C17_pointwise_step (c : HeteroB Dy Dx Da Dk ℝ) (y : Fin Dy → ℝ) (x : Fin Dx → ℝ) :
    stepIntegrand c y x =
      normalLn (toM (c.M 0) *ᵥ x + toV (c.b 0)) (precAt c (dval heavisideOps c x))
        (lnDetAt c (dval heavisideOps c x)) y := by
  rw [normalLn_coded]
  unfold stepIntegrand
  congr 1
  · funext k; rw [dval_heaviside, heaviside_G]
  · funext k; rw [dval_heaviside, heaviside_ell]

end pointwise

/-! ## step link: the log-determinant term -/
section logdet
open Real
variable {be : Backend ℝ} (hbe : be.Spec) {p : PdfV R Dx ℝ} (hp : PdfInv p)

theorem measurable_hW (Wi : Vec (Dx + 1) ℝ) : Measurable (hW Wi) := (continuous_hW Wi).measurable

theorem hW_eq (Wi : Vec (Dx + 1) ℝ) (x : Fin Dx → ℝ) : hW Wi x = toV (wTail Wi) ⬝ᵥ x + wHead Wi := rfl

/-- a bounded measurable function of `h` times an integrable function is integrable -/
theorem integrable_bdd_comp_hW_mul {f : ℝ → ℝ} (hf : Measurable f) {C : ℝ} (hC : ∀ h, |f h| ≤ C)
    (Wi : Vec (Dx + 1) ℝ) {g : (Fin Dx → ℝ) → ℝ} (hg : Integrable g) :
    Integrable fun x => f (hW Wi x) * g x := by
  refine hg.bdd_mul (c := C) (hf.comp (measurable_hW Wi)).aestronglyMeasurable
    (ae_of_all _ fun x => ?_)
  rw [Real.norm_eq_abs]; exact hC _

include hp in
theorem dens_integrable' (r : Fin R) : Integrable (dens p r) := dens_integrable hp.inv r

include hp in
theorem dens_integral_one (r : Fin R) : ∫ x, dens p r x = 1 := hp.mass r

include hbe hp in
/-- **step link, `get_lb_log_det`**: the returned value is
`ln det AAᵀ + Σ_k ∫ log 2 · 1[h_k(x) ≥ 0] p_r(x) dx` (non-zero input weights) -/
theorem heaviside_logdet_integral (c : HeteroB Dy Dx Da Dk ℝ) (hw : WeightsNonzero c) (r : Fin R) :
    (∀ k, Integrable fun x => log 2 * heavisideLink (hW (c.W k) x) * dens p r x) ∧
    heavisideGetLbLogDet be c p r
      = c.lnDetSigma 0 + ∑ k, ∫ x, log 2 * heavisideLink (hW (c.W k) x) * dens p r x := by
  constructor
  · intro k
    have := integrable_bdd_comp_hW_mul (f := fun h => log 2 * heavisideLink h)
      (measurable_heavisideLink.const_mul _) (C := |log 2|) (fun h => by
        rw [abs_mul]
        exact mul_le_of_le_one_right (abs_nonneg _)
          (by rw [abs_of_nonneg (heavisideLink_nonneg h)]; exact heavisideLink_le_one h))
      (c.W k) (dens_integrable' hp r)
    exact this
  · simp only [heavisideGetLbLogDet, tab_apply, tab2_apply, vsum_real, log2, two_real, transc_log]
    congr 1
    refine Finset.sum_congr rfl fun k _ => ?_
    rw [heavisideUnit_eq hbe hp (c.W k) (hw.tail_ne k) r, ← integral_const_mul]
    refine integral_congr_ae (ae_of_all _ fun x => ?_)
    simp only [hW_eq, wgt_eq_dens]
    ring

end logdet

/-! ## the truncated moments of `h = wᵀx + w0` -/
section trunc
variable {be : Backend ℝ} (hbe : be.Spec) {p : PdfV R Dx ℝ} (hp : PdfInv p)

theorem truncPos_false_eq_true (m : MeasureB R 1 ℝ) : truncPos be m false = truncPos be m true := by
  simp [truncPos, mkTruncMeasure, checkLimits]

theorem measurable_heaviside_pow (k : ℕ) : Measurable fun h : ℝ => heavisideLink h * h ^ k :=
  measurable_heavisideLink.mul (measurable_id.pow_const k)

theorem indicator_Ici_eq (f : ℝ → ℝ) (h : ℝ) :
    (Set.Ici (0:ℝ)).indicator f h = heavisideLink h * f h := by
  simp only [Set.indicator, Set.mem_Ici, heavisideLink_real]
  split <;> simp

include hbe hp

/-- set integrals of the density of `h` over `h ≥ 0` are expectations under `p_r` -/
theorem setIntegral_hTrunc (Wi : Vec (Dx + 1) ℝ) (hw : toV (wTail Wi) ≠ 0) (d : PdfV R 1 ℝ) (r : Fin R)
    (f : ℝ → ℝ) (hf : Measurable f) :
    ∫ h in C20.supp ((hTrunc be p Wi d).lower r) ((hTrunc be p Wi d).upper r),
        f h * C20.u (hTrunc be p Wi d) r h
      = ∫ x, heavisideLink (hW Wi x) * f (hW Wi x) * dens p r x := by
  have hl : (hTrunc be p Wi d).lower r = .fin 0 := by simp [hTrunc]
  have hu : (hTrunc be p Wi d).upper r = .posInf := by simp [hTrunc]
  have h1 := push_hDensity hbe hp Wi hw r (fun h => heavisideLink h * f h) (measurable_heavisideLink.mul hf)
  simp only [← hW_eq, wgt_eq_dens] at h1
  rw [h1, hl, hu, C20.supp_fin_posInf, ← integral_indicator measurableSet_Ici]
  refine integral_congr_ae (ae_of_all _ fun h => ?_)
  simp only [indicator_Ici_eq, u_hTrunc]
  ring

theorem hTrunc_moments (Wi : Vec (Dx + 1) ℝ) (hw : toV (wTail Wi) ≠ 0) {d : PdfV R 1 ℝ}
    (hd : (hDensity be p Wi).asPdf = some d) (r : Fin R) :
    (hTrunc be p Wi d).integral r = ∫ x, heavisideLink (hW Wi x) * dens p r x ∧
    (hTrunc be p Wi d).integrateX r 0 = ∫ x, heavisideLink (hW Wi x) * hW Wi x * dens p r x ∧
    (hTrunc be p Wi d).integrateXPow2 r 0 = ∫ x, heavisideLink (hW Wi x) * hW Wi x ^ 2 * dens p r x ∧
    ∀ k, (hTrunc be p Wi d).integrateXPowK k r 0
      = ∫ x, heavisideLink (hW Wi x) * hW Wi x ^ k * dens p r x := by
  obtain ⟨hok, hcm⟩ := hTrunc_ok hbe hp Wi hw hd
  refine ⟨?_, ?_, ?_, fun k => ?_⟩
  · rw [C20.C20_mass hok hcm r]
    have := setIntegral_hTrunc hbe hp Wi hw d r (fun _ => 1) measurable_const
    simpa using this
  · rw [C20.C20_x hok hcm r 0]
    have := setIntegral_hTrunc hbe hp Wi hw d r (fun h => h) measurable_id
    simpa using this
  · rw [C20.C20_x2 hok hcm r 0]
    exact setIntegral_hTrunc hbe hp Wi hw d r (fun h => h ^ 2) (measurable_id.pow_const 2)
  · rw [C20.C20_xk hok hcm r k 0]
    exact setIntegral_hTrunc hbe hp Wi hw d r (fun h => h ^ k) (measurable_id.pow_const k)

end trunc

/-! ## bridge: `p_r(x) dx` is the normalised Gaussian measure -/
section bridge
variable {p : PdfV R Dx ℝ} (hp : PdfInv p) (r : Fin R)
include hp

theorem lambda_posDef : (toM (p.Lambda r)).PosDef := hp.inv.posDef r

theorem sigma_eq_inv : toM (p.Sigma r) = (toM (p.Lambda r))⁻¹ :=
  (hp.inv.cov ⟨p.Sigma, p.lnDetSigma⟩ rfl r).inv

theorem mu_eq : toV (p.mu r) = (toM (p.Lambda r))⁻¹ *ᵥ toV (p.nu r) := hp.inv.mu p.mu rfl r

theorem dens_eq_gaussW (x : Fin Dx → ℝ) :
    dens p r x = (∫ x, gaussW (toM (p.Lambda r)) (toV (p.nu r)) x)⁻¹
      * gaussW (toM (p.Lambda r)) (toV (p.nu r)) x := by
  have hw_eq : ∀ x, dens p r x = Real.exp (p.lnBeta r) * gaussW (toM (p.Lambda r)) (toV (p.nu r)) x :=
    fun x => C03.exp_evalLn_eq p.toMeasure r x
  have h1 : ∫ x, dens p r x = 1 := hp.mass r
  simp only [hw_eq] at h1
  rw [integral_const_mul] at h1
  rw [hw_eq, eq_inv_of_mul_eq_one_left h1]

theorem integral_mul_dens (f : (Fin Dx → ℝ) → ℝ) :
    ∫ x, f x * dens p r x = ∫ x, f x ∂(gaussProb (toM (p.Lambda r)) (toV (p.nu r))) := by
  rw [integral_gaussProb (lambda_posDef hp r), ← integral_const_mul]
  refine integral_congr_ae (ae_of_all _ fun x => ?_)
  simp only [dens_eq_gaussW hp r]; ring

theorem integrable_mul_dens_iff (f : (Fin Dx → ℝ) → ℝ) :
    Integrable (fun x => f x * dens p r x)
      ↔ Integrable f (gaussProb (toM (p.Lambda r)) (toV (p.nu r))) := by
  rw [integrable_gaussProb_iff (lambda_posDef hp r)]
  have hZ := integral_gaussW_pos (lambda_posDef hp r) (toV (p.nu r))
  have e : (fun x => f x * dens p r x) = fun x =>
      (∫ x, gaussW (toM (p.Lambda r)) (toV (p.nu r)) x)⁻¹
        * (f x * gaussW (toM (p.Lambda r)) (toV (p.nu r)) x) := by
    funext x; rw [dens_eq_gaussW hp r]; ring
  rw [e]
  exact integrable_const_mul_iff (by rw [isUnit_iff_ne_zero]; exact (inv_pos.2 hZ).ne') _

/-- all polynomial moments of an affine form are finite -/
theorem integrable_affine_pow_mul_dens (t : Fin Dx → ℝ) (c : ℝ) (k : ℕ) :
    Integrable fun x => (t ⬝ᵥ x + c) ^ k * dens p r x := by
  rw [integrable_mul_dens_iff hp r]
  have h := memLp_affine_gaussProb (lambda_posDef hp r) (toV (p.nu r)) t c k
  by_cases hk : k = 0
  · subst hk
    have := gaussProb_isProb (lambda_posDef hp r) (toV (p.nu r))
    simp
  · have := h.integrable_norm_pow hk
    have h2 : Integrable (fun x => |t ⬝ᵥ x + c| ^ k) (gaussProb (toM (p.Lambda r)) (toV (p.nu r))) := by
      simpa using this
    refine h2.mono' ((measurable_affine t c).pow_const k).aestronglyMeasurable (ae_of_all _ fun x => ?_)
    rw [Real.norm_eq_abs, abs_pow]

end bridge

/-! ## regression of `g = aᵀ(y − Mx − b)` on `h = wᵀx + w0` under `p_r` -/
section regress
variable {p : PdfV R Dx ℝ} (hp : PdfInv p)

/-- `g(x) = a_iᵀ(y_r − Mx − b)` in the form `project_GH` uses -/
noncomputable def gOf (c : HeteroB Dy Dx Da Dk ℝ) (y : Arr R (Vec Dy ℝ)) (ai : Vec Dy ℝ) (r : Fin R)
    (x : Fin Dx → ℝ) : ℝ :=
  aProjYb c y ai r - toV (aProjM c ai) ⬝ᵥ x

theorem proj_eq_gOf (c : HeteroB Dy Dx Da Dk ℝ) (y : Arr R (Vec Dy ℝ)) (k : Fin Dk) (r : Fin R)
    (x : Fin Dx → ℝ) :
    proj c (toV (y r)) x k = gOf c y (tab fun i => (mmul (c.Lambda 0) c.Ak) i k) r x := by
  rw [← affFn_residualForm c y k r x]
  simp only [C03.affFn, residualForm, gOf, aProjYb, aProjM, tab_apply, Matrix.mulVec, dotProduct,
    toM_apply, toV_apply, Pi.add_apply, neg_mul, Finset.sum_neg_distrib]
  ring

/-- `(c1, c0, s)` are regression slope, intercept and residual variance of `σ·g` on `h` under `p_r`
(`σ = ±1`; only `g²` is used) -/
def RegressOK (p : PdfV R Dx ℝ) (c : HeteroB Dy Dx Da Dk ℝ) (y : Arr R (Vec Dy ℝ)) (Wi : Vec (Dx + 1) ℝ)
    (ai : Vec Dy ℝ) (r : Fin R) (c1 c0 s : ℝ) : Prop :=
  ∃ σ : ℝ, (σ = 1 ∨ σ = -1) ∧
    (σ • -(toV (aProjM c ai)) - c1 • toV (wTail Wi)) ⬝ᵥ toM (p.Sigma r) *ᵥ toV (wTail Wi) = 0 ∧
    (σ • -(toV (aProjM c ai))) ⬝ᵥ toV (p.mu r) + σ * aProjYb c y ai r
      = c0 + c1 * (toV (wTail Wi) ⬝ᵥ toV (p.mu r) + wHead Wi) ∧
    s = (σ • -(toV (aProjM c ai)) - c1 • toV (wTail Wi)) ⬝ᵥ toM (p.Sigma r)
          *ᵥ (σ • -(toV (aProjM c ai)) - c1 • toV (wTail Wi))

include hp in
/-- **conditioning**: `E_r[ψ(h) g²] = E_r[ψ(h) ((c0 + c1 h)² + s)]` -/
theorem regress_integral {c : HeteroB Dy Dx Da Dk ℝ} {y : Arr R (Vec Dy ℝ)} {Wi : Vec (Dx + 1) ℝ}
    {ai : Vec Dy ℝ} {r : Fin R} {c1 c0 s : ℝ} (h : RegressOK p c y Wi ai r c1 c0 s)
    (ψ : ℝ → ℝ) (hψ : Measurable ψ)
    (i0 : Integrable fun x => ψ (hW Wi x) * dens p r x)
    (i1 : Integrable fun x => ψ (hW Wi x) * hW Wi x * dens p r x)
    (i2 : Integrable fun x => ψ (hW Wi x) * hW Wi x ^ 2 * dens p r x) :
    Integrable (fun x => ψ (hW Wi x) * gOf c y ai r x ^ 2 * dens p r x) ∧
    ∫ x, ψ (hW Wi x) * gOf c y ai r x ^ 2 * dens p r x
      = ∫ x, ψ (hW Wi x) * ((c0 + c1 * hW Wi x) ^ 2 + s) * dens p r x := by
  obtain ⟨σ, hσ, h1, h2, h3⟩ := h
  have hσ2 : σ ^ 2 = 1 := by rcases hσ with e | e <;> rw [e] <;> norm_num
  rw [sigma_eq_inv hp r] at h1 h3
  rw [mu_eq hp r] at h2
  rw [integrable_mul_dens_iff hp r] at i0 i1 i2 ⊢
  rw [integral_mul_dens hp r, integral_mul_dens hp r]
  have key := gauss_condition_sq (lambda_posDef hp r) (toV (p.nu r)) (σ • -(toV (aProjM c ai)))
    (toV (wTail Wi)) (σ * aProjYb c y ai r) (wHead Wi) c1 c0 h1 h2 ψ hψ i0 i1 i2
  have hg : ∀ x : Fin Dx → ℝ, ((σ • -(toV (aProjM c ai))) ⬝ᵥ x + σ * aProjYb c y ai r) ^ 2
      = gOf c y ai r x ^ 2 := by
    intro x
    simp only [gOf, smul_dotProduct, neg_dotProduct, smul_eq_mul]
    have : (σ * -(toV (aProjM c ai) ⬝ᵥ x) + σ * aProjYb c y ai r) ^ 2
        = σ ^ 2 * (aProjYb c y ai r - toV (aProjM c ai) ⬝ᵥ x) ^ 2 := by ring
    rw [this, hσ2, one_mul]
  simp only [hg, ← hW_eq, ← h3] at key
  exact key

end regress

/-! ## step link: the heteroscedastic term of one unit -/
section stepHet
variable {be : Backend ℝ} (hbe : be.Spec) {p : PdfV R Dx ℝ} (hp : PdfInv p)

/-- residual variance as `get_lb_heteroscedastic_term_i` reads it (`Dx == 1`: absent) -/
def sigOf (sig : Option (Arr R ℝ)) (r : Fin R) : ℝ :=
  match sig with
  | some s => s r
  | none => 0

include hp in
theorem integrable_heaviside_pow (Wi : Vec (Dx + 1) ℝ) (r : Fin R) (k : ℕ) :
    Integrable fun x => heavisideLink (hW Wi x) * hW Wi x ^ k * dens p r x := by
  have h := integrable_bdd_comp_hW_mul (f := heavisideLink) measurable_heavisideLink (C := 1)
    (fun h => by rw [abs_of_nonneg (heavisideLink_nonneg h)]; exact heavisideLink_le_one h) Wi
    (integrable_affine_pow_mul_dens hp r (toV (wTail Wi)) (wHead Wi) k)
  refine h.congr (ae_of_all _ fun x => ?_)
  simp only [hW_eq]; ring

/-- expansion of `∫ ψ(h) ((c0 + c1 h)² + s) p_r` into the three moments of `ψ(h)` -/
theorem integral_quad_expand (Wi : Vec (Dx + 1) ℝ) (r : Fin R) (ψ : ℝ → ℝ) (c1 c0 s : ℝ)
    (i0 : Integrable fun x => ψ (hW Wi x) * dens p r x)
    (i1 : Integrable fun x => ψ (hW Wi x) * hW Wi x * dens p r x)
    (i2 : Integrable fun x => ψ (hW Wi x) * hW Wi x ^ 2 * dens p r x) :
    ∫ x, ψ (hW Wi x) * ((c0 + c1 * hW Wi x) ^ 2 + s) * dens p r x
      = (∫ x, ψ (hW Wi x) * dens p r x) * (c0 * c0)
        + (∫ x, ψ (hW Wi x) * hW Wi x ^ 2 * dens p r x) * (c1 * c1)
        + 2 * (∫ x, ψ (hW Wi x) * hW Wi x * dens p r x) * c1 * c0
        + (∫ x, ψ (hW Wi x) * dens p r x) * s := by
  have e : ∀ x, ψ (hW Wi x) * ((c0 + c1 * hW Wi x) ^ 2 + s) * dens p r x
      = ((c0 * c0 + s) * (ψ (hW Wi x) * dens p r x)
        + (c1 * c1) * (ψ (hW Wi x) * hW Wi x ^ 2 * dens p r x))
        + (2 * c1 * c0) * (ψ (hW Wi x) * hW Wi x * dens p r x) := by
    intro x; ring
  simp_rw [e]
  have j0 : Integrable fun x => (c0 * c0 + s) * (ψ (hW Wi x) * dens p r x) := i0.const_mul _
  have j2 : Integrable fun x => (c1 * c1) * (ψ (hW Wi x) * hW Wi x ^ 2 * dens p r x) := i2.const_mul _
  have j1 : Integrable fun x => (2 * c1 * c0) * (ψ (hW Wi x) * hW Wi x * dens p r x) := i1.const_mul _
  have j02 : Integrable fun x => (c0 * c0 + s) * (ψ (hW Wi x) * dens p r x)
      + (c1 * c1) * (ψ (hW Wi x) * hW Wi x ^ 2 * dens p r x) := j0.add j2
  rw [integral_add j02 j1, integral_add j0 j2, integral_const_mul, integral_const_mul,
    integral_const_mul]
  ring

include hbe hp in
/-- **step link, one unit**: if `project_GH` returns the density of `h` and regression coefficients
of `±g` on `h`, then `get_lb_heteroscedastic_term_i` is `∫ ½·1[h(x) ≥ 0] g(x)² p_r(x) dx` -/
theorem heaviside_het_of_project (c : HeteroB Dy Dx Da Dk ℝ) (y : Arr R (Vec Dy ℝ)) (Wi : Vec (Dx + 1) ℝ)
    (ai : Vec Dy ℝ) (hw : toV (wTail Wi) ≠ 0) (r : Fin R) (c1 c0 : Arr R ℝ) (sig : Option (Arr R ℝ))
    (hproj : projectGH be c p y Wi ai = (hDensity be p Wi, c1, c0, sig))
    (hreg : RegressOK p c y Wi ai r (c1 r) (c0 r) (sigOf sig r)) :
    Integrable (fun x => heavisideLink (hW Wi x) / 2 * gOf c y ai r x ^ 2 * dens p r x) ∧
    heavisideGetLbHeteroscedasticTermI be c p y Wi ai r
      = ∫ x, heavisideLink (hW Wi x) / 2 * gOf c y ai r x ^ 2 * dens p r x := by
  obtain ⟨d, hd, ht⟩ := truncPos_hDensity be p Wi
  obtain ⟨m0, m1, m2, -⟩ := hTrunc_moments hbe hp Wi hw hd r
  have i0 := integrable_heaviside_pow hp Wi r 0
  have i1 := integrable_heaviside_pow hp Wi r 1
  have i2 := integrable_heaviside_pow hp Wi r 2
  simp only [pow_zero, mul_one, pow_one] at i0 i1
  obtain ⟨ig, eg⟩ := regress_integral hp hreg heavisideLink measurable_heavisideLink i0 i1 i2
  have hhalf : ∀ x, heavisideLink (hW Wi x) / 2 * gOf c y ai r x ^ 2 * dens p r x
      = 1 / 2 * (heavisideLink (hW Wi x) * gOf c y ai r x ^ 2 * dens p r x) := by intro x; ring
  simp_rw [hhalf]
  refine ⟨ig.const_mul _, ?_⟩
  rw [integral_const_mul, eg, integral_quad_expand Wi r heavisideLink _ _ _ i0 i1 i2, ← m0, ← m1, ← m2]
  have htp : truncPos be (hDensity be p Wi) sig.isNone = some (hTrunc be p Wi d) := by
    cases sig.isNone
    · rw [truncPos_false_eq_true, ht]
    · exact ht
  simp only [heavisideGetLbHeteroscedasticTermI, hproj, htp, tab_apply, half_real, two_real]
  cases sig with
  | none => simp only [sigOf]; ring
  | some s => simp only [sigOf]; ring

end stepHet

/-! ## `project_GH`, branch `Dx == 1` -/
section projOne
variable {be : Backend ℝ}

theorem projectGH_one (c : HeteroB Dy 1 Da Dk ℝ) (p : PdfV R 1 ℝ) (y : Arr R (Vec Dy ℝ))
    (Wi : Vec (1 + 1) ℝ) (ai : Vec Dy ℝ) :
    projectGH be c p y Wi ai = (hDensity be p Wi, tab fun _ => aProjM c ai 0 / wTail Wi 0,
      tab fun r => -(aProjYb c y ai r + aProjM c ai 0 / wTail Wi 0 * wHead Wi), none) := by
  simp only [projectGH, dif_pos]
  rfl

theorem regressOK_one (c : HeteroB Dy 1 Da Dk ℝ) (p : PdfV R 1 ℝ) (y : Arr R (Vec Dy ℝ))
    (Wi : Vec (1 + 1) ℝ) (ai : Vec Dy ℝ) (hw0 : wTail Wi 0 ≠ 0) (r : Fin R) :
    RegressOK p c y Wi ai r (aProjM c ai 0 / wTail Wi 0)
      (-(aProjYb c y ai r + aProjM c ai 0 / wTail Wi 0 * wHead Wi)) 0 := by
  have hz : (-1 : ℝ) • -(toV (aProjM c ai)) - (aProjM c ai 0 / wTail Wi 0) • toV (wTail Wi) = 0 := by
    funext i
    have : i = 0 := Subsingleton.elim _ _
    subst this
    simp only [Pi.sub_apply, Pi.smul_apply, Pi.neg_apply, toV_apply, smul_eq_mul, Pi.zero_apply]
    field_simp
    ring
  refine ⟨-1, Or.inr rfl, ?_, ?_, ?_⟩
  · rw [hz, zero_dotProduct]
  · simp only [dotProduct, Fin.sum_univ_one, Pi.smul_apply, Pi.neg_apply, toV_apply, smul_eq_mul]
    field_simp
    ring
  · rw [hz, zero_dotProduct]

end projOne

/-! ## `project_GH`, branch `Dx > 1`: joint of `(g, h)`, marginal, conditional -/
section projTwo
variable {be : Backend ℝ}

/-- `sum_weights = [-a_projected_M; w]` -/
noncomputable def sumW (c : HeteroB Dy Dx Da Dk ℝ) (Wi : Vec (Dx + 1) ℝ) (ai : Vec Dy ℝ) : Mat 2 Dx ℝ :=
  tab2 fun s d => if s.1 = 0 then -(aProjM c ai d) else wTail Wi d

/-- `sum_bias = [a_projected_yb, w0]` -/
noncomputable def sumB (c : HeteroB Dy Dx Da Dk ℝ) (y : Arr R (Vec Dy ℝ)) (Wi : Vec (Dx + 1) ℝ) (ai : Vec Dy ℝ) :
    Arr R (Vec 2 ℝ) :=
  tab2 fun r s => if s.1 = 0 then aProjYb c y ai r else wHead Wi

/-- `p_hg`: the joint density of `(g, h)` -/
noncomputable def jointGH (be : Backend ℝ) (c : HeteroB Dy Dx Da Dk ℝ) (p : PdfV R Dx ℝ) (y : Arr R (Vec Dy ℝ))
    (Wi : Vec (Dx + 1) ℝ) (ai : Vec Dy ℝ) : MeasureB R 2 ℝ :=
  p.linearSum be (tab fun _ => sumW c Wi ai) (some (sumB c y Wi ai))

theorem projectGH_ne (hD : Dx ≠ 1) (c : HeteroB Dy Dx Da Dk ℝ) (p : PdfV R Dx ℝ) (y : Arr R (Vec Dy ℝ))
    (Wi : Vec (Dx + 1) ℝ) (ai : Vec Dy ℝ) {q : PdfV R 2 ℝ} (hq : (jointGH be c p y Wi ai).asPdf = some q) :
    projectGH be c p y Wi ai =
      (q.getMarginal be (fun _ : Fin 1 => (1 : Fin 2)),
        tab fun r => (q.conditionOnExplicit be (fun _ : Fin 1 => (1 : Fin 2)) (fun _ : Fin 1 => (0 : Fin 2))).M r 0 0,
        tab fun r => (q.conditionOnExplicit be (fun _ : Fin 1 => (1 : Fin 2)) (fun _ : Fin 1 => (0 : Fin 2))).b r 0,
        some (tab fun r =>
          (q.conditionOnExplicit be (fun _ : Fin 1 => (1 : Fin 2)) (fun _ : Fin 1 => (0 : Fin 2))).Sigma r 0 0)) := by
  have hq' : (p.linearSum be (tab fun _ => (tab2 fun s d => if s.1 = 0 then -(aProjM c ai d) else wTail Wi d : Mat 2 Dx ℝ))
      (some (tab2 fun r s => if s.1 = 0 then aProjYb c y ai r else wHead Wi))).asPdf = some q := hq
  simp only [projectGH, dif_neg hD, hq']

/-- the view of `p_hg` carries `Sigma = sumW Σ sumWᵀ`, `mu = sumW μ + sumB`, full class -/
theorem jointGH_view (c : HeteroB Dy Dx Da Dk ℝ) (p : PdfV R Dx ℝ) (y : Arr R (Vec Dy ℝ))
    (Wi : Vec (Dx + 1) ℝ) (ai : Vec Dy ℝ) {q : PdfV R 2 ℝ} (hq : (jointGH be c p y Wi ai).asPdf = some q) :
    q.diag = false ∧
    q.Sigma = (tab fun r => mmul (mmul (sumW c Wi ai) (p.Sigma r)) (transpose (sumW c Wi ai))) ∧
    q.mu = (tab fun r => vadd (mulVec (sumW c Wi ai) (p.mu r)) (sumB c y Wi ai r)) := by
  obtain ⟨j, hj, hS, hmu, -, -, -, -, hdg⟩ := mkPdf_asPdf (be := be) false
    (tab fun r => mmul (mmul ((tab fun _ => sumW c Wi ai : Arr R (Mat 2 Dx ℝ)) r) (p.Sigma r))
      (transpose ((tab fun _ => sumW c Wi ai : Arr R (Mat 2 Dx ℝ)) r)))
    (tab fun r => vadd (mulVec ((tab fun _ => sumW c Wi ai : Arr R (Mat 2 Dx ℝ)) r) (p.mu r))
      (sumB c y Wi ai r)) none none
  have hq2 : (jointGH be c p y Wi ai).asPdf = some j := hj
  rw [hq] at hq2
  obtain rfl := Option.some.inj hq2
  refine ⟨by rw [hdg, mkPdf_cls], ?_, ?_⟩
  · rw [hS]; simp only [tab_apply]
  · rw [hmu]; simp only [tab_apply]

/-- `p_h = p_hg.get_marginal([1])` is the object `get_density_of_linear_sum(w, w0)` -/
theorem marginal_eq_hDensity (c : HeteroB Dy Dx Da Dk ℝ) (p : PdfV R Dx ℝ) (y : Arr R (Vec Dy ℝ))
    (Wi : Vec (Dx + 1) ℝ) (ai : Vec Dy ℝ) {q : PdfV R 2 ℝ} (hq : (jointGH be c p y Wi ai).asPdf = some q) :
    q.getMarginal be (fun _ : Fin 1 => (1 : Fin 2)) = hDensity be p Wi := by
  obtain ⟨hd, hS, hmu⟩ := jointGH_view c p y Wi ai hq
  simp only [PdfV.getMarginal, hDensity, PdfV.linearSum, hd, hS, hmu]
  congr 1
  · ext r i j
    simp [sumW]
  · ext r i
    simp [sumW, sumB]

theorem mul_mul_transpose_apply {k n : Nat} (W : Matrix (Fin k) (Fin n) ℝ) (S : Matrix (Fin n) (Fin n) ℝ)
    (i j : Fin k) : (W * S * Wᵀ) i j = W i ⬝ᵥ S *ᵥ W j := by
  simp only [Matrix.mul_apply, Matrix.transpose_apply, dotProduct, Matrix.mulVec, Finset.sum_mul,
    Finset.mul_sum]
  rw [Finset.sum_comm]
  exact Finset.sum_congr rfl fun a _ => Finset.sum_congr rfl fun b _ => by ring

theorem inv_two_entries (S : Matrix (Fin 2) (Fin 2) ℝ) :
    S⁻¹ 0 0 = S.det⁻¹ * S 1 1 ∧ S⁻¹ 0 1 = -(S.det⁻¹ * S 0 1) := by
  rw [Matrix.inv_def, Matrix.adjugate_fin_two]
  simp [Ring.inverse_eq_inv']

theorem sumW_row0 (c : HeteroB Dy Dx Da Dk ℝ) (Wi : Vec (Dx + 1) ℝ) (ai : Vec Dy ℝ) :
    toM (sumW c Wi ai) 0 = -(toV (aProjM c ai)) := by
  funext d; simp [sumW]

theorem sumW_row1 (c : HeteroB Dy Dx Da Dk ℝ) (Wi : Vec (Dx + 1) ℝ) (ai : Vec Dy ℝ) :
    toM (sumW c Wi ai) 1 = toV (wTail Wi) := by
  funext d; simp [sumW]

/-- the covariance of `(g, h)` under every component of `p(x)` is regular (the code inverts it) -/
def JointRegular (p : PdfV R Dx ℝ) (c : HeteroB Dy Dx Da Dk ℝ) (Wi : Vec (Dx + 1) ℝ) (ai : Vec Dy ℝ) : Prop :=
  ∀ r, (toM (sumW c Wi ai) * toM (p.Sigma r) * (toM (sumW c Wi ai))ᵀ).PosDef

theorem regressOK_ne (hbe : be.Spec) {p : PdfV R Dx ℝ} (hp : PdfInv p) (c : HeteroB Dy Dx Da Dk ℝ)
    (y : Arr R (Vec Dy ℝ)) (Wi : Vec (Dx + 1) ℝ) (ai : Vec Dy ℝ) (hreg : JointRegular p c Wi ai)
    {q : PdfV R 2 ℝ} (hq : (jointGH be c p y Wi ai).asPdf = some q) (r : Fin R) :
    RegressOK p c y Wi ai r
      ((q.conditionOnExplicit be (fun _ : Fin 1 => (1 : Fin 2)) (fun _ : Fin 1 => (0 : Fin 2))).M r 0 0)
      ((q.conditionOnExplicit be (fun _ : Fin 1 => (1 : Fin 2)) (fun _ : Fin 1 => (0 : Fin 2))).b r 0)
      ((q.conditionOnExplicit be (fun _ : Fin 1 => (1 : Fin 2)) (fun _ : Fin 1 => (0 : Fin 2))).Sigma r 0 0) := by
  obtain ⟨-, hS, hmu⟩ := jointGH_view c p y Wi ai hq
  have hargs : C02.PdfArgsOK false
      (tab fun r => mmul (mmul ((tab fun _ => sumW c Wi ai : Arr R (Mat 2 Dx ℝ)) r) (p.Sigma r))
        (transpose ((tab fun _ => sumW c Wi ai : Arr R (Mat 2 Dx ℝ)) r))) none none :=
    C05.linearSum_argsOK p (tab fun _ => sumW c Wi ai) (fun r => by simpa using hreg r)
  have hqok : PdfFullOK q := mkPdf_pdfOK hbe false _ _ none none hargs hq
  have hinj : Function.Injective (fun _ : Fin 1 => (0 : Fin 2)) := fun a b _ => Subsingleton.elim a b
  obtain ⟨hPD, -, hSg, -, hM, hb⟩ := C06.C06_cond_params hbe q hqok (fun _ : Fin 1 => (1 : Fin 2))
    (fun _ : Fin 1 => (0 : Fin 2)) hinj r
  set cnd := q.conditionOnExplicit be (fun _ : Fin 1 => (1 : Fin 2)) (fun _ : Fin 1 => (0 : Fin 2)) with hcnd
  -- the joint covariance and its entries
  set S : Matrix (Fin 2) (Fin 2) ℝ := toM (sumW c Wi ai) * toM (p.Sigma r) * (toM (sumW c Wi ai))ᵀ with hSdef
  have hSq : toM (q.Sigma r) = S := by rw [hS]; simp only [tab_apply, toM_mmul, toM_transpose, hSdef]
  have hSPD : S.PosDef := hreg r
  have hΛq : toM (q.Lambda r) = S⁻¹ := by rw [hqok.lambda r, hSq]
  set a : Fin Dx → ℝ := -(toV (aProjM c ai)) with ha
  set w : Fin Dx → ℝ := toV (wTail Wi) with hw
  set Sg := toM (p.Sigma r) with hSgdef
  have hsym : Sgᵀ = Sg := by
    rw [hSgdef, sigma_eq_inv hp r]; exact PosDef_inv_transpose (lambda_posDef hp r)
  have e00 : S 0 0 = a ⬝ᵥ Sg *ᵥ a := by rw [hSdef, mul_mul_transpose_apply, sumW_row0]
  have e01 : S 0 1 = a ⬝ᵥ Sg *ᵥ w := by rw [hSdef, mul_mul_transpose_apply, sumW_row0, sumW_row1]
  have e10 : S 1 0 = a ⬝ᵥ Sg *ᵥ w := by
    rw [hSdef, mul_mul_transpose_apply, sumW_row0, sumW_row1]
    exact dotProduct_mulVec_symm hsym _ _
  have e11 : S 1 1 = w ⬝ᵥ Sg *ᵥ w := by rw [hSdef, mul_mul_transpose_apply, sumW_row1]
  have h11 : 0 < S 1 1 := by simpa using hSPD.diag_pos (i := 1)
  have hdet : 0 < S.det := hSPD.det_pos
  have hdet2 : S.det = S 0 0 * S 1 1 - S 0 1 * S 1 0 := Matrix.det_fin_two S
  obtain ⟨i00, i01⟩ := inv_two_entries S
  have hL00 : 0 < S⁻¹ 0 0 := by rw [i00]; positivity
  -- the returned coefficients
  have hsub00 : ((S⁻¹).submatrix (fun _ : Fin 1 => (0 : Fin 2)) (fun _ : Fin 1 => (0 : Fin 2)))⁻¹ 0 0
      = (S⁻¹ 0 0)⁻¹ := by
    have := C20.inv_one_apply ((S⁻¹).submatrix (fun _ : Fin 1 => (0 : Fin 2)) (fun _ : Fin 1 => (0 : Fin 2)))
      (by simpa using hL00.ne')
    simp only [Matrix.submatrix_apply] at this
    field_simp
    exact this
  have hc1 : cnd.M r 0 0 = S 0 1 / S 1 1 := by
    have := congrFun (congrFun hM 0) 0
    simp only [toM_apply, hΛq, Matrix.neg_apply, Matrix.mul_apply, Fin.sum_univ_one, hsub00,
      Matrix.submatrix_apply] at this
    rw [this, i00, i01]
    field_simp
  have hs : cnd.Sigma r 0 0 = S.det / S 1 1 := by
    have := congrFun (congrFun hSg 0) 0
    simp only [toM_apply, hΛq, hsub00] at this
    rw [this, i00]
    field_simp
  have hc0 : cnd.b r 0 = (a ⬝ᵥ toV (p.mu r) + aProjYb c y ai r)
      - S 0 1 / S 1 1 * (w ⬝ᵥ toV (p.mu r) + wHead Wi) := by
    have := congrFun hb 0
    simp only [toV_apply, hΛq, Pi.add_apply, Function.comp_apply, Matrix.mulVec, dotProduct,
      Fin.sum_univ_one, Matrix.mul_apply, hsub00, Matrix.submatrix_apply, hmu, tab_apply, vadd_apply,
      mulVec_apply] at this
    rw [this, i00, i01]
    have m0 : (∑ j, sumW c Wi ai 0 j * p.mu r j) = a ⬝ᵥ toV (p.mu r) := by
      simp [sumW, ha, dotProduct]
    have m1 : (∑ j, sumW c Wi ai 1 j * p.mu r j) = w ⬝ᵥ toV (p.mu r) := by
      simp [sumW, hw, dotProduct]
    rw [m0, m1]
    simp [sumB]
    field_simp
    ring
  refine ⟨1, Or.inl rfl, ?_, ?_, ?_⟩
  · rw [one_smul, ← ha, ← hw, hc1, sub_dotProduct, smul_dotProduct, smul_eq_mul, ← e01, ← e11]
    field_simp
    ring
  · rw [one_smul, one_mul, ← ha, ← hw, hc0, hc1]
    ring
  · rw [one_smul, ← ha, ← hw, hc1, hs, hdet2]
    simp only [sub_dotProduct, smul_dotProduct, Matrix.mulVec_sub, Matrix.mulVec_smul, dotProduct_sub,
      dotProduct_smul, smul_eq_mul]
    rw [dotProduct_mulVec_symm hsym w a, ← e00, ← e01, ← e11, e10, ← e01]
    field_simp
    ring

end projTwo

/-! ## step link: heteroscedastic term of unit `k`, both branches -/
section stepUnit
variable {be : Backend ℝ} (hbe : be.Spec) {p : PdfV R Dx ℝ} (hp : PdfInv p)

/-- `a_i`: column `k` of `Λ A_k` -/
noncomputable def aCol (c : HeteroB Dy Dx Da Dk ℝ) (k : Fin Dk) : Vec Dy ℝ :=
  tab fun i => (mmul (c.Lambda 0) c.Ak) i k

/-- the condition the `Dx > 1` branch of `project_GH` needs for every noise unit: the covariance of
`(g_k, h_k)` under each component of `p(x)` is regular (`a_kᵀM` and `w_k` not collinear) -/
def UnitsRegular (p : PdfV R Dx ℝ) (c : HeteroB Dy Dx Da Dk ℝ) : Prop :=
  Dx ≠ 1 → ∀ k, JointRegular p c (c.W k) (aCol c k)

theorem jointGH_isSome (c : HeteroB Dy Dx Da Dk ℝ) (p : PdfV R Dx ℝ) (y : Arr R (Vec Dy ℝ))
    (Wi : Vec (Dx + 1) ℝ) (ai : Vec Dy ℝ) : ∃ q, (jointGH be c p y Wi ai).asPdf = some q :=
  mkPdf_asPdf_isSome be false _ _ none none

include hbe hp in
/-- **step link, heteroscedastic term of unit `k`** (both branches of `project_GH`):
`get_lb_heteroscedastic_term_i = ∫ ½·1[h_k(x) ≥ 0] (ã_kᵀ(y − Mx − b))² p_r(x) dx` -/
theorem heaviside_het_integral (c : HeteroB Dy Dx Da Dk ℝ) (y : Arr R (Vec Dy ℝ)) (k : Fin Dk)
    (hw : WeightsNonzero c) (hreg : UnitsRegular p c) (r : Fin R) :
    Integrable (fun x => heavisideLink (hW (c.W k) x) / 2 * proj c (toV (y r)) x k ^ 2 * dens p r x) ∧
    heavisideGetLbHeteroscedasticTermI be c p y (c.W k) (aCol c k) r
      = ∫ x, heavisideLink (hW (c.W k) x) / 2 * proj c (toV (y r)) x k ^ 2 * dens p r x := by
  have hpe : ∀ x, proj c (toV (y r)) x k = gOf c y (aCol c k) r x := fun x => proj_eq_gOf c y k r x
  simp only [hpe]
  by_cases hD : Dx = 1
  · subst hD
    have hw0 : wTail (c.W k) 0 ≠ 0 := by
      intro h0
      apply hw.tail_ne k
      funext i
      have : i = 0 := Subsingleton.elim _ _
      subst this
      simpa using h0
    refine heaviside_het_of_project hbe hp c y (c.W k) (aCol c k) (hw.tail_ne k) r _ _ none
      (projectGH_one c p y (c.W k) (aCol c k)) ?_
    have := regressOK_one c p y (c.W k) (aCol c k) hw0 r
    simpa [sigOf] using this
  · obtain ⟨q, hq⟩ := jointGH_isSome (be := be) c p y (c.W k) (aCol c k)
    have hproj := projectGH_ne hD c p y (c.W k) (aCol c k) hq
    rw [marginal_eq_hDensity c p y (c.W k) (aCol c k) hq] at hproj
    refine heaviside_het_of_project hbe hp c y (c.W k) (aCol c k) (hw.tail_ne k) r _ _ _ hproj ?_
    have := regressOK_ne hbe hp c y (c.W k) (aCol c k) (hreg hD k) hq r
    simpa [sigOf] using this

end stepUnit

/-- **step link, `Dx == 1` branch** (no regularity hypothesis) -/
theorem heaviside_het_integral_Dx1 {be : Backend ℝ} (hbe : be.Spec) {p : PdfV R 1 ℝ} (hp : PdfInv p)
    (c : HeteroB Dy 1 Da Dk ℝ) (y : Arr R (Vec Dy ℝ)) (k : Fin Dk) (hw : WeightsNonzero c) (r : Fin R) :
    heavisideGetLbHeteroscedasticTermI be c p y (c.W k) (aCol c k) r
      = ∫ x, heavisideLink (hW (c.W k) x) / 2 * proj c (toV (y r)) x k ^ 2 * dens p r x :=
  (heaviside_het_integral hbe hp c y k hw (fun h => absurd rfl h) r).2

/-- **step link, `Dx > 1` branch** (joint of `(g, h)`, marginal, conditional); the hypothesis can only
hold for `Dx > 1` -/
theorem heaviside_het_integral_DxGt1 {be : Backend ℝ} (hbe : be.Spec) {p : PdfV R Dx ℝ} (hp : PdfInv p)
    (c : HeteroB Dy Dx Da Dk ℝ) (y : Arr R (Vec Dy ℝ))
    (k : Fin Dk) (hw : WeightsNonzero c) (hreg : ∀ k, JointRegular p c (c.W k) (aCol c k)) (r : Fin R) :
    heavisideGetLbHeteroscedasticTermI be c p y (c.W k) (aCol c k) r
      = ∫ x, heavisideLink (hW (c.W k) x) / 2 * proj c (toV (y r)) x k ^ 2 * dens p r x :=
  (heaviside_het_integral hbe hp c y k hw (fun _ => hreg) r).2

/-! ## step link: assembly — the returned value EQUALS the expectation of `ln p(y|x)` -/
section stepAssembly
open Real
variable {be : Backend ℝ} (hbe : be.Spec) {p : PdfV R Dx ℝ} (hp : PdfInv p)

theorem integrateLogConditionalY_step_eq (c : HeteroB Dy Dx Da Dk ℝ) (y : Arr R (Vec Dy ℝ)) (r : Fin R) :
    c.integrateLogConditionalY heavisideOps be p y r =
      -(1 / 2) * (((p.toMeasure.intView be).2.integrateQuadInner (homoA c y) (homoB c y)) r
        - (∑ k, heavisideGetLbHeteroscedasticTermI be c p y (c.W k) (aCol c k) r)
        + heavisideGetLbLogDet be c p r + (Dy : ℝ) * log (2 * π)) := by
  simp only [HeteroB.integrateLogConditionalY, getLbQuadraticTerm_eq, tab_apply, half_real, ofNat_real,
    log2pi_real, heavisideOps, aCol]
  ring

include hbe hp

/-- **identification of the returned value (step class, all shapes `Dy ≤ Da`)**:
`integrate_log_conditional_y(p_x, y)` is the expectation under `p_r` of `stepIntegrand` -/
theorem C17_step_value_eq_integral (c : HeteroB Dy Dx Da Dk ℝ) (y : Arr R (Vec Dy ℝ))
    (hw : WeightsNonzero c) (hreg : UnitsRegular p c) (r : Fin R) :
    Integrable (fun x => stepIntegrand c (toV (y r)) x * dens p r x) ∧
    c.integrateLogConditionalY heavisideOps be p y r
      = ∫ x, stepIntegrand c (toV (y r)) x * dens p r x := by
  obtain ⟨iℓ, eℓ⟩ := heaviside_logdet_integral hbe hp c hw r
  have h := integral_lnForm c (toV (y r)) (dens p r)
    (fun x k => heavisideLink (hW (c.W k) x) / 2)
    (fun x k => log 2 * heavisideLink (hW (c.W k) x))
    (dens_integrable' hp r) (dens_integral_one hp r) (homo_integral hbe hp.inv c y r).1
    (fun k => (heaviside_het_integral hbe hp c y k hw hreg r).1) iℓ
  refine ⟨h.1, ?_⟩
  unfold stepIntegrand
  rw [h.2, integrateLogConditionalY_step_eq, (homo_integral hbe hp.inv c y r).2, eℓ]
  congr 3
  congr 1
  exact Finset.sum_congr rfl fun k _ => (heaviside_het_integral hbe hp c y k hw hreg r).2

/-- **C17 (step link; all shapes)**: the returned value EQUALS the expectation of the log-density built
from the RETURNED precision and log-determinant of `get_conditional_cov(x, invert=True)` -/
theorem C17_step_equality_coded (c : HeteroB Dy Dx Da Dk ℝ) (y : Arr R (Vec Dy ℝ))
    (hw : WeightsNonzero c) (hreg : UnitsRegular p c) (r : Fin R) :
    Integrable (fun x => normalLn (toM (c.M 0) *ᵥ x + toV (c.b 0)) (precAt c (dval heavisideOps c x))
      (lnDetAt c (dval heavisideOps c x)) (toV (y r)) * dens p r x) ∧
    c.integrateLogConditionalY heavisideOps be p y r =
      ∫ x, normalLn (toM (c.M 0) *ᵥ x + toV (c.b 0)) (precAt c (dval heavisideOps c x))
        (lnDetAt c (dval heavisideOps c x)) (toV (y r)) * dens p r x := by
  have h := C17_step_value_eq_integral hbe hp c y hw hreg r
  simp_rw [C17_pointwise_step] at h
  exact h

/-- **C17 (step link; decoupled case, in particular `Da = Dy`)**:
`integrate_log_conditional_y(p_x, y) = E_{p_r}[ln N(y; Mx+b, AAᵀ + A_k diag(1[Wx+w0 ≥ 0]) A_kᵀ)]` -/
theorem C17_step_equality (c : HeteroB Dy Dx Da Dk ℝ) (hc : HeteroOK c) (hdec : Decoupled c)
    (y : Arr R (Vec Dy ℝ)) (hw : WeightsNonzero c) (hreg : UnitsRegular p c) (r : Fin R) :
    c.integrateLogConditionalY heavisideOps be p y r =
      ∫ x, normalLn (toM (c.M 0) *ᵥ x + toV (c.b 0)) (covAt c (dval heavisideOps c x))⁻¹
        (Real.log (covAt c (dval heavisideOps c x)).det) (toV (y r)) * dens p r x := by
  have h := (C17_step_equality_coded hbe hp c y hw hreg r).2
  simp_rw [precAt_eq_inv hc hdec (dval_heaviside_nonneg c _),
    lnDetAt_eq hc hdec (dval_heaviside_nonneg c _)] at h
  exact h

/-- the same with the right-hand side spelled through the model: the expectation of
`condition_on_x(x).evaluate_ln(y)` -/
theorem C17_step_equality_model (c : HeteroB Dy Dx Da Dk ℝ) (hc : HeteroOK c) (hdec : Decoupled c)
    (y : Arr R (Vec Dy ℝ)) (hw : WeightsNonzero c) (hreg : UnitsRegular p c) (r : Fin R) :
    c.integrateLogConditionalY heavisideOps be p y r =
      ∫ x, (c.conditionOnX heavisideOps be (tab fun _ : Fin 1 => ofV x)).evalLn 0 (y r) * dens p r x := by
  have h := C17_step_equality hbe hp c hc hdec y hw hreg r
  have e : ∀ x : Fin Dx → ℝ,
      (c.conditionOnX heavisideOps be (tab fun _ : Fin 1 => ofV x)).evalLn 0 (y r)
      = normalLn (toM (c.M 0) *ᵥ x + toV (c.b 0)) (covAt c (dval heavisideOps c x))⁻¹
        (Real.log (covAt c (dval heavisideOps c x)).det) (toV (y r)) := by
    intro x
    have := C17_conditionOnX_evalLn hbe heavisideOps c hc hdec (tab fun _ : Fin 1 => ofV x)
      (fun n k => dval_heaviside_nonneg c _ k) 0 (toV (y r))
    simpa using this
  simp_rw [e]
  exact h

end stepAssembly

/-! ## rectified-linear link: scalar bounds and pointwise minorant -/
section reluPointwise
open Real

/-- log of the exponential lower bound of `1/(1+h)` at `ω` (`_lower_bound_integrals`) -/
noncomputable def phiLn (ω h : ℝ) : ℝ := (-(log (1 + ω)) + ω / (1 + ω)) + (-1 / (1 + ω)) * h

/-- integrand of `k_func` (rectified-linear class): tangent of `log(1+h)` at `ω`, on `h ≥ 0` -/
noncomputable def reluK (ω h : ℝ) : ℝ := heavisideLink h * (log (1 + ω) + 1 / (1 + ω) * (h - ω))

/-- lower bound of `G(h) = relu(h)/(1+relu(h))` used by the heteroscedastic term -/
noncomputable def reluLb (ω h : ℝ) : ℝ := heavisideLink h * h * exp (phiLn ω h)

theorem heavisideLink_of_neg {h : ℝ} (hh : h < 0) : heavisideLink h = 0 := by
  rw [heavisideLink_real]; simp [not_le.2 hh]

theorem heavisideLink_of_nonneg {h : ℝ} (hh : 0 ≤ h) : heavisideLink h = 1 := by
  rw [heavisideLink_real]; simp [hh]

theorem reluLink_of_neg {h : ℝ} (hh : h < 0) : reluLink h = 0 := by
  rw [reluLink_real]; exact max_eq_right hh.le

theorem reluLink_of_nonneg {h : ℝ} (hh : 0 ≤ h) : reluLink h = h := by
  rw [reluLink_real]; exact max_eq_left hh

theorem reluLink_nonneg (h : ℝ) : 0 ≤ reluLink h := by
  rw [reluLink_real]; exact le_max_right _ _

/-- **pointwise bound used by `get_lb_log_det`, rectified-linear link**, every `ω ≥ 0` -/
theorem reluK_ge (ω h : ℝ) (hω : 0 ≤ ω) : log (1 + reluLink h) ≤ reluK ω h := by
  unfold reluK
  rcases lt_or_ge h 0 with hh | hh
  · rw [reluLink_of_neg hh, heavisideLink_of_neg hh]; simp
  · rw [reluLink_of_nonneg hh, heavisideLink_of_nonneg hh, one_mul]
    have := GT.Math.log_one_add_tangent_bound h ω hh hω
    have e : 1 / (1 + ω) * (h - ω) = (h - ω) / (1 + ω) := by ring
    rw [e]; exact this

theorem reluLb_nonneg (ω h : ℝ) : 0 ≤ reluLb ω h := by
  unfold reluLb
  rcases lt_or_ge h 0 with hh | hh
  · rw [heavisideLink_of_neg hh]; simp
  · rw [heavisideLink_of_nonneg hh, one_mul]; exact mul_nonneg hh (exp_pos _).le

/-- **pointwise bound used by the heteroscedastic term, rectified-linear link**, every `ω ≥ 0` -/
theorem reluLb_le (ω h : ℝ) (hω : 0 ≤ ω) : reluLb ω h ≤ reluLink h / (1 + reluLink h) := by
  unfold reluLb
  rcases lt_or_ge h 0 with hh | hh
  · rw [reluLink_of_neg hh, heavisideLink_of_neg hh]; simp
  · rw [reluLink_of_nonneg hh, heavisideLink_of_nonneg hh, one_mul, div_eq_mul_inv]
    refine mul_le_mul_of_nonneg_left ?_ hh
    have h1 : 0 < 1 + h := by linarith
    have h2 : 0 < 1 + ω := by linarith
    rw [← Real.exp_log (inv_pos.2 h1), Real.log_inv]
    apply Real.exp_le_exp.2
    have := GT.Math.log_one_add_tangent_bound h ω hh hω
    have e : phiLn ω h = -(log (1 + ω) + (h - ω) / (1 + ω)) := by
      unfold phiLn; field_simp; ring
    rw [e]; linarith

theorem dval_relu (c : HeteroB Dy Dx Da Dk ℝ) (x : Fin Dx → ℝ) (k : Fin Dk) :
    dval reluOps c x k = reluLink (hW (c.W k) x) := by
  simp only [dval, hval_eq_hW]; rfl

theorem dval_relu_nonneg (c : HeteroB Dy Dx Da Dk ℝ) (x : Fin Dx → ℝ) (k : Fin Dk) :
    0 ≤ dval reluOps c x k := by
  rw [dval_relu]; exact reluLink_nonneg _

/-- integrand of the rectified-linear bound for variational parameters `ωs` (heteroscedastic term)
and `ωd` (log-determinant) -/
noncomputable def reluLbIntegrand (c : HeteroB Dy Dx Da Dk ℝ) (y : Fin Dy → ℝ) (ωs ωd : Fin Dk → ℝ)
    (x : Fin Dx → ℝ) : ℝ :=
  lnForm c y x (fun k => reluLb (ωs k) (hW (c.W k) x)) (fun k => reluK (ωd k) (hW (c.W k) x))

/-- **C17 (pointwise validity, rectified-linear link)**: for EVERY non-negative value of the
variational parameters the integrand of the bound lies below the log-density built from the
returned precision and log-determinant -/
theorem C17_pointwise_relu (c : HeteroB Dy Dx Da Dk ℝ) (y : Fin Dy → ℝ) (ωs ωd : Fin Dk → ℝ)
    (hs : ∀ k, 0 ≤ ωs k) (hd : ∀ k, 0 ≤ ωd k) (x : Fin Dx → ℝ) :
    reluLbIntegrand c y ωs ωd x ≤
      normalLn (toM (c.M 0) *ᵥ x + toV (c.b 0)) (precAt c (dval reluOps c x))
        (lnDetAt c (dval reluOps c x)) y := by
  rw [normalLn_coded]
  apply lnForm_mono
  · intro k; rw [dval_relu]; exact reluLb_le _ _ (hs k)
  · intro k; rw [dval_relu]; exact reluK_ge _ _ (hd k)

end reluPointwise

/-! ## rectified-linear link: `k_func` and `_lower_bound_integrals` as integrals -/
section reluIntegrals
open Real
variable {be : Backend ℝ} (hbe : be.Spec) {p : PdfV R Dx ℝ} (hp : PdfInv p)

include hbe hp in
/-- **`k_func` (rectified-linear class) is `∫ reluK ω h(x) p_r(x) dx`** -/
theorem relu_kfunc_integral (Wi : Vec (Dx + 1) ℝ) (hw : toV (wTail Wi) ≠ 0) (ω : Arr R ℝ) (r : Fin R) :
    Integrable (fun x => reluK (ω r) (hW Wi x) * dens p r x) ∧
    reluKFunc be p Wi ω r = ∫ x, reluK (ω r) (hW Wi x) * dens p r x := by
  obtain ⟨d, hd, ht⟩ := truncPos_hDensity be p Wi
  obtain ⟨m0, m1, -, -⟩ := hTrunc_moments hbe hp Wi hw hd r
  have i0 := integrable_heaviside_pow hp Wi r 0
  have i1 := integrable_heaviside_pow hp Wi r 1
  simp only [pow_zero, mul_one, pow_one] at i0 i1
  have e : ∀ x, reluK (ω r) (hW Wi x) * dens p r x
      = (log (1 + ω r) - 1 / (1 + ω r) * ω r) * (heavisideLink (hW Wi x) * dens p r x)
        + 1 / (1 + ω r) * (heavisideLink (hW Wi x) * hW Wi x * dens p r x) := by
    intro x; unfold reluK; ring
  simp_rw [e]
  have j0 : Integrable fun x => (log (1 + ω r) - 1 / (1 + ω r) * ω r)
      * (heavisideLink (hW Wi x) * dens p r x) := i0.const_mul _
  have j1 : Integrable fun x => 1 / (1 + ω r) * (heavisideLink (hW Wi x) * hW Wi x * dens p r x) :=
    i1.const_mul _
  refine ⟨j0.add j1, ?_⟩
  rw [integral_add j0 j1, integral_const_mul, integral_const_mul, ← m0, ← m1]
  simp only [reluKFunc, ht, tab_apply, transc_log]
  ring

/-- the factor `_lower_bound_integrals` multiplies `p_h` with (rectified-linear class; verbatim) -/
noncomputable def phiFactor (ω : Arr R ℝ) : Factor R 1 ℝ :=
  let nuPhi : Arr _ ℝ := tab fun r => -1 / (1 + ω r)
  let lnBetaPhi : Arr _ ℝ := tab fun r => -(Transc.log (1 + ω r)) + ω r / (1 + ω r)
  .linear (tab2 fun r _ => nuPhi r) lnBetaPhi

theorem phiFactor_evalLn (ω : Arr R ℝ) (r : Fin R) (h : ℝ) :
    (phiFactor ω).evalLn r (C20.vec1 h) = phiLn (ω r) h := by
  rw [Factor.evalLn, C01.evalLn_real]
  simp only [phiFactor, Factor.toB, tab_apply, tab2_apply, C20.vec1, transc_log, zeroM_apply, zero_mul,
    Finset.sum_const_zero, mul_zero, neg_zero, zero_add, Fin.sum_univ_one, phiLn]
  ring

theorem mkTruncMeasure_u {m : MeasureB R 1 ℝ} (hcls : m.cls.isPdf = false)
    (lower upper : Option (LimArg R ℝ)) {m' : MeasureB R 1 ℝ} {t : TruncB R ℝ}
    (hres : mkTruncMeasure be m lower upper = some (m', t)) (r : Fin R) (h : ℝ) :
    C20.u t r h = Real.exp (m.evalLn r (C20.vec1 h)) := by
  unfold mkTruncMeasure at hres
  cases hcl : checkLimits lower upper with
  | none => simp [hcl] at hres
  | some lu =>
    obtain ⟨lo, up⟩ := lu
    simp only [hcl, hcls, Bool.false_eq_true, if_false] at hres
    cases hd : (m.getDensity be).2.asPdf with
    | none => simp [hd] at hres
    | some d =>
      simp only [hd, Option.some.injEq, Prod.mk.injEq] at hres
      obtain ⟨-, rfl⟩ := hres
      have hfst : ((m.getDensity be).1.integral be).1 = (m.prepare be).prepare be := rfl
      simp only [C20.u, hfst]
      rw [C20.evalLn_vec1, C20.evalLn_vec1, prepare_Lambda, prepare_nu, prepare_lnBeta, prepare_Lambda,
        prepare_nu, prepare_lnBeta]

theorem hadamard_linear_cls (m : MeasureB R 1 ℝ) (nu : Arr R (Vec 1 ℝ)) (lb : Arr R ℝ) :
    (m.hadamard be (.linear nu lb) true).cls.isPdf = false := by
  cases h : m.cov <;>
    simp [MeasureB.hadamard, productSel, h, finishInvert, finishCov, MeasureB.mk0, MCls.isPdf]

theorem measurable_phiLn (ω : ℝ) : Measurable (phiLn ω) := by
  unfold phiLn; fun_prop

theorem hDensity_inv (hbe : be.Spec) (hp : PdfInv p) (Wi : Vec (Dx + 1) ℝ) (hw : toV (wTail Wi) ≠ 0) :
    (hDensity be p Wi).Inv := by
  rw [hDensity_eq]
  exact C05.C05_linear_sum_inv hbe p (wRow Wi) _ (wRow_posDef hp Wi hw)

include hbe hp in
/-- the truncated object of `_lower_bound_integrals` (rectified-linear class) exists and its moments
are expectations under `p_r` of `1[h ≥ 0] h^k exp(phiLn ω h)` -/
theorem relu_trunc_moments (Wi : Vec (Dx + 1) ℝ) (hw : toV (wTail Wi) ≠ 0) (ω : Arr R ℝ) :
    ∃ t, truncPos be ((hDensity be p Wi).hadamard be (phiFactor ω) true) false = some t ∧ ∀ r,
      t.integrateX r 0 = (∫ x, reluLb (ω r) (hW Wi x) * dens p r x) ∧
      t.integrateXPow2 r 0 = (∫ x, reluLb (ω r) (hW Wi x) * hW Wi x * dens p r x) ∧
      t.integrateXPowK 3 r 0 = (∫ x, reluLb (ω r) (hW Wi x) * hW Wi x ^ 2 * dens p r x) ∧
      t.integrateXPowK 4 r 0 = ∫ x, reluLb (ω r) (hW Wi x) * hW Wi x ^ 3 * dens p r x := by
  set phiH := (hDensity be p Wi).hadamard be (phiFactor ω) true with hphiH
  have hm : phiH.Inv := C04.C04_hadamard hbe _ _ true (hDensity_inv hbe hp Wi hw) (factorPSD_linear _ _)
  have hcls : phiH.cls.isPdf = false := hadamard_linear_cls _ _ _
  have hsome := C20.mkTruncMeasure_isSome hbe hm hcls (some (.scalar (.fin 0))) none (Or.inl rfl)
  obtain ⟨⟨m', t⟩, hres⟩ := Option.isSome_iff_exists.1 hsome
  have hlim := C20.mkTruncMeasure_limits (some (.scalar (.fin 0))) none hres
  simp only [checkLimits, Option.some.injEq, Prod.mk.injEq] at hlim
  obtain ⟨hlo, hup⟩ := hlim
  have hl : ∀ r, t.lower r = .fin 0 := fun r => by rw [← hlo, tab_apply]
  have hu : ∀ r, t.upper r = .posInf := fun r => by rw [← hup, tab_apply]
  obtain ⟨hok, hcm, -⟩ := C20.mkTruncMeasure_ok hbe hm _ _ hres (fun r => by
    rw [hl r, hu r]; simp only [C20.LimLt])
  have htp : truncPos be phiH false = some t := by
    simp only [truncPos, hres, Bool.false_eq_true, if_false, Option.map_some]
  have hu_eq : ∀ r h, C20.u t r h
      = Real.exp ((hDensity be p Wi).evalLn r (C20.vec1 h)) * exp (phiLn (ω r) h) := by
    intro r h
    rw [mkTruncMeasure_u hcls _ _ hres r h, hphiH, C01.C01_hadamard, Real.exp_add, phiFactor_evalLn]
  have key : ∀ r (f : ℝ → ℝ), Measurable f →
      ∫ h in C20.supp (t.lower r) (t.upper r), f h * C20.u t r h
        = ∫ x, heavisideLink (hW Wi x) * f (hW Wi x) * exp (phiLn (ω r) (hW Wi x)) * dens p r x := by
    intro r f hf
    have h1 := push_hDensity hbe hp Wi hw r (fun h => heavisideLink h * f h * exp (phiLn (ω r) h))
      ((measurable_heavisideLink.mul hf).mul (measurable_phiLn _).exp)
    simp only [← hW_eq, wgt_eq_dens] at h1
    rw [h1, hl r, hu r, C20.supp_fin_posInf, ← integral_indicator measurableSet_Ici]
    refine integral_congr_ae (ae_of_all _ fun h => ?_)
    simp only [indicator_Ici_eq, hu_eq]
    ring
  refine ⟨t, htp, fun r => ⟨?_, ?_, ?_, ?_⟩⟩
  · rw [C20.C20_x hok hcm r 0, key r (fun h => h) measurable_id]
    rfl
  · rw [C20.C20_x2 hok hcm r 0, key r (fun h => h ^ 2) (measurable_id.pow_const 2)]
    refine integral_congr_ae (ae_of_all _ fun x => ?_)
    simp only [reluLb]; ring
  · rw [C20.C20_xk hok hcm r 3 0, key r (fun h => h ^ 3) (measurable_id.pow_const 3)]
    refine integral_congr_ae (ae_of_all _ fun x => ?_)
    simp only [reluLb]; ring
  · rw [C20.C20_xk hok hcm r 4 0, key r (fun h => h ^ 4) (measurable_id.pow_const 4)]
    refine integral_congr_ae (ae_of_all _ fun x => ?_)
    simp only [reluLb]; ring

theorem phiLn_le (ω h : ℝ) (hω : 0 ≤ ω) (hh : 0 ≤ h) : phiLn ω h ≤ phiLn ω 0 := by
  unfold phiLn
  have h2 : 0 < 1 + ω := by linarith
  have : -1 / (1 + ω) * h ≤ 0 := by
    rw [neg_div, neg_mul]; exact neg_nonpos.2 (mul_nonneg (by positivity) hh)
  linarith

theorem reluLb_abs_le (ω h : ℝ) (hω : 0 ≤ ω) : |reluLb ω h| ≤ exp (phiLn ω 0) * |h| := by
  rw [abs_of_nonneg (reluLb_nonneg ω h)]
  unfold reluLb
  rcases lt_or_ge h 0 with hh | hh
  · rw [heavisideLink_of_neg hh]; simp only [zero_mul]; positivity
  · rw [heavisideLink_of_nonneg hh, one_mul, abs_of_nonneg hh, mul_comm]
    exact mul_le_mul_of_nonneg_right (Real.exp_le_exp.2 (phiLn_le ω h hω hh)) hh

theorem measurable_reluLb (ω : ℝ) : Measurable (reluLb ω) := by
  unfold reluLb
  exact (measurable_heavisideLink.mul measurable_id).mul (measurable_phiLn ω).exp

include hp in
theorem integrable_reluLb_pow (Wi : Vec (Dx + 1) ℝ) (r : Fin R) (ω : ℝ) (hω : 0 ≤ ω) (k : ℕ) :
    Integrable fun x => reluLb ω (hW Wi x) * hW Wi x ^ k * dens p r x := by
  have hb := ((integrable_affine_pow_mul_dens hp r (toV (wTail Wi)) (wHead Wi) (k + 1)).norm).const_mul
    (exp (phiLn ω 0))
  refine hb.mono' ?_ (ae_of_all _ fun x => ?_)
  · exact ((((measurable_reluLb ω).comp (measurable_hW Wi)).mul
      ((measurable_hW Wi).pow_const k)).aestronglyMeasurable).mul
      (dens_integrable' hp r).aestronglyMeasurable
  · have hd : 0 ≤ dens p r x := dens_nonneg p r x
    rw [← hW_eq, Real.norm_eq_abs, Real.norm_eq_abs, abs_mul, abs_mul, abs_mul, abs_of_nonneg hd, abs_pow,
      abs_pow, pow_succ]
    have := reluLb_abs_le ω (hW Wi x) hω
    have h2 : 0 ≤ |hW Wi x| ^ k * dens p r x := mul_nonneg (pow_nonneg (abs_nonneg _) _) hd
    calc |reluLb ω (hW Wi x)| * |hW Wi x| ^ k * dens p r x
        = |reluLb ω (hW Wi x)| * (|hW Wi x| ^ k * dens p r x) := by ring
      _ ≤ exp (phiLn ω 0) * |hW Wi x| * (|hW Wi x| ^ k * dens p r x) :=
          mul_le_mul_of_nonneg_right this h2
      _ = exp (phiLn ω 0) * (|hW Wi x| ^ k * |hW Wi x| * dens p r x) := by ring

include hbe hp in
/-- **rectified-linear link, one unit**: if `project_GH` returns the density of `h` and regression
coefficients of `±g` on `h`, then `_lower_bound_integrals` (third order) is
`∫ reluLb ω h(x) · g(x)² p_r(x) dx`, for every `ω ≥ 0` -/
theorem relu_het_of_project (c : HeteroB Dy Dx Da Dk ℝ) (y : Arr R (Vec Dy ℝ)) (Wi : Vec (Dx + 1) ℝ)
    (ai : Vec Dy ℝ) (hw : toV (wTail Wi) ≠ 0) (r : Fin R) (ω : Arr R ℝ) (hω : 0 ≤ ω r)
    (c1 c0 : Arr R ℝ) (sig : Option (Arr R ℝ))
    (hproj : projectGH be c p y Wi ai = (hDensity be p Wi, c1, c0, sig))
    (hreg : RegressOK p c y Wi ai r (c1 r) (c0 r) (sigOf sig r)) :
    Integrable (fun x => reluLb (ω r) (hW Wi x) * gOf c y ai r x ^ 2 * dens p r x) ∧
    (reluLowerBoundIntegrals be c p y Wi ai ω false).1 r
      = ∫ x, reluLb (ω r) (hW Wi x) * gOf c y ai r x ^ 2 * dens p r x := by
  obtain ⟨t, htp, hmom⟩ := relu_trunc_moments hbe hp Wi hw ω
  obtain ⟨e1, e2, e3, -⟩ := hmom r
  have i0 := integrable_reluLb_pow hp Wi r (ω r) hω 0
  have i1 := integrable_reluLb_pow hp Wi r (ω r) hω 1
  have i2 := integrable_reluLb_pow hp Wi r (ω r) hω 2
  simp only [pow_zero, mul_one, pow_one] at i0 i1
  obtain ⟨ig, eg⟩ := regress_integral hp hreg (reluLb (ω r)) (measurable_reluLb _) i0 i1 i2
  refine ⟨ig, ?_⟩
  rw [eg, integral_quad_expand Wi r (reluLb (ω r)) _ _ _ i0 i1 i2, ← e1, ← e2, ← e3]
  have htp' : truncPos be ((hDensity be p Wi).hadamard be
      (.linear (tab2 fun r _ => (tab fun r => -1 / (1 + ω r) : Arr R ℝ) r)
        (tab fun r => -(Transc.log (1 + ω r)) + ω r / (1 + ω r))) true) false = some t := htp
  simp only [reluLowerBoundIntegrals, hproj, htp']
  cases sig with
  | none => simp only [sigOf, tab_apply, two_real, Bool.false_eq_true, if_false, mul_zero, add_zero]
  | some s => simp only [sigOf, tab_apply, two_real, Bool.false_eq_true, if_false]

theorem reluLb_mul_self_nonneg (ω h : ℝ) : 0 ≤ reluLb ω h * h := by
  unfold reluLb
  rcases lt_or_ge h 0 with hh | hh
  · rw [heavisideLink_of_neg hh]; simp
  · rw [heavisideLink_of_nonneg hh, one_mul]; exact mul_nonneg (mul_nonneg hh (exp_pos _).le) hh

include hbe hp in
/-- **rectified-linear link, one unit, `compute_fourth_order=True`**: the third- and the fourth-order
integrals `_update_omega_star` divides are `∫ reluLb ω h · g² p_r` and `∫ reluLb ω h · h · g² p_r`, for every
`ω ≥ 0` -/
theorem relu_lbi4_of_project (c : HeteroB Dy Dx Da Dk ℝ) (y : Arr R (Vec Dy ℝ)) (Wi : Vec (Dx + 1) ℝ)
    (ai : Vec Dy ℝ) (hw : toV (wTail Wi) ≠ 0) (r : Fin R) (ω : Arr R ℝ) (hω : 0 ≤ ω r)
    (c1 c0 : Arr R ℝ) (sig : Option (Arr R ℝ))
    (hproj : projectGH be c p y Wi ai = (hDensity be p Wi, c1, c0, sig))
    (hreg : RegressOK p c y Wi ai r (c1 r) (c0 r) (sigOf sig r)) :
    ∃ cu qu : Arr R ℝ, reluLowerBoundIntegrals be c p y Wi ai ω true = (cu, some qu) ∧
      cu r = (∫ x, reluLb (ω r) (hW Wi x) * gOf c y ai r x ^ 2 * dens p r x) ∧
      qu r = ∫ x, reluLb (ω r) (hW Wi x) * hW Wi x * gOf c y ai r x ^ 2 * dens p r x := by
  obtain ⟨t, htp, hmom⟩ := relu_trunc_moments hbe hp Wi hw ω
  obtain ⟨e1, e2, e3, e4⟩ := hmom r
  have i0 := integrable_reluLb_pow hp Wi r (ω r) hω 0
  have i1 := integrable_reluLb_pow hp Wi r (ω r) hω 1
  have i2 := integrable_reluLb_pow hp Wi r (ω r) hω 2
  have i3 := integrable_reluLb_pow hp Wi r (ω r) hω 3
  simp only [pow_zero, mul_one, pow_one] at i0 i1
  obtain ⟨-, eg⟩ := regress_integral hp hreg (reluLb (ω r)) (measurable_reluLb _) i0 i1 i2
  have j1 : Integrable fun x => (reluLb (ω r) (hW Wi x) * hW Wi x) * hW Wi x * dens p r x :=
    i2.congr (ae_of_all _ fun x => by ring)
  have j2 : Integrable fun x => (reluLb (ω r) (hW Wi x) * hW Wi x) * hW Wi x ^ 2 * dens p r x :=
    i3.congr (ae_of_all _ fun x => by ring)
  obtain ⟨-, eg4⟩ := regress_integral hp hreg (fun h => reluLb (ω r) h * h)
    ((measurable_reluLb _).mul measurable_id) i1 j1 j2
  have e3' : t.integrateXPowK 3 r 0 = ∫ x, (reluLb (ω r) (hW Wi x) * hW Wi x) * hW Wi x * dens p r x :=
    e3.trans (integral_congr_ae (ae_of_all _ fun x => by ring))
  have e4' : t.integrateXPowK 4 r 0 = ∫ x, (reluLb (ω r) (hW Wi x) * hW Wi x) * hW Wi x ^ 2 * dens p r x :=
    e4.trans (integral_congr_ae (ae_of_all _ fun x => by ring))
  have htp' : truncPos be ((hDensity be p Wi).hadamard be
      (.linear (tab2 fun r _ => (tab fun r => -1 / (1 + ω r) : Arr R ℝ) r)
        (tab fun r => -(Transc.log (1 + ω r)) + ω r / (1 + ω r))) true) false = some t := htp
  simp only [reluLowerBoundIntegrals, hproj, htp', if_true]
  refine ⟨_, _, rfl, ?_, ?_⟩
  · rw [eg, integral_quad_expand Wi r (reluLb (ω r)) _ _ _ i0 i1 i2, ← e1, ← e2, ← e3]
    cases sig with
    | none => simp only [sigOf, tab_apply, two_real, mul_zero, add_zero]
    | some s => simp only [sigOf, tab_apply, two_real]
  · rw [eg4, integral_quad_expand Wi r (fun h => reluLb (ω r) h * h) _ _ _ i1 j1 j2, ← e2, ← e3', ← e4']
    cases sig with
    | none => simp only [sigOf, tab_apply, two_real, mul_zero, add_zero]
    | some s => simp only [sigOf, tab_apply, two_real]

include hbe hp in
/-- **one step of the fixed-point iteration (rectified-linear class), one unit**:
`quartic / where(cubic != 0, cubic, 1)` is non-negative for every `ω ≥ 0` (both integrals are integrals of
non-negative functions) -/
theorem relu_update_nonneg_of_project (c : HeteroB Dy Dx Da Dk ℝ) (y : Arr R (Vec Dy ℝ)) (Wi : Vec (Dx + 1) ℝ)
    (ai : Vec Dy ℝ) (hw : toV (wTail Wi) ≠ 0) (r : Fin R) (ω : Arr R ℝ) (hω : 0 ≤ ω r)
    (c1 c0 : Arr R ℝ) (sig : Option (Arr R ℝ))
    (hproj : projectGH be c p y Wi ai = (hDensity be p Wi, c1, c0, sig))
    (hreg : RegressOK p c y Wi ai r (c1 r) (c0 r) (sigOf sig r)) :
    0 ≤ reluUpdateOmegaStar reluLowerBoundIntegrals be c p y Wi ai ω r := by
  obtain ⟨cu, qu, hl, hc, hq⟩ := relu_lbi4_of_project hbe hp c y Wi ai hw r ω hω c1 c0 sig hproj hreg
  have h3 : 0 ≤ cu r := by
    rw [hc]
    exact integral_nonneg fun x => mul_nonneg (mul_nonneg (reluLb_nonneg _ _) (sq_nonneg _)) (dens_nonneg p r x)
  have h4 : 0 ≤ qu r := by
    rw [hq]
    exact integral_nonneg fun x =>
      mul_nonneg (mul_nonneg (reluLb_mul_self_nonneg _ _) (sq_nonneg _)) (dens_nonneg p r x)
  simp only [reluUpdateOmegaStar, hl, tab_apply, C20.ne0_real, decide_eq_true_eq]
  split_ifs
  · exact div_nonneg h4 h3
  · exact div_nonneg h4 zero_le_one

include hbe hp in
/-- **one step of the fixed-point iteration (rectified-linear class)**, unit `k`, both branches of
`project_GH`: `ω ≥ 0` is preserved -/
theorem relu_update_nonneg (c : HeteroB Dy Dx Da Dk ℝ) (y : Arr R (Vec Dy ℝ)) (k : Fin Dk)
    (hw : WeightsNonzero c) (hreg : UnitsRegular p c) (r : Fin R) (ω : Arr R ℝ) (hω : 0 ≤ ω r) :
    0 ≤ reluUpdateOmegaStar reluLowerBoundIntegrals be c p y (c.W k) (aCol c k) ω r := by
  by_cases hD : Dx = 1
  · subst hD
    have hw0 : wTail (c.W k) 0 ≠ 0 := by
      intro h0
      apply hw.tail_ne k
      funext i
      have : i = 0 := Subsingleton.elim _ _
      subst this
      simpa using h0
    refine relu_update_nonneg_of_project hbe hp c y (c.W k) (aCol c k) (hw.tail_ne k) r ω hω _ _ none
      (projectGH_one c p y (c.W k) (aCol c k)) ?_
    have := regressOK_one c p y (c.W k) (aCol c k) hw0 r
    simpa [sigOf] using this
  · obtain ⟨q, hq⟩ := jointGH_isSome (be := be) c p y (c.W k) (aCol c k)
    have hproj := projectGH_ne hD c p y (c.W k) (aCol c k) hq
    rw [marginal_eq_hDensity c p y (c.W k) (aCol c k) hq] at hproj
    refine relu_update_nonneg_of_project hbe hp c y (c.W k) (aCol c k) (hw.tail_ne k) r ω hω _ _ _ hproj ?_
    have := regressOK_ne hbe hp c y (c.W k) (aCol c k) (hreg hD k) hq r
    simpa [sigOf] using this

include hbe hp in
/-- **rectified-linear link, heteroscedastic term of unit `k`** (both branches of `project_GH`), for
every `ω ≥ 0` -/
theorem relu_het_integral (c : HeteroB Dy Dx Da Dk ℝ) (y : Arr R (Vec Dy ℝ)) (k : Fin Dk)
    (hw : WeightsNonzero c) (hreg : UnitsRegular p c) (r : Fin R) (ω : Arr R ℝ) (hω : 0 ≤ ω r) :
    Integrable (fun x => reluLb (ω r) (hW (c.W k) x) * proj c (toV (y r)) x k ^ 2 * dens p r x) ∧
    (reluLowerBoundIntegrals be c p y (c.W k) (aCol c k) ω false).1 r
      = ∫ x, reluLb (ω r) (hW (c.W k) x) * proj c (toV (y r)) x k ^ 2 * dens p r x := by
  have hpe : ∀ x, proj c (toV (y r)) x k = gOf c y (aCol c k) r x := fun x => proj_eq_gOf c y k r x
  simp only [hpe]
  by_cases hD : Dx = 1
  · subst hD
    have hw0 : wTail (c.W k) 0 ≠ 0 := by
      intro h0
      apply hw.tail_ne k
      funext i
      have : i = 0 := Subsingleton.elim _ _
      subst this
      simpa using h0
    refine relu_het_of_project hbe hp c y (c.W k) (aCol c k) (hw.tail_ne k) r ω hω _ _ none
      (projectGH_one c p y (c.W k) (aCol c k)) ?_
    have := regressOK_one c p y (c.W k) (aCol c k) hw0 r
    simpa [sigOf] using this
  · obtain ⟨q, hq⟩ := jointGH_isSome (be := be) c p y (c.W k) (aCol c k)
    have hproj := projectGH_ne hD c p y (c.W k) (aCol c k) hq
    rw [marginal_eq_hDensity c p y (c.W k) (aCol c k) hq] at hproj
    refine relu_het_of_project hbe hp c y (c.W k) (aCol c k) (hw.tail_ne k) r ω hω _ _ _ hproj ?_
    have := regressOK_ne hbe hp c y (c.W k) (aCol c k) (hreg hD k) hq r
    simpa [sigOf] using this

/-- the variational parameter the rectified-linear class uses in `get_lb_log_det` for unit `k` of
component `r`: `ω†_k = E_r[max(h_k, 0)] / P_r(h_k ≥ 0)` (also the start value of the iteration for `ω*_k`) -/
noncomputable def reluOmega (be : Backend ℝ) (c : HeteroB Dy Dx Da Dk ℝ) (p : PdfV R Dx ℝ) (r : Fin R)
    (k : Fin Dk) : ℝ := reluGetOmegaDagger be p (c.W k) r

include hbe hp in
/-- `ω† = E_r[max(h,0)] / P_r(h ≥ 0)`, the mean of `h` given `h ≥ 0` -/
theorem reluOmega_eq (c : HeteroB Dy Dx Da Dk ℝ) (hw : WeightsNonzero c) (r : Fin R) (k : Fin Dk) :
    reluOmega be c p r k =
      (∫ x, reluLink (hW (c.W k) x) * dens p r x) / ∫ x, heavisideLink (hW (c.W k) x) * dens p r x := by
  simp only [reluOmega, reluGetOmegaDagger, tab_apply]
  rw [reluUnit_eq hbe hp (c.W k) (hw.tail_ne k) r, heavisideUnit_eq hbe hp (c.W k) (hw.tail_ne k) r]
  -- the guard `where(Z > 0, E / Z, 0)` is the plain quotient over the reals (`E / 0 = 0`, and `Z ≥ 0`)
  have hZ : 0 ≤ ∫ x, heavisideLink (hW (c.W k) x) * dens p r x :=
    integral_nonneg fun x => mul_nonneg (heavisideLink_nonneg _) (Real.exp_pos _).le
  change (if Transc.lt 0 (∫ x, heavisideLink (hW (c.W k) x) * dens p r x) = true then _ else 0) = _
  rw [transc_lt]
  by_cases h : 0 < ∫ x, heavisideLink (hW (c.W k) x) * dens p r x
  · simp only [h, decide_true, if_true]; rfl
  · have h0 : (∫ x, heavisideLink (hW (c.W k) x) * dens p r x) = 0 := le_antisymm (not_lt.mp h) hZ
    rw [h0]; simp

include hbe hp in
theorem reluOmega_nonneg (c : HeteroB Dy Dx Da Dk ℝ) (hw : WeightsNonzero c) (r : Fin R) (k : Fin Dk) :
    0 ≤ reluOmega be c p r k := by
  rw [reluOmega_eq hbe hp c hw r k]
  exact div_nonneg
    (integral_nonneg fun x => mul_nonneg (reluLink_nonneg _) (Real.exp_pos _).le)
    (integral_nonneg fun x => mul_nonneg (heavisideLink_nonneg _) (Real.exp_pos _).le)

include hbe hp in
/-- **`ω* ≥ 0` for the rectified-linear class** (loop invariant: `ω† ≥ 0`, and `_update_omega_star` maps
`ω ≥ 0` to a quotient of integrals of non-negative functions; no statement about the number of iterations
or convergence is needed) -/
theorem reluOmegaStar_nonneg (c : HeteroB Dy Dx Da Dk ℝ) (y : Arr R (Vec Dy ℝ)) (hw : WeightsNonzero c)
    (hreg : UnitsRegular p c) (r : Fin R) (k : Fin Dk) :
    0 ≤ omegaStar reluOps be c p y r k :=
  getOmegaStar_invariant reluOps be c p y (c.W k) (aCol c k) (fun ω => 0 ≤ ω r)
    (reluOmega_nonneg hbe hp c hw r k)
    (fun ω hω => relu_update_nonneg hbe hp c y k hw hreg r ω hω)

theorem integrateLogConditionalY_relu_eq (c : HeteroB Dy Dx Da Dk ℝ) (y : Arr R (Vec Dy ℝ)) (r : Fin R) :
    c.integrateLogConditionalY reluOps be p y r =
      -(1 / 2) * (((p.toMeasure.intView be).2.integrateQuadInner (homoA c y) (homoB c y)) r
        - (∑ k, (reluLowerBoundIntegrals be c p y (c.W k) (aCol c k)
            (getOmegaStar reluOps be c p y (c.W k) (aCol c k)) false).1 r)
        + (c.lnDetSigma 0 + ∑ k, reluKFunc be p (c.W k) (reluGetOmegaDagger be p (c.W k)) r)
        + (Dy : ℝ) * log (2 * π)) := by
  simp only [HeteroB.integrateLogConditionalY, getLbQuadraticTerm_eq, tab_apply, half_real, ofNat_real,
    log2pi_real, reluOps, baseGetLbHeteroscedasticTermI, getOmegaStar, baseGetLbLogDet, vsum_real,
    aCol]
  ring

include hbe hp

/-- **identification of the returned value (rectified-linear class, all shapes `Dy ≤ Da`)**:
`integrate_log_conditional_y(p_x, y)` is the expectation under `p_r` of `reluLbIntegrand` at `ω*` (result
of `_get_omega_star`, heteroscedastic term) and `ω† = E_r[max(h, 0)] / P_r(h ≥ 0)` (log-determinant) -/
theorem C17_relu_value_eq_integral (c : HeteroB Dy Dx Da Dk ℝ) (y : Arr R (Vec Dy ℝ))
    (hw : WeightsNonzero c) (hreg : UnitsRegular p c) (r : Fin R) :
    Integrable (fun x => reluLbIntegrand c (toV (y r)) (omegaStar reluOps be c p y r) (reluOmega be c p r) x
      * dens p r x) ∧
    c.integrateLogConditionalY reluOps be p y r =
      ∫ x, reluLbIntegrand c (toV (y r)) (omegaStar reluOps be c p y r) (reluOmega be c p r) x
        * dens p r x := by
  have hω : ∀ k, 0 ≤ (getOmegaStar reluOps be c p y (c.W k) (aCol c k)) r :=
    fun k => reluOmegaStar_nonneg hbe hp c y hw hreg r k
  have h := integral_lnForm c (toV (y r)) (dens p r)
    (fun x k => reluLb (omegaStar reluOps be c p y r k) (hW (c.W k) x))
    (fun x k => reluK (reluOmega be c p r k) (hW (c.W k) x))
    (dens_integrable' hp r) (dens_integral_one hp r) (homo_integral hbe hp.inv c y r).1
    (fun k => (relu_het_integral hbe hp c y k hw hreg r _ (hω k)).1)
    (fun k => (relu_kfunc_integral hbe hp (c.W k) (hw.tail_ne k) _ r).1)
  refine ⟨h.1, ?_⟩
  unfold reluLbIntegrand
  rw [h.2, integrateLogConditionalY_relu_eq, (homo_integral hbe hp.inv c y r).2]
  congr 3
  · congr 1
    exact Finset.sum_congr rfl fun k _ => (relu_het_integral hbe hp c y k hw hreg r _ (hω k)).2
  · congr 1
    exact Finset.sum_congr rfl fun k _ => (relu_kfunc_integral hbe hp (c.W k) (hw.tail_ne k) _ r).2

/-- **C17 (lower bound, rectified-linear class; all shapes)**: the returned value never exceeds the
expectation of the log-density built from the RETURNED precision and log-determinant of
`get_conditional_cov(x, invert=True)`; the right-hand side is integrable -/
theorem C17_lower_bound_relu_coded (c : HeteroB Dy Dx Da Dk ℝ) (y : Arr R (Vec Dy ℝ))
    (hw : WeightsNonzero c) (hreg : UnitsRegular p c) (r : Fin R) :
    Integrable (fun x => normalLn (toM (c.M 0) *ᵥ x + toV (c.b 0)) (precAt c (dval reluOps c x))
      (lnDetAt c (dval reluOps c x)) (toV (y r)) * dens p r x) ∧
    c.integrateLogConditionalY reluOps be p y r ≤
      ∫ x, normalLn (toM (c.M 0) *ᵥ x + toV (c.b 0)) (precAt c (dval reluOps c x))
        (lnDetAt c (dval reluOps c x)) (toV (y r)) * dens p r x := by
  have hω : ∀ k, 0 ≤ reluOmega be c p r k := fun k => reluOmega_nonneg hbe hp c hw r k
  have hωs : ∀ k, 0 ≤ omegaStar reluOps be c p y r k := fun k => reluOmegaStar_nonneg hbe hp c y hw hreg r k
  have hd : ∀ x k, dval reluOps c x k = reluLink (hW (c.W k) x) := dval_relu c
  have hpos : ∀ k x, (0:ℝ) < 1 + reluLink (hW (c.W k) x) := fun k x => by
    have := reluLink_nonneg (hW (c.W k) x); linarith
  have hmr : ∀ k, Measurable fun x => reluLink (hW (c.W k) x) := fun k =>
    measurable_reluLink.comp (measurable_hW _)
  have hm := expectation_mono c (toV (y r)) (dens p r) (dens_nonneg p r) (dens_integrable' hp r)
    (dens_integral_one hp r) (homo_integral hbe hp.inv c y r).1
    (fun k => proj_sq_integrable hbe hp.inv c y k r)
    (fun x k => dval reluOps c x k / (1 + dval reluOps c x k))
    (fun x k => reluLb (omegaStar reluOps be c p y r k) (hW (c.W k) x))
    (fun x k => log (1 + dval reluOps c x k))
    (fun x k => reluK (reluOmega be c p r k) (hW (c.W k) x))
    (fun k => by
      simp_rw [hd]
      exact ((hmr k).div (measurable_const.add (hmr k))).aestronglyMeasurable)
    (fun x k => by
      rw [hd, div_le_one (hpos k x)]; linarith)
    (fun x k => reluLb_nonneg _ _)
    (fun x k => by rw [hd]; exact reluLb_le _ _ (hωs k))
    (fun k => (relu_het_integral hbe hp c y k hw hreg r _ (hωs k)).1)
    (fun k => by
      simp_rw [hd]
      exact (Real.measurable_log.comp (measurable_const.add (hmr k))).aestronglyMeasurable)
    (fun x k => by
      rw [hd]; exact log_nonneg (by have := reluLink_nonneg (hW (c.W k) x); linarith))
    (fun x k => by rw [hd]; exact reluK_ge _ _ (hω k))
    (fun k => (relu_kfunc_integral hbe hp (c.W k) (hw.tail_ne k) _ r).1)
  simp_rw [normalLn_coded]
  refine ⟨hm.1, ?_⟩
  rw [(C17_relu_value_eq_integral hbe hp c y hw hreg r).2]
  exact hm.2

/-- **C17 (lower bound, rectified-linear class; decoupled case, in particular `Da = Dy`)**:
`integrate_log_conditional_y(p_x, y) ≤ E_{p_r}[ln N(y; Mx+b, AAᵀ + A_k diag(max(Wx+w0, 0)) A_kᵀ)]` -/
theorem C17_lower_bound_relu (c : HeteroB Dy Dx Da Dk ℝ) (hc : HeteroOK c) (hdec : Decoupled c)
    (y : Arr R (Vec Dy ℝ)) (hw : WeightsNonzero c) (hreg : UnitsRegular p c) (r : Fin R) :
    c.integrateLogConditionalY reluOps be p y r ≤
      ∫ x, normalLn (toM (c.M 0) *ᵥ x + toV (c.b 0)) (covAt c (dval reluOps c x))⁻¹
        (Real.log (covAt c (dval reluOps c x)).det) (toV (y r)) * dens p r x := by
  have h := (C17_lower_bound_relu_coded hbe hp c y hw hreg r).2
  simp_rw [precAt_eq_inv hc hdec (dval_relu_nonneg c _), lnDetAt_eq hc hdec (dval_relu_nonneg c _)] at h
  exact h

/-- the same with the right-hand side spelled through the model: the expectation of
`condition_on_x(x).evaluate_ln(y)` -/
theorem C17_lower_bound_relu_model (c : HeteroB Dy Dx Da Dk ℝ) (hc : HeteroOK c) (hdec : Decoupled c)
    (y : Arr R (Vec Dy ℝ)) (hw : WeightsNonzero c) (hreg : UnitsRegular p c) (r : Fin R) :
    c.integrateLogConditionalY reluOps be p y r ≤
      ∫ x, (c.conditionOnX reluOps be (tab fun _ : Fin 1 => ofV x)).evalLn 0 (y r) * dens p r x := by
  have h := C17_lower_bound_relu hbe hp c hc hdec y hw hreg r
  have e : ∀ x : Fin Dx → ℝ, (c.conditionOnX reluOps be (tab fun _ : Fin 1 => ofV x)).evalLn 0 (y r)
      = normalLn (toM (c.M 0) *ᵥ x + toV (c.b 0)) (covAt c (dval reluOps c x))⁻¹
        (Real.log (covAt c (dval reluOps c x)).det) (toV (y r)) := by
    intro x
    have := C17_conditionOnX_evalLn hbe reluOps c hc hdec (tab fun _ : Fin 1 => ofV x)
      (fun n k => dval_relu_nonneg c _ k) 0 (toV (y r))
    simpa using this
  simp_rw [e]
  exact h

end reluIntegrals
/-! ## sufficient condition for `UnitsRegular` -/
section regular
variable {p : PdfV R Dx ℝ}

/-- if `a_iᵀM` and `w` are linearly independent the covariance of `(g, h)` is regular -/
theorem jointRegular_of_linearIndependent (hp : PdfInv p) (c : HeteroB Dy Dx Da Dk ℝ)
    (Wi : Vec (Dx + 1) ℝ) (ai : Vec Dy ℝ)
    (h : LinearIndependent ℝ ![-(toV (aProjM c ai)), toV (wTail Wi)]) : JointRegular p c Wi ai := by
  intro r
  have hrow : (toM (sumW c Wi ai)).row = ![-(toV (aProjM c ai)), toV (wTail Wi)] := by
    funext s
    fin_cases s
    · exact sumW_row0 c Wi ai
    · exact sumW_row1 c Wi ai
  have := C05.linearSum_posDef_of_linearIndependent_rows p (pdfOK_of_pdfInv hp)
    (tab fun _ => sumW c Wi ai) (fun r => by simpa only [tab_apply, hrow] using h) r
  simpa only [tab_apply] using this

/-- `Dx == 1`: nothing is required -/
theorem unitsRegular_one (p : PdfV R 1 ℝ) (c : HeteroB Dy 1 Da Dk ℝ) : UnitsRegular p c :=
  fun h => absurd rfl h

end regular

/-! ## non-vacuity -/
section nonvacuity

/-- non-vacuity, branch `Dx > 1` -/
example : ∃ (be : Backend ℝ) (c : HeteroB 2 2 2 1 ℝ) (p : PdfV 2 2 ℝ), be.Spec ∧ HeteroOK c ∧ Decoupled c ∧
    PdfInv p ∧ WeightsNonzero c ∧ UnitsRegular p c ∧ c.W 0 1 = 2 ∧ p.mu 1 1 = 2 ∧
    ∀ (y : Arr 2 (Vec 2 ℝ)) (r : Fin 2),
      (c.integrateLogConditionalY heavisideOps be p y r =
        ∫ x, (c.conditionOnX heavisideOps be (tab fun _ : Fin 1 => ofV x)).evalLn 0 (y r) * dens p r x) ∧
      (c.integrateLogConditionalY reluOps be p y r ≤
        ∫ x, (c.conditionOnX reluOps be (tab fun _ : Fin 1 => ofV x)).evalLn 0 (y r) * dens p r x) := by
  have hbe := Backend.sat_spec
  have hS : ∀ r : Fin 2, (toM ((tab fun _ : Fin 2 => ofM !![2, 1; 1, 2]) r)).PosDef := fun r => by
    simp only [tab_apply, toM_ofM]; exact posDef_two_one
  have hargs : C02.PdfArgsOK false (tab fun _ : Fin 2 => ofM !![2, 1; 1, 2]) none none :=
    ⟨hS, by simp, by simp, by simp⟩
  obtain ⟨p, hp⟩ := mkPdf_asPdf_isSome Backend.sat false (tab fun _ : Fin 2 => ofM !![2, 1; 1, 2])
    (tab fun r => if r = 0 then ofV ![1, -1] else ofV ![0, 2]) none none
  have hpi : PdfInv p := pdfInv_of_mkPdf hbe _ _ _ _ _ hargs hp
  obtain ⟨-, hmu⟩ := mkPdf_asPdf_sigma_mu Backend.sat _ _ _ _ _ hp
  set A : Arr 1 (Mat 2 2 ℝ) := tab fun _ => ofM 1 with hA
  have hAA : (toM (A 0) * (toM (A 0))ᵀ).PosDef := by
    simp only [hA, tab_apply, toM_ofM, Matrix.transpose_one, Matrix.mul_one]
    exact Matrix.PosDef.one
  set c : HeteroB 2 2 2 1 ℝ := mkHetero Backend.sat (tab fun _ => ofM !![1, 2; 0, -1])
    (tab fun _ => ofV ![1, 2]) A (tab fun _ => ofV ![1, 2, -1]) (le_refl _) (by norm_num) with hcdef
  have hc : HeteroOK c := C17.mkHetero_ok hbe _ _ A _ _ _ hAA
  have hdec : Decoupled c := decoupled_of_square c hc
  have hw : WeightsNonzero c := by
    intro k
    refine ⟨0, ?_⟩
    simp [hcdef, mkHetero, HeteroB.wMat, wTail, ofV]
  -- `Λ = 1`
  have hSig1 : toM (c.Sigma 0) = 1 := by
    rw [hc.sigma]
    simp [hcdef, mkHetero, hA]
  have hL : ∀ i j, c.Lambda 0 i j = (1 : Matrix (Fin 2) (Fin 2) ℝ) i j := by
    intro i j
    have := hc.lambda
    rw [hSig1, inv_one] at this
    exact congrFun (congrFun this i) j
  have haM : toV (aProjM c (aCol c 0)) = ![1, 2] := by
    funext d
    simp only [toV_apply, aProjM, aCol, tab_apply, vsum_real, mmul_apply, hL, HeteroB.Ak, tab2_apply]
    fin_cases d <;> simp [hcdef, mkHetero, hA, Fin.sum_univ_two, Matrix.one_apply, ofM]
  have hwv : toV (wTail (c.W 0)) = ![2, -1] := by
    funext d
    fin_cases d <;> simp [hcdef, mkHetero, wTail, ofV]
  have hreg : UnitsRegular p c := by
    intro _ k
    have hk : k = 0 := Subsingleton.elim _ _
    subst hk
    apply jointRegular_of_linearIndependent hpi
    rw [haM, hwv, LinearIndependent.pair_iff]
    intro s t hst
    have h0 := congrFun hst 0
    have h1 := congrFun hst 1
    simp at h0 h1
    constructor <;> linarith
  refine ⟨Backend.sat, c, p, hbe, hc, hdec, hpi, hw, hreg, ?_, ?_, fun y r => ⟨?_, ?_⟩⟩
  · simp [hcdef, mkHetero, ofV]
  · rw [hmu]; simp [ofV]
  · exact C17_step_equality_model hbe hpi c hc hdec y hw hreg r
  · exact C17_lower_bound_relu_model hbe hpi c hc hdec y hw hreg r


/-- non-vacuity, branch `Dx == 1` (`Dy = Da = Dk = 1`, `h(x) = 2x + 1`, `p_x = N(0, 1)`) -/
example : ∃ (be : Backend ℝ) (c : HeteroB 1 1 1 1 ℝ) (p : PdfV 1 1 ℝ), be.Spec ∧ HeteroOK c ∧ Decoupled c ∧
    PdfInv p ∧ WeightsNonzero c ∧ UnitsRegular p c ∧
    ∀ (y : Arr 1 (Vec 1 ℝ)),
      (c.integrateLogConditionalY heavisideOps be p y 0 =
        ∫ x, (c.conditionOnX heavisideOps be (tab fun _ : Fin 1 => ofV x)).evalLn 0 (y 0) * dens p 0 x) ∧
      (c.integrateLogConditionalY reluOps be p y 0 ≤
        ∫ x, (c.conditionOnX reluOps be (tab fun _ : Fin 1 => ofV x)).evalLn 0 (y 0) * dens p 0 x) := by
  have hbe := Backend.sat_spec
  have hargs : C02.PdfArgsOK false (tab fun _ : Fin 1 => ofM (1 : Matrix (Fin 1) (Fin 1) ℝ)) none none :=
    ⟨fun r => by simp only [tab_apply, toM_ofM]; exact Matrix.PosDef.one, by simp, by simp, by simp⟩
  obtain ⟨p, hp⟩ := mkPdf_asPdf_isSome Backend.sat false
    (tab fun _ : Fin 1 => ofM (1 : Matrix (Fin 1) (Fin 1) ℝ)) (tab fun _ => zeroV) none none
  have hpi : PdfInv p := pdfInv_of_mkPdf hbe _ _ _ _ _ hargs hp
  set A : Arr 1 (Mat 1 1 ℝ) := tab fun _ => ofM 1 with hA
  have hAA : (toM (A 0) * (toM (A 0))ᵀ).PosDef := by
    simp only [hA, tab_apply, toM_ofM, Matrix.transpose_one, Matrix.mul_one]
    exact Matrix.PosDef.one
  set c : HeteroB 1 1 1 1 ℝ := mkHetero Backend.sat (tab fun _ => ofM 1) (tab fun _ => zeroV) A
    (tab fun _ => ofV ![1, 2]) (le_refl _) (le_refl _) with hcdef
  have hc : HeteroOK c := C17.mkHetero_ok hbe _ _ A _ _ _ hAA
  have hdec : Decoupled c := decoupled_of_square c hc
  have hw : WeightsNonzero c := by
    intro k
    refine ⟨0, ?_⟩
    simp [hcdef, mkHetero, HeteroB.wMat, wTail, ofV]
  exact ⟨Backend.sat, c, p, hbe, hc, hdec, hpi, hw, unitsRegular_one p c, fun y =>
    ⟨C17_step_equality_model hbe hpi c hc hdec y hw (unitsRegular_one p c) 0,
      C17_lower_bound_relu_model hbe hpi c hc hdec y hw (unitsRegular_one p c) 0⟩⟩

end nonvacuity

end GT.Props.C17Trunc

section axioms
#print axioms GT.Math.gauss_condition_sq
#print axioms GT.Math.indepFun_affine_of_uncorrelated
#print axioms GT.Props.C17Trunc.heaviside_logdet_integral
#print axioms GT.Props.C17Trunc.C17_pointwise_step
#print axioms GT.Props.C17Trunc.regress_integral
#print axioms GT.Props.C17Trunc.regressOK_one
#print axioms GT.Props.C17Trunc.regressOK_ne
#print axioms GT.Props.C17Trunc.marginal_eq_hDensity
#print axioms GT.Props.C17Trunc.heaviside_het_integral
#print axioms GT.Props.C17Trunc.heaviside_het_integral_Dx1
#print axioms GT.Props.C17Trunc.heaviside_het_integral_DxGt1
#print axioms GT.Props.C17Trunc.C17_step_value_eq_integral
#print axioms GT.Props.C17Trunc.C17_step_equality_coded
#print axioms GT.Props.C17Trunc.C17_step_equality
#print axioms GT.Props.C17Trunc.C17_step_equality_model
#print axioms GT.Props.C17Trunc.C17_pointwise_relu
#print axioms GT.Props.C17Trunc.relu_kfunc_integral
#print axioms GT.Props.C17Trunc.relu_het_integral
#print axioms GT.Props.C17Trunc.relu_update_nonneg
#print axioms GT.Props.C17Trunc.reluOmegaStar_nonneg
#print axioms GT.Props.C17Trunc.C17_relu_value_eq_integral
#print axioms GT.Props.C17Trunc.C17_lower_bound_relu_coded
#print axioms GT.Props.C17Trunc.C17_lower_bound_relu
#print axioms GT.Props.C17Trunc.C17_lower_bound_relu_model
#print axioms GT.Props.C17Trunc.jointRegular_of_linearIndependent
end axioms
