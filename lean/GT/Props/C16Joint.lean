import GT.Props.C14Feature
import GT.Props.C16Trunc
import GT.Props.C17Trunc
import GT.Props.C19

/-!
# C16 (continued) — the matched moments are the moments of the JOINT law `p(y|x) p(x)` (Fubini)

`GT/Props/C16.lean` proves that the approximate conditionals return the tower-rule moments
`∫ μ(x) p_r(x) dx`, `∫ (Σ_y(x) + μ(x)μ(x)ᵀ) p_r(x) dx`, `∫ μ(x) xᵀ p_r(x) dx` (iterated integrals) and
lists the identification with the joint law as NOT proved.  This file closes that gap: property C16
at face value — "the marginal / joint transformation returns the Gaussian with exactly the mean and
covariance of `y` resp. `(x, y)` under `p(y|x) p(x)`" — with the joint density

  `q_r(x, y) = p(y|x) · p_r(x)`  on `ℝ^{Dx+Dy}`, `x` first (`z = (x, y)`, as in the library's joint),

where `p(y|x) = exp (condition_on_x(x).evaluate_ln(y))` is the object's own `conditionOnX` at the single
point `x` (`qJoint` for the feature classes LRBF / LSEM, `qJointH` for the heteroscedastic classes) and
`p_r` is component `r` of the Gaussian argument.  `jMean q e = ∫ z_e q(z) dz`,
`jCov q e e' = ∫ (z_e − E z_e)(z_e' − E z_e') q(z) dz` (Lebesgue integrals on `ℝ^{Dx+Dy}`).

PROVED (all sizes, any number of components of `p(x)`, every component `r`)
0. mathematics: `normal_moments` (mass, mean, second moments of `N(μ, S)` with integrability),
   `measurable_normal_kernel` (joint measurability of `(x, y) ↦ N(y; m(x), Λ(x)⁻¹)`), and the abstract
   Tonelli / Fubini argument for a probability kernel times a weight (`KernelOK`, `integrable_q`,
   `integral_q`, `integrable_z1`, `integrable_z2`, `integral_y`, `integral_yy`, `integral_yx`,
   `integral_x`, `integral_xx`, `marginal_x`, `jCov_eq`); the change of variables
   `ℝ^{a} × ℝ^{b} ≃ ℝ^{a+b}` is `C14Feature.appendEquiv` (measure preserving).
1. feature classes, both kernels (hypotheses `be.Spec`, `FeatOK c`, `PdfInv p` exactly as in C16):
   `C16J_joint_density` (`q_r` is integrable, non-negative, has total mass one and `x`-marginal `p_r`),
   `C16J_joint_integrable` (all first and second moments exist), `C16J_joint_moments` (the five families
   of moments of `q_r` are `meanY`, `momYY`, `momYX`, `meanX`, `momXX` of C16), and the face-value
   statements `C16J_marginal_mean`, `C16J_marginal_cov` (`mu` / `Sigma` of `affine_marginal_transformation`
   = mean / covariance of `y` under `q_r`), `C16J_joint_mean`, `C16J_joint_cov` (`mu` / `Sigma` of
   `affine_joint_transformation` = mean vector / covariance matrix of `z = (x, y)` under `q_r`, all
   four blocks).
2. heteroscedastic classes, any link class `ops` with `LinkOK ops` (non-negative, measurable link
   function) and `NoiseOK ops be c p` of C16, for an object with `C17.HeteroOK c` and
   `C17.Decoupled c`: `C16J_hetero_joint_density`, `C16J_hetero_joint_integrable`,
   `C16J_hetero_joint_moments`, `C16J_hetero_marginal_mean`, `C16J_hetero_marginal_cov`,
   `C16J_hetero_joint_mean`, `C16J_hetero_joint_cov`; bundled as `FaceValue ops be c p` and
   instantiated for the four classes: `C16J_exp`, `C16J_coshM1` (no further hypothesis), `C16J_heaviside`,
   `C16J_relu` (under `WeightsNonzero c`, through `GT/Props/C16Trunc.lean`).

HYPOTHESIS `C17.Decoupled c` (`A_kᵀ(AAᵀ)⁻¹A_k = I`, true for square `A`, `C17.decoupled_of_square`):
without it the `Lambda` / `ln_det_Sigma` which `condition_on_x` hands to the density constructor are
not the inverse / log-determinant of its covariance (known finding `hetero-woodbury-Da>Dy`,
`C17.C17_counterexample`), so `condition_on_x(x).evaluate_ln` is not a normalised density and `q_r` is
not a probability density; the statement is made where `p(y|x)` is what the documentation says.

NOT PROVED HERE: nothing about the conditional transformation beyond C16; zero input weights for the
step / rectified-linear classes (outside `NoiseOK`, see C16Trunc).
-/

set_option linter.unusedSimpArgs false

namespace GT.Props.C16Joint
open GT Matrix MeasureTheory GT.Math GT.Props.C16

/-! ## 0. the normal density: mass, mean, second moments, integrability -/

section normal
variable {D : Nat}

/-- the density `N(y; μ, S)` -/
noncomputable def nDens (μ : Fin D → ℝ) (S : Matrix (Fin D) (Fin D) ℝ) (y : Fin D → ℝ) : ℝ :=
  Real.exp (normalLn μ S⁻¹ (Real.log S.det) y)

/-- mass one, mean `μ`, second moments `S + μμᵀ`, with integrability -/
theorem normal_moments (μ : Fin D → ℝ) (S : Matrix (Fin D) (Fin D) ℝ) (hS : S.PosDef) :
    Integrable (nDens μ S) ∧ ∫ y, nDens μ S y = 1 ∧
    (∀ i, Integrable fun y => y i * nDens μ S y) ∧ (∀ i, ∫ y, y i * nDens μ S y = μ i) ∧
    (∀ i j, Integrable fun y => y i * y j * nDens μ S y) ∧
    (∀ i j, ∫ y, y i * y j * nDens μ S y = S i j + μ i * μ j) := by
  have hΛ : S⁻¹.PosDef := hS.inv
  obtain ⟨c, hc, hmass⟩ := C19.exists_const_gaussW μ S hS
  have hfun : nDens μ S = fun y => c * gaussW S⁻¹ (S⁻¹ *ᵥ μ) y := funext fun y => hc y
  refine ⟨?_, ?_, fun i => ?_, fun i => ?_, fun i j => ?_, fun i j => ?_⟩
  · rw [hfun]; exact (integrable_gaussW hΛ _).const_mul c
  · rw [hfun, integral_const_mul]; exact hmass
  · have h := (integrable_linear_pow_mul_gaussW hΛ (S⁻¹ *ᵥ μ) (Pi.single i 1) 1).const_mul c
    refine h.congr (Filter.Eventually.of_forall fun y => ?_)
    simp only [single_one_dotProduct, pow_one, hfun]; ring
  · have h := (C19.gaussianMeasure_moments μ S hS i i).1
    rwa [C19.integral_gaussianMeasure] at h
  · have h := (integrable_two_linear_mul_gaussW hΛ (S⁻¹ *ᵥ μ) (Pi.single i 1)
      (Pi.single j 1)).const_mul c
    refine h.congr (Filter.Eventually.of_forall fun y => ?_)
    simp only [single_one_dotProduct, hfun]; ring
  · have h := (C19.gaussianMeasure_moments μ S hS i j).2
    rwa [C19.integral_gaussianMeasure] at h

/-- joint measurability of `(x, y) ↦ N(y; m(x), Λ(x)⁻¹)` written with precision and log-determinant -/
theorem measurable_normal_kernel {X : Type*} [MeasurableSpace X] (m : X → Fin D → ℝ)
    (Λ : X → Matrix (Fin D) (Fin D) ℝ) (ℓ : X → ℝ) (hm : ∀ i, Measurable fun x => m x i)
    (hΛ : ∀ i j, Measurable fun x => Λ x i j) (hℓ : Measurable ℓ) :
    Measurable fun q : X × (Fin D → ℝ) => Real.exp (normalLn (m q.1) (Λ q.1) (ℓ q.1) q.2) := by
  have hm' : ∀ i, Measurable fun q : X × (Fin D → ℝ) => m q.1 i := fun i =>
    (hm i).comp measurable_fst
  have hΛ' : ∀ i j, Measurable fun q : X × (Fin D → ℝ) => Λ q.1 i j := fun i j =>
    (hΛ i j).comp measurable_fst
  have hℓ' : Measurable fun q : X × (Fin D → ℝ) => ℓ q.1 := hℓ.comp measurable_fst
  have hy : ∀ i, Measurable fun q : X × (Fin D → ℝ) => q.2 i := fun i =>
    (measurable_pi_apply i).comp measurable_snd
  refine Real.measurable_exp.comp ?_
  simp only [normalLn, dotProduct, Matrix.mulVec, Pi.sub_apply]
  refine Measurable.sub (Measurable.const_mul (Finset.measurable_sum _ fun i _ =>
    ((hy i).sub (hm' i)).mul (Finset.measurable_sum _ fun j _ =>
      (hΛ' i j).mul ((hy j).sub (hm' j)))) _) ((measurable_const.add hℓ').const_mul _)

end normal

/-! ## 1. a probability kernel times a weight on `ℝ^{a+b}`: Tonelli / Fubini -/

section kernel
variable {a b : Nat}

/-- the `x` block: the first `a` coordinates -/
def xblk (z : Fin (a + b) → ℝ) : Fin a → ℝ := fun j => z (Fin.castAdd b j)
/-- the `y` block: the last `b` coordinates -/
def yblk (z : Fin (a + b) → ℝ) : Fin b → ℝ := fun i => z (Fin.natAdd a i)

@[simp] theorem xblk_append (x : Fin a → ℝ) (y : Fin b → ℝ) : xblk (Fin.append x y) = x := by
  ext j; simp only [xblk, Fin.append_left]

@[simp] theorem yblk_append (x : Fin a → ℝ) (y : Fin b → ℝ) : yblk (Fin.append x y) = y := by
  ext i; simp only [yblk, Fin.append_right]

/-- **the joint density** `q(x, y) = K(x, y) w(x)` on `ℝ^{a+b}`, `x` first -/
noncomputable def qOf (K : (Fin a → ℝ) → (Fin b → ℝ) → ℝ) (w : (Fin a → ℝ) → ℝ)
    (z : Fin (a + b) → ℝ) : ℝ := K (xblk z) (yblk z) * w (xblk z)

/-- mean of coordinate `e` under the density `q` -/
noncomputable def jMean {n : Nat} (q : (Fin n → ℝ) → ℝ) (e : Fin n) : ℝ := ∫ z, z e * q z
/-- covariance of the coordinates `e`, `e'` under the density `q` -/
noncomputable def jCov {n : Nat} (q : (Fin n → ℝ) → ℝ) (e e' : Fin n) : ℝ :=
  ∫ z, (z e - jMean q e) * (z e' - jMean q e') * q z

/-- covariance = second moment − product of the means -/
theorem jCov_eq {n : Nat} {q : (Fin n → ℝ) → ℝ} (hq : Integrable q) (h1 : ∫ z, q z = 1) {e e' : Fin n}
    (he : Integrable fun z => z e * q z) (he' : Integrable fun z => z e' * q z)
    (hee : Integrable fun z => z e * z e' * q z) :
    jCov q e e' = (∫ z, z e * z e' * q z) - jMean q e * jMean q e' := by
  have key : ∀ z : Fin n → ℝ, (z e - jMean q e) * (z e' - jMean q e') * q z
      = 1 * (z e * z e' * q z) + -(jMean q e) * (z e' * q z) + -(jMean q e') * (z e * q z)
        + jMean q e * jMean q e' * q z := fun z => by ring
  simp only [jCov, key]
  rw [C16.integral_lin4 hee he' he hq, h1]
  simp only [jMean]
  ring

/-- what is needed of a conditional density `K(x, ·)` with mean `m(x)` and covariance `S(x)` and of a
weight `w` -/
structure KernelOK (K : (Fin a → ℝ) → (Fin b → ℝ) → ℝ) (w : (Fin a → ℝ) → ℝ)
    (m : Fin b → (Fin a → ℝ) → ℝ) (S : Fin b → Fin b → (Fin a → ℝ) → ℝ) : Prop where
  meas : Measurable fun q : (Fin a → ℝ) × (Fin b → ℝ) => K q.1 q.2
  nonneg : ∀ x y, 0 ≤ K x y
  int0 : ∀ x, Integrable (K x)
  mass : ∀ x, ∫ y, K x y = 1
  int1 : ∀ x i, Integrable fun y => y i * K x y
  mom1 : ∀ x i, ∫ y, y i * K x y = m i x
  int2 : ∀ x i j, Integrable fun y => y i * y j * K x y
  mom2 : ∀ x i j, ∫ y, y i * y j * K x y = S i j x + m i x * m j x
  wnonneg : ∀ x, 0 ≤ w x
  wint : Integrable w
  wmass : ∫ x, w x = 1
  wx : ∀ j, Integrable fun x => x j * w x
  wxx : ∀ j j', Integrable fun x => x j * x j' * w x
  wm : ∀ i, Integrable fun x => m i x * w x
  wmm : ∀ i i', Integrable fun x => (S i i' x + m i x * m i' x) * w x
  wmx : ∀ i j, Integrable fun x => m i x * x j * w x

variable {K : (Fin a → ℝ) → (Fin b → ℝ) → ℝ} {w : (Fin a → ℝ) → ℝ}
  {m : Fin b → (Fin a → ℝ) → ℝ} {S : Fin b → Fin b → (Fin a → ℝ) → ℝ}

/-- the density on the product space -/
noncomputable def kap (K : (Fin a → ℝ) → (Fin b → ℝ) → ℝ) (w : (Fin a → ℝ) → ℝ)
    (q : (Fin a → ℝ) × (Fin b → ℝ)) : ℝ := K q.1 q.2 * w q.1

/-- coordinate `e` of `(x, y)` -/
def co (e : Fin (a + b)) (q : (Fin a → ℝ) × (Fin b → ℝ)) : ℝ := Fin.append q.1 q.2 e

@[simp] theorem co_castAdd (j : Fin a) (q : (Fin a → ℝ) × (Fin b → ℝ)) :
    co (Fin.castAdd b j) q = q.1 j := by simp only [co, Fin.append_left]

@[simp] theorem co_natAdd (i : Fin b) (q : (Fin a → ℝ) × (Fin b → ℝ)) :
    co (Fin.natAdd a i) q = q.2 i := by simp only [co, Fin.append_right]

theorem measurable_co (e : Fin (a + b)) : Measurable (co (a := a) (b := b) e) := by
  have : co (a := a) (b := b) e = fun q => (C14Feature.appendEquiv a b q) e := by
    funext q; rw [C14Feature.appendEquiv_apply]; rfl
  rw [this]
  exact (measurable_pi_apply e).comp (C14Feature.appendEquiv a b).measurable

section withOK
variable (h : KernelOK K w m S)
include h

theorem kap_nonneg (q : (Fin a → ℝ) × (Fin b → ℝ)) : 0 ≤ kap K w q :=
  mul_nonneg (h.nonneg _ _) (h.wnonneg _)

theorem kap_aesm : AEStronglyMeasurable (kap K w) (volume.prod volume) :=
  h.meas.aestronglyMeasurable.mul h.wint.aestronglyMeasurable.comp_fst

/-- Tonelli for a non-negative polynomial factor -/
theorem integrable_nonneg_prod (g : (Fin a → ℝ) × (Fin b → ℝ) → ℝ) (hg : Measurable g)
    (hg0 : ∀ q, 0 ≤ g q) (hin : ∀ x, Integrable fun y => g (x, y) * K x y) (H : (Fin a → ℝ) → ℝ)
    (hH : ∀ x, ∫ y, g (x, y) * K x y = H x) (hHw : Integrable fun x => H x * w x) :
    Integrable (fun q => g q * kap K w q) (volume.prod volume) := by
  refine (integrable_prod_iff (f := fun q => g q * kap K w q)
    (hg.aestronglyMeasurable.mul (kap_aesm h))).2 ⟨?_, ?_⟩
  · refine Filter.Eventually.of_forall fun x => ?_
    have := (hin x).mul_const (w x)
    refine this.congr (Filter.Eventually.of_forall fun y => ?_)
    simp only [kap]; ring
  · refine hHw.congr (Filter.Eventually.of_forall fun x => ?_)
    have e : ∀ y, ‖g (x, y) * kap K w (x, y)‖ = g (x, y) * K x y * w x := by
      intro y
      rw [Real.norm_eq_abs, abs_of_nonneg (mul_nonneg (hg0 _) (kap_nonneg h _))]
      simp only [kap]; ring
    simp only [e]
    rw [integral_mul_const, hH]

theorem integrable_kap : Integrable (kap K w) (volume.prod volume) := by
  have := integrable_nonneg_prod h (fun _ => 1) measurable_const (fun _ => zero_le_one)
    (fun x => by simpa only [one_mul] using h.int0 x) (fun _ => 1)
    (fun x => by simp only [one_mul]; exact h.mass x) (by simpa only [one_mul] using h.wint)
  simpa only [one_mul] using this

theorem integrable_co_sq (e : Fin (a + b)) :
    Integrable (fun q => co e q ^ 2 * kap K w q) (volume.prod volume) := by
  refine Fin.addCases (fun j => ?_) (fun i => ?_) e
  · simp only [co_castAdd]
    refine integrable_nonneg_prod h (fun q => q.1 j ^ 2)
      (((measurable_pi_apply j).comp measurable_fst).pow_const 2) (fun _ => sq_nonneg _)
      (fun x => (h.int0 x).const_mul (x j ^ 2)) (fun x => x j ^ 2) (fun x => ?_) ?_
    · simp only [integral_const_mul, h.mass x, mul_one]
    · refine (h.wxx j j).congr (Filter.Eventually.of_forall fun x => ?_)
      simp only [pow_two]
  · simp only [co_natAdd]
    refine integrable_nonneg_prod h (fun q => q.2 i ^ 2)
      (((measurable_pi_apply i).comp measurable_snd).pow_const 2) (fun _ => sq_nonneg _)
      (fun x => ?_) (fun x => S i i x + m i x * m i x) (fun x => ?_) (h.wmm i i)
    · refine (h.int2 x i i).congr (Filter.Eventually.of_forall fun y => ?_)
      simp only [pow_two]
    · simp only [pow_two]; exact h.mom2 x i i

theorem integrable_co (e : Fin (a + b)) :
    Integrable (fun q => co e q * kap K w q) (volume.prod volume) := by
  refine ((integrable_kap h).add (integrable_co_sq h e)).mono'
    ((measurable_co e).aestronglyMeasurable.mul (kap_aesm h)) (Filter.Eventually.of_forall fun q => ?_)
  have hk := kap_nonneg h q
  rw [Real.norm_eq_abs, abs_mul, abs_of_nonneg hk]
  have hu : |co e q| ≤ 1 + co e q ^ 2 := by
    nlinarith [sq_nonneg (|co e q| - 1), sq_abs (co e q), abs_nonneg (co e q)]
  calc |co e q| * kap K w q ≤ (1 + co e q ^ 2) * kap K w q := mul_le_mul_of_nonneg_right hu hk
    _ = kap K w q + co e q ^ 2 * kap K w q := by ring

theorem integrable_co2 (e e' : Fin (a + b)) :
    Integrable (fun q => co e q * co e' q * kap K w q) (volume.prod volume) := by
  refine ((integrable_co_sq h e).add (integrable_co_sq h e')).mono'
    (((measurable_co e).mul (measurable_co e')).aestronglyMeasurable.mul (kap_aesm h))
    (Filter.Eventually.of_forall fun q => ?_)
  have hk := kap_nonneg h q
  rw [Real.norm_eq_abs, abs_mul, abs_of_nonneg hk]
  have hu : |co e q * co e' q| ≤ co e q ^ 2 + co e' q ^ 2 := by
    rw [abs_le]
    constructor <;> nlinarith [sq_nonneg (co e q - co e' q), sq_nonneg (co e q + co e' q)]
  calc |co e q * co e' q| * kap K w q ≤ (co e q ^ 2 + co e' q ^ 2) * kap K w q :=
        mul_le_mul_of_nonneg_right hu hk
    _ = co e q ^ 2 * kap K w q + co e' q ^ 2 * kap K w q := by ring

omit h in
/-- Fubini: outer integral over `x`, inner over `y` -/
theorem integral_prod_kap (g : (Fin a → ℝ) × (Fin b → ℝ) → ℝ)
    (hI : Integrable (fun q => g q * kap K w q) (volume.prod volume)) :
    ∫ q, g q * kap K w q ∂(volume.prod volume) = ∫ x, (∫ y, g (x, y) * K x y) * w x := by
  rw [integral_prod _ hI]
  refine integral_congr_ae (Filter.Eventually.of_forall fun x => ?_)
  simp only [kap]
  rw [← integral_mul_const]
  refine integral_congr_ae (Filter.Eventually.of_forall fun y => ?_)
  simp only; ring

end withOK

/-! ### transfer to `ℝ^{a+b}` -/

theorem qOf_append (x : Fin a → ℝ) (y : Fin b → ℝ) : qOf K w (Fin.append x y) = K x y * w x := by
  simp only [qOf, xblk_append, yblk_append]

theorem integrable_z_iff (F : (Fin (a + b) → ℝ) → ℝ) :
    Integrable (fun q : (Fin a → ℝ) × (Fin b → ℝ) => F (Fin.append q.1 q.2)) (volume.prod volume)
      ↔ Integrable F := by
  have h := C14Feature.appendEquiv_mp.integrable_comp_emb (g := F)
    (C14Feature.appendEquiv a b).measurableEmbedding
  have e : (F ∘ (C14Feature.appendEquiv a b))
      = fun q : (Fin a → ℝ) × (Fin b → ℝ) => F (Fin.append q.1 q.2) := by
    funext ⟨x, y⟩; simp only [Function.comp, C14Feature.appendEquiv_apply]
  rw [← e]; exact h

theorem integral_z (F : (Fin (a + b) → ℝ) → ℝ) :
    ∫ z, F z = ∫ q : (Fin a → ℝ) × (Fin b → ℝ), F (Fin.append q.1 q.2) ∂(volume.prod volume) := by
  rw [← C14Feature.appendEquiv_mp.integral_comp' (f := C14Feature.appendEquiv a b) F]
  refine integral_congr_ae (Filter.Eventually.of_forall fun ⟨x, y⟩ => ?_)
  simp only [C14Feature.appendEquiv_apply]

section results
variable (h : KernelOK K w m S)
include h

/-- **the joint density is integrable** -/
theorem integrable_q : Integrable (qOf K w) := by
  rw [← integrable_z_iff]
  simp only [qOf_append]
  exact integrable_kap h

/-- every coordinate is integrable against the joint density -/
theorem integrable_z1 (e : Fin (a + b)) : Integrable fun z => z e * qOf K w z := by
  rw [← integrable_z_iff]
  simp only [qOf_append]
  exact integrable_co h e

/-- every product of two coordinates is integrable against the joint density -/
theorem integrable_z2 (e e' : Fin (a + b)) : Integrable fun z => z e * z e' * qOf K w z := by
  rw [← integrable_z_iff]
  simp only [qOf_append]
  exact integrable_co2 h e e'

/-- **the joint density integrates to one** -/
theorem integral_q : ∫ z, qOf K w z = 1 := by
  rw [integral_z]
  simp only [qOf_append]
  have := integral_prod_kap (K := K) (w := w) (fun _ => 1)
    (by simpa only [one_mul] using integrable_kap h)
  simp only [one_mul] at this
  rw [show (fun q : (Fin a → ℝ) × (Fin b → ℝ) => K q.1 q.2 * w q.1) = kap K w from rfl, this]
  simp only [h.mass, one_mul, h.wmass]

/-- first moments: `E[y_i] = ∫ m_i(x) w(x) dx`, `E[x_j] = ∫ x_j w(x) dx` -/
theorem integral_y (i : Fin b) :
    ∫ z, z (Fin.natAdd a i) * qOf K w z = ∫ x, m i x * w x := by
  rw [integral_z]
  simp only [qOf_append]
  have hI := integrable_co h (Fin.natAdd a i)
  have := integral_prod_kap (K := K) (w := w) (co (Fin.natAdd a i)) hI
  simp only [co, kap] at this
  rw [this]
  simp only [Fin.append_right, h.mom1]

theorem integral_x (j : Fin a) :
    ∫ z, z (Fin.castAdd b j) * qOf K w z = ∫ x, x j * w x := by
  rw [integral_z]
  simp only [qOf_append]
  have hI := integrable_co h (Fin.castAdd b j)
  have := integral_prod_kap (K := K) (w := w) (co (Fin.castAdd b j)) hI
  simp only [co, kap] at this
  rw [this]
  simp only [Fin.append_left, integral_const_mul, h.mass, mul_one]

/-- second moments -/
theorem integral_yy (i i' : Fin b) :
    ∫ z, z (Fin.natAdd a i) * z (Fin.natAdd a i') * qOf K w z
      = ∫ x, (S i i' x + m i x * m i' x) * w x := by
  rw [integral_z]
  simp only [qOf_append]
  have hI := integrable_co2 h (Fin.natAdd a i) (Fin.natAdd a i')
  have := integral_prod_kap (K := K) (w := w)
    (fun q => co (Fin.natAdd a i) q * co (Fin.natAdd a i') q) hI
  simp only [co, kap] at this
  rw [this]
  simp only [Fin.append_right, h.mom2]

theorem integral_yx (i : Fin b) (j : Fin a) :
    ∫ z, z (Fin.natAdd a i) * z (Fin.castAdd b j) * qOf K w z = ∫ x, m i x * x j * w x := by
  rw [integral_z]
  simp only [qOf_append]
  have hI := integrable_co2 h (Fin.natAdd a i) (Fin.castAdd b j)
  have := integral_prod_kap (K := K) (w := w)
    (fun q => co (Fin.natAdd a i) q * co (Fin.castAdd b j) q) hI
  simp only [co, kap] at this
  rw [this]
  simp only [Fin.append_right, Fin.append_left]
  refine integral_congr_ae (Filter.Eventually.of_forall fun x => ?_)
  have e : ∀ y : Fin b → ℝ, y i * x j * K x y = x j * (y i * K x y) := fun y => by ring
  simp only [e, integral_const_mul, h.mom1]
  ring

theorem integral_xx (j j' : Fin a) :
    ∫ z, z (Fin.castAdd b j) * z (Fin.castAdd b j') * qOf K w z = ∫ x, x j * x j' * w x := by
  rw [integral_z]
  simp only [qOf_append]
  have hI := integrable_co2 h (Fin.castAdd b j) (Fin.castAdd b j')
  have := integral_prod_kap (K := K) (w := w)
    (fun q => co (Fin.castAdd b j) q * co (Fin.castAdd b j') q) hI
  simp only [co, kap] at this
  rw [this]
  simp only [Fin.append_left, integral_const_mul, h.mass, mul_one]

/-- the `x`-marginal of the joint density is `w` (inner integral over `y`) -/
theorem marginal_x (x : Fin a → ℝ) : ∫ y, qOf K w (Fin.append x y) = w x := by
  simp only [qOf_append, integral_mul_const, h.mass, one_mul]

end results

end kernel

/-! ## 2. feature models (LRBF / LSEM) -/

section feature
variable {Dy Dx Dk Rx : Nat} {be : Backend ℝ}

/-- **the joint density** `q_r(x, y) = p(y|x) p_r(x)` on `ℝ^{Dx+Dy}` (`x` first, as in the library's
joint), with `p(y|x)` the object's own `condition_on_x(x)` and `p_r` component `r` of the argument -/
noncomputable def qJoint (be : Backend ℝ) (c : FeatCondB Dy Dx Dk ℝ) (p : PdfV Rx Dx ℝ) (r : Fin Rx)
    (z : Fin (Dx + Dy) → ℝ) : ℝ :=
  Real.exp ((c.conditionOnX be (tab fun _ : Fin 1 => ofV (xblk z))).evalLn 0 (ofV (yblk z)))
    * Real.exp (p.evalLn r (ofV (xblk z)))

theorem qJoint_eq (c : FeatCondB Dy Dx Dk ℝ) (p : PdfV Rx Dx ℝ) (r : Fin Rx) :
    qJoint be c p r = qOf (condDens be c) (wgt p r) := rfl

theorem condDens_eq (hbe : be.Spec) {c : FeatCondB Dy Dx Dk ℝ} (hc : FeatOK c) (x : Fin Dx → ℝ)
    (y : Fin Dy → ℝ) :
    condDens be c x y = nDens (fun i => condMuAt c i x) (toM (c.Sigma 0)) y := by
  simp only [condDens, nDens, C16_condition_on_x hbe c hc]
  rfl

theorem measurable_kernLn (ker : FeatKernel Dk Dx ℝ) (k : Fin Dk) : Measurable (kernLn ker k) := by
  cases ker with
  | rbf mu ls =>
    show Measurable fun x : Fin Dx → ℝ => -(1 / 2) * ∑ i, (x i - mu k i) ^ 2 / (ls k i) ^ 2
    exact (Finset.measurable_sum _ fun i _ =>
      (((measurable_pi_apply i).sub_const _).pow_const 2).div_const _).const_mul _
  | lsem W w0 =>
    show Measurable fun x : Fin Dx → ℝ => -(1 / 2) * (∑ i, W k i * x i + w0 k) ^ 2
    exact (((Finset.measurable_sum _ fun i _ =>
      (measurable_pi_apply i).const_mul _).add_const _).pow_const 2).const_mul _

theorem measurable_condMuAt {c : FeatCondB Dy Dx Dk ℝ} (hc : FeatOK c) (i : Fin Dy) :
    Measurable (condMuAt c i) := by
  have hphi : ∀ a, Measurable (phi c a) := by
    intro a
    refine Fin.addCases (fun j => ?_) (fun k => ?_) a
    · have : phi c (Fin.castAdd Dk j) = fun x => x j := funext fun x => phi_castAdd c j x
      rw [this]; exact measurable_pi_apply j
    · have : phi c (Fin.natAdd Dx k) = fun x => Real.exp (kernLn c.kernel k x) :=
        funext fun x => by rw [phi_natAdd, kern_eq hc]
      rw [this]; exact Real.measurable_exp.comp (measurable_kernLn _ k)
  have : condMuAt c i = fun x => ∑ a, c.M 0 i a * phi c a x + c.b 0 i :=
    funext fun x => by rw [condMuAt_eq_readout]; rfl
  rw [this]
  exact (Finset.measurable_sum _ fun a _ => (hphi a).const_mul _).add_const _

section featOK
variable (hbe : be.Spec) {p : PdfV Rx Dx ℝ} (hp : PdfInv p) {c : FeatCondB Dy Dx Dk ℝ}
  (hc : FeatOK c)
include hbe hp hc

/-- the conditional density of the feature models and the Gaussian weight satisfy all the
hypotheses of the abstract Fubini argument -/
theorem feat_kernelOK (r : Fin Rx) :
    KernelOK (condDens be c) (wgt p r) (condMuAt c) (fun i j _ => c.Sigma 0 i j) := by
  have hN := fun x => normal_moments (fun i => condMuAt c i x) (toM (c.Sigma 0)) hc.posDef
  have hK : condDens be c = fun x y => nDens (fun i => condMuAt c i x) (toM (c.Sigma 0)) y :=
    funext fun x => funext fun y => condDens_eq hbe hc x y
  have hro := fun i x => condMuAt_eq_readout c i x
  refine ⟨?_, fun x y => (Real.exp_pos _).le, ?_, ?_, ?_, ?_, ?_, ?_, fun x => (Real.exp_pos _).le,
    integrable_wgt hp r, hp.mass r, integrable_x hbe hp r, integrable_xx hbe hp r, ?_, ?_, ?_⟩
  · rw [hK]
    exact measurable_normal_kernel (fun x i => condMuAt c i x) (fun _ => (toM (c.Sigma 0))⁻¹)
      (fun _ => Real.log (toM (c.Sigma 0)).det) (fun i => measurable_condMuAt hc i)
      (fun _ _ => measurable_const) measurable_const
  · intro x; rw [hK]; exact (hN x).1
  · intro x; rw [hK]; exact (hN x).2.1
  · intro x i; rw [hK]; exact (hN x).2.2.1 i
  · intro x i; rw [hK]; exact (hN x).2.2.2.1 i
  · intro x i j; rw [hK]; exact (hN x).2.2.2.2.1 i j
  · intro x i j; rw [hK]; exact (hN x).2.2.2.2.2 i j
  · intro i
    simp only [hro]
    exact integrable_readout _ _ (integrable_wgt hp r) (integrable_phi hbe hp hc r) i
  · intro i i'
    simp only [hro, add_mul]
    exact ((integrable_wgt hp r).const_mul _).add
      (integrable_readout_mul_readout _ _ (integrable_wgt hp r) (integrable_phi hbe hp hc r)
        (integrable_phi2 hbe hp hc r) i i')
  · intro i j
    have e : ∀ x : Fin Dx → ℝ, condMuAt c i x * x j * wgt p r x
        = readout (phi c) (fun i a => c.M 0 i a) (fun i => c.b 0 i) i x * phi c (Fin.castAdd Dk j) x
            * wgt p r x := by
      intro x; rw [condMuAt_eq_readout, phi_castAdd]
    simp only [e]
    exact integrable_readout_mul_feature _ _ (integrable_phi hbe hp hc r)
      (integrable_phi2 hbe hp hc r) i (Fin.castAdd Dk j)

/-- **the joint density is a probability density**: integrable, non-negative, total mass one, and
its `x`-marginal is `p_r` -/
theorem C16J_joint_density (r : Fin Rx) :
    Integrable (qJoint be c p r) ∧ (∀ z, 0 ≤ qJoint be c p r z) ∧ ∫ z, qJoint be c p r z = 1 ∧
    ∀ x, ∫ y, qJoint be c p r (Fin.append x y) = wgt p r x := by
  have h := feat_kernelOK hbe hp hc r
  rw [qJoint_eq]
  exact ⟨integrable_q h, fun z => mul_nonneg (h.nonneg _ _) (h.wnonneg _), integral_q h, marginal_x h⟩

/-- all first and second moments of the joint density exist -/
theorem C16J_joint_integrable (r : Fin Rx) :
    (∀ e, Integrable fun z => z e * qJoint be c p r z) ∧
    (∀ e e', Integrable fun z => z e * z e' * qJoint be c p r z) := by
  have h := feat_kernelOK hbe hp hc r
  rw [qJoint_eq]
  exact ⟨integrable_z1 h, integrable_z2 h⟩

/-- **Fubini**: the moments of the joint density are the tower-rule expressions of C16 -/
theorem C16J_joint_moments (r : Fin Rx) :
    (∀ i, ∫ z, z (Fin.natAdd Dx i) * qJoint be c p r z = meanY c p r i) ∧
    (∀ i i', ∫ z, z (Fin.natAdd Dx i) * z (Fin.natAdd Dx i') * qJoint be c p r z = momYY c p r i i') ∧
    (∀ i j, ∫ z, z (Fin.natAdd Dx i) * z (Fin.castAdd Dy j) * qJoint be c p r z = momYX c p r i j) ∧
    (∀ j, ∫ z, z (Fin.castAdd Dy j) * qJoint be c p r z = meanX p r j) ∧
    (∀ j j', ∫ z, z (Fin.castAdd Dy j) * z (Fin.castAdd Dy j') * qJoint be c p r z
      = momXX p r j j') := by
  have h := feat_kernelOK hbe hp hc r
  rw [qJoint_eq]
  refine ⟨fun i => integral_y h i, fun i i' => ?_, fun i j => integral_yx h i j,
    fun j => integral_x h j, fun j j' => integral_xx h j j'⟩
  rw [integral_yy h i i', momYY]
  have hI : Integrable (fun x => condMuAt c i x * condMuAt c i' x * wgt p r x) := by
    simp only [condMuAt_eq_readout]
    exact integrable_readout_mul_readout _ _ (integrable_wgt hp r) (integrable_phi hbe hp hc r)
      (integrable_phi2 hbe hp hc r) i i'
  have hm : ∫ x, wgt p r x = 1 := hp.mass r
  simp only [add_mul]
  rw [integral_add ((integrable_wgt hp r).const_mul _) hI, integral_const_mul, hm, mul_one]

/-- mean vector of `z = (x, y)` under `q_r`, by blocks -/
theorem jMean_x (r : Fin Rx) (j : Fin Dx) :
    jMean (qJoint be c p r) (Fin.castAdd Dy j) = meanX p r j :=
  (C16J_joint_moments hbe hp hc r).2.2.2.1 j

theorem jMean_y (r : Fin Rx) (i : Fin Dy) :
    jMean (qJoint be c p r) (Fin.natAdd Dx i) = meanY c p r i :=
  (C16J_joint_moments hbe hp hc r).1 i

/-- covariance matrix of `z = (x, y)` under `q_r` as second moment − product of means -/
theorem jCov_raw (r : Fin Rx) (e e' : Fin (Dx + Dy)) :
    jCov (qJoint be c p r) e e' = (∫ z, z e * z e' * qJoint be c p r z)
      - jMean (qJoint be c p r) e * jMean (qJoint be c p r) e' := by
  obtain ⟨h0, -, h1, -⟩ := C16J_joint_density hbe hp hc r
  obtain ⟨i1, i2⟩ := C16J_joint_integrable hbe hp hc r
  exact jCov_eq h0 h1 (i1 e) (i1 e') (i2 e e')

theorem jCov_yy (r : Fin Rx) (i i' : Fin Dy) :
    jCov (qJoint be c p r) (Fin.natAdd Dx i) (Fin.natAdd Dx i') = covY c p r i i' := by
  rw [jCov_raw hbe hp hc, jMean_y hbe hp hc, jMean_y hbe hp hc,
    (C16J_joint_moments hbe hp hc r).2.1 i i', covY]

theorem jCov_yx (r : Fin Rx) (i : Fin Dy) (j : Fin Dx) :
    jCov (qJoint be c p r) (Fin.natAdd Dx i) (Fin.castAdd Dy j) = covYX c p r i j := by
  rw [jCov_raw hbe hp hc, jMean_y hbe hp hc, jMean_x hbe hp hc,
    (C16J_joint_moments hbe hp hc r).2.2.1 i j, covYX]

theorem jCov_xy (r : Fin Rx) (j : Fin Dx) (i : Fin Dy) :
    jCov (qJoint be c p r) (Fin.castAdd Dy j) (Fin.natAdd Dx i) = covYX c p r i j := by
  rw [← jCov_yx hbe hp hc r i j]
  simp only [jCov]
  exact integral_congr_ae (Filter.Eventually.of_forall fun z => by ring)

theorem jCov_xx (r : Fin Rx) (j j' : Fin Dx) :
    jCov (qJoint be c p r) (Fin.castAdd Dy j) (Fin.castAdd Dy j') = covX p r j j' := by
  rw [jCov_raw hbe hp hc, jMean_x hbe hp hc, jMean_x hbe hp hc,
    (C16J_joint_moments hbe hp hc r).2.2.2.2 j j', covX]

/-- **C16 at face value, marginal transformation, mean**: the `mu` of the density returned by
`affine_marginal_transformation(p)` is the mean of `y` under `q_r(x, y) = p(y|x) p_r(x)` -/
theorem C16J_marginal_mean :
    ∃ m : PdfV Rx Dy ℝ, (c.affineMarginal be p).asPdf = some m ∧
      ∀ r i, m.mu r i = jMean (qJoint be c p r) (Fin.natAdd Dx i) := by
  rw [C16_marginal_params hbe hp hc]
  obtain ⟨m, hm⟩ := mkPdf_asPdf_isSome be false (covYA c p) (meanYA c p) none none
  obtain ⟨-, hmu⟩ := mkPdf_asPdf_sigma_mu be _ _ _ _ _ hm
  refine ⟨m, hm, fun r i => ?_⟩
  rw [hmu, jMean_y hbe hp hc]
  simp only [meanYA, tab_apply]

/-- **C16 at face value, marginal transformation, covariance**: the `Sigma` of the density returned
by `affine_marginal_transformation(p)` is the covariance matrix of `y` under `q_r` -/
theorem C16J_marginal_cov :
    ∃ m : PdfV Rx Dy ℝ, (c.affineMarginal be p).asPdf = some m ∧
      ∀ r i i', m.Sigma r i i' = jCov (qJoint be c p r) (Fin.natAdd Dx i) (Fin.natAdd Dx i') := by
  rw [C16_marginal_params hbe hp hc]
  obtain ⟨m, hm⟩ := mkPdf_asPdf_isSome be false (covYA c p) (meanYA c p) none none
  obtain ⟨hS, -⟩ := mkPdf_asPdf_sigma_mu be _ _ _ _ _ hm
  refine ⟨m, hm, fun r i i' => ?_⟩
  rw [hS, jCov_yy hbe hp hc]
  simp only [covYA, tab_apply]

/-- **C16 at face value, joint transformation, mean**: the `mu` of the density returned by
`affine_joint_transformation(p)` is the mean vector of `z = (x, y)` under `q_r` -/
theorem C16J_joint_mean :
    ∃ j : PdfV Rx (Dx + Dy) ℝ, (c.affineJoint be p).asPdf = some j ∧
      ∀ r e, j.mu r e = jMean (qJoint be c p r) e := by
  rw [C16_joint_params hbe hp hc]
  obtain ⟨j, hj⟩ := mkPdf_asPdf_isSome be false (jointSigA c p) (jointMuA c p) none none
  obtain ⟨-, hmu⟩ := mkPdf_asPdf_sigma_mu be _ _ _ _ _ hj
  refine ⟨j, hj, fun r e => ?_⟩
  rw [hmu]
  refine Fin.addCases (fun i => ?_) (fun i => ?_) e
  · rw [jMean_x hbe hp hc]; simp only [jointMuA, tab_apply, vappend_castAdd, meanXA]
  · rw [jMean_y hbe hp hc]; simp only [jointMuA, tab_apply, vappend_natAdd, meanYA]

/-- **C16 at face value, joint transformation, covariance**: the `Sigma` of the density returned by
`affine_joint_transformation(p)` is the covariance matrix of `z = (x, y)` under `q_r`, all blocks -/
theorem C16J_joint_cov :
    ∃ j : PdfV Rx (Dx + Dy) ℝ, (c.affineJoint be p).asPdf = some j ∧
      ∀ r e e', j.Sigma r e e' = jCov (qJoint be c p r) e e' := by
  rw [C16_joint_params hbe hp hc]
  obtain ⟨j, hj⟩ := mkPdf_asPdf_isSome be false (jointSigA c p) (jointMuA c p) none none
  obtain ⟨hS, -⟩ := mkPdf_asPdf_sigma_mu be _ _ _ _ _ hj
  refine ⟨j, hj, fun r e e' => ?_⟩
  rw [hS]
  refine Fin.addCases (fun i => ?_) (fun i => ?_) e <;>
    refine Fin.addCases (fun i' => ?_) (fun i' => ?_) e'
  · rw [jCov_xx hbe hp hc]
    simp only [jointSigA, tab_apply, block, splitIdx_castAdd, covXA]
  · rw [jCov_xy hbe hp hc]
    simp only [jointSigA, tab_apply, block, splitIdx_castAdd, splitIdx_natAdd, transpose_apply,
      covYXA]
  · rw [jCov_yx hbe hp hc]
    simp only [jointSigA, tab_apply, block, splitIdx_castAdd, splitIdx_natAdd, covYXA]
  · rw [jCov_yy hbe hp hc]
    simp only [jointSigA, tab_apply, block, splitIdx_natAdd, covYA]

end featOK

end feature

/-! ## 3. heteroscedastic models -/

section hetero
variable {Dy Dx Da Dk R : Nat} {be : Backend ℝ}

/-- the density `p(y|x)` the heteroscedastic object returns when conditioned on the single point `x` -/
noncomputable def hCondDens (ops : HLinkOps ℝ) (be : Backend ℝ) (c : HeteroB Dy Dx Da Dk ℝ)
    (x : Fin Dx → ℝ) (y : Fin Dy → ℝ) : ℝ :=
  Real.exp ((c.conditionOnX ops be (tab fun _ : Fin 1 => ofV x)).evalLn 0 (ofV y))

/-- **the joint density** `q_r(x, y) = p(y|x) p_r(x)` on `ℝ^{Dx+Dy}` (`x` first) of a heteroscedastic
object, with `p(y|x)` the object's own `condition_on_x(x)` -/
noncomputable def qJointH (ops : HLinkOps ℝ) (be : Backend ℝ) (c : HeteroB Dy Dx Da Dk ℝ)
    (p : PdfV R Dx ℝ) (r : Fin R) (z : Fin (Dx + Dy) → ℝ) : ℝ :=
  Real.exp ((c.conditionOnX ops be (tab fun _ : Fin 1 => ofV (xblk z))).evalLn 0 (ofV (yblk z)))
    * Real.exp (p.evalLn r (ofV (xblk z)))

theorem qJointH_eq (ops : HLinkOps ℝ) (c : HeteroB Dy Dx Da Dk ℝ) (p : PdfV R Dx ℝ) (r : Fin R) :
    qJointH ops be c p r = qOf (hCondDens ops be c) (wgt p r) := rfl

/-- what is needed of the link function: non-negative values (the covariance stays positive
definite) and measurability (the step link is not continuous) -/
structure LinkOK (ops : HLinkOps ℝ) : Prop where
  nonneg : ∀ h, 0 ≤ ops.linkFunction h
  meas : Measurable ops.linkFunction

theorem linkOK_exp : LinkOK expOps :=
  ⟨fun h => (Real.exp_pos h).le, Real.measurable_exp⟩

theorem linkOK_coshM1 : LinkOK coshM1Ops :=
  ⟨fun h => by
    have := Real.one_le_cosh h
    show 0 ≤ Real.cosh h - 1
    linarith, Real.measurable_cosh.sub_const 1⟩

theorem linkOK_heaviside : LinkOK heavisideOps :=
  ⟨fun h => C17Trunc.heavisideLink_nonneg h, measurable_heavisideLink⟩

theorem linkOK_relu : LinkOK reluOps :=
  ⟨fun h => C17Trunc.reluLink_nonneg h, measurable_reluLink⟩

theorem hval_eq_hLin (c : HeteroB Dy Dx Da Dk ℝ) (x : Fin Dx → ℝ) (k : Fin Dk) :
    C17.hval c x k = hLin c k x := by
  simp only [C17.hval, hLin, Matrix.mulVec, dotProduct, Pi.add_apply, toM_apply, toV_apply]

theorem hetCov_covAt (c : HeteroB Dy Dx Da Dk ℝ) (ops : HLinkOps ℝ) (i j : Fin Dy) (x : Fin Dx → ℝ) :
    hetCov c ops i j x = C17.covAt c (C17.dval ops c x) i j := by
  have h := C17.condCov_eq ops c (tab fun _ : Fin 1 => ofV x) 0
  have h2 := congrFun (congrFun h i) j
  simp only [toM_apply, tab_apply, toV_ofV] at h2
  exact h2

theorem hetMu_sum (c : HeteroB Dy Dx Da Dk ℝ) (i : Fin Dy) (x : Fin Dx → ℝ) :
    hetMu c i x = ∑ l, c.M 0 i l * x l + c.b 0 i := by
  simp only [hetMu_eq, Pi.add_apply, Matrix.mulVec, dotProduct, toM_apply, toV_apply]

/-- symmetry of the base covariance (`HetOK` of C16) follows from `HeteroOK` of C17 -/
theorem hetOK_of_heteroOK {c : HeteroB Dy Dx Da Dk ℝ} (hc : C17.HeteroOK c) : HetOK c := by
  intro i j
  have h : (toM (c.Sigma 0))ᵀ = toM (c.Sigma 0) := by
    rw [← Matrix.conjTranspose_eq_transpose_of_trivial]; exact hc.posDef.isHermitian
  have := congrFun (congrFun h j) i
  simpa using this

theorem mul_diag_mul_apply {n k : Type*} [Fintype k] [DecidableEq k] (A : Matrix n k ℝ) (d : k → ℝ)
    (B : Matrix k n ℝ) (i j : n) : (A * diagonal d * B) i j = ∑ l, A i l * d l * B l j := by
  rw [Matrix.mul_apply]
  simp only [Matrix.mul_diagonal]

section hetOK
variable (hbe : be.Spec) {c : HeteroB Dy Dx Da Dk ℝ} (hc : C17.HeteroOK c) (hdec : C17.Decoupled c)
  {ops : HLinkOps ℝ} (hl : LinkOK ops)
include hbe hc hdec hl

/-- `condition_on_x(x)` is the normal density with mean `μ(x) = get_conditional_mu(x)` and covariance
`Σ_y(x) = get_conditional_cov(x)` (decoupled case, see C17) -/
theorem hCondDens_eq (x : Fin Dx → ℝ) (y : Fin Dy → ℝ) :
    hCondDens ops be c x y = nDens (fun i => hetMu c i x) (C17.covAt c (C17.dval ops c x)) y := by
  have hmu : toM (c.M 0) *ᵥ x + toV (c.b 0) = fun i => hetMu c i x :=
    funext fun i => (hetMu_eq c i x).symm
  simp only [hCondDens, nDens]
  rw [C17.C17_conditionOnX_evalLn hbe ops c hc hdec _ (fun n k => hl.nonneg _) 0 y]
  simp only [tab_apply, toV_ofV, hmu]

omit hbe in
theorem measurable_hKernel :
    Measurable fun q : (Fin Dx → ℝ) × (Fin Dy → ℝ) =>
      nDens (fun i => hetMu c i q.1) (C17.covAt c (C17.dval ops c q.1)) q.2 := by
  have hd : ∀ k, Measurable fun x : Fin Dx → ℝ => C17.dval ops c x k := by
    intro k
    have : (fun x : Fin Dx → ℝ => C17.dval ops c x k) = fun x => ops.linkFunction (hLin c k x) :=
      funext fun x => by rw [C17.dval, hval_eq_hLin]
    rw [this]
    exact hl.meas.comp (measurable_hLin c k)
  have e : (fun q : (Fin Dx → ℝ) × (Fin Dy → ℝ) =>
        nDens (fun i => hetMu c i q.1) (C17.covAt c (C17.dval ops c q.1)) q.2)
      = fun q => Real.exp (normalLn (fun i => hetMu c i q.1) (C17.precAt c (C17.dval ops c q.1))
          (C17.lnDetAt c (C17.dval ops c q.1)) q.2) := by
    funext q
    have hd0 : ∀ k, 0 ≤ C17.dval ops c q.1 k := fun k => hl.nonneg _
    rw [nDens, C17.precAt_eq_inv hc hdec hd0, C17.lnDetAt_eq hc hdec hd0]
  rw [e]
  refine measurable_normal_kernel (fun x i => hetMu c i x) (fun x => C17.precAt c (C17.dval ops c x))
    (fun x => C17.lnDetAt c (C17.dval ops c x)) (fun i => ?_) (fun i j => ?_) ?_
  · simp only [hetMu_sum]
    exact (Finset.measurable_sum _ fun l _ => (measurable_pi_apply l).const_mul _).add_const _
  · simp only [C17.precAt, Matrix.sub_apply, mul_diag_mul_apply]
    exact (Finset.measurable_sum _ fun l _ =>
      (((hd l).div (measurable_const.add (hd l))).const_mul _).mul_const _).const_sub _
  · simp only [C17.lnDetAt]
    exact (Finset.measurable_sum _ fun k _ =>
      Real.measurable_log.comp (measurable_const.add (hd k))).const_add _

variable {p : PdfV R Dx ℝ} (hp : PdfInv p) (hN : NoiseOK ops be c p)
include hp hN

/-- the conditional density of a heteroscedastic model (decoupled case) and the Gaussian weight
satisfy all the hypotheses of the abstract Fubini argument -/
theorem het_kernelOK (r : Fin R) :
    KernelOK (hCondDens ops be c) (wgt p r) (hetMu c) (hetCov c ops) := by
  have hPD : ∀ x, (C17.covAt c (C17.dval ops c x)).PosDef := fun x =>
    C17.covAt_posDef hc (fun k => hl.nonneg _)
  have hNm := fun x => normal_moments (fun i => hetMu c i x) (C17.covAt c (C17.dval ops c x)) (hPD x)
  have hK : hCondDens ops be c
      = fun x y => nDens (fun i => hetMu c i x) (C17.covAt c (C17.dval ops c x)) y :=
    funext fun x => funext fun y => hCondDens_eq hbe hc hdec hl x y
  refine ⟨?_, fun x y => (Real.exp_pos _).le, ?_, ?_, ?_, ?_, ?_, ?_, fun x => (Real.exp_pos _).le,
    integrable_wgt hp r, hp.mass r, integrable_x hbe hp r, integrable_xx hbe hp r, ?_, ?_, ?_⟩
  · rw [hK]; exact measurable_hKernel hc hdec hl
  · intro x; rw [hK]; exact (hNm x).1
  · intro x; rw [hK]; exact (hNm x).2.1
  · intro x i; rw [hK]; exact (hNm x).2.2.1 i
  · intro x i; rw [hK]; exact (hNm x).2.2.2.1 i
  · intro x i j; rw [hK]; exact (hNm x).2.2.2.2.1 i j
  · intro x i j; rw [hK, hetCov_covAt]; exact (hNm x).2.2.2.2.2 i j
  · intro i
    simp only [hetMu_sum, add_mul, Finset.sum_mul, mul_assoc]
    exact (integrable_finsetSum _ fun l _ => (integrable_x hbe hp r l).const_mul _).add
      ((integrable_wgt hp r).const_mul _)
  · intro i i'
    have e : ∀ x : Fin Dx → ℝ, (hetCov c ops i i' x + hetMu c i x * hetMu c i' x) * wgt p r x
        = c.Sigma 0 i i' * wgt p r x
          + ∑ k, c.Ak i k * c.Ak i' k * (ops.linkFunction (hLin c k x) * wgt p r x)
          + hetMu c i x * hetMu c i' x * wgt p r x := by
      intro x
      rw [hetCov_eq, add_mul, add_mul, Finset.sum_mul]
      congr 2
      exact Finset.sum_congr rfl fun k _ => by ring
    simp only [e]
    exact (((integrable_wgt hp r).const_mul _).add
      (integrable_finsetSum _ fun k _ => ((hN r k).1).const_mul _)).add
      (integrable_hetMu2 hbe hp c r i i')
  · intro i j
    have e : ∀ x : Fin Dx → ℝ, hetMu c i x * x j * wgt p r x
        = ∑ l, c.M 0 i l * (x l * x j * wgt p r x) + c.b 0 i * (x j * wgt p r x) := by
      intro x
      rw [hetMu_sum, add_mul, add_mul, Finset.sum_mul, Finset.sum_mul]
      congr 1
      · exact Finset.sum_congr rfl fun l _ => by ring
      · ring
    simp only [e]
    exact (integrable_finsetSum _ fun l _ => (integrable_xx hbe hp r l j).const_mul _).add
      ((integrable_x hbe hp r j).const_mul _)

/-- **the joint density is a probability density** with `x`-marginal `p_r` -/
theorem C16J_hetero_joint_density (r : Fin R) :
    Integrable (qJointH ops be c p r) ∧ (∀ z, 0 ≤ qJointH ops be c p r z) ∧
    ∫ z, qJointH ops be c p r z = 1 ∧
    ∀ x, ∫ y, qJointH ops be c p r (Fin.append x y) = wgt p r x := by
  have h := het_kernelOK hbe hc hdec hl hp hN r
  rw [qJointH_eq]
  exact ⟨integrable_q h, fun z => mul_nonneg (h.nonneg _ _) (h.wnonneg _), integral_q h, marginal_x h⟩

/-- all first and second moments of the joint density exist -/
theorem C16J_hetero_joint_integrable (r : Fin R) :
    (∀ e, Integrable fun z => z e * qJointH ops be c p r z) ∧
    (∀ e e', Integrable fun z => z e * z e' * qJointH ops be c p r z) := by
  have h := het_kernelOK hbe hc hdec hl hp hN r
  rw [qJointH_eq]
  exact ⟨integrable_z1 h, integrable_z2 h⟩

/-- **Fubini**: the moments of the joint density are the tower-rule expressions of C16 -/
theorem C16J_hetero_joint_moments (r : Fin R) :
    (∀ i, ∫ z, z (Fin.natAdd Dx i) * qJointH ops be c p r z = hMeanY c p r i) ∧
    (∀ i i', ∫ z, z (Fin.natAdd Dx i) * z (Fin.natAdd Dx i') * qJointH ops be c p r z
      = hMomYY c ops p r i i') ∧
    (∀ i j, ∫ z, z (Fin.natAdd Dx i) * z (Fin.castAdd Dy j) * qJointH ops be c p r z
      = hMomYX c p r i j) ∧
    (∀ j, ∫ z, z (Fin.castAdd Dy j) * qJointH ops be c p r z = meanX p r j) ∧
    (∀ j j', ∫ z, z (Fin.castAdd Dy j) * z (Fin.castAdd Dy j') * qJointH ops be c p r z
      = momXX p r j j') := by
  have h := het_kernelOK hbe hc hdec hl hp hN r
  rw [qJointH_eq]
  exact ⟨fun i => integral_y h i, fun i i' => integral_yy h i i', fun i j => integral_yx h i j,
    fun j => integral_x h j, fun j j' => integral_xx h j j'⟩

theorem hjMean_x (r : Fin R) (j : Fin Dx) :
    jMean (qJointH ops be c p r) (Fin.castAdd Dy j) = meanX p r j :=
  (C16J_hetero_joint_moments hbe hc hdec hl hp hN r).2.2.2.1 j

theorem hjMean_y (r : Fin R) (i : Fin Dy) :
    jMean (qJointH ops be c p r) (Fin.natAdd Dx i) = hMeanY c p r i :=
  (C16J_hetero_joint_moments hbe hc hdec hl hp hN r).1 i

theorem hjCov_raw (r : Fin R) (e e' : Fin (Dx + Dy)) :
    jCov (qJointH ops be c p r) e e' = (∫ z, z e * z e' * qJointH ops be c p r z)
      - jMean (qJointH ops be c p r) e * jMean (qJointH ops be c p r) e' := by
  obtain ⟨h0, -, h1, -⟩ := C16J_hetero_joint_density hbe hc hdec hl hp hN r
  obtain ⟨i1, i2⟩ := C16J_hetero_joint_integrable hbe hc hdec hl hp hN r
  exact jCov_eq h0 h1 (i1 e) (i1 e') (i2 e e')

theorem hjCov_yy (r : Fin R) (i i' : Fin Dy) :
    jCov (qJointH ops be c p r) (Fin.natAdd Dx i) (Fin.natAdd Dx i')
      = hMomYY c ops p r i i' - hMeanY c p r i * hMeanY c p r i' := by
  rw [hjCov_raw hbe hc hdec hl hp hN, hjMean_y hbe hc hdec hl hp hN, hjMean_y hbe hc hdec hl hp hN,
    (C16J_hetero_joint_moments hbe hc hdec hl hp hN r).2.1 i i']

theorem hjCov_yx (r : Fin R) (i : Fin Dy) (j : Fin Dx) :
    jCov (qJointH ops be c p r) (Fin.natAdd Dx i) (Fin.castAdd Dy j)
      = hMomYX c p r i j - hMeanY c p r i * meanX p r j := by
  rw [hjCov_raw hbe hc hdec hl hp hN, hjMean_y hbe hc hdec hl hp hN, hjMean_x hbe hc hdec hl hp hN,
    (C16J_hetero_joint_moments hbe hc hdec hl hp hN r).2.2.1 i j]

theorem hjCov_xy (r : Fin R) (j : Fin Dx) (i : Fin Dy) :
    jCov (qJointH ops be c p r) (Fin.castAdd Dy j) (Fin.natAdd Dx i)
      = hMomYX c p r i j - hMeanY c p r i * meanX p r j := by
  rw [← hjCov_yx hbe hc hdec hl hp hN r i j]
  simp only [jCov]
  exact integral_congr_ae (Filter.Eventually.of_forall fun z => by ring)

theorem hjCov_xx (r : Fin R) (j j' : Fin Dx) :
    jCov (qJointH ops be c p r) (Fin.castAdd Dy j) (Fin.castAdd Dy j') = covX p r j j' := by
  rw [hjCov_raw hbe hc hdec hl hp hN, hjMean_x hbe hc hdec hl hp hN, hjMean_x hbe hc hdec hl hp hN,
    (C16J_hetero_joint_moments hbe hc hdec hl hp hN r).2.2.2.2 j j', covX]

/-- **C16 at face value, heteroscedastic marginal transformation, mean** -/
theorem C16J_hetero_marginal_mean :
    ∃ m : PdfV R Dy ℝ, (c.affineMarginal ops be p).asPdf = some m ∧
      ∀ r i, m.mu r i = jMean (qJointH ops be c p r) (Fin.natAdd Dx i) := by
  rw [C16_hetero_marginal_params hbe hp (hetOK_of_heteroOK hc) hN]
  obtain ⟨m, hm⟩ := mkPdf_asPdf_isSome be false (hCovYA c ops p) (hMeanYA c p) none none
  obtain ⟨-, hmu⟩ := mkPdf_asPdf_sigma_mu be _ _ _ _ _ hm
  refine ⟨m, hm, fun r i => ?_⟩
  rw [hmu, hjMean_y hbe hc hdec hl hp hN]
  simp only [hMeanYA, tab_apply]

/-- **C16 at face value, heteroscedastic marginal transformation, covariance** -/
theorem C16J_hetero_marginal_cov :
    ∃ m : PdfV R Dy ℝ, (c.affineMarginal ops be p).asPdf = some m ∧
      ∀ r i i', m.Sigma r i i'
        = jCov (qJointH ops be c p r) (Fin.natAdd Dx i) (Fin.natAdd Dx i') := by
  rw [C16_hetero_marginal_params hbe hp (hetOK_of_heteroOK hc) hN]
  obtain ⟨m, hm⟩ := mkPdf_asPdf_isSome be false (hCovYA c ops p) (hMeanYA c p) none none
  obtain ⟨hS, -⟩ := mkPdf_asPdf_sigma_mu be _ _ _ _ _ hm
  refine ⟨m, hm, fun r i i' => ?_⟩
  rw [hS, hjCov_yy hbe hc hdec hl hp hN]
  simp only [hCovYA, tab_apply]

/-- **C16 at face value, heteroscedastic joint transformation, mean** -/
theorem C16J_hetero_joint_mean :
    ∃ j : PdfV R (Dx + Dy) ℝ, (c.affineJoint ops be p).asPdf = some j ∧
      ∀ r e, j.mu r e = jMean (qJointH ops be c p r) e := by
  rw [C16_hetero_joint_params hbe hp (hetOK_of_heteroOK hc) hN]
  obtain ⟨j, hj⟩ := mkPdf_asPdf_isSome be false
    (tab fun r => block (covXA p r) (transpose (hCovYXA c p r)) (hCovYXA c p r) (hCovYA c ops p r))
    (tab fun r => vappend (meanXA p r) (hMeanYA c p r)) none none
  obtain ⟨-, hmu⟩ := mkPdf_asPdf_sigma_mu be _ _ _ _ _ hj
  refine ⟨j, hj, fun r e => ?_⟩
  rw [hmu]
  refine Fin.addCases (fun i => ?_) (fun i => ?_) e
  · rw [hjMean_x hbe hc hdec hl hp hN]; simp only [tab_apply, vappend_castAdd, meanXA]
  · rw [hjMean_y hbe hc hdec hl hp hN]; simp only [tab_apply, vappend_natAdd, hMeanYA]

/-- **C16 at face value, heteroscedastic joint transformation, covariance**, all blocks -/
theorem C16J_hetero_joint_cov :
    ∃ j : PdfV R (Dx + Dy) ℝ, (c.affineJoint ops be p).asPdf = some j ∧
      ∀ r e e', j.Sigma r e e' = jCov (qJointH ops be c p r) e e' := by
  rw [C16_hetero_joint_params hbe hp (hetOK_of_heteroOK hc) hN]
  obtain ⟨j, hj⟩ := mkPdf_asPdf_isSome be false
    (tab fun r => block (covXA p r) (transpose (hCovYXA c p r)) (hCovYXA c p r) (hCovYA c ops p r))
    (tab fun r => vappend (meanXA p r) (hMeanYA c p r)) none none
  obtain ⟨hS, -⟩ := mkPdf_asPdf_sigma_mu be _ _ _ _ _ hj
  refine ⟨j, hj, fun r e e' => ?_⟩
  rw [hS]
  refine Fin.addCases (fun i => ?_) (fun i => ?_) e <;>
    refine Fin.addCases (fun i' => ?_) (fun i' => ?_) e'
  · rw [hjCov_xx hbe hc hdec hl hp hN]
    simp only [tab_apply, block, splitIdx_castAdd, covXA]
  · rw [hjCov_xy hbe hc hdec hl hp hN]
    simp only [tab_apply, block, splitIdx_castAdd, splitIdx_natAdd, transpose_apply, hCovYXA]
  · rw [hjCov_yx hbe hc hdec hl hp hN]
    simp only [tab_apply, block, splitIdx_castAdd, splitIdx_natAdd, hCovYXA]
  · rw [hjCov_yy hbe hc hdec hl hp hN]
    simp only [tab_apply, block, splitIdx_natAdd, hCovYA]

end hetOK

/-- property C16 at face value for one heteroscedastic link class: marginal and joint transformation
return exactly the mean vector and covariance matrix of `y` resp. `(x, y)` under
`q_r(x, y) = p(y|x) p_r(x)`, for every component `r` -/
def FaceValue (ops : HLinkOps ℝ) (be : Backend ℝ) (c : HeteroB Dy Dx Da Dk ℝ) (p : PdfV R Dx ℝ) :
    Prop :=
  (∀ r, Integrable (qJointH ops be c p r) ∧ (∀ z, 0 ≤ qJointH ops be c p r z) ∧
    ∫ z, qJointH ops be c p r z = 1) ∧
  (∃ m : PdfV R Dy ℝ, (c.affineMarginal ops be p).asPdf = some m ∧
    (∀ r i, m.mu r i = jMean (qJointH ops be c p r) (Fin.natAdd Dx i)) ∧
    ∀ r i i', m.Sigma r i i' = jCov (qJointH ops be c p r) (Fin.natAdd Dx i) (Fin.natAdd Dx i')) ∧
  (∃ j : PdfV R (Dx + Dy) ℝ, (c.affineJoint ops be p).asPdf = some j ∧
    (∀ r e, j.mu r e = jMean (qJointH ops be c p r) e) ∧
    ∀ r e e', j.Sigma r e e' = jCov (qJointH ops be c p r) e e')

section classes
variable (hbe : be.Spec) {c : HeteroB Dy Dx Da Dk ℝ} (hc : C17.HeteroOK c) (hdec : C17.Decoupled c)
  {p : PdfV R Dx ℝ} (hp : PdfInv p)
include hbe hc hdec hp

theorem faceValue_of {ops : HLinkOps ℝ} (hl : LinkOK ops) (hN : NoiseOK ops be c p) :
    FaceValue ops be c p := by
  refine ⟨fun r => ?_, ?_, ?_⟩
  · obtain ⟨h0, h1, h2, -⟩ := C16J_hetero_joint_density hbe hc hdec hl hp hN r
    exact ⟨h0, h1, h2⟩
  · obtain ⟨m, hm, hmu⟩ := C16J_hetero_marginal_mean hbe hc hdec hl hp hN
    obtain ⟨m', hm', hS⟩ := C16J_hetero_marginal_cov hbe hc hdec hl hp hN
    rw [hm] at hm'
    obtain rfl : m = m' := Option.some.inj hm'
    exact ⟨m, hm, hmu, hS⟩
  · obtain ⟨j, hj, hmu⟩ := C16J_hetero_joint_mean hbe hc hdec hl hp hN
    obtain ⟨j', hj', hS⟩ := C16J_hetero_joint_cov hbe hc hdec hl hp hN
    rw [hj] at hj'
    obtain rfl : j = j' := Option.some.inj hj'
    exact ⟨j, hj, hmu, hS⟩

/-- **exp link** -/
theorem C16J_exp : FaceValue expOps be c p :=
  faceValue_of hbe hc hdec hp linkOK_exp (noiseOK_exp hbe hp c)

/-- **cosh−1 link** -/
theorem C16J_coshM1 : FaceValue coshM1Ops be c p :=
  faceValue_of hbe hc hdec hp linkOK_coshM1 (noiseOK_cosh hbe hp c)

/-- **step link** (non-zero input weights) -/
theorem C16J_heaviside (hw : WeightsNonzero c) : FaceValue heavisideOps be c p :=
  faceValue_of hbe hc hdec hp linkOK_heaviside (noiseOK_heaviside hbe hp hw)

/-- **rectified-linear link** (non-zero input weights) -/
theorem C16J_relu (hw : WeightsNonzero c) : FaceValue reluOps be c p :=
  faceValue_of hbe hc hdec hp linkOK_relu (noiseOK_relu hbe hp hw)

end classes

end hetero

/-! ## non-vacuity -/

section nonvacuity
open GT.Props.C17

/-- feature classes: for **every** kernel of either class (one kernel on `ℝ²`), the contract-satisfying
backend, a read-out with non-zero weights and offset, a non-diagonal noise covariance and
`p(x) = N((1,−1), [[2,1],[1,2]])` the hypotheses hold and so do the face-value statements -/
example (kernel : FeatKernel 1 2 ℝ) :
    ∃ (c : FeatCondB 2 2 1 ℝ) (p : PdfV 1 2 ℝ), Backend.sat.Spec ∧ FeatOK c ∧ PdfInv p ∧
      c.kernel = kernel ∧ c.b 0 0 = 1 ∧ p.mu 0 0 = 1 ∧
      (Integrable (qJoint Backend.sat c p 0) ∧ ∫ z, qJoint Backend.sat c p 0 z = 1) ∧
      (∃ m : PdfV 1 2 ℝ, (c.affineMarginal Backend.sat p).asPdf = some m ∧
        ∀ r i i', m.Sigma r i i'
          = jCov (qJoint Backend.sat c p r) (Fin.natAdd 2 i) (Fin.natAdd 2 i')) ∧
      (∃ j : PdfV 1 (2 + 2) ℝ, (c.affineJoint Backend.sat p).asPdf = some j ∧
        ∀ r e e', j.Sigma r e e' = jCov (qJoint Backend.sat c p r) e e') := by
  have hbe := Backend.sat_spec
  have hS : ∀ r : Fin 1, (toM ((tab fun _ : Fin 1 => ofM !![2, 1; 1, 2]) r)).PosDef := fun r => by
    simp only [tab_apply, toM_ofM]; exact posDef_two_one
  obtain ⟨c, -, hc, -, hker, -, hb⟩ := mkFeatCond_ok hbe
    (tab fun _ : Fin 1 => (ofM !![1, 2, 3; 0, -1, 1] : Mat 2 (2 + 1) ℝ))
    (some (tab fun _ => ofV ![1, 2])) kernel _ hS
  have hargs : C02.PdfArgsOK false (tab fun _ : Fin 1 => ofM !![2, 1; 1, 2]) none none :=
    ⟨hS, by simp, by simp, by simp⟩
  obtain ⟨p, hp⟩ := mkPdf_asPdf_isSome Backend.sat false (tab fun _ : Fin 1 => ofM !![2, 1; 1, 2])
    (tab fun _ => ofV ![1, -1]) none none
  have hpi : PdfInv p := pdfInv_of_mkPdf hbe _ _ _ _ _ hargs hp
  obtain ⟨-, hmu⟩ := mkPdf_asPdf_sigma_mu Backend.sat _ _ _ _ _ hp
  obtain ⟨h0, -, h1, -⟩ := C16J_joint_density hbe hpi hc 0
  refine ⟨c, p, hbe, hc, hpi, hker, ?_, ?_, ⟨h0, h1⟩, C16J_marginal_cov hbe hpi hc,
    C16J_joint_cov hbe hpi hc⟩
  · rw [hb]; simp [ofV]
  · rw [hmu]; simp [ofV]

/-- heteroscedastic classes: a concrete object built by the constructor (square `A`, non-zero input
weights `(2, −1)`, offset `1`), a two-component `p(x)`; all hypotheses hold and the face-value
statement holds for all four link classes -/
example : ∃ (c : HeteroB 2 2 2 1 ℝ) (p : PdfV 2 2 ℝ), Backend.sat.Spec ∧ HeteroOK c ∧ Decoupled c ∧
    PdfInv p ∧ WeightsNonzero c ∧ c.W 0 1 = 2 ∧ p.mu 1 1 = 2 ∧
    FaceValue expOps Backend.sat c p ∧ FaceValue coshM1Ops Backend.sat c p ∧
    FaceValue heavisideOps Backend.sat c p ∧ FaceValue reluOps Backend.sat c p := by
  have hbe := Backend.sat_spec
  have hS : ∀ r : Fin 2, (toM ((tab fun _ : Fin 2 => ofM !![2, 1; 1, 2]) r)).PosDef := fun r => by
    simp only [tab_apply, toM_ofM]; exact posDef_two_one
  have hargs : C02.PdfArgsOK false (tab fun _ : Fin 2 => ofM !![2, 1; 1, 2]) none none :=
    ⟨hS, by simp, by simp, by simp⟩
  obtain ⟨p, hp⟩ := mkPdf_asPdf_isSome Backend.sat false (tab fun _ : Fin 2 => ofM !![2, 1; 1, 2])
    (tab fun r => if r = 0 then ofV ![1, -1] else ofV ![0, 2]) none none
  have hpi : PdfInv p := pdfInv_of_mkPdf hbe _ _ _ _ _ hargs hp
  obtain ⟨-, hmu⟩ := mkPdf_asPdf_sigma_mu Backend.sat _ _ _ _ _ hp
  set A : Arr 1 (Mat 2 2 ℝ) := tab fun _ => ofM 1 with hA
  have hAA : (toM (A 0) * (toM (A 0))ᵀ).PosDef := by
    simp only [hA, tab_apply, toM_ofM, Matrix.transpose_one, Matrix.mul_one]
    exact Matrix.PosDef.one
  set c : HeteroB 2 2 2 1 ℝ := mkHetero Backend.sat (tab fun _ => ofM !![1, 2; 0, -1])
    (tab fun _ => ofV ![1, 2]) A (tab fun _ => ofV ![1, 2, -1]) (le_refl _) (by norm_num) with hcdef
  have hc : HeteroOK c := C17.mkHetero_ok hbe _ _ A _ _ _ hAA
  have hdec : Decoupled c := decoupled_of_square c hc
  have hw : WeightsNonzero c := by
    intro k
    refine ⟨0, ?_⟩
    simp [hcdef, mkHetero, HeteroB.wMat, wTail, ofV]
  refine ⟨c, p, hbe, hc, hdec, hpi, hw, ?_, ?_, C16J_exp hbe hc hdec hpi, C16J_coshM1 hbe hc hdec hpi,
    C16J_heaviside hbe hc hdec hpi hw, C16J_relu hbe hc hdec hpi hw⟩
  · simp [hcdef, mkHetero, ofV]
  · rw [hmu]; simp [ofV]

end nonvacuity

end GT.Props.C16Joint

section axioms
#print axioms GT.Props.C16Joint.normal_moments
#print axioms GT.Props.C16Joint.measurable_normal_kernel
#print axioms GT.Props.C16Joint.jCov_eq
#print axioms GT.Props.C16Joint.integrable_q
#print axioms GT.Props.C16Joint.integral_q
#print axioms GT.Props.C16Joint.integrable_z2
#print axioms GT.Props.C16Joint.integral_y
#print axioms GT.Props.C16Joint.integral_yy
#print axioms GT.Props.C16Joint.integral_yx
#print axioms GT.Props.C16Joint.integral_x
#print axioms GT.Props.C16Joint.integral_xx
#print axioms GT.Props.C16Joint.feat_kernelOK
#print axioms GT.Props.C16Joint.C16J_joint_density
#print axioms GT.Props.C16Joint.C16J_joint_integrable
#print axioms GT.Props.C16Joint.C16J_joint_moments
#print axioms GT.Props.C16Joint.C16J_marginal_mean
#print axioms GT.Props.C16Joint.C16J_marginal_cov
#print axioms GT.Props.C16Joint.C16J_joint_mean
#print axioms GT.Props.C16Joint.C16J_joint_cov
#print axioms GT.Props.C16Joint.het_kernelOK
#print axioms GT.Props.C16Joint.C16J_hetero_joint_density
#print axioms GT.Props.C16Joint.C16J_hetero_joint_integrable
#print axioms GT.Props.C16Joint.C16J_hetero_joint_moments
#print axioms GT.Props.C16Joint.C16J_hetero_marginal_mean
#print axioms GT.Props.C16Joint.C16J_hetero_marginal_cov
#print axioms GT.Props.C16Joint.C16J_hetero_joint_mean
#print axioms GT.Props.C16Joint.C16J_hetero_joint_cov
#print axioms GT.Props.C16Joint.C16J_exp
#print axioms GT.Props.C16Joint.C16J_coshM1
#print axioms GT.Props.C16Joint.C16J_heaviside
#print axioms GT.Props.C16Joint.C16J_relu
end axioms
