import GT.Props.C03
import GT.Props.C02
import GT.Math.Moments
import GT.Bridge.SpecSat
/-!
# C03 — `integrate(key)` returns the Lebesgue integral of the expression against the measure

The analytic layer: the Wick polynomials of `C03.lean` are the moments of products of (up to four)
scalar affine functions under the Gaussian weight, and the view `(m.intView be).2` of a consistent
measure carries the true mass, mean and covariance.  Together with the algebraic layer this gives
the property theorems `C03_<key>`: every entry returned by the model equals
`∫ (expression in x) * exp (m.evalLn r x) dx`.
-/

/-! ## moments of affine functions under the Gaussian weight -/
namespace GT.Math
open MeasureTheory ProbabilityTheory Matrix Real

variable {n : Type*} [Fintype n] [DecidableEq n]

theorem integrableExpSet_affine_gaussMeasure {Λ : Matrix n n ℝ} (hΛ : Λ.PosDef) (ν t : n → ℝ)
    (c s : ℝ) : Integrable (fun x => rexp (s * (t ⬝ᵥ x + c))) (gaussMeasure Λ ν) := by
  have : (fun x : n → ℝ => rexp (s * (t ⬝ᵥ x + c)))
      = fun x => rexp (s * c) * rexp (s * (t ⬝ᵥ x)) := by
    funext x; rw [← Real.exp_add]; congr 1; ring
  rw [this]
  exact (integrableExpSet_linear_gaussMeasure hΛ ν t s).const_mul _

/-- polynomial factors in an affine function are integrable against the weight -/
theorem integrable_affine_pow_mul_gaussW {Λ : Matrix n n ℝ} (hΛ : Λ.PosDef) (ν t : n → ℝ) (c : ℝ)
    (k : ℕ) : Integrable (fun x => (t ⬝ᵥ x + c) ^ k * gaussW Λ ν x) := by
  rw [← integrable_gaussMeasure_iff Λ ν (fun x => (t ⬝ᵥ x + c) ^ k)]
  have hset : integrableExpSet (fun x => t ⬝ᵥ x + c) (gaussMeasure Λ ν) = Set.univ :=
    Set.eq_univ_of_forall (integrableExpSet_affine_gaussMeasure hΛ ν t c)
  exact integrable_pow_of_mem_interior_integrableExpSet (by simp [hset]) k

/-- moments 1–4 of an affine function `t ⬝ᵥ x + c` under the Gaussian weight -/
theorem gaussian_affine_moments {Λ : Matrix n n ℝ} (hΛ : Λ.PosDef) (ν t : n → ℝ) (c : ℝ) :
    let Z := ∫ x, gaussW Λ ν x
    let m := t ⬝ᵥ Λ⁻¹ *ᵥ ν + c
    let v := t ⬝ᵥ Λ⁻¹ *ᵥ t
    (∫ x, (t ⬝ᵥ x + c) * gaussW Λ ν x = Z * m) ∧
    (∫ x, (t ⬝ᵥ x + c) ^ 2 * gaussW Λ ν x = Z * (m ^ 2 + v)) ∧
    (∫ x, (t ⬝ᵥ x + c) ^ 3 * gaussW Λ ν x = Z * (m ^ 3 + 3 * m * v)) ∧
    (∫ x, (t ⬝ᵥ x + c) ^ 4 * gaussW Λ ν x = Z * (m ^ 4 + 6 * m ^ 2 * v + 3 * v ^ 2)) := by
  intro Z m v
  have h := moments_of_mgf_quad (gaussMeasure Λ ν) (fun x => t ⬝ᵥ x + c) Z m v
    (integrableExpSet_affine_gaussMeasure hΛ ν t c)
    (by
      intro s
      rw [mgf, integral_gaussMeasure]
      have : ∀ x : n → ℝ, rexp (s * (t ⬝ᵥ x + c)) * gaussW Λ ν x
          = rexp (s * c) * (rexp (s * (t ⬝ᵥ x)) * gaussW Λ ν x) := by
        intro x; rw [← mul_assoc, ← Real.exp_add]; congr 2; ring
      simp_rw [this]
      rw [integral_const_mul, gaussian_mgf_linear hΛ, mul_left_comm, ← Real.exp_add]
      congr 2; simp only [m, v]; ring)
  simp only [integral_gaussMeasure] at h
  exact h

end GT.Math

namespace GT.Props.C03
open GT Matrix MeasureTheory GT.Math

section affine
variable {n : Type*} [Fintype n] [DecidableEq n]

/-- first moment of an affine function -/
theorem affine_one {Λ : Matrix n n ℝ} (hΛ : Λ.PosDef) (ν a : n → ℝ) (ca : ℝ) :
    ∫ x, (a ⬝ᵥ x + ca) * gaussW Λ ν x = (∫ x, gaussW Λ ν x) * (a ⬝ᵥ Λ⁻¹ *ᵥ ν + ca) :=
  (gaussian_affine_moments hΛ ν a ca).1

theorem integrable_affine_one {Λ : Matrix n n ℝ} (hΛ : Λ.PosDef) (ν a : n → ℝ) (ca : ℝ) :
    Integrable (fun x => (a ⬝ᵥ x + ca) * gaussW Λ ν x) := by
  simpa only [pow_one] using integrable_affine_pow_mul_gaussW hΛ ν a ca 1

theorem affine_two_aux {Λ : Matrix n n ℝ} (hΛ : Λ.PosDef) (ν a b : n → ℝ) (ca cb : ℝ) :
    Integrable (fun x => (a ⬝ᵥ x + ca) * (b ⬝ᵥ x + cb) * gaussW Λ ν x) ∧
    ∫ x, (a ⬝ᵥ x + ca) * (b ⬝ᵥ x + cb) * gaussW Λ ν x
      = (∫ x, gaussW Λ ν x)
        * wick2 (a ⬝ᵥ Λ⁻¹ *ᵥ ν + ca) (b ⬝ᵥ Λ⁻¹ *ᵥ ν + cb) (a ⬝ᵥ Λ⁻¹ *ᵥ b) := by
  have key : ∀ x, (a ⬝ᵥ x + ca) * (b ⬝ᵥ x + cb) * gaussW Λ ν x
      = (1/2) * ((((a + b) ⬝ᵥ x + (ca + cb)) ^ 2 * gaussW Λ ν x
          - (a ⬝ᵥ x + ca) ^ 2 * gaussW Λ ν x) - (b ⬝ᵥ x + cb) ^ 2 * gaussW Λ ν x) := by
    intro x; rw [add_dotProduct]; ring
  have i2 := fun t c => integrable_affine_pow_mul_gaussW hΛ ν t c 2
  simp_rw [key]
  refine ⟨(((i2 _ _).sub (i2 _ _)).sub (i2 _ _)).const_mul _, ?_⟩
  have e : ∫ x, (((a + b) ⬝ᵥ x + (ca + cb)) ^ 2 * gaussW Λ ν x - (a ⬝ᵥ x + ca) ^ 2 * gaussW Λ ν x
        - (b ⬝ᵥ x + cb) ^ 2 * gaussW Λ ν x)
      = (∫ x, ((a + b) ⬝ᵥ x + (ca + cb)) ^ 2 * gaussW Λ ν x)
        - (∫ x, (a ⬝ᵥ x + ca) ^ 2 * gaussW Λ ν x) - ∫ x, (b ⬝ᵥ x + cb) ^ 2 * gaussW Λ ν x := by
    rw [integral_sub, integral_sub (i2 _ _) (i2 _ _)]
    · exact (i2 _ _).sub (i2 _ _)
    · exact i2 _ _
  rw [integral_const_mul, e]
  simp only [(gaussian_affine_moments hΛ ν _ _).2.1]
  have hs := dotProduct_mulVec_symm (PosDef_inv_transpose hΛ) b a
  simp only [mulVec_add, add_dotProduct, dotProduct_add, hs, wick2]
  ring

theorem affine_three_aux {Λ : Matrix n n ℝ} (hΛ : Λ.PosDef) (ν a b c : n → ℝ) (ca cb cc : ℝ) :
    Integrable (fun x => (a ⬝ᵥ x + ca) * (b ⬝ᵥ x + cb) * (c ⬝ᵥ x + cc) * gaussW Λ ν x) ∧
    ∫ x, (a ⬝ᵥ x + ca) * (b ⬝ᵥ x + cb) * (c ⬝ᵥ x + cc) * gaussW Λ ν x
      = (∫ x, gaussW Λ ν x)
        * wick3 (a ⬝ᵥ Λ⁻¹ *ᵥ ν + ca) (b ⬝ᵥ Λ⁻¹ *ᵥ ν + cb) (c ⬝ᵥ Λ⁻¹ *ᵥ ν + cc)
            (a ⬝ᵥ Λ⁻¹ *ᵥ b) (a ⬝ᵥ Λ⁻¹ *ᵥ c) (b ⬝ᵥ Λ⁻¹ *ᵥ c) := by
  let sg : Fin 2 → ℝ := ![1, -1]
  let T : Fin 2 × Fin 2 → n → ℝ := fun e => a + sg e.1 • b + sg e.2 • c
  let C : Fin 2 × Fin 2 → ℝ := fun e => ca + sg e.1 * cb + sg e.2 * cc
  have key : ∀ x, (a ⬝ᵥ x + ca) * (b ⬝ᵥ x + cb) * (c ⬝ᵥ x + cc) * gaussW Λ ν x
      = ∑ e : Fin 2 × Fin 2,
          (sg e.1 * sg e.2 / 24) * ((T e ⬝ᵥ x + C e) ^ 3 * gaussW Λ ν x) := by
    intro x
    simp only [Fintype.sum_prod_type, Fin.sum_univ_two, T, C, sg, Matrix.cons_val_zero,
      Matrix.cons_val_one, add_dotProduct, smul_dotProduct, smul_eq_mul]
    ring
  simp_rw [key]
  refine ⟨integrable_finsetSum _
    (fun e _ => (integrable_affine_pow_mul_gaussW hΛ ν (T e) (C e) 3).const_mul _), ?_⟩
  rw [integral_finsetSum _
    (fun e _ => (integrable_affine_pow_mul_gaussW hΛ ν (T e) (C e) 3).const_mul _)]
  simp_rw [integral_const_mul, (gaussian_affine_moments hΛ ν _ _).2.2.1]
  have hs := dotProduct_mulVec_symm (PosDef_inv_transpose hΛ)
  simp only [Fintype.sum_prod_type, Fin.sum_univ_two, T, C, sg, Matrix.cons_val_zero,
    Matrix.cons_val_one, mulVec_add, mulVec_smul, add_dotProduct, dotProduct_add, smul_dotProduct,
    dotProduct_smul, smul_eq_mul, hs b a, hs c a, hs c b, wick3]
  ring

theorem affine_four_aux {Λ : Matrix n n ℝ} (hΛ : Λ.PosDef) (ν a b c d : n → ℝ)
    (ca cb cc cd : ℝ) :
    Integrable (fun x =>
      (a ⬝ᵥ x + ca) * (b ⬝ᵥ x + cb) * (c ⬝ᵥ x + cc) * (d ⬝ᵥ x + cd) * gaussW Λ ν x) ∧
    ∫ x, (a ⬝ᵥ x + ca) * (b ⬝ᵥ x + cb) * (c ⬝ᵥ x + cc) * (d ⬝ᵥ x + cd) * gaussW Λ ν x
      = (∫ x, gaussW Λ ν x)
        * wick4 (a ⬝ᵥ Λ⁻¹ *ᵥ ν + ca) (b ⬝ᵥ Λ⁻¹ *ᵥ ν + cb) (c ⬝ᵥ Λ⁻¹ *ᵥ ν + cc)
            (d ⬝ᵥ Λ⁻¹ *ᵥ ν + cd) (a ⬝ᵥ Λ⁻¹ *ᵥ b) (a ⬝ᵥ Λ⁻¹ *ᵥ c) (a ⬝ᵥ Λ⁻¹ *ᵥ d)
            (b ⬝ᵥ Λ⁻¹ *ᵥ c) (b ⬝ᵥ Λ⁻¹ *ᵥ d) (c ⬝ᵥ Λ⁻¹ *ᵥ d) := by
  let sg : Fin 2 → ℝ := ![1, -1]
  let T : Fin 2 × Fin 2 × Fin 2 → n → ℝ := fun e => a + sg e.1 • b + sg e.2.1 • c + sg e.2.2 • d
  let C : Fin 2 × Fin 2 × Fin 2 → ℝ := fun e => ca + sg e.1 * cb + sg e.2.1 * cc + sg e.2.2 * cd
  have key : ∀ x,
      (a ⬝ᵥ x + ca) * (b ⬝ᵥ x + cb) * (c ⬝ᵥ x + cc) * (d ⬝ᵥ x + cd) * gaussW Λ ν x
      = ∑ e : Fin 2 × Fin 2 × Fin 2,
          (sg e.1 * sg e.2.1 * sg e.2.2 / 192) * ((T e ⬝ᵥ x + C e) ^ 4 * gaussW Λ ν x) := by
    intro x
    simp only [Fintype.sum_prod_type, Fin.sum_univ_two, T, C, sg, Matrix.cons_val_zero,
      Matrix.cons_val_one, add_dotProduct, smul_dotProduct, smul_eq_mul]
    ring
  simp_rw [key]
  refine ⟨integrable_finsetSum _
    (fun e _ => (integrable_affine_pow_mul_gaussW hΛ ν (T e) (C e) 4).const_mul _), ?_⟩
  rw [integral_finsetSum _
    (fun e _ => (integrable_affine_pow_mul_gaussW hΛ ν (T e) (C e) 4).const_mul _)]
  simp_rw [integral_const_mul, (gaussian_affine_moments hΛ ν _ _).2.2.2]
  have hs := dotProduct_mulVec_symm (PosDef_inv_transpose hΛ)
  simp only [Fintype.sum_prod_type, Fin.sum_univ_two, T, C, sg, Matrix.cons_val_zero,
    Matrix.cons_val_one, mulVec_add, mulVec_smul, add_dotProduct, dotProduct_add, smul_dotProduct,
    dotProduct_smul, smul_eq_mul, hs b a, hs c a, hs d a, hs c b, hs d b, hs d c, wick4]
  ring

/-- second mixed moment of two affine functions -/
theorem affine_two {Λ : Matrix n n ℝ} (hΛ : Λ.PosDef) (ν a b : n → ℝ) (ca cb : ℝ) :
    ∫ x, (a ⬝ᵥ x + ca) * (b ⬝ᵥ x + cb) * gaussW Λ ν x
      = (∫ x, gaussW Λ ν x)
        * wick2 (a ⬝ᵥ Λ⁻¹ *ᵥ ν + ca) (b ⬝ᵥ Λ⁻¹ *ᵥ ν + cb) (a ⬝ᵥ Λ⁻¹ *ᵥ b) :=
  (affine_two_aux hΛ ν a b ca cb).2

/-- third mixed moment of three affine functions -/
theorem affine_three {Λ : Matrix n n ℝ} (hΛ : Λ.PosDef) (ν a b c : n → ℝ) (ca cb cc : ℝ) :
    ∫ x, (a ⬝ᵥ x + ca) * (b ⬝ᵥ x + cb) * (c ⬝ᵥ x + cc) * gaussW Λ ν x
      = (∫ x, gaussW Λ ν x)
        * wick3 (a ⬝ᵥ Λ⁻¹ *ᵥ ν + ca) (b ⬝ᵥ Λ⁻¹ *ᵥ ν + cb) (c ⬝ᵥ Λ⁻¹ *ᵥ ν + cc)
            (a ⬝ᵥ Λ⁻¹ *ᵥ b) (a ⬝ᵥ Λ⁻¹ *ᵥ c) (b ⬝ᵥ Λ⁻¹ *ᵥ c) :=
  (affine_three_aux hΛ ν a b c ca cb cc).2

/-- fourth mixed moment of four affine functions (Isserlis/Wick with non-zero means) -/
theorem affine_four {Λ : Matrix n n ℝ} (hΛ : Λ.PosDef) (ν a b c d : n → ℝ) (ca cb cc cd : ℝ) :
    ∫ x, (a ⬝ᵥ x + ca) * (b ⬝ᵥ x + cb) * (c ⬝ᵥ x + cc) * (d ⬝ᵥ x + cd) * gaussW Λ ν x
      = (∫ x, gaussW Λ ν x)
        * wick4 (a ⬝ᵥ Λ⁻¹ *ᵥ ν + ca) (b ⬝ᵥ Λ⁻¹ *ᵥ ν + cb) (c ⬝ᵥ Λ⁻¹ *ᵥ ν + cc)
            (d ⬝ᵥ Λ⁻¹ *ᵥ ν + cd) (a ⬝ᵥ Λ⁻¹ *ᵥ b) (a ⬝ᵥ Λ⁻¹ *ᵥ c) (a ⬝ᵥ Λ⁻¹ *ᵥ d)
            (b ⬝ᵥ Λ⁻¹ *ᵥ c) (b ⬝ᵥ Λ⁻¹ *ᵥ d) (c ⬝ᵥ Λ⁻¹ *ᵥ d) :=
  (affine_four_aux hΛ ν a b c d ca cb cc cd).2

end affine

variable {R D K L M : Nat}

/-! ## the view after `integral()` -/

/-- what the view `(mass, mu, Sigma)` must be for the measure `m` -/
structure IntViewOK (m : MeasureB R D ℝ) (v : IntV R D ℝ) : Prop where
  mass : ∀ r, v.mass r = ∫ x : Fin D → ℝ, Real.exp (m.evalLn r (ofV x))
  mu : ∀ r, toV (v.mu r) = (toM (m.Lambda r))⁻¹ *ᵥ toV (m.nu r)
  Sigma : ∀ r, toM (v.Sigma r) = (toM (m.Lambda r))⁻¹
  symm : ∀ r i j, v.Sigma r i j = v.Sigma r j i

theorem intView_eq {be : Backend ℝ} {m : MeasureB R D ℝ} (c : Cov R D ℝ) (mu : Arr R (Vec D ℝ))
    (hc : (m.prepare be).cov = some c) (hm : (m.prepare be).mu = some mu) :
    (m.intView be).2 = ⟨(m.integral be).2, mu, c.Sigma⟩ := by
  simp only [MeasureB.intView, MeasureB.integral, MeasureB.logIntegral, hc, hm]

/-- **item 1**: after `integral()` the view holds the true mass, mean `Λ⁻¹ν` and covariance `Λ⁻¹` -/
theorem intView_spec {be : Backend ℝ} (hbe : be.Spec) {m : MeasureB R D ℝ} (h : m.Inv) :
    IntViewOK m (m.intView be).2 := by
  have hp := inv_prepare (be := be) hbe h
  have hmu : (m.prepare be).mu.isSome := C02.ensureMu_mu_isSome
  have hcov : (m.prepare be).cov.isSome := hp.covOfMu hmu
  cases hc : (m.prepare be).cov with
  | none => simp [hc] at hcov
  | some c =>
    cases hm : (m.prepare be).mu with
    | none => simp [hm] at hmu
    | some mu =>
      rw [intView_eq c mu hc hm]
      have hS : ∀ r, toM (c.Sigma r) = (toM (m.Lambda r))⁻¹ := fun r => by
        rw [(hp.cov c hc r).inv, prepare_Lambda]
      refine ⟨fun r => C02.C02_integral hbe h r, fun r => ?_, hS, fun r i j => ?_⟩
      · have := hp.mu mu hm r
        rwa [prepare_Lambda, prepare_nu] at this
      · have ht := PosDef_inv_transpose (h.posDef r)
        rw [← hS r] at ht
        have := congrFun (congrFun ht i) j
        simpa using this.symm

/-- **item 2**: the evaluated function is `β` times the Gaussian weight -/
theorem exp_evalLn_eq (m : MeasureB R D ℝ) (r : Fin R) (x : Fin D → ℝ) :
    Real.exp (m.evalLn r (ofV x))
      = Real.exp (m.lnBeta r) * gaussW (toM (m.Lambda r)) (toV (m.nu r)) x := by
  rw [C02.evalLn_eq, Real.exp_add, gaussW_apply, mul_comm]

theorem IntViewOK.mass_eq {m : MeasureB R D ℝ} {v : IntV R D ℝ} (hv : IntViewOK m v) (r : Fin R) :
    v.mass r = Real.exp (m.lnBeta r) * ∫ x, gaussW (toM (m.Lambda r)) (toV (m.nu r)) x := by
  rw [hv.mass r]
  simp_rw [exp_evalLn_eq]
  rw [integral_const_mul]

/-! ## scalar affine functions -/

/-- row `i` of the affine form `f` of component `r`, evaluated at `x` -/
def affFn (f : AffForm R K D ℝ) (r : Fin R) (i : Fin K) (x : Fin D → ℝ) : ℝ :=
  (toM (f.A r) *ᵥ x + toV (f.a r)) i

/-- **item 3**: it is `a_i ⬝ᵥ x + c_i` -/
theorem affFn_eq (f : AffForm R K D ℝ) (r : Fin R) (i : Fin K) (x : Fin D → ℝ) :
    affFn f r i x = toM (f.A r) i ⬝ᵥ x + f.a r i := rfl

theorem affFn_default (r : Fin R) (i : Fin D) (x : Fin D → ℝ) :
    affFn (getDefault none none : AffForm R D D ℝ) r i x = x i := by
  simp only [affFn_eq, dotProduct, toM_apply, getDefault_none_A, getDefault_none_a, add_zero,
    Fin.val_inj, ite_mul, one_mul, zero_mul, Finset.sum_ite_eq, Finset.mem_univ, if_true]

theorem mean_eq (v : IntV R D ℝ) (f : AffForm R K D ℝ) (r : Fin R) (i : Fin K) :
    mean v f r i = toM (f.A r) i ⬝ᵥ toV (v.mu r) + f.a r i := rfl

theorem cov_eq (v : IntV R D ℝ) (f : AffForm R K D ℝ) (g : AffForm R L D ℝ) (r : Fin R)
    (i : Fin K) (j : Fin L) :
    cov v f g r i j = toM (f.A r) i ⬝ᵥ toM (v.Sigma r) *ᵥ toM (g.A r) j := by
  simp only [cov, covR, dotProduct, Matrix.mulVec, toM_apply, Finset.mul_sum, mul_assoc]

section moments
variable {m : MeasureB R D ℝ} {v : IntV R D ℝ} {K1 K2 K3 K4 : Nat}

theorem integrable_mom0 (hm : m.Inv) (r : Fin R) :
    Integrable fun x : Fin D → ℝ => Real.exp (m.evalLn r (ofV x)) := by
  simp_rw [exp_evalLn_eq]
  exact (integrable_gaussW (hm.posDef r) _).const_mul _

theorem mom1_aux (hm : m.Inv) (hv : IntViewOK m v) (f : AffForm R K1 D ℝ) (r : Fin R)
    (i : Fin K1) :
    Integrable (fun x : Fin D → ℝ => affFn f r i x * Real.exp (m.evalLn r (ofV x))) ∧
    ∫ x : Fin D → ℝ, affFn f r i x * Real.exp (m.evalLn r (ofV x))
      = v.mass r * mean v f r i := by
  have e : ∀ x : Fin D → ℝ, affFn f r i x * Real.exp (m.evalLn r (ofV x))
      = Real.exp (m.lnBeta r) * ((toM (f.A r) i ⬝ᵥ x + f.a r i)
          * gaussW (toM (m.Lambda r)) (toV (m.nu r)) x) := by
    intro x; rw [exp_evalLn_eq, affFn_eq]; ring
  simp_rw [e]
  refine ⟨(integrable_affine_one (hm.posDef r) _ _ _).const_mul _, ?_⟩
  rw [integral_const_mul, affine_one (hm.posDef r), hv.mass_eq, mean_eq, hv.mu, mul_assoc]

theorem mom2_aux (hm : m.Inv) (hv : IntViewOK m v) (f : AffForm R K1 D ℝ) (g : AffForm R K2 D ℝ)
    (r : Fin R) (i : Fin K1) (j : Fin K2) :
    Integrable (fun x : Fin D → ℝ =>
      affFn f r i x * affFn g r j x * Real.exp (m.evalLn r (ofV x))) ∧
    ∫ x : Fin D → ℝ, affFn f r i x * affFn g r j x * Real.exp (m.evalLn r (ofV x))
      = v.mass r * wick2 (mean v f r i) (mean v g r j) (cov v f g r i j) := by
  have e : ∀ x : Fin D → ℝ, affFn f r i x * affFn g r j x * Real.exp (m.evalLn r (ofV x))
      = Real.exp (m.lnBeta r) * ((toM (f.A r) i ⬝ᵥ x + f.a r i) * (toM (g.A r) j ⬝ᵥ x + g.a r j)
          * gaussW (toM (m.Lambda r)) (toV (m.nu r)) x) := by
    intro x; rw [exp_evalLn_eq, affFn_eq, affFn_eq]; ring
  simp_rw [e]
  have h := affine_two_aux (hm.posDef r) (toV (m.nu r)) (toM (f.A r) i) (toM (g.A r) j)
    (f.a r i) (g.a r j)
  refine ⟨h.1.const_mul _, ?_⟩
  rw [integral_const_mul, h.2, hv.mass_eq]
  simp only [mean_eq, cov_eq, hv.mu, hv.Sigma, mul_assoc]

theorem mom3_aux (hm : m.Inv) (hv : IntViewOK m v) (f : AffForm R K1 D ℝ) (g : AffForm R K2 D ℝ)
    (h : AffForm R K3 D ℝ) (r : Fin R) (i : Fin K1) (j : Fin K2) (k : Fin K3) :
    Integrable (fun x : Fin D → ℝ =>
      affFn f r i x * affFn g r j x * affFn h r k x * Real.exp (m.evalLn r (ofV x))) ∧
    ∫ x : Fin D → ℝ, affFn f r i x * affFn g r j x * affFn h r k x
        * Real.exp (m.evalLn r (ofV x))
      = v.mass r * wick3 (mean v f r i) (mean v g r j) (mean v h r k) (cov v f g r i j)
          (cov v f h r i k) (cov v g h r j k) := by
  have e : ∀ x : Fin D → ℝ, affFn f r i x * affFn g r j x * affFn h r k x
        * Real.exp (m.evalLn r (ofV x))
      = Real.exp (m.lnBeta r) * ((toM (f.A r) i ⬝ᵥ x + f.a r i) * (toM (g.A r) j ⬝ᵥ x + g.a r j)
          * (toM (h.A r) k ⬝ᵥ x + h.a r k) * gaussW (toM (m.Lambda r)) (toV (m.nu r)) x) := by
    intro x; rw [exp_evalLn_eq, affFn_eq, affFn_eq, affFn_eq]; ring
  simp_rw [e]
  have h := affine_three_aux (hm.posDef r) (toV (m.nu r)) (toM (f.A r) i) (toM (g.A r) j)
    (toM (h.A r) k) (f.a r i) (g.a r j) (h.a r k)
  refine ⟨h.1.const_mul _, ?_⟩
  rw [integral_const_mul, h.2, hv.mass_eq]
  simp only [mean_eq, cov_eq, hv.mu, hv.Sigma, mul_assoc]

theorem mom4_aux (hm : m.Inv) (hv : IntViewOK m v) (f : AffForm R K1 D ℝ) (g : AffForm R K2 D ℝ)
    (h : AffForm R K3 D ℝ) (e : AffForm R K4 D ℝ) (r : Fin R) (i : Fin K1) (j : Fin K2)
    (k : Fin K3) (l : Fin K4) :
    Integrable (fun x : Fin D → ℝ => affFn f r i x * affFn g r j x * affFn h r k x
      * affFn e r l x * Real.exp (m.evalLn r (ofV x))) ∧
    ∫ x : Fin D → ℝ, affFn f r i x * affFn g r j x * affFn h r k x * affFn e r l x
        * Real.exp (m.evalLn r (ofV x))
      = v.mass r * wick4 (mean v f r i) (mean v g r j) (mean v h r k) (mean v e r l)
          (cov v f g r i j) (cov v f h r i k) (cov v f e r i l) (cov v g h r j k)
          (cov v g e r j l) (cov v h e r k l) := by
  have e' : ∀ x : Fin D → ℝ, affFn f r i x * affFn g r j x * affFn h r k x * affFn e r l x
        * Real.exp (m.evalLn r (ofV x))
      = Real.exp (m.lnBeta r) * ((toM (f.A r) i ⬝ᵥ x + f.a r i) * (toM (g.A r) j ⬝ᵥ x + g.a r j)
          * (toM (h.A r) k ⬝ᵥ x + h.a r k) * (toM (e.A r) l ⬝ᵥ x + e.a r l)
          * gaussW (toM (m.Lambda r)) (toV (m.nu r)) x) := by
    intro x; rw [exp_evalLn_eq, affFn_eq, affFn_eq, affFn_eq, affFn_eq]; ring
  simp_rw [e']
  have h := affine_four_aux (hm.posDef r) (toV (m.nu r)) (toM (f.A r) i) (toM (g.A r) j)
    (toM (h.A r) k) (toM (e.A r) l) (f.a r i) (g.a r j) (h.a r k) (e.a r l)
  refine ⟨h.1.const_mul _, ?_⟩
  rw [integral_const_mul, h.2, hv.mass_eq]
  simp only [mean_eq, cov_eq, hv.mu, hv.Sigma, mul_assoc]

end moments

/-! ## the property theorems -/

theorem affFn_def (f : AffForm R K D ℝ) (r : Fin R) (i : Fin K) (x : Fin D → ℝ) :
    (toM (f.A r) *ᵥ x + toV (f.a r)) i = affFn f r i x := rfl

section keys
variable {be : Backend ℝ} (hbe : be.Spec) {m : MeasureB R D ℝ} (hm : m.Inv)
include hbe hm

/-- key `"1"` -/
theorem C03_mass (r : Fin R) :
    (m.intView be).2.mass r = ∫ x : Fin D → ℝ, Real.exp (m.evalLn r (ofV x)) :=
  (intView_spec hbe hm).mass r

/-- key `"x"` -/
theorem C03_x (r : Fin R) (i : Fin D) :
    (m.intView be).2.integrateX r i = ∫ x : Fin D → ℝ, x i * Real.exp (m.evalLn r (ofV x)) := by
  have hv := intView_spec hbe hm
  generalize (m.intView be).2 = v at hv ⊢
  have h := (mom1_aux hm hv (getDefault none none : AffForm R D D ℝ) r i).2
  simp only [affFn_default, mean_default] at h
  rw [C03_alg_x, h]

/-- key `"Ax+a"` -/
theorem C03_linear (f : AffForm R K D ℝ) (r : Fin R) (i : Fin K) :
    ((m.intView be).2.integrateLinear f) r i
      = ∫ x : Fin D → ℝ, (toM (f.A r) *ᵥ x + toV (f.a r)) i * Real.exp (m.evalLn r (ofV x)) := by
  have hv := intView_spec hbe hm
  generalize (m.intView be).2 = v at hv ⊢
  rw [C03_alg_linear_integrate]
  exact (mom1_aux hm hv f r i).2.symm

/-- key `"xx'"` -/
theorem C03_xxT (r : Fin R) (i j : Fin D) :
    (m.intView be).2.integrateXXT r i j
      = ∫ x : Fin D → ℝ, x i * x j * Real.exp (m.evalLn r (ofV x)) := by
  have hv := intView_spec hbe hm
  generalize (m.intView be).2 = v at hv ⊢
  have h := (mom2_aux hm hv (getDefault none none : AffForm R D D ℝ)
    (getDefault none none : AffForm R D D ℝ) r i j).2
  simp only [affFn_default, mean_default, cov_default] at h
  rw [C03_alg_xxT_integrate, h]

/-- key `"(Ax+a)'(Bx+b)"` -/
theorem C03_quad_inner (f g : AffForm R K D ℝ) (r : Fin R) :
    ((m.intView be).2.integrateQuadInner f g) r
      = ∫ x : Fin D → ℝ, (∑ i, (toM (f.A r) *ᵥ x + toV (f.a r)) i
          * (toM (g.A r) *ᵥ x + toV (g.a r)) i) * Real.exp (m.evalLn r (ofV x)) := by
  have hv := intView_spec hbe hm
  generalize (m.intView be).2 = v at hv ⊢
  rw [C03_alg_quad_inner_integrate v hv.symm]
  simp only [affFn_def, Finset.sum_mul]
  rw [integral_finsetSum _ (fun i _ => (mom2_aux hm hv f g r i i).1), Finset.mul_sum]
  exact (Finset.sum_congr rfl fun i _ => (mom2_aux hm hv f g r i i).2).symm

/-- key `"(Ax+a)(Bx+b)'"` -/
theorem C03_quad_outer (f : AffForm R K D ℝ) (g : AffForm R L D ℝ) (r : Fin R) (i : Fin K)
    (j : Fin L) :
    ((m.intView be).2.integrateQuadOuter f g) r i j
      = ∫ x : Fin D → ℝ, (toM (f.A r) *ᵥ x + toV (f.a r)) i
          * (toM (g.A r) *ᵥ x + toV (g.a r)) j * Real.exp (m.evalLn r (ofV x)) := by
  have hv := intView_spec hbe hm
  generalize (m.intView be).2 = v at hv ⊢
  rw [C03_alg_quad_outer_integrate]
  exact (mom2_aux hm hv f g r i j).2.symm

/-- key `"(Ax+a)(Bx+b)'(Cx+c)"` -/
theorem C03_cubic_inner (f : AffForm R K D ℝ) (g h : AffForm R L D ℝ) (r : Fin R) (i : Fin K) :
    ((m.intView be).2.integrateCubicInner f g h) r i
      = ∫ x : Fin D → ℝ, (∑ l, (toM (f.A r) *ᵥ x + toV (f.a r)) i
          * (toM (g.A r) *ᵥ x + toV (g.a r)) l * (toM (h.A r) *ᵥ x + toV (h.a r)) l)
          * Real.exp (m.evalLn r (ofV x)) := by
  have hv := intView_spec hbe hm
  generalize (m.intView be).2 = v at hv ⊢
  rw [C03_alg_cubic_inner_integrate]
  simp only [affFn_def, Finset.sum_mul]
  rw [integral_finsetSum _ (fun l _ => (mom3_aux hm hv f g h r i l l).1), Finset.mul_sum]
  exact (Finset.sum_congr rfl fun l _ => (mom3_aux hm hv f g h r i l l).2).symm

/-- key `"(Ax+a)'(Bx+b)(Cx+c)'"` -/
theorem C03_cubic_outer (f g : AffForm R K D ℝ) (h : AffForm R L D ℝ) (r : Fin R) (j : Fin L) :
    ((m.intView be).2.integrateCubicOuterG f g h) r j
      = ∫ x : Fin D → ℝ, (∑ i, (toM (f.A r) *ᵥ x + toV (f.a r)) i
          * (toM (g.A r) *ᵥ x + toV (g.a r)) i * (toM (h.A r) *ᵥ x + toV (h.a r)) j)
          * Real.exp (m.evalLn r (ofV x)) := by
  have hv := intView_spec hbe hm
  generalize (m.intView be).2 = v at hv ⊢
  rw [C03_alg_cubic_outer_integrate]
  simp only [affFn_def, Finset.sum_mul]
  rw [integral_finsetSum _ (fun i _ => (mom3_aux hm hv f g h r i i j).1), Finset.mul_sum]
  exact (Finset.sum_congr rfl fun i _ => (mom3_aux hm hv f g h r i i j).2).symm

/-- key `"xb'xx'"` -/
theorem C03_xbxx (b : Arr R (Vec D ℝ)) (r : Fin R) (i j : Fin D) :
    ((m.intView be).2.integrateXbxx b) r i j
      = ∫ x : Fin D → ℝ, x i * (toV (b r) ⬝ᵥ x) * x j * Real.exp (m.evalLn r (ofV x)) := by
  have hv := intView_spec hbe hm
  generalize (m.intView be).2 = v at hv ⊢
  let d : AffForm R D D ℝ := getDefault none none
  have e : ∀ x : Fin D → ℝ, x i * (toV (b r) ⬝ᵥ x) * x j * Real.exp (m.evalLn r (ofV x))
      = ∑ k, b r k * (affFn d r i x * affFn d r k x * affFn d r j x
          * Real.exp (m.evalLn r (ofV x))) := by
    intro x
    simp only [d, affFn_default, dotProduct, toV_apply, Finset.mul_sum, Finset.sum_mul]
    exact Finset.sum_congr rfl fun k _ => by ring
  simp_rw [e]
  rw [integral_finsetSum _ (fun k _ => (mom3_aux hm hv d d d r i k j).1.const_mul _),
    C03_alg_xbxx_integrate]
  simp only [integral_const_mul, (mom3_aux hm hv d d d r i _ j).2, d, mean_default, cov_default,
    Finset.mul_sum]
  exact Finset.sum_congr rfl fun k _ => by ring

/-- key `"x(A'x+a)x'"` -/
theorem C03_cubic_outer_x (A : Arr R (Vec D ℝ)) (a : Arr R ℝ) (r : Fin R) (i j : Fin D) :
    ((m.intView be).2.integrateCubicOuter A a) r i j
      = ∫ x : Fin D → ℝ, x i * (toV (A r) ⬝ᵥ x + a r) * x j
          * Real.exp (m.evalLn r (ofV x)) := by
  have hv := intView_spec hbe hm
  generalize (m.intView be).2 = v at hv ⊢
  let d : AffForm R D D ℝ := getDefault none none
  have e : ∀ x : Fin D → ℝ, x i * (toV (A r) ⬝ᵥ x + a r) * x j * Real.exp (m.evalLn r (ofV x))
      = (∑ k, A r k * (affFn d r i x * affFn d r k x * affFn d r j x
          * Real.exp (m.evalLn r (ofV x))))
        + a r * (affFn d r i x * affFn d r j x * Real.exp (m.evalLn r (ofV x))) := by
    intro x
    simp only [d, affFn_default, dotProduct, toV_apply, Finset.mul_sum, Finset.sum_mul, mul_add,
      add_mul]
    congr 1
    · exact Finset.sum_congr rfl fun k _ => by ring
    · ring
  simp_rw [e]
  rw [integral_add (integrable_finsetSum _
      (fun k _ => (mom3_aux hm hv d d d r i k j).1.const_mul _))
      ((mom2_aux hm hv d d r i j).1.const_mul _),
    integral_finsetSum _ (fun k _ => (mom3_aux hm hv d d d r i k j).1.const_mul _),
    C03_alg_cubic_outer_x_integrate]
  simp only [integral_const_mul, (mom3_aux hm hv d d d r i _ j).2, (mom2_aux hm hv d d r i j).2, d,
    mean_default, cov_default, Finset.mul_sum, mul_add]
  congr 1
  · exact Finset.sum_congr rfl fun k _ => by ring
  · ring

/-- key `"(Ax+a)'(Bx+b)(Cx+c)'(Dx+d)"` -/
theorem C03_quartic_inner (f g : AffForm R K D ℝ) (h e : AffForm R L D ℝ) (r : Fin R) :
    ((m.intView be).2.integrateQuarticInner f g h e) r
      = ∫ x : Fin D → ℝ, ((∑ i, (toM (f.A r) *ᵥ x + toV (f.a r)) i
            * (toM (g.A r) *ᵥ x + toV (g.a r)) i)
          * ∑ l, (toM (h.A r) *ᵥ x + toV (h.a r)) l * (toM (e.A r) *ᵥ x + toV (e.a r)) l)
          * Real.exp (m.evalLn r (ofV x)) := by
  have hv := intView_spec hbe hm
  generalize (m.intView be).2 = v at hv ⊢
  rw [C03_alg_quartic_inner_integrate v hv.symm]
  have e' : ∀ x : Fin D → ℝ, ((∑ i, affFn f r i x * affFn g r i x)
        * ∑ l, affFn h r l x * affFn e r l x) * Real.exp (m.evalLn r (ofV x))
      = ∑ i, ∑ l, affFn f r i x * affFn g r i x * affFn h r l x * affFn e r l x
          * Real.exp (m.evalLn r (ofV x)) := by
    intro x
    rw [Finset.sum_mul_sum]
    simp only [Finset.sum_mul, mul_assoc]
  simp only [affFn_def]
  simp_rw [e']
  rw [integral_finsetSum _ (fun i _ => integrable_finsetSum _
    (fun l _ => (mom4_aux hm hv f g h e r i i l l).1)), Finset.mul_sum]
  refine (Finset.sum_congr rfl fun i _ => ?_).symm
  rw [integral_finsetSum _ (fun l _ => (mom4_aux hm hv f g h e r i i l l).1), Finset.mul_sum]
  exact Finset.sum_congr rfl fun l _ => (mom4_aux hm hv f g h e r i i l l).2

/-- key `"(Ax+a)(Bx+b)'(Cx+c)(Dx+d)'"` -/
theorem C03_quartic_outer (f : AffForm R K D ℝ) (g h : AffForm R L D ℝ) (e : AffForm R M D ℝ)
    (r : Fin R) (i : Fin K) (j : Fin M) :
    ((m.intView be).2.integrateQuarticOuter f g h e) r i j
      = ∫ x : Fin D → ℝ, (∑ l, (toM (f.A r) *ᵥ x + toV (f.a r)) i
          * (toM (g.A r) *ᵥ x + toV (g.a r)) l * (toM (h.A r) *ᵥ x + toV (h.a r)) l
          * (toM (e.A r) *ᵥ x + toV (e.a r)) j) * Real.exp (m.evalLn r (ofV x)) := by
  have hv := intView_spec hbe hm
  generalize (m.intView be).2 = v at hv ⊢
  rw [C03_alg_quartic_outer_integrate]
  simp only [affFn_def, Finset.sum_mul]
  rw [integral_finsetSum _ (fun l _ => (mom4_aux hm hv f g h e r i l l j).1), Finset.mul_sum]
  exact (Finset.sum_congr rfl fun l _ => (mom4_aux hm hv f g h e r i l l j).2).symm

end keys

/-! ## non-vacuity -/

/-- The hypotheses are satisfiable: the backend of `SpecSat.lean` and a concrete measure with a
non-diagonal positive definite 2×2 precision and `ν = (1, 0)` satisfy `Spec` and `Inv`; for them
the second-moment and the quartic results of the model are the Lebesgue integrals. -/
example : ∃ (be : Backend ℝ) (m : MeasureB 1 2 ℝ), be.Spec ∧ m.Inv ∧ m.nu 0 0 = 1 ∧
    (∀ i j, (m.intView be).2.integrateXXT 0 i j
      = ∫ x : Fin 2 → ℝ, x i * x j * Real.exp (m.evalLn 0 (ofV x))) ∧
    (∀ f g h e : AffForm 1 2 2 ℝ, ((m.intView be).2.integrateQuarticInner f g h e) 0
      = ∫ x : Fin 2 → ℝ, ((∑ i, (toM (f.A 0) *ᵥ x + toV (f.a 0)) i
            * (toM (g.A 0) *ᵥ x + toV (g.a 0)) i)
          * ∑ l, (toM (h.A 0) *ᵥ x + toV (h.a 0)) l * (toM (e.A 0) *ᵥ x + toV (e.a 0)) l)
          * Real.exp (m.evalLn 0 (ofV x))) := by
  have hInv : (MeasureB.mk0 .measure (tab fun _ => ofM !![2, 1; 1, 2])
      (tab fun _ => ofV ![1, 0]) (tab fun _ => 0) : MeasureB 1 2 ℝ).Inv := by
    refine inv_mk0 _ _ _ _ ?_ (by simp [MCls.isDiag])
    intro r
    simp only [tab_apply, toM_ofM]
    apply Matrix.PosDef.of_dotProduct_mulVec_pos
    · ext i j; fin_cases i <;> fin_cases j <;> simp
    · intro x hx
      have hx' : x 0 ≠ 0 ∨ x 1 ≠ 0 := by
        by_contra hcon
        push Not at hcon
        apply hx
        ext i; fin_cases i <;> simp [hcon.1, hcon.2]
      simp only [dotProduct, Matrix.mulVec, Fin.sum_univ_two, star_trivial, Matrix.of_apply,
        Matrix.cons_val', Matrix.cons_val_zero, Matrix.cons_val_one, Matrix.cons_val_fin_one]
      rcases hx' with h0 | h1
      · nlinarith [sq_nonneg (x 0 + x 1), sq_pos_of_ne_zero h0, sq_nonneg (x 1)]
      · nlinarith [sq_nonneg (x 0 + x 1), sq_pos_of_ne_zero h1, sq_nonneg (x 0)]
  exact ⟨Backend.sat, _, Backend.sat_spec, hInv, by simp [MeasureB.mk0, ofV],
    fun i j => C03_xxT Backend.sat_spec hInv 0 i j,
    fun f g h e => C03_quartic_inner Backend.sat_spec hInv f g h e 0⟩

end GT.Props.C03

#print axioms GT.Props.C03.intView_spec
#print axioms GT.Props.C03.exp_evalLn_eq
#print axioms GT.Props.C03.affine_one
#print axioms GT.Props.C03.affine_two
#print axioms GT.Props.C03.affine_three
#print axioms GT.Props.C03.affine_four
#print axioms GT.Props.C03.C03_mass
#print axioms GT.Props.C03.C03_x
#print axioms GT.Props.C03.C03_linear
#print axioms GT.Props.C03.C03_xxT
#print axioms GT.Props.C03.C03_quad_inner
#print axioms GT.Props.C03.C03_quad_outer
#print axioms GT.Props.C03.C03_cubic_inner
#print axioms GT.Props.C03.C03_cubic_outer
#print axioms GT.Props.C03.C03_xbxx
#print axioms GT.Props.C03.C03_cubic_outer_x
#print axioms GT.Props.C03.C03_quartic_inner
#print axioms GT.Props.C03.C03_quartic_outer
