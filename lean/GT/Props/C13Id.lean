import GT.Props.C13
import GT.Props.C15
import GT.Props.C09
/-!
# C13 for the identity-mean classes — `conditional_entropy`, `mutual_information`; symmetry of `I`

`c : CondIdB Rc D ℝ` (`p(y|x) = N(y; x, Σy)`, full or diagonal class), prior view `p : PdfV Rx D ℝ`
(`PdfOK p`), component `k` pairs conditional `unflatL k` with prior `unflatR k`:

* `C13Id_conditional_entropy`: `H(Y|X) = ½ (D (1 + log 2π) + log det Σy)` — the entropy of the noise;
* `C13Id_conditional_entropy_def`: it is `H(X,Y) − H(X)` of the model's joint and prior;
* `C13Id_mutual_information`: `I = ½ (log det (Σy + Σx) − log det Σy)`;
* `C13Id_mutual_information_def`: `I = H(X) + H(Y) − H(X,Y)` (entropies of the model objects);
* `C13Id_mi_nonneg`, `C13Id_mi_add_conditional_entropy` (`I + H(Y|X) = H(Y)`).

For **both** families: the mutual information is symmetric under the conditional transformation,
`I(X;Y)` computed from `(p(y|x), p(x))` equals the one computed from `(p(x|y), p(y))`
(`C13_mi_symm`, `C13_mi_symm_model`, `C13Id_mi_symm`, `C13Id_mi_symm_model`) — stated for every
batch regime (component `k` of the forward result against the component of the backward result that
pairs posterior `k` with the marginal of `k`; `Rc = Rx = 1` is the special case `k = 0`).
-/
namespace GT.Props.C13Id
open GT Matrix

variable {Rc Rx D Dx Dy : Nat}

/-! ## pure mathematics: the reverse channel -/

section math
variable {m n : Type*} [Fintype m] [Fintype n] [DecidableEq m] [DecidableEq n]

/-- With `Λp = Λx + MᵀΛyM`, `Σp = Λp⁻¹`, `Mp = Σp MᵀΛy` (posterior) and `Σm = Σy + MΣxMᵀ`
(marginal): the marginal of the reverse channel `Σp + Mp Σm Mpᵀ` is the prior covariance `Σx`. -/
theorem reverse_marginal_cov (Sx Lx : Matrix m m ℝ) (Sy Ly : Matrix n n ℝ) (M : Matrix n m ℝ)
    (hx : Sx * Lx = 1) (hy : Ly * Sy = 1) (hLy : Lyᵀ = Ly) (hLx : Lxᵀ = Lx)
    (hdet : (Lx + Mᵀ * Ly * M).det ≠ 0) :
    (Lx + Mᵀ * Ly * M)⁻¹ + (Lx + Mᵀ * Ly * M)⁻¹ * (Mᵀ * Ly) * (Sy + M * Sx * Mᵀ)
      * ((Lx + Mᵀ * Ly * M)⁻¹ * (Mᵀ * Ly))ᵀ = Sx := by
  set Lp := Lx + Mᵀ * Ly * M with hLp
  have hu : IsUnit Lp.det := isUnit_iff_ne_zero.mpr hdet
  have hLpsym : Lpᵀ = Lp := by
    rw [hLp, Matrix.transpose_add, Matrix.transpose_mul, Matrix.transpose_mul,
      Matrix.transpose_transpose, hLy, hLx, Matrix.mul_assoc]
  -- `Mᵀ Λy (Σy + M Σx Mᵀ) = Λp Σx Mᵀ`
  have h1 : (Mᵀ * Ly) * (Sy + M * Sx * Mᵀ) = Lp * (Sx * Mᵀ) := by
    have hLS : Lx * Sx = 1 := mul_eq_one_comm.1 hx
    calc (Mᵀ * Ly) * (Sy + M * Sx * Mᵀ)
        = Mᵀ * (Ly * Sy) + Mᵀ * Ly * M * (Sx * Mᵀ) := by
          simp only [Matrix.mul_add, Matrix.mul_assoc]
      _ = (Lx * Sx) * Mᵀ + Mᵀ * Ly * M * (Sx * Mᵀ) := by rw [hy, hLS, Matrix.mul_one, Matrix.one_mul]
      _ = Lp * (Sx * Mᵀ) := by rw [hLp, Matrix.add_mul, Matrix.mul_assoc Lx]
  have h2 : Lp⁻¹ * (Mᵀ * Ly) * (Sy + M * Sx * Mᵀ) = Sx * Mᵀ := by
    rw [Matrix.mul_assoc, h1, ← Matrix.mul_assoc, Matrix.nonsing_inv_mul _ hu, Matrix.one_mul]
  have h3 : (Lp⁻¹ * (Mᵀ * Ly))ᵀ = Ly * M * Lp⁻¹ := by
    rw [Matrix.transpose_mul, Matrix.transpose_mul, Matrix.transpose_transpose, hLy,
      Matrix.transpose_nonsing_inv, hLpsym]
  rw [h2, h3]
  calc Lp⁻¹ + Sx * Mᵀ * (Ly * M * Lp⁻¹)
      = (Sx * Lx) * Lp⁻¹ + Sx * (Mᵀ * Ly * M) * Lp⁻¹ := by
        rw [hx, Matrix.one_mul]; simp only [Matrix.mul_assoc]
    _ = Sx * (Lp * Lp⁻¹) := by
        rw [hLp]; simp only [Matrix.mul_add, Matrix.add_mul, Matrix.mul_assoc]
    _ = Sx := by rw [Matrix.mul_nonsing_inv _ hu, Matrix.mul_one]

/-- the two expressions of the mutual information agree:
`det (Σy + MΣxMᵀ) / det Σy = det Σx · det (Λx + MᵀΛyM)` (Sylvester's determinant identity). -/
theorem det_forward_eq_backward (Sx Lx : Matrix m m ℝ) (Sy Ly : Matrix n n ℝ) (M : Matrix n m ℝ)
    (hx : Sx * Lx = 1) (hy : Sy * Ly = 1) :
    (Sy + M * Sx * Mᵀ).det = Sy.det * (Sx.det * (Lx + Mᵀ * Ly * M).det) := by
  have h1 : Sy + M * Sx * Mᵀ = Sy * (1 + (Ly * M) * (Sx * Mᵀ)) := by
    rw [Matrix.mul_add, Matrix.mul_one]
    congr 1
    calc M * Sx * Mᵀ = (Sy * Ly) * (M * Sx * Mᵀ) := by rw [hy, Matrix.one_mul]
      _ = Sy * (Ly * M * (Sx * Mᵀ)) := by simp only [Matrix.mul_assoc]
  have h2 : Sx * (Lx + Mᵀ * Ly * M) = 1 + (Sx * Mᵀ) * (Ly * M) := by
    rw [Matrix.mul_add, hx]; simp only [Matrix.mul_assoc]
  rw [h1, Matrix.det_mul, Matrix.det_one_add_mul_comm, ← h2, Matrix.det_mul]

end math

/-! ## the identity-mean classes -/

@[simp] theorem toCond_M {R : Nat} (c : CondIdB R D ℝ) (r : Fin R) : toM (c.toCond.M r) = 1 := by
  simp only [CondIdB.toCond, tab_apply, toM_eye]

@[simp] theorem toCond_Sigma {R : Nat} (c : CondIdB R D ℝ) : c.toCond.Sigma = c.Sigma := rfl

variable {be : Backend ℝ} (hbe : be.Spec)
include hbe

/-- **C13, identity classes** `conditional_entropy(p_x)` is the entropy of the noise `N(0, Σy)`:
`H(Y|X) = ½ (D (1 + log 2π) + log det Σy)`. -/
theorem C13Id_conditional_entropy (c : CondIdB Rc D ℝ) (hc : C07.CondIdOK c) (p : PdfV Rx D ℝ)
    (hp : PdfOK p) :
    ∃ h, c.conditionalEntropy be p = some h ∧
      ∀ k, h k = 1 / 2 * ((D : ℝ) * (1 + Real.log (2 * Real.pi))
        + Real.log (toM (c.Sigma (unflatL k))).det) := by
  rw [C15.C15_identity_conditionalEntropy c hc p]
  exact C13.C13_conditional_entropy hbe c.toCond hc p hp

omit hbe in
/-- **C13, identity classes** by construction `conditional_entropy = H(X,Y) − H(X)`, the entropies
of the joint `affine_joint_transformation(p_x)` and of the prior (no hypothesis). -/
theorem C13Id_conditional_entropy_def (c : CondIdB Rc D ℝ) (p : PdfV Rx D ℝ) :
    ∃ j : PdfV (Rc * Rx) (D + D) ℝ, (c.affineJoint be p).asPdf = some j ∧
      c.conditionalEntropy be p = some (tab fun k => j.entropy k - p.entropy (unflatR k)) := by
  obtain ⟨j, hj⟩ : ∃ j, (c.affineJoint be p).asPdf = some j := by
    unfold CondIdB.affineJoint; exact mkPdf_asPdf_isSome be _ _ _ _ _
  exact ⟨j, hj, by simp only [CondIdB.conditionalEntropy, hj]⟩

/-- **C13, identity classes** `mutual_information(p_x) = ½ (log det (Σy + Σx) − log det Σy)`. -/
theorem C13Id_mutual_information (c : CondIdB Rc D ℝ) (hc : C07.CondIdOK c) (p : PdfV Rx D ℝ)
    (hp : PdfOK p) :
    ∃ i, c.mutualInformation be p = some i ∧
      ∀ k, i k = 1 / 2 * (Real.log (toM (c.Sigma (unflatL k)) + toM (p.Sigma (unflatR k))).det
        - Real.log (toM (c.Sigma (unflatL k))).det) := by
  rw [C15.C15_identity_mutualInformation c hc p]
  obtain ⟨i, hi, hv⟩ := C13.C13_mutual_information hbe c.toCond hc p hp
  refine ⟨i, hi, fun k => ?_⟩
  rw [hv k]
  simp only [toCond_M, toCond_Sigma, Matrix.transpose_one, Matrix.one_mul, Matrix.mul_one]

omit hbe in
/-- **C13, identity classes** by construction `I = H(X) + H(Y) − H(X,Y)` with the entropies of the
model's prior, marginal (`affine_marginal_transformation`) and joint (no hypothesis). -/
theorem C13Id_mutual_information_def (c : CondIdB Rc D ℝ) (p : PdfV Rx D ℝ) :
    ∃ (j : PdfV (Rc * Rx) (D + D) ℝ) (py : PdfV (Rc * Rx) D ℝ) (i : Arr (Rc * Rx) ℝ),
      (c.affineJoint be p).asPdf = some j ∧ (c.affineMarginal be p).asPdf = some py ∧
      c.mutualInformation be p = some i ∧
      ∀ k, i k = p.entropy (unflatR k) + py.entropy k - j.entropy k := by
  obtain ⟨j, hj, hce⟩ := C13Id_conditional_entropy_def (be := be) c p
  obtain ⟨py, hpy⟩ : ∃ py, (c.affineMarginal be p).asPdf = some py := by
    unfold CondIdB.affineMarginal; exact mkPdf_asPdf_isSome be _ _ _ _ _
  refine ⟨j, py, tab fun k => py.entropy k - (j.entropy k - p.entropy (unflatR k)), hj, hpy,
    by simp only [CondIdB.mutualInformation, hce, hpy, tab_apply], fun k => ?_⟩
  simp only [tab_apply]
  ring

/-- **C13, identity classes** the mutual information is non-negative. -/
theorem C13Id_mi_nonneg (c : CondIdB Rc D ℝ) (hc : C07.CondIdOK c) (p : PdfV Rx D ℝ) (hp : PdfOK p)
    (i : Arr (Rc * Rx) ℝ) (hi : c.mutualInformation be p = some i) (k : Fin (Rc * Rx)) : 0 ≤ i k := by
  rw [C15.C15_identity_mutualInformation c hc p] at hi
  exact C13.C13_mi_nonneg hbe c.toCond hc p hp i hi k

/-- **C13, identity classes** `I(X;Y) + H(Y|X) = H(Y) = ½ (D (1 + log 2π) + log det (Σy + Σx))`. -/
theorem C13Id_mi_add_conditional_entropy (c : CondIdB Rc D ℝ) (hc : C07.CondIdOK c) (p : PdfV Rx D ℝ)
    (hp : PdfOK p) (i h : Arr (Rc * Rx) ℝ) (hi : c.mutualInformation be p = some i)
    (hh : c.conditionalEntropy be p = some h) (k : Fin (Rc * Rx)) :
    i k + h k = 1 / 2 * ((D : ℝ) * (1 + Real.log (2 * Real.pi))
      + Real.log (toM (c.Sigma (unflatL k)) + toM (p.Sigma (unflatR k))).det) := by
  rw [C15.C15_identity_mutualInformation c hc p] at hi
  rw [C15.C15_identity_conditionalEntropy c hc p] at hh
  have := C13.C13_mi_add_conditional_entropy hbe c.toCond hc p hp i h hi hh k
  simpa only [toCond_M, toCond_Sigma, Matrix.transpose_one, Matrix.one_mul, Matrix.mul_one] using this

/-! ## symmetry of the mutual information under the conditional transformation -/

omit hbe in
theorem pdfOK_of_full {R : Nat} {p : PdfV R D ℝ} (h : PdfFullOK p) : PdfOK p :=
  ⟨h.posDef, h.lambda, h.lnDet⟩

/-- **C13, symmetry of `I`, general class**: let `post = c.affine_conditional_transformation(p)`
(`p(x|y)`) and `py` a view whose component `unflatR k2` is the marginal `N(Mμ+b, Σy + MΣxMᵀ)` of
component `k = unflatL k2`.  Then `post.mutual_information(py)` in component `k2` equals
`c.mutual_information(p)` in component `k`. -/
theorem C13_mi_symm {Ry : Nat} (c : CondB Rc Dy Dx ℝ) (hc : C10.CondOK c) (p : PdfV Rx Dx ℝ)
    (hp : PdfFullOK p) (py : PdfV Ry Dy ℝ) (hpy : PdfOK py) (k : Fin (Rc * Rx))
    (k2 : Fin (Rc * Rx * Ry)) (hk : unflatL k2 = k)
    (hSy : toM (py.Sigma (unflatR k2)) = toM (c.Sigma (unflatL k))
      + toM (c.M (unflatL k)) * toM (p.Sigma (unflatR k)) * (toM (c.M (unflatL k)))ᵀ)
    (i : Arr (Rc * Rx) ℝ) (hi : c.mutualInformation be p = some i)
    (i' : Arr (Rc * Rx * Ry) ℝ) (hi' : (c.affineConditional be p).mutualInformation be py = some i') :
    i' k2 = i k := by
  subst hk
  have hpo := pdfOK_of_full hp
  have hpostOK := C09.C09_posterior_condOK hbe c hc p hp
  obtain ⟨i0, hi0, hv⟩ := C13.C13_mutual_information hbe c hc p hpo
  obtain ⟨i1, hi1, hv'⟩ := C13.C13_mutual_information hbe (c.affineConditional be p) hpostOK py hpy
  rw [hi] at hi0; rw [hi'] at hi1
  cases hi0; cases hi1
  rw [hv (unflatL k2), hv' k2]
  obtain ⟨hPD, -, hS, -, hM, -⟩ := C09.C09_posterior_params hbe c hc p hp (unflatL k2)
  have hLy := C09.condOK_lambda_symm hc (unflatL (unflatL k2))
  have hSyPD := hc.posDef (unflatL (unflatL k2))
  have hSxPD := hp.posDef (unflatR (unflatL k2))
  have hxx := hp.sigma_mul_lambda (unflatR (unflatL k2))
  have hyy : toM (c.Sigma (unflatL (unflatL k2))) * toM (c.Lambda (unflatL (unflatL k2))) = 1 := by
    rw [hc.lambda, Matrix.mul_nonsing_inv _ hSyPD.det_pos.ne'.isUnit]
  have hLx : (toM (p.Lambda (unflatR (unflatL k2))))ᵀ = toM (p.Lambda (unflatR (unflatL k2))) :=
    C07.posDef_transpose (hp.lambda_posDef _)
  rw [hM, hS, hSy]
  have hLp : C09.postPrec c p (unflatL k2) =
      toM (p.Lambda (unflatR (unflatL k2))) + (toM (c.M (unflatL (unflatL k2))))ᵀ
        * toM (c.Lambda (unflatL (unflatL k2))) * toM (c.M (unflatL (unflatL k2))) := rfl
  rw [hLp] at hPD ⊢
  rw [reverse_marginal_cov _ _ _ _ _ hxx (mul_eq_one_comm.1 hyy) hLy hLx hPD.det_pos.ne',
    det_forward_eq_backward _ _ _ _ _ hxx hyy, Matrix.det_nonsing_inv, Ring.inverse_eq_inv',
    Real.log_inv, Real.log_mul hSyPD.det_pos.ne' (mul_pos hSxPD.det_pos hPD.det_pos).ne',
    Real.log_mul hSxPD.det_pos.ne' hPD.det_pos.ne']
  ring

/-- **C13, symmetry of `I`, general class, model objects**: with `py` the view of
`c.affine_marginal_transformation(p)`, component `flat k k` of `post.mutual_information(py)` equals
component `k` of `c.mutual_information(p)`; for `Rc = Rx = 1` these are the only components. -/
theorem C13_mi_symm_model (c : CondB Rc Dy Dx ℝ) (hc : C10.CondOK c) (p : PdfV Rx Dx ℝ)
    (hp : PdfFullOK p) (py : PdfV (Rc * Rx) Dy ℝ) (hpy : (c.affineMarginal be p).asPdf = some py)
    (i : Arr (Rc * Rx) ℝ) (hi : c.mutualInformation be p = some i)
    (i' : Arr (Rc * Rx * (Rc * Rx)) ℝ)
    (hi' : (c.affineConditional be p).mutualInformation be py = some i') (k : Fin (Rc * Rx)) :
    i' (flat k k) = i k := by
  have hpy' := hpy
  unfold CondB.affineMarginal at hpy'
  have hOK : PdfFullOK py := by
    refine mkPdf_pdfOK hbe _ _ _ _ _ ⟨fun r => ?_, by simp, by simp, by simp⟩ hpy'
    simp only [tab_apply, toM_madd, toM_mmul, toM_transpose]
    exact C09.marginal_cov_posDef c hc p hp r
  obtain ⟨hSig, -⟩ := mkPdf_asPdf_sigma_mu _ _ _ _ _ _ hpy'
  refine C13_mi_symm hbe c hc p hp py (pdfOK_of_full hOK) k (flat k k) (unflatL_flat k k) ?_ i hi i' hi'
  rw [unflatR_flat, hSig]; simp only [tab_apply, toM_madd, toM_mmul, toM_transpose]

/-- **C13, symmetry of `I`, identity classes**: as `C13_mi_symm` with `p(y|x) = N(x, Σy)`,
marginal covariance `Σy + Σx`. -/
theorem C13Id_mi_symm {Ry : Nat} (c : CondIdB Rc D ℝ) (hc : C07.CondIdOK c) (p : PdfV Rx D ℝ)
    (hp : PdfFullOK p) (py : PdfV Ry D ℝ) (hpy : PdfOK py) (k : Fin (Rc * Rx))
    (k2 : Fin (Rc * Rx * Ry)) (hk : unflatL k2 = k)
    (hSy : toM (py.Sigma (unflatR k2)) = toM (c.Sigma (unflatL k)) + toM (p.Sigma (unflatR k)))
    (i : Arr (Rc * Rx) ℝ) (hi : c.mutualInformation be p = some i)
    (i' : Arr (Rc * Rx * Ry) ℝ) (hi' : (c.affineConditional be p).mutualInformation be py = some i') :
    i' k2 = i k := by
  rw [C15.C15_identity_mutualInformation c hc p] at hi
  rw [C15.C15_identity_affineConditional c (C15.CondIdSymm.of_ok hc) p] at hi'
  refine C13_mi_symm hbe c.toCond hc p hp py hpy k k2 hk ?_ i hi i' hi'
  simpa only [toCond_M, toCond_Sigma, Matrix.transpose_one, Matrix.one_mul, Matrix.mul_one] using hSy

/-- **C13, symmetry of `I`, identity classes, model objects** -/
theorem C13Id_mi_symm_model (c : CondIdB Rc D ℝ) (hc : C07.CondIdOK c) (p : PdfV Rx D ℝ)
    (hp : PdfFullOK p) (py : PdfV (Rc * Rx) D ℝ) (hpy : (c.affineMarginal be p).asPdf = some py)
    (i : Arr (Rc * Rx) ℝ) (hi : c.mutualInformation be p = some i)
    (i' : Arr (Rc * Rx * (Rc * Rx)) ℝ)
    (hi' : (c.affineConditional be p).mutualInformation be py = some i') (k : Fin (Rc * Rx)) :
    i' (flat k k) = i k := by
  rw [C15.C15_identity_mutualInformation c hc p] at hi
  rw [C15.C15_identity_affineConditional c (C15.CondIdSymm.of_ok hc) p] at hi'
  rw [C15.C15_identity_affineMarginal] at hpy
  exact C13_mi_symm_model hbe c.toCond hc p hp py hpy i hi i' hi' k

/-! ## non-vacuity -/

omit hbe in
/-- the hypotheses are satisfiable and the statements have content: for `x ~ N((1,−1), [[2,1],[1,2]])`
and the identity-mean conditional with noise covariance `I₂` the reported mutual information is
`½ log det [[3,1],[1,3]] = ½ log 8 > 0`. -/
example : ∃ (be : Backend ℝ) (c : CondIdB 1 2 ℝ) (p : PdfV 1 2 ℝ) (i : Arr (1 * 1) ℝ),
    be.Spec ∧ C07.CondIdOK c ∧ PdfFullOK p ∧ c.mutualInformation be p = some i ∧
      i ⟨0, by norm_num⟩ = 1 / 2 * Real.log 8 := by
  have hc : C07.CondIdOK (C07.stdCondId 1 2) := C07.stdCondId_ok 1 2
  obtain ⟨i, hi, hv⟩ := C13Id_mutual_information Backend.sat_spec (C07.stdCondId 1 2) hc examplePdf
    (pdfOK_of_full examplePdf_ok)
  refine ⟨Backend.sat, C07.stdCondId 1 2, examplePdf, i, Backend.sat_spec, hc, examplePdf_ok, hi, ?_⟩
  rw [hv]
  simp [C07.stdCondId, examplePdf, Matrix.det_fin_two]
  norm_num

end GT.Props.C13Id

section axioms
#print axioms GT.Props.C13Id.C13Id_conditional_entropy
#print axioms GT.Props.C13Id.C13Id_conditional_entropy_def
#print axioms GT.Props.C13Id.C13Id_mutual_information
#print axioms GT.Props.C13Id.C13Id_mutual_information_def
#print axioms GT.Props.C13Id.C13Id_mi_nonneg
#print axioms GT.Props.C13Id.C13Id_mi_add_conditional_entropy
#print axioms GT.Props.C13Id.C13_mi_symm
#print axioms GT.Props.C13Id.C13_mi_symm_model
#print axioms GT.Props.C13Id.C13Id_mi_symm
#print axioms GT.Props.C13Id.C13Id_mi_symm_model
end axioms
