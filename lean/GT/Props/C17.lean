import GT.Model.Hetero
import GT.Bridge.Normal
import GT.Bridge.SpecSat
import GT.Math.Bounds
import GT.Props.C01
import GT.Props.C04
import GT.Props.C03Integral
import GT.Bridge.PdfOK
import Mathlib.LinearAlgebra.Matrix.SchurComplement
/-!
# C17 — heteroscedastic conditionals: coherent `p(y|x)` and valid lower bounds

Model: `GT/Model/Hetero.lean` (`HeteroB`, `expOps`, `coshM1Ops`), `α := ℝ`, all sizes.
`HeteroOK c` is what `__post_init__` establishes (`mkHetero_ok`): `Sigma = AAᵀ` positive definite
with its inverse and log-determinant.  `Decoupled c` is `A_kᵀ(AAᵀ)⁻¹A_k = I`; it holds for square
`A` (`decoupled_of_square`, `Da = Dy`) and FAILS in general for `Da > Dy`.

## What is proved

1. **Mean / covariance** (`C17_cov`, `C17_cov_exp`, `C17_cov_coshM1`; every link, all shapes):
   `get_conditional_cov` returns `AAᵀ + A_k diag(link(Wx+w0)) A_kᵀ`, `get_conditional_mu` returns
   `Mx + b`.
2. **Precision / log-determinant, PARTIAL** (`C17_precision_partial`, `_exp`, `_coshM1`,
   `C17_precision_square`): under `Decoupled c` and `D ≥ 0` the returned `Lambda` is the inverse of
   the returned covariance and `ln_det_Sigma` its log-determinant; then `condition_on_x(x)` IS the
   density `N(y; Mx+b, Σ(x))` (`C17_conditionOnX_evalLn`).
3. **Counterexample to the full statement** (`C17_counterexample`, `cex_not_decoupled`; known
   finding `hetero-woodbury-Da>Dy`): `Dy = 1, Da = 2, Dk = 1`, `A = [[1,1]]`, `W = [[0,0]]`, exp
   link: for every backend satisfying the contract and every `x` the code returns `Sigma = 3`,
   `Lambda = 3/8 ≠ 1/3`, `ln_det_Sigma = log 4 ≠ log 3`.
4. **Lower bound** for the exp and cosh−1 links.  The chain
   `returned value = ∫ integrand·p  ≤  ∫ ln p(y|x)·p` is proved COMPLETELY, every step:
   * identification of the integrand in the model: `expKFunc_eq`, `coshKFunc_eq` (`k_func`),
     `expLbFactor_evalLn`, `coshLbFactor_evalLn`, `expPlusFactor_evalLn`, `expMinusFactor_evalLn`
     (the factors `_lower_bound_integrals` multiplies `p_x` with);
   * the two variational parameters: `get_lb_log_det` uses `ω† = √E[h²]` (`omegaDag`); the
     heteroscedastic term uses `ω*` (`omegaStar`), the result of the fixed-point `while_loop` of
     `_get_omega_star`, started at `(ω†, ω† + 1, 0)` — it RUNS (`baseGetOmegaStar_first_step`) for up to
     100 steps `ω ↦ √(quartic(ω)/quadratic(ω))`.  `ω*` is treated as an opaque iterate: everything needed
     of it is a LOOP INVARIANT (`omegaWhile_invariant`, `getOmegaStar_invariant`; no statement about the
     number of iterations or about convergence): `omegaStar_exp_cases`, `omegaStar_coshM1_cases`
     (`ω*_k ≠ 0`, or `h_k(x)·ã_kᵀ(y−Mx−b) = 0` for almost every `x` — the only way the real-number model
     of `√(quartic/quadratic)` returns `0`, through a zero moment; the floating-point code returns `0` or
     NaN there), proved from the integral form of both moments (`exp_het_integral`,
     `exp_het4_integral`, `cosh_het_integral`, `cosh_het4_integral`; `exp_update_cases`,
     `cosh_update_cases` hold for EVERY old `ω`);
   * pointwise validity for EVERY non-zero value of the variational parameters (no fixed point
     needed): `expK_ge`, `expLb_le`, `coshK_ge`, `coshLb_le` (from `GT/Math/Bounds.lean`),
     assembled in `C17_pointwise_exp`, `C17_pointwise_coshM1` (+ `_density` versions); the sharpened
     `expLb_mul_le`, `coshLb_mul_le`, `C17_pointwise_exp_or`, `C17_pointwise_coshM1_or` also cover
     `ω*_k = 0` at points with `h_k·g_k = 0` (there unit `k` contributes equally to both sides);
   * returned value = Lebesgue integral of the integrand against `p_x` (through C01, C03, C04):
     `exp_het_integral`, `cosh_het_integral`, `exp_kfunc_integral`, `cosh_kfunc_integral`,
     `homo_integral`, `C17_exp_value_eq_integral`, `C17_coshM1_value_eq_integral` — all shapes, at
     `(ω*, ω†)`;
   * monotonicity of the integral INCLUDING integrability of the true integrand
     (`expectation_mono_ae`, `expectation_mono`): `C17_lower_bound_exp_coded`,
     `C17_lower_bound_coshM1_coded` compare with the log-density built from the RETURNED precision /
     log-determinant (all shapes, also `Da > Dy`); under `Decoupled c` this is the true `E[ln p(y|x)]`:
     `C17_lower_bound_exp`, `C17_lower_bound_coshM1`, `…_model` (right-hand side written with
     `condition_on_x(x).evaluate_ln(y)`), `…'` (hypothesis `ω† ≠ 0` discharged by
     `omegaDag_ne_zero`: no unit has `w = 0` and `w0 = 0`).  The ONLY hypothesis on the variational
     parameters is `ω† ≠ 0`, as before the loop was repaired.
   Hypotheses on `p_x`: `p.toMeasure.Inv` and `∫ p = 1`; both hold for every constructed
   `GaussianPDF(Sigma, mu)` (`exists_px`).
5. **Tight at zero weights** (`C17_tight_at_zero_weights_exp`, `_coshM1` pointwise, `…_or` sharpened;
   `C17_tight_at_zero_weights_exp_model`, `_coshM1_model`, `C17_tight_at_zero_weights`): with zero
   input weights `ω† = |w0|` is the tangent point AND a fixed point of the iteration
   (`exp_update_zero_weights`, `cosh_update_zero_weights`: `quartic = w0²·quadratic`), so `ω*² = w0²`
   (`omegaStar_exp_zero_weights`, `omegaStar_coshM1_zero_weights`; or the unit's projected residual
   vanishes almost everywhere) and the returned value EQUALS the expectation.

## What is NOT proved

* the full statement for `Da > Dy` (false, item 3): there the bound is a bound of the expectation
  of the (wrong) log-density assembled from the returned `Lambda`, `ln_det_Sigma` — that is what
  `…_coded` states;
* the step and rectified-linear links (not modelled here);
* the asymptotic clause "the gap vanishes quadratically in the weight scale" (only exact tightness
  at zero weights);
* floating-point effects; for a unit with `w = 0` and `w0 = 0` the library divides by zero
  (`ω† = 0`), a case excluded by hypothesis; convergence of the fixed-point iteration (not needed:
  the bound holds for every iterate).
-/
namespace GT.Props.C17
open GT Matrix

/-! ## matrix identities behind `get_conditional_cov(invert=True)` -/
section MatrixLemmas
variable {n k : Type*} [Fintype n] [Fintype k] [DecidableEq n] [DecidableEq k]

/-- the Woodbury inverse **as coded** (`G = D/(1+D)`) is the inverse of `S + U diag(d) Uᵀ` when
`UᵀΛU = 1` -/
theorem decoupled_inverse (S Λ : Matrix n n ℝ) (U : Matrix n k ℝ) (d : k → ℝ)
    (hΛS : Λ * S = 1) (hΛsym : Λᵀ = Λ) (hdec : Uᵀ * Λ * U = 1) (hd : ∀ i, 1 + d i ≠ 0) :
    (Λ - (Λ * U) * diagonal (fun i => d i / (1 + d i)) * (Λ * U)ᵀ) * (S + U * diagonal d * Uᵀ) = 1 := by
  set G : Matrix k k ℝ := diagonal (fun i => d i / (1 + d i)) with hG
  set Dd : Matrix k k ℝ := diagonal d with hDd
  have hT : (Λ * U)ᵀ = Uᵀ * Λ := by rw [Matrix.transpose_mul, hΛsym]
  have key : Dd - G - G * Dd = 0 := by
    rw [hG, hDd, Matrix.diagonal_mul_diagonal]
    ext i j
    simp only [Matrix.sub_apply, Matrix.diagonal_apply, Matrix.zero_apply]
    split_ifs
    · have := hd i
      field_simp
      ring
    · simp
  have h1 : Uᵀ * Λ * S = Uᵀ := by rw [Matrix.mul_assoc, hΛS, Matrix.mul_one]
  have h2 : Uᵀ * Λ * (U * Dd * Uᵀ) = Dd * Uᵀ := by
    rw [← Matrix.mul_assoc, ← Matrix.mul_assoc, hdec, Matrix.one_mul]
  rw [hT]
  calc (Λ - Λ * U * G * (Uᵀ * Λ)) * (S + U * Dd * Uᵀ)
      = Λ * S + Λ * (U * Dd * Uᵀ) - Λ * U * G * (Uᵀ * Λ * S) - Λ * U * G * (Uᵀ * Λ * (U * Dd * Uᵀ)) := by
        simp only [Matrix.sub_mul, Matrix.mul_add, Matrix.mul_assoc]; abel
    _ = 1 + Λ * U * (Dd - G - G * Dd) * Uᵀ := by
        rw [h1, h2, hΛS]
        simp only [Matrix.mul_sub, Matrix.sub_mul, Matrix.mul_assoc]; abel
    _ = 1 := by rw [key]; simp

/-- determinant of `S + U diag(d) Uᵀ` when `UᵀΛU = 1` -/
theorem decoupled_det (S Λ : Matrix n n ℝ) (U : Matrix n k ℝ) (d : k → ℝ)
    (hSΛ : S * Λ = 1) (hdec : Uᵀ * Λ * U = 1) :
    (S + U * diagonal d * Uᵀ).det = S.det * ∏ i, (1 + d i) := by
  have h1 : S + U * diagonal d * Uᵀ = S * (1 + (Λ * U) * (diagonal d * Uᵀ)) := by
    simp only [Matrix.mul_add, Matrix.mul_one, ← Matrix.mul_assoc, hSΛ, Matrix.one_mul]
  rw [h1, Matrix.det_mul, Matrix.det_one_add_mul_comm]
  have h2 : diagonal d * Uᵀ * (Λ * U) = diagonal d := by
    rw [Matrix.mul_assoc, ← Matrix.mul_assoc Uᵀ, hdec, Matrix.mul_one]
  rw [h2]
  have h3 : (1 : Matrix k k ℝ) + diagonal d = diagonal fun i => 1 + d i := by
    rw [← Matrix.diagonal_one, Matrix.diagonal_add]
  rw [h3, Matrix.det_diagonal]

omit [DecidableEq n] in
/-- positive definiteness of the heteroscedastic covariance -/
theorem posDef_add_diag {S : Matrix n n ℝ} (hS : S.PosDef) (U : Matrix n k ℝ) {d : k → ℝ}
    (hd : ∀ i, 0 ≤ d i) : (S + U * diagonal d * Uᵀ).PosDef := by
  have h := (Matrix.PosSemidef.diagonal (n := k) (R := ℝ) (d := d) hd).mul_mul_conjTranspose_same U
  rw [Matrix.conjTranspose_eq_transpose_of_trivial] at h
  exact hS.add_posSemidef h

end MatrixLemmas

/-! ## the model in matrix form -/

variable {Dy Dx Da Dk N : Nat}

@[simp] theorem transc_tanh (x : ℝ) : Transc.tanh x = Real.tanh x := rfl
@[simp] theorem transc_cosh (x : ℝ) : Transc.cosh x = Real.cosh x := rfl

/-- what `__post_init__` establishes: `Sigma = AAᵀ` positive definite (i.e. `A` of full row rank)
with its inverse and log-determinant -/
structure HeteroOK (c : HeteroB Dy Dx Da Dk ℝ) : Prop where
  sigma : toM (c.Sigma 0) = toM (c.A 0) * (toM (c.A 0))ᵀ
  posDef : (toM (c.Sigma 0)).PosDef
  lambda : toM (c.Lambda 0) = (toM (c.Sigma 0))⁻¹
  lnDet : c.lnDetSigma 0 = Real.log (toM (c.Sigma 0)).det

/-- the constructor establishes `HeteroOK` whenever `AAᵀ` is positive definite -/
theorem mkHetero_ok {be : Backend ℝ} (hbe : be.Spec) (M : Arr 1 (Mat Dy Dx ℝ)) (b : Arr 1 (Vec Dy ℝ))
    (A : Arr 1 (Mat Dy Da ℝ)) (W : Mat Dk (Dx + 1) ℝ) (hy : Dy ≤ Da) (hk : Dk ≤ Da)
    (hA : (toM (A 0) * (toM (A 0))ᵀ).PosDef) : HeteroOK (mkHetero be M b A W hy hk) := by
  have hS : ∀ r : Fin 1, (toM ((tab fun r => mmul (A r) (transpose (A r)) : Arr 1 (Mat Dy Dy ℝ)) r)).PosDef := by
    intro r
    have : r = 0 := Subsingleton.elim _ _
    subst this
    simpa using hA
  have hspec := invertBatch_spec hbe false _ hS (by simp) 0
  refine ⟨?_, ?_, ?_, ?_⟩
  · simp [mkHetero]
  · simpa [mkHetero] using hA
  · simpa [mkHetero] using hspec.1
  · simpa [mkHetero] using hspec.2

/-- the pre-activation `h_k(x) = w_kᵀx + w0_k` -/
noncomputable def hval (c : HeteroB Dy Dx Da Dk ℝ) (x : Fin Dx → ℝ) (k : Fin Dk) : ℝ :=
  (toM c.wMat *ᵥ x + toV c.w0) k

theorem linearLayer_eq (c : HeteroB Dy Dx Da Dk ℝ) (x : Arr N (Vec Dx ℝ)) (n : Fin N) (k : Fin Dk) :
    c.linearLayer x n k = hval c (toV (x n)) k := by
  simp [HeteroB.linearLayer, hval, Matrix.mulVec, dotProduct]

/-- `A[0,:,:Dk]` is the submatrix of the first `Dk` columns -/
theorem toM_Ak (c : HeteroB Dy Dx Da Dk ℝ) :
    toM c.Ak = (toM (c.A 0)).submatrix id (Fin.castLE c.hk) := by
  ext i k; simp [HeteroB.Ak]; rfl

/-- the covariance `Σ + A_k diag(d) A_kᵀ` -/
noncomputable def covAt (c : HeteroB Dy Dx Da Dk ℝ) (d : Fin Dk → ℝ) : Matrix (Fin Dy) (Fin Dy) ℝ :=
  toM (c.Sigma 0) + toM c.Ak * diagonal d * (toM c.Ak)ᵀ

/-- the noise values `D_k(x) = link(h_k(x))` -/
noncomputable def dval (ops : HLinkOps ℝ) (c : HeteroB Dy Dx Da Dk ℝ) (x : Fin Dx → ℝ) (k : Fin Dk) : ℝ :=
  ops.linkFunction (hval c x k)

theorem toM_covOfD (c : HeteroB Dy Dx Da Dk ℝ) (D : Arr N (Vec Dk ℝ)) (n : Fin N) :
    toM (c.covOfD D n) = covAt c (toV (D n)) := by
  ext i j
  simp [HeteroB.covOfD, covAt, Matrix.mul_apply, Matrix.diagonal_apply]

/-- the precision **as coded** -/
noncomputable def precAt (c : HeteroB Dy Dx Da Dk ℝ) (d : Fin Dk → ℝ) : Matrix (Fin Dy) (Fin Dy) ℝ :=
  toM (c.Lambda 0) - (toM (c.Lambda 0) * toM c.Ak) * diagonal (fun k => d k / (1 + d k))
    * (toM (c.Lambda 0) * toM c.Ak)ᵀ

/-- the log-determinant **as coded** -/
noncomputable def lnDetAt (c : HeteroB Dy Dx Da Dk ℝ) (d : Fin Dk → ℝ) : ℝ :=
  c.lnDetSigma 0 + ∑ k, Real.log (1 + d k)

section returned
variable (ops : HLinkOps ℝ) (c : HeteroB Dy Dx Da Dk ℝ) (x : Arr N (Vec Dx ℝ)) (n : Fin N)

theorem condCovInv_Sigma :
    toM ((c.conditionalCovInv ops x).1 n) = covAt c (dval ops c (toV (x n))) := by
  simp only [HeteroB.conditionalCovInv, toM_covOfD]
  congr 1
  funext k
  simp [dval, linearLayer_eq]

theorem condCov_eq :
    toM (c.conditionalCov ops x n) = covAt c (dval ops c (toV (x n))) := by
  simp only [HeteroB.conditionalCov, toM_covOfD]
  congr 1
  funext k
  simp [dval, linearLayer_eq]

theorem condCovInv_Lambda :
    toM ((c.conditionalCovInv ops x).2.1 n) = precAt c (dval ops c (toV (x n))) := by
  ext i j
  simp [HeteroB.conditionalCovInv, precAt, Matrix.mul_apply, Matrix.diagonal_apply, dval, linearLayer_eq]
  refine Finset.sum_congr rfl fun k _ => ?_
  congr 1
  exact Finset.sum_congr rfl fun l _ => mul_comm _ _

theorem condCovInv_lnDet :
    (c.conditionalCovInv ops x).2.2 n = lnDetAt c (dval ops c (toV (x n))) := by
  simp [HeteroB.conditionalCovInv, lnDetAt, dval, linearLayer_eq]

theorem condMu_eq :
    toV (c.condMu x n) = toM (c.M 0) *ᵥ toV (x n) + toV (c.b 0) := by
  simp [HeteroB.condMu]

end returned

/-! ## B1 — mean and covariance of `p(y|x)` -/

/-- **C17 (covariance and mean)**, any link: conditioning on `x` returns the covariance
`AAᵀ + A_k diag(link(Wx + w0)) A_kᵀ` (both from `get_conditional_cov(x)` and from
`get_conditional_cov(x, invert=True)`) and the mean `Mx + b`. -/
theorem C17_cov (ops : HLinkOps ℝ) (c : HeteroB Dy Dx Da Dk ℝ) (hc : HeteroOK c) (x : Arr N (Vec Dx ℝ))
    (n : Fin N) :
    toM ((c.conditionalCovInv ops x).1 n)
        = toM (c.A 0) * (toM (c.A 0))ᵀ
          + toM c.Ak * diagonal (fun k => ops.linkFunction ((toM c.wMat *ᵥ toV (x n) + toV c.w0) k))
            * (toM c.Ak)ᵀ
    ∧ toM (c.conditionalCov ops x n) = toM ((c.conditionalCovInv ops x).1 n)
    ∧ toV (c.condMu x n) = toM (c.M 0) *ᵥ toV (x n) + toV (c.b 0) := by
  refine ⟨?_, ?_, condMu_eq c x n⟩
  · rw [condCovInv_Sigma, covAt, hc.sigma]; rfl
  · rw [condCovInv_Sigma, condCov_eq]

/-- exp link: `D_k(x) = exp(w_kᵀx + w0_k)` -/
theorem C17_cov_exp (c : HeteroB Dy Dx Da Dk ℝ) (hc : HeteroOK c) (x : Arr N (Vec Dx ℝ)) (n : Fin N) :
    toM ((c.conditionalCovInv expOps x).1 n)
        = toM (c.A 0) * (toM (c.A 0))ᵀ
          + toM c.Ak * diagonal (fun k => Real.exp ((toM c.wMat *ᵥ toV (x n) + toV c.w0) k))
            * (toM c.Ak)ᵀ :=
  (C17_cov expOps c hc x n).1

/-- cosh−1 link: `D_k(x) = cosh(w_kᵀx + w0_k) − 1` -/
theorem C17_cov_coshM1 (c : HeteroB Dy Dx Da Dk ℝ) (hc : HeteroOK c) (x : Arr N (Vec Dx ℝ)) (n : Fin N) :
    toM ((c.conditionalCovInv coshM1Ops x).1 n)
        = toM (c.A 0) * (toM (c.A 0))ᵀ
          + toM c.Ak * diagonal (fun k => Real.cosh ((toM c.wMat *ᵥ toV (x n) + toV c.w0) k) - 1)
            * (toM c.Ak)ᵀ :=
  (C17_cov coshM1Ops c hc x n).1

/-- the noise values of both links are non-negative -/
theorem dval_exp_nonneg (c : HeteroB Dy Dx Da Dk ℝ) (x : Fin Dx → ℝ) (k : Fin Dk) : 0 ≤ dval expOps c x k :=
  (Real.exp_pos _).le

theorem dval_coshM1_nonneg (c : HeteroB Dy Dx Da Dk ℝ) (x : Fin Dx → ℝ) (k : Fin Dk) :
    0 ≤ dval coshM1Ops c x k := by
  have := Real.one_le_cosh (hval c x k)
  simp only [dval, coshM1Ops, transc_cosh]
  linarith

/-! ## B2 — precision and log-determinant under decoupling -/

/-- the DECOUPLING hypothesis `A_kᵀ (AAᵀ)⁻¹ A_k = I` under which the coded Woodbury inverse
(`G = D/(1+D)`) and determinant (`Σ log(1+D)`) are exact -/
def Decoupled (c : HeteroB Dy Dx Da Dk ℝ) : Prop :=
  (toM c.Ak)ᵀ * (toM (c.Sigma 0))⁻¹ * toM c.Ak = 1

/-- decoupling holds for square `A` (`Da = Dy`): then `A` is invertible because `AAᵀ` is -/
theorem decoupled_of_square (c : HeteroB Dy Dx Dy Dk ℝ) (hc : HeteroOK c) : Decoupled c := by
  set A := toM (c.A 0) with hA
  have hdet : (A * Aᵀ).det ≠ 0 := by rw [← hc.sigma]; exact hc.posDef.det_pos.ne'
  have hAu : IsUnit A.det := by
    rw [Matrix.det_mul, Matrix.det_transpose] at hdet
    exact (left_ne_zero_of_mul hdet).isUnit
  have hATu : IsUnit Aᵀ.det := by rwa [Matrix.det_transpose]
  set E : Matrix (Fin Dy) (Fin Dk) ℝ := (1 : Matrix (Fin Dy) (Fin Dy) ℝ).submatrix id (Fin.castLE c.hk) with hE
  have hAk : toM c.Ak = A * E := by
    rw [toM_Ak, hE]
    ext i k
    simp [Matrix.mul_apply, Matrix.one_apply]
    rfl
  have hEE : Eᵀ * E = 1 := by
    ext k l
    simp only [hE, Matrix.mul_apply, Matrix.transpose_apply, Matrix.submatrix_apply, id, Matrix.one_apply]
    by_cases hkl : k = l
    · subst hkl; simp
    · have hlk : ¬ l = k := fun h => hkl h.symm
      simp [hkl, hlk]
  unfold Decoupled
  rw [hc.sigma, ← hA, hAk, Matrix.mul_inv_rev, Matrix.transpose_mul]
  calc Eᵀ * Aᵀ * (Aᵀ⁻¹ * A⁻¹) * (A * E)
      = Eᵀ * ((Aᵀ * Aᵀ⁻¹) * ((A⁻¹ * A) * E)) := by simp only [Matrix.mul_assoc]
    _ = 1 := by
      rw [Matrix.mul_nonsing_inv _ hATu, Matrix.nonsing_inv_mul _ hAu, Matrix.one_mul, Matrix.one_mul, hEE]

section decoupledSec
variable {c : HeteroB Dy Dx Da Dk ℝ} (hc : HeteroOK c) (hdec : Decoupled c) {d : Fin Dk → ℝ}
  (hd : ∀ k, 0 ≤ d k)
include hc hdec hd

theorem precAt_mul_covAt : precAt c d * covAt c d = 1 := by
  have hu : IsUnit (toM (c.Sigma 0)).det := hc.posDef.det_pos.ne'.isUnit
  have hsym : ((toM (c.Sigma 0))⁻¹)ᵀ = (toM (c.Sigma 0))⁻¹ := by
    rw [← Matrix.conjTranspose_eq_transpose_of_trivial]; exact hc.posDef.inv.isHermitian
  unfold precAt covAt
  rw [hc.lambda]
  exact decoupled_inverse _ _ _ d (Matrix.nonsing_inv_mul _ hu) hsym hdec
    (fun k => by have := hd k; positivity)

omit hdec in
theorem covAt_posDef : (covAt c d).PosDef := posDef_add_diag hc.posDef _ hd

theorem precAt_eq_inv : precAt c d = (covAt c d)⁻¹ :=
  (Matrix.inv_eq_left_inv (precAt_mul_covAt hc hdec hd)).symm

theorem lnDetAt_eq : lnDetAt c d = Real.log (covAt c d).det := by
  have hu : IsUnit (toM (c.Sigma 0)).det := hc.posDef.det_pos.ne'.isUnit
  unfold covAt
  rw [decoupled_det _ (toM (c.Sigma 0))⁻¹ _ d (Matrix.mul_nonsing_inv _ hu) hdec,
    Real.log_mul hc.posDef.det_pos.ne' (Finset.prod_ne_zero_iff.2 fun k _ => by have := hd k; positivity),
    Real.log_prod (fun k _ => by have := hd k; positivity), lnDetAt, hc.lnDet]

end decoupledSec

/-- **C17 (precision and log-determinant; partial: decoupled case)**: for any link with
non-negative values, if `A_kᵀ(AAᵀ)⁻¹A_k = I` then the `Lambda` returned by
`get_conditional_cov(x, invert=True)` is the inverse of the returned covariance and the returned
`ln_det_Sigma` is its log-determinant. -/
theorem C17_precision_partial (ops : HLinkOps ℝ) (c : HeteroB Dy Dx Da Dk ℝ) (hc : HeteroOK c)
    (hdec : Decoupled c) (x : Arr N (Vec Dx ℝ)) (n : Fin N)
    (hD : ∀ k, 0 ≤ ops.linkFunction ((toM c.wMat *ᵥ toV (x n) + toV c.w0) k)) :
    toM ((c.conditionalCovInv ops x).2.1 n) = (toM ((c.conditionalCovInv ops x).1 n))⁻¹
    ∧ toM ((c.conditionalCovInv ops x).2.1 n) * toM ((c.conditionalCovInv ops x).1 n) = 1
    ∧ (c.conditionalCovInv ops x).2.2 n = Real.log (toM ((c.conditionalCovInv ops x).1 n)).det
    ∧ (toM ((c.conditionalCovInv ops x).1 n)).PosDef := by
  rw [condCovInv_Sigma, condCovInv_Lambda, condCovInv_lnDet]
  exact ⟨precAt_eq_inv hc hdec hD, precAt_mul_covAt hc hdec hD, lnDetAt_eq hc hdec hD, covAt_posDef hc hD⟩

/-- the exp and cosh−1 links need no sign hypothesis -/
theorem C17_precision_partial_exp (c : HeteroB Dy Dx Da Dk ℝ) (hc : HeteroOK c) (hdec : Decoupled c)
    (x : Arr N (Vec Dx ℝ)) (n : Fin N) :
    toM ((c.conditionalCovInv expOps x).2.1 n) = (toM ((c.conditionalCovInv expOps x).1 n))⁻¹
    ∧ (c.conditionalCovInv expOps x).2.2 n = Real.log (toM ((c.conditionalCovInv expOps x).1 n)).det :=
  have h := C17_precision_partial expOps c hc hdec x n (dval_exp_nonneg c _)
  ⟨h.1, h.2.2.1⟩

theorem C17_precision_partial_coshM1 (c : HeteroB Dy Dx Da Dk ℝ) (hc : HeteroOK c) (hdec : Decoupled c)
    (x : Arr N (Vec Dx ℝ)) (n : Fin N) :
    toM ((c.conditionalCovInv coshM1Ops x).2.1 n) = (toM ((c.conditionalCovInv coshM1Ops x).1 n))⁻¹
    ∧ (c.conditionalCovInv coshM1Ops x).2.2 n
        = Real.log (toM ((c.conditionalCovInv coshM1Ops x).1 n)).det :=
  have h := C17_precision_partial coshM1Ops c hc hdec x n (dval_coshM1_nonneg c _)
  ⟨h.1, h.2.2.1⟩

/-- square `A`: the statement holds without further hypothesis -/
theorem C17_precision_square (ops : HLinkOps ℝ) (c : HeteroB Dy Dx Dy Dk ℝ) (hc : HeteroOK c)
    (x : Arr N (Vec Dx ℝ)) (n : Fin N)
    (hD : ∀ k, 0 ≤ ops.linkFunction ((toM c.wMat *ᵥ toV (x n) + toV c.w0) k)) :
    toM ((c.conditionalCovInv ops x).2.1 n) = (toM ((c.conditionalCovInv ops x).1 n))⁻¹
    ∧ (c.conditionalCovInv ops x).2.2 n = Real.log (toM ((c.conditionalCovInv ops x).1 n)).det :=
  have h := C17_precision_partial ops c hc (decoupled_of_square c hc) x n hD
  ⟨h.1, h.2.2.1⟩

/-- **`condition_on_x(x)` is the density `N(y; Mx+b, Σ(x))`** (decoupled case) -/
theorem C17_conditionOnX_evalLn {be : Backend ℝ} (hbe : be.Spec) (ops : HLinkOps ℝ)
    (c : HeteroB Dy Dx Da Dk ℝ) (hc : HeteroOK c) (hdec : Decoupled c) (x : Arr N (Vec Dx ℝ))
    (hD : ∀ n k, 0 ≤ dval ops c (toV (x n)) k) (n : Fin N) (y : Fin Dy → ℝ) :
    (c.conditionOnX ops be x).evalLn n (ofV y) =
      normalLn (toM (c.M 0) *ᵥ toV (x n) + toV (c.b 0)) (covAt c (dval ops c (toV (x n))))⁻¹
        (Real.log (covAt c (dval ops c (toV (x n)))).det) y := by
  have e : c.conditionOnX ops be x = mkPdf be false (c.conditionalCovInv ops x).1 (c.condMu x)
      (some (c.conditionalCovInv ops x).2.1) (some (c.conditionalCovInv ops x).2.2) := rfl
  rw [e, mkPdf_evalLn hbe]
  · rw [condCovInv_Sigma, condMu_eq]
  · refine ⟨fun r => ?_, by simp, ?_, ?_⟩
    · rw [condCovInv_Sigma]; exact covAt_posDef hc (hD r)
    · intro L hL r
      simp only [Option.some.injEq] at hL; subst hL
      rw [condCovInv_Sigma, condCovInv_Lambda]; exact precAt_eq_inv hc hdec (hD r)
    · intro L ld _ hld r
      simp only [Option.some.injEq] at hld; subst hld
      rw [condCovInv_Sigma, condCovInv_lnDet]; exact lnDetAt_eq hc hdec (hD r)

/-! ## B3 — the full statement is false for `Da > Dy` -/
section counterexample

/-- `A = [[1, 1]]` (`Dy = 1`, `Da = 2`) -/
noncomputable def cexA : Arr 1 (Mat 1 2 ℝ) := tab fun _ => tab2 fun _ _ => 1
/-- `W = [[0, 0]]` (`Dk = 1`, `Dx = 1`): `h ≡ 0`, `D = exp 0 = 1` -/
noncomputable def cexW : Mat 1 (1 + 1) ℝ := tab2 fun _ _ => 0

/-- the object the constructor builds from `A = [[1,1]]`, `W = [[0,0]]` and arbitrary `M`, `b` -/
noncomputable def cex (be : Backend ℝ) (M : Arr 1 (Mat 1 1 ℝ)) (b : Arr 1 (Vec 1 ℝ)) : HeteroB 1 1 2 1 ℝ :=
  mkHetero be M b cexA cexW (by decide) (by decide)

theorem cex_ok {be : Backend ℝ} (hbe : be.Spec) (M : Arr 1 (Mat 1 1 ℝ)) (b : Arr 1 (Vec 1 ℝ)) :
    HeteroOK (cex be M b) := by
  apply mkHetero_ok hbe
  have : toM (cexA 0) * (toM (cexA 0))ᵀ = diagonal fun _ => (2 : ℝ) := by
    ext i j
    have hi : i = 0 := Subsingleton.elim _ _
    have hj : j = 0 := Subsingleton.elim _ _
    subst hi hj
    simp [cexA, Matrix.mul_apply]
  rw [this]
  exact Matrix.PosDef.diagonal fun _ => by norm_num

/-- **C17 counterexample** (known finding `hetero-woodbury-Da>Dy`): for `A = [[1,1]]`, one noise
unit with zero weights and the exp link, `get_conditional_cov(x, invert=True)` returns
`Sigma = 3`, `Lambda = 3/8 ≠ 1/3` and `ln_det_Sigma = log 2 + log 2 = log 4 ≠ log 3`, for every
backend satisfying the contract, every `M`, `b` and every `x`. -/
theorem C17_counterexample {be : Backend ℝ} (hbe : be.Spec) (M : Arr 1 (Mat 1 1 ℝ)) (b : Arr 1 (Vec 1 ℝ))
    (x : Arr N (Vec 1 ℝ)) (n : Fin N) :
    ((cex be M b).conditionalCovInv expOps x).1 n 0 0 = 3
    ∧ ((cex be M b).conditionalCovInv expOps x).2.1 n 0 0 = 3 / 8
    ∧ toM (((cex be M b).conditionalCovInv expOps x).2.1 n)
        * toM (((cex be M b).conditionalCovInv expOps x).1 n) ≠ 1
    ∧ ((cex be M b).conditionalCovInv expOps x).2.2 n
        ≠ Real.log (toM (((cex be M b).conditionalCovInv expOps x).1 n)).det := by
  have hok := cex_ok hbe M b
  have hS : (cex be M b).Sigma 0 0 0 = 2 := by
    simp [cex, mkHetero, cexA]
  have hu : IsUnit (toM ((cex be M b).Sigma 0)).det := hok.posDef.det_pos.ne'.isUnit
  have hLS : toM ((cex be M b).Lambda 0) * toM ((cex be M b).Sigma 0) = 1 := by
    rw [hok.lambda]; exact Matrix.nonsing_inv_mul _ hu
  have hL : (cex be M b).Lambda 0 0 0 = 1 / 2 := by
    have := congrFun (congrFun hLS 0) 0
    simp [Matrix.mul_apply, hS] at this
    linarith
  have hAk : ∀ i k, (cex be M b).Ak i k = 1 := by
    intro i k; simp [HeteroB.Ak, cex, mkHetero, cexA]
  have hh : ∀ k, (cex be M b).linearLayer x n k = 0 := by
    intro k; simp [HeteroB.linearLayer, HeteroB.wMat, HeteroB.w0, wTail, wHead, cex, mkHetero, cexW]
  have h1 : ((cex be M b).conditionalCovInv expOps x).1 n 0 0 = 3 := by
    simp [HeteroB.conditionalCovInv, HeteroB.covOfD, hh, hAk, hS, expOps]; norm_num
  have h2 : ((cex be M b).conditionalCovInv expOps x).2.1 n 0 0 = 3 / 8 := by
    simp [HeteroB.conditionalCovInv, hh, hAk, hL, expOps]; norm_num
  refine ⟨h1, h2, ?_, ?_⟩
  · intro h
    have := congrFun (congrFun h 0) 0
    simp [Matrix.mul_apply, h1, h2] at this
    norm_num at this
  · have hdet : (toM (((cex be M b).conditionalCovInv expOps x).1 n)).det = 3 := by
      rw [Matrix.det_fin_one]; simpa using h1
    have hld : (cex be M b).lnDetSigma 0 = Real.log 2 := by
      rw [hok.lnDet, Matrix.det_fin_one]; simp [hS]
    have h3 : ((cex be M b).conditionalCovInv expOps x).2.2 n = Real.log 2 + Real.log 2 := by
      simp [HeteroB.conditionalCovInv, hh, hld, expOps]; norm_num
    rw [hdet, h3, ← Real.log_mul (by norm_num) (by norm_num)]
    intro h
    have := Real.log_injOn_pos (by norm_num : (0:ℝ) < 2 * 2) (by norm_num : (0:ℝ) < 3) h
    norm_num at this

/-- in particular the decoupling hypothesis fails there (`A_kᵀ(AAᵀ)⁻¹A_k = 1/2`) -/
theorem cex_not_decoupled {be : Backend ℝ} (hbe : be.Spec) (M : Arr 1 (Mat 1 1 ℝ)) (b : Arr 1 (Vec 1 ℝ)) :
    ¬ Decoupled (cex be M b) := by
  intro hdec
  have h := C17_precision_partial expOps (cex be M b) (cex_ok hbe M b) hdec
    (tab fun _ => tab fun _ => 0 : Arr 1 (Vec 1 ℝ)) 0 (fun k => (Real.exp_pos _).le)
  exact (C17_counterexample hbe M b _ 0).2.2.1 h.2.1

end counterexample

/-! ## B4 — the integrands of the lower bound and their pointwise validity -/
section pointwise
open Real

/-- `h(x) = wᵀx + w0` for the row `W_i = (w0, w)` -/
noncomputable def hW (Wi : Vec (Dx + 1) ℝ) (x : Fin Dx → ℝ) : ℝ := toV (wTail Wi) ⬝ᵥ x + wHead Wi

theorem hval_eq_hW (c : HeteroB Dy Dx Da Dk ℝ) (x : Fin Dx → ℝ) (k : Fin Dk) :
    hval c x k = hW (c.W k) x := by
  simp [hval, hW, HeteroB.wMat, HeteroB.w0, Matrix.mulVec, dotProduct]

/-- `k_func` of the exp class as a function of the moments `m1 = E[h]`, `m2 = E[h²]` -/
noncomputable def expK (ω m1 m2 : ℝ) : ℝ :=
  1 / 2 * m1 + (log (cosh (ω / 2)) + log 2) + 1 / 2 * (1 / 2 * tanh (ω / 2)) / ω * (m2 - ω * ω)

/-- `k_func` of the cosh−1 class as a function of `m2 = E[h²]` -/
noncomputable def coshK (ω m2 : ℝ) : ℝ :=
  log (cosh ω) + 1 / 2 * tanh ω / ω * (m2 - ω * ω)

/-- the model's `k_func` is `expK` at the model's `E[h]`, `E[h²]` -/
theorem expKFunc_eq {R : Nat} (be : Backend ℝ) (p : PdfV R Dx ℝ) (Wi : Vec (Dx + 1) ℝ) (ω : Arr R ℝ)
    (r : Fin R) :
    expKFunc be p Wi ω r = expK (ω r)
      (((p.toMeasure.intView be).2.integrateLinear (hForm Wi : AffForm R 1 Dx ℝ)) r 0)
      (((p.toMeasure.intView be).2.integrateQuadInner (hForm Wi : AffForm R 1 Dx ℝ) (hForm Wi)) r) := by
  simp [expKFunc, expK, log2]

theorem coshKFunc_eq {R : Nat} (be : Backend ℝ) (p : PdfV R Dx ℝ) (Wi : Vec (Dx + 1) ℝ) (ω : Arr R ℝ)
    (r : Fin R) :
    coshKFunc be p Wi ω r = coshK (ω r)
      (((p.toMeasure.intView be).2.integrateQuadInner (hForm Wi : AffForm R 1 Dx ℝ) (hForm Wi)) r) := by
  simp [coshKFunc, coshK]

/-- **pointwise bound used by `get_lb_log_det`, exp link**: `log(1 + D(h)) ≤ k(h, h²)` for every
`ω ≠ 0` -/
theorem expK_ge (ω h : ℝ) (hω : ω ≠ 0) : log (1 + exp h) ≤ expK ω h (h * h) := by
  have := GT.Math.log1p_exp_le h ω hω
  have e : expK ω h (h * h) =
      h / 2 + (log (cosh (ω / 2)) + log 2) + tanh (ω / 2) / (4 * ω) * (h ^ 2 - ω ^ 2) := by
    unfold expK; field_simp; ring
  rw [e]; exact this

theorem expK_eq_of_sq (ω h : ℝ) (hh : h ^ 2 = ω ^ 2) : log (1 + exp h) = expK ω h (h * h) := by
  have := GT.Math.log1p_exp_eq_of_sq h ω hh
  rw [this]; unfold expK
  rw [show h * h = h ^ 2 by ring, show ω * ω = ω ^ 2 by ring, hh]; ring

/-- **pointwise bound used by `get_lb_log_det`, cosh−1 link** -/
theorem coshK_ge (ω h : ℝ) (hω : ω ≠ 0) : log (1 + (cosh h - 1)) ≤ coshK ω (h * h) := by
  have := GT.Math.logcosh_quadratic_bound h ω hω
  have e : coshK ω (h * h) = log (cosh ω) + tanh ω / (2 * ω) * (h ^ 2 - ω ^ 2) := by
    unfold coshK; field_simp
  rw [e, show 1 + (cosh h - 1) = cosh h by ring]; exact this

theorem coshK_eq_of_sq (ω h : ℝ) (hh : h ^ 2 = ω ^ 2) : log (1 + (cosh h - 1)) = coshK ω (h * h) := by
  rw [show 1 + (cosh h - 1) = cosh h by ring, GT.Math.logcosh_quadratic_bound_eq_of_sq h ω hh]
  unfold coshK
  rw [show h * h = h ^ 2 by ring, show ω * ω = ω ^ 2 by ring, hh]; ring

/-- log of the Gaussian-form lower bound of the logistic function (exp link) -/
noncomputable def expLbLn (ω h : ℝ) : ℝ :=
  -(log (cosh (ω / 2)) + log 2) - 1 / 2 * (1 / 2 * tanh (ω / 2) / ω) * (h * h - ω * ω) + 1 / 2 * h

/-- log of the Gaussian-form lower bound of `1 / cosh h` (cosh−1 link) -/
noncomputable def coshLbLn (ω h : ℝ) : ℝ :=
  -log (cosh ω) - 1 / 2 * tanh ω / ω * (h * h - ω * ω)

/-- **pointwise bound used by the heteroscedastic term, exp link**:
`G(h) = D/(1+D) = eʰ/(1+eʰ) ≥ exp(expLbLn ω h)` -/
theorem expLb_le (ω h : ℝ) (hω : ω ≠ 0) : exp (expLbLn ω h) ≤ exp h / (1 + exp h) := by
  have := GT.Math.logistic_ge h ω hω
  have e : expLbLn ω h =
      h / 2 - (log (cosh (ω / 2)) + log 2) - tanh (ω / 2) / (4 * ω) * (h ^ 2 - ω ^ 2) := by
    unfold expLbLn; field_simp; ring
  rw [e]; exact this

theorem expLb_eq_of_sq (ω h : ℝ) (hh : h ^ 2 = ω ^ 2) : exp (expLbLn ω h) = exp h / (1 + exp h) := by
  rw [← GT.Math.logistic_eq_of_sq h ω hh]
  congr 1
  unfold expLbLn
  rw [show h * h = h ^ 2 by ring, show ω * ω = ω ^ 2 by ring, hh]; ring

/-- **pointwise bound used by the heteroscedastic term, cosh−1 link**:
`G(h) = D/(1+D) = (cosh h − 1)/cosh h ≥ (cosh h − 1)·exp(coshLbLn ω h)` -/
theorem coshLb_le (ω h : ℝ) (hω : ω ≠ 0) :
    (cosh h - 1) * exp (coshLbLn ω h) ≤ (cosh h - 1) / (1 + (cosh h - 1)) := by
  have := GT.Math.inv_cosh_ge h ω hω
  have e : coshLbLn ω h = -log (cosh ω) - tanh ω / (2 * ω) * (h ^ 2 - ω ^ 2) := by
    unfold coshLbLn; field_simp
  rw [e, show 1 + (cosh h - 1) = cosh h by ring, div_eq_mul_one_div (cosh h - 1)]
  exact mul_le_mul_of_nonneg_left this (by have := one_le_cosh h; linarith)

theorem coshLb_eq_of_sq (ω h : ℝ) (hh : h ^ 2 = ω ^ 2) :
    (cosh h - 1) * exp (coshLbLn ω h) = (cosh h - 1) / (1 + (cosh h - 1)) := by
  have := GT.Math.inv_cosh_eq_of_sq h ω hh
  have e : coshLbLn ω h = -log (cosh ω) - tanh ω / (2 * ω) * (h ^ 2 - ω ^ 2) := by
    unfold coshLbLn
    rw [show h * h = h ^ 2 by ring, show ω * ω = ω ^ 2 by ring, hh]; ring
  rw [e, this, show 1 + (cosh h - 1) = cosh h by ring, div_eq_mul_one_div (cosh h - 1)]

/-- the bound of the heteroscedastic term in the form the integral needs it (multiplied by the squared
projected residual `g²`): it holds for `ω ≠ 0` and ALSO for `ω = 0` (where the real-number model has
`tanh(ω/2)/ω = 0`) at every point with `h·g = 0` -/
theorem expLb_mul_le (ω h g : ℝ) (hcase : ω ≠ 0 ∨ h * g = 0) :
    exp (expLbLn ω h) * g ^ 2 ≤ exp h / (1 + exp h) * g ^ 2 := by
  by_cases hω : ω = 0
  · rcases hcase with h1 | h1
    · exact absurd hω h1
    · rcases mul_eq_zero.1 h1 with h0 | g0
      · subst hω; subst h0
        exact (congrArg (· * g ^ 2) (expLb_eq_of_sq 0 0 rfl)).le
      · rw [g0]; simp
  · exact mul_le_mul_of_nonneg_right (expLb_le ω h hω) (sq_nonneg g)

theorem coshLb_mul_le (ω h g : ℝ) (hcase : ω ≠ 0 ∨ h * g = 0) :
    (cosh h - 1) * exp (coshLbLn ω h) * g ^ 2 ≤ (cosh h - 1) / (1 + (cosh h - 1)) * g ^ 2 := by
  by_cases hω : ω = 0
  · rcases hcase with h1 | h1
    · exact absurd hω h1
    · rcases mul_eq_zero.1 h1 with h0 | g0
      · subst hω; subst h0
        exact (congrArg (· * g ^ 2) (coshLb_eq_of_sq 0 0 rfl)).le
      · rw [g0]; simp
  · exact mul_le_mul_of_nonneg_right (coshLb_le ω h hω) (sq_nonneg g)

end pointwise

section pointwiseDensity
open Real

/-- quadratic form of the precision **as coded** -/
theorem quad_sub_diag {n k : Type*} [Fintype n] [Fintype k] [DecidableEq k] (Λ : Matrix n n ℝ)
    (P : Matrix n k ℝ) (g : k → ℝ) (r : n → ℝ) :
    r ⬝ᵥ (Λ - P * diagonal g * Pᵀ) *ᵥ r = r ⬝ᵥ Λ *ᵥ r - ∑ i, g i * ((Pᵀ *ᵥ r) i) ^ 2 := by
  rw [Matrix.sub_mulVec, dotProduct_sub]
  congr 1
  rw [← Matrix.mulVec_mulVec, ← Matrix.mulVec_mulVec, Matrix.dotProduct_mulVec, ← Matrix.mulVec_transpose]
  simp only [dotProduct, Matrix.mulVec_diagonal]
  exact Finset.sum_congr rfl fun i _ => by ring

/-- residual `y − (Mx + b)` -/
noncomputable def resid (c : HeteroB Dy Dx Da Dk ℝ) (y : Fin Dy → ℝ) (x : Fin Dx → ℝ) : Fin Dy → ℝ :=
  y - (toM (c.M 0) *ᵥ x + toV (c.b 0))

/-- projected residual `ã_kᵀ(y − Mx − b)` with `ã_k` column `k` of `ΛA_k` -/
noncomputable def proj (c : HeteroB Dy Dx Da Dk ℝ) (y : Fin Dy → ℝ) (x : Fin Dx → ℝ) (k : Fin Dk) : ℝ :=
  ((toM (c.Lambda 0) * toM c.Ak)ᵀ *ᵥ resid c y x) k

/-- the shape shared by the true log-density (as coded) and the integrand of the lower bound:
`G k` multiplies the squared projected residual, `ℓ k` enters the log-determinant -/
noncomputable def lnForm (c : HeteroB Dy Dx Da Dk ℝ) (y : Fin Dy → ℝ) (x : Fin Dx → ℝ)
    (G ℓ : Fin Dk → ℝ) : ℝ :=
  -(1 / 2) * (resid c y x ⬝ᵥ toM (c.Lambda 0) *ᵥ resid c y x - ∑ k, G k * proj c y x k ^ 2
    + (c.lnDetSigma 0 + ∑ k, ℓ k) + (Dy : ℝ) * log (2 * π))

/-- the log-density built from the returned `Lambda`, `ln_det_Sigma` has this shape with
`G = D/(1+D)`, `ℓ = log(1+D)` (no hypothesis) -/
theorem normalLn_coded (c : HeteroB Dy Dx Da Dk ℝ) (y : Fin Dy → ℝ) (x : Fin Dx → ℝ) (d : Fin Dk → ℝ) :
    normalLn (toM (c.M 0) *ᵥ x + toV (c.b 0)) (precAt c d) (lnDetAt c d) y
      = lnForm c y x (fun k => d k / (1 + d k)) (fun k => log (1 + d k)) := by
  unfold normalLn lnForm precAt lnDetAt
  rw [quad_sub_diag]
  simp only [resid, proj]
  ring

/-- monotonicity of the shape: smaller `G`, larger `ℓ` give a smaller value -/
theorem lnForm_mono (c : HeteroB Dy Dx Da Dk ℝ) (y : Fin Dy → ℝ) (x : Fin Dx → ℝ)
    {G G' ℓ ℓ' : Fin Dk → ℝ} (hG : ∀ k, G k ≤ G' k) (hℓ : ∀ k, ℓ' k ≤ ℓ k) :
    lnForm c y x G ℓ ≤ lnForm c y x G' ℓ' := by
  unfold lnForm
  have h1 : ∑ k, G k * proj c y x k ^ 2 ≤ ∑ k, G' k * proj c y x k ^ 2 :=
    Finset.sum_le_sum fun k _ => mul_le_mul_of_nonneg_right (hG k) (sq_nonneg _)
  have h2 : ∑ k, ℓ' k ≤ ∑ k, ℓ k := Finset.sum_le_sum fun k _ => hℓ k
  linarith

/-- monotonicity of the shape when `G` is only compared where the projected residual is non-zero -/
theorem lnForm_mono' (c : HeteroB Dy Dx Da Dk ℝ) (y : Fin Dy → ℝ) (x : Fin Dx → ℝ)
    {G G' ℓ ℓ' : Fin Dk → ℝ} (hG : ∀ k, G k * proj c y x k ^ 2 ≤ G' k * proj c y x k ^ 2)
    (hℓ : ∀ k, ℓ' k ≤ ℓ k) :
    lnForm c y x G ℓ ≤ lnForm c y x G' ℓ' := by
  unfold lnForm
  have h1 : ∑ k, G k * proj c y x k ^ 2 ≤ ∑ k, G' k * proj c y x k ^ 2 :=
    Finset.sum_le_sum fun k _ => hG k
  have h2 : ∑ k, ℓ' k ≤ ∑ k, ℓ k := Finset.sum_le_sum fun k _ => hℓ k
  linarith

theorem lnForm_congr' (c : HeteroB Dy Dx Da Dk ℝ) (y : Fin Dy → ℝ) (x : Fin Dx → ℝ)
    {G G' ℓ ℓ' : Fin Dk → ℝ} (hG : ∀ k, G k * proj c y x k ^ 2 = G' k * proj c y x k ^ 2)
    (hℓ : ∀ k, ℓ k = ℓ' k) :
    lnForm c y x G ℓ = lnForm c y x G' ℓ' :=
  le_antisymm (lnForm_mono' c y x (fun k => (hG k).le) (fun k => (hℓ k).ge))
    (lnForm_mono' c y x (fun k => (hG k).ge) (fun k => (hℓ k).le))

/-- integrand of the exp-link bound for variational parameters `ωs` (heteroscedastic term) and
`ωd` (log-determinant) -/
noncomputable def expLbIntegrand (c : HeteroB Dy Dx Da Dk ℝ) (y : Fin Dy → ℝ) (ωs ωd : Fin Dk → ℝ)
    (x : Fin Dx → ℝ) : ℝ :=
  lnForm c y x (fun k => exp (expLbLn (ωs k) (hW (c.W k) x)))
    (fun k => expK (ωd k) (hW (c.W k) x) (hW (c.W k) x * hW (c.W k) x))

/-- integrand of the cosh−1-link bound -/
noncomputable def coshLbIntegrand (c : HeteroB Dy Dx Da Dk ℝ) (y : Fin Dy → ℝ) (ωs ωd : Fin Dk → ℝ)
    (x : Fin Dx → ℝ) : ℝ :=
  lnForm c y x (fun k => (cosh (hW (c.W k) x) - 1) * exp (coshLbLn (ωs k) (hW (c.W k) x)))
    (fun k => coshK (ωd k) (hW (c.W k) x * hW (c.W k) x))

/-- **C17 (pointwise validity, exp link)**: for EVERY non-zero value of the variational
parameters the integrand of the bound lies below the log-density built from the returned
precision and log-determinant (no decoupling needed at this step). -/
theorem C17_pointwise_exp (c : HeteroB Dy Dx Da Dk ℝ) (y : Fin Dy → ℝ) (ωs ωd : Fin Dk → ℝ)
    (hs : ∀ k, ωs k ≠ 0) (hd : ∀ k, ωd k ≠ 0) (x : Fin Dx → ℝ) :
    expLbIntegrand c y ωs ωd x ≤
      normalLn (toM (c.M 0) *ᵥ x + toV (c.b 0)) (precAt c (dval expOps c x)) (lnDetAt c (dval expOps c x)) y := by
  rw [normalLn_coded]
  apply lnForm_mono
  · intro k
    simp only [dval, hval_eq_hW, expOps, transc_exp]
    exact expLb_le _ _ (hs k)
  · intro k
    simp only [dval, hval_eq_hW, expOps, transc_exp]
    exact expK_ge _ _ (hd k)

/-- **C17 (pointwise validity, cosh−1 link)** -/
theorem C17_pointwise_coshM1 (c : HeteroB Dy Dx Da Dk ℝ) (y : Fin Dy → ℝ) (ωs ωd : Fin Dk → ℝ)
    (hs : ∀ k, ωs k ≠ 0) (hd : ∀ k, ωd k ≠ 0) (x : Fin Dx → ℝ) :
    coshLbIntegrand c y ωs ωd x ≤
      normalLn (toM (c.M 0) *ᵥ x + toV (c.b 0)) (precAt c (dval coshM1Ops c x))
        (lnDetAt c (dval coshM1Ops c x)) y := by
  rw [normalLn_coded]
  apply lnForm_mono
  · intro k
    simp only [dval, hval_eq_hW, coshM1Ops, transc_cosh]
    exact coshLb_le _ _ (hs k)
  · intro k
    simp only [dval, hval_eq_hW, coshM1Ops, transc_cosh]
    exact coshK_ge _ _ (hd k)

/-- **C17 (pointwise validity, exp link; sharpened)**: the parameter of the heteroscedastic term of
unit `k` may also be `0` (the value the real-number model of the fixed-point iteration returns when
a moment ratio is `0/0`) at points where `h_k(x)·ã_kᵀ(y − Mx − b) = 0`: there the unit contributes
the same to both sides. -/
theorem C17_pointwise_exp_or (c : HeteroB Dy Dx Da Dk ℝ) (y : Fin Dy → ℝ) (ωs ωd : Fin Dk → ℝ)
    (x : Fin Dx → ℝ) (hs : ∀ k, ωs k ≠ 0 ∨ hW (c.W k) x * proj c y x k = 0) (hd : ∀ k, ωd k ≠ 0) :
    expLbIntegrand c y ωs ωd x ≤
      normalLn (toM (c.M 0) *ᵥ x + toV (c.b 0)) (precAt c (dval expOps c x)) (lnDetAt c (dval expOps c x)) y := by
  rw [normalLn_coded]
  apply lnForm_mono'
  · intro k
    simp only [dval, hval_eq_hW, expOps, transc_exp]
    exact expLb_mul_le _ _ _ (hs k)
  · intro k
    simp only [dval, hval_eq_hW, expOps, transc_exp]
    exact expK_ge _ _ (hd k)

/-- **C17 (pointwise validity, cosh−1 link; sharpened)** -/
theorem C17_pointwise_coshM1_or (c : HeteroB Dy Dx Da Dk ℝ) (y : Fin Dy → ℝ) (ωs ωd : Fin Dk → ℝ)
    (x : Fin Dx → ℝ) (hs : ∀ k, ωs k ≠ 0 ∨ hW (c.W k) x * proj c y x k = 0) (hd : ∀ k, ωd k ≠ 0) :
    coshLbIntegrand c y ωs ωd x ≤
      normalLn (toM (c.M 0) *ᵥ x + toV (c.b 0)) (precAt c (dval coshM1Ops c x))
        (lnDetAt c (dval coshM1Ops c x)) y := by
  rw [normalLn_coded]
  apply lnForm_mono'
  · intro k
    simp only [dval, hval_eq_hW, coshM1Ops, transc_cosh]
    exact coshLb_mul_le _ _ _ (hs k)
  · intro k
    simp only [dval, hval_eq_hW, coshM1Ops, transc_cosh]
    exact coshK_ge _ _ (hd k)

/-- in the decoupled case the right-hand side is the true `ln p(y|x)` returned by
`condition_on_x` -/
theorem C17_pointwise_exp_density {be : Backend ℝ} (hbe : be.Spec) (c : HeteroB Dy Dx Da Dk ℝ)
    (hc : HeteroOK c) (hdec : Decoupled c) (y : Fin Dy → ℝ) (ωs ωd : Fin Dk → ℝ)
    (hs : ∀ k, ωs k ≠ 0) (hd : ∀ k, ωd k ≠ 0) (x : Arr N (Vec Dx ℝ)) (n : Fin N) :
    expLbIntegrand c y ωs ωd (toV (x n)) ≤ (c.conditionOnX expOps be x).evalLn n (ofV y) := by
  rw [C17_conditionOnX_evalLn hbe expOps c hc hdec x (fun n k => dval_exp_nonneg c _ k),
    ← precAt_eq_inv hc hdec (dval_exp_nonneg c _), ← lnDetAt_eq hc hdec (dval_exp_nonneg c _)]
  exact C17_pointwise_exp c y ωs ωd hs hd _

theorem C17_pointwise_coshM1_density {be : Backend ℝ} (hbe : be.Spec) (c : HeteroB Dy Dx Da Dk ℝ)
    (hc : HeteroOK c) (hdec : Decoupled c) (y : Fin Dy → ℝ) (ωs ωd : Fin Dk → ℝ)
    (hs : ∀ k, ωs k ≠ 0) (hd : ∀ k, ωd k ≠ 0) (x : Arr N (Vec Dx ℝ)) (n : Fin N) :
    coshLbIntegrand c y ωs ωd (toV (x n)) ≤ (c.conditionOnX coshM1Ops be x).evalLn n (ofV y) := by
  rw [C17_conditionOnX_evalLn hbe coshM1Ops c hc hdec x (fun n k => dval_coshM1_nonneg c _ k),
    ← precAt_eq_inv hc hdec (dval_coshM1_nonneg c _), ← lnDetAt_eq hc hdec (dval_coshM1_nonneg c _)]
  exact C17_pointwise_coshM1 c y ωs ωd hs hd _

/-! ### B5 — tightness at zero input weights -/

/-- **C17 (tight at zero weights, exp link)**: if the input weights of all noise units vanish
(`h_k ≡ w0_k`, the noise is constant in `x`) and the variational parameters sit at the fixed point
`ω_k² = w0_k²` (`ω† = √E[h²] = |w0_k|`, a fixed point of the iteration for `ω*`), the integrand of the bound EQUALS
the log-density — so the bound has zero gap. -/
theorem C17_tight_at_zero_weights_exp (c : HeteroB Dy Dx Da Dk ℝ) (y : Fin Dy → ℝ) (ωs ωd : Fin Dk → ℝ)
    (hw : ∀ k j, wTail (c.W k) j = 0) (hs : ∀ k, ωs k ^ 2 = wHead (c.W k) ^ 2)
    (hd : ∀ k, ωd k ^ 2 = wHead (c.W k) ^ 2) (x : Fin Dx → ℝ) :
    expLbIntegrand c y ωs ωd x =
      normalLn (toM (c.M 0) *ᵥ x + toV (c.b 0)) (precAt c (dval expOps c x)) (lnDetAt c (dval expOps c x)) y := by
  have hh : ∀ k, hW (c.W k) x = wHead (c.W k) := by
    intro k; simp [hW, dotProduct, hw k]
  rw [normalLn_coded]
  unfold expLbIntegrand
  congr 1
  · funext k
    simp only [dval, hval_eq_hW, expOps, transc_exp, hh]
    exact expLb_eq_of_sq _ _ (hs k).symm
  · funext k
    simp only [dval, hval_eq_hW, expOps, transc_exp, hh]
    exact (expK_eq_of_sq _ _ (hd k).symm).symm

/-- **C17 (tight at zero weights, cosh−1 link)** -/
theorem C17_tight_at_zero_weights_coshM1 (c : HeteroB Dy Dx Da Dk ℝ) (y : Fin Dy → ℝ)
    (ωs ωd : Fin Dk → ℝ) (hw : ∀ k j, wTail (c.W k) j = 0) (hs : ∀ k, ωs k ^ 2 = wHead (c.W k) ^ 2)
    (hd : ∀ k, ωd k ^ 2 = wHead (c.W k) ^ 2) (x : Fin Dx → ℝ) :
    coshLbIntegrand c y ωs ωd x =
      normalLn (toM (c.M 0) *ᵥ x + toV (c.b 0)) (precAt c (dval coshM1Ops c x))
        (lnDetAt c (dval coshM1Ops c x)) y := by
  have hh : ∀ k, hW (c.W k) x = wHead (c.W k) := by
    intro k; simp [hW, dotProduct, hw k]
  rw [normalLn_coded]
  unfold coshLbIntegrand
  congr 1
  · funext k
    simp only [dval, hval_eq_hW, coshM1Ops, transc_cosh, hh]
    exact coshLb_eq_of_sq _ _ (hs k).symm
  · funext k
    simp only [dval, hval_eq_hW, coshM1Ops, transc_cosh, hh]
    exact (coshK_eq_of_sq _ _ (hd k).symm).symm

/-- **tight at zero weights, sharpened**: a unit whose parameter `ωs k` is NOT at the tangent point
still contributes exactly if its projected residual vanishes at `x` -/
theorem C17_tight_at_zero_weights_exp_or (c : HeteroB Dy Dx Da Dk ℝ) (y : Fin Dy → ℝ) (ωs ωd : Fin Dk → ℝ)
    (hw : ∀ k j, wTail (c.W k) j = 0) (x : Fin Dx → ℝ)
    (hs : ∀ k, ωs k ^ 2 = wHead (c.W k) ^ 2 ∨ proj c y x k = 0)
    (hd : ∀ k, ωd k ^ 2 = wHead (c.W k) ^ 2) :
    expLbIntegrand c y ωs ωd x =
      normalLn (toM (c.M 0) *ᵥ x + toV (c.b 0)) (precAt c (dval expOps c x)) (lnDetAt c (dval expOps c x)) y := by
  have hh : ∀ k, hW (c.W k) x = wHead (c.W k) := by
    intro k; simp [hW, dotProduct, hw k]
  rw [normalLn_coded]
  unfold expLbIntegrand
  apply lnForm_congr'
  · intro k
    simp only [dval, hval_eq_hW, expOps, transc_exp, hh]
    rcases hs k with h1 | h1
    · rw [expLb_eq_of_sq _ _ h1.symm]
    · rw [h1]; simp
  · intro k
    simp only [dval, hval_eq_hW, expOps, transc_exp, hh]
    exact (expK_eq_of_sq _ _ (hd k).symm).symm

theorem C17_tight_at_zero_weights_coshM1_or (c : HeteroB Dy Dx Da Dk ℝ) (y : Fin Dy → ℝ)
    (ωs ωd : Fin Dk → ℝ) (hw : ∀ k j, wTail (c.W k) j = 0) (x : Fin Dx → ℝ)
    (hs : ∀ k, ωs k ^ 2 = wHead (c.W k) ^ 2 ∨ (cosh (wHead (c.W k)) - 1) * proj c y x k ^ 2 = 0)
    (hd : ∀ k, ωd k ^ 2 = wHead (c.W k) ^ 2) :
    coshLbIntegrand c y ωs ωd x =
      normalLn (toM (c.M 0) *ᵥ x + toV (c.b 0)) (precAt c (dval coshM1Ops c x))
        (lnDetAt c (dval coshM1Ops c x)) y := by
  have hh : ∀ k, hW (c.W k) x = wHead (c.W k) := by
    intro k; simp [hW, dotProduct, hw k]
  rw [normalLn_coded]
  unfold coshLbIntegrand
  apply lnForm_congr'
  · intro k
    simp only [dval, hval_eq_hW, coshM1Ops, transc_cosh, hh]
    rcases hs k with h1 | h1
    · rw [coshLb_eq_of_sq _ _ h1.symm]
    · rw [mul_right_comm, h1, div_mul_eq_mul_div, h1]; simp
  · intro k
    simp only [dval, hval_eq_hW, coshM1Ops, transc_cosh, hh]
    exact (coshK_eq_of_sq _ _ (hd k).symm).symm

end pointwiseDensity

/-! ## B4, integral level — the returned value is `∫ (integrand) p(x) dx ≤ ∫ ln p(y|x) p(x) dx` -/
section expectation
open Real MeasureTheory GT.Props.C03

/-- `∫ lnForm · ρ` splits into the integrals of its pieces -/
theorem integral_lnForm (c : HeteroB Dy Dx Da Dk ℝ) (y : Fin Dy → ℝ) (ρ : (Fin Dx → ℝ) → ℝ)
    (G ℓ : (Fin Dx → ℝ) → Fin Dk → ℝ) (hρ : Integrable ρ) (hρ1 : ∫ x, ρ x = 1)
    (hQ : Integrable fun x => (resid c y x ⬝ᵥ toM (c.Lambda 0) *ᵥ resid c y x) * ρ x)
    (hG : ∀ k, Integrable fun x => G x k * proj c y x k ^ 2 * ρ x)
    (hℓ : ∀ k, Integrable fun x => ℓ x k * ρ x) :
    Integrable (fun x => lnForm c y x (G x) (ℓ x) * ρ x) ∧
    ∫ x, lnForm c y x (G x) (ℓ x) * ρ x =
      -(1 / 2) * ((∫ x, (resid c y x ⬝ᵥ toM (c.Lambda 0) *ᵥ resid c y x) * ρ x)
        - (∑ k, ∫ x, G x k * proj c y x k ^ 2 * ρ x)
        + (c.lnDetSigma 0 + (∑ k, ∫ x, ℓ x k * ρ x)) + (Dy : ℝ) * log (2 * π)) := by
  have hI2 : Integrable fun x => ∑ k, G x k * proj c y x k ^ 2 * ρ x :=
    integrable_finsetSum _ fun k _ => hG k
  have hI4 : Integrable fun x => ∑ k, ℓ x k * ρ x := integrable_finsetSum _ fun k _ => hℓ k
  have e : ∀ x, lnForm c y x (G x) (ℓ x) * ρ x =
      -(1 / 2) * ((((resid c y x ⬝ᵥ toM (c.Lambda 0) *ᵥ resid c y x) * ρ x
        - ∑ k, G x k * proj c y x k ^ 2 * ρ x) + c.lnDetSigma 0 * ρ x)
        + ∑ k, ℓ x k * ρ x + (Dy : ℝ) * log (2 * π) * ρ x) := by
    intro x; unfold lnForm; rw [← Finset.sum_mul, ← Finset.sum_mul]; ring
  simp_rw [e]
  have h1 : Integrable fun x => (resid c y x ⬝ᵥ toM (c.Lambda 0) *ᵥ resid c y x) * ρ x
      - ∑ k, G x k * proj c y x k ^ 2 * ρ x := hQ.sub hI2
  have h2 : Integrable fun x => ((resid c y x ⬝ᵥ toM (c.Lambda 0) *ᵥ resid c y x) * ρ x
      - ∑ k, G x k * proj c y x k ^ 2 * ρ x) + c.lnDetSigma 0 * ρ x :=
    h1.add (hρ.const_mul (c.lnDetSigma 0))
  have h3 : Integrable fun x => (((resid c y x ⬝ᵥ toM (c.Lambda 0) *ᵥ resid c y x) * ρ x
      - ∑ k, G x k * proj c y x k ^ 2 * ρ x) + c.lnDetSigma 0 * ρ x) + ∑ k, ℓ x k * ρ x := h2.add hI4
  have h5 : Integrable fun x => (Dy : ℝ) * log (2 * π) * ρ x := hρ.const_mul _
  have h6 : Integrable fun x => c.lnDetSigma 0 * ρ x := hρ.const_mul _
  refine ⟨(h3.add h5).const_mul _, ?_⟩
  rw [integral_const_mul, integral_add h3 h5, integral_add h2 hI4,
    integral_add h1 h6, integral_sub hQ hI2, integral_const_mul, integral_const_mul, hρ1,
    integral_finsetSum _ (fun k _ => hG k), integral_finsetSum _ (fun k _ => hℓ k)]
  ring

/-! ### the model's integrals as Lebesgue integrals against `p(x)` -/

variable {R : Nat}

/-- the density `p_r(x)` of component `r` -/
noncomputable def dens (p : PdfV R Dx ℝ) (r : Fin R) (x : Fin Dx → ℝ) : ℝ :=
  Real.exp (p.toMeasure.evalLn r (ofV x))

theorem dens_nonneg (p : PdfV R Dx ℝ) (r : Fin R) (x : Fin Dx → ℝ) : 0 ≤ dens p r x := (exp_pos _).le

section quadInner
variable {be : Backend ℝ} (hbe : be.Spec) {D K : Nat} {m : MeasureB R D ℝ} (hm : m.Inv)
include hbe hm

/-- key `"(Ax+a)'(Bx+b)"` with its integrability -/
theorem quadInner_integral (f g : AffForm R K D ℝ) (r : Fin R) :
    Integrable (fun x : Fin D → ℝ => (∑ i, affFn f r i x * affFn g r i x) * Real.exp (m.evalLn r (ofV x))) ∧
    ((m.intView be).2.integrateQuadInner f g) r
      = ∫ x : Fin D → ℝ, (∑ i, affFn f r i x * affFn g r i x) * Real.exp (m.evalLn r (ofV x)) := by
  have hv := intView_spec hbe hm
  refine ⟨?_, C03_quad_inner hbe hm f g r⟩
  simp_rw [Finset.sum_mul]
  exact integrable_finsetSum _ fun i _ => (mom2_aux hm hv f g r i i).1

/-- key `"(Ax+a)'(Bx+b)(Cx+c)'(Dx+d)"` with its integrability -/
theorem quarticInner_integral {L : Nat} (f g : AffForm R K D ℝ) (h e : AffForm R L D ℝ) (r : Fin R) :
    Integrable (fun x : Fin D → ℝ => ((∑ i, affFn f r i x * affFn g r i x)
        * ∑ l, affFn h r l x * affFn e r l x) * Real.exp (m.evalLn r (ofV x))) ∧
    ((m.intView be).2.integrateQuarticInner f g h e) r
      = ∫ x : Fin D → ℝ, ((∑ i, affFn f r i x * affFn g r i x)
        * ∑ l, affFn h r l x * affFn e r l x) * Real.exp (m.evalLn r (ofV x)) := by
  have hv := intView_spec hbe hm
  refine ⟨?_, C03_quartic_inner hbe hm f g h e r⟩
  have e' : ∀ x : Fin D → ℝ, ((∑ i, affFn f r i x * affFn g r i x)
        * ∑ l, affFn h r l x * affFn e r l x) * Real.exp (m.evalLn r (ofV x))
      = ∑ i, ∑ l, affFn f r i x * affFn g r i x * affFn h r l x * affFn e r l x
          * Real.exp (m.evalLn r (ofV x)) := by
    intro x
    rw [Finset.sum_mul_sum]
    simp only [Finset.sum_mul, mul_assoc]
  simp_rw [e']
  exact integrable_finsetSum _ fun i _ => integrable_finsetSum _ fun l _ =>
    (mom4_aux hm hv f g h e r i i l l).1

theorem linear_integral (f : AffForm R K D ℝ) (r : Fin R) (i : Fin K) :
    Integrable (fun x : Fin D → ℝ => affFn f r i x * Real.exp (m.evalLn r (ofV x))) ∧
    ((m.intView be).2.integrateLinear f) r i
      = ∫ x : Fin D → ℝ, affFn f r i x * Real.exp (m.evalLn r (ofV x)) :=
  ⟨(mom1_aux hm (intView_spec hbe hm) f r i).1, C03_linear hbe hm f r i⟩

end quadInner

theorem affFn_hForm (Wi : Vec (Dx + 1) ℝ) (r : Fin R) (x : Fin Dx → ℝ) :
    affFn (hForm Wi : AffForm R 1 Dx ℝ) r 0 x = hW Wi x := by
  simp [affFn, hForm, hW, Matrix.mulVec, dotProduct]

/-- `A_mat = −projected_M`, `a_vec = projected_yb` of the homoscedastic term -/
def homoA (c : HeteroB Dy Dx Da Dk ℝ) (y : Arr R (Vec Dy ℝ)) : AffForm R Dy Dx ℝ :=
  let projM : Mat Dy Dx ℝ := mmul (transpose (c.Lambda 0)) (c.M 0)
  let yb : Arr R (Vec Dy ℝ) := tab fun r => vsub (y r) (c.b 0)
  let projYb : Arr R (Vec Dy ℝ) := tab fun r => vecMul (yb r) (c.Lambda 0)
  ⟨tab fun _ => mneg projM, projYb⟩

/-- `B_mat = −M`, `b_vec = y − b` -/
def homoB (c : HeteroB Dy Dx Da Dk ℝ) (y : Arr R (Vec Dy ℝ)) : AffForm R Dy Dx ℝ :=
  let yb : Arr R (Vec Dy ℝ) := tab fun r => vsub (y r) (c.b 0)
  ⟨tab fun _ => mneg (c.M 0), yb⟩

theorem getLbQuadraticTerm_eq (ops : HLinkOps ℝ) (be : Backend ℝ) (c : HeteroB Dy Dx Da Dk ℝ)
    (p : PdfV R Dx ℝ) (y : Arr R (Vec Dy ℝ)) (r : Fin R) :
    c.getLbQuadraticTerm ops be p y r =
      ((p.toMeasure.intView be).2.integrateQuadInner (homoA c y) (homoB c y)) r
      - ∑ k, ops.getLbHeteroscedasticTermI be c p y (c.W k)
          (tab fun i => (mmul (c.Lambda 0) c.Ak) i k) r := by
  simp only [HeteroB.getLbQuadraticTerm, homoA, homoB, tab_apply, vsum_real]

theorem homo_pointwise (c : HeteroB Dy Dx Da Dk ℝ) (y : Arr R (Vec Dy ℝ)) (r : Fin R) (x : Fin Dx → ℝ) :
    ∑ i, affFn (homoA c y) r i x * affFn (homoB c y) r i x
      = resid c (toV (y r)) x ⬝ᵥ toM (c.Lambda 0) *ᵥ resid c (toV (y r)) x := by
  have hB : (fun i => affFn (homoB c y) r i x) = resid c (toV (y r)) x := by
    funext i
    simp only [affFn, homoB, resid, tab_apply, toM_mneg, toV_vsub, Matrix.neg_mulVec, Pi.add_apply,
      Pi.neg_apply, Pi.sub_apply]
    ring
  have hA : (fun i => affFn (homoA c y) r i x) = (toM (c.Lambda 0))ᵀ *ᵥ resid c (toV (y r)) x := by
    funext i
    simp only [affFn, homoA, resid, tab_apply, toM_mneg, toM_mmul, toM_transpose, toV_vecMul, toV_vsub,
      Matrix.neg_mulVec, ← Matrix.mulVec_mulVec, Matrix.mulVec_transpose, Matrix.mulVec_sub,
      Matrix.mulVec_add, Pi.add_apply, Pi.neg_apply, Pi.sub_apply, Matrix.sub_vecMul]
    ring
  have : ∑ i, affFn (homoA c y) r i x * affFn (homoB c y) r i x
      = (fun i => affFn (homoA c y) r i x) ⬝ᵥ (fun i => affFn (homoB c y) r i x) := rfl
  rw [this, hA, hB, Matrix.mulVec_transpose, ← Matrix.dotProduct_mulVec]

theorem affFn_residualForm (c : HeteroB Dy Dx Da Dk ℝ) (y : Arr R (Vec Dy ℝ)) (k : Fin Dk) (r : Fin R)
    (x : Fin Dx → ℝ) :
    affFn (residualForm c y (tab fun i => (mmul (c.Lambda 0) c.Ak) i k)) r 0 x
      = proj c (toV (y r)) x k := by
  simp only [affFn, residualForm, proj, resid, tab_apply, vsum_real, Matrix.mulVec, dotProduct, toM_apply,
    toV_apply, Pi.add_apply, Pi.sub_apply, Matrix.transpose_apply, Matrix.mul_apply, mmul_apply]
  simp only [Finset.sum_mul, Finset.mul_sum, neg_mul, Finset.sum_neg_distrib, mul_sub, mul_add,
    Finset.sum_sub_distrib, Finset.sum_add_distrib]
  rw [Finset.sum_comm]
  ring_nf

/-! ### exp link: the heteroscedastic term -/

theorem oneRank_quad {n : Nat} (w x : Fin n → ℝ) (g : ℝ) :
    ∑ i, (∑ j, w i * (g * w j) * x j) * x i = g * (∑ i, w i * x i) * (∑ i, w i * x i) := by
  have h : ∀ i, (∑ j, w i * (g * w j) * x j) * x i = (w i * x i) * (g * ∑ j, w j * x j) := by
    intro i
    simp only [Finset.mul_sum, Finset.sum_mul]
    exact Finset.sum_congr rfl fun j _ => by ring
  simp_rw [h]
  rw [← Finset.sum_mul]; ring

theorem linear_dot {n : Nat} (w x : Fin n → ℝ) (a : ℝ) :
    ∑ i, x i * (a * w i) = a * ∑ i, w i * x i := by
  rw [Finset.mul_sum]; exact Finset.sum_congr rfl fun j _ => by ring

/-- the Gaussian-form factor `_lower_bound_integrals` multiplies `p_x` with (exp class; verbatim) -/
noncomputable def expLbFactor (Wi : Vec (Dx + 1) ℝ) (ω : Arr R ℝ) : Factor R Dx ℝ :=
  let b : ℝ := wHead Wi
  let w := wTail Wi
  let fomega : Arr _ ℝ := tab fun r => Transc.log (Transc.cosh (half * ω r)) + log2
  let fprime : Arr _ ℝ := tab fun r => half * Transc.tanh (half * ω r)
  let g1 : Arr _ ℝ := tab fun r => fprime r / ω r
  let nu1 : Arr _ (Vec _ ℝ) := tab2 fun r j => -((fprime r / ω r) * b - half) * w j
  let lnBeta1 : Arr _ ℝ := tab fun r =>
    -(fomega r) - half * fprime r / ω r * (b * b - ω r * ω r) + half * b
  .oneRank (tab fun _ => w) g1 nu1 lnBeta1

theorem expLbi_eq (be : Backend ℝ) (c : HeteroB Dy Dx Da Dk ℝ) (p : PdfV R Dx ℝ) (y : Arr R (Vec Dy ℝ))
    (Wi : Vec (Dx + 1) ℝ) (ai : Vec Dy ℝ) (ω : Arr R ℝ) :
    (expLowerBoundIntegrals be c p y Wi ai ω false).1 =
      ((p.toMeasure.hadamard be (expLbFactor Wi ω) true).intView be).2.integrateQuadInner
        (residualForm c y ai) (residualForm c y ai) := rfl

theorem expLbi_true (be : Backend ℝ) (c : HeteroB Dy Dx Da Dk ℝ) (p : PdfV R Dx ℝ) (y : Arr R (Vec Dy ℝ))
    (Wi : Vec (Dx + 1) ℝ) (ai : Vec Dy ℝ) (ω : Arr R ℝ) :
    expLowerBoundIntegrals be c p y Wi ai ω true =
      ((expLowerBoundIntegrals be c p y Wi ai ω false).1,
        some (((p.toMeasure.hadamard be (expLbFactor Wi ω) true).intView be).2.integrateQuarticInner
          (hForm Wi : AffForm R 1 Dx ℝ) (hForm Wi) (residualForm c y ai) (residualForm c y ai))) := rfl

/-- the factor evaluates to the Gaussian-form lower bound of the logistic function of `h(x)` -/
theorem expLbFactor_evalLn (Wi : Vec (Dx + 1) ℝ) (ω : Arr R ℝ) (r : Fin R) (x : Fin Dx → ℝ) :
    (expLbFactor Wi ω).evalLn r (ofV x) = expLbLn (ω r) (hW Wi x) := by
  rw [Factor.evalLn, C01.evalLn_real]
  simp only [expLbFactor, Factor.toB, oneRankLambda, tab_apply, ofV, half_real,
    log2, two_real, transc_log, transc_cosh, transc_tanh, expLbLn, hW, dotProduct, toV_apply]
  rw [oneRank_quad (fun i => wTail Wi i) x, linear_dot (fun i => wTail Wi i) x,
    show (1 / 2 : ℝ) * ω r = ω r / 2 by ring]
  ring

theorem factorPSD_oneRank {D : Nat} (v : Arr R (Vec D ℝ)) (g : Arr R ℝ) (nu : Arr R (Vec D ℝ))
    (lb : Arr R ℝ) (hg : ∀ r, 0 ≤ g r) : C04.FactorPSD (.oneRank v g nu lb) := by
  intro r
  have h : toM ((oneRankLambda v g) r) = g r • vecMulVec (toV (v r)) (toV (v r)) := by
    ext i j
    simp [oneRankLambda, vecMulVec_apply]; ring
  simp only [Factor.toB]
  rw [h]
  have hp := posSemidef_vecMulVec_self_star (toV (v r))
  rw [star_trivial] at hp
  exact hp.smul (hg r)

theorem factorPSD_linear {R' D : Nat} (nu : Arr R' (Vec D ℝ)) (lb : Arr R' ℝ) :
    C04.FactorPSD (.linear nu lb) := by
  intro r; simp only [Factor.toB, tab_apply, toM_zeroM]; exact Matrix.PosSemidef.zero

theorem expLbFactor_psd (Wi : Vec (Dx + 1) ℝ) (ω : Arr R ℝ) : C04.FactorPSD (expLbFactor Wi ω) := by
  apply factorPSD_oneRank
  intro r
  simp only [tab_apply, half_real, transc_tanh]
  have := GT.Math.tanh_div_self_nonneg (1 / 2 * ω r)
  have e : 1 / 2 * tanh (1 / 2 * ω r) / ω r = 1 / 4 * (tanh (1 / 2 * ω r) / (1 / 2 * ω r)) := by
    by_cases h : ω r = 0
    · simp [h]
    · field_simp; ring
  rw [e]; positivity

section expHet
variable {be : Backend ℝ} (hbe : be.Spec) {p : PdfV R Dx ℝ} (hp : p.toMeasure.Inv)
include hbe hp

/-- **the heteroscedastic term of unit `k` (exp class) is
`∫ exp(expLbLn ω h_k(x)) · (ã_kᵀ(y − Mx − b))² · p(x) dx`** for every `ω` -/
theorem exp_het_integral (c : HeteroB Dy Dx Da Dk ℝ) (y : Arr R (Vec Dy ℝ)) (k : Fin Dk) (ω : Arr R ℝ)
    (r : Fin R) :
    Integrable (fun x => exp (expLbLn (ω r) (hW (c.W k) x)) * proj c (toV (y r)) x k ^ 2 * dens p r x) ∧
    (expLowerBoundIntegrals be c p y (c.W k) (tab fun i => (mmul (c.Lambda 0) c.Ak) i k) ω false).1 r
      = ∫ x, exp (expLbLn (ω r) (hW (c.W k) x)) * proj c (toV (y r)) x k ^ 2 * dens p r x := by
  have hlb : (p.toMeasure.hadamard be (expLbFactor (c.W k) ω) true).Inv :=
    C04.C04_hadamard hbe _ _ true hp (expLbFactor_psd _ _)
  have h := quadInner_integral hbe hlb
    (residualForm c y (tab fun i => (mmul (c.Lambda 0) c.Ak) i k))
    (residualForm c y (tab fun i => (mmul (c.Lambda 0) c.Ak) i k)) r
  have e : ∀ x : Fin Dx → ℝ,
      (∑ i, affFn (residualForm c y (tab fun i => (mmul (c.Lambda 0) c.Ak) i k)) r i x
          * affFn (residualForm c y (tab fun i => (mmul (c.Lambda 0) c.Ak) i k)) r i x)
        * Real.exp ((p.toMeasure.hadamard be (expLbFactor (c.W k) ω) true).evalLn r (ofV x))
      = exp (expLbLn (ω r) (hW (c.W k) x)) * proj c (toV (y r)) x k ^ 2 * dens p r x := by
    intro x
    rw [Fin.sum_univ_one, affFn_residualForm, C01.C01_hadamard, Real.exp_add, expLbFactor_evalLn, dens]
    ring
  simp_rw [e] at h
  rw [expLbi_eq]
  exact h

/-- the fourth-order integral of `_lower_bound_integrals` (exp class) is
`∫ h_k(x)² · exp(expLbLn ω h_k(x)) · (ã_kᵀ(y − Mx − b))² · p(x) dx` for every `ω` -/
theorem exp_het4_integral (c : HeteroB Dy Dx Da Dk ℝ) (y : Arr R (Vec Dy ℝ)) (k : Fin Dk) (ω : Arr R ℝ)
    (r : Fin R) :
    Integrable (fun x => hW (c.W k) x ^ 2
      * (exp (expLbLn (ω r) (hW (c.W k) x)) * proj c (toV (y r)) x k ^ 2 * dens p r x)) ∧
    (((p.toMeasure.hadamard be (expLbFactor (c.W k) ω) true).intView be).2.integrateQuarticInner
        (hForm (c.W k) : AffForm R 1 Dx ℝ) (hForm (c.W k))
        (residualForm c y (tab fun i => (mmul (c.Lambda 0) c.Ak) i k))
        (residualForm c y (tab fun i => (mmul (c.Lambda 0) c.Ak) i k))) r
      = ∫ x, hW (c.W k) x ^ 2
          * (exp (expLbLn (ω r) (hW (c.W k) x)) * proj c (toV (y r)) x k ^ 2 * dens p r x) := by
  have hlb : (p.toMeasure.hadamard be (expLbFactor (c.W k) ω) true).Inv :=
    C04.C04_hadamard hbe _ _ true hp (expLbFactor_psd _ _)
  have h := quarticInner_integral hbe hlb (hForm (c.W k) : AffForm R 1 Dx ℝ) (hForm (c.W k))
    (residualForm c y (tab fun i => (mmul (c.Lambda 0) c.Ak) i k))
    (residualForm c y (tab fun i => (mmul (c.Lambda 0) c.Ak) i k)) r
  have e : ∀ x : Fin Dx → ℝ,
      ((∑ i, affFn (hForm (c.W k) : AffForm R 1 Dx ℝ) r i x * affFn (hForm (c.W k) : AffForm R 1 Dx ℝ) r i x)
        * ∑ i, affFn (residualForm c y (tab fun i => (mmul (c.Lambda 0) c.Ak) i k)) r i x
          * affFn (residualForm c y (tab fun i => (mmul (c.Lambda 0) c.Ak) i k)) r i x)
        * Real.exp ((p.toMeasure.hadamard be (expLbFactor (c.W k) ω) true).evalLn r (ofV x))
      = hW (c.W k) x ^ 2
          * (exp (expLbLn (ω r) (hW (c.W k) x)) * proj c (toV (y r)) x k ^ 2 * dens p r x) := by
    intro x
    rw [Fin.sum_univ_one, Fin.sum_univ_one, affFn_hForm, affFn_residualForm, C01.C01_hadamard,
      Real.exp_add, expLbFactor_evalLn, dens]
    ring
  simp_rw [e] at h
  exact h

end expHet

/-! ### generic comparison of the two expectations -/

/-- if `0 ≤ G ≤ 1`, `lbG·g_k² ≤ G·g_k²` ALMOST EVERYWHERE and `0 ≤ ℓ ≤ ub` pointwise, with the bound's
pieces integrable, then the true integrand is integrable and the expectation of the bound's integrand
is below the expectation of the true one (monotonicity of the integral, integrability PROVED) -/
theorem expectation_mono_ae (c : HeteroB Dy Dx Da Dk ℝ) (y : Fin Dy → ℝ) (ρ : (Fin Dx → ℝ) → ℝ)
    (hρ0 : ∀ x, 0 ≤ ρ x) (hρ : Integrable ρ) (hρ1 : ∫ x, ρ x = 1)
    (hQ : Integrable fun x => (resid c y x ⬝ᵥ toM (c.Lambda 0) *ᵥ resid c y x) * ρ x)
    (hq : ∀ k, Integrable fun x => proj c y x k ^ 2 * ρ x)
    (G lbG ℓ ub : (Fin Dx → ℝ) → Fin Dk → ℝ)
    (hGm : ∀ k, AEStronglyMeasurable fun x => G x k) (hG0 : ∀ x k, 0 ≤ G x k) (hG1 : ∀ x k, G x k ≤ 1)
    (hlbG : ∀ k, ∀ᵐ x, lbG x k * proj c y x k ^ 2 ≤ G x k * proj c y x k ^ 2)
    (hlbGi : ∀ k, Integrable fun x => lbG x k * proj c y x k ^ 2 * ρ x)
    (hℓm : ∀ k, AEStronglyMeasurable fun x => ℓ x k) (hℓ0 : ∀ x k, 0 ≤ ℓ x k)
    (hℓub : ∀ x k, ℓ x k ≤ ub x k) (hubi : ∀ k, Integrable fun x => ub x k * ρ x) :
    Integrable (fun x => lnForm c y x (G x) (ℓ x) * ρ x) ∧
    ∫ x, lnForm c y x (lbG x) (ub x) * ρ x ≤ ∫ x, lnForm c y x (G x) (ℓ x) * ρ x := by
  have hGi : ∀ k, Integrable fun x => G x k * proj c y x k ^ 2 * ρ x := by
    intro k
    have h := (hq k).bdd_mul (c := 1) (hGm k) (ae_of_all _ fun x => by
      rw [Real.norm_eq_abs, abs_le]
      exact ⟨by linarith [hG0 x k], hG1 x k⟩)
    exact h.congr (ae_of_all _ fun x => by ring)
  have hℓi : ∀ k, Integrable fun x => ℓ x k * ρ x := by
    intro k
    refine (hubi k).mono' ((hℓm k).mul hρ.aestronglyMeasurable) (ae_of_all _ fun x => ?_)
    rw [Real.norm_eq_abs, abs_of_nonneg (mul_nonneg (hℓ0 x k) (hρ0 x))]
    exact mul_le_mul_of_nonneg_right (hℓub x k) (hρ0 x)
  have h1 := integral_lnForm c y ρ lbG ub hρ hρ1 hQ hlbGi hubi
  have h2 := integral_lnForm c y ρ G ℓ hρ hρ1 hQ hGi hℓi
  refine ⟨h2.1, integral_mono_ae h1.1 h2.1 ?_⟩
  filter_upwards [ae_all_iff.2 hlbG] with x hx
  exact mul_le_mul_of_nonneg_right (lnForm_mono' c y x hx (hℓub x)) (hρ0 x)

/-- if `0 ≤ lbG ≤ G ≤ 1` and `0 ≤ ℓ ≤ ub` pointwise, with the bound's pieces integrable, then the
true integrand is integrable and the expectation of the bound's integrand is below the
expectation of the true one (monotonicity of the integral, integrability PROVED) -/
theorem expectation_mono (c : HeteroB Dy Dx Da Dk ℝ) (y : Fin Dy → ℝ) (ρ : (Fin Dx → ℝ) → ℝ)
    (hρ0 : ∀ x, 0 ≤ ρ x) (hρ : Integrable ρ) (hρ1 : ∫ x, ρ x = 1)
    (hQ : Integrable fun x => (resid c y x ⬝ᵥ toM (c.Lambda 0) *ᵥ resid c y x) * ρ x)
    (hq : ∀ k, Integrable fun x => proj c y x k ^ 2 * ρ x)
    (G lbG ℓ ub : (Fin Dx → ℝ) → Fin Dk → ℝ)
    (hGm : ∀ k, AEStronglyMeasurable fun x => G x k) (hG1 : ∀ x k, G x k ≤ 1)
    (hlbG0 : ∀ x k, 0 ≤ lbG x k) (hlbG : ∀ x k, lbG x k ≤ G x k)
    (hlbGi : ∀ k, Integrable fun x => lbG x k * proj c y x k ^ 2 * ρ x)
    (hℓm : ∀ k, AEStronglyMeasurable fun x => ℓ x k) (hℓ0 : ∀ x k, 0 ≤ ℓ x k)
    (hℓub : ∀ x k, ℓ x k ≤ ub x k) (hubi : ∀ k, Integrable fun x => ub x k * ρ x) :
    Integrable (fun x => lnForm c y x (G x) (ℓ x) * ρ x) ∧
    ∫ x, lnForm c y x (lbG x) (ub x) * ρ x ≤ ∫ x, lnForm c y x (G x) (ℓ x) * ρ x :=
  expectation_mono_ae c y ρ hρ0 hρ hρ1 hQ hq G lbG ℓ ub hGm
    (fun x k => (hlbG0 x k).trans (hlbG x k)) hG1
    (fun k => ae_of_all _ fun x => mul_le_mul_of_nonneg_right (hlbG x k) (sq_nonneg _))
    hlbGi hℓm hℓ0 hℓub hubi

theorem continuous_hW (Wi : Vec (Dx + 1) ℝ) : Continuous (hW Wi) := by
  unfold hW dotProduct
  fun_prop

/-! ### `_get_omega_star`: invariants of the fixed-point `while_loop`

The loop is started at `(ω†, ω† + 1, 0)`, so it runs: `ω*` is `ω†` only if 100 = 0; in general it is an
iterate `update^n(ω†)`, `n ≤ 100`.  Nothing below depends on `n` or on convergence: the lower-bound
theorems only need a property `P` of `ω*` that holds for `ω†` and is preserved by `update`
(`omegaWhile_invariant`, `baseGetOmegaStar_invariant`). -/

/-- **loop invariant**: a property of the start value that `update` preserves holds for the result of
the `while_loop`, whatever the number of iterations -/
theorem omegaWhile_invariant (P : Arr R ℝ → Prop) (update : Arr R ℝ → Arr R ℝ)
    (hupd : ∀ ω, P ω → P (update ω)) (fuel : Nat) (cur prev : Arr R ℝ) (hcur : P cur) :
    P (omegaWhile update fuel cur prev) := by
  induction fuel generalizing cur prev with
  | zero => exact hcur
  | succ n ih =>
    unfold omegaWhile
    split
    · exact ih _ _ (hupd _ hcur)
    · exact hcur

/-- the result of the loop is the start value or a value of `update` -/
theorem omegaWhile_eq_or (update : Arr R ℝ → Arr R ℝ) (fuel : Nat) (cur prev : Arr R ℝ) :
    omegaWhile update fuel cur prev = cur ∨ ∃ ω, omegaWhile update fuel cur prev = update ω :=
  omegaWhile_invariant (fun ω => ω = cur ∨ ∃ ω', ω = update ω') update
    (fun ω _ => Or.inr ⟨ω, rfl⟩) fuel cur prev (Or.inl rfl)

/-- over the reals every value is finite: the guard of the loop body is the identity -/
theorem keepFinite_real (old new : Arr R ℝ) : keepFinite old new = new := by
  apply Arr.ext; intro r
  simp only [keepFinite, isFiniteS, tab_apply, transc_lt, sub_self]
  norm_num

/-- **invariant of `_get_omega_star`**: what holds for `ω†` and is preserved by `_update_omega_star`
holds for `ω*` -/
theorem baseGetOmegaStar_invariant (god : OmegaDaggerFn ℝ) (upd : UpdateFn ℝ) (be : Backend ℝ)
    (c : HeteroB Dy Dx Da Dk ℝ) (p : PdfV R Dx ℝ) (y : Arr R (Vec Dy ℝ)) (Wi : Vec (Dx + 1) ℝ)
    (ai : Vec Dy ℝ) (P : Arr R ℝ → Prop) (h0 : P (god be p Wi))
    (hupd : ∀ ω, P ω → P (upd be c p y Wi ai ω)) :
    P (baseGetOmegaStar god upd be c p y Wi ai) := by
  simp only [baseGetOmegaStar, keepFinite_real]
  exact omegaWhile_invariant P _ hupd _ _ _ h0

theorem getOmegaStar_invariant (ops : HLinkOps ℝ) (be : Backend ℝ)
    (c : HeteroB Dy Dx Da Dk ℝ) (p : PdfV R Dx ℝ) (y : Arr R (Vec Dy ℝ)) (Wi : Vec (Dx + 1) ℝ)
    (ai : Vec Dy ℝ) (P : Arr R ℝ → Prop) (h0 : P (ops.getOmegaDagger be p Wi))
    (hupd : ∀ ω, P ω → P (ops.updateOmegaStar be c p y Wi ai ω)) :
    P (getOmegaStar ops be c p y Wi ai) :=
  baseGetOmegaStar_invariant _ _ be c p y Wi ai P h0 hupd

/-- the variational parameter `ω*` the class uses in the heteroscedastic term of unit `k`, component
`r`: the result of `_get_omega_star(p_x, y, W_k, ã_k)` (`ã_k` column `k` of `ΛA_k`) -/
noncomputable def omegaStar (ops : HLinkOps ℝ) (be : Backend ℝ) (c : HeteroB Dy Dx Da Dk ℝ)
    (p : PdfV R Dx ℝ) (y : Arr R (Vec Dy ℝ)) (r : Fin R) (k : Fin Dk) : ℝ :=
  getOmegaStar ops be c p y (c.W k) (tab fun i => (mmul (c.Lambda 0) c.Ak) i k) r

theorem foldl_max_zero (l : List ℝ) (h : ∀ x ∈ l, x = 0) :
    l.foldl (fun m x => if Transc.lt m x then x else m) 0 = 0 := by
  induction l with
  | nil => rfl
  | cons a l ih =>
    have ha : a = 0 := h a (by simp)
    subst ha
    simp only [List.foldl_cons, transc_lt, lt_self_iff_false, decide_false, Bool.false_eq_true, if_false]
    exact ih fun x hx => h x (by simp [hx])

theorem maxAbsDiff_self (a : Arr R ℝ) : maxAbsDiff a a = 0 := by
  unfold maxAbsDiff
  apply foldl_max_zero
  intro x hx
  rw [List.mem_ofFn] at hx
  obtain ⟨r, rfl⟩ := hx
  simp [absS]

theorem omegaTol_pos : (0 : ℝ) < omegaTol := by
  simp only [omegaTol, ofNat_real]; norm_num

/-- the loop stops at once when started with two equal iterates (NOT how `_get_omega_star` starts
it; kept as a fact about `lax.while_loop`) -/
theorem omegaWhile_self (update : Arr R ℝ → Arr R ℝ) (fuel : Nat) (cur : Arr R ℝ) :
    omegaWhile update fuel cur cur = cur := by
  cases fuel with
  | zero => rfl
  | succ n =>
    have : ¬ (omegaTol : ℝ) < 0 := not_lt.2 omegaTol_pos.le
    simp [omegaWhile, maxAbsDiff_self, this]

theorem foldl_max_one (l : List ℝ) (h : ∀ x ∈ l, x = 1) :
    l.foldl (fun m x => if Transc.lt m x then x else m) 1 = 1 := by
  induction l with
  | nil => rfl
  | cons a l ih =>
    have ha : a = 1 := h a (by simp)
    subst ha
    simp only [List.foldl_cons, transc_lt, lt_self_iff_false, decide_false, Bool.false_eq_true, if_false]
    exact ih fun x hx => h x (by simp [hx])

/-- the start pair `(ω†, ω† + 1)` of `_get_omega_star` differs by exactly one -/
theorem maxAbsDiff_add_one (a : Arr R ℝ) (hR : 0 < R) : maxAbsDiff a (tab fun r => a r + 1) = 1 := by
  unfold maxAbsDiff
  obtain ⟨n, rfl⟩ : ∃ n, R = n + 1 := ⟨R - 1, by omega⟩
  rw [List.ofFn_succ]
  have h1 : ∀ r : Fin (n + 1), absS (a r - (tab fun r => a r + 1 : Arr (n + 1) ℝ) r) = 1 := by
    intro r
    simp [absS]
  simp only [List.foldl_cons, h1, transc_lt, zero_lt_one, decide_true, if_true]
  apply foldl_max_one
  intro x hx
  rw [List.mem_ofFn] at hx
  obtain ⟨r, rfl⟩ := hx
  rfl

/-- **the repaired loop runs**: for `R ≥ 1` the condition of the `while_loop` holds on entry, so
`_get_omega_star` performs at least one `_update_omega_star` step (`ω*` is NOT `ω†` in general) -/
theorem baseGetOmegaStar_first_step (god : OmegaDaggerFn ℝ) (upd : UpdateFn ℝ) (be : Backend ℝ)
    (c : HeteroB Dy Dx Da Dk ℝ) (p : PdfV R Dx ℝ) (y : Arr R (Vec Dy ℝ)) (Wi : Vec (Dx + 1) ℝ)
    (ai : Vec Dy ℝ) (hR : 0 < R) :
    baseGetOmegaStar god upd be c p y Wi ai =
      omegaWhile (fun om => upd be c p y Wi ai om) 99 (upd be c p y Wi ai (god be p Wi)) (god be p Wi) := by
  have ht : (omegaTol : ℝ) < 1 := by
    simp only [omegaTol, ofNat_real]; norm_num
  simp only [baseGetOmegaStar, keepFinite_real]
  show omegaWhile _ (99 + 1) _ _ = _
  rw [omegaWhile, maxAbsDiff_add_one _ hR]
  simp [ht]

/-! ### the moment ratio of `_update_omega_star`: what `√(quartic/quadratic)` can be -/

theorem ae_zero_of_integral_zero {F : (Fin Dx → ℝ) → ℝ} (hF0 : ∀ x, 0 ≤ F x) (iF : Integrable F)
    (hz : ∫ x, F x = 0) : ∀ᵐ x, F x = 0 :=
  (integral_eq_zero_iff_of_nonneg (fun x => hF0 x) iF).1 hz

/-- `√(∫h²F / ∫F)` is non-zero unless `h²F = 0` almost everywhere (`F ≥ 0`) -/
theorem sqrt_ratio_cases {F h : (Fin Dx → ℝ) → ℝ} (hF0 : ∀ x, 0 ≤ F x) (iF : Integrable F)
    (i4 : Integrable fun x => h x ^ 2 * F x) :
    Real.sqrt ((∫ x, h x ^ 2 * F x) / ∫ x, F x) ≠ 0 ∨ ∀ᵐ x, h x ^ 2 * F x = 0 := by
  have h40 : ∀ x, 0 ≤ h x ^ 2 * F x := fun x => mul_nonneg (sq_nonneg _) (hF0 x)
  have q4 : 0 ≤ ∫ x, h x ^ 2 * F x := integral_nonneg h40
  have q2 : 0 ≤ ∫ x, F x := integral_nonneg hF0
  by_cases hs : Real.sqrt ((∫ x, h x ^ 2 * F x) / ∫ x, F x) = 0
  · right
    rw [Real.sqrt_eq_zero'] at hs
    rcases q2.eq_or_lt with e2 | e2
    · filter_upwards [ae_zero_of_integral_zero hF0 iF e2.symm] with x hx
      rw [hx, mul_zero]
    · have : (∫ x, h x ^ 2 * F x) ≤ 0 := by
        by_contra hc
        exact absurd hs (not_le.2 (div_pos (not_le.1 hc) e2))
      exact ae_zero_of_integral_zero h40 i4 (le_antisymm this q4)
  · exact Or.inl hs

/-- for constant `h ≡ w0` the ratio is `|w0|` unless `F = 0` almost everywhere -/
theorem sqrt_ratio_const {F : (Fin Dx → ℝ) → ℝ} (hF0 : ∀ x, 0 ≤ F x) (iF : Integrable F) (w0 : ℝ) :
    Real.sqrt ((∫ x, w0 ^ 2 * F x) / ∫ x, F x) ^ 2 = w0 ^ 2 ∨ ∀ᵐ x, F x = 0 := by
  by_cases e2 : ∫ x, F x = 0
  · exact Or.inr (ae_zero_of_integral_zero hF0 iF e2)
  · left
    rw [integral_const_mul, mul_div_assoc, div_self e2, mul_one, Real.sq_sqrt (sq_nonneg _)]

/-! ### exp link: one step of the fixed-point iteration -/
section expUpdate
variable {be : Backend ℝ} (hbe : be.Spec) {p : PdfV R Dx ℝ} (hp : p.toMeasure.Inv)
include hbe hp

omit hbe hp in
/-- `_update_omega_star` (exp class): `√(quartic / quadratic)` of the two integrals -/
theorem exp_update_eq (c : HeteroB Dy Dx Da Dk ℝ) (y : Arr R (Vec Dy ℝ)) (Wi : Vec (Dx + 1) ℝ)
    (ai : Vec Dy ℝ) (ω : Arr R ℝ) (r : Fin R) :
    baseUpdateOmegaStar expLowerBoundIntegrals be c p y Wi ai ω r =
      Real.sqrt ((((p.toMeasure.hadamard be (expLbFactor Wi ω) true).intView be).2.integrateQuarticInner
          (hForm Wi : AffForm R 1 Dx ℝ) (hForm Wi) (residualForm c y ai) (residualForm c y ai)) r
        / (expLowerBoundIntegrals be c p y Wi ai ω false).1 r) := by
  simp only [baseUpdateOmegaStar, expLbi_true, tab_apply, transc_sqrt]

/-- **one step of the fixed-point iteration (exp class)**: the new parameter is non-zero, unless
`h_k(x)·ã_kᵀ(y − Mx − b) = 0` for almost every `x` (then a moment is zero and the real-number model of
`√(quartic/quadratic)` returns `0`; the floating-point code returns `0` or NaN) — for EVERY old `ω` -/
theorem exp_update_cases (c : HeteroB Dy Dx Da Dk ℝ) (y : Arr R (Vec Dy ℝ)) (k : Fin Dk) (ω : Arr R ℝ)
    (r : Fin R) :
    baseUpdateOmegaStar expLowerBoundIntegrals be c p y (c.W k)
        (tab fun i => (mmul (c.Lambda 0) c.Ak) i k) ω r ≠ 0
      ∨ ∀ᵐ x, hW (c.W k) x * proj c (toV (y r)) x k = 0 := by
  obtain ⟨i2, e2⟩ := exp_het_integral hbe hp c y k ω r
  obtain ⟨i4, e4⟩ := exp_het4_integral hbe hp c y k ω r
  rw [exp_update_eq, e2, e4]
  rcases sqrt_ratio_cases (h := hW (c.W k)) (fun x => mul_nonneg (mul_nonneg (exp_pos _).le (sq_nonneg _))
    (dens_nonneg p r x)) i2 i4 with h | h
  · exact Or.inl h
  · right
    filter_upwards [h] with x hx
    have hd : 0 < dens p r x := exp_pos _
    have he := exp_pos (expLbLn (ω r) (hW (c.W k) x))
    have h3 : (hW (c.W k) x * proj c (toV (y r)) x k) ^ 2
        * (exp (expLbLn (ω r) (hW (c.W k) x)) * dens p r x) = 0 := by rw [← hx]; ring
    exact pow_eq_zero_iff two_ne_zero |>.1 ((mul_eq_zero.1 h3).resolve_right (mul_pos he hd).ne')

/-- **one step of the iteration at zero input weights (exp class)**: `h_k ≡ w0_k`, so the new
parameter is `|w0_k|` (the tangent point), unless the projected residual vanishes almost everywhere -/
theorem exp_update_zero_weights (c : HeteroB Dy Dx Da Dk ℝ) (y : Arr R (Vec Dy ℝ)) (k : Fin Dk)
    (ω : Arr R ℝ) (r : Fin R) (hw : ∀ j, wTail (c.W k) j = 0) :
    baseUpdateOmegaStar expLowerBoundIntegrals be c p y (c.W k)
        (tab fun i => (mmul (c.Lambda 0) c.Ak) i k) ω r ^ 2 = wHead (c.W k) ^ 2
      ∨ ∀ᵐ x, proj c (toV (y r)) x k = 0 := by
  obtain ⟨i2, e2⟩ := exp_het_integral hbe hp c y k ω r
  obtain ⟨-, e4⟩ := exp_het4_integral hbe hp c y k ω r
  have hh : ∀ x, hW (c.W k) x = wHead (c.W k) := by
    intro x; simp [hW, dotProduct, hw]
  rw [exp_update_eq, e2, e4]
  simp_rw [hh] at i2 ⊢
  rcases sqrt_ratio_const (fun x => mul_nonneg (mul_nonneg (exp_pos _).le (sq_nonneg _))
    (dens_nonneg p r x)) i2 (wHead (c.W k)) with h | h
  · exact Or.inl h
  · right
    filter_upwards [h] with x hx
    have hd : 0 < dens p r x := exp_pos _
    have he := exp_pos (expLbLn (ω r) (wHead (c.W k)))
    have h3 : proj c (toV (y r)) x k ^ 2
        * (exp (expLbLn (ω r) (wHead (c.W k))) * dens p r x) = 0 := by rw [← hx]; ring
    exact pow_eq_zero_iff two_ne_zero |>.1 ((mul_eq_zero.1 h3).resolve_right (mul_pos he hd).ne')

end expUpdate

/-! ### exp link: log-determinant term, homoscedastic term, assembly -/

section expAssembly
variable {be : Backend ℝ} (hbe : be.Spec) {p : PdfV R Dx ℝ} (hp : p.toMeasure.Inv)
include hbe hp

omit hbe in
theorem dens_integrable (r : Fin R) : Integrable (dens p r) := integrable_mom0 hp r

theorem hW_moments (Wi : Vec (Dx + 1) ℝ) (r : Fin R) :
    (Integrable (fun x => hW Wi x * dens p r x) ∧
      ((p.toMeasure.intView be).2.integrateLinear (hForm Wi : AffForm R 1 Dx ℝ)) r 0
        = ∫ x, hW Wi x * dens p r x) ∧
    (Integrable (fun x => hW Wi x * hW Wi x * dens p r x) ∧
      ((p.toMeasure.intView be).2.integrateQuadInner (hForm Wi : AffForm R 1 Dx ℝ) (hForm Wi)) r
        = ∫ x, hW Wi x * hW Wi x * dens p r x) := by
  have h1 := linear_integral hbe hp (hForm Wi : AffForm R 1 Dx ℝ) r 0
  have h2 := quadInner_integral hbe hp (hForm Wi : AffForm R 1 Dx ℝ) (hForm Wi) r
  simp_rw [Fin.sum_univ_one, affFn_hForm] at h1 h2
  exact ⟨h1, h2⟩

/-- **`k_func` (exp class) is `∫ expK ω h(x) h(x)² p(x) dx`** for a normalised `p` -/
theorem exp_kfunc_integral (Wi : Vec (Dx + 1) ℝ) (ω : Arr R ℝ) (r : Fin R)
    (hp1 : ∫ x, dens p r x = 1) :
    Integrable (fun x => expK (ω r) (hW Wi x) (hW Wi x * hW Wi x) * dens p r x) ∧
    expKFunc be p Wi ω r = ∫ x, expK (ω r) (hW Wi x) (hW Wi x * hW Wi x) * dens p r x := by
  obtain ⟨⟨i1, e1⟩, ⟨i2, e2⟩⟩ := hW_moments hbe hp Wi r
  have hρ := dens_integrable hp r
  set a : ℝ := log (cosh (ω r / 2)) + log 2 with ha
  set bb : ℝ := 1 / 2 * (1 / 2 * tanh (ω r / 2)) / ω r with hbb
  have e : ∀ x, expK (ω r) (hW Wi x) (hW Wi x * hW Wi x) * dens p r x
      = (1 / 2 * (hW Wi x * dens p r x) + (a - bb * (ω r * ω r)) * dens p r x)
        + bb * (hW Wi x * hW Wi x * dens p r x) := by
    intro x; unfold expK; rw [← ha, ← hbb]; ring
  simp_rw [e]
  have j1 : Integrable fun x => 1 / 2 * (hW Wi x * dens p r x) := i1.const_mul _
  have j2 : Integrable fun x => (a - bb * (ω r * ω r)) * dens p r x := hρ.const_mul _
  have j3 : Integrable fun x => bb * (hW Wi x * hW Wi x * dens p r x) := i2.const_mul _
  have j12 : Integrable fun x => 1 / 2 * (hW Wi x * dens p r x)
      + (a - bb * (ω r * ω r)) * dens p r x := j1.add j2
  refine ⟨j12.add j3, ?_⟩
  rw [integral_add j12 j3, integral_add j1 j2, integral_const_mul, integral_const_mul,
    integral_const_mul, hp1, expKFunc_eq, e1, e2]
  unfold expK
  rw [← ha, ← hbb]; ring

/-- the homoscedastic term is `∫ (y−Mx−b)ᵀΛ(y−Mx−b) p(x) dx` -/
theorem homo_integral (c : HeteroB Dy Dx Da Dk ℝ) (y : Arr R (Vec Dy ℝ)) (r : Fin R) :
    Integrable (fun x => (resid c (toV (y r)) x ⬝ᵥ toM (c.Lambda 0) *ᵥ resid c (toV (y r)) x) * dens p r x) ∧
    ((p.toMeasure.intView be).2.integrateQuadInner (homoA c y) (homoB c y)) r
      = ∫ x, (resid c (toV (y r)) x ⬝ᵥ toM (c.Lambda 0) *ᵥ resid c (toV (y r)) x) * dens p r x := by
  have h := quadInner_integral hbe hp (homoA c y) (homoB c y) r
  simp_rw [homo_pointwise] at h
  exact h

/-- `∫ (ã_kᵀ(y−Mx−b))² p(x) dx` is finite -/
theorem proj_sq_integrable (c : HeteroB Dy Dx Da Dk ℝ) (y : Arr R (Vec Dy ℝ)) (k : Fin Dk) (r : Fin R) :
    Integrable (fun x => proj c (toV (y r)) x k ^ 2 * dens p r x) := by
  have h := (quadInner_integral hbe hp
    (residualForm c y (tab fun i => (mmul (c.Lambda 0) c.Ak) i k))
    (residualForm c y (tab fun i => (mmul (c.Lambda 0) c.Ak) i k)) r).1
  simp_rw [Fin.sum_univ_one, affFn_residualForm] at h
  exact h.congr (ae_of_all _ fun x => by simp only [dens]; ring)

/-- the variational parameter the exp / cosh−1 classes use in `get_lb_log_det` for unit `k` of
component `r`: `ω†_k = √E[h_k²]` (also the start value of the iteration for `ω*_k`) -/
noncomputable def omegaDag (be : Backend ℝ) (c : HeteroB Dy Dx Da Dk ℝ) (p : PdfV R Dx ℝ) (r : Fin R)
    (k : Fin Dk) : ℝ := baseGetOmegaDagger be p (c.W k) r

omit hbe hp in
theorem integrateLogConditionalY_exp_eq (c : HeteroB Dy Dx Da Dk ℝ) (y : Arr R (Vec Dy ℝ)) (r : Fin R) :
    c.integrateLogConditionalY expOps be p y r =
      -(1 / 2) * (((p.toMeasure.intView be).2.integrateQuadInner (homoA c y) (homoB c y)) r
        - (∑ k, (expLowerBoundIntegrals be c p y (c.W k) (tab fun i => (mmul (c.Lambda 0) c.Ak) i k)
            (getOmegaStar expOps be c p y (c.W k) (tab fun i => (mmul (c.Lambda 0) c.Ak) i k)) false).1 r)
        + (c.lnDetSigma 0 + ∑ k, expKFunc be p (c.W k) (baseGetOmegaDagger be p (c.W k)) r)
        + (Dy : ℝ) * log (2 * π)) := by
  simp only [HeteroB.integrateLogConditionalY, getLbQuadraticTerm_eq, tab_apply, half_real, ofNat_real,
    log2pi_real, expOps, baseGetLbHeteroscedasticTermI, getOmegaStar, baseGetLbLogDet, vsum_real]
  ring

/-- **`ω*` of the exp class** (result of the fixed-point loop started at `ω† ≠ 0`): non-zero, unless
`h_k(x)·ã_kᵀ(y − Mx − b) = 0` for almost every `x` (loop invariant; no statement about the number
of iterations or convergence is needed) -/
theorem omegaStar_exp_cases (c : HeteroB Dy Dx Da Dk ℝ) (y : Arr R (Vec Dy ℝ)) (r : Fin R) (k : Fin Dk)
    (h0 : omegaDag be c p r k ≠ 0) :
    omegaStar expOps be c p y r k ≠ 0 ∨ ∀ᵐ x, hW (c.W k) x * proj c (toV (y r)) x k = 0 :=
  getOmegaStar_invariant expOps be c p y (c.W k) (tab fun i => (mmul (c.Lambda 0) c.Ak) i k)
    (fun ω => ω r ≠ 0 ∨ ∀ᵐ x, hW (c.W k) x * proj c (toV (y r)) x k = 0) (Or.inl h0)
    (fun ω _ => exp_update_cases hbe hp c y k ω r)

/-- **identification of the returned value (exp class, all shapes `Dy ≤ Da`)**:
`integrate_log_conditional_y(p_x, y)` is the expectation under `p_x` of `expLbIntegrand`
at `ω*` (result of `_get_omega_star`, heteroscedastic term) and `ω† = √E[h²]` (log-determinant). -/
theorem C17_exp_value_eq_integral (c : HeteroB Dy Dx Da Dk ℝ) (y : Arr R (Vec Dy ℝ)) (r : Fin R)
    (hp1 : ∫ x, dens p r x = 1) :
    Integrable (fun x => expLbIntegrand c (toV (y r)) (omegaStar expOps be c p y r) (omegaDag be c p r) x
      * dens p r x) ∧
    c.integrateLogConditionalY expOps be p y r =
      ∫ x, expLbIntegrand c (toV (y r)) (omegaStar expOps be c p y r) (omegaDag be c p r) x * dens p r x := by
  have h := integral_lnForm c (toV (y r)) (dens p r)
    (fun x k => exp (expLbLn (omegaStar expOps be c p y r k) (hW (c.W k) x)))
    (fun x k => expK (omegaDag be c p r k) (hW (c.W k) x) (hW (c.W k) x * hW (c.W k) x))
    (dens_integrable hp r) hp1 (homo_integral hbe hp c y r).1
    (fun k => (exp_het_integral hbe hp c y k _ r).1)
    (fun k => (exp_kfunc_integral hbe hp (c.W k) _ r hp1).1)
  refine ⟨h.1, ?_⟩
  unfold expLbIntegrand
  rw [h.2, integrateLogConditionalY_exp_eq, (homo_integral hbe hp c y r).2]
  congr 3
  · congr 1
    exact Finset.sum_congr rfl fun k _ => (exp_het_integral hbe hp c y k _ r).2
  · congr 1
    exact Finset.sum_congr rfl fun k _ => (exp_kfunc_integral hbe hp (c.W k) _ r hp1).2

/-- **C17 (lower bound, exp class; all shapes)**: the returned value never exceeds the expectation
of the log-density built from the RETURNED precision and log-determinant of
`get_conditional_cov(x, invert=True)`; the right-hand side is integrable.  The only hypothesis on
the variational parameters is `ω† ≠ 0`; what is needed of the loop output `ω*` is a loop invariant
(`omegaStar_exp_cases`). -/
theorem C17_lower_bound_exp_coded (c : HeteroB Dy Dx Da Dk ℝ) (y : Arr R (Vec Dy ℝ)) (r : Fin R)
    (hp1 : ∫ x, dens p r x = 1) (hω : ∀ k, omegaDag be c p r k ≠ 0) :
    Integrable (fun x => normalLn (toM (c.M 0) *ᵥ x + toV (c.b 0)) (precAt c (dval expOps c x))
      (lnDetAt c (dval expOps c x)) (toV (y r)) * dens p r x) ∧
    c.integrateLogConditionalY expOps be p y r ≤
      ∫ x, normalLn (toM (c.M 0) *ᵥ x + toV (c.b 0)) (precAt c (dval expOps c x))
        (lnDetAt c (dval expOps c x)) (toV (y r)) * dens p r x := by
  have hd : ∀ x k, dval expOps c x k = exp (hW (c.W k) x) := fun x k => by
    simp only [dval, hval_eq_hW, expOps, transc_exp]
  have hcont : ∀ k, Continuous fun x => exp (hW (c.W k) x) := fun k =>
    Real.continuous_exp.comp (continuous_hW _)
  have hpos : ∀ k x, (0:ℝ) < 1 + exp (hW (c.W k) x) := fun k x => by have := exp_pos (hW (c.W k) x); linarith
  have hm := expectation_mono_ae c (toV (y r)) (dens p r) (dens_nonneg p r) (dens_integrable hp r) hp1
    (homo_integral hbe hp c y r).1 (fun k => proj_sq_integrable hbe hp c y k r)
    (fun x k => dval expOps c x k / (1 + dval expOps c x k))
    (fun x k => exp (expLbLn (omegaStar expOps be c p y r k) (hW (c.W k) x)))
    (fun x k => log (1 + dval expOps c x k))
    (fun x k => expK (omegaDag be c p r k) (hW (c.W k) x) (hW (c.W k) x * hW (c.W k) x))
    (fun k => by
      simp_rw [hd]
      exact ((hcont k).div (continuous_const.add (hcont k)) fun x => (hpos k x).ne').aestronglyMeasurable)
    (fun x k => by
      rw [hd]; exact div_nonneg (exp_pos _).le (hpos k x).le)
    (fun x k => by
      rw [hd, div_le_one (hpos k x)]; linarith)
    (fun k => by
      rcases omegaStar_exp_cases hbe hp c y r k (hω k) with h | h
      · exact ae_of_all _ fun x => by rw [hd]; exact expLb_mul_le _ _ _ (Or.inl h)
      · filter_upwards [h] with x hx
        rw [hd]; exact expLb_mul_le _ _ _ (Or.inr hx))
    (fun k => (exp_het_integral hbe hp c y k _ r).1)
    (fun k => by
      simp_rw [hd]
      exact ((continuous_const.add (hcont k)).log fun x => (hpos k x).ne').aestronglyMeasurable)
    (fun x k => by
      rw [hd]; exact log_nonneg (by have := exp_pos (hW (c.W k) x); linarith))
    (fun x k => by rw [hd]; exact expK_ge _ _ (hω k))
    (fun k => (exp_kfunc_integral hbe hp (c.W k) _ r hp1).1)
  simp_rw [normalLn_coded]
  refine ⟨hm.1, ?_⟩
  rw [(C17_exp_value_eq_integral hbe hp c y r hp1).2]
  exact hm.2

/-- **C17 (lower bound, exp class; decoupled case, in particular `Da = Dy`)**:
`integrate_log_conditional_y(p_x, y) ≤ E_{p_x}[ln N(y; Mx+b, AAᵀ + A_k diag(exp(Wx+w0)) A_kᵀ)]`. -/
theorem C17_lower_bound_exp (c : HeteroB Dy Dx Da Dk ℝ) (hc : HeteroOK c) (hdec : Decoupled c)
    (y : Arr R (Vec Dy ℝ)) (r : Fin R) (hp1 : ∫ x, dens p r x = 1) (hω : ∀ k, omegaDag be c p r k ≠ 0) :
    c.integrateLogConditionalY expOps be p y r ≤
      ∫ x, normalLn (toM (c.M 0) *ᵥ x + toV (c.b 0)) (covAt c (dval expOps c x))⁻¹
        (Real.log (covAt c (dval expOps c x)).det) (toV (y r)) * dens p r x := by
  have h := (C17_lower_bound_exp_coded hbe hp c y r hp1 hω).2
  simp_rw [precAt_eq_inv hc hdec (dval_exp_nonneg c _), lnDetAt_eq hc hdec (dval_exp_nonneg c _)] at h
  exact h

/-- the same with the right-hand side spelled through the model: the expectation of
`condition_on_x(x).evaluate_ln(y)` -/
theorem C17_lower_bound_exp_model (c : HeteroB Dy Dx Da Dk ℝ) (hc : HeteroOK c) (hdec : Decoupled c)
    (y : Arr R (Vec Dy ℝ)) (r : Fin R) (hp1 : ∫ x, dens p r x = 1) (hω : ∀ k, omegaDag be c p r k ≠ 0) :
    c.integrateLogConditionalY expOps be p y r ≤
      ∫ x, (c.conditionOnX expOps be (tab fun _ : Fin 1 => ofV x)).evalLn 0 (y r) * dens p r x := by
  have h := C17_lower_bound_exp hbe hp c hc hdec y r hp1 hω
  have e : ∀ x : Fin Dx → ℝ, (c.conditionOnX expOps be (tab fun _ : Fin 1 => ofV x)).evalLn 0 (y r)
      = normalLn (toM (c.M 0) *ᵥ x + toV (c.b 0)) (covAt c (dval expOps c x))⁻¹
        (Real.log (covAt c (dval expOps c x)).det) (toV (y r)) := by
    intro x
    have := C17_conditionOnX_evalLn hbe expOps c hc hdec (tab fun _ : Fin 1 => ofV x)
      (fun n k => dval_exp_nonneg c _ k) 0 (toV (y r))
    simpa using this
  simp_rw [e]
  exact h

end expAssembly

/-! ### cosh−1 link -/

/-- the Gaussian-form factor of the cosh−1 class (verbatim) -/
noncomputable def coshLbFactor (Wi : Vec (Dx + 1) ℝ) (ω : Arr R ℝ) : Factor R Dx ℝ :=
  let b : ℝ := wHead Wi
  let w := wTail Wi
  let fomega : Arr _ ℝ := tab fun r => Transc.log (Transc.cosh (ω r))
  let fprime : Arr _ ℝ := tab fun r => half * Transc.tanh (ω r) / ω r
  let g1 : Arr _ ℝ := tab fun r => two * fprime r
  let nu1 : Arr _ (Vec _ ℝ) := tab2 fun r j => -two * fprime r * b * w j
  let lnBeta1 : Arr _ ℝ := tab fun r => -(fomega r) - fprime r * (b * b - ω r * ω r)
  .oneRank (tab fun _ => w) g1 nu1 lnBeta1

/-- `LinearFactor(nu=w, ln_beta=b − log 2)`: `eʰ/2` -/
noncomputable def expPlusFactor (Wi : Vec (Dx + 1) ℝ) : Factor 1 Dx ℝ :=
  .linear (tab fun _ => wTail Wi) (tab fun _ => wHead Wi - log2)
/-- `LinearFactor(nu=−w, ln_beta=−b − log 2)`: `e⁻ʰ/2` -/
noncomputable def expMinusFactor (Wi : Vec (Dx + 1) ℝ) : Factor 1 Dx ℝ :=
  .linear (tab fun _ => vneg (wTail Wi)) (tab fun _ => -(wHead Wi) - log2)

theorem coshLbi_eq (be : Backend ℝ) (c : HeteroB Dy Dx Da Dk ℝ) (p : PdfV R Dx ℝ) (y : Arr R (Vec Dy ℝ))
    (Wi : Vec (Dx + 1) ℝ) (ai : Vec Dy ℝ) (ω : Arr R ℝ) :
    (coshLowerBoundIntegrals be c p y Wi ai ω false).1 =
      let lb := p.toMeasure.hadamard be (coshLbFactor Wi ω) true
      let fq := residualForm c y ai
      tab fun r =>
        (((lb.hadamardBF be (expPlusFactor Wi) true).intView be).2.integrateQuadInner fq fq) r
        + (((lb.hadamardBF be (expMinusFactor Wi) true).intView be).2.integrateQuadInner fq fq) r
        - ((lb.intView be).2.integrateQuadInner fq fq) r := rfl

theorem coshLbi_true (be : Backend ℝ) (c : HeteroB Dy Dx Da Dk ℝ) (p : PdfV R Dx ℝ) (y : Arr R (Vec Dy ℝ))
    (Wi : Vec (Dx + 1) ℝ) (ai : Vec Dy ℝ) (ω : Arr R ℝ) :
    coshLowerBoundIntegrals be c p y Wi ai ω true =
      ((coshLowerBoundIntegrals be c p y Wi ai ω false).1,
        let lb := p.toMeasure.hadamard be (coshLbFactor Wi ω) true
        let fq := residualForm c y ai
        let fh : AffForm R 1 Dx ℝ := hForm Wi
        some (tab fun r =>
          (((lb.hadamardBF be (expPlusFactor Wi) true).intView be).2.integrateQuarticInner fh fh fq fq) r
          + (((lb.hadamardBF be (expMinusFactor Wi) true).intView be).2.integrateQuarticInner fh fh fq fq) r
          - ((lb.intView be).2.integrateQuarticInner fh fh fq fq) r)) := rfl

theorem coshLbFactor_evalLn (Wi : Vec (Dx + 1) ℝ) (ω : Arr R ℝ) (r : Fin R) (x : Fin Dx → ℝ) :
    (coshLbFactor Wi ω).evalLn r (ofV x) = coshLbLn (ω r) (hW Wi x) := by
  rw [Factor.evalLn, C01.evalLn_real]
  simp only [coshLbFactor, Factor.toB, oneRankLambda, tab_apply, ofV, half_real,
    two_real, transc_log, transc_cosh, transc_tanh, coshLbLn, hW, dotProduct, toV_apply]
  rw [oneRank_quad (fun i => wTail Wi i) x, linear_dot (fun i => wTail Wi i) x]
  ring

theorem expPlusFactor_evalLn (Wi : Vec (Dx + 1) ℝ) (x : Fin Dx → ℝ) :
    Real.exp ((expPlusFactor Wi).evalLn 0 (ofV x)) = exp (hW Wi x) / 2 := by
  rw [Factor.evalLn, C01.evalLn_real]
  simp only [expPlusFactor, Factor.toB, tab_apply, ofV, log2, two_real, transc_log, zeroM_apply, zero_mul,
    Finset.sum_const_zero, mul_zero, neg_zero, zero_add, hW, dotProduct, toV_apply]
  rw [show (∑ i, x i * wTail Wi i) + (wHead Wi - log 2) = ((∑ i, wTail Wi i * x i) + wHead Wi) - log 2 by
    rw [Finset.sum_congr rfl fun i _ => mul_comm (x i) (wTail Wi i)]; ring,
    Real.exp_sub, Real.exp_log (by norm_num)]

theorem expMinusFactor_evalLn (Wi : Vec (Dx + 1) ℝ) (x : Fin Dx → ℝ) :
    Real.exp ((expMinusFactor Wi).evalLn 0 (ofV x)) = exp (-hW Wi x) / 2 := by
  rw [Factor.evalLn, C01.evalLn_real]
  simp only [expMinusFactor, Factor.toB, tab_apply, ofV, log2, two_real, transc_log, zeroM_apply, zero_mul,
    Finset.sum_const_zero, mul_zero, neg_zero, zero_add, hW, dotProduct, toV_apply, vneg_apply]
  rw [show (∑ i, x i * -wTail Wi i) + (-wHead Wi - log 2) = -((∑ i, wTail Wi i * x i) + wHead Wi) - log 2 by
    rw [Finset.sum_congr rfl fun i _ => show x i * -wTail Wi i = -(wTail Wi i * x i) by ring,
      Finset.sum_neg_distrib]; ring,
    Real.exp_sub, Real.exp_log (by norm_num)]

theorem coshLbFactor_psd (Wi : Vec (Dx + 1) ℝ) (ω : Arr R ℝ) : C04.FactorPSD (coshLbFactor Wi ω) := by
  apply factorPSD_oneRank
  intro r
  simp only [tab_apply, half_real, two_real, transc_tanh]
  have := GT.Math.tanh_div_self_nonneg (ω r)
  have e : 2 * (1 / 2 * tanh (ω r) / ω r) = tanh (ω r) / ω r := by ring
  rw [e]; exact this

section coshAssembly
variable {be : Backend ℝ} (hbe : be.Spec) {p : PdfV R Dx ℝ} (hp : p.toMeasure.Inv)
include hbe hp

/-- **the heteroscedastic term of unit `k` (cosh−1 class) is
`∫ (cosh h_k − 1)·exp(coshLbLn ω h_k(x)) · (ã_kᵀ(y − Mx − b))² · p(x) dx`** for every `ω` -/
theorem cosh_het_integral (c : HeteroB Dy Dx Da Dk ℝ) (y : Arr R (Vec Dy ℝ)) (k : Fin Dk) (ω : Arr R ℝ)
    (r : Fin R) :
    Integrable (fun x => (cosh (hW (c.W k) x) - 1) * exp (coshLbLn (ω r) (hW (c.W k) x))
      * proj c (toV (y r)) x k ^ 2 * dens p r x) ∧
    (coshLowerBoundIntegrals be c p y (c.W k) (tab fun i => (mmul (c.Lambda 0) c.Ak) i k) ω false).1 r
      = ∫ x, (cosh (hW (c.W k) x) - 1) * exp (coshLbLn (ω r) (hW (c.W k) x))
          * proj c (toV (y r)) x k ^ 2 * dens p r x := by
  set lb := p.toMeasure.hadamard be (coshLbFactor (c.W k) ω) true with hlbdef
  set fq := residualForm c y (tab fun i => (mmul (c.Lambda 0) c.Ak) i k) with hfq
  have hlb : lb.Inv := C04.C04_hadamard hbe _ _ true hp (coshLbFactor_psd _ _)
  have hplus : (lb.hadamardBF be (expPlusFactor (c.W k)) true).Inv :=
    C04.C04_hadamard_bcast_factor hbe _ _ true hlb (factorPSD_linear _ _)
  have hminus : (lb.hadamardBF be (expMinusFactor (c.W k)) true).Inv :=
    C04.C04_hadamard_bcast_factor hbe _ _ true hlb (factorPSD_linear _ _)
  have h1 := quadInner_integral hbe hlb fq fq r
  have h2 := quadInner_integral hbe hplus fq fq r
  have h3 := quadInner_integral hbe hminus fq fq r
  set E : (Fin Dx → ℝ) → ℝ := fun x => exp (coshLbLn (ω r) (hW (c.W k) x))
    * proj c (toV (y r)) x k ^ 2 * dens p r x with hE
  have e1 : ∀ x : Fin Dx → ℝ, (∑ i, affFn fq r i x * affFn fq r i x) * Real.exp (lb.evalLn r (ofV x))
      = E x := by
    intro x
    rw [Fin.sum_univ_one, hfq, affFn_residualForm, hlbdef, C01.C01_hadamard, Real.exp_add,
      coshLbFactor_evalLn]
    simp only [hE, dens]
    ring
  have e2 : ∀ x : Fin Dx → ℝ, (∑ i, affFn fq r i x * affFn fq r i x)
      * Real.exp ((lb.hadamardBF be (expPlusFactor (c.W k)) true).evalLn r (ofV x))
      = exp (hW (c.W k) x) / 2 * E x := by
    intro x
    rw [C01.C01_hadamard_bcast_factor, Real.exp_add, expPlusFactor_evalLn, ← e1 x]
    ring
  have e3 : ∀ x : Fin Dx → ℝ, (∑ i, affFn fq r i x * affFn fq r i x)
      * Real.exp ((lb.hadamardBF be (expMinusFactor (c.W k)) true).evalLn r (ofV x))
      = exp (-hW (c.W k) x) / 2 * E x := by
    intro x
    rw [C01.C01_hadamard_bcast_factor, Real.exp_add, expMinusFactor_evalLn, ← e1 x]
    ring
  simp_rw [e1] at h1
  simp_rw [e2] at h2
  simp_rw [e3] at h3
  have et : ∀ x, (cosh (hW (c.W k) x) - 1) * exp (coshLbLn (ω r) (hW (c.W k) x))
      * proj c (toV (y r)) x k ^ 2 * dens p r x
      = (exp (hW (c.W k) x) / 2 * E x + exp (-hW (c.W k) x) / 2 * E x) - E x := by
    intro x; rw [Real.cosh_eq, hE]; ring
  simp_rw [et]
  have h23 : Integrable fun x => exp (hW (c.W k) x) / 2 * E x + exp (-hW (c.W k) x) / 2 * E x :=
    h2.1.add h3.1
  refine ⟨h23.sub h1.1, ?_⟩
  rw [integral_sub h23 h1.1, integral_add h2.1 h3.1, coshLbi_eq]
  simp only [tab_apply]
  rw [← hlbdef, ← hfq, h1.2, h2.2, h3.2]

/-- the fourth-order integral of `_lower_bound_integrals` (cosh−1 class) is
`∫ h_k² (cosh h_k − 1)·exp(coshLbLn ω h_k(x)) · (ã_kᵀ(y − Mx − b))² · p(x) dx` for every `ω` -/
theorem cosh_het4_integral (c : HeteroB Dy Dx Da Dk ℝ) (y : Arr R (Vec Dy ℝ)) (k : Fin Dk) (ω : Arr R ℝ)
    (r : Fin R) :
    Integrable (fun x => hW (c.W k) x ^ 2 * ((cosh (hW (c.W k) x) - 1) * exp (coshLbLn (ω r) (hW (c.W k) x))
      * proj c (toV (y r)) x k ^ 2 * dens p r x)) ∧
    (let lb := p.toMeasure.hadamard be (coshLbFactor (c.W k) ω) true
     let fq := residualForm c y (tab fun i => (mmul (c.Lambda 0) c.Ak) i k)
     let fh : AffForm R 1 Dx ℝ := hForm (c.W k)
     (((lb.hadamardBF be (expPlusFactor (c.W k)) true).intView be).2.integrateQuarticInner fh fh fq fq) r
      + (((lb.hadamardBF be (expMinusFactor (c.W k)) true).intView be).2.integrateQuarticInner fh fh fq fq) r
      - ((lb.intView be).2.integrateQuarticInner fh fh fq fq) r)
      = ∫ x, hW (c.W k) x ^ 2 * ((cosh (hW (c.W k) x) - 1) * exp (coshLbLn (ω r) (hW (c.W k) x))
          * proj c (toV (y r)) x k ^ 2 * dens p r x) := by
  set lb := p.toMeasure.hadamard be (coshLbFactor (c.W k) ω) true with hlbdef
  set fq := residualForm c y (tab fun i => (mmul (c.Lambda 0) c.Ak) i k) with hfq
  set fh : AffForm R 1 Dx ℝ := hForm (c.W k) with hfh
  have hlb : lb.Inv := C04.C04_hadamard hbe _ _ true hp (coshLbFactor_psd _ _)
  have hplus : (lb.hadamardBF be (expPlusFactor (c.W k)) true).Inv :=
    C04.C04_hadamard_bcast_factor hbe _ _ true hlb (factorPSD_linear _ _)
  have hminus : (lb.hadamardBF be (expMinusFactor (c.W k)) true).Inv :=
    C04.C04_hadamard_bcast_factor hbe _ _ true hlb (factorPSD_linear _ _)
  have h1 := quarticInner_integral hbe hlb fh fh fq fq r
  have h2 := quarticInner_integral hbe hplus fh fh fq fq r
  have h3 := quarticInner_integral hbe hminus fh fh fq fq r
  set E : (Fin Dx → ℝ) → ℝ := fun x => hW (c.W k) x ^ 2 * (exp (coshLbLn (ω r) (hW (c.W k) x))
    * proj c (toV (y r)) x k ^ 2 * dens p r x) with hE
  have e1 : ∀ x : Fin Dx → ℝ, ((∑ i, affFn fh r i x * affFn fh r i x)
      * ∑ i, affFn fq r i x * affFn fq r i x) * Real.exp (lb.evalLn r (ofV x)) = E x := by
    intro x
    rw [Fin.sum_univ_one, Fin.sum_univ_one, hfh, affFn_hForm, hfq, affFn_residualForm, hlbdef,
      C01.C01_hadamard, Real.exp_add, coshLbFactor_evalLn]
    simp only [hE, dens]
    ring
  have e2 : ∀ x : Fin Dx → ℝ, ((∑ i, affFn fh r i x * affFn fh r i x)
      * ∑ i, affFn fq r i x * affFn fq r i x)
      * Real.exp ((lb.hadamardBF be (expPlusFactor (c.W k)) true).evalLn r (ofV x))
      = exp (hW (c.W k) x) / 2 * E x := by
    intro x
    rw [C01.C01_hadamard_bcast_factor, Real.exp_add, expPlusFactor_evalLn, ← e1 x]
    ring
  have e3 : ∀ x : Fin Dx → ℝ, ((∑ i, affFn fh r i x * affFn fh r i x)
      * ∑ i, affFn fq r i x * affFn fq r i x)
      * Real.exp ((lb.hadamardBF be (expMinusFactor (c.W k)) true).evalLn r (ofV x))
      = exp (-hW (c.W k) x) / 2 * E x := by
    intro x
    rw [C01.C01_hadamard_bcast_factor, Real.exp_add, expMinusFactor_evalLn, ← e1 x]
    ring
  simp_rw [e1] at h1
  simp_rw [e2] at h2
  simp_rw [e3] at h3
  have et : ∀ x, hW (c.W k) x ^ 2 * ((cosh (hW (c.W k) x) - 1) * exp (coshLbLn (ω r) (hW (c.W k) x))
      * proj c (toV (y r)) x k ^ 2 * dens p r x)
      = (exp (hW (c.W k) x) / 2 * E x + exp (-hW (c.W k) x) / 2 * E x) - E x := by
    intro x; rw [Real.cosh_eq, hE]; ring
  simp_rw [et]
  have h23 : Integrable fun x => exp (hW (c.W k) x) / 2 * E x + exp (-hW (c.W k) x) / 2 * E x :=
    h2.1.add h3.1
  refine ⟨h23.sub h1.1, ?_⟩
  rw [integral_sub h23 h1.1, integral_add h2.1 h3.1, h1.2, h2.2, h3.2]

omit hbe hp in
/-- `_update_omega_star` (cosh−1 class): `√(quartic / quadratic)` of the two integrals -/
theorem cosh_update_eq (c : HeteroB Dy Dx Da Dk ℝ) (y : Arr R (Vec Dy ℝ)) (Wi : Vec (Dx + 1) ℝ)
    (ai : Vec Dy ℝ) (ω : Arr R ℝ) (r : Fin R) :
    baseUpdateOmegaStar coshLowerBoundIntegrals be c p y Wi ai ω r =
      Real.sqrt ((let lb := p.toMeasure.hadamard be (coshLbFactor Wi ω) true
        let fq := residualForm c y ai
        let fh : AffForm R 1 Dx ℝ := hForm Wi
        (((lb.hadamardBF be (expPlusFactor Wi) true).intView be).2.integrateQuarticInner fh fh fq fq) r
          + (((lb.hadamardBF be (expMinusFactor Wi) true).intView be).2.integrateQuarticInner fh fh fq fq) r
          - ((lb.intView be).2.integrateQuarticInner fh fh fq fq) r)
        / (coshLowerBoundIntegrals be c p y Wi ai ω false).1 r) := by
  simp only [baseUpdateOmegaStar, coshLbi_true, tab_apply, transc_sqrt]

omit hbe hp in
theorem cosh_sub_one_eq_zero {h : ℝ} (hh : cosh h - 1 = 0) : h = 0 := by
  by_contra h0
  have := Real.one_lt_cosh.2 h0
  linarith

/-- **one step of the fixed-point iteration (cosh−1 class)**: the new parameter is non-zero, unless
`h_k(x)·ã_kᵀ(y − Mx − b) = 0` for almost every `x` — for EVERY old `ω` -/
theorem cosh_update_cases (c : HeteroB Dy Dx Da Dk ℝ) (y : Arr R (Vec Dy ℝ)) (k : Fin Dk) (ω : Arr R ℝ)
    (r : Fin R) :
    baseUpdateOmegaStar coshLowerBoundIntegrals be c p y (c.W k)
        (tab fun i => (mmul (c.Lambda 0) c.Ak) i k) ω r ≠ 0
      ∨ ∀ᵐ x, hW (c.W k) x * proj c (toV (y r)) x k = 0 := by
  obtain ⟨i2, e2⟩ := cosh_het_integral hbe hp c y k ω r
  obtain ⟨i4, e4⟩ := cosh_het4_integral hbe hp c y k ω r
  rw [cosh_update_eq, e2, e4]
  have hge : ∀ x, (0:ℝ) ≤ cosh (hW (c.W k) x) - 1 := fun x => by
    have := one_le_cosh (hW (c.W k) x); linarith
  rcases sqrt_ratio_cases (h := hW (c.W k)) (fun x => mul_nonneg (mul_nonneg
    (mul_nonneg (hge x) (exp_pos _).le) (sq_nonneg _)) (dens_nonneg p r x)) i2 i4 with h | h
  · exact Or.inl h
  · right
    filter_upwards [h] with x hx
    have hd : 0 < dens p r x := exp_pos _
    have he := exp_pos (coshLbLn (ω r) (hW (c.W k) x))
    have h3 : ((hW (c.W k) x * proj c (toV (y r)) x k) ^ 2 * (cosh (hW (c.W k) x) - 1))
        * (exp (coshLbLn (ω r) (hW (c.W k) x)) * dens p r x) = 0 := by rw [← hx]; ring
    rcases mul_eq_zero.1 ((mul_eq_zero.1 h3).resolve_right (mul_pos he hd).ne') with h4 | h4
    · exact pow_eq_zero_iff two_ne_zero |>.1 h4
    · rw [cosh_sub_one_eq_zero h4, zero_mul]

/-- **one step of the iteration at zero input weights (cosh−1 class)** -/
theorem cosh_update_zero_weights (c : HeteroB Dy Dx Da Dk ℝ) (y : Arr R (Vec Dy ℝ)) (k : Fin Dk)
    (ω : Arr R ℝ) (r : Fin R) (hw : ∀ j, wTail (c.W k) j = 0) :
    baseUpdateOmegaStar coshLowerBoundIntegrals be c p y (c.W k)
        (tab fun i => (mmul (c.Lambda 0) c.Ak) i k) ω r ^ 2 = wHead (c.W k) ^ 2
      ∨ ∀ᵐ x, (cosh (wHead (c.W k)) - 1) * proj c (toV (y r)) x k ^ 2 = 0 := by
  obtain ⟨i2, e2⟩ := cosh_het_integral hbe hp c y k ω r
  obtain ⟨-, e4⟩ := cosh_het4_integral hbe hp c y k ω r
  have hh : ∀ x, hW (c.W k) x = wHead (c.W k) := by
    intro x; simp [hW, dotProduct, hw]
  rw [cosh_update_eq, e2, e4]
  simp_rw [hh] at i2 ⊢
  have hge : (0:ℝ) ≤ cosh (wHead (c.W k)) - 1 := by
    have := one_le_cosh (wHead (c.W k)); linarith
  rcases sqrt_ratio_const (fun x => mul_nonneg (mul_nonneg (mul_nonneg hge (exp_pos _).le) (sq_nonneg _))
    (dens_nonneg p r x)) i2 (wHead (c.W k)) with h | h
  · exact Or.inl h
  · right
    filter_upwards [h] with x hx
    have hd : 0 < dens p r x := exp_pos _
    have he := exp_pos (coshLbLn (ω r) (wHead (c.W k)))
    have h3 : ((cosh (wHead (c.W k)) - 1) * proj c (toV (y r)) x k ^ 2)
        * (exp (coshLbLn (ω r) (wHead (c.W k))) * dens p r x) = 0 := by rw [← hx]; ring
    exact (mul_eq_zero.1 h3).resolve_right (mul_pos he hd).ne'

/-- **`k_func` (cosh−1 class) is `∫ coshK ω h(x)² p(x) dx`** for a normalised `p` -/
theorem cosh_kfunc_integral (Wi : Vec (Dx + 1) ℝ) (ω : Arr R ℝ) (r : Fin R)
    (hp1 : ∫ x, dens p r x = 1) :
    Integrable (fun x => coshK (ω r) (hW Wi x * hW Wi x) * dens p r x) ∧
    coshKFunc be p Wi ω r = ∫ x, coshK (ω r) (hW Wi x * hW Wi x) * dens p r x := by
  obtain ⟨-, ⟨i2, e2⟩⟩ := hW_moments hbe hp Wi r
  have hρ := dens_integrable hp r
  set a : ℝ := log (cosh (ω r)) with ha
  set bb : ℝ := 1 / 2 * tanh (ω r) / ω r with hbb
  have e : ∀ x, coshK (ω r) (hW Wi x * hW Wi x) * dens p r x
      = (a - bb * (ω r * ω r)) * dens p r x + bb * (hW Wi x * hW Wi x * dens p r x) := by
    intro x; unfold coshK; rw [← ha, ← hbb]; ring
  simp_rw [e]
  have j2 : Integrable fun x => (a - bb * (ω r * ω r)) * dens p r x := hρ.const_mul _
  have j3 : Integrable fun x => bb * (hW Wi x * hW Wi x * dens p r x) := i2.const_mul _
  refine ⟨j2.add j3, ?_⟩
  rw [integral_add j2 j3, integral_const_mul, integral_const_mul, hp1, coshKFunc_eq, e2]
  unfold coshK
  rw [← ha, ← hbb]; ring

omit hbe hp in
theorem integrateLogConditionalY_cosh_eq (c : HeteroB Dy Dx Da Dk ℝ) (y : Arr R (Vec Dy ℝ)) (r : Fin R) :
    c.integrateLogConditionalY coshM1Ops be p y r =
      -(1 / 2) * (((p.toMeasure.intView be).2.integrateQuadInner (homoA c y) (homoB c y)) r
        - (∑ k, (coshLowerBoundIntegrals be c p y (c.W k) (tab fun i => (mmul (c.Lambda 0) c.Ak) i k)
            (getOmegaStar coshM1Ops be c p y (c.W k) (tab fun i => (mmul (c.Lambda 0) c.Ak) i k)) false).1 r)
        + (c.lnDetSigma 0 + ∑ k, coshKFunc be p (c.W k) (baseGetOmegaDagger be p (c.W k)) r)
        + (Dy : ℝ) * log (2 * π)) := by
  simp only [HeteroB.integrateLogConditionalY, getLbQuadraticTerm_eq, tab_apply, half_real, ofNat_real,
    log2pi_real, coshM1Ops, baseGetLbHeteroscedasticTermI, getOmegaStar, baseGetLbLogDet, vsum_real]
  ring

/-- **`ω*` of the cosh−1 class** (loop invariant): non-zero, unless `h_k(x)·ã_kᵀ(y − Mx − b) = 0` for
almost every `x` -/
theorem omegaStar_coshM1_cases (c : HeteroB Dy Dx Da Dk ℝ) (y : Arr R (Vec Dy ℝ)) (r : Fin R) (k : Fin Dk)
    (h0 : omegaDag be c p r k ≠ 0) :
    omegaStar coshM1Ops be c p y r k ≠ 0 ∨ ∀ᵐ x, hW (c.W k) x * proj c (toV (y r)) x k = 0 :=
  getOmegaStar_invariant coshM1Ops be c p y (c.W k) (tab fun i => (mmul (c.Lambda 0) c.Ak) i k)
    (fun ω => ω r ≠ 0 ∨ ∀ᵐ x, hW (c.W k) x * proj c (toV (y r)) x k = 0) (Or.inl h0)
    (fun ω _ => cosh_update_cases hbe hp c y k ω r)

/-- **identification of the returned value (cosh−1 class, all shapes `Dy ≤ Da`)**, at `ω*` (result of
`_get_omega_star`, heteroscedastic term) and `ω† = √E[h²]` (log-determinant) -/
theorem C17_coshM1_value_eq_integral (c : HeteroB Dy Dx Da Dk ℝ) (y : Arr R (Vec Dy ℝ)) (r : Fin R)
    (hp1 : ∫ x, dens p r x = 1) :
    Integrable (fun x => coshLbIntegrand c (toV (y r)) (omegaStar coshM1Ops be c p y r) (omegaDag be c p r) x
      * dens p r x) ∧
    c.integrateLogConditionalY coshM1Ops be p y r =
      ∫ x, coshLbIntegrand c (toV (y r)) (omegaStar coshM1Ops be c p y r) (omegaDag be c p r) x
        * dens p r x := by
  have h := integral_lnForm c (toV (y r)) (dens p r)
    (fun x k => (cosh (hW (c.W k) x) - 1) * exp (coshLbLn (omegaStar coshM1Ops be c p y r k) (hW (c.W k) x)))
    (fun x k => coshK (omegaDag be c p r k) (hW (c.W k) x * hW (c.W k) x))
    (dens_integrable hp r) hp1 (homo_integral hbe hp c y r).1
    (fun k => (cosh_het_integral hbe hp c y k _ r).1)
    (fun k => (cosh_kfunc_integral hbe hp (c.W k) _ r hp1).1)
  refine ⟨h.1, ?_⟩
  unfold coshLbIntegrand
  rw [h.2, integrateLogConditionalY_cosh_eq, (homo_integral hbe hp c y r).2]
  congr 3
  · congr 1
    exact Finset.sum_congr rfl fun k _ => (cosh_het_integral hbe hp c y k _ r).2
  · congr 1
    exact Finset.sum_congr rfl fun k _ => (cosh_kfunc_integral hbe hp (c.W k) _ r hp1).2

/-- **C17 (lower bound, cosh−1 class; all shapes)**, against the log-density built from the
RETURNED precision and log-determinant -/
theorem C17_lower_bound_coshM1_coded (c : HeteroB Dy Dx Da Dk ℝ) (y : Arr R (Vec Dy ℝ)) (r : Fin R)
    (hp1 : ∫ x, dens p r x = 1) (hω : ∀ k, omegaDag be c p r k ≠ 0) :
    Integrable (fun x => normalLn (toM (c.M 0) *ᵥ x + toV (c.b 0)) (precAt c (dval coshM1Ops c x))
      (lnDetAt c (dval coshM1Ops c x)) (toV (y r)) * dens p r x) ∧
    c.integrateLogConditionalY coshM1Ops be p y r ≤
      ∫ x, normalLn (toM (c.M 0) *ᵥ x + toV (c.b 0)) (precAt c (dval coshM1Ops c x))
        (lnDetAt c (dval coshM1Ops c x)) (toV (y r)) * dens p r x := by
  have hd : ∀ x k, dval coshM1Ops c x k = cosh (hW (c.W k) x) - 1 := fun x k => by
    simp only [dval, hval_eq_hW, coshM1Ops, transc_cosh]
  have hcont : ∀ k, Continuous fun x => cosh (hW (c.W k) x) - 1 := fun k =>
    (Real.continuous_cosh.comp (continuous_hW _)).sub continuous_const
  have hge : ∀ k x, (0:ℝ) ≤ cosh (hW (c.W k) x) - 1 := fun k x => by
    have := one_le_cosh (hW (c.W k) x); linarith
  have hpos : ∀ k x, (0:ℝ) < 1 + (cosh (hW (c.W k) x) - 1) := fun k x => by have := hge k x; linarith
  have hm := expectation_mono_ae c (toV (y r)) (dens p r) (dens_nonneg p r) (dens_integrable hp r) hp1
    (homo_integral hbe hp c y r).1 (fun k => proj_sq_integrable hbe hp c y k r)
    (fun x k => dval coshM1Ops c x k / (1 + dval coshM1Ops c x k))
    (fun x k => (cosh (hW (c.W k) x) - 1) * exp (coshLbLn (omegaStar coshM1Ops be c p y r k) (hW (c.W k) x)))
    (fun x k => log (1 + dval coshM1Ops c x k))
    (fun x k => coshK (omegaDag be c p r k) (hW (c.W k) x * hW (c.W k) x))
    (fun k => by
      simp_rw [hd]
      exact ((hcont k).div (continuous_const.add (hcont k)) fun x => (hpos k x).ne').aestronglyMeasurable)
    (fun x k => by
      rw [hd]; exact div_nonneg (hge k x) (hpos k x).le)
    (fun x k => by
      rw [hd, div_le_one (hpos k x)]; linarith)
    (fun k => by
      rcases omegaStar_coshM1_cases hbe hp c y r k (hω k) with h | h
      · exact ae_of_all _ fun x => by rw [hd]; exact coshLb_mul_le _ _ _ (Or.inl h)
      · filter_upwards [h] with x hx
        rw [hd]; exact coshLb_mul_le _ _ _ (Or.inr hx))
    (fun k => (cosh_het_integral hbe hp c y k _ r).1)
    (fun k => by
      simp_rw [hd]
      exact ((continuous_const.add (hcont k)).log fun x => (hpos k x).ne').aestronglyMeasurable)
    (fun x k => by
      rw [hd]; exact log_nonneg (by have := hge k x; linarith))
    (fun x k => by rw [hd]; exact coshK_ge _ _ (hω k))
    (fun k => (cosh_kfunc_integral hbe hp (c.W k) _ r hp1).1)
  simp_rw [normalLn_coded]
  refine ⟨hm.1, ?_⟩
  rw [(C17_coshM1_value_eq_integral hbe hp c y r hp1).2]
  exact hm.2

/-- **C17 (lower bound, cosh−1 class; decoupled case, in particular `Da = Dy`)** -/
theorem C17_lower_bound_coshM1 (c : HeteroB Dy Dx Da Dk ℝ) (hc : HeteroOK c) (hdec : Decoupled c)
    (y : Arr R (Vec Dy ℝ)) (r : Fin R) (hp1 : ∫ x, dens p r x = 1) (hω : ∀ k, omegaDag be c p r k ≠ 0) :
    c.integrateLogConditionalY coshM1Ops be p y r ≤
      ∫ x, normalLn (toM (c.M 0) *ᵥ x + toV (c.b 0)) (covAt c (dval coshM1Ops c x))⁻¹
        (Real.log (covAt c (dval coshM1Ops c x)).det) (toV (y r)) * dens p r x := by
  have h := (C17_lower_bound_coshM1_coded hbe hp c y r hp1 hω).2
  simp_rw [precAt_eq_inv hc hdec (dval_coshM1_nonneg c _), lnDetAt_eq hc hdec (dval_coshM1_nonneg c _)] at h
  exact h

theorem C17_lower_bound_coshM1_model (c : HeteroB Dy Dx Da Dk ℝ) (hc : HeteroOK c) (hdec : Decoupled c)
    (y : Arr R (Vec Dy ℝ)) (r : Fin R) (hp1 : ∫ x, dens p r x = 1) (hω : ∀ k, omegaDag be c p r k ≠ 0) :
    c.integrateLogConditionalY coshM1Ops be p y r ≤
      ∫ x, (c.conditionOnX coshM1Ops be (tab fun _ : Fin 1 => ofV x)).evalLn 0 (y r) * dens p r x := by
  have h := C17_lower_bound_coshM1 hbe hp c hc hdec y r hp1 hω
  have e : ∀ x : Fin Dx → ℝ, (c.conditionOnX coshM1Ops be (tab fun _ : Fin 1 => ofV x)).evalLn 0 (y r)
      = normalLn (toM (c.M 0) *ᵥ x + toV (c.b 0)) (covAt c (dval coshM1Ops c x))⁻¹
        (Real.log (covAt c (dval coshM1Ops c x)).det) (toV (y r)) := by
    intro x
    have := C17_conditionOnX_evalLn hbe coshM1Ops c hc hdec (tab fun _ : Fin 1 => ofV x)
      (fun n k => dval_coshM1_nonneg c _ k) 0 (toV (y r))
    simpa using this
  simp_rw [e]
  exact h

end coshAssembly

/-! ### when the hypotheses of the integral-level theorems hold -/

/-- the density view of any consistent object with filled caches (in particular of every
constructed `GaussianPDF`) is consistent and evaluates to the same function -/
theorem asPdf_inv {D : Nat} {m : MeasureB R D ℝ} (hm : m.Inv) {j : PdfV R D ℝ} (hj : m.asPdf = some j) :
    j.toMeasure.Inv ∧ ∀ r x, j.toMeasure.evalLn r x = m.evalLn r x := by
  unfold MeasureB.asPdf at hj
  cases hc : m.cov with
  | none => simp [hc] at hj
  | some c =>
    cases hmu : m.mu with
    | none => simp [hc, hmu] at hj
    | some mu =>
      cases hz : m.lnZ with
      | none => simp [hc, hmu, hz] at hj
      | some z =>
        simp only [hc, hmu, hz, Option.some.injEq] at hj
        subst hj
        refine ⟨⟨hm.posDef, ?_, ?_, by simp [PdfV.toMeasure], ?_, ?_, by simp [PdfV.toMeasure],
          by simp [PdfV.toMeasure]⟩, fun r x => rfl⟩
        · intro hd
          apply hm.diagOK
          cases hcl : m.cls <;> simp_all [PdfV.toMeasure, MCls.isDiag]
        · intro c' hc' r
          simp only [PdfV.toMeasure, Option.some.injEq] at hc'
          subst hc'
          exact hm.cov c hc r
        · intro mu' hmu' r
          simp only [PdfV.toMeasure, Option.some.injEq] at hmu'
          subst hmu'
          exact hm.mu _ hmu r
        · intro z' hz' r
          simp only [PdfV.toMeasure, Option.some.injEq] at hz'
          subst hz'
          exact hm.lnZ _ hz r

/-- every `GaussianPDF(Sigma=Σ, mu=μ)` with positive definite `Σ` has a density view satisfying
the hypotheses `hp`, `hp1` of the integral-level theorems -/
theorem exists_px {be : Backend ℝ} (hbe : be.Spec) (Sigma : Arr R (Mat Dx Dx ℝ)) (mu : Arr R (Vec Dx ℝ))
    (hS : ∀ r, (toM (Sigma r)).PosDef) :
    ∃ p : PdfV R Dx ℝ, (mkPdf be false Sigma mu none none).asPdf = some p ∧ p.toMeasure.Inv ∧
      ∀ r, ∫ x, dens p r x = 1 := by
  have hargs : C02.PdfArgsOK false Sigma none none := ⟨hS, by simp, by simp, by simp⟩
  obtain ⟨j, hj, -⟩ := mkPdf_asPdf (be := be) false Sigma mu none none
  have hm := C02.mkPdf_inv hbe false Sigma mu none none hargs
  obtain ⟨hinv, hev⟩ := asPdf_inv hm hj
  refine ⟨j, hj, hinv, fun r => ?_⟩
  simp only [dens, hev]
  exact C02.C02_density_integrates_to_one hbe false Sigma mu none none hargs r

section omegaNonzero
variable {be : Backend ℝ} (hbe : be.Spec) {p : PdfV R Dx ℝ} (hp : p.toMeasure.Inv)
include hbe hp

/-- `ω† = √E[h²] ≠ 0` unless the unit is identically zero (`w = 0` and `w0 = 0`, where the
library divides by zero) -/
theorem omegaDag_ne_zero (c : HeteroB Dy Dx Da Dk ℝ) (r : Fin R) (k : Fin Dk)
    (hp1 : ∫ x, dens p r x = 1)
    (hW0 : (∃ j, wTail (c.W k) j ≠ 0) ∨ wHead (c.W k) ≠ 0) : omegaDag be c p r k ≠ 0 := by
  have hv := intView_spec hbe hp
  set f : AffForm R 1 Dx ℝ := hForm (c.W k) with hf
  have hq : ((p.toMeasure.intView be).2.integrateQuadInner f f) r
      = mean (p.toMeasure.intView be).2 f r 0 * mean (p.toMeasure.intView be).2 f r 0
        + cov (p.toMeasure.intView be).2 f f r 0 0 := by
    rw [C03_alg_quad_inner_integrate _ hv.symm, hv.mass r, Fin.sum_univ_one]
    have : ∫ x : Fin Dx → ℝ, Real.exp (p.toMeasure.evalLn r (ofV x)) = 1 := hp1
    rw [this, one_mul, wick2]
  have hA : toM (f.A r) 0 = toV (wTail (c.W k)) := by
    funext j; simp [hf, hForm]
  have hSig : (toM ((p.toMeasure.intView be).2.Sigma r)).PosDef := by
    rw [hv.Sigma r]; exact (hp.posDef r).inv
  have hcov : 0 ≤ cov (p.toMeasure.intView be).2 f f r 0 0 := by
    rw [cov_eq, hA]
    have := hSig.posSemidef.dotProduct_mulVec_nonneg (toV (wTail (c.W k)))
    simpa using this
  have hpos : 0 < ((p.toMeasure.intView be).2.integrateQuadInner f f) r := by
    rw [hq]
    rcases hW0 with ⟨j, hj⟩ | hb
    · have hne : toV (wTail (c.W k)) ≠ 0 := fun h => hj (by simpa using congrFun h j)
      have : 0 < cov (p.toMeasure.intView be).2 f f r 0 0 := by
        rw [cov_eq, hA]
        have := hSig.dotProduct_mulVec_pos hne
        simpa using this
      nlinarith [mul_self_nonneg (mean (p.toMeasure.intView be).2 f r 0)]
    · by_cases hw : ∃ j, wTail (c.W k) j ≠ 0
      · obtain ⟨j, hj⟩ := hw
        have hne : toV (wTail (c.W k)) ≠ 0 := fun h => hj (by simpa using congrFun h j)
        have : 0 < cov (p.toMeasure.intView be).2 f f r 0 0 := by
          rw [cov_eq, hA]
          have := hSig.dotProduct_mulVec_pos hne
          simpa using this
        nlinarith [mul_self_nonneg (mean (p.toMeasure.intView be).2 f r 0)]
      · push Not at hw
        have hm : mean (p.toMeasure.intView be).2 f r 0 = wHead (c.W k) := by
          simp [mean, hf, hForm, hw]
        rw [hm]
        have := mul_self_pos.2 hb
        linarith
  simp only [omegaDag, baseGetOmegaDagger, tab_apply, transc_sqrt]
  exact (Real.sqrt_pos.2 hpos).ne'

/-- with zero input weights `ω†² = w0²` -/
theorem omegaDag_sq_of_zero_weights (c : HeteroB Dy Dx Da Dk ℝ) (r : Fin R) (k : Fin Dk)
    (hp1 : ∫ x, dens p r x = 1) (hw : ∀ j, wTail (c.W k) j = 0) :
    omegaDag be c p r k ^ 2 = wHead (c.W k) ^ 2 := by
  have h2 := (hW_moments hbe hp (c.W k) r).2.2
  have hh : ∀ x, hW (c.W k) x = wHead (c.W k) := by
    intro x; simp [hW, dotProduct, hw]
  simp_rw [hh, integral_const_mul, hp1, mul_one] at h2
  simp only [omegaDag, baseGetOmegaDagger, tab_apply, transc_sqrt, hForm] at h2 ⊢
  rw [Real.sq_sqrt (by rw [h2]; exact mul_self_nonneg _), h2]; ring

/-- **C17 (lower bound, exp class)** with the hypothesis on `ω†` discharged: no noise unit is
identically zero -/
theorem C17_lower_bound_exp' (c : HeteroB Dy Dx Da Dk ℝ) (hc : HeteroOK c) (hdec : Decoupled c)
    (y : Arr R (Vec Dy ℝ)) (r : Fin R) (hp1 : ∫ x, dens p r x = 1)
    (hW0 : ∀ k, (∃ j, wTail (c.W k) j ≠ 0) ∨ wHead (c.W k) ≠ 0) :
    c.integrateLogConditionalY expOps be p y r ≤
      ∫ x, (c.conditionOnX expOps be (tab fun _ : Fin 1 => ofV x)).evalLn 0 (y r) * dens p r x :=
  C17_lower_bound_exp_model hbe hp c hc hdec y r hp1 fun k => omegaDag_ne_zero hbe hp c r k hp1 (hW0 k)

/-- **C17 (lower bound, cosh−1 class)** with the hypothesis on `ω†` discharged -/
theorem C17_lower_bound_coshM1' (c : HeteroB Dy Dx Da Dk ℝ) (hc : HeteroOK c) (hdec : Decoupled c)
    (y : Arr R (Vec Dy ℝ)) (r : Fin R) (hp1 : ∫ x, dens p r x = 1)
    (hW0 : ∀ k, (∃ j, wTail (c.W k) j ≠ 0) ∨ wHead (c.W k) ≠ 0) :
    c.integrateLogConditionalY coshM1Ops be p y r ≤
      ∫ x, (c.conditionOnX coshM1Ops be (tab fun _ : Fin 1 => ofV x)).evalLn 0 (y r) * dens p r x :=
  C17_lower_bound_coshM1_model hbe hp c hc hdec y r hp1 fun k => omegaDag_ne_zero hbe hp c r k hp1 (hW0 k)

/-- **`ω*` at zero input weights (exp class)** (loop invariant): `ω†= |w0_k|` is a fixed point of the
iteration, so `ω*_k² = w0_k²`, unless the projected residual of the unit vanishes almost everywhere -/
theorem omegaStar_exp_zero_weights (c : HeteroB Dy Dx Da Dk ℝ) (y : Arr R (Vec Dy ℝ)) (r : Fin R)
    (k : Fin Dk) (hp1 : ∫ x, dens p r x = 1) (hw : ∀ j, wTail (c.W k) j = 0) :
    omegaStar expOps be c p y r k ^ 2 = wHead (c.W k) ^ 2 ∨ ∀ᵐ x, proj c (toV (y r)) x k = 0 :=
  getOmegaStar_invariant expOps be c p y (c.W k) (tab fun i => (mmul (c.Lambda 0) c.Ak) i k)
    (fun ω => ω r ^ 2 = wHead (c.W k) ^ 2 ∨ ∀ᵐ x, proj c (toV (y r)) x k = 0)
    (Or.inl (omegaDag_sq_of_zero_weights hbe hp c r k hp1 hw))
    (fun ω _ => exp_update_zero_weights hbe hp c y k ω r hw)

/-- **`ω*` at zero input weights (cosh−1 class)** (loop invariant) -/
theorem omegaStar_coshM1_zero_weights (c : HeteroB Dy Dx Da Dk ℝ) (y : Arr R (Vec Dy ℝ)) (r : Fin R)
    (k : Fin Dk) (hp1 : ∫ x, dens p r x = 1) (hw : ∀ j, wTail (c.W k) j = 0) :
    omegaStar coshM1Ops be c p y r k ^ 2 = wHead (c.W k) ^ 2
      ∨ ∀ᵐ x, (Real.cosh (wHead (c.W k)) - 1) * proj c (toV (y r)) x k ^ 2 = 0 :=
  getOmegaStar_invariant coshM1Ops be c p y (c.W k) (tab fun i => (mmul (c.Lambda 0) c.Ak) i k)
    (fun ω => ω r ^ 2 = wHead (c.W k) ^ 2
      ∨ ∀ᵐ x, (Real.cosh (wHead (c.W k)) - 1) * proj c (toV (y r)) x k ^ 2 = 0)
    (Or.inl (omegaDag_sq_of_zero_weights hbe hp c r k hp1 hw))
    (fun ω _ => cosh_update_zero_weights hbe hp c y k ω r hw)

/-- **C17 (tight at zero weights, exp class, model level)**: with zero input weights the returned
value EQUALS the expectation of the log-density built from the returned precision and
log-determinant (real-number model; for `w0 = 0` the floating-point code divides by zero).
`ω† = |w0|` is the tangent point and a fixed point of the iteration for `ω*`. -/
theorem C17_tight_at_zero_weights_exp_model (c : HeteroB Dy Dx Da Dk ℝ) (y : Arr R (Vec Dy ℝ)) (r : Fin R)
    (hp1 : ∫ x, dens p r x = 1) (hw : ∀ k j, wTail (c.W k) j = 0) :
    c.integrateLogConditionalY expOps be p y r =
      ∫ x, normalLn (toM (c.M 0) *ᵥ x + toV (c.b 0)) (precAt c (dval expOps c x))
        (lnDetAt c (dval expOps c x)) (toV (y r)) * dens p r x := by
  rw [(C17_exp_value_eq_integral hbe hp c y r hp1).2]
  refine integral_congr_ae ?_
  have hae : ∀ᵐ x, ∀ k, omegaStar expOps be c p y r k ^ 2 = wHead (c.W k) ^ 2
      ∨ proj c (toV (y r)) x k = 0 := by
    rw [ae_all_iff]
    intro k
    rcases omegaStar_exp_zero_weights hbe hp c y r k hp1 (hw k) with h | h
    · exact ae_of_all _ fun x => Or.inl h
    · filter_upwards [h] with x hx
      exact Or.inr hx
  filter_upwards [hae] with x hx
  rw [C17_tight_at_zero_weights_exp_or c (toV (y r)) _ _ hw x hx
    (fun k => omegaDag_sq_of_zero_weights hbe hp c r k hp1 (hw k))]

/-- **C17 (tight at zero weights, cosh−1 class, model level)** -/
theorem C17_tight_at_zero_weights_coshM1_model (c : HeteroB Dy Dx Da Dk ℝ) (y : Arr R (Vec Dy ℝ))
    (r : Fin R) (hp1 : ∫ x, dens p r x = 1) (hw : ∀ k j, wTail (c.W k) j = 0) :
    c.integrateLogConditionalY coshM1Ops be p y r =
      ∫ x, normalLn (toM (c.M 0) *ᵥ x + toV (c.b 0)) (precAt c (dval coshM1Ops c x))
        (lnDetAt c (dval coshM1Ops c x)) (toV (y r)) * dens p r x := by
  rw [(C17_coshM1_value_eq_integral hbe hp c y r hp1).2]
  refine integral_congr_ae ?_
  have hae : ∀ᵐ x, ∀ k, omegaStar coshM1Ops be c p y r k ^ 2 = wHead (c.W k) ^ 2
      ∨ (Real.cosh (wHead (c.W k)) - 1) * proj c (toV (y r)) x k ^ 2 = 0 := by
    rw [ae_all_iff]
    intro k
    rcases omegaStar_coshM1_zero_weights hbe hp c y r k hp1 (hw k) with h | h
    · exact ae_of_all _ fun x => Or.inl h
    · filter_upwards [h] with x hx
      exact Or.inr hx
  filter_upwards [hae] with x hx
  rw [C17_tight_at_zero_weights_coshM1_or c (toV (y r)) _ _ hw x hx
    (fun k => omegaDag_sq_of_zero_weights hbe hp c r k hp1 (hw k))]

/-- in the decoupled case the right-hand side is the true `E[ln p(y|x)]` -/
theorem C17_tight_at_zero_weights (c : HeteroB Dy Dx Da Dk ℝ) (hc : HeteroOK c) (hdec : Decoupled c)
    (y : Arr R (Vec Dy ℝ)) (r : Fin R) (hp1 : ∫ x, dens p r x = 1) (hw : ∀ k j, wTail (c.W k) j = 0) :
    (c.integrateLogConditionalY expOps be p y r =
      ∫ x, normalLn (toM (c.M 0) *ᵥ x + toV (c.b 0)) (covAt c (dval expOps c x))⁻¹
        (Real.log (covAt c (dval expOps c x)).det) (toV (y r)) * dens p r x) ∧
    (c.integrateLogConditionalY coshM1Ops be p y r =
      ∫ x, normalLn (toM (c.M 0) *ᵥ x + toV (c.b 0)) (covAt c (dval coshM1Ops c x))⁻¹
        (Real.log (covAt c (dval coshM1Ops c x)).det) (toV (y r)) * dens p r x) := by
  have h1 := C17_tight_at_zero_weights_exp_model hbe hp c y r hp1 hw
  have h2 := C17_tight_at_zero_weights_coshM1_model hbe hp c y r hp1 hw
  simp_rw [precAt_eq_inv hc hdec (dval_exp_nonneg c _), lnDetAt_eq hc hdec (dval_exp_nonneg c _)] at h1
  simp_rw [precAt_eq_inv hc hdec (dval_coshM1_nonneg c _), lnDetAt_eq hc hdec (dval_coshM1_nonneg c _)] at h2
  exact ⟨h1, h2⟩

end omegaNonzero

end expectation

/-! ## non-vacuity -/
section nonvacuity
open MeasureTheory

/-- a concrete square heteroscedastic conditional (`Dy = Da = Dk = Dx = 1`, `A = [[1]]`,
`W = [[1, 1]]`, i.e. `h(x) = x + 1`) built by the constructor with the satisfiable backend, and the
constructed `p_x = N(0, 1)`, satisfy every hypothesis of the lower-bound theorems; hence for them
the returned value is below the true expectation, for both links and every `y`. -/
example : ∃ (be : Backend ℝ) (c : HeteroB 1 1 1 1 ℝ) (p : PdfV 1 1 ℝ), be.Spec ∧ HeteroOK c ∧
    Decoupled c ∧ p.toMeasure.Inv ∧ (∫ x, dens p 0 x = 1) ∧
    (∀ k, (∃ j, wTail (c.W k) j ≠ 0) ∨ wHead (c.W k) ≠ 0) ∧
    ∀ y : Arr 1 (Vec 1 ℝ),
      (c.integrateLogConditionalY expOps be p y 0 ≤
        ∫ x, (c.conditionOnX expOps be (tab fun _ : Fin 1 => ofV x)).evalLn 0 (y 0) * dens p 0 x) ∧
      (c.integrateLogConditionalY coshM1Ops be p y 0 ≤
        ∫ x, (c.conditionOnX coshM1Ops be (tab fun _ : Fin 1 => ofV x)).evalLn 0 (y 0) * dens p 0 x) := by
  have hbe := Backend.sat_spec
  set A : Arr 1 (Mat 1 1 ℝ) := tab fun _ => ofM 1 with hA
  set W : Mat 1 (1 + 1) ℝ := tab2 fun _ _ => 1 with hWdef
  have hAA : (toM (A 0) * (toM (A 0))ᵀ).PosDef := by
    simp only [hA, tab_apply, toM_ofM, Matrix.transpose_one, Matrix.mul_one]
    exact Matrix.PosDef.one
  set c : HeteroB 1 1 1 1 ℝ := mkHetero Backend.sat (tab fun _ => zeroM) (tab fun _ => zeroV) A W
    (le_refl _) (le_refl _) with hcdef
  have hc : HeteroOK c := mkHetero_ok hbe _ _ A W _ _ hAA
  obtain ⟨p, -, hp, hp1⟩ := exists_px hbe (tab fun _ : Fin 1 => ofM (1 : Matrix (Fin 1) (Fin 1) ℝ))
    (tab fun _ => zeroV) (fun r => by simp only [tab_apply, toM_ofM]; exact Matrix.PosDef.one)
  have hW0 : ∀ k, (∃ j, wTail (c.W k) j ≠ 0) ∨ wHead (c.W k) ≠ 0 := by
    intro k
    right
    simp [hcdef, mkHetero, hWdef, wHead]
  refine ⟨Backend.sat, c, p, hbe, hc, decoupled_of_square c hc, hp, hp1 0, hW0, fun y => ⟨?_, ?_⟩⟩
  · exact C17_lower_bound_exp' hbe hp c hc (decoupled_of_square c hc) y 0 (hp1 0) hW0
  · exact C17_lower_bound_coshM1' hbe hp c hc (decoupled_of_square c hc) y 0 (hp1 0) hW0

/-- the counterexample is realised by the satisfiable backend -/
example : ∃ (be : Backend ℝ) (c : HeteroB 1 1 2 1 ℝ), be.Spec ∧ HeteroOK c ∧ ¬ Decoupled c ∧
    toM ((c.conditionalCovInv expOps (tab fun _ : Fin 1 => zeroV)).2.1 0)
      * toM ((c.conditionalCovInv expOps (tab fun _ : Fin 1 => zeroV)).1 0) ≠ 1 :=
  ⟨Backend.sat, cex Backend.sat (tab fun _ => zeroM) (tab fun _ => zeroV), Backend.sat_spec,
    cex_ok Backend.sat_spec _ _, cex_not_decoupled Backend.sat_spec _ _,
    (C17_counterexample Backend.sat_spec _ _ _ 0).2.2.1⟩

end nonvacuity

end GT.Props.C17

#print axioms GT.Props.C17.C17_cov
#print axioms GT.Props.C17.C17_precision_partial
#print axioms GT.Props.C17.decoupled_of_square
#print axioms GT.Props.C17.C17_conditionOnX_evalLn
#print axioms GT.Props.C17.C17_counterexample
#print axioms GT.Props.C17.cex_not_decoupled
#print axioms GT.Props.C17.C17_pointwise_exp
#print axioms GT.Props.C17.C17_pointwise_coshM1
#print axioms GT.Props.C17.C17_exp_value_eq_integral
#print axioms GT.Props.C17.C17_coshM1_value_eq_integral
#print axioms GT.Props.C17.C17_lower_bound_exp_coded
#print axioms GT.Props.C17.C17_lower_bound_coshM1_coded
#print axioms GT.Props.C17.C17_lower_bound_exp'
#print axioms GT.Props.C17.C17_lower_bound_coshM1'
#print axioms GT.Props.C17.C17_tight_at_zero_weights
#print axioms GT.Props.C17.omegaWhile_invariant
#print axioms GT.Props.C17.baseGetOmegaStar_first_step
#print axioms GT.Props.C17.omegaStar_exp_cases
#print axioms GT.Props.C17.omegaStar_coshM1_cases
#print axioms GT.Props.C17.omegaStar_exp_zero_weights
#print axioms GT.Props.C17.omegaStar_coshM1_zero_weights
#print axioms GT.Props.C17.C17_tight_at_zero_weights_exp_model
#print axioms GT.Props.C17.C17_tight_at_zero_weights_coshM1_model
