import GT.Bridge.PdfFullOK
import GT.Bridge.SpecSat
import GT.Props.C10
/-!
# C06 — `condition_on` / `condition_on_explicit`: the conditional of some coordinates given others

For a well-formed density `p = N(μ, Σ)` (`PdfFullOK p`, `Λ = Σ⁻¹`), index functions
`dimX : Fin Kx → Fin D` (the coordinates kept) and `dimY : Fin Ky → Fin D` (the coordinates
conditioned on) and `cnd := p.conditionOnExplicit be dimY dimX`:

* `C06_cond_params` / `C06_cond_condOK` (`dimX` injective): `Λcnd = Λ[dimX,dimX]` (positive
  definite), `Σcnd = Λ[dimX,dimX]⁻¹`, `ln det Σcnd`, `M = −Λxx⁻¹ Λxy`, `b = μx + Λxx⁻¹ Λxy μy`;
* `C06_product_rule` (`dimX`, `dimY` together a bijection `e : Fin Kx ⊕ Fin Ky ≃ Fin D`):
  `ln p(xa | xb) + ln p(xb) = ln p(x)` for all points, where `p(xb)` is the marginal
  `N(μ[dimY], Σ[dimY,dimY])` and `x` is assembled from `xa`, `xb` along `e`;
  `C06_product_rule_model`: the same for the model objects (`condition_on_x`, `get_marginal`);
* `C06_condition_on_eq_explicit`, `C06_complDims_*`: `condition_on(dim_y)` is
  `condition_on_explicit` with the complement of `dim_y` in ascending order;
  `C06_condition_on_product_rule`: the product rule for `condition_on` with injective `dim_y`;
* `C06_explicit_row_order`: permuting `dimX` permutes rows of `M`, `b` and rows/columns of
  `Sigma`, `Lambda`.
-/
namespace GT.Props.C06
open GT Matrix

variable {R D Kx Ky : Nat}

/-! ## the parameters computed by `conditionOnExplicit` -/

/-- the precision block `Λ[dimX,dimX]` assembled by `condition_on_explicit` -/
def condLambda (p : PdfV R D ℝ) (dimX : Fin Kx → Fin D) : Arr R (Mat Kx Kx ℝ) :=
  tab3 fun r i j => p.Lambda r (dimX i) (dimX j)

section defs
variable (be : Backend ℝ) (p : PdfV R D ℝ) (dimY : Fin Ky → Fin D) (dimX : Fin Kx → Fin D)

theorem conditionOnExplicit_Lambda :
    (p.conditionOnExplicit be dimY dimX).Lambda = condLambda p dimX := rfl

theorem conditionOnExplicit_Sigma :
    (p.conditionOnExplicit be dimY dimX).Sigma = (invertBatch be false (condLambda p dimX)).1 := rfl

theorem conditionOnExplicit_lnDetSigma :
    (p.conditionOnExplicit be dimY dimX).lnDetSigma =
      tab fun r => -((invertBatch be false (condLambda p dimX)).2 r) := rfl

theorem conditionOnExplicit_M :
    (p.conditionOnExplicit be dimY dimX).M = tab fun r =>
      mneg (mmul ((p.conditionOnExplicit be dimY dimX).Sigma r)
        (tab2 fun i j => p.Lambda r (dimX i) (dimY j))) := rfl

theorem conditionOnExplicit_b :
    (p.conditionOnExplicit be dimY dimX).b = tab fun r =>
      vsub (tab fun i => p.mu r (dimX i))
        (mulVec ((p.conditionOnExplicit be dimY dimX).M r) (tab fun j => p.mu r (dimY j))) := rfl

theorem toM_condLambda (r : Fin R) :
    toM (condLambda p dimX r) = (toM (p.Lambda r)).submatrix dimX dimX := by
  ext i j; simp [condLambda]

theorem toM_tab2_sub (A : Mat D D ℝ) :
    toM (tab2 fun i j => A (dimX i) (dimY j)) = (toM A).submatrix dimX dimY := by
  ext i j; simp

theorem toV_tab_sub (v : Vec D ℝ) : toV (tab fun i => v (dimX i)) = toV v ∘ dimX := by
  ext i; simp

end defs

theorem condPrec_posDef {p : PdfV R D ℝ} (hp : PdfFullOK p) {dimX : Fin Kx → Fin D}
    (hX : Function.Injective dimX) (r : Fin R) :
    ((toM (p.Lambda r)).submatrix dimX dimX).PosDef :=
  (hp.lambda_posDef r).submatrix hX

variable {be : Backend ℝ} (hbe : be.Spec)
include hbe

/-- **C06 (a)**: parameters of `cnd = condition_on_explicit(dim_y, dim_x)`, component `r`:
`Λcnd = Λ[dimX,dimX]` (positive definite), `Σcnd = Λcnd⁻¹`, `ln det Σcnd`,
`M = −Λxx⁻¹ Λxy`, `b = μx + Λxx⁻¹ Λxy μy`. -/
theorem C06_cond_params (p : PdfV R D ℝ) (hp : PdfFullOK p) (dimY : Fin Ky → Fin D)
    (dimX : Fin Kx → Fin D) (hX : Function.Injective dimX) (r : Fin R) :
    ((toM (p.Lambda r)).submatrix dimX dimX).PosDef ∧
    toM ((p.conditionOnExplicit be dimY dimX).Lambda r) = (toM (p.Lambda r)).submatrix dimX dimX ∧
    toM ((p.conditionOnExplicit be dimY dimX).Sigma r) = ((toM (p.Lambda r)).submatrix dimX dimX)⁻¹ ∧
    (p.conditionOnExplicit be dimY dimX).lnDetSigma r =
      Real.log (toM ((p.conditionOnExplicit be dimY dimX).Sigma r)).det ∧
    toM ((p.conditionOnExplicit be dimY dimX).M r) =
      -(((toM (p.Lambda r)).submatrix dimX dimX)⁻¹ * (toM (p.Lambda r)).submatrix dimX dimY) ∧
    toV ((p.conditionOnExplicit be dimY dimX).b r) =
      toV (p.mu r) ∘ dimX
        + (((toM (p.Lambda r)).submatrix dimX dimX)⁻¹ * (toM (p.Lambda r)).submatrix dimX dimY)
            *ᵥ (toV (p.mu r) ∘ dimY) := by
  have hPD : ∀ r, (toM (condLambda p dimX r)).PosDef := fun r => by
    rw [toM_condLambda]; exact condPrec_posDef hp hX r
  have hinv := invertBatch_spec hbe false (condLambda p dimX) hPD (by simp) r
  have hS : toM ((p.conditionOnExplicit be dimY dimX).Sigma r) =
      ((toM (p.Lambda r)).submatrix dimX dimX)⁻¹ := by
    rw [conditionOnExplicit_Sigma, hinv.1, toM_condLambda]
  have hM : toM ((p.conditionOnExplicit be dimY dimX).M r) =
      -(((toM (p.Lambda r)).submatrix dimX dimX)⁻¹ * (toM (p.Lambda r)).submatrix dimX dimY) := by
    rw [conditionOnExplicit_M]
    simp only [tab_apply, toM_mneg, toM_mmul, toM_tab2_sub, hS]
  refine ⟨condPrec_posDef hp hX r, ?_, hS, ?_, hM, ?_⟩
  · rw [conditionOnExplicit_Lambda, toM_condLambda]
  · rw [hS, conditionOnExplicit_lnDetSigma, tab_apply, hinv.2, toM_condLambda,
      Matrix.det_nonsing_inv, Ring.inverse_eq_inv', Real.log_inv]
  · rw [conditionOnExplicit_b]
    simp only [tab_apply, toV_vsub, toV_mulVec, toV_tab_sub, hM, Matrix.neg_mulVec, sub_neg_eq_add]

/-- **C06 (a)**: the returned conditional is well formed. -/
theorem C06_cond_condOK (p : PdfV R D ℝ) (hp : PdfFullOK p) (dimY : Fin Ky → Fin D)
    (dimX : Fin Kx → Fin D) (hX : Function.Injective dimX) :
    C10.CondOK (p.conditionOnExplicit be dimY dimX) := by
  refine ⟨fun r => ?_, fun r => ?_, fun r => ?_⟩
  · obtain ⟨hPD, -, hS, -⟩ := C06_cond_params hbe p hp dimY dimX hX r
    rw [hS]; exact hPD.inv
  · obtain ⟨hPD, hL, hS, -⟩ := C06_cond_params hbe p hp dimY dimX hX r
    rw [hS, hL, Matrix.nonsing_inv_nonsing_inv _ hPD.det_pos.ne'.isUnit]
  · exact (C06_cond_params hbe p hp dimY dimX hX r).2.2.2.1

/-- **C06 (b), product rule**: if `dimX`, `dimY` together enumerate all coordinates
(`e : Fin Kx ⊕ Fin Ky ≃ Fin D`), then for all `xa`, `xb`, with `x` the point whose `dimX`
coordinates are `xa` and whose `dimY` coordinates are `xb`:
`ln p(xa | xb) + ln p(xb) = ln p(x)`; `p(xb) = N(μ[dimY], Σ[dimY,dimY])` is the marginal. -/
theorem C06_product_rule (p : PdfV R D ℝ) (hp : PdfFullOK p) (dimY : Fin Ky → Fin D)
    (dimX : Fin Kx → Fin D) (e : Fin Kx ⊕ Fin Ky ≃ Fin D) (heX : ∀ i, e (Sum.inl i) = dimX i)
    (heY : ∀ j, e (Sum.inr j) = dimY j) (r : Fin R) (xa : Fin Kx → ℝ) (xb : Fin Ky → ℝ) :
    normalLn (toM ((p.conditionOnExplicit be dimY dimX).M r) *ᵥ xb
          + toV ((p.conditionOnExplicit be dimY dimX).b r))
        (toM ((p.conditionOnExplicit be dimY dimX).Sigma r))⁻¹
        (Real.log (toM ((p.conditionOnExplicit be dimY dimX).Sigma r)).det) xa
      + normalLn (toV (p.mu r) ∘ dimY) ((toM (p.Sigma r)).submatrix dimY dimY)⁻¹
          (Real.log ((toM (p.Sigma r)).submatrix dimY dimY).det) xb
      = normalLn (toV (p.mu r)) (toM (p.Sigma r))⁻¹ (Real.log (toM (p.Sigma r)).det)
          (Sum.elim xa xb ∘ e.symm) := by
  obtain rfl : e ∘ Sum.inl = dimX := funext heX
  obtain rfl : e ∘ Sum.inr = dimY := funext heY
  have hX : Function.Injective (e ∘ Sum.inl) := e.injective.comp Sum.inl_injective
  obtain ⟨hPD, -, hS, -, hM, hb⟩ := C06_cond_params hbe p hp (e ∘ Sum.inr) (e ∘ Sum.inl) hX r
  rw [← hp.lambda r]
  set Λ := toM (p.Lambda r)
  set S := toM (p.Sigma r)
  set μ := toV (p.mu r)
  set Laa := Λ.submatrix (e ∘ Sum.inl) (e ∘ Sum.inl)
  set Lab := Λ.submatrix (e ∘ Sum.inl) (e ∘ Sum.inr)
  have hΛ : (fromBlocks Laa Lab (Λ.submatrix (e ∘ Sum.inr) (e ∘ Sum.inl))
      (Λ.submatrix (e ∘ Sum.inr) (e ∘ Sum.inr))).PosDef := by
    rw [fromBlocks_submatrix_equiv]; exact (hp.lambda_posDef r).submatrix e.injective
  have hone : fromBlocks Laa Lab (Λ.submatrix (e ∘ Sum.inr) (e ∘ Sum.inl))
      (Λ.submatrix (e ∘ Sum.inr) (e ∘ Sum.inr))
      * fromBlocks (S.submatrix (e ∘ Sum.inl) (e ∘ Sum.inl)) (S.submatrix (e ∘ Sum.inl) (e ∘ Sum.inr))
        (S.submatrix (e ∘ Sum.inr) (e ∘ Sum.inl)) (S.submatrix (e ∘ Sum.inr) (e ∘ Sum.inr)) = 1 := by
    rw [fromBlocks_submatrix_equiv, fromBlocks_submatrix_equiv, submatrix_mul_equiv,
      hp.lambda_mul_sigma r, submatrix_one_equiv]
  have hmean : toM ((p.conditionOnExplicit be (e ∘ Sum.inr) (e ∘ Sum.inl)).M r) *ᵥ xb
        + toV ((p.conditionOnExplicit be (e ∘ Sum.inr) (e ∘ Sum.inl)).b r)
      = μ ∘ e ∘ Sum.inl - Laa⁻¹ *ᵥ Lab *ᵥ (xb - μ ∘ e ∘ Sum.inr) := by
    rw [hM, hb, Matrix.neg_mulVec, Matrix.mulVec_sub, ← Matrix.mulVec_mulVec, ← Matrix.mulVec_mulVec,
      Matrix.mulVec_sub]
    abel
  have hSinv : (toM ((p.conditionOnExplicit be (e ∘ Sum.inr) (e ∘ Sum.inl)).Sigma r))⁻¹ = Laa := by
    rw [hS, Matrix.nonsing_inv_nonsing_inv _ hPD.det_pos.ne'.isUnit]
  rw [hmean, hSinv, hS, ← jointLn_reindex e μ Λ S xa xb]
  exact normalLn_cond_add_marginal hΛ hone _ _ xa xb

/-- **C06 (b) for the model objects**: `cnd.condition_on_x(xb)(xa) · p.get_marginal(dim_y)(xb)
= p(x)` in the log domain, for point batches `xas`, `xbs`.  (For the diagonal class the
covariance must be diagonal — `hdiag` — as its constructor assumes.) -/
theorem C06_product_rule_model {Na Nb : Nat} (p : PdfV R D ℝ) (hp : PdfFullOK p)
    (hdiag : p.diag = true → ∀ r i j, i ≠ j → p.Sigma r i j = 0)
    (dimY : Fin Ky → Fin D) (dimX : Fin Kx → Fin D) (e : Fin Kx ⊕ Fin Ky ≃ Fin D)
    (heX : ∀ i, e (Sum.inl i) = dimX i) (heY : ∀ j, e (Sum.inr j) = dimY j) (r : Fin R)
    (xas : Arr Na (Vec Kx ℝ)) (xbs : Arr Nb (Vec Ky ℝ)) (i : Fin Na) (j : Fin Nb) :
    ((p.conditionOnExplicit be dimY dimX).conditionOnX be xbs).evalLn (flat r j) (ofV (toV (xas i)))
      + (p.getMarginal be dimY).evalLn r (ofV (toV (xbs j)))
      = p.evalLn r (ofV (Sum.elim (toV (xas i)) (toV (xbs j)) ∘ e.symm)) := by
  have hX : Function.Injective dimX := by
    have : dimX = e ∘ Sum.inl := (funext heX).symm
    rw [this]; exact e.injective.comp Sum.inl_injective
  have hY : Function.Injective dimY := by
    have : dimY = e ∘ Sum.inr := (funext heY).symm
    rw [this]; exact e.injective.comp Sum.inr_injective
  have hmarg : (p.getMarginal be dimY).evalLn r (ofV (toV (xbs j))) =
      normalLn (toV (p.mu r) ∘ dimY) ((toM (p.Sigma r)).submatrix dimY dimY)⁻¹
        (Real.log ((toM (p.Sigma r)).submatrix dimY dimY).det) (toV (xbs j)) := by
    unfold PdfV.getMarginal
    rw [mkPdf_evalLn hbe]
    · have h1 : toM ((tab3 fun r i j => p.Sigma r (dimY i) (dimY j)) r)
          = (toM (p.Sigma r)).submatrix dimY dimY := by ext a b; simp
      have h2 : toV ((tab2 fun r i => p.mu r (dimY i)) r) = toV (p.mu r) ∘ dimY := by ext a; simp
      rw [h1, h2]
    · refine ⟨fun r => ?_, fun hd r a b hab => ?_, by simp, by simp⟩
      · have h1 : toM ((tab3 fun r i j => p.Sigma r (dimY i) (dimY j)) r)
            = (toM (p.Sigma r)).submatrix dimY dimY := by ext a b; simp
        rw [h1]; exact (hp.posDef r).submatrix hY
      · simp only [tab3_apply]
        exact hdiag hd r _ _ (fun h => hab (hY h))
  rw [C10.conditionOnX_evalLn hbe _ (C06_cond_condOK hbe p hp dimY dimX hX), unflatL_flat, unflatR_flat, hmarg,
    PdfV.evalLn_eq_normalLn hp]
  exact C06_product_rule hbe p hp dimY dimX e heX heY r _ _

/-! ## `condition_on(dim_y)`: the complement of `dim_y`, ascending -/

omit hbe in
/-- **C06 (c)**: `condition_on(dim_y)` is `condition_on_explicit(dim_y, dim_x)` with `dim_x` the list
`complDims dimY`. -/
theorem C06_condition_on_eq_explicit (p : PdfV R D ℝ) (dimY : Fin Ky → Fin D) :
    p.conditionOn be dimY = p.conditionOnExplicit be dimY (fun i => (complDims dimY).get i) := rfl

omit hbe in
/-- **C06 (c)**: `complDims dimY` lists exactly the coordinates outside the range of `dimY` … -/
theorem C06_complDims_mem (dimY : Fin Ky → Fin D) (d : Fin D) :
    d ∈ complDims dimY ↔ ∀ k, dimY k ≠ d := by
  simp [complDims]

omit hbe in
/-- … in strictly ascending order (in particular without repetition). -/
theorem C06_complDims_sorted (dimY : Fin Ky → Fin D) : (complDims dimY).Pairwise (· < ·) :=
  List.Pairwise.filter _ (List.pairwise_lt_finRange D)

omit hbe in
theorem C06_complDims_nodup (dimY : Fin Ky → Fin D) : (complDims dimY).Nodup :=
  (C06_complDims_sorted dimY).imp (fun h => ne_of_lt h)

omit hbe in
/-- the kept coordinates of `condition_on` are pairwise distinct -/
theorem complDims_get_injective (dimY : Fin Ky → Fin D) :
    Function.Injective fun i : Fin (complDims dimY).length => (complDims dimY).get i :=
  List.nodup_iff_injective_get.mp (C06_complDims_nodup dimY)

/-- for distinct `dim_y`, the complement and `dim_y` together enumerate all coordinates -/
noncomputable def complEquiv (dimY : Fin Ky → Fin D) (hY : Function.Injective dimY) :
    Fin (complDims dimY).length ⊕ Fin Ky ≃ Fin D :=
  Equiv.ofBijective (Sum.elim (fun i => (complDims dimY).get i) dimY) (by
    constructor
    · refine Function.Injective.sumElim (complDims_get_injective dimY) hY fun i k h => ?_
      exact (C06_complDims_mem dimY _).1 (List.get_mem _ i) k h.symm
    · intro d
      by_cases h : ∃ k, dimY k = d
      · obtain ⟨k, hk⟩ := h
        exact ⟨Sum.inr k, hk⟩
      · have hm : d ∈ complDims dimY := (C06_complDims_mem dimY d).2 fun k hk => h ⟨k, hk⟩
        obtain ⟨i, hi⟩ := List.mem_iff_get.1 hm
        exact ⟨Sum.inl i, hi⟩)

/-- **C06 (a) for `condition_on`**: the returned conditional is well formed. -/
theorem C06_condition_on_condOK (p : PdfV R D ℝ) (hp : PdfFullOK p) (dimY : Fin Ky → Fin D) :
    C10.CondOK (p.conditionOn be dimY) :=
  C06_cond_condOK hbe p hp dimY _ (complDims_get_injective dimY)

/-- **C06 (b) for `condition_on`**: for distinct `dim_y`, `ln p(xa | xb) + ln p(xb) = ln p(x)`,
where `xa` are the remaining coordinates in ascending order. -/
theorem C06_condition_on_product_rule (p : PdfV R D ℝ) (hp : PdfFullOK p) (dimY : Fin Ky → Fin D)
    (hY : Function.Injective dimY) (r : Fin R) (xa : Fin (complDims dimY).length → ℝ)
    (xb : Fin Ky → ℝ) :
    normalLn (toM ((p.conditionOn be dimY).M r) *ᵥ xb + toV ((p.conditionOn be dimY).b r))
        (toM ((p.conditionOn be dimY).Sigma r))⁻¹
        (Real.log (toM ((p.conditionOn be dimY).Sigma r)).det) xa
      + normalLn (toV (p.mu r) ∘ dimY) ((toM (p.Sigma r)).submatrix dimY dimY)⁻¹
          (Real.log ((toM (p.Sigma r)).submatrix dimY dimY).det) xb
      = normalLn (toV (p.mu r)) (toM (p.Sigma r))⁻¹ (Real.log (toM (p.Sigma r)).det)
          (Sum.elim xa xb ∘ (complEquiv dimY hY).symm) :=
  C06_product_rule hbe p hp dimY _ (complEquiv dimY hY) (fun _ => rfl) (fun _ => rfl) r xa xb

/-! ## row order of `condition_on_explicit` -/

/-- **C06 (d)**: permuting `dim_x` by `σ` permutes the rows of `M` and `b` and the rows and columns
of `Sigma` and `Lambda` (and leaves `ln_det_Sigma` unchanged). -/
theorem C06_explicit_row_order (p : PdfV R D ℝ) (hp : PdfFullOK p) (dimY : Fin Ky → Fin D)
    (dimX : Fin Kx → Fin D) (hX : Function.Injective dimX) (σ : Equiv.Perm (Fin Kx)) (r : Fin R) :
    toM ((p.conditionOnExplicit be dimY (dimX ∘ σ)).Lambda r) =
      (toM ((p.conditionOnExplicit be dimY dimX).Lambda r)).submatrix σ σ ∧
    toM ((p.conditionOnExplicit be dimY (dimX ∘ σ)).Sigma r) =
      (toM ((p.conditionOnExplicit be dimY dimX).Sigma r)).submatrix σ σ ∧
    toM ((p.conditionOnExplicit be dimY (dimX ∘ σ)).M r) =
      (toM ((p.conditionOnExplicit be dimY dimX).M r)).submatrix σ id ∧
    toV ((p.conditionOnExplicit be dimY (dimX ∘ σ)).b r) =
      toV ((p.conditionOnExplicit be dimY dimX).b r) ∘ σ ∧
    (p.conditionOnExplicit be dimY (dimX ∘ σ)).lnDetSigma r =
      (p.conditionOnExplicit be dimY dimX).lnDetSigma r := by
  have hXσ : Function.Injective (dimX ∘ σ) := hX.comp σ.injective
  obtain ⟨-, hL, hS, hld, hM, hb⟩ := C06_cond_params hbe p hp dimY dimX hX r
  obtain ⟨-, hL', hS', hld', hM', hb'⟩ := C06_cond_params hbe p hp dimY (dimX ∘ σ) hXσ r
  set Λ := toM (p.Lambda r)
  have h1 : Λ.submatrix (dimX ∘ σ) (dimX ∘ σ) = (Λ.submatrix dimX dimX).submatrix σ σ := rfl
  have h2 : Λ.submatrix (dimX ∘ σ) dimY = (Λ.submatrix dimX dimY).submatrix σ id := rfl
  have hSσ : toM ((p.conditionOnExplicit be dimY (dimX ∘ σ)).Sigma r) =
      (toM ((p.conditionOnExplicit be dimY dimX).Sigma r)).submatrix σ σ := by
    rw [hS', hS, h1, Matrix.inv_submatrix_equiv]
  have hprod : ((Λ.submatrix dimX dimX).submatrix σ σ)⁻¹ * (Λ.submatrix dimX dimY).submatrix σ id
      = ((Λ.submatrix dimX dimX)⁻¹ * Λ.submatrix dimX dimY).submatrix σ id := by
    rw [Matrix.inv_submatrix_equiv, Matrix.submatrix_mul_equiv]
  refine ⟨by rw [hL', hL, h1], hSσ, ?_, ?_, ?_⟩
  · rw [hM', hM, h1, h2, hprod]; rfl
  · rw [hb', hb, h1, h2, hprod]
    ext i
    simp [Matrix.mulVec, dotProduct]
  · rw [hld', hld, hSσ, Matrix.det_submatrix_equiv_self]

/-! ## non-vacuity -/

/-- the density `N((1,−1), [[2,1],[1,2]])`, conditioned on coordinate `0` (keeping coordinate `1`),
satisfies all hypotheses (with the backend of `Bridge/SpecSat.lean`) -/
example : ∃ (be : Backend ℝ) (p : PdfV 1 2 ℝ) (dimY dimX : Fin 1 → Fin 2)
    (e : Fin 1 ⊕ Fin 1 ≃ Fin 2), be.Spec ∧ PdfFullOK p ∧ Function.Injective dimX ∧
      (∀ i, e (Sum.inl i) = dimX i) ∧ (∀ j, e (Sum.inr j) = dimY j) ∧ p.Lambda 0 1 0 ≠ 0 := by
  refine ⟨Backend.sat, examplePdf, ![0], ![1], (Equiv.sumComm _ _).trans finSumFinEquiv,
    Backend.sat_spec, examplePdf_ok, fun a b _ => Subsingleton.elim a b, fun i => ?_, fun j => ?_, ?_⟩
  · fin_cases i; rfl
  · fin_cases j; rfl
  · simp [examplePdf, ofM]

end GT.Props.C06

section axioms
#print axioms GT.Props.C06.C06_cond_params
#print axioms GT.Props.C06.C06_cond_condOK
#print axioms GT.Props.C06.C06_product_rule
#print axioms GT.Props.C06.C06_product_rule_model
#print axioms GT.Props.C06.C06_condition_on_eq_explicit
#print axioms GT.Props.C06.C06_complDims_mem
#print axioms GT.Props.C06.C06_complDims_sorted
#print axioms GT.Props.C06.C06_condition_on_condOK
#print axioms GT.Props.C06.C06_condition_on_product_rule
#print axioms GT.Props.C06.C06_explicit_row_order
end axioms
