import GT.Props.C05
import GT.Props.C14
import GT.Props.C16

/-!
# C14F — expected log-conditionals of the feature classes (LRBF / LSEM) are the true integrals

Model: `GT/Model/ApproxFeature.lean` (`FeatCondB.logConditionalYTerms`, `logConditionalYAt`,
`integrateLogConditional`, `jointKFunc`, `kernelKernel`, `Ekk`).  All statements at `α := ℝ`, all
sizes `Dy Dx Dk Rx Rq`, both kernels, all real parameters.  Right-hand sides are Lebesgue integrals
(Mathlib) against the Gaussian weight `exp (p.evalLn r ·)`; `ln p(y|x)` is the log-density of the
object's own `condition_on_x` (`= normalLn μ(x) Σ⁻¹ (log det Σ) y`, `μ(x) = Mx x + Mk k(x) + b`, by
`C16_condition_on_x`).

Hypotheses: `be.Spec`; `C16.FeatOK c` (what `mkFeatCond` establishes); `C16.PdfInv p` (consistent
caches, mass one: every constructed density, `C16.pdfInv_of_mkPdf`); for the joint argument `q` over
`(y, x)` (`y` first) in addition `PdfFullOK q`, `PdfDiagOK q` (every constructed density:
`mkPdf_pdfOK`, `mkPdf_asPdf_ok`) — used only to identify `get_marginal` with the true marginal.

PROVED
* `C14F_log_conditional_y` (`_normal`: same with `normalLn`, plus integrability):
  `integrate_log_conditional_y(p_x)(y) = ∫ ln p(y|x) p_r(x) dx`, every component `r`, every `y`.
* `C14F_log_conditional`: `integrate_log_conditional(p_yx) = ∫ ln p(y|x) q_r(y,x) d(y,x)` (default
  `p_x`); `C14F_log_conditional_px`: explicit `p_x`, provided it satisfies the invariant and is the
  `x`-marginal of `p_yx`; `C14F_log_conditional_px_marginal`: in particular for
  `p_x = p_yx.get_marginal(x)`, and then both calls agree; `C14F_log_conditional_px_offset`
  (`log_conditional_any_px`): exact value for an *arbitrary* admissible `p_x` — it enters only through
  `E_kk`; `C14F_log_conditional_iterated`: the Fubini form `∫ (∫ ln p(y|x) q(y,x) dy) dx`.
* tools: `core_quad` (Mahalanobis term of an affine-plus-feature mean from three families of
  moments), `jointKFunc_toB/evalLn/psd` (both classes pad the kernel factor with zeros; it only sees
  `x`; it is a conjugate factor), `Ekk_spec` (`E_kk` for either `update_full` order),
  `integral_joint_eq_iterated` (Fubini on `ℝ^{a+b}` via `Fin.append`), `marginal_x_density`
  (`get_marginal` of the last block is the integral of the joint density over the first block).

NOT PROVED HERE
* the optional consistency corollary for `q` = moment-matched joint of `p(x)` and `p(y|x)`
  (`affine_joint_transformation` orders the joint `(x, y)`, `integrate_log_conditional` expects `(y, x)`).
-/

set_option linter.unusedSimpArgs false

namespace GT.Props.C14Feature
open GT Matrix MeasureTheory GT.Math

/-! ## 0. abstract core: the Mahalanobis term of an affine-plus-feature mean -/

section core
variable {X : Type*} [MeasurableSpace X] {μ : Measure X} {n k : Nat}

theorem quad_sum (Λ : Matrix (Fin n) (Fin n) ℝ) (c : Fin n → ℝ) :
    c ⬝ᵥ Λ *ᵥ c = ∑ i, ∑ j, Λ i j * (c i * c j) := by
  simp only [dotProduct, Matrix.mulVec, Finset.mul_sum]
  exact Finset.sum_congr rfl fun i _ => Finset.sum_congr rfl fun j _ => by ring

/-- pointwise expansion (symmetric `Λ`) -/
theorem quad_expand (Λ : Matrix (Fin n) (Fin n) ℝ) (hΛ : Λᵀ = Λ) (Mk : Matrix (Fin n) (Fin k) ℝ)
    (s : ℝ) (v : Fin n → ℝ) (κ : Fin k → ℝ) :
    (v + s • Mk *ᵥ κ) ⬝ᵥ Λ *ᵥ (v + s • Mk *ᵥ κ)
      = v ⬝ᵥ Λ *ᵥ v + 2 * s * (∑ i, ∑ l, Mk i l * ((Λ *ᵥ v) i * κ l))
        + s ^ 2 * (∑ i, ∑ j, Λ i j * ∑ l', (∑ l, Mk i l * (κ l * κ l')) * Mk j l') := by
  have hs := dotProduct_mulVec_symm hΛ v (Mk *ᵥ κ)
  have h1 : (Mk *ᵥ κ) ⬝ᵥ Λ *ᵥ v = ∑ i, ∑ l, Mk i l * ((Λ *ᵥ v) i * κ l) := by
    generalize Λ *ᵥ v = g
    simp only [dotProduct, Matrix.mulVec, Finset.sum_mul]
    exact Finset.sum_congr rfl fun i _ => Finset.sum_congr rfl fun l _ => by ring
  have h2 : (Mk *ᵥ κ) ⬝ᵥ Λ *ᵥ (Mk *ᵥ κ)
      = ∑ i, ∑ j, Λ i j * ∑ l', (∑ l, Mk i l * (κ l * κ l')) * Mk j l' := by
    have hin : ∀ i j, (∑ l', (∑ l, Mk i l * (κ l * κ l')) * Mk j l')
        = (Mk *ᵥ κ) i * (Mk *ᵥ κ) j := by
      intro i j
      simp only [Matrix.mulVec, dotProduct]
      rw [Finset.sum_mul_sum, Finset.sum_comm]
      refine Finset.sum_congr rfl fun l' _ => ?_
      rw [Finset.sum_mul]
      exact Finset.sum_congr rfl fun l _ => by ring
    simp only [hin]
    exact quad_sum Λ _
  simp only [Matrix.mulVec_add, Matrix.mulVec_smul, add_dotProduct, dotProduct_add, smul_dotProduct,
    dotProduct_smul, smul_eq_mul, hs, h1, h2]
  ring

variable (Λ : Matrix (Fin n) (Fin n) ℝ) (Mk : Matrix (Fin n) (Fin k) ℝ)
  {E : Fin k → Fin k → X → ℝ}

/-- nested linearity for the kernel-kernel term -/
theorem kk_linear (hE : ∀ l l', Integrable (E l l') μ) :
    Integrable (fun x => ∑ i, ∑ j, Λ i j * ∑ l', (∑ l, Mk i l * E l l' x) * Mk j l') μ ∧
    ∫ x, (∑ i, ∑ j, Λ i j * ∑ l', (∑ l, Mk i l * E l l' x) * Mk j l') ∂μ
      = ∑ i, ∑ j, Λ i j * ∑ l', (∑ l, Mk i l * ∫ x, E l l' x ∂μ) * Mk j l' := by
  have i1 : ∀ i l', Integrable (fun x => ∑ l, Mk i l * E l l' x) μ := fun i l' =>
    integrable_finsetSum _ fun l _ => (hE l l').const_mul _
  have e1 : ∀ i l', ∫ x, (∑ l, Mk i l * E l l' x) ∂μ = ∑ l, Mk i l * ∫ x, E l l' x ∂μ := by
    intro i l'
    rw [integral_finsetSum _ fun l _ => (hE l l').const_mul _]
    simp only [integral_const_mul]
  have i2 : ∀ i j, Integrable (fun x => ∑ l', (∑ l, Mk i l * E l l' x) * Mk j l') μ := fun i j =>
    integrable_finsetSum _ fun l' _ => (i1 i l').mul_const _
  have e2 : ∀ i j, ∫ x, (∑ l', (∑ l, Mk i l * E l l' x) * Mk j l') ∂μ
      = ∑ l', (∑ l, Mk i l * ∫ x, E l l' x ∂μ) * Mk j l' := by
    intro i j
    rw [integral_finsetSum _ fun l' _ => (i1 i l').mul_const _]
    simp only [integral_mul_const, e1]
  have i3 : ∀ i, Integrable (fun x => ∑ j, Λ i j * ∑ l', (∑ l, Mk i l * E l l' x) * Mk j l') μ :=
    fun i => integrable_finsetSum _ fun j _ => (i2 i j).const_mul _
  refine ⟨integrable_finsetSum _ fun i _ => i3 i, ?_⟩
  rw [integral_finsetSum _ fun i _ => i3 i]
  refine Finset.sum_congr rfl fun i _ => ?_
  rw [integral_finsetSum _ fun j _ => (i2 i j).const_mul _]
  simp only [integral_const_mul, e2]

/-- nested linearity for the linear-kernel term -/
theorem lin_linear {G : Fin n → Fin k → X → ℝ} (hG : ∀ i l, Integrable (G i l) μ) :
    Integrable (fun x => ∑ i, ∑ l, Mk i l * G i l x) μ ∧
    ∫ x, (∑ i, ∑ l, Mk i l * G i l x) ∂μ = ∑ i, ∑ l, Mk i l * ∫ x, G i l x ∂μ := by
  have i1 : ∀ i, Integrable (fun x => ∑ l, Mk i l * G i l x) μ := fun i =>
    integrable_finsetSum _ fun l _ => (hG i l).const_mul _
  refine ⟨integrable_finsetSum _ fun i _ => i1 i, ?_⟩
  rw [integral_finsetSum _ fun i _ => i1 i]
  refine Finset.sum_congr rfl fun i _ => ?_
  rw [integral_finsetSum _ fun l _ => (hG i l).const_mul _]
  simp only [integral_const_mul]

/-- **core**: `∫ (v + s Mk κ)ᵀ Λ (v + s Mk κ) w` from the three families of moments -/
theorem core_quad (hΛ : Λᵀ = Λ) (s : ℝ) (v : X → Fin n → ℝ) (κ : X → Fin k → ℝ) (w : X → ℝ)
    (hQ : Integrable (fun x => (v x ⬝ᵥ Λ *ᵥ v x) * w x) μ)
    (hL : ∀ i l, Integrable (fun x => (Λ *ᵥ v x) i * κ x l * w x) μ)
    (hK : ∀ l l', Integrable (fun x => κ x l * κ x l' * w x) μ) :
    Integrable (fun x => ((v x + s • Mk *ᵥ κ x) ⬝ᵥ Λ *ᵥ (v x + s • Mk *ᵥ κ x)) * w x) μ ∧
    ∫ x, ((v x + s • Mk *ᵥ κ x) ⬝ᵥ Λ *ᵥ (v x + s • Mk *ᵥ κ x)) * w x ∂μ
      = (∫ x, (v x ⬝ᵥ Λ *ᵥ v x) * w x ∂μ)
        + 2 * s * (∑ i, ∑ l, Mk i l * ∫ x, (Λ *ᵥ v x) i * κ x l * w x ∂μ)
        + s ^ 2 * (∑ i, ∑ j, Λ i j * ∑ l', (∑ l, Mk i l * ∫ x, κ x l * κ x l' * w x ∂μ) * Mk j l') := by
  obtain ⟨iL, eL⟩ := lin_linear (μ := μ) Mk hL
  obtain ⟨iK, eK⟩ := kk_linear (μ := μ) Λ Mk hK
  have hpt : ∀ x, ((v x + s • Mk *ᵥ κ x) ⬝ᵥ Λ *ᵥ (v x + s • Mk *ᵥ κ x)) * w x
      = (v x ⬝ᵥ Λ *ᵥ v x) * w x
        + 2 * s * (∑ i, ∑ l, Mk i l * ((Λ *ᵥ v x) i * κ x l * w x))
        + s ^ 2 * (∑ i, ∑ j, Λ i j * ∑ l', (∑ l, Mk i l * (κ x l * κ x l' * w x)) * Mk j l') := by
    intro x
    have hA : (∑ i, ∑ l, Mk i l * ((Λ *ᵥ v x) i * κ x l)) * w x
        = ∑ i, ∑ l, Mk i l * ((Λ *ᵥ v x) i * κ x l * w x) := by
      rw [Finset.sum_mul]
      refine Finset.sum_congr rfl fun i _ => ?_
      rw [Finset.sum_mul]
      exact Finset.sum_congr rfl fun l _ => by ring
    have hB : (∑ i, ∑ j, Λ i j * ∑ l', (∑ l, Mk i l * (κ x l * κ x l')) * Mk j l') * w x
        = ∑ i, ∑ j, Λ i j * ∑ l', (∑ l, Mk i l * (κ x l * κ x l' * w x)) * Mk j l' := by
      rw [Finset.sum_mul]
      refine Finset.sum_congr rfl fun i _ => ?_
      rw [Finset.sum_mul]
      refine Finset.sum_congr rfl fun j _ => ?_
      rw [mul_assoc, Finset.sum_mul]
      congr 1
      refine Finset.sum_congr rfl fun l' _ => ?_
      rw [mul_right_comm, Finset.sum_mul]
      congr 1
      exact Finset.sum_congr rfl fun l _ => by ring
    rw [quad_expand Λ hΛ Mk s (v x) (κ x), add_mul, add_mul, mul_assoc (2 * s), mul_assoc (s ^ 2),
      hA, hB]
  simp only [hpt]
  have a1 := integral_add (μ := μ) (f := fun x => (v x ⬝ᵥ Λ *ᵥ v x) * w x
        + 2 * s * (∑ i, ∑ l, Mk i l * ((Λ *ᵥ v x) i * κ x l * w x)))
      (g := fun x => s ^ 2 * (∑ i, ∑ j, Λ i j * ∑ l', (∑ l, Mk i l * (κ x l * κ x l' * w x)) * Mk j l'))
      (hQ.add (iL.const_mul _)) (iK.const_mul _)
  have a2 := integral_add (μ := μ) (f := fun x => (v x ⬝ᵥ Λ *ᵥ v x) * w x)
      (g := fun x => 2 * s * (∑ i, ∑ l, Mk i l * ((Λ *ᵥ v x) i * κ x l * w x)))
      hQ (iL.const_mul _)
  refine ⟨(hQ.add (iL.const_mul _)).add (iK.const_mul _), ?_⟩
  rw [a1, a2, integral_const_mul, integral_const_mul, eL, eK]

/-- the pure kernel-kernel term `∫ (Mk κ)ᵀ Λ (Mk κ) w` -/
theorem kk_quad (hΛ : Λᵀ = Λ) (κ : X → Fin k → ℝ) (w : X → ℝ)
    (hK : ∀ l l', Integrable (fun x => κ x l * κ x l' * w x) μ) :
    Integrable (fun x => ((Mk *ᵥ κ x) ⬝ᵥ Λ *ᵥ (Mk *ᵥ κ x)) * w x) μ ∧
    ∫ x, ((Mk *ᵥ κ x) ⬝ᵥ Λ *ᵥ (Mk *ᵥ κ x)) * w x ∂μ
      = ∑ i, ∑ j, Λ i j * ∑ l', (∑ l, Mk i l * ∫ x, κ x l * κ x l' * w x ∂μ) * Mk j l' := by
  obtain ⟨i, e⟩ := core_quad (μ := μ) Λ Mk hΛ 1 (fun _ => 0) κ w (by simp) (by intro i l; simp) hK
  simp only [zero_add, one_smul, zero_dotProduct, zero_mul, integral_zero, Matrix.mulVec_zero,
    Pi.zero_apply, mul_zero, Finset.sum_const_zero, one_pow, one_mul] at i e
  exact ⟨i, e⟩

end core

/-! ## 1. the pieces of the feature conditional -/

section pieces
variable {Dy Dx Dk Rx : Nat} {be : Backend ℝ}

/-- the feature vector `k(x) = (k_1(x), …, k_Dk(x))` of the object -/
noncomputable def kvec (c : FeatCondB Dy Dx Dk ℝ) (x : Fin Dx → ℝ) : Fin Dk → ℝ :=
  fun l => C16.kern c l x

/-- the affine part `Mx x + b` of the conditional mean -/
noncomputable def affPart (c : FeatCondB Dy Dx Dk ℝ) (x : Fin Dx → ℝ) : Fin Dy → ℝ :=
  toM c.Mx *ᵥ x + toV (c.b 0)

/-- the kernel–kernel term `(Mk k(x))ᵀ Λ (Mk k(x))` of `ln p(y|x)` -/
noncomputable def kkQuad (c : FeatCondB Dy Dx Dk ℝ) (x : Fin Dx → ℝ) : ℝ :=
  (toM c.Mk *ᵥ kvec c x) ⬝ᵥ toM (c.Lambda 0) *ᵥ (toM c.Mk *ᵥ kvec c x)

theorem Mx_eq (c : FeatCondB Dy Dx Dk ℝ) (i : Fin Dy) (j : Fin Dx) :
    c.Mx i j = c.M 0 i (Fin.castAdd Dk j) := by
  simp only [FeatCondB.Mx, tab2_apply]; rfl

theorem Mk_eq (c : FeatCondB Dy Dx Dk ℝ) (i : Fin Dy) (l : Fin Dk) :
    c.Mk i l = c.M 0 i (Fin.natAdd Dx l) := by
  simp only [FeatCondB.Mk, tab2_apply]; rfl

/-- **the conditional mean** `get_conditional_mu(x) = Mx x + b + Mk k(x)` -/
theorem condMu_split (c : FeatCondB Dy Dx Dk ℝ) (x : Fin Dx → ℝ) :
    toV (c.condMu (tab fun _ : Fin 1 => ofV x) 0)
      = affPart c x + (1 : ℝ) • toM c.Mk *ᵥ kvec c x := by
  ext i
  rw [toV_apply, (C16.C16_readout c _ 0 i).2]
  simp only [tab_apply, toV_ofV, affPart, kvec, Pi.add_apply, Pi.smul_apply, smul_eq_mul, one_mul,
    Matrix.mulVec, dotProduct, toM_apply, toV_apply, Mx_eq, Mk_eq]
  simp only [ofV, tab_apply]
  ring

/-- the two forms `(Mx x + b, Λ Mx x + Λ b)` of `integrate_log_conditional_y`, any batch -/
def fA (R : Nat) (c : FeatCondB Dy Dx Dk ℝ) : AffForm R Dy Dx ℝ :=
  ⟨tab fun _ => c.Mx, tab fun _ => c.b 0⟩
def fAt (R : Nat) (c : FeatCondB Dy Dx Dk ℝ) : AffForm R Dy Dx ℝ :=
  ⟨tab fun _ => mmul (c.Lambda 0) c.Mx, tab fun _ => mulVec (c.Lambda 0) (c.b 0)⟩

theorem fAt_A {R : Nat} (c : FeatCondB Dy Dx Dk ℝ) (r : Fin R) :
    toM ((fAt R c).A r) = toM (c.Lambda 0) * toM ((fA R c).A r) := by
  simp only [fA, fAt, tab_apply, toM_mmul]

theorem fAt_a {R : Nat} (c : FeatCondB Dy Dx Dk ℝ) (r : Fin R) :
    toV ((fAt R c).a r) = toM (c.Lambda 0) *ᵥ toV ((fA R c).a r) := by
  simp only [fA, fAt, tab_apply, toV_mulVec]

theorem fA_apply {R : Nat} (c : FeatCondB Dy Dx Dk ℝ) (r : Fin R) (x : Fin Dx → ℝ) :
    toM ((fA R c).A r) *ᵥ x + toV ((fA R c).a r) = affPart c x := by
  simp only [fA, tab_apply, affPart]

theorem fAt_apply {R : Nat} (c : FeatCondB Dy Dx Dk ℝ) (r : Fin R) (x : Fin Dx → ℝ) :
    toM ((fAt R c).A r) *ᵥ x + toV ((fAt R c).a r) = toM (c.Lambda 0) *ᵥ affPart c x := by
  rw [fAt_A, fAt_a, ← Matrix.mulVec_mulVec, ← Matrix.mulVec_add, fA_apply]

theorem dot_vadd {n : Nat} (y a b : Vec n ℝ) : dot y (vadd a b) = dot y a + dot y b := by
  simp only [dot_real, vadd_apply, mul_add, Finset.sum_add_distrib]

theorem lambda_symm {c : FeatCondB Dy Dx Dk ℝ} (hc : C16.FeatOK c) :
    (toM (c.Lambda 0))ᵀ = toM (c.Lambda 0) := by
  rw [hc.lambda]; exact PosDef_inv_transpose hc.posDef

/-- `trace(Λ (Mk E Mkᵀ)ᵀ)` as the nested sum of the core lemma -/
theorem kernelKernel_eq (c : FeatCondB Dy Dx Dk ℝ) (E : Mat Dk Dk ℝ) :
    c.kernelKernel E
      = ∑ i, ∑ j, toM (c.Lambda 0) i j * ∑ l', (∑ l, toM c.Mk i l * E l l') * toM c.Mk j l' := by
  simp only [FeatCondB.kernelKernel, trace_real, mmul_apply, transpose_apply, toM_apply]

end pieces

/-! ## 2. `integrate_log_conditional_y(p_x)(y)` -/

section condY
variable {Dy Dx Dk Rx : Nat} {be : Backend ℝ}

/-- `E_kk` of `integrate_log_conditional_y`: `p_kk.integral_light()` reshaped -/
noncomputable def EkkY (be : Backend ℝ) (c : FeatCondB Dy Dx Dk ℝ) (p : PdfV Rx Dx ℝ) (r : Fin Rx) :
    Mat Dk Dk ℝ :=
  tab2 fun k l => ((C16.pKK be p.toMeasure c.kFunc).integralLight be).2 (flat (flat r k) l)

/-- the two `y`-independent terms (unfolding the model) -/
theorem terms_eq (c : FeatCondB Dy Dx Dk ℝ) (p : PdfV Rx Dx ℝ) (r : Fin Rx) :
    (c.logConditionalYTerms be p).1 r
      = vadd ((C16.v0 be p).integrateLinear (fAt Rx c) r)
          (mulVec (c.Lambda 0) (mulVec c.Mk (tab fun k => (C16.vk be c p).mass (flat r k)))) ∧
    (c.logConditionalYTerms be p).2 r
      = -(1 / 2 * ((C16.v0 be p).integrateQuadInner (fA Rx c) (fAt Rx c) r
          + 2 * (∑ i, ∑ k, c.Mk i k * (C16.vk be c p).integrateLinear (fAt (Rx * Dk) c) (flat r k) i)
          + c.kernelKernel (EkkY be c p r) + c.lnDetSigma 0
          + (Dy : ℝ) * Real.log (2 * Real.pi))) := by
  constructor
  · simp only [FeatCondB.logConditionalYTerms, tab_apply, C16.v0, C16.vk, C16.pK, fAt]
  · simp only [FeatCondB.logConditionalYTerms, tab_apply, half_real, two_real, ofNat_real,
      log2pi_real, vsum_real, C16.v0, C16.vk, C16.pK, C16.pKK, fA, fAt, EkkY]

end condY

section condYproof
variable {Dy Dx Dk Rx : Nat} {be : Backend ℝ}
variable (hbe : be.Spec) {p : PdfV Rx Dx ℝ} (hp : C16.PdfInv p) {c : FeatCondB Dy Dx Dk ℝ}
  (hc : C16.FeatOK c)
include hbe hp hc

/-- `E_p[(Λ(Mx x + b))_i k_l(x)]`: the linear key on the product measure `p_k` -/
theorem piece_lin (r : Fin Rx) (l : Fin Dk) (i : Fin Dy) :
    Integrable (fun x => (toM (c.Lambda 0) *ᵥ affPart c x) i * kvec c x l * C16.wgt p r x) ∧
    (C16.vk be c p).integrateLinear (fAt (Rx * Dk) c) (flat r l) i
      = ∫ x, (toM (c.Lambda 0) *ᵥ affPart c x) i * kvec c x l * C16.wgt p r x := by
  have hvk : C14.ViewOK (C16.pK be p.toMeasure c.kFunc) (C16.vk be c p) :=
    C14.intView_ok hbe (C16.pK_inv hbe hp.inv (C16.kFunc_ok hc))
  have h1 := C14.integrable_affine_row hvk (fAt (Rx * Dk) c) (flat r l) i
  have h2 := C14.C14_integrateLinear hvk (fAt (Rx * Dk) c) (flat r l) i
  have e : ∀ x : Fin Dx → ℝ,
      (toM ((fAt (Rx * Dk) c).A (flat r l)) *ᵥ x + toV ((fAt (Rx * Dk) c).a (flat r l))) i
        * Real.exp ((C16.pK be p.toMeasure c.kFunc).evalLn (flat r l) (ofV x))
      = (toM (c.Lambda 0) *ᵥ affPart c x) i * kvec c x l * C16.wgt p r x := by
    intro x
    rw [fAt_apply, C16.exp_pK]
    simp only [kvec, C16.kern, C16.wgt, PdfV.evalLn]
    ring
  simp only [e] at h1 h2
  exact ⟨h1, h2⟩

/-- `E_p[k_l(x) k_l'(x)]`: `integral_light()` of the product measure `p_kk` -/
theorem piece_kk (r : Fin Rx) (l l' : Fin Dk) :
    Integrable (fun x => kvec c x l * kvec c x l' * C16.wgt p r x) ∧
    EkkY be c p r l l' = ∫ x, kvec c x l * kvec c x l' * C16.wgt p r x := by
  refine ⟨C16.integrable_kk hbe hp.inv (C16.kFunc_ok hc) r l l', ?_⟩
  simp only [EkkY, tab2_apply]
  rw [C02.C02_integral_light hbe (C16.pKK_inv hbe hp.inv (C16.kFunc_ok hc))]
  simp only [C16.exp_pKK, kvec, C16.kern, C16.wgt, PdfV.evalLn]

/-- `yᵀ Λ Mk E_p[k(x)]` -/
theorem piece_k (r : Fin Rx) (y : Fin Dy → ℝ) :
    Integrable (fun x => (y ⬝ᵥ toM (c.Lambda 0) *ᵥ toM c.Mk *ᵥ kvec c x) * C16.wgt p r x) ∧
    dot (ofV y) (mulVec (c.Lambda 0) (mulVec c.Mk (tab fun k => (C16.vk be c p).mass (flat r k))))
      = ∫ x, (y ⬝ᵥ toM (c.Lambda 0) *ᵥ toM c.Mk *ᵥ kvec c x) * C16.wgt p r x := by
  have hk : ∀ l, Integrable (fun x => kvec c x l * C16.wgt p r x) := fun l =>
    C16.integrable_k hbe hp.inv (C16.kFunc_ok hc) r l
  have e : ∀ κ : Fin Dk → ℝ, y ⬝ᵥ toM (c.Lambda 0) *ᵥ toM c.Mk *ᵥ κ
      = ∑ l, (y ᵥ* (toM (c.Lambda 0) * toM c.Mk)) l * κ l := by
    intro κ
    rw [Matrix.mulVec_mulVec, Matrix.dotProduct_mulVec]
    rfl
  have hpt : ∀ x, (y ⬝ᵥ toM (c.Lambda 0) *ᵥ toM c.Mk *ᵥ kvec c x) * C16.wgt p r x
      = ∑ l, (y ᵥ* (toM (c.Lambda 0) * toM c.Mk)) l * (kvec c x l * C16.wgt p r x) := by
    intro x
    rw [e, Finset.sum_mul]
    exact Finset.sum_congr rfl fun l _ => by ring
  simp only [hpt]
  refine ⟨integrable_finsetSum _ fun l _ => (hk l).const_mul _, ?_⟩
  rw [integral_finsetSum _ fun l _ => (hk l).const_mul _]
  simp only [integral_const_mul]
  rw [dot_eq, toV_ofV, toV_mulVec, toV_mulVec, e]
  refine Finset.sum_congr rfl fun l _ => ?_
  rw [toV_apply, tab_apply, C16.C16_Ek_model hbe hp hc r l]
  rfl

/-- **C14F (`integrate_log_conditional_y`), normal form**: the returned function is
`y ↦ E_{p(x)}[ln N(y; μ(x), Σ)]` with `μ(x) = get_conditional_mu(x) = Mx x + Mk k(x) + b` -/
theorem C14F_log_conditional_y_normal (r : Fin Rx) (y : Fin Dy → ℝ) :
    Integrable (fun x : Fin Dx → ℝ =>
      normalLn (toV (c.condMu (tab fun _ : Fin 1 => ofV x) 0)) (toM (c.Sigma 0))⁻¹
        (Real.log (toM (c.Sigma 0)).det) y * Real.exp (p.evalLn r (ofV x))) ∧
    c.logConditionalYAt (c.logConditionalYTerms be p) r (ofV y)
      = ∫ x : Fin Dx → ℝ,
          normalLn (toV (c.condMu (tab fun _ : Fin 1 => ofV x) 0)) (toM (c.Sigma 0))⁻¹
            (Real.log (toM (c.Sigma 0)).det) y * Real.exp (p.evalLn r (ofV x)) := by
  rw [← hc.lambda, ← hc.lnDet]
  have hsym := lambda_symm hc
  have hw : ∀ x, Real.exp (p.toMeasure.evalLn r (ofV x)) = C16.wgt p r x := fun x => rfl
  have hw' : ∀ x, Real.exp (p.evalLn r (ofV x)) = C16.wgt p r x := fun x => rfl
  have hv0 : C14.ViewOK p.toMeasure (C16.v0 be p) := C14.intView_ok hbe hp.inv
  obtain ⟨iQ, eQ⟩ := C14.quadLam_view hv0 (fA Rx c) (fAt Rx c) r _ (fAt_A c r) (fAt_a c r)
  obtain ⟨iL, eL⟩ := C14.dotLin_view hv0 (fA Rx c) (fAt Rx c) r _ (fAt_A c r) (fAt_a c r) (ofV y)
  simp only [fA_apply, toV_ofV, hw] at iQ eQ iL eL
  obtain ⟨iC, eC⟩ := core_quad (μ := volume) (toM (c.Lambda 0)) (toM c.Mk) hsym 1 (affPart c)
    (kvec c) (C16.wgt p r) iQ (fun i l => (piece_lin hbe hp hc r l i).1)
    (fun l l' => (piece_kk hbe hp hc r l l').1)
  obtain ⟨iK, eK⟩ := piece_k hbe hp hc r y
  have iW := C16.integrable_wgt hp r
  have hm : ∫ x, C16.wgt p r x = 1 := hp.mass r
  have hcode : c.logConditionalYAt (c.logConditionalYTerms be p) r (ofV y)
      = -(1 / 2 * (y ⬝ᵥ toM (c.Lambda 0) *ᵥ y))
        + (dot (ofV y) ((C16.v0 be p).integrateLinear (fAt Rx c) r)
          + dot (ofV y) (mulVec (c.Lambda 0) (mulVec c.Mk
              (tab fun k => (C16.vk be c p).mass (flat r k)))))
        + -(1 / 2 * ((C16.v0 be p).integrateQuadInner (fA Rx c) (fAt Rx c) r
          + 2 * (∑ i, ∑ k, c.Mk i k * (C16.vk be c p).integrateLinear (fAt (Rx * Dk) c) (flat r k) i)
          + c.kernelKernel (EkkY be c p r) + c.lnDetSigma 0
          + (Dy : ℝ) * Real.log (2 * Real.pi))) := by
    simp only [FeatCondB.logConditionalYAt, (terms_eq c p r).1, (terms_eq c p r).2, half_real,
      dot_vadd]
    rw [dot_eq, toV_mulVec, toV_ofV]
  have hpt : ∀ x : Fin Dx → ℝ,
      normalLn (toV (c.condMu (tab fun _ : Fin 1 => ofV x) 0)) (toM (c.Lambda 0)) (c.lnDetSigma 0) y
          * Real.exp (p.evalLn r (ofV x))
        = (-(1 / 2) * (y ⬝ᵥ toM (c.Lambda 0) *ᵥ y)
            - 1 / 2 * ((Dy : ℝ) * Real.log (2 * Real.pi) + c.lnDetSigma 0)) * C16.wgt p r x
          + 1 * ((y ⬝ᵥ toM (c.Lambda 0) *ᵥ affPart c x) * C16.wgt p r x)
          + 1 * ((y ⬝ᵥ toM (c.Lambda 0) *ᵥ toM c.Mk *ᵥ kvec c x) * C16.wgt p r x)
          + -(1 / 2) * (((affPart c x + (1 : ℝ) • toM c.Mk *ᵥ kvec c x) ⬝ᵥ toM (c.Lambda 0) *ᵥ
              (affPart c x + (1 : ℝ) • toM c.Mk *ᵥ kvec c x)) * C16.wgt p r x) := by
    intro x
    have h1 : y ⬝ᵥ toM (c.Lambda 0) *ᵥ (affPart c x + (1 : ℝ) • toM c.Mk *ᵥ kvec c x)
        = y ⬝ᵥ toM (c.Lambda 0) *ᵥ affPart c x + y ⬝ᵥ toM (c.Lambda 0) *ᵥ toM c.Mk *ᵥ kvec c x := by
      rw [one_smul, Matrix.mulVec_add, dotProduct_add]
    rw [condMu_split, normalLn, C14.mahal_expand _ hsym, h1, hw']
    ring
  simp only [hpt]
  refine ⟨(((iW.const_mul _).add (iL.const_mul _)).add (iK.const_mul _)).add (iC.const_mul _), ?_⟩
  rw [C16.integral_lin4 iW iL iK iC, hm, eC, hcode, eQ, eL, eK, kernelKernel_eq]
  simp only [(piece_lin hbe hp hc r _ _).2, (piece_kk hbe hp hc r _ _).2, toM_apply]
  ring

/-- **C14F (`integrate_log_conditional_y`)**: the returned function is
`y ↦ ∫ ln p(y|x) · p_r(x) dx` with `p(y|x)` the object's own `condition_on_x` -/
theorem C14F_log_conditional_y (r : Fin Rx) (y : Fin Dy → ℝ) :
    c.logConditionalYAt (c.logConditionalYTerms be p) r (ofV y)
      = ∫ x : Fin Dx → ℝ,
          (c.conditionOnX be (tab fun _ : Fin 1 => ofV x)).evalLn 0 (ofV y)
            * Real.exp (p.evalLn r (ofV x)) := by
  simp only [C16.C16_condition_on_x hbe c hc]
  exact (C14F_log_conditional_y_normal hbe hp hc r y).2

end condYproof

/-! ## 3. the kernel factor on the joint space `(y, x)` -/

section jointKernel
variable {Dy Dx Dk : Nat}

/-- a conjugate factor on `x` lifted to `(y, x)`: zero blocks for `y` -/
def liftB (Dy : Nat) (kb : FactorB Dk Dx ℝ) : FactorB Dk (Dy + Dx) ℝ :=
  ⟨tab3 fun k i j =>
      match splitIdx i, splitIdx j with
      | Sum.inr i, Sum.inr j => kb.Lambda k i j
      | _, _ => 0,
   tab fun k => vappend (zeroV : Vec Dy ℝ) (kb.nu k), kb.lnBeta⟩

theorem liftB_Lambda_xx (kb : FactorB Dk Dx ℝ) (k : Fin Dk) (i j : Fin Dx) :
    (liftB Dy kb).Lambda k (Fin.natAdd Dy i) (Fin.natAdd Dy j) = kb.Lambda k i j := by
  simp only [liftB, tab3_apply, splitIdx_natAdd]

theorem liftB_Lambda_y (kb : FactorB Dk Dx ℝ) (k : Fin Dk) (i : Fin Dy) (a : Fin (Dy + Dx)) :
    (liftB Dy kb).Lambda k (Fin.castAdd Dx i) a = 0 ∧ (liftB Dy kb).Lambda k a (Fin.castAdd Dx i) = 0 := by
  constructor
  · simp only [liftB, tab3_apply, splitIdx_castAdd]
  · simp only [liftB, tab3_apply, splitIdx_castAdd]
    cases splitIdx a <;> rfl

/-- the lifted factor only sees the `x` block -/
theorem liftB_evalLn (kb : FactorB Dk Dx ℝ) (k : Fin Dk) (z : Fin (Dy + Dx) → ℝ) :
    (liftB Dy kb).evalLn k (ofV z) = kb.evalLn k (ofV (C14.xpart z)) := by
  simp only [C01.evalLn_real, Fin.sum_univ_add, liftB_Lambda_xx, (liftB_Lambda_y kb k _ _).1,
    (liftB_Lambda_y kb k _ _).2, zero_mul, Finset.sum_const_zero, zero_add, add_zero]
  simp only [liftB, tab_apply, vappend_castAdd, vappend_natAdd, zeroV_apply, mul_zero,
    Finset.sum_const_zero, zero_add, C14.xpart, ofV]

theorem liftB_psd (kb : FactorB Dk Dx ℝ) (k : Fin Dk) (h : (toM (kb.Lambda k)).PosSemidef) :
    (toM ((liftB Dy kb).Lambda k)).PosSemidef := by
  have hsym : ∀ i j, kb.Lambda k i j = kb.Lambda k j i := by
    intro i j
    have := congrFun (congrFun h.isHermitian j) i
    simpa using this
  refine Matrix.PosSemidef.of_dotProduct_mulVec_nonneg ?_ fun z => ?_
  · ext a a'
    simp only [conjTranspose_apply, star_trivial, toM_apply]
    refine Fin.addCases (fun i => ?_) (fun i => ?_) a <;>
      refine Fin.addCases (fun j => ?_) (fun j => ?_) a'
    · rw [(liftB_Lambda_y kb k i _).1, (liftB_Lambda_y kb k i _).2]
    · rw [(liftB_Lambda_y kb k i _).1, (liftB_Lambda_y kb k i _).2]
    · rw [(liftB_Lambda_y kb k j _).1, (liftB_Lambda_y kb k j _).2]
    · rw [liftB_Lambda_xx, liftB_Lambda_xx, hsym]
  · have := h.dotProduct_mulVec_nonneg (C14.xpart z)
    refine this.trans_eq ?_
    simp only [dotProduct, Matrix.mulVec, star_trivial, toM_apply, Fin.sum_univ_add, liftB_Lambda_xx,
      (liftB_Lambda_y kb k _ _).1, (liftB_Lambda_y kb k _ _).2, zero_mul, mul_zero,
      Finset.sum_const_zero, zero_add, add_zero, C14.xpart]

/-- **both classes lift their kernel factor to the joint space by padding with zeros** -/
theorem jointKFunc_toB {c : FeatCondB Dy Dx Dk ℝ} (hc : C16.FeatOK c) :
    c.jointKFunc.toB = liftB Dy c.kFunc.toB := by
  obtain ⟨M, b, S, L, ld, kernel, kF⟩ := c
  have hk := hc.kfunc
  simp only at hk
  subst hk
  cases kernel with
  | rbf mu ls =>
    simp only [FeatCondB.jointKFunc, FeatKernel.kFunc, Factor.toB, liftB, FactorB.mk.injEq, and_true]
    ext k i j
    simp only [tab3_apply]
    cases splitIdx i <;> cases splitIdx j <;> rfl
  | lsem W w0 =>
    simp only [FeatCondB.jointKFunc, FeatKernel.kFunc, Factor.toB, liftB, FactorB.mk.injEq, and_true]
    ext k a a'
    simp only [oneRankLambda, tab3_apply, tab_apply]
    refine Fin.addCases (fun i => ?_) (fun i => ?_) a <;>
      refine Fin.addCases (fun j => ?_) (fun j => ?_) a' <;>
      simp only [splitIdx_castAdd, splitIdx_natAdd, vappend_castAdd, vappend_natAdd, zeroV_apply,
        zero_mul, mul_zero]

theorem jointKFunc_evalLn {c : FeatCondB Dy Dx Dk ℝ} (hc : C16.FeatOK c) (k : Fin Dk)
    (z : Fin (Dy + Dx) → ℝ) :
    c.jointKFunc.evalLn k (ofV z) = c.kFunc.evalLn k (ofV (C14.xpart z)) := by
  rw [Factor.evalLn, jointKFunc_toB hc, liftB_evalLn, Factor.evalLn]

theorem jointKFunc_psd {c : FeatCondB Dy Dx Dk ℝ} (hc : C16.FeatOK c) :
    C04.FactorPSD c.jointKFunc := by
  intro k
  rw [jointKFunc_toB hc]
  exact liftB_psd _ k (C16.kFunc_ok hc k)

end jointKernel

/-! ## 4. Fubini on `ℝ^{a+b}` and the `x`-marginal -/

section fubini
variable {a b : Nat}

/-- `(y, x) ↦ Fin.append y x` as a measurable equivalence -/
noncomputable def appendEquiv (a b : Nat) : ((Fin a → ℝ) × (Fin b → ℝ)) ≃ᵐ (Fin (a + b) → ℝ) :=
  (MeasurableEquiv.sumPiEquivProdPi (fun _ : Fin a ⊕ Fin b => ℝ)).symm.trans
    (MeasurableEquiv.piCongrLeft (fun _ : Fin (a + b) => ℝ) finSumFinEquiv)

theorem appendEquiv_apply (y : Fin a → ℝ) (x : Fin b → ℝ) :
    appendEquiv a b (y, x) = Fin.append y x := by
  ext k
  refine Fin.addCases (fun i => ?_) (fun j => ?_) k
  · rw [Fin.append_left]
    have h := MeasurableEquiv.piCongrLeft_apply_apply (finSumFinEquiv (m := a) (n := b))
      (β := fun _ => ℝ) ((MeasurableEquiv.sumPiEquivProdPi (fun _ : Fin a ⊕ Fin b => ℝ)).symm (y, x))
      (Sum.inl i)
    rw [finSumFinEquiv_apply_left] at h
    exact h
  · rw [Fin.append_right]
    have h := MeasurableEquiv.piCongrLeft_apply_apply (finSumFinEquiv (m := a) (n := b))
      (β := fun _ => ℝ) ((MeasurableEquiv.sumPiEquivProdPi (fun _ : Fin a ⊕ Fin b => ℝ)).symm (y, x))
      (Sum.inr j)
    rw [finSumFinEquiv_apply_right] at h
    exact h

theorem appendEquiv_mp : MeasurePreserving (appendEquiv a b) volume volume :=
  (volume_measurePreserving_sumPiEquivProdPi_symm (fun _ : Fin a ⊕ Fin b => ℝ)).trans
    (volume_measurePreserving_piCongrLeft (fun _ : Fin (a + b) => ℝ) finSumFinEquiv)

/-- **Fubini**: an integral over `ℝ^{a+b}` is the iterated integral, inner over the first block -/
theorem integral_joint_eq_iterated (F : (Fin (a + b) → ℝ) → ℝ) (hF : Integrable F) :
    ∫ z, F z = ∫ x : Fin b → ℝ, ∫ y : Fin a → ℝ, F (Fin.append y x) := by
  have hI : Integrable (fun q : (Fin a → ℝ) × (Fin b → ℝ) => F (appendEquiv a b q))
      (volume.prod volume) :=
    (appendEquiv_mp.integrable_comp_emb (appendEquiv a b).measurableEmbedding).2 hF
  rw [← appendEquiv_mp.integral_comp' (f := appendEquiv a b) F]
  have := integral_prod_symm _ hI
  simp only [appendEquiv_apply] at this
  exact this

end fubini

section marginal
variable {Dy Dx R : Nat} {be : Backend ℝ}

theorem xpart_append (y : Fin Dy → ℝ) (x : Fin Dx → ℝ) : C14.xpart (Fin.append y x) = x := by
  ext j; simp only [C14.xpart, Fin.append_right]

theorem ypart_append (y : Fin Dy → ℝ) (x : Fin Dx → ℝ) : C14.ypart (Fin.append y x) = y := by
  ext j; simp only [C14.ypart, Fin.append_left]

/-- the relabelling `x ⊕ y → (y, x)` -/
def swapEquiv (Dy Dx : Nat) : Fin Dx ⊕ Fin Dy ≃ Fin (Dy + Dx) :=
  (Equiv.sumComm (Fin Dx) (Fin Dy)).trans finSumFinEquiv

/-- **the `x`-marginal** (last `Dx` of `Dy + Dx` coordinates) returned by `get_marginal` is the
Lebesgue integral of the joint density over `y` -/
theorem marginal_x_density (hbe : be.Spec) (q : PdfV R (Dy + Dx) ℝ) (hq : PdfFullOK q)
    (hd : PdfDiagOK q) (r : Fin R) (x : Fin Dx → ℝ) :
    Real.exp ((q.getMarginal be (Fin.natAdd Dy)).evalLn r (ofV x))
      = ∫ y : Fin Dy → ℝ, Real.exp (q.evalLn r (ofV (Fin.append y x))) := by
  have hok : PdfOK q := ⟨hq.posDef, hq.lambda, hq.lnDet⟩
  rw [C05.C05_marginal_evalLn hbe q hok hd _ (Fin.natAdd_injective Dx Dy) r x]
  have hS := hq.posDef r
  have h1 : ∀ y : Fin Dy → ℝ, q.evalLn r (ofV (Fin.append y x)) =
      Math.nLn (toV (q.mu r) ∘ swapEquiv Dy Dx)
        ((toM (q.Sigma r)).submatrix (swapEquiv Dy Dx) (swapEquiv Dy Dx))⁻¹
        (Real.log ((toM (q.Sigma r)).submatrix (swapEquiv Dy Dx) (swapEquiv Dy Dx)).det)
        (Sum.elim x y) := by
    intro y
    rw [PdfV.evalLn_eq_normalLn hq, C05.normalLn_eq_nLn, Math.nLn_equiv (swapEquiv Dy Dx)]
    congr 1
    ext (i | j) <;> simp [swapEquiv]
  simp_rw [h1]
  rw [Math.gaussian_marginal_integral _ (hS.submatrix (swapEquiv Dy Dx).injective)]
  have h2 : ((toM (q.Sigma r)).submatrix (swapEquiv Dy Dx) (swapEquiv Dy Dx)).toBlocks₁₁ =
      (toM (q.Sigma r)).submatrix (Fin.natAdd Dy) (Fin.natAdd Dy) := by
    ext i j; simp [Matrix.toBlocks₁₁, swapEquiv]
  have h3 : (toV (q.mu r) ∘ swapEquiv Dy Dx) ∘ Sum.inl = toV (q.mu r) ∘ Fin.natAdd Dy := by
    ext i; simp [swapEquiv]
  rw [h2, h3, C05.normalLn_eq_nLn]

/-- integrating a function of `x` against the joint weight = against the `x`-marginal weight -/
theorem integral_xfun_joint (wq : (Fin (Dy + Dx) → ℝ) → ℝ) (wx : (Fin Dx → ℝ) → ℝ)
    (hmarg : ∀ x, wx x = ∫ y : Fin Dy → ℝ, wq (Fin.append y x)) (g : (Fin Dx → ℝ) → ℝ)
    (hI : Integrable fun z => g (C14.xpart z) * wq z) :
    ∫ z, g (C14.xpart z) * wq z = ∫ x, g x * wx x := by
  rw [integral_joint_eq_iterated _ hI]
  refine integral_congr_ae (Filter.Eventually.of_forall fun x => ?_)
  simp only [xpart_append, integral_const_mul, hmarg]

end marginal

/-! ## 5. `integrate_log_conditional(p_yx, p_x)` -/

section condJoint
variable {Dy Dx Dk Rq : Nat} {be : Backend ℝ}

/-- `A = [I, −Mx]` -/
def jA (c : FeatCondB Dy Dx Dk ℝ) : Mat Dy (Dy + Dx) ℝ :=
  tab2 fun i j =>
    match splitIdx j with
    | Sum.inl j => (eye : Mat Dy Dy ℝ) i j
    | Sum.inr j => -(c.Mx i j)

/-- the forms `(y − Mx x − b, Λ(y − Mx x − b))` on the joint space, any batch -/
def gA (R : Nat) (c : FeatCondB Dy Dx Dk ℝ) : AffForm R Dy (Dy + Dx) ℝ :=
  ⟨tab fun _ => jA c, tab fun _ => vneg (c.b 0)⟩
def gAt (R : Nat) (c : FeatCondB Dy Dx Dk ℝ) : AffForm R Dy (Dy + Dx) ℝ :=
  ⟨tab fun _ => mmul (c.Lambda 0) (jA c), tab fun _ => mulVec (c.Lambda 0) (vneg (c.b 0))⟩

/-- the residual `y − Mx x − b` at a joint point -/
noncomputable def resid (c : FeatCondB Dy Dx Dk ℝ) (z : Fin (Dy + Dx) → ℝ) : Fin Dy → ℝ :=
  C14.ypart z - affPart c (C14.xpart z)

theorem gAt_A {R : Nat} (c : FeatCondB Dy Dx Dk ℝ) (r : Fin R) :
    toM ((gAt R c).A r) = toM (c.Lambda 0) * toM ((gA R c).A r) := by
  simp only [gA, gAt, tab_apply, toM_mmul]

theorem gAt_a {R : Nat} (c : FeatCondB Dy Dx Dk ℝ) (r : Fin R) :
    toV ((gAt R c).a r) = toM (c.Lambda 0) *ᵥ toV ((gA R c).a r) := by
  simp only [gA, gAt, tab_apply, toV_mulVec]

theorem gA_apply {R : Nat} (c : FeatCondB Dy Dx Dk ℝ) (r : Fin R) (z : Fin (Dy + Dx) → ℝ) :
    toM ((gA R c).A r) *ᵥ z + toV ((gA R c).a r) = resid c z := by
  ext i
  simp only [Pi.add_apply, Pi.sub_apply, Matrix.mulVec, dotProduct, gA, jA, toM_apply, toV_apply,
    tab_apply, tab2_apply, Fin.sum_univ_add, splitIdx_castAdd, splitIdx_natAdd, eye_apply, ite_mul,
    one_mul, zero_mul, Finset.sum_ite_eq, Finset.mem_univ, if_true, neg_mul, Finset.sum_neg_distrib,
    vneg_apply, resid, affPart, C14.ypart, C14.xpart]
  ring

theorem gAt_apply {R : Nat} (c : FeatCondB Dy Dx Dk ℝ) (r : Fin R) (z : Fin (Dy + Dx) → ℝ) :
    toM ((gAt R c).A r) *ᵥ z + toV ((gAt R c).a r) = toM (c.Lambda 0) *ᵥ resid c z := by
  rw [gAt_A, gAt_a, ← Matrix.mulVec_mulVec, ← Matrix.mulVec_add, gA_apply]

/-- the measure whose kernel second moments `E_kk` are taken: the argument `p_x`, by default the
`x`-marginal of `p_yx` -/
noncomputable def pxMeasure (be : Backend ℝ) (q : PdfV Rq (Dy + Dx) ℝ) (px : Option (PdfV Rq Dx ℝ)) :
    MeasureB Rq Dx ℝ :=
  match px with
  | some p => p.toMeasure
  | none => q.getMarginal be (Fin.natAdd Dy)

/-- RBF multiplies first without `update_full`, LSEM with it -/
def firstFull (c : FeatCondB Dy Dx Dk ℝ) : Bool :=
  match c.kernel with
  | .rbf _ _ => false
  | .lsem _ _ => true

/-- the view of `p_yx · k_func(x)` -/
noncomputable def vkJ (be : Backend ℝ) (c : FeatCondB Dy Dx Dk ℝ) (q : PdfV Rq (Dy + Dx) ℝ) :
    IntV (Rq * Dk) (Dy + Dx) ℝ :=
  ((C16.pK be q.toMeasure c.jointKFunc).intView be).2

/-- `integrate_log_conditional` spelled out (unfolding the model) -/
theorem integrateLogConditional_eq (c : FeatCondB Dy Dx Dk ℝ) (q : PdfV Rq (Dy + Dx) ℝ)
    (px : Option (PdfV Rq Dx ℝ)) (r : Fin Rq) :
    c.integrateLogConditional be q px r
      = -(1 / 2 * ((C16.v0 be q).integrateQuadInner (gA Rq c) (gAt Rq c) r
          - 2 * (∑ i, ∑ k, c.Mk i k * (vkJ be c q).integrateLinear (gAt (Rq * Dk) c) (flat r k) i)
          + c.kernelKernel (c.Ekk be (pxMeasure be q px) (firstFull c) r)
          + (c.lnDetSigma 0 + (Dy : ℝ) * Real.log (2 * Real.pi)))) := by
  cases hk : c.kernel <;> cases px <;>
  simp only [FeatCondB.integrateLogConditional, tab_apply, half_real, two_real, ofNat_real,
    log2pi_real, vsum_real, C16.v0, vkJ, C16.pK, gA, gAt, jA, pxMeasure, firstFull, hk] <;> rfl

end condJoint

section condJointProof
variable {Dy Dx Dk Rq : Nat} {be : Backend ℝ} (hbe : be.Spec) {c : FeatCondB Dy Dx Dk ℝ}
  (hc : C16.FeatOK c)
include hbe hc

/-- **`E_kk`** (`FeatCondB.Ekk`, either order of `update_full`): `E_{p_x}[k_l(x) k_l'(x)]` for any
measure `p_x` satisfying the invariant -/
theorem Ekk_spec {pxm : MeasureB Rq Dx ℝ} (hpx : pxm.Inv) (uf : Bool) (r : Fin Rq) (l l' : Fin Dk) :
    Integrable (fun x => kvec c x l * kvec c x l' * Real.exp (pxm.evalLn r (ofV x))) ∧
    c.Ekk be pxm uf r l l' = ∫ x, kvec c x l * kvec c x l' * Real.exp (pxm.evalLn r (ofV x)) := by
  have hf := C16.kFunc_ok hc
  have h1 : (pxm.multiply be c.kFunc uf).Inv := C04.C04_multiply hbe _ _ uf hpx hf
  have h2 : ((pxm.multiply be c.kFunc uf).multiply be c.kFunc true).Inv :=
    C04.C04_multiply hbe _ _ true h1 hf
  have e : ∀ x : Fin Dx → ℝ,
      Real.exp (((pxm.multiply be c.kFunc uf).multiply be c.kFunc true).evalLn
          (flat (flat r l) l') (ofV x))
        = kvec c x l * kvec c x l' * Real.exp (pxm.evalLn r (ofV x)) := by
    intro x
    rw [C01.C01_multiply_layout, C01.C01_multiply_layout, Real.exp_add, Real.exp_add]
    simp only [kvec, C16.kern]
    ring
  have hi := C03.integrable_mom0 h2 (flat (flat r l) l')
  simp only [e] at hi
  refine ⟨hi, ?_⟩
  simp only [FeatCondB.Ekk, tab3_apply]
  rw [C02.C02_integral_light hbe h2]
  simp only [e]

variable {q : PdfV Rq (Dy + Dx) ℝ} (hq : C16.PdfInv q)
include hq

/-- `E_q[(Λ(y − Mx x − b))_i k_l(x)]`: the linear key on `p_yx · k_func(x)` -/
theorem piece_linJ (r : Fin Rq) (l : Fin Dk) (i : Fin Dy) :
    Integrable (fun z => (toM (c.Lambda 0) *ᵥ resid c z) i * kvec c (C14.xpart z) l * C16.wgt q r z) ∧
    (vkJ be c q).integrateLinear (gAt (Rq * Dk) c) (flat r l) i
      = ∫ z, (toM (c.Lambda 0) *ᵥ resid c z) i * kvec c (C14.xpart z) l * C16.wgt q r z := by
  have hvk : C14.ViewOK (C16.pK be q.toMeasure c.jointKFunc) (vkJ be c q) :=
    C14.intView_ok hbe (C16.pK_inv hbe hq.inv (jointKFunc_psd hc))
  have h1 := C14.integrable_affine_row hvk (gAt (Rq * Dk) c) (flat r l) i
  have h2 := C14.C14_integrateLinear hvk (gAt (Rq * Dk) c) (flat r l) i
  have e : ∀ z : Fin (Dy + Dx) → ℝ,
      (toM ((gAt (Rq * Dk) c).A (flat r l)) *ᵥ z + toV ((gAt (Rq * Dk) c).a (flat r l))) i
        * Real.exp ((C16.pK be q.toMeasure c.jointKFunc).evalLn (flat r l) (ofV z))
      = (toM (c.Lambda 0) *ᵥ resid c z) i * kvec c (C14.xpart z) l * C16.wgt q r z := by
    intro z
    rw [gAt_apply, C16.exp_pK, jointKFunc_evalLn hc]
    simp only [kvec, C16.kern, C16.wgt, PdfV.evalLn]
    ring
  simp only [e] at h1 h2
  exact ⟨h1, h2⟩

/-- `k_l(x) k_l'(x)` is integrable against the joint density -/
theorem integrable_kkJ (r : Fin Rq) (l l' : Fin Dk) :
    Integrable (fun z => kvec c (C14.xpart z) l * kvec c (C14.xpart z) l' * C16.wgt q r z) := by
  have := C16.integrable_kk hbe hq.inv (jointKFunc_psd hc) r l l'
  simp only [jointKFunc_evalLn hc] at this
  exact this

omit hbe hc hq in
/-- `y − μ(x)` at a joint point -/
theorem ypart_sub_condMu (c : FeatCondB Dy Dx Dk ℝ) (z : Fin (Dy + Dx) → ℝ) :
    C14.ypart z - toV (c.condMu (tab fun _ : Fin 1 => ofV (C14.xpart z)) 0)
      = resid c z + (-1 : ℝ) • toM c.Mk *ᵥ kvec c (C14.xpart z) := by
  rw [condMu_split]
  ext i
  simp only [resid, Pi.sub_apply, Pi.add_apply, Pi.smul_apply, smul_eq_mul]
  ring

/-- **C14F (`integrate_log_conditional`), exact behaviour for every admissible `p_x`**: the
argument `p_x` (`pxMeasure`: the optional argument, by default `q.get_marginal(x)`) enters only
through `E_kk`.  For any `p_x` satisfying the invariant the result is `E_q[ln N(y; μ(x), Σ)]`
(`μ(x) = get_conditional_mu(x)`) minus half the difference of the kernel–kernel term
`(Mk k(x))ᵀ Λ (Mk k(x))` integrated under `p_x` and under `q`. -/
theorem log_conditional_any_px (px : Option (PdfV Rq Dx ℝ)) (hpx : (pxMeasure be q px).Inv)
    (r : Fin Rq) :
    Integrable (fun z : Fin (Dy + Dx) → ℝ =>
      normalLn (toV (c.condMu (tab fun _ : Fin 1 => ofV (C14.xpart z)) 0)) (toM (c.Sigma 0))⁻¹
        (Real.log (toM (c.Sigma 0)).det) (C14.ypart z) * Real.exp (q.evalLn r (ofV z))) ∧
    Integrable (fun z : Fin (Dy + Dx) → ℝ =>
      kkQuad c (C14.xpart z) * Real.exp (q.evalLn r (ofV z))) ∧
    c.integrateLogConditional be q px r
      = (∫ z : Fin (Dy + Dx) → ℝ,
          normalLn (toV (c.condMu (tab fun _ : Fin 1 => ofV (C14.xpart z)) 0)) (toM (c.Sigma 0))⁻¹
            (Real.log (toM (c.Sigma 0)).det) (C14.ypart z) * Real.exp (q.evalLn r (ofV z)))
        - 1 / 2 * ((∫ x : Fin Dx → ℝ, kkQuad c x * Real.exp ((pxMeasure be q px).evalLn r (ofV x)))
            - ∫ z : Fin (Dy + Dx) → ℝ, kkQuad c (C14.xpart z) * Real.exp (q.evalLn r (ofV z))) := by
  rw [← hc.lambda, ← hc.lnDet]
  have hsym := lambda_symm hc
  have hw : ∀ z, Real.exp (q.toMeasure.evalLn r (ofV z)) = C16.wgt q r z := fun z => rfl
  have hw' : ∀ z, Real.exp (q.evalLn r (ofV z)) = C16.wgt q r z := fun z => rfl
  have hv : C14.ViewOK q.toMeasure (C16.v0 be q) := C14.intView_ok hbe hq.inv
  obtain ⟨iQ, eQ⟩ := C14.quadLam_view hv (gA Rq c) (gAt Rq c) r _ (gAt_A c r) (gAt_a c r)
  simp only [gA_apply, hw] at iQ eQ
  obtain ⟨iC, eC⟩ := core_quad (μ := volume) (toM (c.Lambda 0)) (toM c.Mk) hsym (-1) (resid c)
    (fun z => kvec c (C14.xpart z)) (C16.wgt q r) iQ (fun i l => (piece_linJ hbe hc hq r l i).1)
    (fun l l' => integrable_kkJ hbe hc hq r l l')
  obtain ⟨-, eKp⟩ := kk_quad (μ := volume) (toM (c.Lambda 0)) (toM c.Mk) hsym (kvec c)
    (fun x => Real.exp ((pxMeasure be q px).evalLn r (ofV x)))
    (fun l l' => (Ekk_spec hbe hc hpx (firstFull c) r l l').1)
  obtain ⟨iKq, eKq⟩ := kk_quad (μ := volume) (toM (c.Lambda 0)) (toM c.Mk) hsym
    (fun z => kvec c (C14.xpart z)) (C16.wgt q r) (fun l l' => integrable_kkJ hbe hc hq r l l')
  have iW := C16.integrable_wgt hq r
  have hm : ∫ z, C16.wgt q r z = 1 := hq.mass r
  have hpt : ∀ z : Fin (Dy + Dx) → ℝ,
      normalLn (toV (c.condMu (tab fun _ : Fin 1 => ofV (C14.xpart z)) 0)) (toM (c.Lambda 0))
          (c.lnDetSigma 0) (C14.ypart z) * Real.exp (q.evalLn r (ofV z))
        = -(1 / 2) * (((resid c z + (-1 : ℝ) • toM c.Mk *ᵥ kvec c (C14.xpart z)) ⬝ᵥ
              toM (c.Lambda 0) *ᵥ (resid c z + (-1 : ℝ) • toM c.Mk *ᵥ kvec c (C14.xpart z)))
              * C16.wgt q r z)
          + (-(1 / 2) * ((Dy : ℝ) * Real.log (2 * Real.pi) + c.lnDetSigma 0)) * C16.wgt q r z := by
    intro z
    rw [normalLn, ypart_sub_condMu, hw']
    ring
  simp only [hpt]
  simp only [hw', kkQuad]
  refine ⟨(iC.const_mul _).add (iW.const_mul _), iKq, ?_⟩
  rw [integral_add (iC.const_mul _) (iW.const_mul _), integral_const_mul, integral_const_mul, hm, eC,
    integrateLogConditional_eq, eQ, kernelKernel_eq, eKp, eKq]
  simp only [(piece_linJ hbe hc hq r _ _).2, (Ekk_spec hbe hc hpx (firstFull c) r _ _).2, toM_apply]
  ring

/-- **C14F (`integrate_log_conditional`), general form**: if moreover `p_x` **is the `x`-marginal
of `q`** (`hmarg`), the result is `E_q[ln N(y; μ(x), Σ)]`. -/
theorem log_conditional_of_marginal (px : Option (PdfV Rq Dx ℝ)) (hpx : (pxMeasure be q px).Inv)
    (hmarg : ∀ r x, Real.exp ((pxMeasure be q px).evalLn r (ofV x))
      = ∫ y : Fin Dy → ℝ, Real.exp (q.evalLn r (ofV (Fin.append y x)))) (r : Fin Rq) :
    Integrable (fun z : Fin (Dy + Dx) → ℝ =>
      normalLn (toV (c.condMu (tab fun _ : Fin 1 => ofV (C14.xpart z)) 0)) (toM (c.Sigma 0))⁻¹
        (Real.log (toM (c.Sigma 0)).det) (C14.ypart z) * Real.exp (q.evalLn r (ofV z))) ∧
    c.integrateLogConditional be q px r
      = ∫ z : Fin (Dy + Dx) → ℝ,
          normalLn (toV (c.condMu (tab fun _ : Fin 1 => ofV (C14.xpart z)) 0)) (toM (c.Sigma 0))⁻¹
            (Real.log (toM (c.Sigma 0)).det) (C14.ypart z) * Real.exp (q.evalLn r (ofV z)) := by
  obtain ⟨hI, hK, hE⟩ := log_conditional_any_px hbe hc hq px hpx r
  refine ⟨hI, ?_⟩
  rw [hE, integral_xfun_joint (fun z => Real.exp (q.evalLn r (ofV z))) _ (hmarg r) (kkQuad c) hK]
  ring

end condJointProof

/-! ## 6. main statements for `integrate_log_conditional` -/

section main
variable {Dy Dx Dk Rq : Nat} {be : Backend ℝ} (hbe : be.Spec) {c : FeatCondB Dy Dx Dk ℝ}
  (hc : C16.FeatOK c) {q : PdfV Rq (Dy + Dx) ℝ} (hq : C16.PdfInv q)
include hbe hc hq

/-- **C14F (`integrate_log_conditional(p_yx)`, default `p_x`)**: for a density `q` over `(y, x)`
(`y` first) the result is `∫ ln p(y|x) · q_r(y, x) d(y, x)` with `p(y|x)` the object's own
`condition_on_x`; the kernel second moments are taken under `q.get_marginal(x)`, which is the true
`x`-marginal (`marginal_x_density`). -/
theorem C14F_log_conditional (hqf : PdfFullOK q) (hqd : PdfDiagOK q) (r : Fin Rq) :
    c.integrateLogConditional be q none r
      = ∫ z : Fin (Dy + Dx) → ℝ,
          (c.conditionOnX be (tab fun _ : Fin 1 => ofV (C14.xpart z))).evalLn 0 (ofV (C14.ypart z))
            * Real.exp (q.evalLn r (ofV z)) := by
  simp only [C16.C16_condition_on_x hbe c hc]
  have hok : PdfOK q := ⟨hqf.posDef, hqf.lambda, hqf.lnDet⟩
  exact (log_conditional_of_marginal hbe hc hq none
    (C05.C05_marginal_inv hbe q hok hqd _ (Fin.natAdd_injective Dx Dy))
    (fun r x => marginal_x_density hbe q hqf hqd r x) r).2

/-- **C14F (`integrate_log_conditional(p_yx, p_x)`, explicit `p_x`)**: the same integral, provided
the argument `p_x` satisfies the invariant and is the `x`-marginal of `p_yx` (`E_kk` is the only
place where `p_x` is used). -/
theorem C14F_log_conditional_px {p : PdfV Rq Dx ℝ} (hp : p.toMeasure.Inv)
    (hmarg : ∀ r x, Real.exp (p.evalLn r (ofV x))
      = ∫ y : Fin Dy → ℝ, Real.exp (q.evalLn r (ofV (Fin.append y x)))) (r : Fin Rq) :
    c.integrateLogConditional be q (some p) r
      = ∫ z : Fin (Dy + Dx) → ℝ,
          (c.conditionOnX be (tab fun _ : Fin 1 => ofV (C14.xpart z))).evalLn 0 (ofV (C14.ypart z))
            * Real.exp (q.evalLn r (ofV z)) := by
  simp only [C16.C16_condition_on_x hbe c hc]
  exact (log_conditional_of_marginal hbe hc hq (some p) hp hmarg r).2

/-- **exact behaviour for an arbitrary explicit `p_x`** (any measure view satisfying the invariant,
not necessarily the marginal of `p_yx`): the result differs from `E_q[ln p(y|x)]` by half the
difference of the kernel–kernel term under `p_x` and under `q` -/
theorem C14F_log_conditional_px_offset {p : PdfV Rq Dx ℝ} (hp : p.toMeasure.Inv) (r : Fin Rq) :
    c.integrateLogConditional be q (some p) r
      = (∫ z : Fin (Dy + Dx) → ℝ,
          (c.conditionOnX be (tab fun _ : Fin 1 => ofV (C14.xpart z))).evalLn 0 (ofV (C14.ypart z))
            * Real.exp (q.evalLn r (ofV z)))
        - 1 / 2 * ((∫ x : Fin Dx → ℝ, kkQuad c x * Real.exp (p.evalLn r (ofV x)))
            - ∫ z : Fin (Dy + Dx) → ℝ, kkQuad c (C14.xpart z) * Real.exp (q.evalLn r (ofV z))) := by
  simp only [C16.C16_condition_on_x hbe c hc]
  exact (log_conditional_any_px hbe hc hq (some p) hp r).2.2

/-- in particular for `p_x = p_yx.get_marginal(x)` passed explicitly; hence the default and the
explicit call agree -/
theorem C14F_log_conditional_px_marginal (hqf : PdfFullOK q) (hqd : PdfDiagOK q)
    {p : PdfV Rq Dx ℝ} (hp : (q.getMarginal be (Fin.natAdd Dy)).asPdf = some p) (r : Fin Rq) :
    c.integrateLogConditional be q (some p) r
        = ∫ z : Fin (Dy + Dx) → ℝ,
          (c.conditionOnX be (tab fun _ : Fin 1 => ofV (C14.xpart z))).evalLn 0 (ofV (C14.ypart z))
            * Real.exp (q.evalLn r (ofV z)) ∧
      c.integrateLogConditional be q (some p) r = c.integrateLogConditional be q none r := by
  have hok : PdfOK q := ⟨hqf.posDef, hqf.lambda, hqf.lnDet⟩
  obtain ⟨h1, h2⟩ := C16.toMeasure_inv
    (C05.C05_marginal_inv hbe q hok hqd _ (Fin.natAdd_injective Dx Dy)) hp
  have h := C14F_log_conditional_px hbe hc hq h1
    (fun r x => by rw [h2]; exact marginal_x_density hbe q hqf hqd r x) r
  exact ⟨h, by rw [h, C14F_log_conditional hbe hc hq hqf hqd r]⟩

/-- **iterated form (Fubini)**: `E_q[ln p(y|x)] = ∫ (∫ ln p(y|x) q(y, x) dy) dx` -/
theorem C14F_log_conditional_iterated (hqf : PdfFullOK q) (hqd : PdfDiagOK q) (r : Fin Rq) :
    c.integrateLogConditional be q none r
      = ∫ x : Fin Dx → ℝ, ∫ y : Fin Dy → ℝ,
          (c.conditionOnX be (tab fun _ : Fin 1 => ofV x)).evalLn 0 (ofV y)
            * Real.exp (q.evalLn r (ofV (Fin.append y x))) := by
  have hok : PdfOK q := ⟨hqf.posDef, hqf.lambda, hqf.lnDet⟩
  obtain ⟨hI, hE⟩ := log_conditional_of_marginal hbe hc hq none
    (C05.C05_marginal_inv hbe q hok hqd _ (Fin.natAdd_injective Dx Dy))
    (fun r x => marginal_x_density hbe q hqf hqd r x) r
  rw [hE, integral_joint_eq_iterated _ hI]
  simp only [C16.C16_condition_on_x hbe c hc, xpart_append, ypart_append]

end main

/-! ## non-vacuity -/

/-- For **every** kernel of either class (one kernel on `ℝ²`, arbitrary real parameters), the
contract-satisfying backend, a read-out with non-zero weights and offset, a non-diagonal noise
covariance, `p(x) = N((1,−1), [[2,1],[1,2]])` and `q(y,x) = N((1,2,3,−1), I₄)`: the objects exist,
satisfy all hypotheses, and the conclusions of the main theorems hold for them. -/
example (kernel : FeatKernel 1 2 ℝ) :
    ∃ (c : FeatCondB 2 2 1 ℝ) (p : PdfV 1 2 ℝ) (q : PdfV 1 (2 + 2) ℝ), Backend.sat.Spec ∧
      C16.FeatOK c ∧ C16.PdfInv p ∧ C16.PdfInv q ∧ PdfFullOK q ∧ PdfDiagOK q ∧
      c.kernel = kernel ∧ c.b 0 0 = 1 ∧ p.mu 0 0 = 1 ∧ q.mu 0 0 = 1 ∧
      (∀ y : Fin 2 → ℝ, c.logConditionalYAt (c.logConditionalYTerms Backend.sat p) 0 (ofV y)
        = ∫ x : Fin 2 → ℝ, (c.conditionOnX Backend.sat (tab fun _ : Fin 1 => ofV x)).evalLn 0 (ofV y)
            * Real.exp (p.evalLn 0 (ofV x))) ∧
      c.integrateLogConditional Backend.sat q none 0
        = ∫ z : Fin (2 + 2) → ℝ,
          (c.conditionOnX Backend.sat (tab fun _ : Fin 1 => ofV (C14.xpart z))).evalLn 0
              (ofV (C14.ypart z)) * Real.exp (q.evalLn 0 (ofV z)) := by
  have hbe := Backend.sat_spec
  have hS : ∀ r : Fin 1, (toM ((tab fun _ : Fin 1 => ofM !![2, 1; 1, 2]) r)).PosDef := fun r => by
    simp only [tab_apply, toM_ofM]; exact posDef_two_one
  obtain ⟨c, -, hc, -, hker, -, hb⟩ := C16.mkFeatCond_ok hbe
    (tab fun _ : Fin 1 => (ofM !![1, 2, 3; 0, -1, 1] : Mat 2 (2 + 1) ℝ))
    (some (tab fun _ => ofV ![1, 2])) kernel _ hS
  have hargs : C02.PdfArgsOK false (tab fun _ : Fin 1 => ofM !![2, 1; 1, 2]) none none :=
    ⟨hS, by simp, by simp, by simp⟩
  obtain ⟨p, hp⟩ := mkPdf_asPdf_isSome Backend.sat false (tab fun _ : Fin 1 => ofM !![2, 1; 1, 2])
    (tab fun _ => ofV ![1, -1]) none none
  have hpi : C16.PdfInv p := C16.pdfInv_of_mkPdf hbe _ _ _ _ _ hargs hp
  obtain ⟨-, hmu⟩ := mkPdf_asPdf_sigma_mu Backend.sat _ _ _ _ _ hp
  have hqargs := C14.stdArgs_ok 1 (2 + 2)
  obtain ⟨q, hq, -, hqmu, -, -, hqd⟩ := mkPdf_asPdf_ok hbe false
    (tab fun _ : Fin 1 => (eye : Mat (2 + 2) (2 + 2) ℝ)) (tab fun _ => ofV ![1, 2, 3, -1]) none none hqargs
  have hqi : C16.PdfInv q := C16.pdfInv_of_mkPdf hbe _ _ _ _ _ hqargs hq
  have hqf : PdfFullOK q := mkPdf_pdfOK hbe _ _ _ _ _ hqargs hq
  refine ⟨c, p, q, hbe, hc, hpi, hqi, hqf, hqd, hker, ?_, ?_, ?_,
    fun y => C14F_log_conditional_y hbe hpi hc 0 y, C14F_log_conditional hbe hc hqi hqf hqd 0⟩
  · rw [hb]; simp [ofV]
  · rw [hmu]; simp [ofV]
  · rw [hqmu]; simp [ofV]

end GT.Props.C14Feature

#print axioms GT.Props.C14Feature.core_quad
#print axioms GT.Props.C14Feature.condMu_split
#print axioms GT.Props.C14Feature.C14F_log_conditional_y_normal
#print axioms GT.Props.C14Feature.C14F_log_conditional_y
#print axioms GT.Props.C14Feature.jointKFunc_evalLn
#print axioms GT.Props.C14Feature.jointKFunc_psd
#print axioms GT.Props.C14Feature.integral_joint_eq_iterated
#print axioms GT.Props.C14Feature.marginal_x_density
#print axioms GT.Props.C14Feature.Ekk_spec
#print axioms GT.Props.C14Feature.log_conditional_any_px
#print axioms GT.Props.C14Feature.log_conditional_of_marginal
#print axioms GT.Props.C14Feature.C14F_log_conditional
#print axioms GT.Props.C14Feature.C14F_log_conditional_px
#print axioms GT.Props.C14Feature.C14F_log_conditional_px_offset
#print axioms GT.Props.C14Feature.C14F_log_conditional_px_marginal
#print axioms GT.Props.C14Feature.C14F_log_conditional_iterated
