import GT.Props.C18
import GT.Props.C12
import GT.Props.C16
import GT.Props.C20
import GT.Model.ApproxFeature
import GT.Model.Hetero
import GT.Model.HeteroTrunc
import GT.Model.Truncated
/-!
# C18 (continued) — reconstruction of the approximate / experimental classes from their
constructor fields

`jax.tree_util` unflatten, `dataclasses.replace` and `from_dict ∘ to_dict` all rebuild an object by
calling the class constructor on the object's own **init** fields (`utils/dataclass.py`: `flatten`
exports the declared fields, the patched `__init__` keeps those with `init=True`); `__post_init__`
then recomputes the derived fields.  This file proves, for the model's constructors of

* `LRBFGaussianConditional` / `LSEMGaussianConditional` (`mkFeatCond`),
* the four heteroscedastic classes (`mkHetero`),
* `TruncatedGaussianMeasure` / `TruncatedGaussianPDF` (`mkTruncMeasure`, `mkTruncPdf`),
* `NNControlGaussianConditional` (`mkNNCond`),

that the rebuilt object **is the same structure** (every stored array and cache, hence every
observable), and — a strengthening of `C18.C18_pdf_roundtrip` — that a density rebuilt from its
stored `(Sigma, mu, Lambda, ln_det_Sigma)` is the same structure as well.  Everything up to the
examples is generic over the scalar type and needs **no hypothesis on the backend**: when all of
`Sigma`, `Lambda`, `ln_det_Sigma` are handed back, no constructor inverts anything, and where a
constructor does invert (`mkHetero`, `mkNNCond`) it inverts the same array again.

The last part shows that `slice` with the identity index array is the identity.
-/
set_option linter.unusedSectionVars false

namespace GT.Props.C18Approx
open GT

section generic
variable {α : Type} [Add α] [Sub α] [Mul α] [Div α] [Neg α] [OfNat α 0] [OfNat α 1] [Transc α]
variable {R D Dy Dx Dk Da N : Nat}

/-! ## densities: the rebuilt object is the same structure -/

/-- the precision and the covariance cache of a constructed density are the pair chosen by
`__post_init__` and the `Sigma`, `mu` given to the constructor (no hypothesis) -/
theorem mkPdf_fields (be : Backend α) (diag : Bool) (Sigma : Arr R (Mat D D α)) (mu : Arr R (Vec D α))
    (Lambda : Option (Arr R (Mat D D α))) (lnDetSigma : Option (Arr R α)) :
    let p := mkPdf be diag Sigma mu Lambda lnDetSigma
    p.Lambda = (pdfPrecision be diag Sigma Lambda lnDetSigma).1 ∧
    p.cov = some ⟨Sigma, (pdfPrecision be diag Sigma Lambda lnDetSigma).2⟩ ∧
    p.mu = some mu ∧ p.lnDetLambda = none ∧ p.cls = (if diag then .diagPdf else .pdf) := by
  simp only [mkPdf, MeasureB.normalize, MeasureB.computeLnZ, MeasureB.prepare, MeasureB.ensureMu,
    MeasureB.ensureLnZ, MeasureB.ensureCov, pdfPre, and_self]

/-- **a density rebuilt from its stored constructor fields is the same object** (all caches
included): `GaussianPDF(Sigma=p.Sigma, mu=p.mu, Lambda=p.Lambda, ln_det_Sigma=p.ln_det_Sigma)`.
No hypothesis: with `Lambda` and `ln_det_Sigma` supplied nothing is inverted, and `nu`, `lnZ`,
`ln_beta` are recomputed by the same expressions from the same arrays. -/
theorem C18_pdf_roundtrip_eq (be : Backend α) (diag : Bool) (Sigma : Arr R (Mat D D α))
    (mu : Arr R (Vec D α)) (Lambda : Option (Arr R (Mat D D α))) (lnDetSigma : Option (Arr R α)) :
    let p := mkPdf be diag Sigma mu Lambda lnDetSigma
    ∀ c m, p.cov = some c → p.mu = some m →
      mkPdf be p.cls.isDiag c.Sigma m (some p.Lambda) (some c.lnDetSigma) = p := by
  intro p c m hc hm
  obtain ⟨hL, hcov, hmu, -, hcls⟩ := mkPdf_fields be diag Sigma mu Lambda lnDetSigma
  have hc' : c = ⟨Sigma, (pdfPrecision be diag Sigma Lambda lnDetSigma).2⟩ := by
    have := hc.symm.trans hcov; simpa using this
  have hm' : m = mu := by
    have := hm.symm.trans hmu; simpa using this
  have hd : p.cls.isDiag = diag := by
    show (mkPdf be diag Sigma mu Lambda lnDetSigma).cls.isDiag = diag
    rw [hcls]; cases diag <;> rfl
  subst hc' hm'
  rw [hd]
  show mkPdf be diag Sigma m (some (mkPdf be diag Sigma m Lambda lnDetSigma).Lambda) _ = _
  rw [hL]
  rfl

/-- the view of a constructed density, turned back into an object, is that object -/
theorem mkPdf_asPdf_toMeasure (be : Backend α) (diag : Bool) (Sigma : Arr R (Mat D D α))
    (mu : Arr R (Vec D α)) (Lambda : Option (Arr R (Mat D D α))) (lnDetSigma : Option (Arr R α))
    {d : PdfV R D α} (hd : (mkPdf be diag Sigma mu Lambda lnDetSigma).asPdf = some d) :
    d.toMeasure = mkPdf be diag Sigma mu Lambda lnDetSigma := by
  cases diag <;>
  · simp only [mkPdf, MeasureB.normalize, MeasureB.computeLnZ, MeasureB.prepare, MeasureB.ensureMu,
      MeasureB.ensureLnZ, MeasureB.ensureCov, pdfPre, MeasureB.asPdf, Option.some.injEq] at hd ⊢
    subst hd
    rfl

/-- `p.toMeasure` exposes `p` again -/
theorem asPdf_toMeasure (p : PdfV R D α) : p.toMeasure.asPdf = some p := by
  obtain ⟨diag, L, nu, lb, S, ld, mu, z⟩ := p
  cases diag <;> rfl

/-! ## `LRBFGaussianConditional`, `LSEMGaussianConditional` -/

/-- the constructor call pytree-unflatten / `replace` make on the object's own init fields
`(M, b, mu/length_scale | W, Sigma, Lambda, ln_det_Sigma)` -/
def featRebuild (be : Backend α) (c : FeatCondB Dy Dx Dk α) : Option (FeatCondB Dy Dx Dk α) :=
  mkFeatCond be c.M (some c.b) c.kernel (some c.Sigma) (some c.Lambda) (some c.lnDetSigma)

/-- rebuilding any stored object copies the six init fields and runs `update_phi` -/
theorem featRebuild_eq (be : Backend α) (c : FeatCondB Dy Dx Dk α) :
    featRebuild be c = some c.updatePhi := rfl

/-- a constructed object carries the kernel factor of its own kernel parameters -/
theorem mkFeatCond_updatePhi {be : Backend α} {M : Arr 1 (Mat Dy (Dx + Dk) α)}
    {b : Option (Arr 1 (Vec Dy α))} {kernel : FeatKernel Dk Dx α}
    {Sigma Lambda : Option (Arr 1 (Mat Dy Dy α))} {lnDetSigma : Option (Arr 1 α)}
    {c : FeatCondB Dy Dx Dk α} (hc : mkFeatCond be M b kernel Sigma Lambda lnDetSigma = some c) :
    c.updatePhi = c := by
  unfold mkFeatCond at hc
  cases h : condCovInit be false Sigma Lambda lnDetSigma with
  | none => simp [h] at hc
  | some v =>
    obtain ⟨S, L, ld⟩ := v
    simp only [h, Option.some.injEq] at hc
    subst hc
    rfl

/-- **C18 for the two feature classes**: an object returned by the constructor (from whichever of
`Sigma` / `Lambda` / `ln_det_Sigma` the caller supplied) and rebuilt from its own init fields is
the same object — `M`, `b`, the three covariance arrays (not re-inverted), kernel parameters and
kernel factor. -/
theorem C18_feat_roundtrip {be : Backend α} {M : Arr 1 (Mat Dy (Dx + Dk) α)}
    {b : Option (Arr 1 (Vec Dy α))} {kernel : FeatKernel Dk Dx α}
    {Sigma Lambda : Option (Arr 1 (Mat Dy Dy α))} {lnDetSigma : Option (Arr 1 α)}
    {c : FeatCondB Dy Dx Dk α} (hc : mkFeatCond be M b kernel Sigma Lambda lnDetSigma = some c) :
    featRebuild be c = some c := by
  rw [featRebuild_eq, mkFeatCond_updatePhi hc]

/-- the same for an object whose covariance was replaced by `update_Sigma` afterwards -/
theorem C18_feat_roundtrip_updateSigma {be : Backend α} {c : FeatCondB Dy Dx Dk α}
    (hc : c.updatePhi = c) (S : Arr 1 (Mat Dy Dy α)) :
    featRebuild be (c.updateSigma be S) = some (c.updateSigma be S) := by
  rw [featRebuild_eq]
  congr 1
  have : (c.updateSigma be S).updatePhi = (c.updatePhi).updateSigma be S := rfl
  rw [this, hc]

/-- observables of the rebuilt object (immediate from equality; stated for the record) -/
theorem C18_feat_roundtrip_observables {be : Backend α} {M : Arr 1 (Mat Dy (Dx + Dk) α)}
    {b : Option (Arr 1 (Vec Dy α))} {kernel : FeatKernel Dk Dx α}
    {Sigma Lambda : Option (Arr 1 (Mat Dy Dy α))} {lnDetSigma : Option (Arr 1 α)}
    {c : FeatCondB Dy Dx Dk α} (hc : mkFeatCond be M b kernel Sigma Lambda lnDetSigma = some c) :
    ∃ c', featRebuild be c = some c' ∧ c'.kFunc = c.kFunc ∧
      (∀ {N : Nat} (x : Arr N (Vec Dx α)), c'.condMu x = c.condMu x ∧
        c'.conditionOnX be x = c.conditionOnX be x) ∧
      (∀ {Rx : Nat} (p : PdfV Rx Dx α), c'.expectedMoments be p = c.expectedMoments be p ∧
        c'.expectedCrossTerms be p = c.expectedCrossTerms be p ∧
        c'.affineJoint be p = c.affineJoint be p) :=
  ⟨c, C18_feat_roundtrip hc, rfl, fun _ => ⟨rfl, rfl⟩, fun _ => ⟨rfl, rfl, rfl⟩⟩

/-- `replace(c, mu=…, length_scale=…)` / `replace(c, W=…)`: only the kernel changes, and the kernel
factor is the one of the *new* parameters (`__post_init__` runs `update_phi`) -/
theorem C18_feat_replace_kernel (be : Backend α) (c : FeatCondB Dy Dx Dk α) (k' : FeatKernel Dk Dx α) :
    mkFeatCond be c.M (some c.b) k' (some c.Sigma) (some c.Lambda) (some c.lnDetSigma) =
      some { c with kernel := k', kFunc := k'.kFunc } := rfl

/-- the field `W = [w0, w]` of `LSEMGaussianConditional` is stored as given; the model's
`FeatKernel.lsem w w0` is its split.  Joining and splitting again is the identity, so the exported
field determines the same kernel parameters. -/
def lsemJoin (W : Mat Dk Dx α) (w0 : Vec Dk α) : Mat Dk (Dx + 1) α :=
  tab2 fun k j => if h : j.1 = 0 then w0 k else W k ⟨j.1 - 1, by omega⟩

theorem lsem_field_roundtrip (W : Mat Dk Dx α) (w0 : Vec Dk α) :
    FeatKernel.lsem (tab2 fun k i => lsemJoin W w0 k ⟨i.1 + 1, by omega⟩)
        (tab fun k => lsemJoin W w0 k ⟨0, by omega⟩) = FeatKernel.lsem W w0 := by
  congr 1
  · ext k i
    simp [lsemJoin]
  · ext k
    simp [lsemJoin]

/-! ## heteroscedastic conditionals -/

/-- **C18 for the four heteroscedastic classes**: the constructor applied to the init fields
`(M, b, A, W)` of a constructed object returns the same object (the exported `Sigma` is ignored by
`__post_init__`, which recomputes `A Aᵀ` and inverts the same matrix again). -/
theorem C18_hetero_roundtrip (be : Backend α) (M : Arr 1 (Mat Dy Dx α)) (b : Arr 1 (Vec Dy α))
    (A : Arr 1 (Mat Dy Da α)) (W : Mat Dk (Dx + 1) α) (hy : Dy ≤ Da) (hk : Dk ≤ Da) :
    let c := mkHetero be M b A W hy hk
    mkHetero be c.M c.b c.A c.W c.hy c.hk = c := rfl

/-- exactly which stored objects are fixed by the rebuild: those whose derived fields are the
constructor's -/
theorem hetero_rebuild_iff (be : Backend α) (c : HeteroB Dy Dx Da Dk α) :
    mkHetero be c.M c.b c.A c.W c.hy c.hk = c ↔
      c.Sigma = (tab fun r => mmul (c.A r) (transpose (c.A r))) ∧
      c.Lambda = (invertBatch be false c.Sigma).1 ∧ c.lnDetSigma = (invertBatch be false c.Sigma).2 := by
  obtain ⟨M, b, A, W, S, L, ld, hy, hk⟩ := c
  constructor
  · intro h
    simp only [mkHetero, HeteroB.mk.injEq, true_and] at h
    obtain ⟨hS, hL, hld⟩ := h
    subst hS
    exact ⟨rfl, hL.symm, hld.symm⟩
  · rintro ⟨hS, hL, hld⟩
    simp only at hS hL hld
    subst hS
    simp only [mkHetero, HeteroB.mk.injEq, true_and]
    exact ⟨hL.symm, hld.symm⟩

/-- `replace(c, A=A')`: all three derived arrays follow the new `A` -/
theorem C18_hetero_replace_A (be : Backend α) (c : HeteroB Dy Dx Da Dk α) (A' : Arr 1 (Mat Dy Da α)) :
    let c' := mkHetero be c.M c.b A' c.W c.hy c.hk
    c'.Sigma = (tab fun r => mmul (A' r) (transpose (A' r))) ∧
    (c'.Lambda, c'.lnDetSigma) = invertBatch be false c'.Sigma ∧
    c'.M = c.M ∧ c'.b = c.b ∧ c'.W = c.W := ⟨rfl, rfl, rfl, rfl, rfl⟩

/-! ## `NNControlGaussianConditional` -/

/-- **C18 for the NN conditional**: the only array init field is `Sigma`; rebuilding inverts the
same matrix again -/
theorem C18_nn_roundtrip (be : Backend α) (Sigma : Arr 1 (Mat Dy Dy α)) :
    mkNNCond (Dx := Dx) be (mkNNCond (Dx := Dx) be Sigma).Sigma = mkNNCond be Sigma := rfl

/-- hence `set_control_variable` of the rebuilt object returns the same conditional -/
theorem C18_nn_roundtrip_setControl {Ru : Nat} (be : Backend α) (Sigma : Arr 1 (Mat Dy Dy α))
    (out : Arr Ru (Vec (Dy * Dx + Dy) α)) :
    nnSetControl (mkNNCond (Dx := Dx) be (mkNNCond (Dx := Dx) be Sigma).Sigma) out =
      nnSetControl (mkNNCond be Sigma) out := rfl

/-! ## truncated measures and densities -/

/-- `_prepare_integration()` a second time does nothing -/
theorem prepare_idem (be : Backend α) (m : MeasureB R D α) :
    (m.prepare be).prepare be = m.prepare be := by
  obtain ⟨cls, L, nu, lb, cov, ldl, mu, lnZ⟩ := m
  cases lnZ <;> cases mu <;> cases cov <;> rfl

theorem prepare_cls (be : Backend α) (m : MeasureB R D α) : (m.prepare be).cls = m.cls := by
  obtain ⟨cls, L, nu, lb, cov, ldl, mu, lnZ⟩ := m
  cases lnZ <;> cases mu <;> cases cov <;> rfl

/-- an object that exposes the density view has nothing left to prepare -/
theorem prepare_of_asPdf (be : Backend α) {m : MeasureB R D α} {d : PdfV R D α} (h : m.asPdf = some d) :
    m.prepare be = m := by
  obtain ⟨cls, L, nu, lb, cov, ldl, mu, lnZ⟩ := m
  cases lnZ <;> cases mu <;> cases cov <;> first | rfl | (simp [MeasureB.asPdf] at h)

/-- the lazily filled attributes `mu`, `lnZ` are not dataclass fields: a nested measure loses them
in a pytree round trip.  Preparing again restores them exactly (they are recomputed from the kept
covariance cache by the same expressions), provided they had been computed by `prepare` in the
first place (`m.mu = m.lnZ = None` before — the state of every measure the constructors and the
product operations return). -/
def dropLazy (m : MeasureB R D α) : MeasureB R D α := { m with mu := none, lnZ := none }

theorem prepare_dropCaches (be : Backend α) {m : MeasureB R D α} (hmu : m.mu = none) (hz : m.lnZ = none) :
    (dropLazy (m.prepare be)).prepare be = m.prepare be := by
  obtain ⟨cls, L, nu, lb, cov, ldl, mu, lnZ⟩ := m
  simp only at hmu hz
  subst hmu hz
  cases cov <;> rfl

/-- the object `TruncatedGaussianMeasure.__post_init__` assembles from the prepared measure `P`,
the broadcast limits and the density view `d` -/
def truncOf (P : MeasureB R 1 α) (lo up : Arr R (Lim α)) (d : PdfV R 1 α) : TruncB R α :=
  ⟨false, P, lo, up, d, tab fun r => Transc.exp (P.lnZPlusLnBeta r), standardise d lo, standardise d up⟩

/-- what `TruncatedGaussianPDF.__post_init__` does after the parent constructor -/
def toPdf (t : TruncB R α) : TruncB R α :=
  { t with isPdf := true, measure := t.density.toMeasure,
           constant := tab fun r => 1 / t.expectationIntegral r }

/-- normal form of the constructor -/
theorem mkTruncMeasure_eq (be : Backend α) (m : MeasureB R 1 α) (lower upper : Option (LimArg R α)) :
    mkTruncMeasure be m lower upper =
      match checkLimits lower upper with
      | none => none
      | some (lo, up) =>
        ((if m.cls.isPdf then m else (m.prepare be).densityOf be).asPdf).map fun d =>
          (m.prepare be, truncOf (m.prepare be) lo up d) := by
  unfold mkTruncMeasure
  cases checkLimits lower upper with
  | none => rfl
  | some lu =>
    obtain ⟨lo, up⟩ := lu
    by_cases hcls : m.cls.isPdf = true
    · simp only [hcls, if_true]
      cases m.asPdf <;> rfl
    · simp only [hcls, Bool.false_eq_true, if_false]
      have h1 : ((m.getDensity be).1.integral be) =
          (m.prepare be, tab fun r => Transc.exp ((m.prepare be).lnZPlusLnBeta r)) := by
        show (((m.prepare be).prepare be), tab fun r => Transc.exp (((m.prepare be).prepare be).lnZPlusLnBeta r)) = _
        rw [prepare_idem]
      have h2 : (m.getDensity be).2 = (m.prepare be).densityOf be := rfl
      simp only [h1, h2]
      cases ((m.prepare be).densityOf be).asPdf <;> rfl

theorem mkTruncPdf_eq (be : Backend α) (m : MeasureB R 1 α) (lower upper : Option (LimArg R α)) :
    mkTruncPdf be m lower upper = (mkTruncMeasure be m lower upper).map fun p => (p.1, toPdf p.2) := by
  unfold mkTruncPdf
  cases mkTruncMeasure be m lower upper <;> rfl

/-- a result of the constructor, in normal form -/
theorem mkTruncMeasure_some {be : Backend α} {m : MeasureB R 1 α} {lower upper : Option (LimArg R α)}
    {m' : MeasureB R 1 α} {t : TruncB R α} (hres : mkTruncMeasure be m lower upper = some (m', t)) :
    ∃ lo up d, checkLimits lower upper = some (lo, up) ∧
      (if m.cls.isPdf then m else (m.prepare be).densityOf be).asPdf = some d ∧
      m' = m.prepare be ∧ t = truncOf (m.prepare be) lo up d := by
  rw [mkTruncMeasure_eq] at hres
  cases hcl : checkLimits lower upper with
  | none => simp [hcl] at hres
  | some lu =>
    obtain ⟨lo, up⟩ := lu
    simp only [hcl] at hres
    cases hd : (if m.cls.isPdf then m else (m.prepare be).densityOf be).asPdf with
    | none => simp [hd] at hres
    | some d =>
      simp only [hd, Option.map_some, Option.some.injEq, Prod.mk.injEq] at hres
      exact ⟨lo, up, d, rfl, rfl, hres.1.symm, hres.2.symm⟩

/-- **C18 for `TruncatedGaussianMeasure`**: the constructor applied to the init fields
`(measure, lower_limit, upper_limit)` of a constructed object — the stored (prepared) measure and
the stored broadcast limit arrays — returns the same object: same measure with its caches, same
density view, `constant`, `alpha`, `beta`.  No hypothesis. -/
theorem C18_trunc_measure_roundtrip {be : Backend α} {m : MeasureB R 1 α}
    {lower upper : Option (LimArg R α)} {m' : MeasureB R 1 α} {t : TruncB R α}
    (hres : mkTruncMeasure be m lower upper = some (m', t)) :
    mkTruncMeasure be t.measure (some (.perComp t.lower)) (some (.perComp t.upper)) =
      some (t.measure, t) := by
  obtain ⟨lo, up, d, -, hd, -, rfl⟩ := mkTruncMeasure_some hres
  show mkTruncMeasure be (m.prepare be) (some (.perComp lo)) (some (.perComp up)) =
    some (m.prepare be, truncOf (m.prepare be) lo up d)
  rw [mkTruncMeasure_eq]
  simp only [checkLimits, prepare_idem, prepare_cls]
  by_cases hcls : m.cls.isPdf = true
  · simp only [hcls, if_true] at hd ⊢
    rw [prepare_of_asPdf be hd, hd]
    rfl
  · simp only [hcls, Bool.false_eq_true, if_false] at hd ⊢
    rw [hd]
    rfl

/-- the same when the nested measure has itself gone through a pytree round trip (its non-field
attributes `mu`, `lnZ` are dropped, the fields `Sigma`, `ln_det_Sigma`, `ln_det_Lambda` kept), for a
measure-class argument that entered the constructor without `mu`, `lnZ` -/
theorem C18_trunc_measure_roundtrip_nested {be : Backend α} {m : MeasureB R 1 α}
    (hcls : m.cls.isPdf = false) (hmu : m.mu = none) (hz : m.lnZ = none)
    {lower upper : Option (LimArg R α)} {m' : MeasureB R 1 α} {t : TruncB R α}
    (hres : mkTruncMeasure be m lower upper = some (m', t)) :
    mkTruncMeasure be (dropLazy t.measure)
        (some (.perComp t.lower)) (some (.perComp t.upper)) = some (t.measure, t) := by
  obtain ⟨lo, up, d, -, hd, -, rfl⟩ := mkTruncMeasure_some hres
  show mkTruncMeasure be (dropLazy (m.prepare be))
    (some (.perComp lo)) (some (.perComp up)) = some (m.prepare be, truncOf (m.prepare be) lo up d)
  have hc : (dropLazy (m.prepare be)).cls = m.cls := prepare_cls be m
  rw [mkTruncMeasure_eq]
  simp only [checkLimits, prepare_dropCaches be hmu hz, hc, hcls, Bool.false_eq_true,
    if_false] at hd ⊢
  rw [hd]
  rfl

/-- the constructor applied to a density view -/
theorem mkTruncMeasure_toMeasure (be : Backend α) (d : PdfV R 1 α) (lo up : Arr R (Lim α)) :
    mkTruncMeasure be d.toMeasure (some (.perComp lo)) (some (.perComp up)) =
      some (d.toMeasure, truncOf d.toMeasure lo up d) := by
  rw [mkTruncMeasure_eq]
  have h1 : d.toMeasure.prepare be = d.toMeasure := prepare_of_asPdf be (asPdf_toMeasure d)
  have h2 : d.toMeasure.cls.isPdf = true := by
    obtain ⟨diag, L, nu, lb, S, ld, mu, z⟩ := d
    cases diag <;> rfl
  simp only [checkLimits, h1, h2, if_true, asPdf_toMeasure, Option.map_some]

/-- **C18 for `TruncatedGaussianPDF`**: the stored `measure` of a truncated density is its
normalised base density; the constructor applied to `(measure, lower_limit, upper_limit)` of a
constructed object returns the same object (normalising the already normalised base again changes
nothing: `get_density()` is not even called on a `GaussianPDF`).  No hypothesis. -/
theorem C18_trunc_pdf_roundtrip {be : Backend α} {m : MeasureB R 1 α}
    {lower upper : Option (LimArg R α)} {m' : MeasureB R 1 α} {t : TruncB R α}
    (hres : mkTruncPdf be m lower upper = some (m', t)) :
    mkTruncPdf be t.measure (some (.perComp t.lower)) (some (.perComp t.upper)) =
      some (t.measure, t) := by
  rw [mkTruncPdf_eq] at hres
  cases h0 : mkTruncMeasure be m lower upper with
  | none => simp [h0] at hres
  | some p =>
    obtain ⟨m0, t0⟩ := p
    simp only [h0, Option.map_some, Option.some.injEq, Prod.mk.injEq] at hres
    obtain ⟨-, rfl⟩ := hres
    obtain ⟨lo, up, d, -, -, -, rfl⟩ := mkTruncMeasure_some h0
    show mkTruncPdf be d.toMeasure (some (.perComp lo)) (some (.perComp up)) = _
    rw [mkTruncPdf_eq, mkTruncMeasure_toMeasure]
    rfl

/-- `get_density()` of a truncated density returns the same object, and `get_density()` of a
truncated measure is a fixed point of `get_density()` -/
theorem C18_trunc_getDensity_fixed {be : Backend α} {m : MeasureB R 1 α}
    {lower upper : Option (LimArg R α)} {m' : MeasureB R 1 α} {t : TruncB R α}
    (hres : mkTruncPdf be m lower upper = some (m', t)) : t.getDensity be = some t := by
  have h := C18_trunc_pdf_roundtrip hres
  rw [mkTruncPdf_eq] at hres
  cases h0 : mkTruncMeasure be m lower upper with
  | none => simp [h0] at hres
  | some p =>
    obtain ⟨m0, t0⟩ := p
    simp only [h0, Option.map_some, Option.some.injEq, Prod.mk.injEq] at hres
    obtain ⟨-, rfl⟩ := hres
    have : (toPdf t0).density.toMeasure = (toPdf t0).measure := rfl
    unfold TruncB.getDensity
    rw [this, h]
    rfl

theorem C18_trunc_getDensity_idem (be : Backend α) (t t' : TruncB R α)
    (h : t.getDensity be = some t') : t'.getDensity be = some t' := by
  unfold TruncB.getDensity at h
  cases h0 : mkTruncPdf be t.density.toMeasure (some (.perComp t.lower)) (some (.perComp t.upper)) with
  | none => simp [h0] at h
  | some p =>
    obtain ⟨m0, t0⟩ := p
    simp only [h0, Option.map_some, Option.some.injEq] at h
    subst h
    exact C18_trunc_getDensity_fixed h0

/-- observables of the rebuilt truncated object (immediate from equality) -/
theorem C18_trunc_roundtrip_observables {be : Backend α} {m : MeasureB R 1 α}
    {lower upper : Option (LimArg R α)} {m' : MeasureB R 1 α} {t : TruncB R α}
    (hres : mkTruncMeasure be m lower upper = some (m', t) ∨ mkTruncPdf be m lower upper = some (m', t)) :
    ∃ t', ((mkTruncMeasure be t.measure (some (.perComp t.lower)) (some (.perComp t.upper))).map (·.2) = some t' ∨
           (mkTruncPdf be t.measure (some (.perComp t.lower)) (some (.perComp t.upper))).map (·.2) = some t') ∧
      (∀ r x, t'.call r x = t.call r x) ∧ t'.integral = t.integral ∧ t'.integrateX = t.integrateX ∧
      t'.integrateXPow2 = t.integrateXPow2 ∧ ∀ k, t'.integrateXPowK k = t.integrateXPowK k := by
  rcases hres with h | h
  · exact ⟨t, Or.inl (by rw [C18_trunc_measure_roundtrip h]; rfl), fun _ _ => rfl, rfl, rfl, rfl, fun _ => rfl⟩
  · exact ⟨t, Or.inr (by rw [C18_trunc_pdf_roundtrip h]; rfl), fun _ _ => rfl, rfl, rfl, rfl, fun _ => rfl⟩

/-- the density view of a constructed density, rebuilt through the density constructor from the
view's own `(Sigma, mu, Lambda, ln_det_Sigma)`, is the object the view came from -/
theorem pdfView_rebuild (be : Backend α) (diag : Bool) (Sigma : Arr R (Mat D D α))
    (mu : Arr R (Vec D α)) (Lambda : Option (Arr R (Mat D D α))) (lnDetSigma : Option (Arr R α))
    {d : PdfV R D α} (hd : (mkPdf be diag Sigma mu Lambda lnDetSigma).asPdf = some d) :
    mkPdf be d.diag d.Sigma d.mu (some d.Lambda) (some d.lnDetSigma) = d.toMeasure := by
  rw [mkPdf_asPdf_toMeasure be diag Sigma mu Lambda lnDetSigma hd]
  have key := C18_pdf_roundtrip_eq be diag Sigma mu Lambda lnDetSigma
  simp only at key
  generalize mkPdf be diag Sigma mu Lambda lnDetSigma = p at hd key ⊢
  unfold MeasureB.asPdf at hd
  cases hc : p.cov with
  | none => simp [hc] at hd
  | some c =>
    cases hm : p.mu with
    | none => simp [hc, hm] at hd
    | some m =>
      cases hz : p.lnZ with
      | none => simp [hc, hm, hz] at hd
      | some z =>
        simp only [hc, hm, hz, Option.some.injEq] at hd
        subst hd
        exact key c m hc hm

/-- **C18 for `TruncatedGaussianPDF`, nested pytree**: the stored `measure` (a `GaussianPDF`) is
itself rebuilt from its fields before the outer constructor runs.  For a truncated density built on
a measure-class argument, or on a density returned by the density constructor, the result is again
the same object. -/
theorem C18_trunc_pdf_roundtrip_nested {be : Backend α} {m : MeasureB R 1 α}
    (hsrc : m.cls.isPdf = false ∨
      ∃ diag S mu L ld, m = mkPdf be diag S mu L ld)
    {lower upper : Option (LimArg R α)} {m' : MeasureB R 1 α} {t : TruncB R α}
    (hres : mkTruncPdf be m lower upper = some (m', t)) :
    mkTruncPdf be
        (mkPdf be t.density.diag t.density.Sigma t.density.mu (some t.density.Lambda)
          (some t.density.lnDetSigma))
        (some (.perComp t.lower)) (some (.perComp t.upper)) = some (t.measure, t) := by
  have hrt := C18_trunc_pdf_roundtrip hres
  rw [mkTruncPdf_eq] at hres
  cases h0 : mkTruncMeasure be m lower upper with
  | none => simp [h0] at hres
  | some p =>
    obtain ⟨m0, t0⟩ := p
    simp only [h0, Option.map_some, Option.some.injEq, Prod.mk.injEq] at hres
    obtain ⟨-, rfl⟩ := hres
    obtain ⟨lo, up, d, -, hd, -, rfl⟩ := mkTruncMeasure_some h0
    have hview : mkPdf be d.diag d.Sigma d.mu (some d.Lambda) (some d.lnDetSigma) = d.toMeasure := by
      rcases hsrc with hcls | ⟨diag, S, mu, L, ld, rfl⟩
      · simp only [hcls, Bool.false_eq_true, if_false] at hd
        unfold MeasureB.densityOf at hd
        cases hc : (m.prepare be).cov with
        | none => simp [hc, MeasureB.asPdf] at hd
        | some c =>
          cases hm : (m.prepare be).mu with
          | none => simp [hc, hm, MeasureB.asPdf] at hd
          | some mu =>
            simp only [hc, hm] at hd
            exact pdfView_rebuild be _ _ _ _ _ hd
      · have hp : (mkPdf be diag S mu L ld).cls.isPdf = true := by
          rw [(mkPdf_fields be diag S mu L ld).2.2.2.2]; cases diag <;> rfl
        simp only [hp, if_true] at hd
        exact pdfView_rebuild be _ _ _ _ _ hd
    show mkTruncPdf be (mkPdf be d.diag d.Sigma d.mu (some d.Lambda) (some d.lnDetSigma)) _ _ = _
    rw [hview]
    exact hrt

/-! ## `slice` with the identity index array -/

/-- `jnp.arange(R)` -/
def idAll (R : Nat) : Fin R → Int := fun n => (n.1 : Int)

theorem takeIdx_idAll (n : Fin R) : takeIdx R (idAll R n) = some n := by
  unfold takeIdx idAll
  rw [dif_pos ⟨by omega, by have := n.2; omega⟩]
  simp

/-- `jnp.take(x, arange(R), axis=0) = x` -/
theorem take_idAll {β : Type} (x : Arr R β) (fill : β) : take x (idAll R) fill = x := by
  ext n
  simp only [take, tab_apply, takeIdx_idAll]

theorem C18_factor_slice_all (f : Factor R D α) : f.slice (idAll R) = f := by
  cases f <;> simp only [Factor.slice, take_idAll]

/-- the conditional classes return the full-matrix class -/
theorem C18_cond_slice_all (c : CondB R Dy Dx α) : c.slice (idAll R) = { c with diag := false } := by
  simp only [CondB.slice, take_idAll]

theorem C18_condId_slice_all (c : CondIdB R D α) : c.slice (idAll R) = { c with diag := false } := by
  simp only [CondIdB.slice, take_idAll]

/-- the feature classes inherit `slice`: a plain linear conditional on the feature vector with the
same five arrays -/
theorem C18_feat_slice_all (c : FeatCondB Dy Dx Dk α) : c.slice (idAll 1) = c.asLinear := by
  simp only [FeatCondB.slice, C18_cond_slice_all]
  rfl

/-- a measure-class object: whenever `slice` returns, the result has the same class, the same
`(Lambda, nu, ln_beta)` (so it is the same function), the same covariance cache and the same
`ln_det_Lambda`; only the non-field caches `mu`, `lnZ` are dropped -/
theorem C18_measure_slice_all (be : Backend α) (m : MeasureB R D α) (hcls : m.cls.isPdf = false)
    {m' : MeasureB R D α} (h : m.slice be (idAll R) = some m') :
    m' = { m with mu := none, lnZ := none,
                  lnDetLambda := if m.cov.isSome then m.lnDetLambda else none } := by
  obtain ⟨cls, L, nu, lb, cov, ldl, mu, lnZ⟩ := m
  simp only at hcls
  unfold MeasureB.slice at h
  simp only [hcls, Bool.false_eq_true, if_false, take_idAll, MeasureB.mk0] at h
  cases cov with
  | none =>
    simp only [Option.some.injEq] at h
    subst h; rfl
  | some c =>
    cases ldl with
    | none => simp at h
    | some l =>
      simp only [Option.some.injEq] at h
      subst h; rfl

theorem pdf_slice_all_of (be : Backend α) (p : MeasureB R D α) (c : Cov R D α) (m : Arr R (Vec D α))
    (hp : p.cls.isPdf = true) (hc : p.cov = some c) (hm : p.mu = some m)
    (key : mkPdf be p.cls.isDiag c.Sigma m (some p.Lambda) (some c.lnDetSigma) = p) :
    p.slice be (idAll R) = some p := by
  unfold MeasureB.slice
  simp only [hp, if_true, hc, hm, take_idAll]
  rw [key]

/-- **a constructed density sliced with the identity index array is the same object** -/
theorem C18_pdf_slice_all (be : Backend α) (diag : Bool) (Sigma : Arr R (Mat D D α))
    (mu : Arr R (Vec D α)) (Lambda : Option (Arr R (Mat D D α))) (lnDetSigma : Option (Arr R α)) :
    (mkPdf be diag Sigma mu Lambda lnDetSigma).slice be (idAll R) =
      some (mkPdf be diag Sigma mu Lambda lnDetSigma) := by
  obtain ⟨-, hcov, hmu, -, hcls⟩ := mkPdf_fields be diag Sigma mu Lambda lnDetSigma
  refine pdf_slice_all_of be _ _ _ ?_ hcov hmu
    (C18_pdf_roundtrip_eq be diag Sigma mu Lambda lnDetSigma _ _ hcov hmu)
  rw [hcls]; cases diag <;> rfl

end generic

/-! ## non-vacuity: concrete objects over `ℝ` with the contract-satisfying backend -/

section examples
open GT.Props

/-- both feature classes, every kernel on `ℝ²` with one feature, a non-diagonal noise covariance,
the constructor called with `Sigma` only (so it inverts): the object exists and its rebuild from
the exported `(M, b, kernel, Sigma, Lambda, ln_det_Sigma)` is the same object -/
example (kernel : FeatKernel 1 2 ℝ) :
    ∃ c : FeatCondB 2 2 1 ℝ,
      mkFeatCond Backend.sat (tab fun _ : Fin 1 => (ofM !![1, 2, 3; 0, -1, 1] : Mat 2 (2 + 1) ℝ))
        (some (tab fun _ => ofV ![1, 2])) kernel (some (tab fun _ => ofM !![2, 1; 1, 2])) none none = some c ∧
      c.Sigma 0 = ofM !![2, 1; 1, 2] ∧ c.kernel = kernel ∧
      featRebuild Backend.sat c = some c := by
  obtain ⟨c, hc, -, -, hker, hS, -⟩ := C16.mkFeatCond_ok Backend.sat_spec
    (tab fun _ : Fin 1 => (ofM !![1, 2, 3; 0, -1, 1] : Mat 2 (2 + 1) ℝ))
    (some (tab fun _ => ofV ![1, 2])) kernel (tab fun _ : Fin 1 => ofM !![2, 1; 1, 2])
    (fun r => by simp only [tab_apply, toM_ofM]; exact posDef_two_one)
  exact ⟨c, hc, by rw [hS]; simp, hker, C18_feat_roundtrip hc⟩

/-- a heteroscedastic conditional with `Dy = 2`, `Da = 2`, `Dk = 1`, non-symmetric `A` -/
example :
    let c : HeteroB 2 1 2 1 ℝ := mkHetero Backend.sat (tab fun _ => ofM !![1; -2]) (tab fun _ => ofV ![0, 1])
      (tab fun _ => ofM !![1, 2; 0, 3]) (ofM !![1, -1]) (by omega) (by omega)
    mkHetero Backend.sat c.M c.b c.A c.W c.hy c.hk = c ∧ c.Sigma 0 0 0 = 5 := by
  refine ⟨C18_hetero_roundtrip _ _ _ _ _ _ _, ?_⟩
  simp [mkHetero, ofM, Fin.sum_univ_two]
  norm_num

/-- the NN conditional with a non-diagonal covariance -/
example : mkNNCond (Dx := 3) Backend.sat
      (mkNNCond (Dx := 3) Backend.sat (tab fun _ : Fin 1 => (ofM !![2, 1; 1, 2] : Mat 2 2 ℝ))).Sigma =
    mkNNCond Backend.sat (tab fun _ : Fin 1 => (ofM !![2, 1; 1, 2] : Mat 2 2 ℝ)) :=
  C18_nn_roundtrip _ _

/-- the measure `exp(−x² + x)` truncated to `[−1, ∞)` (scalar lower limit, no upper limit): the
constructors of both truncated classes return objects, and all four round trips (plain and with the
nested measure rebuilt first) return the same objects -/
example : ∃ (t : TruncB 1 ℝ) (tp : TruncB 1 ℝ) (m' : MeasureB 1 1 ℝ),
    mkTruncMeasure Backend.sat
      (MeasureB.mk0 .measure (tab fun _ => ofM !![2]) (tab fun _ => ofV ![1]) (tab fun _ => 0))
      (some (.scalar (.fin (-1)))) none = some (m', t) ∧
    mkTruncPdf Backend.sat
      (MeasureB.mk0 .measure (tab fun _ => ofM !![2]) (tab fun _ => ofV ![1]) (tab fun _ => 0))
      (some (.scalar (.fin (-1)))) none = some (m', tp) ∧
    mkTruncMeasure Backend.sat t.measure (some (.perComp t.lower)) (some (.perComp t.upper)) =
      some (t.measure, t) ∧
    mkTruncMeasure Backend.sat (dropLazy t.measure) (some (.perComp t.lower)) (some (.perComp t.upper)) =
      some (t.measure, t) ∧
    mkTruncPdf Backend.sat tp.measure (some (.perComp tp.lower)) (some (.perComp tp.upper)) =
      some (tp.measure, tp) ∧
    mkTruncPdf Backend.sat
      (mkPdf Backend.sat tp.density.diag tp.density.Sigma tp.density.mu (some tp.density.Lambda)
        (some tp.density.lnDetSigma))
      (some (.perComp tp.lower)) (some (.perComp tp.upper)) = some (tp.measure, tp) ∧
    tp.getDensity Backend.sat = some tp := by
  have hm : (MeasureB.mk0 .measure (tab fun _ => ofM !![2]) (tab fun _ => ofV ![1])
      (tab fun _ => 0) : MeasureB 1 1 ℝ).Inv := by
    refine inv_mk0 _ _ _ _ ?_ (by simp [MCls.isDiag])
    intro r
    simp only [tab_apply, toM_ofM]
    apply Matrix.PosDef.of_dotProduct_mulVec_pos
    · ext i j; fin_cases i; fin_cases j; simp
    · intro x hx
      have hx' : x 0 ≠ 0 := by
        intro h0
        apply hx
        ext i; fin_cases i; simpa using h0
      simp only [dotProduct, Matrix.mulVec, Fin.sum_univ_one, star_trivial, Matrix.of_apply,
        Matrix.cons_val', Matrix.cons_val_fin_one]
      nlinarith [sq_pos_of_ne_zero hx']
  have hsome := C20.mkTruncMeasure_isSome Backend.sat_spec hm rfl (some (.scalar (.fin (-1)))) none
    (Or.inl rfl)
  obtain ⟨⟨m', t⟩, hres⟩ := Option.isSome_iff_exists.1 hsome
  have hpdf : mkTruncPdf Backend.sat
      (MeasureB.mk0 .measure (tab fun _ => ofM !![2]) (tab fun _ => ofV ![1]) (tab fun _ => 0))
      (some (.scalar (.fin (-1)))) none = some (m', toPdf t) := by
    rw [mkTruncPdf_eq, hres]; rfl
  exact ⟨t, toPdf t, m', hres, hpdf, C18_trunc_measure_roundtrip hres,
    C18_trunc_measure_roundtrip_nested rfl rfl rfl hres, C18_trunc_pdf_roundtrip hpdf,
    C18_trunc_pdf_roundtrip_nested (Or.inl rfl) hpdf, C18_trunc_getDensity_fixed hpdf⟩

/-- a two-component density with a non-diagonal covariance: slicing with `arange(2)` and rebuilding
from the stored fields both return the same object -/
example :
    let p : MeasureB 2 2 ℝ := mkPdf Backend.sat false (tab fun _ => ofM !![2, 1; 1, 2])
      (tab fun r => ofV ![1, (r.1 : ℝ)]) none none
    p.slice Backend.sat (idAll 2) = some p ∧
    ∃ c m, p.cov = some c ∧ p.mu = some m ∧
      mkPdf Backend.sat p.cls.isDiag c.Sigma m (some p.Lambda) (some c.lnDetSigma) = p := by
  intro p
  obtain ⟨-, hcov, hmu, -, -⟩ := mkPdf_fields Backend.sat false (tab fun _ : Fin 2 => ofM !![2, 1; 1, 2])
    (tab fun r => ofV ![1, (r.1 : ℝ)]) none none
  exact ⟨C18_pdf_slice_all _ _ _ _ _ _, _, _, hcov, hmu, C18_pdf_roundtrip_eq _ _ _ _ _ _ _ _ hcov hmu⟩

end examples

end GT.Props.C18Approx

#print axioms GT.Props.C18Approx.C18_pdf_roundtrip_eq
#print axioms GT.Props.C18Approx.C18_feat_roundtrip
#print axioms GT.Props.C18Approx.C18_feat_roundtrip_updateSigma
#print axioms GT.Props.C18Approx.C18_feat_roundtrip_observables
#print axioms GT.Props.C18Approx.C18_feat_replace_kernel
#print axioms GT.Props.C18Approx.lsem_field_roundtrip
#print axioms GT.Props.C18Approx.C18_hetero_roundtrip
#print axioms GT.Props.C18Approx.hetero_rebuild_iff
#print axioms GT.Props.C18Approx.C18_nn_roundtrip
#print axioms GT.Props.C18Approx.C18_trunc_measure_roundtrip
#print axioms GT.Props.C18Approx.C18_trunc_measure_roundtrip_nested
#print axioms GT.Props.C18Approx.C18_trunc_pdf_roundtrip
#print axioms GT.Props.C18Approx.C18_trunc_pdf_roundtrip_nested
#print axioms GT.Props.C18Approx.C18_trunc_getDensity_fixed
#print axioms GT.Props.C18Approx.C18_trunc_getDensity_idem
#print axioms GT.Props.C18Approx.C18_trunc_roundtrip_observables
#print axioms GT.Props.C18Approx.C18_factor_slice_all
#print axioms GT.Props.C18Approx.C18_cond_slice_all
#print axioms GT.Props.C18Approx.C18_condId_slice_all
#print axioms GT.Props.C18Approx.C18_feat_slice_all
#print axioms GT.Props.C18Approx.C18_measure_slice_all
#print axioms GT.Props.C18Approx.C18_pdf_slice_all
