import GT.Props.C01
import GT.Props.C02
import GT.Props.C04
import GT.Props.C10
import GT.Bridge.SpecSat
/-!
# C11 — Bayesian updating with a batch of observations: path independence and evidence

`prior.hadamard(cond.set_y(y).product())` is *prior × ∏ₙ likelihood(yₙ | ·)*.  Everything is
stated for the evaluated functions (log domain) and Lebesgue integrals over `Fin Dx → ℝ`.

Because of the known finding `set_y-normaliser-uses-Dx` (see C10) every likelihood factor carries
the constant `(Dy − Dx)/2 · log 2π`; with `N` observations the evidence is therefore off by
`N·(Dy − Dx)/2 · log 2π` (`C11_evidence_offset`), and exact for `Dx = Dy` (`C11_evidence_partial`).
-/
namespace GT.Props.C11
open GT Matrix MeasureTheory

variable {R Rc N Dy Dx : Nat}

/-- `ln N(yₙ; M x + b, Σ)` for the conditional paired with observation `n` -/
noncomputable def logLik (sc : Fin N → Fin Rc) (c : CondB Rc Dy Dx ℝ) (y : Arr N (Vec Dy ℝ))
    (n : Fin N) (x : Fin Dx → ℝ) : ℝ :=
  normalLn (toM (c.M (sc n)) *ᵥ x + toV (c.b (sc n))) (toM (c.Sigma (sc n)))⁻¹
    (Real.log (toM (c.Sigma (sc n))).det) (toV (y n))

/-- the constant every `set_y` factor is off by (zero iff `Dx = Dy`) -/
noncomputable def offset (Dy Dx : Nat) : ℝ := ((Dy : ℝ) - (Dx : ℝ)) / 2 * Real.log (2 * Real.pi)

/-- **C11 (a)**: the product of the `N` likelihood factors evaluates to the sum of the
log-likelihoods (plus `N` times the known constant). -/
theorem C11_likelihood_product (sc : Fin N → Fin Rc) (c : CondB Rc Dy Dx ℝ) (hc : C10.CondOK c)
    (y : Arr N (Vec Dy ℝ)) (x : Fin Dx → ℝ) :
    ((c.setYSel sc y).product).evalLn 0 (ofV x) =
      ∑ n, (normalLn (toM (c.M (sc n)) *ᵥ x + toV (c.b (sc n))) (toM (c.Sigma (sc n)))⁻¹
        (Real.log (toM (c.Sigma (sc n))).det) (toV (y n))
        + ((Dy : ℝ) - (Dx : ℝ)) / 2 * Real.log (2 * Real.pi)) := by
  rw [C01.C01_factor_product]
  exact Finset.sum_congr rfl fun n _ => C10.setY_evalLn sc c hc y n x

/-- the same with the constant collected -/
theorem C11_likelihood_product' (sc : Fin N → Fin Rc) (c : CondB Rc Dy Dx ℝ) (hc : C10.CondOK c)
    (y : Arr N (Vec Dy ℝ)) (x : Fin Dx → ℝ) :
    ((c.setYSel sc y).product).evalLn 0 (ofV x) =
      (∑ n, logLik sc c y n x) + (N : ℝ) * offset Dy Dx := by
  rw [C11_likelihood_product sc c hc y x, Finset.sum_add_distrib]
  simp [logLik, offset]

/-- relabelling observations relabels the factor batch (no hypothesis on `c`) -/
theorem setYSel_perm (sc : Fin N → Fin Rc) (c : CondB Rc Dy Dx ℝ) (y : Arr N (Vec Dy ℝ))
    (σ : Fin N → Fin N) (n : Fin N) (x : Vec Dx ℝ) :
    (c.setYSel (sc ∘ σ) (tab fun n => y (σ n))).evalLn n x = (c.setYSel sc y).evalLn (σ n) x := by
  simp only [Factor.evalLn, CondB.setYSel, Factor.toB, FactorB.evalLn, tab_apply, Function.comp_apply]

/-- **C11 (b)**: the likelihood product does not depend on the order in which the observations
are presented (any permutation, any conditional — well-formed or not —, any point). -/
theorem C11_order_independent (sc : Fin N → Fin Rc) (c : CondB Rc Dy Dx ℝ) (y : Arr N (Vec Dy ℝ))
    (σ : Equiv.Perm (Fin N)) (x : Vec Dx ℝ) :
    ((c.setYSel (sc ∘ σ) (tab fun n => y (σ n))).product).evalLn 0 x =
      ((c.setYSel sc y).product).evalLn 0 x := by
  rw [C01.C01_factor_product, C01.C01_factor_product]
  simp only [setYSel_perm]
  exact Equiv.sum_comp σ fun n => (c.setYSel sc y).evalLn n x

/-- hence also the posterior (prior × likelihood product) is order independent -/
theorem C11_posterior_order_independent (be : Backend ℝ) (u : MeasureB R Dx ℝ) (uf : Bool)
    (sc : Fin N → Fin Rc) (c : CondB Rc Dy Dx ℝ) (y : Arr N (Vec Dy ℝ)) (σ : Equiv.Perm (Fin N))
    (r : Fin R) (x : Vec Dx ℝ) :
    (u.hadamardBF be ((c.setYSel (sc ∘ σ) (tab fun n => y (σ n))).product) uf).evalLn r x =
      (u.hadamardBF be ((c.setYSel sc y).product) uf).evalLn r x := by
  rw [C01.C01_hadamard_bcast_factor, C01.C01_hadamard_bcast_factor, C11_order_independent]

/-- sequential updating (one observation after the other, in any order and with repetitions allowed,
each with `hadamard` against the single-observation factor): prior plus the visited terms. -/
theorem C11_sequential (be : Backend ℝ) (u : MeasureB R Dx ℝ) (uf : Bool)
    (sc : Fin N → Fin Rc) (c : CondB Rc Dy Dx ℝ) (y : Arr N (Vec Dy ℝ)) (order : List (Fin N))
    (r : Fin R) (x : Vec Dx ℝ) :
    (order.foldl (fun m n => m.hadamardBF be
        ((c.setYSel (fun _ : Fin 1 => sc n) (tab fun _ => y n)).product) uf) u).evalLn r x =
      u.evalLn r x + (order.map fun n => (c.setYSel sc y).evalLn n x).sum := by
  induction order generalizing u with
  | nil => simp
  | cons n ns ih =>
    simp only [List.foldl_cons, List.map_cons, List.sum_cons]
    rw [ih, C01.C01_hadamard_bcast_factor, C01.C01_factor_product]
    have : ∀ k : Fin 1, (c.setYSel (fun _ : Fin 1 => sc n) (tab fun _ => y n)).evalLn k x =
        (c.setYSel sc y).evalLn n x := by
      intro k
      simp only [Factor.evalLn, CondB.setYSel, Factor.toB, FactorB.evalLn, tab_apply]
    simp only [this, Finset.univ_unique, Finset.sum_const, Finset.card_singleton, one_smul]
    ring

/-- **path independence**: updating sequentially with the observations in *any* order `σ` gives the
same function as the batch route `prior.hadamard(cond.set_y(y).product())`. -/
theorem C11_sequential_eq_batch (be : Backend ℝ) (u : MeasureB R Dx ℝ) (uf uf' : Bool)
    (sc : Fin N → Fin Rc) (c : CondB Rc Dy Dx ℝ) (y : Arr N (Vec Dy ℝ)) (σ : Equiv.Perm (Fin N))
    (r : Fin R) (x : Vec Dx ℝ) :
    (((List.finRange N).map σ).foldl (fun m n => m.hadamardBF be
        ((c.setYSel (fun _ : Fin 1 => sc n) (tab fun _ => y n)).product) uf) u).evalLn r x =
      (u.hadamardBF be ((c.setYSel sc y).product) uf').evalLn r x := by
  rw [C11_sequential, C01.C01_hadamard_bcast_factor, C01.C01_factor_product, List.map_map,
    ← List.ofFn_eq_map, List.sum_ofFn]
  congr 1
  exact Equiv.sum_comp σ fun n => (c.setYSel sc y).evalLn n x

/-- **C11 (c)**: route "prior × product of likelihood factors": the un-normalised posterior. -/
theorem C11_posterior_route_c (be : Backend ℝ) (u : MeasureB R Dx ℝ) (uf : Bool)
    (sc : Fin N → Fin Rc) (c : CondB Rc Dy Dx ℝ) (hc : C10.CondOK c) (y : Arr N (Vec Dy ℝ))
    (r : Fin R) (x : Fin Dx → ℝ) :
    (u.hadamardBF be ((c.setYSel sc y).product) uf).evalLn r (ofV x) =
      u.evalLn r (ofV x) + ∑ n, (normalLn (toM (c.M (sc n)) *ᵥ x + toV (c.b (sc n)))
        (toM (c.Sigma (sc n)))⁻¹ (Real.log (toM (c.Sigma (sc n))).det) (toV (y n))
        + ((Dy : ℝ) - (Dx : ℝ)) / 2 * Real.log (2 * Real.pi)) := by
  rw [C01.C01_hadamard_bcast_factor, C11_likelihood_product sc c hc]

theorem C11_posterior_route_c' (be : Backend ℝ) (u : MeasureB R Dx ℝ) (uf : Bool)
    (sc : Fin N → Fin Rc) (c : CondB Rc Dy Dx ℝ) (hc : C10.CondOK c) (y : Arr N (Vec Dy ℝ))
    (r : Fin R) (x : Fin Dx → ℝ) :
    (u.hadamardBF be ((c.setYSel sc y).product) uf).evalLn r (ofV x) =
      u.evalLn r (ofV x) + (∑ n, logLik sc c y n x) + (N : ℝ) * offset Dy Dx := by
  rw [C01.C01_hadamard_bcast_factor, C11_likelihood_product' sc c hc]; ring

/-! ## the likelihood product is a documented (positive semidefinite) factor -/

theorem setY_factorPSD (sc : Fin N → Fin Rc) (c : CondB Rc Dy Dx ℝ) (hc : C10.CondOK c)
    (y : Arr N (Vec Dy ℝ)) : C04.FactorPSD (c.setYSel sc y) := by
  intro n
  rw [C10.C10_batch_wellformed, hc.lambda]
  have h := (hc.posDef (sc n)).inv.posSemidef
  have := h.conjTranspose_mul_mul_same (toM (c.M (sc n)))
  simpa [Matrix.conjTranspose_eq_transpose_of_trivial] using this

theorem product_factorPSD {D : Nat} (f : Factor N D ℝ) (hf : C04.FactorPSD f) :
    C04.FactorPSD f.product := by
  intro r
  have h : toM (f.product.toB.Lambda r) = ∑ n, toM (f.toB.Lambda n) := by
    ext i j
    simp [Factor.product, Factor.toB, Matrix.sum_apply]
  rw [h]
  exact Matrix.posSemidef_sum _ fun n _ => hf n

theorem setY_product_factorPSD (sc : Fin N → Fin Rc) (c : CondB Rc Dy Dx ℝ) (hc : C10.CondOK c)
    (y : Arr N (Vec Dy ℝ)) : C04.FactorPSD (c.setYSel sc y).product :=
  product_factorPSD _ (setY_factorPSD sc c hc y)

variable {be : Backend ℝ} (hbe : be.Spec)
include hbe

/-- the un-normalised posterior is a consistent measure (C04) -/
theorem C11_posterior_inv (u : MeasureB R Dx ℝ) (hu : u.Inv) (uf : Bool)
    (sc : Fin N → Fin Rc) (c : CondB Rc Dy Dx ℝ) (hc : C10.CondOK c) (y : Arr N (Vec Dy ℝ)) :
    (u.hadamardBF be ((c.setYSel sc y).product) uf).Inv :=
  C04.C04_hadamard_bcast_factor hbe u _ uf hu (setY_product_factorPSD sc c hc y)

/-- the integral of the un-normalised posterior splits off the constant; the remaining integral is
positive -/
theorem posterior_integral_split (u : MeasureB R Dx ℝ) (hu : u.Inv) (uf : Bool)
    (sc : Fin N → Fin Rc) (c : CondB Rc Dy Dx ℝ) (hc : C10.CondOK c) (y : Arr N (Vec Dy ℝ))
    (r : Fin R) :
    (∫ x' : Fin Dx → ℝ, Real.exp (u.evalLn r (ofV x') + (∑ n, logLik sc c y n x')
        + (N : ℝ) * offset Dy Dx) =
      (∫ x' : Fin Dx → ℝ, Real.exp (u.evalLn r (ofV x') + ∑ n, logLik sc c y n x'))
        * Real.exp ((N : ℝ) * offset Dy Dx)) ∧
    0 < ∫ x' : Fin Dx → ℝ, Real.exp (u.evalLn r (ofV x') + ∑ n, logLik sc c y n x') := by
  have hinv := C11_posterior_inv hbe u hu uf sc c hc y
  have hI : ∫ x' : Fin Dx → ℝ, Real.exp (u.evalLn r (ofV x') + (∑ n, logLik sc c y n x')
        + (N : ℝ) * offset Dy Dx) =
      (∫ x' : Fin Dx → ℝ, Real.exp (u.evalLn r (ofV x') + ∑ n, logLik sc c y n x'))
        * Real.exp ((N : ℝ) * offset Dy Dx) := by
    simp_rw [Real.exp_add]
    rw [integral_mul_const]
  have hpos : 0 < ∫ x' : Fin Dx → ℝ, Real.exp (u.evalLn r (ofV x') + ∑ n, logLik sc c y n x') := by
    have h1 := C02.integral_exp_evalLn _ r (hinv.posDef r)
    simp only [C11_posterior_route_c' be u uf sc c hc y r] at h1
    rw [hI] at h1
    have h2 : 0 < (∫ x' : Fin Dx → ℝ, Real.exp (u.evalLn r (ofV x') + ∑ n, logLik sc c y n x'))
        * Real.exp ((N : ℝ) * offset Dy Dx) := by rw [h1]; exact Real.exp_pos _
    exact (mul_pos_iff_of_pos_right (Real.exp_pos _)).1 h2
  exact ⟨hI, hpos⟩

/-- **C11 (c), normalised**: after `normalize()` the posterior log-density is
`prior + Σ loglik − log ∫ exp(prior + Σ loglik)`; the constant offset of `set_y` cancels. -/
theorem C11_posterior_normalized (u : MeasureB R Dx ℝ) (hu : u.Inv) (uf : Bool)
    (sc : Fin N → Fin Rc) (c : CondB Rc Dy Dx ℝ) (hc : C10.CondOK c) (y : Arr N (Vec Dy ℝ))
    (r : Fin R) (x : Fin Dx → ℝ) :
    ((u.hadamardBF be ((c.setYSel sc y).product) uf).normalize be).evalLn r (ofV x) =
      u.evalLn r (ofV x) + (∑ n, logLik sc c y n x)
        - Real.log (∫ x' : Fin Dx → ℝ, Real.exp (u.evalLn r (ofV x') + ∑ n, logLik sc c y n x')) := by
  have hinv := C11_posterior_inv hbe u hu uf sc c hc y
  rw [C02.C02_normalize hbe hinv r x]
  simp only [C11_posterior_route_c' be u uf sc c hc y r]
  obtain ⟨hI, hpos⟩ := posterior_integral_split hbe u hu uf sc c hc y r
  rw [hI, Real.log_mul hpos.ne' (Real.exp_pos _).ne', Real.log_exp]
  ring

/-- **C11 (d), exact behaviour of the pinned code**: the reported log-evidence
`log_integral()` of *prior × ∏ likelihood factors* is the true log marginal likelihood
`log ∫ p(x) ∏ₙ N(yₙ; M x + b, Σ) dx` plus `N·(Dy − Dx)/2 · log 2π`. -/
theorem C11_evidence_offset (u : MeasureB R Dx ℝ) (hu : u.Inv) (uf : Bool)
    (sc : Fin N → Fin Rc) (c : CondB Rc Dy Dx ℝ) (hc : C10.CondOK c) (y : Arr N (Vec Dy ℝ))
    (r : Fin R) :
    ((u.hadamardBF be ((c.setYSel sc y).product) uf).logIntegral be).2 r =
      Real.log (∫ x : Fin Dx → ℝ, Real.exp (u.evalLn r (ofV x) +
        ∑ n, normalLn (toM (c.M (sc n)) *ᵥ x + toV (c.b (sc n))) (toM (c.Sigma (sc n)))⁻¹
          (Real.log (toM (c.Sigma (sc n))).det) (toV (y n))))
      + (N : ℝ) * (((Dy : ℝ) - (Dx : ℝ)) / 2 * Real.log (2 * Real.pi)) := by
  have hinv := C11_posterior_inv hbe u hu uf sc c hc y
  rw [C02.C02_log_integral hbe hinv r]
  simp only [C11_posterior_route_c' be u uf sc c hc y r]
  obtain ⟨hI, hpos⟩ := posterior_integral_split hbe u hu uf sc c hc y r
  rw [hI, Real.log_mul hpos.ne' (Real.exp_pos _).ne', Real.log_exp]
  rfl

/-- the same in product form: `∫ p(x) ∏ₙ p(yₙ|x) dx` -/
theorem C11_evidence_offset_prod (u : MeasureB R Dx ℝ) (hu : u.Inv) (uf : Bool)
    (sc : Fin N → Fin Rc) (c : CondB Rc Dy Dx ℝ) (hc : C10.CondOK c) (y : Arr N (Vec Dy ℝ))
    (r : Fin R) :
    ((u.hadamardBF be ((c.setYSel sc y).product) uf).logIntegral be).2 r =
      Real.log (∫ x : Fin Dx → ℝ, Real.exp (u.evalLn r (ofV x)) *
        ∏ n, Real.exp (logLik sc c y n x))
      + (N : ℝ) * offset Dy Dx := by
  rw [C11_evidence_offset hbe u hu uf sc c hc y r]
  simp only [Real.exp_add, Real.exp_sum]
  rfl

/-- **C11 (d), partial (`Dx = Dy`)**: the reported log-evidence is exactly the log marginal
likelihood `log ∫ p(x) ∏ₙ p(yₙ | x) dx`. -/
theorem C11_evidence_partial {D : Nat} (u : MeasureB R D ℝ) (hu : u.Inv) (uf : Bool)
    (sc : Fin N → Fin Rc) (c : CondB Rc D D ℝ) (hc : C10.CondOK c) (y : Arr N (Vec D ℝ))
    (r : Fin R) :
    ((u.hadamardBF be ((c.setYSel sc y).product) uf).logIntegral be).2 r =
      Real.log (∫ x : Fin D → ℝ, Real.exp (u.evalLn r (ofV x)) *
        ∏ n, Real.exp (normalLn (toM (c.M (sc n)) *ᵥ x + toV (c.b (sc n))) (toM (c.Sigma (sc n)))⁻¹
          (Real.log (toM (c.Sigma (sc n))).det) (toV (y n)))) := by
  rw [C11_evidence_offset_prod hbe u hu uf sc c hc y r]
  simp [offset, logLik]

/-- the evidence does not depend on the order of the observations either -/
theorem C11_evidence_order_independent (u : MeasureB R Dx ℝ) (hu : u.Inv) (uf uf' : Bool)
    (sc : Fin N → Fin Rc) (c : CondB Rc Dy Dx ℝ) (hc : C10.CondOK c) (y : Arr N (Vec Dy ℝ))
    (σ : Equiv.Perm (Fin N)) (r : Fin R) :
    ((u.hadamardBF be ((c.setYSel (sc ∘ σ) (tab fun n => y (σ n))).product) uf).logIntegral be).2 r =
      ((u.hadamardBF be ((c.setYSel sc y).product) uf').logIntegral be).2 r := by
  have h : ∀ x : Fin Dx → ℝ,
      (u.hadamardBF be ((c.setYSel (sc ∘ σ) (tab fun n => y (σ n))).product) uf).evalLn r (ofV x) =
        (u.hadamardBF be ((c.setYSel sc y).product) uf').evalLn r (ofV x) := by
    intro x
    rw [C01.C01_hadamard_bcast_factor, C01.C01_hadamard_bcast_factor, C11_order_independent]
  rw [C02.C02_log_integral hbe (C11_posterior_inv hbe u hu uf (sc ∘ σ) c hc _) r,
    C02.C02_log_integral hbe (C11_posterior_inv hbe u hu uf' sc c hc y) r]
  simp only [h]

/-! ## non-vacuity -/

/-- a concrete conditional with `Dy = 2 ≠ Dx = 1` (so the offset is visible), a concrete prior, three
observations and a backend satisfying the contract: the hypotheses are satisfiable and the
evidence statement applies. -/
example : ∃ (be : Backend ℝ) (c : CondB 1 2 1 ℝ) (u : MeasureB 1 1 ℝ), be.Spec ∧ C10.CondOK c ∧ u.Inv ∧
    c.M 0 1 0 = 2 ∧
    ∀ y : Arr 3 (Vec 2 ℝ),
      ((u.hadamardBF be ((c.setYSel (fun _ => 0) y).product) true).logIntegral be).2 0 =
        Real.log (∫ x : Fin 1 → ℝ, Real.exp (u.evalLn 0 (ofV x)) *
          ∏ n, Real.exp (logLik (fun _ => 0) c y n x)) + (3 : ℕ) * offset 2 1 := by
  let c : CondB 1 2 1 ℝ := ⟨false, tab fun _ => ofM !![1; 2], tab fun _ => zeroV, tab fun _ => eye,
    tab fun _ => eye, tab fun _ => 0⟩
  let u : MeasureB 1 1 ℝ := MeasureB.mk0 .measure (tab fun _ => eye) (tab fun _ => zeroV) (tab fun _ => 0)
  have hc : C10.CondOK c := by
    refine ⟨fun r => ?_, fun r => ?_, fun r => ?_⟩
    · simp only [c, tab_apply, toM_eye]; exact Matrix.PosDef.one
    · simp [c]
    · simp [c]
  have hu : u.Inv := by
    apply inv_mk0
    · intro r; simp only [tab_apply, toM_eye]; exact Matrix.PosDef.one
    · simp [MCls.isDiag]
  refine ⟨Backend.sat, c, u, Backend.sat_spec, hc, hu, by simp [c, ofM], fun y => ?_⟩
  exact C11_evidence_offset_prod Backend.sat_spec u hu true _ c hc y 0

#print axioms C11_likelihood_product
#print axioms C11_order_independent
#print axioms C11_posterior_order_independent
#print axioms C11_sequential
#print axioms C11_sequential_eq_batch
#print axioms C11_posterior_route_c
#print axioms C11_posterior_normalized
#print axioms C11_evidence_offset
#print axioms C11_evidence_partial
#print axioms C11_evidence_order_independent

end GT.Props.C11
