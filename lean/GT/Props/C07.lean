import GT.Props.C10
import GT.Math.Block
/-!
# C07 — `affine_joint_transformation` is the chain rule `p(x, y) = p(y|x) p(x)`

For a linear-Gaussian conditional `c` (`y | x ~ N(M x + b, Σy)`) and a prior density `p`
(`x ~ N(μ, Σx)`), component `k` of `c.affineJoint be p` evaluated at the stacked point `(x, y)` is
`ln N(y; M x + b, Σy) + ln N(x; μ, Σx)` — for every batch size, every dimension (both branches of
the `ln_det_Sigma` computation `if Dy < Dx`), every point.  The same for the identity-mean class.

Structure: pure matrix facts about the joint covariance `JS` / precision `JL` (Mathlib only), a
generic statement about `mkPdf` called with "joint-shaped" arguments (`mkPdf_joint_args`,
`mkPdf_joint_evalLn`), and its two instances `CondB.affineJoint`, `CondIdB.affineJoint`.
-/
namespace GT.Props.C07
open GT Matrix

variable {R Rc Rx D Dx Dy : Nat}

/-! ## what every constructed prior density satisfies -/

/-- a well-formed density view: positive definite covariance with matching precision,
log-determinant, natural mean, normaliser (what `mkPdf` establishes) -/
structure PdfOK (p : PdfV R D ℝ) : Prop where
  posDef : ∀ r, (toM (p.Sigma r)).PosDef
  lambda : ∀ r, toM (p.Lambda r) = (toM (p.Sigma r))⁻¹
  lnDet : ∀ r, p.lnDetSigma r = Real.log (toM (p.Sigma r)).det
  nu : ∀ r, toV (p.nu r) = toM (p.Lambda r) *ᵥ toV (p.mu r)
  lnBeta : ∀ r, p.lnBeta r = -p.lnZ r
  lnZ : ∀ r, p.lnZ r = lnZRef (toM (p.Lambda r)) (toV (p.nu r))

/-- a measure whose natural parameters are those of `N(μ, S)` evaluates to the normal log-density
(the algebra of `mkPdf_evalLn`) -/
theorem evalLn_of_params (m : MeasureB R D ℝ) (r : Fin R) (S : Matrix (Fin D) (Fin D) ℝ)
    (μ : Fin D → ℝ) (hS : S.PosDef) (hL : toM (m.Lambda r) = S⁻¹) (hnu : toV (m.nu r) = S⁻¹ *ᵥ μ)
    (hlb : m.lnBeta r = -lnZRef S⁻¹ (S⁻¹ *ᵥ μ)) (y : Fin D → ℝ) :
    m.evalLn r (ofV y) = normalLn μ S⁻¹ (Real.log S.det) y := by
  have hSu : IsUnit S.det := hS.det_pos.ne'.isUnit
  set Λ := S⁻¹ with hΛ
  have hΛPD : Λ.PosDef := hS.inv
  have hsym : Λᵀ = Λ := by
    rw [← Matrix.conjTranspose_eq_transpose_of_trivial]; exact hΛPD.isHermitian
  rw [Props.C02.evalLn_eq, hL, hnu, hlb]
  simp only [normalLn, lnZRef]
  have hΛinv : Λ⁻¹ = S := by rw [hΛ, Matrix.nonsing_inv_nonsing_inv _ hSu]
  have hdet : Real.log Λ.det = -Real.log S.det := by
    rw [hΛ, Matrix.det_nonsing_inv, Ring.inverse_eq_inv', Real.log_inv]
  have h1 : (Λ *ᵥ μ) ⬝ᵥ Λ⁻¹ *ᵥ (Λ *ᵥ μ) = μ ⬝ᵥ Λ *ᵥ μ := by
    rw [Matrix.mulVec_mulVec, hΛinv, hΛ, Matrix.mul_nonsing_inv _ hSu, Matrix.one_mulVec,
      ← hΛ, Matrix.dotProduct_mulVec, ← Matrix.mulVec_transpose, hsym, dotProduct_comm]
  rw [h1, hdet]
  have h2 : (y - μ) ⬝ᵥ Λ *ᵥ (y - μ) = y ⬝ᵥ Λ *ᵥ y - 2 * ((Λ *ᵥ μ) ⬝ᵥ y) + μ ⬝ᵥ Λ *ᵥ μ := by
    have hc : y ⬝ᵥ Λ *ᵥ μ = (Λ *ᵥ μ) ⬝ᵥ y := dotProduct_comm _ _
    have hc' : μ ⬝ᵥ Λ *ᵥ y = (Λ *ᵥ μ) ⬝ᵥ y := by
      rw [Matrix.dotProduct_mulVec, ← Matrix.mulVec_transpose, hsym]
    simp only [Matrix.mulVec_sub, sub_dotProduct, dotProduct_sub, hc, hc']
    ring
  rw [h2]
  ring

/-- **a well-formed prior evaluates to the normal log-density** -/
theorem PdfOK.evalLn_eq {p : PdfV R D ℝ} (hp : PdfOK p) (r : Fin R) (x : Fin D → ℝ) :
    p.evalLn r (ofV x) =
      normalLn (toV (p.mu r)) (toM (p.Sigma r))⁻¹ (Real.log (toM (p.Sigma r)).det) x := by
  have hnu : toV (p.nu r) = (toM (p.Sigma r))⁻¹ *ᵥ toV (p.mu r) := by rw [hp.nu r, hp.lambda r]
  have hlb : p.lnBeta r = -lnZRef (toM (p.Sigma r))⁻¹ ((toM (p.Sigma r))⁻¹ *ᵥ toV (p.mu r)) := by
    rw [hp.lnBeta r, hp.lnZ r, hnu, hp.lambda r]
  exact evalLn_of_params p.toMeasure r _ _ (hp.posDef r) (hp.lambda r) hnu hlb x

/-! ## the joint covariance and precision (pure matrix facts) -/

/-- joint covariance `[[Sx, Sx Mᵀ], [M Sx, Sy + M Sx Mᵀ]]` on `Fin (Dx + Dy)` -/
noncomputable def JS (Sx : Matrix (Fin Dx) (Fin Dx) ℝ) (Sy : Matrix (Fin Dy) (Fin Dy) ℝ)
    (M : Matrix (Fin Dy) (Fin Dx) ℝ) : Matrix (Fin (Dx + Dy)) (Fin (Dx + Dy)) ℝ :=
  Matrix.reindex finSumFinEquiv finSumFinEquiv
    (fromBlocks Sx (Sx * Mᵀ) (M * Sx) (Sy + M * Sx * Mᵀ))

/-- joint precision `[[Lx + Mᵀ Ly M, −Mᵀ Ly], [−Ly M, Ly]]` on `Fin (Dx + Dy)` -/
noncomputable def JL (Lx : Matrix (Fin Dx) (Fin Dx) ℝ) (Ly : Matrix (Fin Dy) (Fin Dy) ℝ)
    (M : Matrix (Fin Dy) (Fin Dx) ℝ) : Matrix (Fin (Dx + Dy)) (Fin (Dx + Dy)) ℝ :=
  Matrix.reindex finSumFinEquiv finSumFinEquiv
    (fromBlocks (Lx + Mᵀ * Ly * M) (-(Mᵀ * Ly)) (-(Ly * M)) Ly)

theorem posDef_transpose {n : Type*} [Fintype n] {A : Matrix n n ℝ} (h : A.PosDef) : Aᵀ = A := by
  rw [← Matrix.conjTranspose_eq_transpose_of_trivial]; exact h.isHermitian

/-- the quadratic form of the joint precision splits:
`zᵀ Λ z = uᵀ Lx u + (v − M u)ᵀ Ly (v − M u)` for `z = (u, v)` -/
theorem quad_fromBlocks_prec (Lx : Matrix (Fin Dx) (Fin Dx) ℝ) (Ly : Matrix (Fin Dy) (Fin Dy) ℝ)
    (M : Matrix (Fin Dy) (Fin Dx) ℝ) (u : Fin Dx → ℝ) (v : Fin Dy → ℝ) :
    Sum.elim u v ⬝ᵥ fromBlocks (Lx + Mᵀ * Ly * M) (-(Mᵀ * Ly)) (-(Ly * M)) Ly *ᵥ Sum.elim u v =
      u ⬝ᵥ Lx *ᵥ u + (v - M *ᵥ u) ⬝ᵥ Ly *ᵥ (v - M *ᵥ u) := by
  have h2 : ∀ w : Fin Dy → ℝ, u ⬝ᵥ (Mᵀ * Ly) *ᵥ w = (M *ᵥ u) ⬝ᵥ Ly *ᵥ w := by
    intro w
    rw [← Matrix.mulVec_mulVec, Matrix.dotProduct_mulVec, Matrix.vecMul_transpose]
  have h1 : u ⬝ᵥ (Mᵀ * Ly * M) *ᵥ u = (M *ᵥ u) ⬝ᵥ Ly *ᵥ (M *ᵥ u) := by
    rw [← Matrix.mulVec_mulVec, h2]
  have h3 : v ⬝ᵥ (Ly * M) *ᵥ u = v ⬝ᵥ Ly *ᵥ (M *ᵥ u) := by
    rw [Matrix.mulVec_mulVec]
  rw [fromBlocks_mulVec, sumElim_dotProduct_sumElim]
  simp only [Sum.elim_comp_inl, Sum.elim_comp_inr, Matrix.add_mulVec, Matrix.neg_mulVec,
    dotProduct_add, dotProduct_neg, h1, h2, h3, Matrix.mulVec_sub, sub_dotProduct, dotProduct_sub]
  ring

/-- the joint precision of two positive definite precisions is positive definite -/
theorem posDef_fromBlocks_prec {Lx : Matrix (Fin Dx) (Fin Dx) ℝ} {Ly : Matrix (Fin Dy) (Fin Dy) ℝ}
    (hLx : Lx.PosDef) (hLy : Ly.PosDef) (M : Matrix (Fin Dy) (Fin Dx) ℝ) :
    (fromBlocks (Lx + Mᵀ * Ly * M) (-(Mᵀ * Ly)) (-(Ly * M)) Ly).PosDef := by
  have hLxs := posDef_transpose hLx
  have hLys := posDef_transpose hLy
  apply Matrix.PosDef.of_dotProduct_mulVec_pos
  · rw [Matrix.IsHermitian, Matrix.conjTranspose_eq_transpose_of_trivial, fromBlocks_transpose]
    congr 1
    · simp only [transpose_add, transpose_mul, transpose_transpose, hLxs, hLys, Matrix.mul_assoc]
    · simp only [transpose_neg, transpose_mul, hLys]
    · simp only [transpose_neg, transpose_mul, transpose_transpose, hLys]
  · intro z hz
    obtain ⟨u, v, rfl⟩ : ∃ u v, z = Sum.elim u v :=
      ⟨z ∘ Sum.inl, z ∘ Sum.inr, (Sum.elim_comp_inl_inr z).symm⟩
    rw [star_trivial, quad_fromBlocks_prec]
    by_cases hu : u = 0
    · subst hu
      have hv : v ≠ 0 := by
        rintro rfl
        apply hz
        ext i
        cases i <;> rfl
      have := hLy.dotProduct_mulVec_pos hv
      rw [star_trivial] at this
      simpa using this
    · have h1 := hLx.dotProduct_mulVec_pos hu
      rw [star_trivial] at h1
      have h2 := hLy.posSemidef.dotProduct_mulVec_nonneg (v - M *ᵥ u)
      rw [star_trivial] at h2
      exact add_pos_of_pos_of_nonneg h1 h2

theorem JL_mul_JS {Sx : Matrix (Fin Dx) (Fin Dx) ℝ} {Sy : Matrix (Fin Dy) (Fin Dy) ℝ}
    (hSx : Sx.PosDef) (hSy : Sy.PosDef) (M : Matrix (Fin Dy) (Fin Dx) ℝ) :
    JL Sx⁻¹ Sy⁻¹ M * JS Sx Sy M = 1 := by
  have hx : Sx * Sx⁻¹ = 1 := Matrix.mul_nonsing_inv _ hSx.det_pos.ne'.isUnit
  have hy : Sy * Sy⁻¹ = 1 := Matrix.mul_nonsing_inv _ hSy.det_pos.ne'.isUnit
  simp only [JL, JS, reindex_apply, submatrix_mul_equiv, Math.joint_prec_mul_cov _ _ _ _ M hx hy,
    submatrix_one_equiv]

/-- the joint precision is the inverse of the joint covariance -/
theorem JS_inv {Sx : Matrix (Fin Dx) (Fin Dx) ℝ} {Sy : Matrix (Fin Dy) (Fin Dy) ℝ}
    (hSx : Sx.PosDef) (hSy : Sy.PosDef) (M : Matrix (Fin Dy) (Fin Dx) ℝ) :
    (JS Sx Sy M)⁻¹ = JL Sx⁻¹ Sy⁻¹ M :=
  Matrix.inv_eq_left_inv (JL_mul_JS hSx hSy M)

theorem JL_posDef {Lx : Matrix (Fin Dx) (Fin Dx) ℝ} {Ly : Matrix (Fin Dy) (Fin Dy) ℝ}
    (hLx : Lx.PosDef) (hLy : Ly.PosDef) (M : Matrix (Fin Dy) (Fin Dx) ℝ) : (JL Lx Ly M).PosDef := by
  rw [JL, reindex_apply]
  exact (posDef_fromBlocks_prec hLx hLy M).submatrix finSumFinEquiv.symm.injective

/-- the joint covariance is positive definite -/
theorem JS_posDef {Sx : Matrix (Fin Dx) (Fin Dx) ℝ} {Sy : Matrix (Fin Dy) (Fin Dy) ℝ}
    (hSx : Sx.PosDef) (hSy : Sy.PosDef) (M : Matrix (Fin Dy) (Fin Dx) ℝ) : (JS Sx Sy M).PosDef := by
  have h : (JL Sx⁻¹ Sy⁻¹ M)⁻¹ = JS Sx Sy M := Matrix.inv_eq_right_inv (JL_mul_JS hSx hSy M)
  rw [← h]
  exact (JL_posDef hSx.inv hSy.inv M).inv

/-- `det Σ_joint = det Σx · det Σy` -/
theorem JS_det {Sx : Matrix (Fin Dx) (Fin Dx) ℝ} (hSx : Sx.PosDef) (Sy : Matrix (Fin Dy) (Fin Dy) ℝ)
    (M : Matrix (Fin Dy) (Fin Dx) ℝ) : (JS Sx Sy M).det = Sx.det * Sy.det := by
  rw [JS, det_reindex_self]
  exact Math.joint_cov_det _ _ _ hSx.det_pos.ne'

theorem quad_JL (Lx : Matrix (Fin Dx) (Fin Dx) ℝ) (Ly : Matrix (Fin Dy) (Fin Dy) ℝ)
    (M : Matrix (Fin Dy) (Fin Dx) ℝ) (u : Fin Dx → ℝ) (v : Fin Dy → ℝ) :
    (Sum.elim u v ∘ finSumFinEquiv.symm) ⬝ᵥ JL Lx Ly M *ᵥ (Sum.elim u v ∘ finSumFinEquiv.symm) =
      u ⬝ᵥ Lx *ᵥ u + (v - M *ᵥ u) ⬝ᵥ Ly *ᵥ (v - M *ᵥ u) := by
  have h : (Sum.elim u v ∘ ⇑(finSumFinEquiv (m := Dx) (n := Dy)).symm) ∘
      ⇑(finSumFinEquiv (m := Dx) (n := Dy)).symm.symm = Sum.elim u v := by
    ext i; simp
  rw [JL, reindex_apply, submatrix_mulVec_equiv, h, comp_equiv_dotProduct_comp_equiv,
    quad_fromBlocks_prec]

/-- **the chain rule in the log domain**: `ln N((x,y); μ_joint, Σ_joint) = ln N(y; Mx+b, Σy) +
ln N(x; μ, Σx)` -/
theorem normalLn_joint {Sx : Matrix (Fin Dx) (Fin Dx) ℝ} {Sy : Matrix (Fin Dy) (Fin Dy) ℝ}
    (hSx : Sx.PosDef) (hSy : Sy.PosDef) (M : Matrix (Fin Dy) (Fin Dx) ℝ) (μ : Fin Dx → ℝ)
    (b : Fin Dy → ℝ) (x : Fin Dx → ℝ) (y : Fin Dy → ℝ) :
    normalLn (Sum.elim μ (M *ᵥ μ + b) ∘ finSumFinEquiv.symm) (JS Sx Sy M)⁻¹
        (Real.log (JS Sx Sy M).det) (Sum.elim x y ∘ finSumFinEquiv.symm) =
      normalLn (M *ᵥ x + b) Sy⁻¹ (Real.log Sy.det) y + normalLn μ Sx⁻¹ (Real.log Sx.det) x := by
  rw [JS_inv hSx hSy, JS_det hSx, Real.log_mul hSx.det_pos.ne' hSy.det_pos.ne']
  have hz : (Sum.elim x y ∘ ⇑(finSumFinEquiv (m := Dx) (n := Dy)).symm) -
      (Sum.elim μ (M *ᵥ μ + b) ∘ ⇑(finSumFinEquiv (m := Dx) (n := Dy)).symm) =
      Sum.elim (x - μ) (y - (M *ᵥ μ + b)) ∘ ⇑(finSumFinEquiv (m := Dx) (n := Dy)).symm := by
    ext i
    simp only [Pi.sub_apply, Function.comp_apply]
    rcases finSumFinEquiv.symm i with j | j <;> simp
  simp only [normalLn]
  rw [hz, quad_JL]
  have hw : y - (M *ᵥ μ + b) - M *ᵥ (x - μ) = y - (M *ᵥ x + b) := by
    rw [Matrix.mulVec_sub]; abel
  rw [hw]
  push_cast
  ring

/-! ## `mkPdf` called with joint-shaped arguments -/

section mk
variable {be : Backend ℝ} (hbe : be.Spec)

/-- arguments of the shape built by the affine joint transformations are legal constructor
arguments -/
theorem mkPdf_joint_args (Sig Lam : Arr R (Mat (Dx + Dy) (Dx + Dy) ℝ)) (ld : Arr R ℝ)
    (Sx : Fin R → Matrix (Fin Dx) (Fin Dx) ℝ) (Sy : Fin R → Matrix (Fin Dy) (Fin Dy) ℝ)
    (M : Fin R → Matrix (Fin Dy) (Fin Dx) ℝ)
    (hSx : ∀ r, (Sx r).PosDef) (hSy : ∀ r, (Sy r).PosDef)
    (hSig : ∀ r, toM (Sig r) = JS (Sx r) (Sy r) (M r))
    (hLam : ∀ r, toM (Lam r) = JL (Sx r)⁻¹ (Sy r)⁻¹ (M r))
    (hld : ∀ r, ld r = Real.log (Sx r).det + Real.log (Sy r).det) :
    Props.C02.PdfArgsOK false Sig (some Lam) (some ld) := by
  refine ⟨fun r => ?_, by simp, ?_, ?_⟩
  · rw [hSig r]; exact JS_posDef (hSx r) (hSy r) (M r)
  · intro L hL r
    simp only [Option.some.injEq] at hL; subst hL
    rw [hLam r, hSig r, JS_inv (hSx r) (hSy r)]
  · intro L l _ hl r
    simp only [Option.some.injEq] at hl; subst hl
    rw [hld r, hSig r, JS_det (hSx r), Real.log_mul (hSx r).det_pos.ne' (hSy r).det_pos.ne']

include hbe in
/-- a density constructed from joint-shaped arguments evaluates to `ln p(y|x) + ln p(x)` -/
theorem mkPdf_joint_evalLn (Sig Lam : Arr R (Mat (Dx + Dy) (Dx + Dy) ℝ)) (mu : Arr R (Vec (Dx + Dy) ℝ))
    (ld : Arr R ℝ)
    (Sx : Fin R → Matrix (Fin Dx) (Fin Dx) ℝ) (Sy : Fin R → Matrix (Fin Dy) (Fin Dy) ℝ)
    (M : Fin R → Matrix (Fin Dy) (Fin Dx) ℝ) (μ : Fin R → Fin Dx → ℝ) (b : Fin R → Fin Dy → ℝ)
    (hSx : ∀ r, (Sx r).PosDef) (hSy : ∀ r, (Sy r).PosDef)
    (hSig : ∀ r, toM (Sig r) = JS (Sx r) (Sy r) (M r))
    (hLam : ∀ r, toM (Lam r) = JL (Sx r)⁻¹ (Sy r)⁻¹ (M r))
    (hmu : ∀ r, toV (mu r) = Sum.elim (μ r) (M r *ᵥ μ r + b r) ∘ finSumFinEquiv.symm)
    (hld : ∀ r, ld r = Real.log (Sx r).det + Real.log (Sy r).det)
    (r : Fin R) (x : Fin Dx → ℝ) (y : Fin Dy → ℝ) :
    (mkPdf be false Sig mu (some Lam) (some ld)).evalLn r (ofV (Sum.elim x y ∘ finSumFinEquiv.symm)) =
      normalLn (M r *ᵥ x + b r) (Sy r)⁻¹ (Real.log (Sy r).det) y
        + normalLn (μ r) (Sx r)⁻¹ (Real.log (Sx r).det) x := by
  rw [mkPdf_evalLn hbe false Sig mu (some Lam) (some ld)
    (mkPdf_joint_args Sig Lam ld Sx Sy M hSx hSy hSig hLam hld), hSig r, hmu r,
    normalLn_joint (hSx r) (hSy r)]

end mk

/-! ## `CondB.affineJoint` -/

/-- the `ln_det_Sigma` handed to the constructor by `affine_joint_transformation`
(both branches of `if self.Dy < p_x.D`) -/
def jointLnDet (be : Backend ℝ) (Sx Lx : Mat Dx Dx ℝ) (ldx : ℝ) (Sy Ly : Mat Dy Dy ℝ) (ldy : ℝ)
    (M : Mat Dy Dx ℝ) : ℝ :=
  if Dy < Dx then
    ldx + be.slogdet (msub (madd Sy (mmul (mmul M Sx) (transpose M)))
      (mmul (mmul (mmul M Sx) Lx) (transpose (mmul M Sx))))
  else
    -(-ldy + be.slogdet (msub (madd Lx (mmul (transpose M) (mmul (transpose Ly) M)))
      (mmul (transpose (mneg (mmul (transpose Ly) M))) (mmul Sy (mneg (mmul (transpose Ly) M))))))

/-- the constructor call made by `CondB.affineJoint`, with named arguments -/
theorem affineJoint_eq (be : Backend ℝ) (c : CondB Rc Dy Dx ℝ) (p : PdfV Rx Dx ℝ) :
    c.affineJoint be p =
      mkPdf be false
        (tab fun k => jointSigma (p.Sigma (unflatR k)) (c.Sigma (unflatL k)) (c.M (unflatL k)))
        (tab fun k => vappend (p.mu (unflatR k)) (c.condMu (unflatL k) (p.mu (unflatR k))))
        (some (tab fun k => jointLambda (p.Lambda (unflatR k)) (c.Lambda (unflatL k)) (c.M (unflatL k))))
        (some (tab fun k => jointLnDet be (p.Sigma (unflatR k)) (p.Lambda (unflatR k))
          (p.lnDetSigma (unflatR k)) (c.Sigma (unflatL k)) (c.Lambda (unflatL k))
          (c.lnDetSigma (unflatL k)) (c.M (unflatL k)))) := by
  simp only [CondB.affineJoint, tab_apply]
  rfl

/-- **both branches of the supplied `ln_det_Sigma` are `ln det Σx + ln det Σy`** -/
theorem jointLnDet_spec {be : Backend ℝ} (hbe : be.Spec) (Sx Lx : Mat Dx Dx ℝ) (ldx : ℝ)
    (Sy Ly : Mat Dy Dy ℝ) (ldy : ℝ) (M : Mat Dy Dx ℝ)
    (hSx : (toM Sx).PosDef) (hLx : toM Lx = (toM Sx)⁻¹) (hldx : ldx = Real.log (toM Sx).det)
    (hSy : (toM Sy).PosDef) (hLy : toM Ly = (toM Sy)⁻¹) (hldy : ldy = Real.log (toM Sy).det) :
    jointLnDet be Sx Lx ldx Sy Ly ldy M = Real.log (toM Sx).det + Real.log (toM Sy).det := by
  have hSxs := posDef_transpose hSx
  have hLys : (toM Ly)ᵀ = toM Ly := by rw [hLy]; exact posDef_transpose hSy.inv
  have hSxu : IsUnit (toM Sx).det := hSx.det_pos.ne'.isUnit
  have hSyu : IsUnit (toM Sy).det := hSy.det_pos.ne'.isUnit
  unfold jointLnDet
  split
  · -- `Dy < Dx`: the Schur complement `Σy_joint − C Λx Cᵀ` is `Σy`
    have h : toM (msub (madd Sy (mmul (mmul M Sx) (transpose M)))
        (mmul (mmul (mmul M Sx) Lx) (transpose (mmul M Sx)))) = toM Sy := by
      simp only [toM_msub, toM_madd, toM_mmul, toM_transpose, transpose_mul, hSxs, hLx]
      rw [Matrix.mul_nonsing_inv_cancel_right _ _ hSxu, ← Matrix.mul_assoc, add_sub_cancel_right]
    rw [hbe.slogdet, h, abs_of_pos hSy.det_pos, hldx]
  · -- `Dx ≤ Dy`: the Schur complement `Λx_joint − L Σy Lᵀ` is `Λx`
    have h : toM (msub (madd Lx (mmul (transpose M) (mmul (transpose Ly) M)))
        (mmul (transpose (mneg (mmul (transpose Ly) M))) (mmul Sy (mneg (mmul (transpose Ly) M))))) =
        toM Lx := by
      simp only [toM_msub, toM_madd, toM_mmul, toM_transpose, toM_mneg, transpose_mul, transpose_neg,
        hLys, Matrix.neg_mul, Matrix.mul_neg, neg_neg, Matrix.mul_assoc]
      rw [hLy, Matrix.mul_nonsing_inv_cancel_left _ _ hSyu, add_sub_cancel_right]
    have hLxPD : (toM Lx).PosDef := by rw [hLx]; exact hSx.inv
    rw [hbe.slogdet, h, abs_of_pos hLxPD.det_pos, hLx, Matrix.det_nonsing_inv, Ring.inverse_eq_inv',
      Real.log_inv, hldy]
    ring

section joint
variable {be : Backend ℝ} (hbe : be.Spec)
include hbe

/-- **C07, parameters**: the mean, covariance, precision and log-determinant that
`affine_joint_transformation` hands to the density constructor are those of the joint
`N((μ, Mμ+b), [[Σx, Σx Mᵀ], [M Σx, Σy + M Σx Mᵀ]])`, for both branches of `if Dy < Dx`; the supplied
precision is the inverse of the supplied covariance, the supplied `ln_det_Sigma` its
log-determinant, and the result satisfies the invariant. -/
theorem C07_joint_params (c : CondB Rc Dy Dx ℝ) (hc : C10.CondOK c) (p : PdfV Rx Dx ℝ) (hp : PdfOK p)
    (k : Fin (Rc * Rx)) :
    let ci : Fin Rc := unflatL k
    let xi : Fin Rx := unflatR k
    let Sig := jointSigma (p.Sigma xi) (c.Sigma ci) (c.M ci)
    let Lam := jointLambda (p.Lambda xi) (c.Lambda ci) (c.M ci)
    let ld := jointLnDet be (p.Sigma xi) (p.Lambda xi) (p.lnDetSigma xi) (c.Sigma ci) (c.Lambda ci)
      (c.lnDetSigma ci) (c.M ci)
    toM Sig = JS (toM (p.Sigma xi)) (toM (c.Sigma ci)) (toM (c.M ci)) ∧
    (toM Sig).PosDef ∧
    toM Lam = (toM Sig)⁻¹ ∧
    ld = Real.log (toM Sig).det ∧
    ld = Real.log (toM (p.Sigma xi)).det + Real.log (toM (c.Sigma ci)).det ∧
    toV (vappend (p.mu xi) (c.condMu ci (p.mu xi))) =
      Sum.elim (toV (p.mu xi)) (toM (c.M ci) *ᵥ toV (p.mu xi) + toV (c.b ci)) ∘ finSumFinEquiv.symm := by
  intro ci xi Sig Lam ld
  have hSx := hp.posDef xi
  have hSy := hc.posDef ci
  have hSig : toM Sig = JS (toM (p.Sigma xi)) (toM (c.Sigma ci)) (toM (c.M ci)) :=
    toM_jointSigma _ _ _ (posDef_transpose hSx)
  have hLys : (toM (c.Lambda ci))ᵀ = toM (c.Lambda ci) := by
    rw [hc.lambda ci]; exact posDef_transpose hSy.inv
  have hLam : toM Lam = JL (toM (p.Sigma xi))⁻¹ (toM (c.Sigma ci))⁻¹ (toM (c.M ci)) := by
    simp only [Lam]
    rw [toM_jointLambda _ _ _ hLys, hp.lambda xi, hc.lambda ci]
    rfl
  have hld : ld = Real.log (toM (p.Sigma xi)).det + Real.log (toM (c.Sigma ci)).det :=
    jointLnDet_spec hbe _ _ _ _ _ _ _ hSx (hp.lambda xi) (hp.lnDet xi) hSy (hc.lambda ci) (hc.lnDet ci)
  refine ⟨hSig, ?_, ?_, ?_, hld, ?_⟩
  · rw [hSig]; exact JS_posDef hSx hSy _
  · rw [hLam, hSig, JS_inv hSx hSy]
  · rw [hld, hSig, JS_det hSx, Real.log_mul hSx.det_pos.ne' hSy.det_pos.ne']
  · rw [toV_vappend]
    simp only [CondB.condMu, toV_vadd, toV_mulVec]

/-- the constructor arguments of `affine_joint_transformation` are legal -/
theorem affineJoint_args (c : CondB Rc Dy Dx ℝ) (hc : C10.CondOK c) (p : PdfV Rx Dx ℝ) (hp : PdfOK p) :
    Props.C02.PdfArgsOK false
      (tab fun k : Fin (Rc * Rx) => jointSigma (p.Sigma (unflatR k)) (c.Sigma (unflatL k)) (c.M (unflatL k)))
      (some (tab fun k => jointLambda (p.Lambda (unflatR k)) (c.Lambda (unflatL k)) (c.M (unflatL k))))
      (some (tab fun k => jointLnDet be (p.Sigma (unflatR k)) (p.Lambda (unflatR k))
          (p.lnDetSigma (unflatR k)) (c.Sigma (unflatL k)) (c.Lambda (unflatL k))
          (c.lnDetSigma (unflatL k)) (c.M (unflatL k)))) := by
  refine ⟨fun k => ?_, by simp, ?_, ?_⟩
  · simp only [tab_apply]; exact (C07_joint_params hbe c hc p hp k).2.1
  · intro L hL k
    simp only [Option.some.injEq] at hL; subst hL
    simp only [tab_apply]; exact (C07_joint_params hbe c hc p hp k).2.2.1
  · intro L l _ hl k
    simp only [Option.some.injEq] at hl; subst hl
    simp only [tab_apply]; exact (C07_joint_params hbe c hc p hp k).2.2.2.1

/-- **C07, invariant**: the joint density satisfies the consistency invariant -/
theorem C07_joint_inv (c : CondB Rc Dy Dx ℝ) (hc : C10.CondOK c) (p : PdfV Rx Dx ℝ) (hp : PdfOK p) :
    (c.affineJoint be p).Inv := by
  rw [affineJoint_eq]
  exact Props.C02.mkPdf_inv hbe _ _ _ _ _ (affineJoint_args hbe c hc p hp)

/-- **C07, natural parameters of the returned object**: precision = joint precision
`[[Λx + MᵀΛyM, −MᵀΛy], [−ΛyM, Λy]]` = inverse joint covariance -/
theorem C07_joint_Lambda (c : CondB Rc Dy Dx ℝ) (hc : C10.CondOK c) (p : PdfV Rx Dx ℝ) (hp : PdfOK p)
    (k : Fin (Rc * Rx)) :
    toM ((c.affineJoint be p).Lambda k) =
      JL (toM (p.Sigma (unflatR k)))⁻¹ (toM (c.Sigma (unflatL k)))⁻¹ (toM (c.M (unflatL k))) := by
  rw [affineJoint_eq]
  have h := (mkPdf_params hbe false _ (tab fun k : Fin (Rc * Rx) =>
      vappend (p.mu (unflatR k)) (c.condMu (unflatL k) (p.mu (unflatR k)))) _ _
    (affineJoint_args hbe c hc p hp) k).1
  rw [h]
  simp only [tab_apply]
  rw [(C07_joint_params hbe c hc p hp k).1, JS_inv (hp.posDef _) (hc.posDef _)]

/-- **C07 (chain rule)**: `affine_joint_transformation` evaluated at the stacked point `(x, y)` is
`ln p(y|x) + ln p(x)`: component `k` pairs conditional `k / Rx` with prior component `k % Rx`. -/
theorem C07_chain_rule (c : CondB Rc Dy Dx ℝ) (hc : C10.CondOK c) (p : PdfV Rx Dx ℝ) (hp : PdfOK p)
    (k : Fin (Rc * Rx)) (x : Fin Dx → ℝ) (y : Fin Dy → ℝ) :
    (c.affineJoint be p).evalLn k (ofV (Sum.elim x y ∘ finSumFinEquiv.symm)) =
      normalLn (toM (c.M (unflatL k)) *ᵥ x + toV (c.b (unflatL k))) (toM (c.Sigma (unflatL k)))⁻¹
          (Real.log (toM (c.Sigma (unflatL k))).det) y
        + normalLn (toV (p.mu (unflatR k))) (toM (p.Sigma (unflatR k)))⁻¹
          (Real.log (toM (p.Sigma (unflatR k))).det) x := by
  rw [affineJoint_eq]
  have hLam : ∀ k : Fin (Rc * Rx),
      toM ((tab fun k : Fin (Rc * Rx) =>
        jointLambda (p.Lambda (unflatR k)) (c.Lambda (unflatL k)) (c.M (unflatL k))) k) =
      JL (toM (p.Sigma (unflatR k)))⁻¹ (toM (c.Sigma (unflatL k)))⁻¹ (toM (c.M (unflatL k))) := by
    intro k
    simp only [tab_apply]
    rw [(C07_joint_params hbe c hc p hp k).2.2.1, (C07_joint_params hbe c hc p hp k).1,
      JS_inv (hp.posDef _) (hc.posDef _)]
  exact mkPdf_joint_evalLn hbe _ _ _ _
    (fun k => toM (p.Sigma (unflatR k))) (fun k => toM (c.Sigma (unflatL k)))
    (fun k => toM (c.M (unflatL k))) (fun k => toV (p.mu (unflatR k))) (fun k => toV (c.b (unflatL k)))
    (fun k => hp.posDef _) (fun k => hc.posDef _)
    (fun k => by simp only [tab_apply]; exact (C07_joint_params hbe c hc p hp k).1)
    hLam
    (fun k => by simp only [tab_apply]; exact (C07_joint_params hbe c hc p hp k).2.2.2.2.2)
    (fun k => by simp only [tab_apply]; exact (C07_joint_params hbe c hc p hp k).2.2.2.2.1)
    k x y

/-- **C07 (chain rule, between library objects)**: `joint(x, y) = cond(x)(y) + prior(x)` in the log
domain, where `cond(x)` is `condition_on_x` at the single point `x` and `prior(x)` the prior's own
`evaluate_ln`. -/
theorem C07_chain_rule_objects (c : CondB Rc Dy Dx ℝ) (hc : C10.CondOK c) (p : PdfV Rx Dx ℝ) (hp : PdfOK p)
    (k : Fin (Rc * Rx)) (k' : Fin (Rc * 1)) (hk : unflatL k' = unflatL k)
    (x : Fin Dx → ℝ) (y : Fin Dy → ℝ) :
    (c.affineJoint be p).evalLn k (ofV (Sum.elim x y ∘ finSumFinEquiv.symm)) =
      (c.conditionOnX be (tab fun _ : Fin 1 => ofV x)).evalLn k' (ofV y)
        + p.evalLn (unflatR k) (ofV x) := by
  rw [C07_chain_rule hbe c hc p hp, C10.conditionOnX_evalLn hbe c hc, hp.evalLn_eq, hk]
  simp only [tab_apply, toV_ofV]

end joint

/-! ## `CondIdB.affineJoint` (identity mean: `M = I`, `b = 0`) -/

/-- well-formedness of an identity-mean conditional = well-formedness of the general conditional
with the same parameters -/
abbrev CondIdOK (c : CondIdB R D ℝ) : Prop := C10.CondOK c.toCond

section jointId
variable {be : Backend ℝ} (hbe : be.Spec)
include hbe

omit hbe in
/-- the constructor call made by `CondIdB.affineJoint` -/
theorem affineJointId_eq (c : CondIdB Rc D ℝ) (p : PdfV Rx D ℝ) :
    c.affineJoint be p =
      mkPdf be false
        (tab fun k => block (p.Sigma (unflatR k)) (transpose (p.Sigma (unflatR k))) (p.Sigma (unflatR k))
          (madd (c.Sigma (unflatL k)) (p.Sigma (unflatR k))))
        (tab fun k => vappend (p.mu (unflatR k)) (p.mu (unflatR k)))
        (some (tab fun k => block (madd (p.Lambda (unflatR k)) (c.Lambda (unflatL k)))
          (transpose (mneg (c.Lambda (unflatL k)))) (mneg (c.Lambda (unflatL k))) (c.Lambda (unflatL k))))
        (some (tab fun k => -(-(c.lnDetSigma (unflatL k)) +
          be.slogdet (msub (madd (p.Lambda (unflatR k)) (c.Lambda (unflatL k))) (c.Lambda (unflatL k)))))) := by
  simp only [CondIdB.affineJoint, tab_apply]

/-- **C07, identity class, parameters** -/
theorem C07_jointId_params (c : CondIdB Rc D ℝ) (hc : CondIdOK c) (p : PdfV Rx D ℝ) (hp : PdfOK p)
    (k : Fin (Rc * Rx)) :
    let ci : Fin Rc := unflatL k
    let xi : Fin Rx := unflatR k
    toM (block (p.Sigma xi) (transpose (p.Sigma xi)) (p.Sigma xi) (madd (c.Sigma ci) (p.Sigma xi))) =
      JS (toM (p.Sigma xi)) (toM (c.Sigma ci)) 1 ∧
    toM (block (madd (p.Lambda xi) (c.Lambda ci)) (transpose (mneg (c.Lambda ci))) (mneg (c.Lambda ci))
      (c.Lambda ci)) = JL (toM (p.Sigma xi))⁻¹ (toM (c.Sigma ci))⁻¹ 1 ∧
    -(-(c.lnDetSigma ci) + be.slogdet (msub (madd (p.Lambda xi) (c.Lambda ci)) (c.Lambda ci))) =
      Real.log (toM (p.Sigma xi)).det + Real.log (toM (c.Sigma ci)).det ∧
    toV (vappend (p.mu xi) (p.mu xi)) =
      Sum.elim (toV (p.mu xi)) ((1 : Matrix (Fin D) (Fin D) ℝ) *ᵥ toV (p.mu xi) + 0) ∘ finSumFinEquiv.symm := by
  intro ci xi
  have hSx := hp.posDef xi
  have hSy : (toM (c.Sigma ci)).PosDef := hc.posDef ci
  have hLy : toM (c.Lambda ci) = (toM (c.Sigma ci))⁻¹ := hc.lambda ci
  have hldy : c.lnDetSigma ci = Real.log (toM (c.Sigma ci)).det := hc.lnDet ci
  have hLys : (toM (c.Lambda ci))ᵀ = toM (c.Lambda ci) := by
    rw [hLy]; exact posDef_transpose hSy.inv
  refine ⟨?_, ?_, ?_, ?_⟩
  · simp only [JS, toM_block, toM_madd, toM_transpose, posDef_transpose hSx, transpose_one,
      Matrix.mul_one, Matrix.one_mul]
  · simp only [JL, toM_block, toM_madd, toM_mneg, toM_transpose, transpose_neg, hLys, transpose_one,
      Matrix.mul_one, Matrix.one_mul]
    rw [hp.lambda xi, hLy]
  · have h : toM (msub (madd (p.Lambda xi) (c.Lambda ci)) (c.Lambda ci)) = toM (p.Lambda xi) := by
      simp only [toM_msub, toM_madd, add_sub_cancel_right]
    have hLxPD : (toM (p.Lambda xi)).PosDef := by rw [hp.lambda xi]; exact hSx.inv
    rw [hbe.slogdet, h, abs_of_pos hLxPD.det_pos, hp.lambda xi, Matrix.det_nonsing_inv,
      Ring.inverse_eq_inv', Real.log_inv, hldy]
    ring
  · rw [toV_vappend]; simp

/-- the constructor arguments of the identity-class `affine_joint_transformation` are legal -/
theorem affineJointId_args (c : CondIdB Rc D ℝ) (hc : CondIdOK c) (p : PdfV Rx D ℝ) (hp : PdfOK p) :
    Props.C02.PdfArgsOK false
      (tab fun k : Fin (Rc * Rx) => block (p.Sigma (unflatR k)) (transpose (p.Sigma (unflatR k)))
          (p.Sigma (unflatR k)) (madd (c.Sigma (unflatL k)) (p.Sigma (unflatR k))))
      (some (tab fun k => block (madd (p.Lambda (unflatR k)) (c.Lambda (unflatL k)))
          (transpose (mneg (c.Lambda (unflatL k)))) (mneg (c.Lambda (unflatL k))) (c.Lambda (unflatL k))))
      (some (tab fun k => -(-(c.lnDetSigma (unflatL k)) +
          be.slogdet (msub (madd (p.Lambda (unflatR k)) (c.Lambda (unflatL k))) (c.Lambda (unflatL k)))))) :=
  mkPdf_joint_args _ _ _
    (fun k => toM (p.Sigma (unflatR k))) (fun k => toM (c.Sigma (unflatL k))) (fun _ => 1)
    (fun k => hp.posDef _) (fun k => hc.posDef _)
    (fun k => by simp only [tab_apply]; exact (C07_jointId_params hbe c hc p hp k).1)
    (fun k => by simp only [tab_apply]; exact (C07_jointId_params hbe c hc p hp k).2.1)
    (fun k => by simp only [tab_apply]; exact (C07_jointId_params hbe c hc p hp k).2.2.1)

/-- **C07, identity class, invariant** -/
theorem C07_jointId_inv (c : CondIdB Rc D ℝ) (hc : CondIdOK c) (p : PdfV Rx D ℝ) (hp : PdfOK p) :
    (c.affineJoint be p).Inv := by
  rw [affineJointId_eq]
  exact Props.C02.mkPdf_inv hbe _ _ _ _ _ (affineJointId_args hbe c hc p hp)

/-- **C07 (chain rule), identity-mean class**: `joint(x, y) = ln N(y; x, Σy) + ln N(x; μ, Σx)` -/
theorem C07_chain_rule_id (c : CondIdB Rc D ℝ) (hc : CondIdOK c) (p : PdfV Rx D ℝ) (hp : PdfOK p)
    (k : Fin (Rc * Rx)) (x y : Fin D → ℝ) :
    (c.affineJoint be p).evalLn k (ofV (Sum.elim x y ∘ finSumFinEquiv.symm)) =
      normalLn x (toM (c.Sigma (unflatL k)))⁻¹ (Real.log (toM (c.Sigma (unflatL k))).det) y
        + normalLn (toV (p.mu (unflatR k))) (toM (p.Sigma (unflatR k)))⁻¹
          (Real.log (toM (p.Sigma (unflatR k))).det) x := by
  rw [affineJointId_eq]
  have h := mkPdf_joint_evalLn hbe
    (tab fun k : Fin (Rc * Rx) => block (p.Sigma (unflatR k)) (transpose (p.Sigma (unflatR k)))
          (p.Sigma (unflatR k)) (madd (c.Sigma (unflatL k)) (p.Sigma (unflatR k))))
    (tab fun k => block (madd (p.Lambda (unflatR k)) (c.Lambda (unflatL k)))
          (transpose (mneg (c.Lambda (unflatL k)))) (mneg (c.Lambda (unflatL k))) (c.Lambda (unflatL k)))
    (tab fun k => vappend (p.mu (unflatR k)) (p.mu (unflatR k)))
    (tab fun k => -(-(c.lnDetSigma (unflatL k)) +
          be.slogdet (msub (madd (p.Lambda (unflatR k)) (c.Lambda (unflatL k))) (c.Lambda (unflatL k)))))
    (fun k => toM (p.Sigma (unflatR k))) (fun k => toM (c.Sigma (unflatL k))) (fun _ => 1)
    (fun k => toV (p.mu (unflatR k))) (fun _ => 0)
    (fun k => hp.posDef _) (fun k => hc.posDef _)
    (fun k => by simp only [tab_apply]; exact (C07_jointId_params hbe c hc p hp k).1)
    (fun k => by simp only [tab_apply]; exact (C07_jointId_params hbe c hc p hp k).2.1)
    (fun k => by simp only [tab_apply]; exact (C07_jointId_params hbe c hc p hp k).2.2.2)
    (fun k => by simp only [tab_apply]; exact (C07_jointId_params hbe c hc p hp k).2.2.1)
    k x y
  rw [h]
  simp only [Matrix.one_mulVec, add_zero]

/-- the identity class agrees with the general class with `M = I`, `b = 0` at every point -/
theorem C07_jointId_eq_toCond (c : CondIdB Rc D ℝ) (hc : CondIdOK c) (p : PdfV Rx D ℝ) (hp : PdfOK p)
    (k : Fin (Rc * Rx)) (x y : Fin D → ℝ) :
    (c.affineJoint be p).evalLn k (ofV (Sum.elim x y ∘ finSumFinEquiv.symm)) =
      (c.toCond.affineJoint be p).evalLn k (ofV (Sum.elim x y ∘ finSumFinEquiv.symm)) := by
  rw [C07_chain_rule_id hbe c hc p hp, C07_chain_rule hbe c.toCond hc p hp]
  simp [CondIdB.toCond]

end jointId

/-! ## non-vacuity -/

/-- a standard-normal prior view -/
noncomputable def stdPdf (R D : Nat) (μ : Vec D ℝ) : PdfV R D ℝ :=
  ⟨false, tab fun _ => eye, tab fun _ => μ, tab fun _ => -lnZRef 1 (toV μ), tab fun _ => eye,
    tab fun _ => 0, tab fun _ => μ, tab fun _ => lnZRef 1 (toV μ)⟩

theorem stdPdf_ok (R D : Nat) (μ : Vec D ℝ) : PdfOK (stdPdf R D μ) := by
  refine ⟨?_, ?_, ?_, ?_, ?_, ?_⟩ <;> intro r <;> simp [stdPdf, Matrix.PosDef.one]

/-- a conditional with unit noise covariance and arbitrary `M`, `b` -/
def stdCond (R : Nat) (M : Mat Dy Dx ℝ) (b : Vec Dy ℝ) : CondB R Dy Dx ℝ :=
  ⟨false, tab fun _ => M, tab fun _ => b, tab fun _ => eye, tab fun _ => eye, tab fun _ => 0⟩

theorem stdCond_ok (R : Nat) (M : Mat Dy Dx ℝ) (b : Vec Dy ℝ) : C10.CondOK (stdCond R M b) := by
  refine ⟨?_, ?_, ?_⟩ <;> intro r <;> simp [stdCond, Matrix.PosDef.one]

def stdCondId (R D : Nat) : CondIdB R D ℝ := ⟨false, tab fun _ => eye, tab fun _ => eye, tab fun _ => 0⟩

theorem stdCondId_ok (R D : Nat) : CondIdOK (stdCondId R D) := by
  refine ⟨?_, ?_, ?_⟩ <;> intro r <;> simp [stdCondId, CondIdB.toCond, Matrix.PosDef.one]

/-- the hypotheses hold for a concrete object with `Dy = 1 < Dx = 2` (first `ln_det` branch), for one
with `Dy = 2 ≥ Dx = 1` (second branch), and for the identity class -/
example :
    (∃ (c : CondB 2 1 2 ℝ) (p : PdfV 3 2 ℝ), C10.CondOK c ∧ PdfOK p ∧ c.M 0 0 1 = 5) ∧
    (∃ (c : CondB 2 2 1 ℝ) (p : PdfV 3 1 ℝ), C10.CondOK c ∧ PdfOK p ∧ c.M 0 1 0 = 7) ∧
    (∃ (c : CondIdB 2 2 ℝ) (p : PdfV 3 2 ℝ), CondIdOK c ∧ PdfOK p) :=
  ⟨⟨stdCond 2 (ofM !![3, 5]) (ofV ![1]), stdPdf 3 2 (ofV ![1, 2]), stdCond_ok _ _ _, stdPdf_ok _ _ _,
      by simp [stdCond, ofM]⟩,
   ⟨stdCond 2 (ofM !![3; 7]) (ofV ![1, 4]), stdPdf 3 1 (ofV ![2]), stdCond_ok _ _ _, stdPdf_ok _ _ _,
      by simp [stdCond, ofM]⟩,
   ⟨stdCondId 2 2, stdPdf 3 2 (ofV ![1, 2]), stdCondId_ok _ _, stdPdf_ok _ _ _⟩⟩

end GT.Props.C07

section axioms
#print axioms GT.Props.C07.PdfOK.evalLn_eq
#print axioms GT.Props.C07.normalLn_joint
#print axioms GT.Props.C07.jointLnDet_spec
#print axioms GT.Props.C07.C07_joint_params
#print axioms GT.Props.C07.C07_joint_inv
#print axioms GT.Props.C07.C07_joint_Lambda
#print axioms GT.Props.C07.C07_chain_rule
#print axioms GT.Props.C07.C07_chain_rule_objects
#print axioms GT.Props.C07.C07_jointId_params
#print axioms GT.Props.C07.C07_jointId_inv
#print axioms GT.Props.C07.C07_chain_rule_id
#print axioms GT.Props.C07.C07_jointId_eq_toCond
end axioms
