import GT.Props.C04
import GT.Props.C07
import GT.Props.C13
import GT.Props.C03Integral
import GT.Bridge.PdfOK
import GT.Bridge.SpecSat
/-!
# C15 — the specialised classes behave exactly like the general full-matrix object

Diagonal measures / densities / conditionals, identity-mean conditionals (full and diagonal),
rank-one, linear and constant factors and NN-controlled conditionals with the control fixed are
modelled by flags and variants of the general objects.  Every shortcut they take (diagonal
inversion, covariance reuse, rank-one updates, skipping the mean map) is shown here to change
cost only, never values.

Because model tensors are *data* (`Arr`) over `ℝ` and `toM`, `toV` are injective, most statements
are proved in the strongest possible form: the two objects are **equal** (possibly up to the class
tag), not merely equal as functions.
-/
namespace GT.Props.C15
open GT Matrix

variable {R R1 R2 Ro Rc Rx N D Dx Dy : Nat}

/-- a diagonal, positive definite model matrix -/
structure DiagPD {n : Nat} (A : Mat n n ℝ) : Prop where
  diag : ∀ i j, i ≠ j → A i j = 0
  posDef : (toM A).PosDef

theorem DiagPD.diag_pos {n : Nat} {A : Mat n n ℝ} (h : DiagPD A) (i : Fin n) : 0 < A i i := by
  have := h.posDef.diag_pos (i := i)
  simpa using this

/-! ## 1. diagonal inversion -/

section invert
variable {be : Backend ℝ} (hbe : be.Spec)
include hbe

/-- **C15 (diagonal inversion)**: on a diagonal positive definite matrix `invert_diagonal` and
`invert_matrix` return the same inverse (as matrices) and the same log-determinant. -/
theorem C15_invert_diagonal {n : Nat} (A : Mat n n ℝ) (hA : DiagPD A) :
    toM (invertDiagonal A).1 = toM (invertMatrix be A).1 ∧
      (invertDiagonal A).2 = (invertMatrix be A).2 ∧
      toM (invertDiagonal A).1 = (toM A)⁻¹ ∧ (invertDiagonal A).2 = Real.log (toM A).det := by
  have h1 := invertDiagonal_spec A hA.diag hA.diag_pos
  have h2 := invertMatrix_spec hbe A hA.posDef
  exact ⟨h1.1.trans h2.1.symm, h1.2.trans h2.2.symm, h1.1, h1.2⟩

/-- the same as an equality of the returned pairs (tensors are data) -/
theorem C15_invert_diagonal_eq {n : Nat} (A : Mat n n ℝ) (hA : DiagPD A) :
    invertDiagonal A = invertMatrix be A := by
  obtain ⟨h1, h2, -, -⟩ := C15_invert_diagonal hbe A hA
  exact Prod.ext (toM_injective h1) h2

/-- **C15**: the batched inversion agrees entrywise … -/
theorem C15_invert_batch (A : Arr R (Mat D D ℝ)) (hA : ∀ r, DiagPD (A r)) (r : Fin R) :
    toM ((invertBatch be true A).1 r) = toM ((invertBatch be false A).1 r) ∧
      (invertBatch be true A).2 r = (invertBatch be false A).2 r := by
  have h1 := invertBatch_spec hbe true A (fun r => (hA r).posDef) (fun _ r => (hA r).diag) r
  have h2 := invertBatch_spec hbe false A (fun r => (hA r).posDef) (by simp) r
  exact ⟨h1.1.trans h2.1.symm, h1.2.trans h2.2.symm⟩

/-- … hence the two results are the same arrays -/
theorem C15_invert_batch_eq (A : Arr R (Mat D D ℝ)) (hA : ∀ r, DiagPD (A r)) :
    invertBatch be true A = invertBatch be false A := by
  refine Prod.ext (Arr.ext fun r => toM_injective ?_) (Arr.ext fun r => ?_)
  · exact (C15_invert_batch hbe A hA r).1
  · exact (C15_invert_batch hbe A hA r).2

end invert

/-! ## 3. diagonal densities -/

section pdf
variable {be : Backend ℝ}

/-- the constructor never looks at the class tag once `Lambda`, `ln_det_Sigma` have been chosen:
the diagonal density is the full density with the other tag -/
theorem mkPdf_of_precision_eq (Sigma : Arr R (Mat D D ℝ)) (mu : Arr R (Vec D ℝ))
    (Lambda : Option (Arr R (Mat D D ℝ))) (lnDetSigma : Option (Arr R ℝ))
    (h : pdfPrecision be true Sigma Lambda lnDetSigma = pdfPrecision be false Sigma Lambda lnDetSigma) :
    mkPdf be true Sigma mu Lambda lnDetSigma =
      { mkPdf be false Sigma mu Lambda lnDetSigma with cls := .diagPdf } := by
  simp [mkPdf, h, pdfPre, MeasureB.prepare, MeasureB.ensureLnZ, MeasureB.computeLnZ, MeasureB.ensureCov,
    MeasureB.ensureMu, MeasureB.normalize]

variable (hbe : be.Spec)
include hbe

theorem pdfPrecision_diag_eq (Sigma : Arr R (Mat D D ℝ)) (hS : ∀ r, DiagPD (Sigma r))
    (Lambda : Option (Arr R (Mat D D ℝ))) (lnDetSigma : Option (Arr R ℝ)) :
    pdfPrecision be true Sigma Lambda lnDetSigma = pdfPrecision be false Sigma Lambda lnDetSigma := by
  unfold pdfPrecision
  cases Lambda with
  | none => exact C15_invert_batch_eq hbe Sigma hS
  | some L => rfl

/-- **C15 (diagonal densities), object form**: `GaussianDiagPDF(Sigma, mu, …)` on a diagonal
positive definite covariance stores exactly the arrays `GaussianPDF(Sigma, mu, …)` stores —
`Lambda`, `nu`, `ln_beta`, `Sigma`, `ln_det_Sigma`, `mu`, `lnZ`, `ln_det_Lambda` — only the class
tag differs.  (No consistency requirement on the optional `Lambda`, `ln_det_Sigma` arguments.) -/
theorem C15_diag_pdf_eq (Sigma : Arr R (Mat D D ℝ)) (hS : ∀ r, DiagPD (Sigma r)) (mu : Arr R (Vec D ℝ))
    (Lambda : Option (Arr R (Mat D D ℝ))) (lnDetSigma : Option (Arr R ℝ)) :
    mkPdf be true Sigma mu Lambda lnDetSigma =
      { mkPdf be false Sigma mu Lambda lnDetSigma with cls := .diagPdf } :=
  mkPdf_of_precision_eq Sigma mu Lambda lnDetSigma (pdfPrecision_diag_eq hbe Sigma hS Lambda lnDetSigma)

/-- **C15 (diagonal densities)**: same natural parameters, same evaluated function (which is the
normal log-density), same view. -/
theorem C15_diag_pdf (Sigma : Arr R (Mat D D ℝ)) (hS : ∀ r, DiagPD (Sigma r)) (mu : Arr R (Vec D ℝ))
    (Lambda : Option (Arr R (Mat D D ℝ))) (lnDetSigma : Option (Arr R ℝ)) :
    let pd := mkPdf be true Sigma mu Lambda lnDetSigma
    let pf := mkPdf be false Sigma mu Lambda lnDetSigma
    pd.toB = pf.toB ∧ (∀ r x, pd.evalLn r x = pf.evalLn r x) ∧
      pd.cov = pf.cov ∧ pd.mu = pf.mu ∧ pd.lnZ = pf.lnZ ∧ pd.lnDetLambda = pf.lnDetLambda := by
  intro pd pf
  have h : pd = { pf with cls := .diagPdf } := C15_diag_pdf_eq hbe Sigma hS mu Lambda lnDetSigma
  rw [h]
  exact ⟨rfl, fun _ _ => rfl, rfl, rfl, rfl, rfl⟩

/-- both are the normal log-density `ln N(y; μ, Σ)` when the optional arguments are consistent -/
theorem C15_diag_pdf_evalLn (Sigma : Arr R (Mat D D ℝ))
    (mu : Arr R (Vec D ℝ)) (Lambda : Option (Arr R (Mat D D ℝ))) (lnDetSigma : Option (Arr R ℝ))
    (h : C02.PdfArgsOK true Sigma Lambda lnDetSigma) (r : Fin R) (y : Fin D → ℝ) :
    (mkPdf be true Sigma mu Lambda lnDetSigma).evalLn r (ofV y) =
        normalLn (toV (mu r)) (toM (Sigma r))⁻¹ (Real.log (toM (Sigma r)).det) y ∧
      (mkPdf be false Sigma mu Lambda lnDetSigma).evalLn r (ofV y) =
        normalLn (toV (mu r)) (toM (Sigma r))⁻¹ (Real.log (toM (Sigma r)).det) y :=
  ⟨mkPdf_evalLn hbe true Sigma mu Lambda lnDetSigma h r y,
   mkPdf_evalLn hbe false Sigma mu Lambda lnDetSigma ⟨h.posDef, by simp, h.lambdaOK, h.lnDetOK⟩ r y⟩

/-- the views (`asPdf`) agree except for the `diag` flag -/
theorem C15_diag_pdf_view (Sigma : Arr R (Mat D D ℝ)) (hS : ∀ r, DiagPD (Sigma r)) (mu : Arr R (Vec D ℝ))
    (Lambda : Option (Arr R (Mat D D ℝ))) (lnDetSigma : Option (Arr R ℝ)) :
    (mkPdf be true Sigma mu Lambda lnDetSigma).asPdf =
      (mkPdf be false Sigma mu Lambda lnDetSigma).asPdf.map fun j => { j with diag := true } := by
  rw [C15_diag_pdf_eq hbe Sigma hS mu Lambda lnDetSigma]
  unfold MeasureB.asPdf
  simp only []
  split <;> simp_all [MCls.isDiag]

/-- **C15 (diagonal densities, `get_marginal`)**: the diagonal class keeps the diagonal class and
inverts the selected sub-covariance with the diagonal shortcut; the arrays are those the full
class computes. -/
theorem C15_diag_pdf_getMarginal {K : Nat} (p : PdfV R D ℝ) (hp : ∀ r, DiagPD (p.Sigma r))
    (dims : Fin K → Fin D) (hinj : Function.Injective dims) :
    ({ p with diag := true } : PdfV R D ℝ).getMarginal be dims =
      { ({ p with diag := false } : PdfV R D ℝ).getMarginal be dims with cls := .diagPdf } := by
  simp only [PdfV.getMarginal]
  apply C15_diag_pdf_eq hbe
  intro r
  have hsub : toM ((tab3 fun r i j => p.Sigma r (dims i) (dims j)) r) =
      (toM (p.Sigma r)).submatrix dims dims := by
    ext i j; simp
  refine ⟨fun i j hij => ?_, ?_⟩
  · simp only [tab3_apply]
    exact (hp r).diag _ _ (fun h => hij (hinj h))
  · rw [hsub]; exact (hp r).posDef.submatrix hinj

omit hbe in
/-- **C15 (diagonal densities, `slice`)**: `Lambda` and `ln_det_Sigma` are handed to the
constructor, nothing is inverted: identical arrays for the two classes, unconditionally. -/
theorem C15_diag_pdf_slice {N : Nat} (m : MeasureB R D ℝ) (hm : m.cls = .diagPdf) (idx : Fin N → Int) :
    m.slice be idx =
      (({ m with cls := .pdf } : MeasureB R D ℝ).slice be idx).map fun s => { s with cls := .diagPdf } := by
  simp only [MeasureB.slice, hm, MCls.isPdf, MCls.isDiag, if_true]
  cases m.cov <;> cases m.mu <;> rfl

end pdf

/-! ## 2. diagonal measures -/

section measure
variable {be : Backend ℝ} (hbe : be.Spec)
include hbe

omit hbe in
/-- the general-class object with the same parameters and caches is consistent whenever the
diagonal-class object is -/
theorem inv_asFull {m : MeasureB R D ℝ} (h : m.Inv) : ({ m with cls := .measure } : MeasureB R D ℝ).Inv :=
  ⟨h.posDef, by simp [MCls.isDiag], h.cov, h.lnDetLambda, h.mu, h.lnZ, h.covOfLnZ, h.covOfMu⟩

/-- two consistent measures with the same natural parameters report the same mass, whatever their
classes and cache states -/
theorem logIntegral_eq_of_toB {m m' : MeasureB R D ℝ} (h : m.Inv) (h' : m'.Inv) (hB : m.toB = m'.toB)
    (r : Fin R) : (m.logIntegral be).2 r = (m'.logIntegral be).2 r := by
  simp only [MeasureB.toB, FactorB.mk.injEq] at hB
  obtain ⟨e1, e2, e3⟩ := hB
  rw [C02.logIntegral_value hbe h r, C02.logIntegral_value hbe h' r, e1, e2, e3]

/-- **C15 (diagonal measures)**: `GaussianDiagMeasure(Lambda, nu, ln_beta)` and
`GaussianMeasure(Lambda, nu, ln_beta)` report the same `log_integral()` and `integral()` — for every
cache state of the diagonal object (the general object `m'` has the same caches; in particular
both freshly constructed, `inv_mk0`). -/
theorem C15_diag_measure_log_integral {m : MeasureB R D ℝ} (h : m.Inv) (r : Fin R) :
    let m' : MeasureB R D ℝ := { m with cls := .measure }
    (m.logIntegral be).2 r = (m'.logIntegral be).2 r ∧ (m.integral be).2 r = (m'.integral be).2 r ∧
      (m.logIntegralLight be).2 r = (m'.logIntegralLight be).2 r := by
  intro m'
  have h' : m'.Inv := inv_asFull h
  have e := logIntegral_eq_of_toB hbe h h' rfl r
  refine ⟨e, ?_, ?_⟩
  · simp only [MeasureB.integral, tab_apply]; rw [e]
  · rw [C02.logIntegralLight_value hbe h r, C02.logIntegralLight_value hbe h' r]

/-- any two consistent measures with the same natural parameters have the same integration view
`(mass, mu, Sigma)` — as arrays — hence the same value of every one of the polynomial integrals
(`integrate("x")`, `"Ax_aBx_b_inner"`, …, which are functions of the view) -/
theorem intView_eq_of_toB {m m' : MeasureB R D ℝ} (h : m.Inv) (h' : m'.Inv) (hB : m.toB = m'.toB) :
    (m.intView be).2 = (m'.intView be).2 := by
  have v := C03.intView_spec hbe h
  have v' := C03.intView_spec hbe h'
  have hB' := hB
  simp only [MeasureB.toB, FactorB.mk.injEq] at hB
  obtain ⟨e1, e2, e3⟩ := hB
  have hev : ∀ r x, m.evalLn r x = m'.evalLn r x := fun r x => by simp only [MeasureB.evalLn, hB']
  generalize (m.intView be).2 = a at v ⊢
  generalize (m'.intView be).2 = b at v' ⊢
  cases a with | mk ma mua Sa =>
  cases b with | mk mb mub Sb =>
  have hm : ma = mb := Arr.ext fun r => by
    have := v.mass r; have := v'.mass r
    simp only [hev] at *
    simp_all
  have hmu : mua = mub := Arr.ext fun r => toV_injective (by
    have := v.mu r; have := v'.mu r
    simp_all)
  have hS : Sa = Sb := Arr.ext fun r => toM_injective (by
    have := v.Sigma r; have := v'.Sigma r
    simp_all)
  rw [hm, hmu, hS]

/-- **C15 (diagonal measures)**: the integration view of the diagonal class equals that of the
general class with the same parameters: `mass`, `mu = Λ⁻¹ν`, `Sigma = Λ⁻¹`. -/
theorem C15_diag_measure_view {m : MeasureB R D ℝ} (h : m.Inv) :
    let m' : MeasureB R D ℝ := { m with cls := .measure }
    (m.intView be).2 = (m'.intView be).2 ∧
      ∀ r, toV ((m.intView be).2.mu r) = (toM (m.Lambda r))⁻¹ *ᵥ toV (m.nu r) ∧
        toM ((m.intView be).2.Sigma r) = (toM (m.Lambda r))⁻¹ := by
  intro m'
  exact ⟨intView_eq_of_toB hbe h (inv_asFull h) rfl,
    fun r => ⟨(C03.intView_spec hbe h).mu r, (C03.intView_spec hbe h).Sigma r⟩⟩

/-- freshly constructed objects: the covariance caches filled by the first query are the same
arrays (diagonal inversion vs. Cholesky inversion) -/
theorem C15_diag_measure_fresh (L : Arr R (Mat D D ℝ)) (hL : ∀ r, DiagPD (L r)) (nu : Arr R (Vec D ℝ))
    (lb : Arr R ℝ) :
    ((MeasureB.mk0 .diagMeasure L nu lb).invertLambda be).2 =
      ((MeasureB.mk0 .measure L nu lb).invertLambda be).2 ∧
    ((MeasureB.mk0 .diagMeasure L nu lb).prepare be) =
      { (MeasureB.mk0 .measure L nu lb).prepare be with cls := .diagMeasure } := by
  have e := C15_invert_batch_eq hbe L hL
  constructor
  · simp [MeasureB.invertLambda, MeasureB.mk0, MCls.isDiag, e]
  · simp [MeasureB.prepare, MeasureB.ensureLnZ, MeasureB.computeLnZ, MeasureB.ensureCov,
      MeasureB.ensureMu, MeasureB.computeMu, MeasureB.invertLambda, MeasureB.mk0, MCls.isDiag, e]

/-- **C15 (diagonal measures, `product()`)**: the diagonal class returns the diagonal class; when
the covariance is cached the result is prepared at once, with the diagonal inversion of the summed
precision — the same arrays as for the general class. -/
theorem C15_diag_measure_product (m : MeasureB R D ℝ) (hm : m.cls.isDiag = true)
    (hsum : DiagPD (tab2 fun i j => vsum fun r => m.Lambda r i j)) :
    m.product be =
      { ({ m with cls := .measure } : MeasureB R D ℝ).product be with cls := .diagMeasure } := by
  have h2 : MCls.isDiag MCls.measure = false := rfl
  simp only [MeasureB.product, hm, h2, if_true, Bool.false_eq_true, if_false]
  cases m.cov with
  | none => rfl
  | some c =>
    exact (C15_diag_measure_fresh hbe _ (fun _ => by simpa using hsum) _ _).2

end measure

/-! ## 4. factor kinds -/

section factors
variable {be : Backend ℝ}

theorem factorPSD_general {f : Factor R D ℝ} (hf : C04.FactorPSD f) :
    C04.FactorPSD (Factor.general f.toB) := hf

/-- **C15 (factor kinds)**: the product with a rank-one / linear / constant factor has the natural
parameters of the product with the general factor holding the same `(Lambda, nu, ln_beta)` —
for every selector pattern (multiply, hadamard, broadcasts), `update_full` flag and cache state. -/
theorem C15_factor_kinds_toB (su : Fin Ro → Fin R1) (sf : Fin Ro → Fin R2) (u : MeasureB R1 D ℝ)
    (f : Factor R2 D ℝ) (uf uf' : Bool) :
    (productSel be su sf u f uf).toB = (productSel be su sf u (.general f.toB) uf').toB := by
  rw [C01.productSel_toB, C01.productSel_toB]
  rfl

/-- hence the same evaluated function -/
theorem C15_factor_kinds_evalLn (su : Fin Ro → Fin R1) (sf : Fin Ro → Fin R2) (u : MeasureB R1 D ℝ)
    (f : Factor R2 D ℝ) (uf uf' : Bool) (r : Fin Ro) (x : Vec D ℝ) :
    (productSel be su sf u f uf).evalLn r x = (productSel be su sf u (.general f.toB) uf').evalLn r x := by
  simp only [MeasureB.evalLn, C15_factor_kinds_toB su sf u f uf uf']

/-- with `update_full` every product path fills the covariance cache and `ln_det_Lambda` -/
theorem productSel_cov_isSome (su : Fin Ro → Fin R1) (sf : Fin Ro → Fin R2) (u : MeasureB R1 D ℝ)
    (f : Factor R2 D ℝ) :
    (productSel be su sf u f true).cov.isSome ∧ (productSel be su sf u f true).lnDetLambda.isSome := by
  cases f <;> simp only [productSel, finishInvert, if_true] <;> (try split) <;> simp [finishCov]

variable (hbe : be.Spec)
include hbe

omit hbe in
/-- consistent measures with the same precision have the same covariance cache (as arrays) -/
theorem cov_eq_of_Lambda {m m' : MeasureB R D ℝ} (h : m.Inv) (h' : m'.Inv) (hL : m.Lambda = m'.Lambda)
    (hc : m.cov.isSome) (hc' : m'.cov.isSome) : m.cov = m'.cov := by
  obtain ⟨c, hc⟩ := Option.isSome_iff_exists.1 hc
  obtain ⟨c', hc'⟩ := Option.isSome_iff_exists.1 hc'
  rw [hc, hc']
  cases c with | mk S l =>
  cases c' with | mk S' l' =>
  have hS : S = S' := Arr.ext fun r => toM_injective (by
    have := (h.cov _ hc r).inv; have := (h'.cov _ hc' r).inv
    simp_all)
  have hl : l = l' := Arr.ext fun r => by
    have := (h.cov _ hc r).logdet_neg; have := (h'.cov _ hc' r).logdet_neg
    simp_all
  rw [hS, hl]

omit hbe in
theorem lnDetLambda_eq_of_Lambda {m m' : MeasureB R D ℝ} (h : m.Inv) (h' : m'.Inv)
    (hL : m.Lambda = m'.Lambda) (hc : m.lnDetLambda.isSome) (hc' : m'.lnDetLambda.isSome) :
    m.lnDetLambda = m'.lnDetLambda := by
  obtain ⟨l, hl⟩ := Option.isSome_iff_exists.1 hc
  obtain ⟨l', hl'⟩ := Option.isSome_iff_exists.1 hc'
  rw [hl, hl']
  congr 1
  exact Arr.ext fun r => by rw [h.lnDetLambda l hl r, h'.lnDetLambda l' hl' r, hL]

/-- **C15 (factor kinds, caches)**: with `update_full` the covariance obtained by the rank-one
(Sherman–Morrison / determinant lemma) update or by covariance reuse is the same array as the one
the general factor obtains by full inversion, with the same `ln_det_Sigma` and `ln_det_Lambda`;
both objects satisfy the invariant. -/
theorem C15_factor_kinds_cov (su : Fin Ro → Fin R1) (sf : Fin Ro → Fin R2) (u : MeasureB R1 D ℝ)
    (f : Factor R2 D ℝ) (hu : u.Inv) (hf : C04.FactorPSD f) :
    let ps := productSel be su sf u f true
    let pg := productSel be su sf u (.general f.toB) true
    ps.Inv ∧ pg.Inv ∧ ps.cov.isSome ∧ ps.cov = pg.cov ∧ ps.lnDetLambda = pg.lnDetLambda ∧
      (∀ c, ps.cov = some c → ∀ r, toM (c.Sigma r) = (toM (ps.Lambda r))⁻¹ ∧
        c.lnDetSigma r = -Real.log (toM (ps.Lambda r)).det) := by
  intro ps pg
  have hs : ps.Inv := C04.inv_productSel hbe su sf u f true hu hf
  have hg : pg.Inv := C04.inv_productSel hbe su sf u _ true hu (factorPSD_general hf)
  have hB := C15_factor_kinds_toB (be := be) su sf u f true true
  have hL : ps.Lambda = pg.Lambda := by
    have := congrArg FactorB.Lambda hB
    exact this
  have hcs := productSel_cov_isSome (be := be) su sf u f
  have hcg := productSel_cov_isSome (be := be) su sf u (.general f.toB)
  refine ⟨hs, hg, hcs.1, cov_eq_of_Lambda hs hg hL hcs.1 hcg.1,
    lnDetLambda_eq_of_Lambda hs hg hL hcs.2 hcg.2, ?_⟩
  intro c hc r
  exact ⟨(hs.cov c hc r).inv, (hs.cov c hc r).logdet_neg⟩

/-- **C15 (factor kinds, mass)**: same `log_integral()` and same integration view, for every
`update_full` flag on either side. -/
theorem C15_factor_kinds_mass (su : Fin Ro → Fin R1) (sf : Fin Ro → Fin R2) (u : MeasureB R1 D ℝ)
    (f : Factor R2 D ℝ) (uf uf' : Bool) (hu : u.Inv) (hf : C04.FactorPSD f) :
    (∀ r, ((productSel be su sf u f uf).logIntegral be).2 r =
      ((productSel be su sf u (.general f.toB) uf').logIntegral be).2 r) ∧
    ((productSel be su sf u f uf).intView be).2 =
      ((productSel be su sf u (.general f.toB) uf').intView be).2 := by
  have hs := C04.inv_productSel hbe su sf u f uf hu hf
  have hg := C04.inv_productSel hbe su sf u _ uf' hu (factorPSD_general hf)
  have hB := C15_factor_kinds_toB (be := be) su sf u f uf uf'
  exact ⟨fun r => logIntegral_eq_of_toB hbe hs hg hB r, intView_eq_of_toB hbe hs hg hB⟩

/-- the public entry points are instances of `productSel` -/
theorem C15_factor_kinds_multiply (u : MeasureB R1 D ℝ) (f : Factor R2 D ℝ) (hu : u.Inv)
    (hf : C04.FactorPSD f) :
    (u.multiply be f true).toB = (u.multiply be (.general f.toB) true).toB ∧
    (u.multiply be f true).cov = (u.multiply be (.general f.toB) true).cov ∧
    (u.multiply be f true).lnDetLambda = (u.multiply be (.general f.toB) true).lnDetLambda :=
  ⟨C15_factor_kinds_toB _ _ u f true true, (C15_factor_kinds_cov hbe _ _ u f hu hf).2.2.2.1,
    (C15_factor_kinds_cov hbe _ _ u f hu hf).2.2.2.2.1⟩

end factors

/-! ## 5. identity-mean conditionals are the general conditional with `M = I`, `b = 0` -/

section arrays
variable {m n : Nat}

theorem mmul_eye_left (A : Mat m n ℝ) : mmul (eye : Mat m m ℝ) A = A := toM_injective (by simp)
theorem mmul_eye_right (A : Mat m n ℝ) : mmul A (eye : Mat n n ℝ) = A := toM_injective (by simp)
theorem transpose_eye : transpose (eye : Mat n n ℝ) = eye := toM_injective (by simp)
theorem mulVec_eye (x : Vec n ℝ) : mulVec (eye : Mat n n ℝ) x = x := toV_injective (by simp)
theorem vadd_zeroV (x : Vec n ℝ) : vadd x zeroV = x := toV_injective (by simp)
theorem vsub_zeroV (x : Vec n ℝ) : vsub x zeroV = x := toV_injective (by simp)
theorem mulVec_zeroV (A : Mat m n ℝ) : mulVec A (zeroV : Vec n ℝ) = zeroV := toV_injective (by simp)
theorem vneg_zeroV : vneg (zeroV : Vec n ℝ) = zeroV := toV_injective (by simp)
theorem zeroV_vadd (x : Vec n ℝ) : vadd zeroV x = x := toV_injective (by simp)

theorem transpose_eq_of_symm {A : Mat n n ℝ} (h : (toM A)ᵀ = toM A) : transpose A = A :=
  toM_injective (by simp [h])

/-- the mean map of `toCond` is the identity -/
theorem toCond_condMu (c : CondIdB R D ℝ) (r : Fin R) (x : Vec D ℝ) : c.toCond.condMu r x = x := by
  simp only [CondB.condMu, CondIdB.toCond, tab_apply, mulVec_eye, vadd_zeroV]

end arrays

section identity
variable {be : Backend ℝ}

/-- **C15 (identity-mean, `condition_on_x`)**: the identity class skips the mean map; the object
it builds is *the same object* the general class builds with `M = I`, `b = 0`.
No hypothesis on the parameters. -/
theorem C15_identity_conditionOnX (c : CondIdB R D ℝ) (x : Arr N (Vec D ℝ)) :
    c.conditionOnX be x = c.toCond.conditionOnX be x := by
  simp only [CondIdB.conditionOnX, CondB.conditionOnX, toCond_condMu]
  rfl

/-- **C15 (identity-mean, `affine_marginal_transformation`)**: same object. -/
theorem C15_identity_affineMarginal (c : CondIdB Rc D ℝ) (p : PdfV Rx D ℝ) :
    c.affineMarginal be p = c.toCond.affineMarginal be p := by
  simp only [CondIdB.affineMarginal, CondB.affineMarginal, toCond_condMu]
  simp only [CondIdB.toCond, tab_apply, mmul_eye_left, mmul_eye_right, transpose_eye]

/-- what the diagonal identity class assumes about its precision -/
def CondIdDiagOK (c : CondIdB R D ℝ) : Prop :=
  c.diag = true → ∀ r i j, i ≠ j → c.Lambda r i j = 0

/-- **C15 (identity-mean, `set_y`)**: the factor returned by the identity class (full: `y Λ`;
diagonal: only the diagonal of `Λ` is read) is the factor the general class returns with
`M = I`, `b = 0` — the same `Lambda`, `nu`, `ln_beta` arrays. -/
theorem C15_identity_setY (sc : Fin N → Fin R) (c : CondIdB R D ℝ) (hd : CondIdDiagOK c)
    (y : Arr N (Vec D ℝ)) : c.setYSel sc y = c.toCond.setYSel sc y := by
  simp only [CondIdB.setYSel, CondB.setYSel]
  simp only [CondIdB.toCond, tab_apply, mmul_eye_left, mmul_eye_right, transpose_eye, vsub_zeroV]
  cases hdg : c.diag with
  | false => simp
  | true =>
    have hz := hd hdg
    have hnu : ∀ n, (tab fun i => c.Lambda (sc n) i i * y n i) = vecMul (y n) (c.Lambda (sc n)) := by
      intro n
      ext i
      simp only [tab_apply, vecMul_apply]
      rw [Finset.sum_eq_single i]
      · ring
      · intro j _ hj; rw [hz (sc n) j i hj]; ring
      · simp
    have hq : ∀ n, (vsum fun i => y n i * y n i * c.Lambda (sc n) i i) =
        dot (vecMul (y n) (c.Lambda (sc n))) (y n) := by
      intro n
      rw [← hnu n]
      simp only [vsum_real, dot_real, tab_apply]
      exact Finset.sum_congr rfl fun i _ => by ring
    simp [hnu, hq]

/-- the same in parameter form -/
theorem C15_identity_setY_toB (sc : Fin N → Fin R) (c : CondIdB R D ℝ) (hd : CondIdDiagOK c)
    (y : Arr N (Vec D ℝ)) (n : Fin N) :
    toM ((c.setYSel sc y).toB.Lambda n) = toM ((c.toCond.setYSel sc y).toB.Lambda n) ∧
    toV ((c.setYSel sc y).toB.nu n) = toV ((c.toCond.setYSel sc y).toB.nu n) ∧
    (c.setYSel sc y).toB.lnBeta n = (c.toCond.setYSel sc y).toB.lnBeta n := by
  rw [C15_identity_setY sc c hd y]
  exact ⟨rfl, rfl, rfl⟩

/-- symmetric stored precision (true for every constructed conditional: `Λ = Σ⁻¹`, `Σ` symmetric) -/
def CondIdSymm (c : CondIdB R D ℝ) : Prop := ∀ r, (toM (c.Lambda r))ᵀ = toM (c.Lambda r)

theorem CondIdSymm.of_ok {c : CondIdB R D ℝ} (hc : C07.CondIdOK c) : CondIdSymm c := by
  intro r
  have h1 : toM (c.Lambda r) = (toM (c.Sigma r))⁻¹ := hc.lambda r
  have h2 : (toM (c.Sigma r)).PosDef := hc.posDef r
  rw [h1]; exact C07.posDef_transpose h2.inv

theorem CondIdB.affineConditional_eq (c : CondIdB Rc D ℝ) (p : PdfV Rx D ℝ) :
    c.affineConditional be p =
      let I := invertBatch be false
        (tab fun (k : Fin (Rc * Rx)) => madd (p.Lambda (unflatR k)) (c.Lambda (unflatL k)))
      ⟨false, tab fun k => mmul (I.1 k) (c.Lambda (unflatL k)),
        tab fun k => mulVec (I.1 k) (p.nu (unflatR k)), I.1,
        tab fun (k : Fin (Rc * Rx)) => madd (p.Lambda (unflatR k)) (c.Lambda (unflatL k)),
        tab fun k => -(I.2 k)⟩ := rfl

theorem CondB.affineConditional_eq (c : CondB Rc Dy Dx ℝ) (p : PdfV Rx Dx ℝ) :
    c.affineConditional be p =
      let I := invertBatch be false
        (tab fun (k : Fin (Rc * Rx)) => madd (p.Lambda (unflatR k))
          (mmul (transpose (c.M (unflatL k))) (mmul (transpose (c.Lambda (unflatL k))) (c.M (unflatL k)))))
      ⟨false, tab fun k => mmul (I.1 k) (mmul (transpose (c.M (unflatL k))) (c.Lambda (unflatL k))),
        tab fun k => vadd (vneg (mulVec (mmul (I.1 k) (mmul (transpose (c.M (unflatL k)))
            (c.Lambda (unflatL k)))) (c.b (unflatL k)))) (mulVec (I.1 k) (p.nu (unflatR k))), I.1,
        tab fun (k : Fin (Rc * Rx)) => madd (p.Lambda (unflatR k))
          (mmul (transpose (c.M (unflatL k))) (mmul (transpose (c.Lambda (unflatL k))) (c.M (unflatL k)))),
        tab fun k => -(I.2 k)⟩ := by
  simp only [CondB.affineConditional, tab_apply]

/-- **C15 (identity-mean, `affine_conditional_transformation`)**: same object (`M`, `b`, `Sigma`,
`Lambda`, `ln_det_Sigma` arrays) as the general class with `M = I`, `b = 0`; only symmetry of the
stored precision is used (the general code contracts `Λᵀ M`). -/
theorem C15_identity_affineConditional (c : CondIdB Rc D ℝ) (hs : CondIdSymm c) (p : PdfV Rx D ℝ) :
    c.affineConditional be p = c.toCond.affineConditional be p := by
  rw [CondIdB.affineConditional_eq, CondB.affineConditional_eq]
  have ht : ∀ r, transpose (c.Lambda r) = c.Lambda r := fun r => transpose_eq_of_symm (hs r)
  simp only [CondIdB.toCond, tab_apply, mmul_eye_left, mmul_eye_right, transpose_eye, ht,
    mulVec_zeroV, vneg_zeroV, zeroV_vadd]

/-- field form of the previous statement -/
theorem C15_identity_affineConditional_fields (c : CondIdB Rc D ℝ) (hs : CondIdSymm c) (p : PdfV Rx D ℝ)
    (k : Fin (Rc * Rx)) :
    let a := c.affineConditional be p
    let g := c.toCond.affineConditional be p
    toM (a.M k) = toM (g.M k) ∧ toV (a.b k) = toV (g.b k) ∧ toM (a.Sigma k) = toM (g.Sigma k) ∧
      toM (a.Lambda k) = toM (g.Lambda k) ∧ a.lnDetSigma k = g.lnDetSigma k := by
  intro a g
  have : a = g := C15_identity_affineConditional c hs p
  rw [this]
  exact ⟨rfl, rfl, rfl, rfl, rfl⟩

/-- **C15 (identity-mean, `affine_joint_transformation`)**: for a well-formed identity conditional
(`Σ` positive definite, `Λ = Σ⁻¹`) the joint density built by the identity class is *the same
object* as the one built by the general class with `M = I`, `b = 0` (this strengthens
`C07_jointId_eq_toCond`, which states equality of the evaluated functions; no hypothesis on the
prior `p` is needed). -/
theorem C15_identity_affineJoint (c : CondIdB Rc D ℝ) (hc : C07.CondIdOK c) (p : PdfV Rx D ℝ) :
    c.affineJoint be p = c.toCond.affineJoint be p := by
  rw [C07.affineJointId_eq, C07.affineJoint_eq]
  have hs := CondIdSymm.of_ok hc
  have ht : ∀ r, transpose (c.Lambda r) = c.Lambda r := fun r => transpose_eq_of_symm (hs r)
  have hLSL : ∀ r, mmul (transpose (mneg (c.Lambda r))) (mmul (c.Sigma r) (mneg (c.Lambda r))) = c.Lambda r := by
    intro r
    apply toM_injective
    have h1 : toM (c.Lambda r) = (toM (c.Sigma r))⁻¹ := hc.lambda r
    have h2 : (toM (c.Sigma r)).PosDef := hc.posDef r
    simp only [toM_mmul, toM_transpose, toM_mneg, Matrix.transpose_neg, hs r, Matrix.neg_mul,
      Matrix.mul_neg, neg_neg]
    rw [h1, Matrix.mul_nonsing_inv _ h2.det_pos.ne'.isUnit, Matrix.mul_one]
  simp only [jointSigma, jointLambda, C07.jointLnDet, lt_irrefl, if_false, toCond_condMu]
  simp only [CondIdB.toCond, tab_apply, mmul_eye_left, mmul_eye_right, transpose_eye, ht, hLSL]

/-- **C15 (identity-mean, `conditional_entropy`)**: same result array. -/
theorem C15_identity_conditionalEntropy (c : CondIdB Rc D ℝ) (hc : C07.CondIdOK c) (p : PdfV Rx D ℝ) :
    c.conditionalEntropy be p = c.toCond.conditionalEntropy be p := by
  simp only [CondIdB.conditionalEntropy, CondB.conditionalEntropy, C15_identity_affineJoint c hc p]
  cases (CondB.affineJoint be c.toCond p).asPdf <;> rfl

/-- **C15 (identity-mean, `mutual_information`)**: same result array. -/
theorem C15_identity_mutualInformation (c : CondIdB Rc D ℝ) (hc : C07.CondIdOK c) (p : PdfV Rx D ℝ) :
    c.mutualInformation be p = c.toCond.mutualInformation be p := by
  simp only [CondIdB.mutualInformation, CondB.mutualInformation, C15_identity_conditionalEntropy c hc p,
    C15_identity_affineMarginal c p]

/-- evaluated-function form of the joint (from C07), kept for reference -/
theorem C15_identity_affineJoint_evalLn (hbe : be.Spec) (c : CondIdB Rc D ℝ) (hc : C07.CondIdOK c)
    (p : PdfV Rx D ℝ) (hp : C07.PdfOK p) (k : Fin (Rc * Rx)) (x y : Fin D → ℝ) :
    (c.affineJoint be p).evalLn k (ofV (Sum.elim x y ∘ finSumFinEquiv.symm)) =
      (c.toCond.affineJoint be p).evalLn k (ofV (Sum.elim x y ∘ finSumFinEquiv.symm)) :=
  C07.C07_jointId_eq_toCond hbe c hc p hp k x y

/-- `slice` and `update_Sigma` of the identity class commute with the embedding as well -/
theorem C15_identity_updateSigma (c : CondIdB R D ℝ) (S : Arr R (Mat D D ℝ)) :
    (c.updateSigma be S).toCond = c.toCond.updateSigma be S := rfl

end identity

/-! ## 7. diagonal conditionals -/

section diagcond
variable {be : Backend ℝ}

/-- no operation of `CondB` reads the `diag` flag: the diagonal conditional class inherits every
method of the general class and runs it on the same arrays -/
theorem C15_diag_cond_ops (c : CondB Rc Dy Dx ℝ) (p : PdfV Rx Dx ℝ) (x : Arr N (Vec Dx ℝ))
    (sc : Fin N → Fin Rc) (y : Arr N (Vec Dy ℝ)) :
    let g : CondB Rc Dy Dx ℝ := { c with diag := false }
    c.conditionOnX be x = g.conditionOnX be x ∧ c.setYSel sc y = g.setYSel sc y ∧
      c.affineJoint be p = g.affineJoint be p ∧ c.affineMarginal be p = g.affineMarginal be p ∧
      c.affineConditional be p = g.affineConditional be p ∧
      c.conditionalEntropy be p = g.conditionalEntropy be p ∧
      c.mutualInformation be p = g.mutualInformation be p :=
  ⟨rfl, rfl, rfl, rfl, rfl, rfl, rfl⟩

variable (hbe : be.Spec)
include hbe

/-- the constructor logic shared by all conditional classes: diagonal and full inversion give the
same `(Sigma, Lambda, ln_det_Sigma)` on a diagonal positive definite input (whichever of `Sigma`,
`Lambda` gets inverted) -/
theorem condCovInit_diag_eq (Sigma Lambda : Option (Arr R (Mat D D ℝ))) (ld : Option (Arr R ℝ))
    (hS : ∀ S, Sigma = some S → ∀ r, DiagPD (S r))
    (hL : Sigma = none → ∀ L, Lambda = some L → ∀ r, DiagPD (L r)) :
    condCovInit be true Sigma Lambda ld = condCovInit be false Sigma Lambda ld := by
  cases Sigma with
  | some S =>
    have e := C15_invert_batch_eq hbe S (hS S rfl)
    cases Lambda <;> cases ld <;> simp [condCovInit, e]
  | none =>
    cases Lambda with
    | none => cases ld <;> rfl
    | some L =>
      have e := C15_invert_batch_eq hbe L (hL rfl L rfl)
      cases ld <;> simp [condCovInit, e]

/-- **C15 (diagonal conditionals)**: `ConditionalGaussianDiagPDF(M, b, Sigma | Lambda, …)` stores
exactly the arrays `ConditionalGaussianPDF(…)` stores; only the class flag differs (and both
raise in the same case). -/
theorem C15_diag_cond_eq (M : Arr R (Mat Dy Dx ℝ)) (b : Option (Arr R (Vec Dy ℝ)))
    (Sigma Lambda : Option (Arr R (Mat Dy Dy ℝ))) (ld : Option (Arr R ℝ))
    (hS : ∀ S, Sigma = some S → ∀ r, DiagPD (S r))
    (hL : Sigma = none → ∀ L, Lambda = some L → ∀ r, DiagPD (L r)) :
    mkCond be true M b Sigma Lambda ld =
      (mkCond be false M b Sigma Lambda ld).map fun c => { c with diag := true } := by
  simp only [mkCond, condCovInit_diag_eq hbe Sigma Lambda ld hS hL]
  cases condCovInit be false Sigma Lambda ld <;> rfl

/-- the same for the identity-mean classes -/
theorem C15_diag_condId_eq (Sigma Lambda : Option (Arr R (Mat D D ℝ))) (ld : Option (Arr R ℝ))
    (hS : ∀ S, Sigma = some S → ∀ r, DiagPD (S r))
    (hL : Sigma = none → ∀ L, Lambda = some L → ∀ r, DiagPD (L r)) :
    mkCondId be true Sigma Lambda ld =
      (mkCondId be false Sigma Lambda ld).map fun c => { c with diag := true } := by
  simp only [mkCondId, condCovInit_diag_eq hbe Sigma Lambda ld hS hL]
  cases condCovInit be false Sigma Lambda ld <;> rfl

/-- **C15 (diagonal conditionals)**, field form: the resulting `Sigma`, `Lambda`, `ln_det_Sigma`
agree. -/
theorem C15_diag_cond (M : Arr R (Mat Dy Dx ℝ)) (b : Option (Arr R (Vec Dy ℝ)))
    (Sigma Lambda : Option (Arr R (Mat Dy Dy ℝ))) (ld : Option (Arr R ℝ))
    (hS : ∀ S, Sigma = some S → ∀ r, DiagPD (S r))
    (hL : Sigma = none → ∀ L, Lambda = some L → ∀ r, DiagPD (L r))
    (cd cf : CondB R Dy Dx ℝ) (hd : mkCond be true M b Sigma Lambda ld = some cd)
    (hf : mkCond be false M b Sigma Lambda ld = some cf) (r : Fin R) :
    toM (cd.Sigma r) = toM (cf.Sigma r) ∧ toM (cd.Lambda r) = toM (cf.Lambda r) ∧
      cd.lnDetSigma r = cf.lnDetSigma r ∧ cd.M = cf.M ∧ cd.b = cf.b := by
  rw [C15_diag_cond_eq hbe M b Sigma Lambda ld hS hL, hf] at hd
  simp only [Option.map_some, Option.some.injEq] at hd
  subst hd
  exact ⟨rfl, rfl, rfl, rfl, rfl⟩

/-- and the diagonal constructor called with a diagonal positive definite `Sigma` only yields a
well-formed conditional (`Λ = Σ⁻¹`, `ln_det_Sigma = log det Σ`) — like the general one -/
theorem C15_diag_cond_ok (diag : Bool) (M : Arr R (Mat Dy Dx ℝ)) (b : Option (Arr R (Vec Dy ℝ)))
    (S : Arr R (Mat Dy Dy ℝ)) (hS : ∀ r, DiagPD (S r)) :
    ∃ c, mkCond be diag M b (some S) none none = some c ∧ C10.CondOK c ∧ c.Sigma = S := by
  refine ⟨⟨diag, M, b.getD (tab fun _ => zeroV), S, (invertBatch be diag S).1, (invertBatch be diag S).2⟩,
    by simp [mkCond, condCovInit], ⟨fun r => (hS r).posDef, fun r => ?_, fun r => ?_⟩, rfl⟩
  · exact (invertBatch_spec hbe diag S (fun r => (hS r).posDef) (fun _ r => (hS r).diag) r).1
  · exact (invertBatch_spec hbe diag S (fun r => (hS r).posDef) (fun _ r => (hS r).diag) r).2

end diagcond

/-! ## 6. NN-controlled conditionals with the control fixed

`NNControlGaussianConditional.<op>(u, …)` is *by definition* `set_control_variable(u).<op>(…)`:
the harness (and the Python code) first builds the general conditional `nnSetControl nn out`
(`out = control_func(u)`) and then calls the general operation on it.  So every NN operation
*is* the general operation on the conditional described by `C15_nn_set_control`; there is nothing
further to prove about the operations themselves. -/

section nn

/-- **C15 (NN-control)**: `set_control_variable(u)` returns the general conditional with
`M[r,i,j] = out[r, i*Dx+j]`, `b[r,i] = out[r, Dy*Dx+i]` and the covariance data of the
NN-conditional tiled over the control inputs. -/
theorem C15_nn_set_control {Ru : Nat} (nn : CondB 1 Dy Dx ℝ) (out : Arr Ru (Vec (Dy * Dx + Dy) ℝ))
    (r : Fin Ru) :
    (∀ (i : Fin Dy) (j : Fin Dx) (h : i.1 * Dx + j.1 < Dy * Dx + Dy),
        (nnSetControl nn out).M r i j = out r ⟨i.1 * Dx + j.1, h⟩) ∧
    (∀ (i : Fin Dy) (h : Dy * Dx + i.1 < Dy * Dx + Dy),
        (nnSetControl nn out).b r i = out r ⟨Dy * Dx + i.1, h⟩) ∧
    (nnSetControl nn out).Sigma r = nn.Sigma 0 ∧ (nnSetControl nn out).Lambda r = nn.Lambda 0 ∧
    (nnSetControl nn out).lnDetSigma r = nn.lnDetSigma 0 ∧ (nnSetControl nn out).diag = false := by
  refine ⟨fun i j h => ?_, fun i h => ?_, ?_, ?_, ?_, rfl⟩ <;> simp [nnSetControl]

/-- the conditional with the control fixed is well formed whenever the NN-conditional's covariance
data is (e.g. built by `mkNNCond`, below) -/
theorem nnSetControl_ok {Ru : Nat} (nn : CondB 1 Dy Dx ℝ) (hnn : C10.CondOK nn)
    (out : Arr Ru (Vec (Dy * Dx + Dy) ℝ)) : C10.CondOK (nnSetControl nn out) := by
  refine ⟨fun r => ?_, fun r => ?_, fun r => ?_⟩ <;> simp only [nnSetControl, tab_apply]
  · exact hnn.posDef 0
  · exact hnn.lambda 0
  · exact hnn.lnDet 0

theorem mkNNCond_ok {be : Backend ℝ} (hbe : be.Spec) (Sigma : Arr 1 (Mat Dy Dy ℝ))
    (hS : ∀ r, (toM (Sigma r)).PosDef) : C10.CondOK (mkNNCond (Dx := Dx) be Sigma) := by
  refine ⟨hS, fun r => ?_, fun r => ?_⟩
  · exact (invertBatch_spec hbe false Sigma hS (by simp) r).1
  · exact (invertBatch_spec hbe false Sigma hS (by simp) r).2

/-- consequently the general theorems apply verbatim, e.g. `condition_on_x` with the control fixed is
the normal density `N(y; M(u) x + b(u), Σ)` -/
theorem C15_nn_conditionOnX {be : Backend ℝ} (hbe : be.Spec) {Ru K : Nat} (Sigma : Arr 1 (Mat Dy Dy ℝ))
    (hS : ∀ r, (toM (Sigma r)).PosDef) (out : Arr Ru (Vec (Dy * Dx + Dy) ℝ)) (xs : Arr K (Vec Dx ℝ))
    (k : Fin (Ru * K)) (y : Fin Dy → ℝ) :
    let c := nnSetControl (mkNNCond (Dx := Dx) be Sigma) out
    (c.conditionOnX be xs).evalLn k (ofV y) =
      normalLn (toM (c.M (unflatL k)) *ᵥ toV (xs (unflatR k)) + toV (c.b (unflatL k)))
        (toM (Sigma 0))⁻¹ (Real.log (toM (Sigma 0)).det) y := by
  intro c
  have hc : C10.CondOK c := nnSetControl_ok _ (mkNNCond_ok hbe Sigma hS) out
  rw [C10.conditionOnX_evalLn hbe c hc xs k y]
  simp [c, nnSetControl, mkNNCond]

end nn

/-! ## the hypotheses are what the constructors establish; non-vacuity -/

section nonvacuity

/-- a diagonal model matrix -/
noncomputable def diagMat {n : Nat} (d : Fin n → ℝ) : Mat n n ℝ := ofM (Matrix.diagonal d)

theorem diagMat_ok {n : Nat} (d : Fin n → ℝ) (hd : ∀ i, 0 < d i) : DiagPD (diagMat d) := by
  refine ⟨fun i j hij => ?_, ?_⟩
  · simp [diagMat, ofM, Matrix.diagonal, hij]
  · rw [diagMat, toM_ofM]; exact Matrix.PosDef.diagonal hd

/-- a rank-one factor `g v vᵀ` with `g ≥ 0` is a documented (positive semidefinite) factor -/
theorem factorPSD_oneRank (v : Arr R (Vec D ℝ)) (g : Arr R ℝ) (nu : Arr R (Vec D ℝ)) (lb : Arr R ℝ)
    (hg : ∀ r, 0 ≤ g r) : C04.FactorPSD (.oneRank v g nu lb) := by
  intro r
  have h : toM ((oneRankLambda v g) r) = g r • vecMulVec (toV (v r)) (toV (v r)) := by
    ext i j
    simp [oneRankLambda, vecMulVec_apply]; ring
  simp only [Factor.toB]
  rw [h]
  have hp := posSemidef_vecMulVec_self_star (toV (v r))
  rw [star_trivial] at hp
  exact hp.smul (hg r)

theorem factorPSD_linear (nu : Arr R (Vec D ℝ)) (lb : Arr R ℝ) : C04.FactorPSD (.linear nu lb) := by
  intro r; simp only [Factor.toB, tab_apply, toM_zeroM]; exact Matrix.PosSemidef.zero

theorem factorPSD_constant (lb : Arr R ℝ) : C04.FactorPSD (.constant (D := D) lb) := by
  intro r; simp only [Factor.toB, tab_apply, toM_zeroM]; exact Matrix.PosSemidef.zero

/-- the identity-mean constructors (full and diagonal) called with a covariance establish all the
hypotheses used in section 5 -/
theorem mkCondId_ok {be : Backend ℝ} (hbe : be.Spec) (diag : Bool) (S : Arr R (Mat D D ℝ))
    (hS : ∀ r, (toM (S r)).PosDef) (hd : diag = true → ∀ r i j, i ≠ j → S r i j = 0) :
    ∃ c, mkCondId be diag (some S) none none = some c ∧ C07.CondIdOK c ∧ CondIdDiagOK c ∧
      c.diag = diag ∧ c.Sigma = S := by
  refine ⟨⟨diag, S, (invertBatch be diag S).1, (invertBatch be diag S).2⟩,
    by simp [mkCondId, condCovInit], ⟨hS, fun r => ?_, fun r => ?_⟩, ?_, rfl, rfl⟩
  · exact (invertBatch_spec hbe diag S hS hd r).1
  · exact (invertBatch_spec hbe diag S hS hd r).2
  · intro hdg r i j hij
    simp only at hdg
    subst hdg
    simp [invertBatch, invertDiagonal, hij]

/-- **non-vacuity**: with the concrete backend `Backend.sat` (which satisfies the contract) there
are a non-trivial diagonal positive definite matrix, a consistent diagonal measure, a rank-one
factor with non-zero off-diagonal precision, and a diagonal identity-mean conditional satisfying
the hypotheses of the theorems above; the conclusions are instantiated on them. -/
example :
    (∃ A : Mat 2 2 ℝ, DiagPD A ∧ A 1 1 = 3 ∧ invertDiagonal A = invertMatrix Backend.sat A) ∧
    (∃ (u : MeasureB 1 2 ℝ) (f : Factor 2 2 ℝ), u.cls = .diagMeasure ∧ u.Inv ∧ C04.FactorPSD f ∧
        f.toB.Lambda 0 0 1 = 6 ∧
        (u.multiply Backend.sat f true).cov = (u.multiply Backend.sat (.general f.toB) true).cov ∧
        (u.intView Backend.sat).2 = (({ u with cls := .measure } : MeasureB 1 2 ℝ).intView Backend.sat).2) ∧
    (∃ c : CondIdB 2 2 ℝ, c.diag = true ∧ C07.CondIdOK c ∧ CondIdDiagOK c ∧ c.Sigma 0 1 1 = 3 ∧
        ∀ p : PdfV 3 2 ℝ, c.affineJoint Backend.sat p = c.toCond.affineJoint Backend.sat p) := by
  have hA : DiagPD (diagMat ![2, 3]) := diagMat_ok _ (fun i => by fin_cases i <;> norm_num)
  refine ⟨⟨diagMat ![2, 3], hA, by simp [diagMat, ofM],
    C15_invert_diagonal_eq Backend.sat_spec _ hA⟩, ?_, ?_⟩
  · have hu : (MeasureB.mk0 .diagMeasure (tab fun _ : Fin 1 => diagMat ![2, 3]) (tab fun _ => zeroV)
        (tab fun _ => 0)).Inv :=
      inv_mk0 _ _ _ _ (fun r => by simpa using hA.posDef) (fun _ r i j hij => by simpa using hA.diag i j hij)
    have hf : C04.FactorPSD (Factor.oneRank (tab fun _ : Fin 2 => ofV ![2, 3]) (tab fun _ => (1 : ℝ))
        (tab fun _ => zeroV) (tab fun _ => 0)) :=
      factorPSD_oneRank _ _ _ _ (fun r => by simp)
    refine ⟨_, _, rfl, hu, hf, ?_, (C15_factor_kinds_multiply Backend.sat_spec _ _ hu hf).2.1,
      (C15_diag_measure_view Backend.sat_spec hu).1⟩
    simp [Factor.toB, oneRankLambda, ofV]; norm_num
  · obtain ⟨c, -, hc, hd, hdg, hS⟩ := mkCondId_ok Backend.sat_spec true (tab fun _ : Fin 2 => diagMat ![2, 3])
      (fun r => by simpa using hA.posDef) (fun _ r i j hij => by simpa using hA.diag i j hij)
    refine ⟨c, hdg, hc, hd, ?_, fun p => C15_identity_affineJoint c hc p⟩
    rw [hS]; simp [diagMat, ofM]

end nonvacuity

end GT.Props.C15

section axioms
#print axioms GT.Props.C15.C15_invert_diagonal
#print axioms GT.Props.C15.C15_invert_diagonal_eq
#print axioms GT.Props.C15.C15_invert_batch
#print axioms GT.Props.C15.C15_invert_batch_eq
#print axioms GT.Props.C15.C15_diag_measure_log_integral
#print axioms GT.Props.C15.C15_diag_measure_view
#print axioms GT.Props.C15.C15_diag_measure_fresh
#print axioms GT.Props.C15.C15_diag_measure_product
#print axioms GT.Props.C15.C15_diag_pdf_eq
#print axioms GT.Props.C15.C15_diag_pdf
#print axioms GT.Props.C15.C15_diag_pdf_evalLn
#print axioms GT.Props.C15.C15_diag_pdf_view
#print axioms GT.Props.C15.C15_diag_pdf_getMarginal
#print axioms GT.Props.C15.C15_diag_pdf_slice
#print axioms GT.Props.C15.C15_factor_kinds_toB
#print axioms GT.Props.C15.C15_factor_kinds_evalLn
#print axioms GT.Props.C15.C15_factor_kinds_cov
#print axioms GT.Props.C15.C15_factor_kinds_mass
#print axioms GT.Props.C15.C15_factor_kinds_multiply
#print axioms GT.Props.C15.C15_identity_conditionOnX
#print axioms GT.Props.C15.C15_identity_affineMarginal
#print axioms GT.Props.C15.C15_identity_setY
#print axioms GT.Props.C15.C15_identity_setY_toB
#print axioms GT.Props.C15.C15_identity_affineConditional
#print axioms GT.Props.C15.C15_identity_affineConditional_fields
#print axioms GT.Props.C15.C15_identity_affineJoint
#print axioms GT.Props.C15.C15_identity_affineJoint_evalLn
#print axioms GT.Props.C15.C15_identity_conditionalEntropy
#print axioms GT.Props.C15.C15_identity_mutualInformation
#print axioms GT.Props.C15.C15_diag_cond_ops
#print axioms GT.Props.C15.C15_diag_cond_eq
#print axioms GT.Props.C15.C15_diag_condId_eq
#print axioms GT.Props.C15.C15_diag_cond
#print axioms GT.Props.C15.C15_diag_cond_ok
#print axioms GT.Props.C15.C15_nn_set_control
#print axioms GT.Props.C15.C15_nn_conditionOnX
#print axioms GT.Props.C15.mkCondId_ok
end axioms
