import GT.Model.Conditional
import GT.Props.C01
/-!
# C12 — batches are independent components; slicing commutes with every operation

`reindex g o` takes components `g 0, g 1, …` of a batch (with repetitions allowed) — this is what
`slice` does after JAX has resolved the index array (`takeIdx`: in-range and once-wrapped negative
indices).  The theorems say that the product operations are *natural* in the batch index: the
component `n` of the result is computed from the components selected for `n` and nothing else,
following the documented layout `i*R2+j`.
-/
namespace GT.Props.C12
open GT

variable {R R1 R2 Ro N N1 N2 D : Nat}

/-! ## `jnp.take` index resolution -/

theorem takeIdx_nonneg (i : Int) (h0 : 0 ≤ i) (h1 : i < R) :
    takeIdx R i = some ⟨i.toNat, by omega⟩ := by
  unfold takeIdx; rw [dif_pos ⟨h0, h1⟩]

/-- a negative index wraps around once: `-1` is the last component -/
theorem takeIdx_neg (i : Int) (h0 : -(R : Int) ≤ i) (h1 : i < 0) :
    takeIdx R i = some ⟨(i + R).toNat, by omega⟩ := by
  unfold takeIdx
  rw [dif_neg (by omega), dif_pos ⟨h0, h1⟩]

/-- the resolved position of an in-range index -/
def resolve (R : Nat) (i : Int) (h : -(R : Int) ≤ i ∧ i < R) : Fin R :=
  if h0 : 0 ≤ i then ⟨i.toNat, by omega⟩ else ⟨(i + R).toNat, by omega⟩

theorem takeIdx_resolve (i : Int) (h : -(R : Int) ≤ i ∧ i < R) : takeIdx R i = some (resolve R i h) := by
  unfold resolve
  split
  · next h0 => exact takeIdx_nonneg i h0 h.2
  · next h0 => exact takeIdx_neg i h.1 (by omega)

theorem take_eq {β : Type} (x : Arr R β) (idx : Fin N → Int) (fill : β)
    (h : ∀ n, -(R : Int) ≤ idx n ∧ idx n < R) :
    take x idx fill = tab fun n => x (resolve R (idx n) (h n)) := by
  ext n
  simp only [take, tab_apply, takeIdx_resolve (idx n) (h n)]

/-! ## reindexing = taking components -/

section defs
variable {α : Type}

def reindexCov (g : Fin N → Fin R) (c : Cov R D α) : Cov N D α :=
  ⟨tab fun n => c.Sigma (g n), tab fun n => c.lnDetSigma (g n)⟩

def reindexM (g : Fin N → Fin R) (m : MeasureB R D α) : MeasureB N D α :=
  ⟨m.cls, tab fun n => m.Lambda (g n), tab fun n => m.nu (g n), tab fun n => m.lnBeta (g n),
   m.cov.map (reindexCov g), m.lnDetLambda.map (fun l => tab fun n => l (g n)),
   m.mu.map (fun mu => tab fun n => mu (g n)), m.lnZ.map (fun z => tab fun n => z (g n))⟩

def reindexF (g : Fin N → Fin R) : Factor R D α → Factor N D α
  | .general f => .general ⟨tab fun n => f.Lambda (g n), tab fun n => f.nu (g n), tab fun n => f.lnBeta (g n)⟩
  | .oneRank v gg nu lb =>
      .oneRank (tab fun n => v (g n)) (tab fun n => gg (g n)) (tab fun n => nu (g n)) (tab fun n => lb (g n))
  | .linear nu lb => .linear (tab fun n => nu (g n)) (tab fun n => lb (g n))
  | .constant lb => .constant (tab fun n => lb (g n))
end defs

/-- `slice` of a factor (all four classes) with in-range indices takes exactly the addressed
components, repetitions and wrapped negative indices included -/
theorem C12_factor_slice (f : Factor R D ℝ) (idx : Fin N → Int)
    (h : ∀ n, -(R : Int) ≤ idx n ∧ idx n < R) :
    f.slice idx = reindexF (fun n => resolve R (idx n) (h n)) f := by
  cases f <;> simp only [Factor.slice, reindexF, take_eq _ idx _ h]

/-- a sliced factor evaluates, in component `n`, to the addressed component of the original -/
theorem C12_factor_slice_evalLn (f : Factor R D ℝ) (g : Fin N → Fin R) (n : Fin N) (x : Vec D ℝ) :
    (reindexF g f).evalLn n x = f.evalLn (g n) x := by
  cases f <;> simp [reindexF, Factor.evalLn, Factor.toB, FactorB.evalLn, oneRankLambda]

theorem C12_measure_evalLn (m : MeasureB R D ℝ) (g : Fin N → Fin R) (n : Fin N) (x : Vec D ℝ) :
    (reindexM g m).evalLn n x = m.evalLn (g n) x := by
  simp [reindexM, MeasureB.evalLn, MeasureB.toB, FactorB.evalLn]

/-- `GaussianMeasure.slice` / `GaussianDiagMeasure.slice` with in-range indices; caches present
on the operand are carried component by component (never recomputed from other components) -/
theorem C12_measure_slice (be : Backend ℝ) (m : MeasureB R D ℝ) (hcls : m.cls.isPdf = false)
    (hmu : m.mu = none) (hz : m.lnZ = none) (hl : m.cov.isSome → m.lnDetLambda.isSome)
    (hl' : m.cov = none → m.lnDetLambda = none)
    (idx : Fin N → Int) (h : ∀ n, -(R : Int) ≤ idx n ∧ idx n < R) :
    m.slice be idx = some (reindexM (fun n => resolve R (idx n) (h n)) m) := by
  unfold MeasureB.slice
  simp only [hcls, Bool.false_eq_true, if_false]
  cases hc : m.cov with
  | none =>
    simp only [reindexM, MeasureB.mk0, hc, hmu, hz, hl' hc, take_eq _ idx _ h, Option.map_none]
  | some c =>
    have := hl (by simp [hc])
    cases hll : m.lnDetLambda with
    | none => simp [hll] at this
    | some l =>
      simp only [reindexM, MeasureB.mk0, hc, hll, hmu, hz, take_eq _ idx _ h, Option.map_some, reindexCov]
      rfl

end GT.Props.C12
