import GT.Model.Conditional
import GT.Props.C01
/-!
# C12 — batches are independent components; slicing commutes with every operation

`reindex g o` takes components `g 0, g 1, …` of a batch (with repetitions allowed) — this is what
`slice` does after JAX has resolved the index array (`takeIdx`: in-range and once-wrapped negative
indices).  The theorems say that the product operations are *natural* in the batch index: the
component `n` of the result is computed from the components selected for `n` and nothing else,
following the documented layout `i*R2+j`.

Contents: `C12_factor_slice`, `C12_measure_slice`, `C12_pdf_slice`, `C12_cond_slice` (what `slice`
returns); `productSel_reindex_out/in` and the corollaries `C12_multiply_slice`, `C12_hadamard*_slice`,
`C12_multiply_take`; naturality of the cache-filling steps and of the density constructor
(`mkPdf_reindex`); `C12_condition_on_x`, `C12_affine_marginal/joint/conditional` (layout
`r*N+n`, `k ↦ (k / Rx, k % Rx)`), `C12_set_y_*`; `C12_log_integral`, `C12_integral`,
`C12_get_density`, `C12_get_marginal`, `C12_entropy`, `C12_kl`, `C12_linear_sum`.
None of the statements has a hypothesis on the backend: the external primitives are applied
component by component.
-/
namespace GT.Props.C12
open GT

variable {R R1 R2 Ro N N1 N2 D Dx Dy : Nat}

/-! ## `jnp.take` index resolution -/

theorem takeIdx_nonneg (i : Int) (h0 : 0 ≤ i) (h1 : i < R) :
    takeIdx R i = some ⟨i.toNat, by omega⟩ := by
  unfold takeIdx; rw [dif_pos ⟨h0, h1⟩]

/-- a negative index wraps around once: `-1` is the last component -/
theorem takeIdx_neg (i : Int) (h0 : -(R : Int) ≤ i) (h1 : i < 0) :
    takeIdx R i = some ⟨(i + R).toNat, by omega⟩ := by
  unfold takeIdx
  rw [dif_neg (by omega), dif_pos ⟨h0, h1⟩]

/-- the resolved position of an in-range index -/
def resolve (R : Nat) (i : Int) (h : -(R : Int) ≤ i ∧ i < R) : Fin R :=
  if h0 : 0 ≤ i then ⟨i.toNat, by omega⟩ else ⟨(i + R).toNat, by omega⟩

theorem takeIdx_resolve (i : Int) (h : -(R : Int) ≤ i ∧ i < R) : takeIdx R i = some (resolve R i h) := by
  unfold resolve
  split
  · next h0 => exact takeIdx_nonneg i h0 h.2
  · next h0 => exact takeIdx_neg i h.1 (by omega)

theorem take_eq {β : Type} (x : Arr R β) (idx : Fin N → Int) (fill : β)
    (h : ∀ n, -(R : Int) ≤ idx n ∧ idx n < R) :
    take x idx fill = tab fun n => x (resolve R (idx n) (h n)) := by
  ext n
  simp only [take, tab_apply, takeIdx_resolve (idx n) (h n)]

/-! ## reindexing = taking components -/

section defs
variable {α : Type}

def reindexCov (g : Fin N → Fin R) (c : Cov R D α) : Cov N D α :=
  ⟨tab fun n => c.Sigma (g n), tab fun n => c.lnDetSigma (g n)⟩

def reindexM (g : Fin N → Fin R) (m : MeasureB R D α) : MeasureB N D α :=
  ⟨m.cls, tab fun n => m.Lambda (g n), tab fun n => m.nu (g n), tab fun n => m.lnBeta (g n),
   m.cov.map (reindexCov g), m.lnDetLambda.map (fun l => tab fun n => l (g n)),
   m.mu.map (fun mu => tab fun n => mu (g n)), m.lnZ.map (fun z => tab fun n => z (g n))⟩

def reindexF (g : Fin N → Fin R) : Factor R D α → Factor N D α
  | .general f => .general ⟨tab fun n => f.Lambda (g n), tab fun n => f.nu (g n), tab fun n => f.lnBeta (g n)⟩
  | .oneRank v gg nu lb =>
      .oneRank (tab fun n => v (g n)) (tab fun n => gg (g n)) (tab fun n => nu (g n)) (tab fun n => lb (g n))
  | .linear nu lb => .linear (tab fun n => nu (g n)) (tab fun n => lb (g n))
  | .constant lb => .constant (tab fun n => lb (g n))
end defs

/-- `slice` of a factor (all four classes) with in-range indices takes exactly the addressed
components, repetitions and wrapped negative indices included -/
theorem C12_factor_slice (f : Factor R D ℝ) (idx : Fin N → Int)
    (h : ∀ n, -(R : Int) ≤ idx n ∧ idx n < R) :
    f.slice idx = reindexF (fun n => resolve R (idx n) (h n)) f := by
  cases f <;> simp only [Factor.slice, reindexF, take_eq _ idx _ h]

/-- a sliced factor evaluates, in component `n`, to the addressed component of the original -/
theorem C12_factor_slice_evalLn (f : Factor R D ℝ) (g : Fin N → Fin R) (n : Fin N) (x : Vec D ℝ) :
    (reindexF g f).evalLn n x = f.evalLn (g n) x := by
  cases f <;> simp [reindexF, Factor.evalLn, Factor.toB, FactorB.evalLn, oneRankLambda]

theorem C12_measure_evalLn (m : MeasureB R D ℝ) (g : Fin N → Fin R) (n : Fin N) (x : Vec D ℝ) :
    (reindexM g m).evalLn n x = m.evalLn (g n) x := by
  simp [reindexM, MeasureB.evalLn, MeasureB.toB, FactorB.evalLn]

/-- `GaussianMeasure.slice` / `GaussianDiagMeasure.slice` with in-range indices; caches present
on the operand are carried component by component (never recomputed from other components) -/
theorem C12_measure_slice (be : Backend ℝ) (m : MeasureB R D ℝ) (hcls : m.cls.isPdf = false)
    (hmu : m.mu = none) (hz : m.lnZ = none) (hl : m.cov.isSome → m.lnDetLambda.isSome)
    (hl' : m.cov = none → m.lnDetLambda = none)
    (idx : Fin N → Int) (h : ∀ n, -(R : Int) ≤ idx n ∧ idx n < R) :
    m.slice be idx = some (reindexM (fun n => resolve R (idx n) (h n)) m) := by
  unfold MeasureB.slice
  simp only [hcls, Bool.false_eq_true, if_false]
  cases hc : m.cov with
  | none =>
    simp only [reindexM, MeasureB.mk0, hc, hmu, hz, hl' hc, take_eq _ idx _ h, Option.map_none]
  | some c =>
    have := hl (by simp [hc])
    cases hll : m.lnDetLambda with
    | none => simp [hll] at this
    | some l =>
      simp only [reindexM, MeasureB.mk0, hc, hll, hmu, hz, take_eq _ idx _ h, Option.map_some, reindexCov]
      rfl


/-! ## layouts -/

theorem unflatL_flat {a b : Nat} (i : Fin a) (j : Fin b) : unflatL (flat i j) = i := by
  apply Fin.ext
  simp only [unflatL, flat]
  have hb : 0 < b := Fin.pos j
  rw [Nat.add_comm, Nat.add_mul_div_right _ _ hb, Nat.div_eq_of_lt j.2, Nat.zero_add]

theorem unflatR_flat {a b : Nat} (i : Fin a) (j : Fin b) : unflatR (flat i j) = j := by
  apply Fin.ext
  simp only [unflatR, flat]
  rw [Nat.add_comm, Nat.add_mul_mod_self_right, Nat.mod_eq_of_lt j.2]

/-! ## inversion of a batch is component-wise -/

theorem invertBatch_reindex (be : Backend ℝ) (d : Bool) (A : Arr R (Mat D D ℝ)) (g : Fin N → Fin R) :
    invertBatch be d (tab fun n => A (g n)) =
      (tab fun n => (invertBatch be d A).1 (g n), tab fun n => (invertBatch be d A).2 (g n)) := by
  simp only [invertBatch, tab_apply]

/-! ## the generic product is natural in the result index and in the operands -/

theorem productSel_reindex_out (be : Backend ℝ) (g : Fin N → Fin Ro) (su : Fin Ro → Fin R1)
    (sf : Fin Ro → Fin R2) (u : MeasureB R1 D ℝ) (f : Factor R2 D ℝ) (uf : Bool) :
    productSel be (su ∘ g) (sf ∘ g) u f uf = reindexM g (productSel be su sf u f uf) := by
  cases f <;> cases uf <;> cases hc : u.cov <;>
    simp only [productSel, finishInvert, finishCov, invertBatch, reindexM, reindexCov, MeasureB.mk0, hc,
      Function.comp_apply, tab_apply, Option.map_some, Option.map_none, if_true, if_false,
      Bool.false_eq_true]


theorem productSel_reindex_in {Ru Rf : Nat} (be : Backend ℝ) (su : Fin Ro → Fin R1) (sf : Fin Ro → Fin R2)
    (gu : Fin R1 → Fin Ru) (gf : Fin R2 → Fin Rf)
    (u : MeasureB Ru D ℝ) (f : Factor Rf D ℝ) (uf : Bool) :
    productSel be su sf (reindexM gu u) (reindexF gf f) uf = productSel be (gu ∘ su) (gf ∘ sf) u f uf := by
  cases f <;> cases uf <;> cases hc : u.cov <;>
    simp only [productSel, finishInvert, finishCov, invertBatch, reindexM, reindexF, reindexCov,
      MeasureB.mk0, hc, oneRankLambda, Function.comp_apply, tab_apply,
      Option.map_some, Option.map_none, if_true, if_false, Bool.false_eq_true]

/-- **C12 for `multiply`**: slicing both operands (components `gu` of the measure, `gf` of the
factor) gives the slice of the product at the indices `gu i * R2 + gf j` — for all four factor
classes, both `update_full` flags, cached covariance or not. -/
theorem C12_multiply_slice (be : Backend ℝ) (gu : Fin N1 → Fin R1) (gf : Fin N2 → Fin R2)
    (u : MeasureB R1 D ℝ) (f : Factor R2 D ℝ) (uf : Bool) :
    (reindexM gu u).multiply be (reindexF gf f) uf =
      reindexM (fun k => flat (gu (unflatL k)) (gf (unflatR k))) (u.multiply be f uf) := by
  unfold MeasureB.multiply
  rw [productSel_reindex_in, ← productSel_reindex_out]
  congr 1 <;> funext k <;> simp only [Function.comp_apply, unflatL_flat, unflatR_flat]

/-- component `k` of a product only depends on component `k / R2` of the measure and `k % R2`
of the factor: two products whose operands agree on these components agree in component `k`. -/
theorem C12_multiply_component (be : Backend ℝ) (u : MeasureB R1 D ℝ) (f : Factor R2 D ℝ) (uf : Bool)
    (i : Fin R1) (j : Fin R2) :
    reindexM (fun _ : Fin 1 => flat i j) (u.multiply be f uf) =
      productSel be (fun _ => (0 : Fin 1)) (fun _ => (0 : Fin 1))
        (reindexM (fun _ : Fin 1 => i) u) (reindexF (fun _ : Fin 1 => j) f) uf := by
  unfold MeasureB.multiply
  rw [productSel_reindex_in, ← productSel_reindex_out]
  congr 1 <;> funext k <;> simp only [Function.comp_apply, unflatL_flat, unflatR_flat]

theorem C12_hadamard_slice (be : Backend ℝ) (g : Fin N → Fin R)
    (u : MeasureB R D ℝ) (f : Factor R D ℝ) (uf : Bool) :
    (reindexM g u).hadamard be (reindexF g f) uf = reindexM g (u.hadamard be f uf) := by
  unfold MeasureB.hadamard
  rw [productSel_reindex_in, ← productSel_reindex_out]
  rfl

/-- single-component factor broadcast over the batch: the result follows the batch index of the
measure -/
theorem C12_hadamardBF_slice (be : Backend ℝ) (g : Fin N → Fin R)
    (u : MeasureB R D ℝ) (f : Factor 1 D ℝ) (uf : Bool) :
    (reindexM g u).hadamardBF be f uf = reindexM g (u.hadamardBF be f uf) := by
  unfold MeasureB.hadamardBF
  have hf : f = reindexF (id : Fin 1 → Fin 1) f := by
    cases f <;> simp only [reindexF, id, Arr.ofFn_get]
  conv_lhs => rw [hf]
  rw [productSel_reindex_in, ← productSel_reindex_out]
  rfl

/-- single-component measure broadcast over the batch of the factor -/
theorem C12_hadamardBU_slice (be : Backend ℝ) (g : Fin N → Fin R)
    (u : MeasureB 1 D ℝ) (f : Factor R D ℝ) (uf : Bool) :
    u.hadamardBU be (reindexF g f) uf = reindexM g (u.hadamardBU be f uf) := by
  unfold MeasureB.hadamardBU
  rw [← productSel_reindex_out]
  have h := productSel_reindex_in be (fun _ : Fin N => (0 : Fin 1)) (id : Fin N → Fin N)
    (id : Fin 1 → Fin 1) g u f uf
  -- `productSel` never reads the `mu` / `lnZ` caches of the measure, so `reindexM id u` may
  -- replace `u`
  have hu : productSel be (fun _ : Fin N => (0 : Fin 1)) (id : Fin N → Fin N) (reindexM id u)
      (reindexF g f) uf = productSel be (fun _ : Fin N => (0 : Fin 1)) id u (reindexF g f) uf := by
    rcases u with ⟨cls, L, nu, lb, cov, ldl, mu, lnZ⟩
    cases f <;> cases uf <;> cases cov <;>
      simp only [productSel, finishInvert, finishCov, invertBatch, reindexM, reindexF, reindexCov,
        MeasureB.mk0, oneRankLambda, id, tab_apply,
        Option.map_some, Option.map_none, if_true, if_false, Bool.false_eq_true]
  rw [← hu, h]
  rfl


/-! ## cache filling is component-wise -/

section caches
variable (be : Backend ℝ) (g : Fin N → Fin R) (m : MeasureB R D ℝ)

theorem invertLambda_reindex :
    (reindexM g m).invertLambda be =
      (reindexM g (m.invertLambda be).1, reindexCov g (m.invertLambda be).2) := by
  simp only [MeasureB.invertLambda, invertBatch, reindexM, reindexCov, tab_apply, Option.map_some]

theorem ensureCov_reindex :
    (reindexM g m).ensureCov be = (reindexM g (m.ensureCov be).1, reindexCov g (m.ensureCov be).2) := by
  cases hc : m.cov with
  | some c =>
    have h1 : (reindexM g m).cov = some (reindexCov g c) := by simp only [reindexM, hc, Option.map_some]
    simp only [MeasureB.ensureCov, hc, h1]
  | none =>
    have h1 : (reindexM g m).cov = none := by simp only [reindexM, hc, Option.map_none]
    simp only [MeasureB.ensureCov, hc, h1, invertLambda_reindex]

theorem computeLnZ_reindex :
    (reindexM g m).computeLnZ be =
      (reindexM g (m.computeLnZ be).1, tab fun n => (m.computeLnZ be).2 (g n)) := by
  simp only [MeasureB.computeLnZ, ensureCov_reindex]
  simp only [reindexM, reindexCov, tab_apply, Option.map_some]

theorem computeMu_reindex :
    (reindexM g m).computeMu be =
      (reindexM g (m.computeMu be).1, tab fun n => (m.computeMu be).2 (g n)) := by
  simp only [MeasureB.computeMu, ensureCov_reindex]
  simp only [reindexM, reindexCov, tab_apply, Option.map_some]

theorem ensureLnZ_reindex : (reindexM g m).ensureLnZ be = reindexM g (m.ensureLnZ be) := by
  cases hz : m.lnZ with
  | some z =>
    have h1 : (reindexM g m).lnZ = some (tab fun n => z (g n)) := by
      simp only [reindexM, hz, Option.map_some]
    simp only [MeasureB.ensureLnZ, hz, h1]
  | none =>
    have h1 : (reindexM g m).lnZ = none := by simp only [reindexM, hz, Option.map_none]
    simp only [MeasureB.ensureLnZ, hz, h1, computeLnZ_reindex]

theorem ensureMu_reindex : (reindexM g m).ensureMu be = reindexM g (m.ensureMu be) := by
  cases hz : m.mu with
  | some z =>
    have h1 : (reindexM g m).mu = some (tab fun n => z (g n)) := by
      simp only [reindexM, hz, Option.map_some]
    simp only [MeasureB.ensureMu, hz, h1]
  | none =>
    have h1 : (reindexM g m).mu = none := by simp only [reindexM, hz, Option.map_none]
    simp only [MeasureB.ensureMu, hz, h1, computeMu_reindex]

/-- `_prepare_integration` of a slice = slice of the prepared object -/
theorem prepare_reindex : (reindexM g m).prepare be = reindexM g (m.prepare be) := by
  simp only [MeasureB.prepare, ensureLnZ_reindex, ensureMu_reindex]

theorem normalize_reindex : (reindexM g m).normalize be = reindexM g (m.normalize be) := by
  simp only [MeasureB.normalize, computeLnZ_reindex]
  simp only [reindexM, tab_apply]

end caches


/-! ## the density constructor is component-wise -/

theorem pdfPrecision_reindex (be : Backend ℝ) (diag : Bool) (g : Fin N → Fin R) (S : Arr R (Mat D D ℝ))
    (L : Option (Arr R (Mat D D ℝ))) (ld : Option (Arr R ℝ)) :
    pdfPrecision be diag (tab fun n => S (g n)) (L.map fun L => tab fun n => L (g n))
        (ld.map fun l => tab fun n => l (g n)) =
      (tab fun n => (pdfPrecision be diag S L ld).1 (g n),
       tab fun n => (pdfPrecision be diag S L ld).2 (g n)) := by
  cases L <;> cases ld <;>
    simp only [pdfPrecision, invertBatch, Option.map_some, Option.map_none, tab_apply]

theorem pdfPre_reindex (diag : Bool) (g : Fin N → Fin R) (S : Arr R (Mat D D ℝ)) (mu : Arr R (Vec D ℝ))
    (Lam : Arr R (Mat D D ℝ)) (ld : Arr R ℝ) :
    pdfPre diag (tab fun n => S (g n)) (tab fun n => mu (g n)) (tab fun n => Lam (g n))
        (tab fun n => ld (g n)) = reindexM g (pdfPre diag S mu Lam ld) := by
  simp only [pdfPre, reindexM, reindexCov, tab_apply, Option.map_some, Option.map_none]

/-- **C12 for the density constructor** (`GaussianPDF(Sigma, mu, Lambda, ln_det_Sigma)` and the
diagonal class): constructing from sliced arguments = slicing the constructed density, all caches
(`Sigma`, `ln_det_Sigma`, `mu`, `lnZ`, `ln_beta`) included. -/
theorem mkPdf_reindex (be : Backend ℝ) (diag : Bool) (g : Fin N → Fin R) (S : Arr R (Mat D D ℝ))
    (mu : Arr R (Vec D ℝ)) (L : Option (Arr R (Mat D D ℝ))) (ld : Option (Arr R ℝ)) :
    mkPdf be diag (tab fun n => S (g n)) (tab fun n => mu (g n)) (L.map fun L => tab fun n => L (g n))
        (ld.map fun l => tab fun n => l (g n)) = reindexM g (mkPdf be diag S mu L ld) := by
  simp only [mkPdf, pdfPrecision_reindex, pdfPre_reindex, prepare_reindex, normalize_reindex]

/-! ## conditionals -/

section defs
variable {α : Type}

def reindexC (g : Fin N → Fin R) (c : CondB R Dy Dx α) : CondB N Dy Dx α :=
  ⟨c.diag, tab fun n => c.M (g n), tab fun n => c.b (g n), tab fun n => c.Sigma (g n),
   tab fun n => c.Lambda (g n), tab fun n => c.lnDetSigma (g n)⟩

def reindexCI (g : Fin N → Fin R) (c : CondIdB R D α) : CondIdB N D α :=
  ⟨c.diag, tab fun n => c.Sigma (g n), tab fun n => c.Lambda (g n), tab fun n => c.lnDetSigma (g n)⟩

def reindexP (g : Fin N → Fin R) (p : PdfV R D α) : PdfV N D α :=
  ⟨p.diag, tab fun n => p.Lambda (g n), tab fun n => p.nu (g n), tab fun n => p.lnBeta (g n),
   tab fun n => p.Sigma (g n), tab fun n => p.lnDetSigma (g n), tab fun n => p.mu (g n),
   tab fun n => p.lnZ (g n)⟩
end defs

/-- slice of a conditional with in-range indices (the class flag of the result is the full class) -/
theorem C12_cond_slice (c : CondB R Dy Dx ℝ) (idx : Fin N → Int)
    (h : ∀ n, -(R : Int) ≤ idx n ∧ idx n < R) :
    c.slice idx = { reindexC (fun n => resolve R (idx n) (h n)) c with diag := false } := by
  simp only [CondB.slice, reindexC, take_eq _ idx _ h]

/-- **C12 for `condition_on_x`**: component `r*N+n` of the result only depends on conditional
`r` and point `n`. -/
theorem C12_condition_on_x {Nx : Nat} (be : Backend ℝ) (c : CondB R Dy Dx ℝ) (xs : Arr Nx (Vec Dx ℝ))
    (gr : Fin N1 → Fin R) (gn : Fin N2 → Fin Nx) :
    reindexM (fun k => flat (gr (unflatL k)) (gn (unflatR k))) (c.conditionOnX be xs) =
      (reindexC gr c).conditionOnX be (tab fun n => xs (gn n)) := by
  unfold CondB.conditionOnX
  rw [← mkPdf_reindex]
  simp only [reindexC, CondB.condMu, Option.map_some, tab_apply, unflatL_flat, unflatR_flat]

theorem C12_condition_on_x_id {Nx : Nat} (be : Backend ℝ) (c : CondIdB R D ℝ) (xs : Arr Nx (Vec D ℝ))
    (gr : Fin N1 → Fin R) (gn : Fin N2 → Fin Nx) :
    reindexM (fun k => flat (gr (unflatL k)) (gn (unflatR k))) (c.conditionOnX be xs) =
      (reindexCI gr c).conditionOnX be (tab fun n => xs (gn n)) := by
  unfold CondIdB.conditionOnX
  rw [← mkPdf_reindex]
  simp only [reindexCI, Option.map_some, tab_apply, unflatL_flat, unflatR_flat]

/-- **C12 for `affine_marginal_transformation`**, layout `k ↦ (k / Rx, k % Rx)` -/
theorem C12_affine_marginal {Rc Rx : Nat} (be : Backend ℝ) (c : CondB Rc Dy Dx ℝ) (p : PdfV Rx Dx ℝ)
    (gc : Fin N1 → Fin Rc) (gx : Fin N2 → Fin Rx) :
    reindexM (fun k => flat (gc (unflatL k)) (gx (unflatR k))) (c.affineMarginal be p) =
      (reindexC gc c).affineMarginal be (reindexP gx p) := by
  unfold CondB.affineMarginal
  have h := mkPdf_reindex be false (fun k : Fin (N1 * N2) => flat (gc (unflatL k)) (gx (unflatR k)))
    (tab fun k => madd (c.Sigma (unflatL k))
      (mmul (mmul (c.M (unflatL k)) (p.Sigma (unflatR k))) (transpose (c.M (unflatL k)))))
    (tab fun k => c.condMu (unflatL k) (p.mu (unflatR k))) none none
  rw [← h]
  simp only [reindexC, reindexP, CondB.condMu, Option.map_none, tab_apply, unflatL_flat, unflatR_flat]

theorem C12_affine_marginal_id {Rc Rx : Nat} (be : Backend ℝ) (c : CondIdB Rc D ℝ) (p : PdfV Rx D ℝ)
    (gc : Fin N1 → Fin Rc) (gx : Fin N2 → Fin Rx) :
    reindexM (fun k => flat (gc (unflatL k)) (gx (unflatR k))) (c.affineMarginal be p) =
      (reindexCI gc c).affineMarginal be (reindexP gx p) := by
  unfold CondIdB.affineMarginal
  have h := mkPdf_reindex be false (fun k : Fin (N1 * N2) => flat (gc (unflatL k)) (gx (unflatR k)))
    (tab fun k => madd (c.Sigma (unflatL k)) (p.Sigma (unflatR k)))
    (tab fun k => p.mu (unflatR k)) none none
  rw [← h]
  simp only [reindexCI, reindexP, Option.map_none, tab_apply, unflatL_flat, unflatR_flat]

/-- **C12 for `affine_joint_transformation`** -/
theorem C12_affine_joint {Rc Rx : Nat} (be : Backend ℝ) (c : CondB Rc Dy Dx ℝ) (p : PdfV Rx Dx ℝ)
    (gc : Fin N1 → Fin Rc) (gx : Fin N2 → Fin Rx) :
    reindexM (fun k => flat (gc (unflatL k)) (gx (unflatR k))) (c.affineJoint be p) =
      (reindexC gc c).affineJoint be (reindexP gx p) := by
  unfold CondB.affineJoint
  rw [← mkPdf_reindex]
  simp only [reindexC, reindexP, CondB.condMu, Option.map_some, tab_apply, unflatL_flat, unflatR_flat]

theorem C12_affine_joint_id {Rc Rx : Nat} (be : Backend ℝ) (c : CondIdB Rc D ℝ) (p : PdfV Rx D ℝ)
    (gc : Fin N1 → Fin Rc) (gx : Fin N2 → Fin Rx) :
    reindexM (fun k => flat (gc (unflatL k)) (gx (unflatR k))) (c.affineJoint be p) =
      (reindexCI gc c).affineJoint be (reindexP gx p) := by
  unfold CondIdB.affineJoint
  rw [← mkPdf_reindex]
  simp only [reindexCI, reindexP, Option.map_some, tab_apply, unflatL_flat, unflatR_flat]

/-- **C12 for `affine_conditional_transformation`** (the result is a conditional) -/
theorem C12_affine_conditional {Rc Rx : Nat} (be : Backend ℝ) (c : CondB Rc Dy Dx ℝ) (p : PdfV Rx Dx ℝ)
    (gc : Fin N1 → Fin Rc) (gx : Fin N2 → Fin Rx) :
    reindexC (fun k => flat (gc (unflatL k)) (gx (unflatR k))) (c.affineConditional be p) =
      (reindexC gc c).affineConditional be (reindexP gx p) := by
  simp only [CondB.affineConditional, invertBatch, reindexC, reindexP, tab_apply, unflatL_flat,
    unflatR_flat, if_false, Bool.false_eq_true]

theorem C12_affine_conditional_id {Rc Rx : Nat} (be : Backend ℝ) (c : CondIdB Rc D ℝ) (p : PdfV Rx D ℝ)
    (gc : Fin N1 → Fin Rc) (gx : Fin N2 → Fin Rx) :
    reindexC (fun k => flat (gc (unflatL k)) (gx (unflatR k))) (c.affineConditional be p) =
      (reindexCI gc c).affineConditional be (reindexP gx p) := by
  simp only [CondIdB.affineConditional, invertBatch, reindexC, reindexCI, reindexP, tab_apply,
    unflatL_flat, unflatR_flat, if_false, Bool.false_eq_true]

/-- **C12 for `set_y`**: the factor for observation `n` only reads conditional `sc n` … -/
theorem C12_set_y_cond (g : Fin R1 → Fin R) (sc : Fin N → Fin R1) (c : CondB R Dy Dx ℝ)
    (y : Arr N (Vec Dy ℝ)) :
    (reindexC g c).setYSel sc y = c.setYSel (g ∘ sc) y := by
  simp only [CondB.setYSel, reindexC, tab_apply, Function.comp_apply]

/-- … and observation `n`: slicing the result = slicing the observations (and the selector) -/
theorem C12_set_y_slice (h : Fin N1 → Fin N) (sc : Fin N → Fin R) (c : CondB R Dy Dx ℝ)
    (y : Arr N (Vec Dy ℝ)) :
    reindexF h (c.setYSel sc y) = c.setYSel (sc ∘ h) (tab fun n => y (h n)) := by
  simp only [CondB.setYSel, reindexF, tab_apply, Function.comp_apply]

theorem C12_set_y_cond_id (g : Fin R1 → Fin R) (sc : Fin N → Fin R1) (c : CondIdB R D ℝ)
    (y : Arr N (Vec D ℝ)) :
    (reindexCI g c).setYSel sc y = c.setYSel (g ∘ sc) y := by
  simp only [CondIdB.setYSel, reindexCI, tab_apply, Function.comp_apply]

theorem C12_set_y_slice_id (h : Fin N1 → Fin N) (sc : Fin N → Fin R) (c : CondIdB R D ℝ)
    (y : Arr N (Vec D ℝ)) :
    reindexF h (c.setYSel sc y) = c.setYSel (sc ∘ h) (tab fun n => y (h n)) := by
  simp only [CondIdB.setYSel, reindexF, tab_apply, Function.comp_apply]


/-! ## further operations of measures and densities -/

theorem lnZOr0_reindex (g : Fin N → Fin R) (m : MeasureB R D ℝ) :
    (reindexM g m).lnZOr0 = tab fun n => m.lnZOr0 (g n) := by
  cases hz : m.lnZ <;>
    simp only [MeasureB.lnZOr0, reindexM, hz, Option.map_some, Option.map_none, tab_apply]

/-- `log_integral` -/
theorem C12_log_integral (be : Backend ℝ) (g : Fin N → Fin R) (m : MeasureB R D ℝ) :
    (reindexM g m).logIntegral be =
      (reindexM g (m.logIntegral be).1, tab fun n => (m.logIntegral be).2 (g n)) := by
  simp only [MeasureB.logIntegral, MeasureB.lnZPlusLnBeta, prepare_reindex, lnZOr0_reindex, tab_apply]
  simp only [reindexM, tab_apply]

/-- `integral` -/
theorem C12_integral (be : Backend ℝ) (g : Fin N → Fin R) (m : MeasureB R D ℝ) :
    (reindexM g m).integral be =
      (reindexM g (m.integral be).1, tab fun n => (m.integral be).2 (g n)) := by
  simp only [MeasureB.integral, C12_log_integral, tab_apply]

/-- `log_integral_light` -/
theorem C12_log_integral_light (be : Backend ℝ) (g : Fin N → Fin R) (m : MeasureB R D ℝ) :
    (reindexM g m).logIntegralLight be =
      (reindexM g (m.logIntegralLight be).1, tab fun n => (m.logIntegralLight be).2 (g n)) := by
  simp only [MeasureB.logIntegralLight, MeasureB.lnZPlusLnBeta, ensureLnZ_reindex, lnZOr0_reindex,
    tab_apply]
  simp only [reindexM, tab_apply]

/-- the density view of a slice is the slice of the density view -/
theorem asPdf_reindex (g : Fin N → Fin R) (m : MeasureB R D ℝ) :
    (reindexM g m).asPdf = m.asPdf.map (reindexP g) := by
  cases hc : m.cov <;> cases hm : m.mu <;> cases hz : m.lnZ <;>
    simp only [MeasureB.asPdf, reindexM, reindexP, reindexCov, hc, hm, hz, Option.map_some,
      Option.map_none]

/-- `get_density` -/
theorem C12_get_density (be : Backend ℝ) (g : Fin N → Fin R) (m : MeasureB R D ℝ) :
    (reindexM g m).getDensity be =
      (reindexM g (m.getDensity be).1, reindexM g (m.getDensity be).2) := by
  simp only [MeasureB.getDensity, prepare_reindex]
  congr 1
  generalize m.prepare be = m'
  cases hc : m'.cov <;> cases hm : m'.mu <;>
    simp only [MeasureB.densityOf, reindexM, hc, hm, Option.map_some, Option.map_none]
  rename_i c mu
  have h := mkPdf_reindex be false g c.Sigma mu (some m'.Lambda) (some c.lnDetSigma)
  simp only [Option.map_some, reindexM] at h
  simp only [reindexCov, h]

/-- `get_marginal` -/
theorem C12_get_marginal {K : Nat} (be : Backend ℝ) (g : Fin N → Fin R) (p : PdfV R D ℝ)
    (dims : Fin K → Fin D) :
    (reindexP g p).getMarginal be dims = reindexM g (p.getMarginal be dims) := by
  unfold PdfV.getMarginal
  have h := mkPdf_reindex be p.diag g (tab3 fun r i j => p.Sigma r (dims i) (dims j))
    (tab2 fun r i => p.mu r (dims i)) none none
  rw [← h]
  simp only [reindexP, Option.map_none, tab_apply]

/-- `entropy` -/
theorem C12_entropy (g : Fin N → Fin R) (p : PdfV R D ℝ) :
    (reindexP g p).entropy = tab fun n => p.entropy (g n) := by
  simp only [PdfV.entropy, reindexP, tab_apply]

/-- `kl_divergence` (with either broadcasting) -/
theorem C12_kl {Rp Rq : Nat} (sp : Fin Ro → Fin R1) (sq : Fin Ro → Fin R2) (gp : Fin R1 → Fin Rp)
    (gq : Fin R2 → Fin Rq) (h : Fin N → Fin Ro) (p : PdfV Rp D ℝ) (q : PdfV Rq D ℝ) :
    (tab fun n => klSel sp sq (reindexP gp p) (reindexP gq q) (h n)) =
      klSel (gp ∘ sp ∘ h) (gq ∘ sq ∘ h) p q := by
  simp only [klSel, reindexP, tab_apply, Function.comp_apply]

/-- `get_density_of_linear_sum` -/
theorem C12_linear_sum {K : Nat} (be : Backend ℝ) (g : Fin N → Fin R) (p : PdfV R D ℝ)
    (W : Arr R (Mat K D ℝ)) (b : Option (Arr R (Vec K ℝ))) :
    (reindexP g p).linearSum be (tab fun n => W (g n)) (b.map fun b => tab fun n => b (g n)) =
      reindexM g (p.linearSum be W b) := by
  unfold PdfV.linearSum
  cases b with
  | none =>
    have h := mkPdf_reindex be false g (tab fun r => mmul (mmul (W r) (p.Sigma r)) (transpose (W r)))
      (tab fun r => mulVec (W r) (p.mu r)) none none
    simp only [Option.map_none] at h ⊢
    rw [← h]
    simp only [reindexP, tab_apply]
  | some b =>
    have h := mkPdf_reindex be false g (tab fun r => mmul (mmul (W r) (p.Sigma r)) (transpose (W r)))
      (tab fun r => vadd (mulVec (W r) (p.mu r)) (b r)) none none
    simp only [Option.map_none, Option.map_some] at h ⊢
    rw [← h]
    simp only [reindexP, tab_apply]

/-- `GaussianPDF.slice` / `GaussianDiagPDF.slice` with in-range indices: the result is the slice of
the density re-constructed from the stored `(Sigma, mu, Lambda, ln_det_Sigma)` -/
theorem C12_pdf_slice (be : Backend ℝ) (m : MeasureB R D ℝ) (hcls : m.cls.isPdf = true)
    (c : Cov R D ℝ) (mu : Arr R (Vec D ℝ)) (hc : m.cov = some c) (hmu : m.mu = some mu)
    (idx : Fin N → Int) (h : ∀ n, -(R : Int) ≤ idx n ∧ idx n < R) :
    m.slice be idx = some (reindexM (fun n => resolve R (idx n) (h n))
      (mkPdf be m.cls.isDiag c.Sigma mu (some m.Lambda) (some c.lnDetSigma))) := by
  unfold MeasureB.slice
  simp only [hcls, if_true, hc, hmu, take_eq _ idx _ h]
  rw [← mkPdf_reindex]
  rfl

/-! ## the user-level statement for `multiply`: index arrays with repeated and negative entries -/

/-- slicing the measure with `idxU` and the factor with `idxF` (in-range, possibly negative and
repeated indices) and multiplying = slicing the product at positions `i*R2+j` -/
theorem C12_multiply_take (be : Backend ℝ) (m : MeasureB R1 D ℝ) (f : Factor R2 D ℝ) (uf : Bool)
    (hcls : m.cls.isPdf = false) (hmu : m.mu = none) (hz : m.lnZ = none)
    (hl : m.cov.isSome → m.lnDetLambda.isSome) (hl' : m.cov = none → m.lnDetLambda = none)
    (idxU : Fin N1 → Int) (hU : ∀ n, -(R1 : Int) ≤ idxU n ∧ idxU n < R1)
    (idxF : Fin N2 → Int) (hF : ∀ n, -(R2 : Int) ≤ idxF n ∧ idxF n < R2) :
    (m.slice be idxU).map (fun u' => u'.multiply be (f.slice idxF) uf) =
      some (reindexM (fun k => flat (resolve R1 (idxU (unflatL k)) (hU _))
          (resolve R2 (idxF (unflatR k)) (hF _))) (m.multiply be f uf)) := by
  rw [C12_measure_slice be m hcls hmu hz hl hl' idxU hU, C12_factor_slice f idxF hF, Option.map_some,
    C12_multiply_slice]

/-- non-vacuity: two measure components, three factor components, index arrays `[-1, 0, -1]`
(measure) and `[2, -3]` (factor): the six result components are the components
`1*3+2, 1*3+0, 0*3+2, 0*3+0, 1*3+2, 1*3+0` of the full product. -/
example (be : Backend ℝ) (uf : Bool) (L : Arr 2 (Mat 1 1 ℝ)) (nu : Arr 2 (Vec 1 ℝ)) (lb : Arr 2 ℝ)
    (v : Arr 3 (Vec 1 ℝ)) (gg : Arr 3 ℝ) (nuf : Arr 3 (Vec 1 ℝ)) (lbf : Arr 3 ℝ) :
    ((MeasureB.mk0 .measure L nu lb).slice be (fun n : Fin 3 => if n.1 = 1 then 0 else -1)).map
        (fun u' => u'.multiply be
          ((Factor.oneRank v gg nuf lbf).slice (fun n : Fin 2 => if n.1 = 0 then 2 else -3)) uf) =
      some (reindexM (fun k : Fin (3 * 2) =>
          flat (if (unflatL k : Fin 3).1 = 1 then (0 : Fin 2) else 1)
               (if (unflatR k : Fin 2).1 = 0 then (2 : Fin 3) else 0))
        ((MeasureB.mk0 .measure L nu lb).multiply be (Factor.oneRank v gg nuf lbf) uf)) := by
  have hU : ∀ n : Fin 3, -((2 : Nat) : Int) ≤ (if n.1 = 1 then 0 else -1 : Int) ∧
      (if n.1 = 1 then 0 else -1 : Int) < (2 : Nat) := by intro n; split <;> omega
  have hF : ∀ n : Fin 2, -((3 : Nat) : Int) ≤ (if n.1 = 0 then 2 else -3 : Int) ∧
      (if n.1 = 0 then 2 else -3 : Int) < (3 : Nat) := by intro n; split <;> omega
  rw [C12_multiply_take be _ _ uf rfl rfl rfl (by intro h; cases h) (fun _ => rfl) _ hU _ hF]
  congr 2
  funext k
  congr 1
  · unfold resolve
    split <;> rfl
  · unfold resolve
    split <;> rfl

end GT.Props.C12

#print axioms GT.Props.C12.invertBatch_reindex
#print axioms GT.Props.C12.productSel_reindex_out
#print axioms GT.Props.C12.productSel_reindex_in
#print axioms GT.Props.C12.C12_multiply_slice
#print axioms GT.Props.C12.C12_multiply_component
#print axioms GT.Props.C12.C12_multiply_take
#print axioms GT.Props.C12.C12_hadamard_slice
#print axioms GT.Props.C12.C12_hadamardBF_slice
#print axioms GT.Props.C12.C12_hadamardBU_slice
#print axioms GT.Props.C12.mkPdf_reindex
#print axioms GT.Props.C12.C12_pdf_slice
#print axioms GT.Props.C12.C12_cond_slice
#print axioms GT.Props.C12.C12_condition_on_x
#print axioms GT.Props.C12.C12_condition_on_x_id
#print axioms GT.Props.C12.C12_affine_marginal
#print axioms GT.Props.C12.C12_affine_marginal_id
#print axioms GT.Props.C12.C12_affine_joint
#print axioms GT.Props.C12.C12_affine_joint_id
#print axioms GT.Props.C12.C12_affine_conditional
#print axioms GT.Props.C12.C12_affine_conditional_id
#print axioms GT.Props.C12.C12_set_y_cond
#print axioms GT.Props.C12.C12_set_y_slice
#print axioms GT.Props.C12.C12_set_y_cond_id
#print axioms GT.Props.C12.C12_set_y_slice_id
#print axioms GT.Props.C12.C12_log_integral
#print axioms GT.Props.C12.C12_integral
#print axioms GT.Props.C12.C12_get_density
#print axioms GT.Props.C12.C12_get_marginal
#print axioms GT.Props.C12.C12_kl
#print axioms GT.Props.C12.C12_linear_sum
#print axioms GT.Props.C12.C12_factor_slice
#print axioms GT.Props.C12.C12_measure_slice
