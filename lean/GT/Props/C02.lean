import GT.Bridge.Inv
import GT.Math.GaussianIntegral
/-!
# C02 — reported total mass equals the true integral; densities integrate to one

The right-hand sides are Lebesgue integrals over `Fin D → ℝ` (Mathlib), not a closed form.
-/
namespace GT.Props.C02
open GT Matrix MeasureTheory

variable {R D : Nat}

/-- the evaluated function in Mathlib vocabulary -/
theorem evalLn_eq (m : MeasureB R D ℝ) (r : Fin R) (x : Fin D → ℝ) :
    m.evalLn r (ofV x) =
      -(1 / 2) * (x ⬝ᵥ toM (m.Lambda r) *ᵥ x) + toV (m.nu r) ⬝ᵥ x + m.lnBeta r := by
  simp only [MeasureB.evalLn, MeasureB.toB, FactorB.evalLn, half_real, quad_eq, dot_eq, toV_ofV]
  rw [dotProduct_comm x (toV (m.nu r))]
  ring

/-- `∫ u_r(x) dx` for a positive definite precision (M1) -/
theorem integral_exp_evalLn (m : MeasureB R D ℝ) (r : Fin R) (hL : (toM (m.Lambda r)).PosDef) :
    ∫ x : Fin D → ℝ, Real.exp (m.evalLn r (ofV x)) =
      Real.exp (lnZRef (toM (m.Lambda r)) (toV (m.nu r)) + m.lnBeta r) := by
  have hsplit : ∀ x : Fin D → ℝ, Real.exp (m.evalLn r (ofV x)) =
      Real.exp (-(1 / 2) * (x ⬝ᵥ toM (m.Lambda r) *ᵥ x) + toV (m.nu r) ⬝ᵥ x) * Real.exp (m.lnBeta r) := by
    intro x; rw [evalLn_eq, Real.exp_add]
  simp_rw [hsplit]
  rw [integral_mul_const, GT.Math.gaussian_integral_posDef _ hL, ← Real.exp_add]
  simp [lnZRef]

variable {be : Backend ℝ} (hbe : be.Spec) {m : MeasureB R D ℝ}
include hbe

theorem lnZOr0_value {m' : MeasureB R D ℝ} (h : m'.Inv) (hz : m'.lnZ.isSome) (r : Fin R) :
    m'.lnZOr0 r = lnZRef (toM (m'.Lambda r)) (toV (m'.nu r)) := by
  unfold MeasureB.lnZOr0
  cases hl : m'.lnZ with
  | none => simp [hl] at hz
  | some z => exact h.lnZ z hl r

omit hbe in
theorem ensureLnZ_isSome : (m.ensureLnZ be).lnZ.isSome := by
  unfold MeasureB.ensureLnZ
  split
  · next z hz => simp [hz]
  · simp [MeasureB.computeLnZ]

omit hbe in
theorem prepare_lnZ_isSome : (m.prepare be).lnZ.isSome := by
  have h1 : (m.ensureLnZ be).lnZ.isSome := ensureLnZ_isSome
  unfold MeasureB.prepare MeasureB.ensureMu
  split
  · exact h1
  · rw [computeMu_fst_lnZ]; exact h1

theorem logIntegralLight_value (h : m.Inv) (r : Fin R) :
    (m.logIntegralLight be).2 r = lnZRef (toM (m.Lambda r)) (toV (m.nu r)) + m.lnBeta r := by
  simp only [MeasureB.logIntegralLight, MeasureB.lnZPlusLnBeta, tab_apply]
  rw [lnZOr0_value hbe (inv_ensureLnZ hbe h) ensureLnZ_isSome, ensureLnZ_Lambda, ensureLnZ_nu, ensureLnZ_lnBeta]

theorem logIntegral_value (h : m.Inv) (r : Fin R) :
    (m.logIntegral be).2 r = lnZRef (toM (m.Lambda r)) (toV (m.nu r)) + m.lnBeta r := by
  simp only [MeasureB.logIntegral, MeasureB.lnZPlusLnBeta, tab_apply]
  rw [lnZOr0_value hbe (inv_prepare hbe h) prepare_lnZ_isSome, prepare_Lambda, prepare_nu, prepare_lnBeta]

/-- **C02**: `log_integral()` is the logarithm of the integral of the evaluated function. -/
theorem C02_log_integral (h : m.Inv) (r : Fin R) :
    (m.logIntegral be).2 r = Real.log (∫ x : Fin D → ℝ, Real.exp (m.evalLn r (ofV x))) := by
  rw [logIntegral_value hbe h r, integral_exp_evalLn m r (h.posDef r), Real.log_exp]

theorem C02_log_integral_light (h : m.Inv) (r : Fin R) :
    (m.logIntegralLight be).2 r = Real.log (∫ x : Fin D → ℝ, Real.exp (m.evalLn r (ofV x))) := by
  rw [logIntegralLight_value hbe h r, integral_exp_evalLn m r (h.posDef r), Real.log_exp]

/-- `integral()` (= `integrate("1")`) is the integral of the evaluated function. -/
theorem C02_integral (h : m.Inv) (r : Fin R) :
    (m.integral be).2 r = ∫ x : Fin D → ℝ, Real.exp (m.evalLn r (ofV x)) := by
  simp only [MeasureB.integral, tab_apply, transc_exp]
  rw [logIntegral_value hbe h r, integral_exp_evalLn m r (h.posDef r)]

theorem C02_integral_light (h : m.Inv) (r : Fin R) :
    (m.integralLight be).2 r = ∫ x : Fin D → ℝ, Real.exp (m.evalLn r (ofV x)) := by
  simp only [MeasureB.integralLight, tab_apply, transc_exp]
  rw [logIntegralLight_value hbe h r, integral_exp_evalLn m r (h.posDef r)]

/-- `normalize()` yields exactly `u(x) / ∫u` (log domain). -/
theorem C02_normalize (h : m.Inv) (r : Fin R) (x : Fin D → ℝ) :
    (m.normalize be).evalLn r (ofV x) =
      m.evalLn r (ofV x) - Real.log (∫ y : Fin D → ℝ, Real.exp (m.evalLn r (ofV y))) := by
  rw [integral_exp_evalLn m r (h.posDef r), Real.log_exp, evalLn_eq, evalLn_eq]
  simp only [MeasureB.normalize, tab_apply, computeLnZ_fst_Lambda, computeLnZ_fst_nu]
  rw [computeLnZ_value hbe h r]
  ring

/-- a normalised measure integrates to one -/
theorem C02_normalize_integral (h : m.Inv) (r : Fin R) :
    ∫ x : Fin D → ℝ, Real.exp ((m.normalize be).evalLn r (ofV x)) = 1 := by
  have hn := inv_normalize (be := be) hbe h
  rw [integral_exp_evalLn _ r (hn.posDef r)]
  simp only [MeasureB.normalize, tab_apply, computeLnZ_fst_Lambda, computeLnZ_fst_nu]
  rw [computeLnZ_value hbe h r]
  simp

/-! ## densities -/

/-- what a caller of `GaussianPDF(Sigma, mu, Lambda, ln_det_Sigma)` must supply: a positive
definite covariance (diagonal for the diagonal class) and, if given, the *matching* redundant
arguments -/
structure PdfArgsOK (diag : Bool) (Sigma : Arr R (Mat D D ℝ)) (Lambda : Option (Arr R (Mat D D ℝ)))
    (lnDetSigma : Option (Arr R ℝ)) : Prop where
  posDef : ∀ r, (toM (Sigma r)).PosDef
  diagOK : diag = true → ∀ r i j, i ≠ j → Sigma r i j = 0
  lambdaOK : ∀ L, Lambda = some L → ∀ r, toM (L r) = (toM (Sigma r))⁻¹
  lnDetOK : ∀ L ld, Lambda = some L → lnDetSigma = some ld → ∀ r, ld r = Real.log (toM (Sigma r)).det

theorem pdfPrecision_spec (diag : Bool) (Sigma : Arr R (Mat D D ℝ))
    (Lambda : Option (Arr R (Mat D D ℝ))) (lnDetSigma : Option (Arr R ℝ))
    (h : PdfArgsOK diag Sigma Lambda lnDetSigma) (r : Fin R) :
    toM ((pdfPrecision be diag Sigma Lambda lnDetSigma).1 r) = (toM (Sigma r))⁻¹ ∧
      (pdfPrecision be diag Sigma Lambda lnDetSigma).2 r = Real.log (toM (Sigma r)).det := by
  have hS := h.posDef
  unfold pdfPrecision
  cases hL : Lambda with
  | none => exact invertBatch_spec hbe diag Sigma hS h.diagOK r
  | some L =>
    cases hd : lnDetSigma with
    | some ld => exact ⟨h.lambdaOK L hL r, h.lnDetOK L ld hL hd r⟩
    | none =>
      refine ⟨h.lambdaOK L hL r, ?_⟩
      simp only [tab_apply]
      rw [hbe.slogdet, abs_of_pos (hS r).det_pos]

omit hbe in
/-- the object before `_prepare_integration(); normalize()` in `GaussianPDF.__post_init__`
satisfies the invariant -/
theorem pdfPre_inv (diag : Bool) (Sigma : Arr R (Mat D D ℝ)) (mu : Arr R (Vec D ℝ))
    (Lam : Arr R (Mat D D ℝ)) (ld : Arr R ℝ) (hS : ∀ r, (toM (Sigma r)).PosDef)
    (hdg : diag = true → ∀ r i j, i ≠ j → Sigma r i j = 0)
    (hLam : ∀ r, toM (Lam r) = (toM (Sigma r))⁻¹) (hld : ∀ r, ld r = Real.log (toM (Sigma r)).det) :
    (pdfPre diag Sigma mu Lam ld).Inv := by
  have hdetS : ∀ r, IsUnit (toM (Sigma r)).det := fun r => (hS r).det_pos.ne'.isUnit
  have hLamPD : ∀ r, (toM (Lam r)).PosDef := fun r => by rw [hLam r]; exact (hS r).inv
  refine ⟨hLamPD, ?_, ?_, by simp [pdfPre], ?_, by simp [pdfPre], by simp [pdfPre], by simp [pdfPre]⟩
  · intro hcls r i j hij
    have hdiag : diag = true := by
      cases diag <;> simp_all [pdfPre, MCls.isDiag]
    have hSd : toM (Sigma r) = Matrix.diagonal fun i => Sigma r i i := by
      ext a b
      by_cases hab : a = b
      · subst hab; simp
      · simp [hab, hdg hdiag r a b hab]
    have : toM (Lam r) i j = 0 := by
      rw [hLam r, hSd, Matrix.inv_diagonal]
      simp [hij]
    simpa [pdfPre] using this
  · intro c hc r
    simp only [pdfPre, Option.some.injEq] at hc
    subst hc
    refine ⟨?_, hld r⟩
    simp only [pdfPre]
    rw [hLam r, Matrix.nonsing_inv_nonsing_inv _ (hdetS r)]
  · intro mu' hmu r
    simp only [pdfPre, Option.some.injEq] at hmu
    subst hmu
    simp only [pdfPre, tab_apply, toV_vecMul]
    have hsym : (toM (Lam r))ᵀ = toM (Lam r) := by
      rw [← Matrix.conjTranspose_eq_transpose_of_trivial]
      exact (hLamPD r).isHermitian
    rw [← Matrix.mulVec_transpose, hsym, Matrix.mulVec_mulVec,
      Matrix.nonsing_inv_mul _ (hLamPD r).det_pos.ne'.isUnit, Matrix.one_mulVec]

theorem mkPdf_pre_inv (diag : Bool) (Sigma : Arr R (Mat D D ℝ)) (mu : Arr R (Vec D ℝ))
    (Lambda : Option (Arr R (Mat D D ℝ))) (lnDetSigma : Option (Arr R ℝ))
    (h : PdfArgsOK diag Sigma Lambda lnDetSigma) :
    (pdfPre diag Sigma mu (pdfPrecision be diag Sigma Lambda lnDetSigma).1
      (pdfPrecision be diag Sigma Lambda lnDetSigma).2).Inv :=
  pdfPre_inv diag Sigma mu _ _ h.posDef h.diagOK
    (fun r => (pdfPrecision_spec hbe diag Sigma Lambda lnDetSigma h r).1)
    (fun r => (pdfPrecision_spec hbe diag Sigma Lambda lnDetSigma h r).2)

/-- **C02**: every object built by the density constructor — from `Sigma` only, `Sigma+Lambda`,
`Sigma+Lambda+ln_det_Sigma`, full or diagonal class — integrates to one. -/
theorem C02_density_integrates_to_one (diag : Bool) (Sigma : Arr R (Mat D D ℝ)) (mu : Arr R (Vec D ℝ))
    (Lambda : Option (Arr R (Mat D D ℝ))) (lnDetSigma : Option (Arr R ℝ))
    (h : PdfArgsOK diag Sigma Lambda lnDetSigma) (r : Fin R) :
    ∫ x : Fin D → ℝ, Real.exp ((mkPdf be diag Sigma mu Lambda lnDetSigma).evalLn r (ofV x)) = 1 := by
  exact C02_normalize_integral hbe (inv_prepare hbe (mkPdf_pre_inv hbe diag Sigma mu Lambda lnDetSigma h)) r

/-- the constructed density satisfies the invariant (used by C04 and by every API that returns a
density) -/
theorem mkPdf_inv (diag : Bool) (Sigma : Arr R (Mat D D ℝ)) (mu : Arr R (Vec D ℝ))
    (Lambda : Option (Arr R (Mat D D ℝ))) (lnDetSigma : Option (Arr R ℝ))
    (h : PdfArgsOK diag Sigma Lambda lnDetSigma) :
    (mkPdf be diag Sigma mu Lambda lnDetSigma).Inv := by
  exact inv_normalize hbe (inv_prepare hbe (mkPdf_pre_inv hbe diag Sigma mu Lambda lnDetSigma h))

omit hbe in
theorem ensureMu_mu_isSome {m' : MeasureB R D ℝ} : (m'.ensureMu be).mu.isSome := by
  unfold MeasureB.ensureMu
  split
  · next mu hmu => simp [hmu]
  · simp [MeasureB.computeMu]

/-- `get_density()` of any consistent measure integrates to one -/
theorem C02_get_density (h : m.Inv) (r : Fin R) :
    ∫ x : Fin D → ℝ, Real.exp ((m.getDensity be).2.evalLn r (ofV x)) = 1 := by
  have hp := inv_prepare (be := be) hbe h
  have hmu : (m.prepare be).mu.isSome := ensureMu_mu_isSome
  have hcov : (m.prepare be).cov.isSome := hp.covOfMu hmu
  simp only [MeasureB.getDensity, MeasureB.densityOf]
  cases hc : (m.prepare be).cov with
  | none => simp [hc] at hcov
  | some c =>
    cases hm : (m.prepare be).mu with
    | none => simp [hm] at hmu
    | some mu =>
      simp only []
      apply C02_density_integrates_to_one hbe
      refine ⟨?_, by simp, ?_, ?_⟩
      · intro r
        rw [(hp.cov c hc r).inv]
        exact (hp.posDef r).inv
      · intro L hL r
        simp only [Option.some.injEq] at hL
        subst hL
        rw [(hp.cov c hc r).inv, Matrix.nonsing_inv_nonsing_inv _ (hp.posDef r).det_pos.ne'.isUnit]
      · intro L ld _ hld r
        simp only [Option.some.injEq] at hld
        subst hld
        exact (hp.cov c hc r).logdet

/-! ## non-vacuity -/

/-- a concrete positive definite 2×2 precision satisfies the hypotheses -/
example : ∃ m : MeasureB 1 2 ℝ, m.Inv ∧ m.Lambda 0 0 1 = 1 := by
  refine ⟨MeasureB.mk0 .measure (tab fun _ => ofM !![2, 1; 1, 2]) (tab fun _ => zeroV) (tab fun _ => 0),
    inv_mk0 _ _ _ _ ?_ (by simp [MCls.isDiag]), by simp [MeasureB.mk0, ofM]⟩
  intro r
  simp only [tab_apply, toM_ofM]
  apply Matrix.PosDef.of_dotProduct_mulVec_pos
  · ext i j; fin_cases i <;> fin_cases j <;> simp
  · intro x hx
    have hx' : x 0 ≠ 0 ∨ x 1 ≠ 0 := by
      by_contra hcon
      push Not at hcon
      apply hx
      ext i; fin_cases i <;> simp [hcon.1, hcon.2]
    simp only [dotProduct, Matrix.mulVec, Fin.sum_univ_two, star_trivial, Matrix.of_apply,
      Matrix.cons_val', Matrix.cons_val_zero, Matrix.cons_val_one, Matrix.cons_val_fin_one]
    rcases hx' with h0 | h1
    · nlinarith [sq_nonneg (x 0 + x 1), sq_pos_of_ne_zero h0, sq_nonneg (x 1)]
    · nlinarith [sq_nonneg (x 0 + x 1), sq_pos_of_ne_zero h1, sq_nonneg (x 0)]

end GT.Props.C02
