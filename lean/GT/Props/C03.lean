import GT.Model.Integrals
import GT.Bridge.Matrix
import GT.Bridge.RealInst
/-!
# C03 — polynomial integrals up to fourth order: the algebraic layer

Every entry of the model's expectation functions equals the corresponding contraction of
Wick/Isserlis polynomials in the means `mean v f r i` and covariances `cov v f g r i j` of the
scalar affine forms involved.  (That the Wick polynomials *are* the Gaussian moments is the
analytic layer, proved elsewhere.)
-/
namespace GT.Props.C03
open GT Matrix

/-! ## reference polynomials -/

/-- `E[fg]` for jointly Gaussian scalars with means `m_·` and covariances `c_··` -/
def wick2 (mf mg cfg : ℝ) : ℝ := mf * mg + cfg
/-- `E[fgh]` -/
def wick3 (mf mg mh cfg cfh cgh : ℝ) : ℝ := mf * mg * mh + mf * cgh + mg * cfh + mh * cfg
/-- `E[fghk]` -/
def wick4 (mf mg mh mk cfg cfh cfk cgh cgk chk : ℝ) : ℝ :=
  mf * mg * mh * mk + mf * mg * chk + mf * mh * cgk + mf * mk * cgh + mg * mh * cfk + mg * mk * cfh
    + mh * mk * cfg + cfg * chk + cfh * cgk + cfk * cgh

variable {R D K L M : Nat}

/-- mean of row `i` of the affine form `f` under component `r` -/
def mean (v : IntV R D ℝ) (f : AffForm R K D ℝ) (r : Fin R) (i : Fin K) : ℝ :=
  ∑ j, f.A r i j * v.mu r j + f.a r i

/-- `A S Bᵀ` entrywise, on raw matrices -/
def covR (A : Mat K D ℝ) (S : Mat D D ℝ) (B : Mat L D ℝ) (i : Fin K) (j : Fin L) : ℝ :=
  ∑ k, ∑ l, A i k * S k l * B j l

/-- covariance between row `i` of `f` and row `j` of `g` under component `r` -/
def cov (v : IntV R D ℝ) (f : AffForm R K D ℝ) (g : AffForm R L D ℝ) (r : Fin R) (i : Fin K)
    (j : Fin L) : ℝ :=
  covR (f.A r) (v.Sigma r) (g.A r) i j

theorem cov_eq_sum (v : IntV R D ℝ) (f : AffForm R K D ℝ) (g : AffForm R L D ℝ) (r : Fin R)
    (i : Fin K) (j : Fin L) :
    cov v f g r i j = ∑ k, ∑ l, f.A r i k * v.Sigma r k l * g.A r j l := rfl

theorem aff_apply (v : IntV R D ℝ) (f : AffForm R K D ℝ) (r : Fin R) (i : Fin K) :
    (v.aff f r) i = mean v f r i := by
  simp only [IntV.aff, vadd_apply, mulVec_apply, mean]

theorem mmul_covR (A : Mat K D ℝ) (S : Mat D D ℝ) (B : Mat L D ℝ) (i : Fin K) (j : Fin L) :
    (mmul A (mmul S (transpose B))) i j = covR A S B i j := by
  simp only [mmul_apply, transpose_apply, covR, Finset.mul_sum, mul_assoc]

theorem ASB_apply (v : IntV R D ℝ) (f : AffForm R K D ℝ) (g : AffForm R L D ℝ) (r : Fin R)
    (i : Fin K) (j : Fin L) : (v.ASB f g r) i j = cov v f g r i j := by
  simp only [IntV.ASB, mmul_covR, cov]

theorem covR_symm {A : Mat K D ℝ} {S : Mat D D ℝ} {B : Mat L D ℝ} (hS : ∀ i j, S i j = S j i)
    (i : Fin K) (j : Fin L) : covR A S B i j = covR B S A j i := by
  simp only [covR]
  rw [Finset.sum_comm]
  refine Finset.sum_congr rfl fun k _ => Finset.sum_congr rfl fun l _ => ?_
  rw [hS l k]; ring

theorem cov_symm (v : IntV R D ℝ) (hS : ∀ r i j, v.Sigma r i j = v.Sigma r j i)
    (f : AffForm R K D ℝ) (g : AffForm R L D ℝ) (r : Fin R) (i : Fin K) (j : Fin L) :
    cov v f g r i j = cov v g f r j i := covR_symm (hS r) i j

/-! ## `_get_default` -/

theorem getDefault_none_A (r : Fin R) (i : Fin K) (j : Fin D) (vec : Option (VecArg R K ℝ)) :
    (getDefault (none : Option (MatArg R K D ℝ)) vec).A r i j = if i.1 = j.1 then 1 else 0 := by
  simp only [getDefault, tab_apply]

theorem getDefault_none_a (r : Fin R) (i : Fin K) (mat : Option (MatArg R K D ℝ)) :
    (getDefault mat (none : Option (VecArg R K ℝ))).a r i = 0 := by
  simp only [getDefault, tab_apply, zeroV_apply]

theorem getDefault_shared_A (A : Mat K D ℝ) (vec : Option (VecArg R K ℝ)) (r : Fin R) :
    (getDefault (some (MatArg.shared A)) vec).A r = A := by
  simp only [getDefault, tab_apply]

theorem getDefault_shared_a (a : Vec K ℝ) (mat : Option (MatArg R K D ℝ)) (r : Fin R) :
    (getDefault mat (some (VecArg.shared a))).a r = a := by
  simp only [getDefault, tab_apply]

theorem getDefault_perComp_A (A : Arr R (Mat K D ℝ)) (vec : Option (VecArg R K ℝ)) :
    (getDefault (some (MatArg.perComp A)) vec).A = A := rfl

theorem getDefault_perComp_a (a : Arr R (Vec K ℝ)) (mat : Option (MatArg R K D ℝ)) :
    (getDefault mat (some (VecArg.perComp a))).a = a := rfl

/-- the omitted form is `x` itself: mean `μ`, covariance `Σ` -/
theorem mean_default (v : IntV R D ℝ) (r : Fin R) (i : Fin D) :
    mean v (getDefault none none : AffForm R D D ℝ) r i = v.mu r i := by
  simp only [mean, getDefault_none_A, getDefault_none_a, add_zero, Fin.val_inj, ite_mul, one_mul,
    zero_mul, Finset.sum_ite_eq, Finset.mem_univ, if_true]

theorem cov_default (v : IntV R D ℝ) (r : Fin R) (i j : Fin D) :
    cov v (getDefault none none : AffForm R D D ℝ) (getDefault none none : AffForm R D D ℝ) r i j
      = v.Sigma r i j := by
  simp only [cov, covR, getDefault_none_A, Fin.val_inj, ite_mul, one_mul, zero_mul, mul_ite,
    mul_one, mul_zero, Finset.sum_ite_eq, Finset.mem_univ, if_true]

/-! ## linear, `xxᵀ` -/

theorem C03_alg_x (v : IntV R D ℝ) (r : Fin R) (i : Fin D) :
    v.integrateX r i = v.mass r * v.mu r i := by
  simp only [IntV.integrateX, tab2_apply]

theorem C03_alg_linear (v : IntV R D ℝ) (f : AffForm R K D ℝ) (r : Fin R) (i : Fin K) :
    (v.aff f r) i = mean v f r i := aff_apply v f r i

theorem C03_alg_linear_integrate (v : IntV R D ℝ) (f : AffForm R K D ℝ) (r : Fin R) (i : Fin K) :
    (v.integrateLinear f) r i = v.mass r * mean v f r i := by
  simp only [IntV.integrateLinear, tab_apply, smulV_apply, aff_apply]

theorem C03_alg_xxT (v : IntV R D ℝ) (r : Fin R) (i j : Fin D) :
    (v.Exx r) i j = wick2 (v.mu r i) (v.mu r j) (v.Sigma r i j) := by
  simp only [IntV.Exx, tab2_apply, wick2]; ring

theorem C03_alg_xxT_integrate (v : IntV R D ℝ) (r : Fin R) (i j : Fin D) :
    v.integrateXXT r i j = v.mass r * wick2 (v.mu r i) (v.mu r j) (v.Sigma r i j) := by
  simp only [IntV.integrateXXT, tab_apply, smulM_apply, C03_alg_xxT]

/-! ## keys whose model code is already written with `ASB`/`aff` -/

theorem C03_alg_xbxx (v : IntV R D ℝ) (b : Arr R (Vec D ℝ)) (r : Fin R) (i j : Fin D) :
    (v.expXbxx b r) i j = ∑ k, b r k * wick3 (v.mu r i) (v.mu r k) (v.mu r j)
      (v.Sigma r i k) (v.Sigma r i j) (v.Sigma r k j) := by
  simp only [IntV.expXbxx, IntV.Exx, tab2_apply, mmul_apply, outer_apply, dot_real, wick3,
    Finset.sum_mul, ← Finset.sum_add_distrib]
  refine Finset.sum_congr rfl fun k _ => ?_
  ring

theorem C03_alg_cubic_outer_x (v : IntV R D ℝ) (A : Arr R (Vec D ℝ)) (a : Arr R ℝ) (r : Fin R)
    (i j : Fin D) :
    (v.expCubicOuter A a r) i j = (∑ k, A r k * wick3 (v.mu r i) (v.mu r k) (v.mu r j)
      (v.Sigma r i k) (v.Sigma r i j) (v.Sigma r k j))
      + a r * wick2 (v.mu r i) (v.mu r j) (v.Sigma r i j) := by
  simp only [IntV.expCubicOuter, tab2_apply, C03_alg_xbxx, C03_alg_xxT]

theorem C03_alg_cubic_outer (v : IntV R D ℝ) (f g : AffForm R K D ℝ) (h : AffForm R L D ℝ)
    (r : Fin R) (j : Fin L) :
    (v.expCubicOuterG f g h r) j = ∑ i, wick3 (mean v f r i) (mean v g r i) (mean v h r j)
      (cov v f g r i i) (cov v f h r i j) (cov v g h r i j) := by
  simp only [IntV.expCubicOuterG, tab_apply, vecMul_apply, dot_real, trace_real,
    ASB_apply, aff_apply, wick3, Finset.sum_mul, neg_mul, ← Finset.sum_neg_distrib,
    ← Finset.sum_add_distrib]
  refine Finset.sum_congr rfl fun i _ => ?_
  ring

theorem C03_alg_quartic_outer (v : IntV R D ℝ) (f : AffForm R K D ℝ) (g h : AffForm R L D ℝ)
    (e : AffForm R M D ℝ) (r : Fin R) (i : Fin K) (j : Fin M) :
    (v.expQuarticOuter f g h e r) i j = ∑ l, wick4 (mean v f r i) (mean v g r l) (mean v h r l)
      (mean v e r j) (cov v f g r i l) (cov v f h r i l) (cov v f e r i j) (cov v g h r l l)
      (cov v g e r l j) (cov v h e r l j) := by
  simp only [IntV.expQuarticOuter, tab2_apply, mmul_apply, dot_real, trace_real,
    ASB_apply, aff_apply, wick4, Finset.sum_mul, ← Finset.sum_add_distrib]
  refine Finset.sum_congr rfl fun l _ => ?_
  ring

/-! ## contraction lemmas for the keys whose model code works on the raw matrices -/

theorem covR_toM (A : Mat K D ℝ) (S : Mat D D ℝ) (B : Mat L D ℝ) (i : Fin K) (j : Fin L) :
    covR A S B i j = (toM A * toM S * (toM B)ᵀ) i j := by
  simp only [covR, Matrix.mul_apply, Matrix.transpose_apply, toM_apply, Finset.sum_mul]
  rw [Finset.sum_comm]

theorem sum_sum_eq_trace (X : Matrix (Fin K) (Fin L) ℝ) (Y : Matrix (Fin L) (Fin K) ℝ) :
    ∑ i, ∑ l, X i l * Y l i = Matrix.trace (X * Y) := by
  simp only [Matrix.trace, Matrix.diag_apply, Matrix.mul_apply]

theorem bilin (x : Fin K → ℝ) (z : Fin L → ℝ) (B : Matrix (Fin K) (Fin D) ℝ)
    (S : Matrix (Fin D) (Fin D) ℝ) (C : Matrix (Fin L) (Fin D) ℝ) :
    ((x ᵥ* B) ᵥ* S) ⬝ᵥ (z ᵥ* C) = ∑ i, ∑ l, x i * z l * (B * S * Cᵀ) i l := by
  rw [Matrix.vecMul_vecMul, ← Matrix.mulVec_transpose C z, Matrix.dotProduct_mulVec,
    Matrix.vecMul_vecMul, ← Matrix.dotProduct_mulVec]
  simp only [dotProduct, Matrix.mulVec, Finset.mul_sum]
  refine Finset.sum_congr rfl fun i _ => Finset.sum_congr rfl fun l _ => ?_
  ring

/-- `A (Σ + μμᵀ) Bᵀ` -/
theorem quadOuter_core (A : Mat K D ℝ) (S : Mat D D ℝ) (B : Mat L D ℝ) (μ : Vec D ℝ) (i : Fin K)
    (j : Fin L) :
    (mmul A (mmul (tab2 fun i j => S i j + μ j * μ i) (transpose B))) i j
      = covR A S B i j + (∑ l, A i l * μ l) * (∑ k, B j k * μ k) := by
  rw [Finset.sum_mul_sum]
  simp only [mmul_apply, tab2_apply, transpose_apply, covR, Finset.mul_sum,
    ← Finset.sum_add_distrib]
  refine Finset.sum_congr rfl fun k _ => Finset.sum_congr rfl fun l _ => ?_
  ring

/-- `tr(AᵀB Σ)` -/
theorem quadInner_tr (A B : Mat K D ℝ) (S : Mat D D ℝ) :
    trace (mmul (mmul (transpose A) B) S) = ∑ i, covR B S A i i := by
  rw [trace_eq]
  simp only [toM_mmul, toM_transpose, covR_toM]
  rw [Matrix.trace_mul_cycle, Matrix.trace_mul_cycle]
  simp only [Matrix.trace, Matrix.diag_apply]

/-- `μᵀAᵀBμ` -/
theorem quadInner_mm (A B : Mat K D ℝ) (μ : Vec D ℝ) :
    dot (vecMul μ (mmul (transpose A) B)) μ = ∑ i, (∑ p, A i p * μ p) * (∑ q, B i q * μ q) := by
  rw [dot_eq]
  simp only [toV_vecMul, toM_mmul, toM_transpose]
  rw [← Matrix.vecMul_vecMul, Matrix.vecMul_transpose, ← Matrix.dotProduct_mulVec]
  simp only [dotProduct, Matrix.mulVec, toM_apply, toV_apply]

/-- `AΣ (Bᵀx + Cᵀy)` -/
theorem cubicInner_core (A : Mat K D ℝ) (S : Mat D D ℝ) (B C : Mat L D ℝ) (x y : Vec L ℝ)
    (i : Fin K) :
    (mulVec (mmul A S) (vadd (vecMul x B) (vecMul y C))) i
      = ∑ l, (x l * covR A S B i l + y l * covR A S C i l) := by
  show toV (mulVec (mmul A S) (vadd (vecMul x B) (vecMul y C))) i = _
  simp only [toV_mulVec, toM_mmul, toV_vadd, toV_vecMul, covR_toM]
  rw [Matrix.mulVec_add, ← Matrix.mulVec_transpose, ← Matrix.mulVec_transpose,
    Matrix.mulVec_mulVec, Matrix.mulVec_mulVec]
  simp only [Pi.add_apply, Matrix.mulVec, dotProduct, toV_apply, ← Finset.sum_add_distrib]
  refine Finset.sum_congr rfl fun l _ => ?_
  ring

theorem toM_symmetrize (X : Mat D D ℝ) :
    toM (tab2 fun i j => X i j + X j i) = toM X + (toM X)ᵀ := by
  ext i j; simp only [toM_apply, tab2_apply, Matrix.add_apply, Matrix.transpose_apply]

/-- `tr(A Σ (CᵀE + EᵀC) Σ Bᵀ)` -/
theorem quarticInner_first (A B : Mat K D ℝ) (S : Mat D D ℝ) (C E : Mat L D ℝ) :
    trace (mmul (mmul A (mmul (mmul S (tab2 fun i j =>
        (mmul (transpose C) E) i j + (mmul (transpose C) E) j i)) S)) (transpose B))
      = ∑ i, ∑ l, (covR A S C i l * covR E S B l i + covR A S E i l * covR C S B l i) := by
  rw [trace_eq]
  simp only [toM_mmul, toM_transpose, toM_symmetrize, covR_toM, Finset.sum_add_distrib,
    sum_sum_eq_trace]
  simp only [Matrix.mul_add, Matrix.add_mul, Matrix.trace_add, Matrix.transpose_mul,
    Matrix.transpose_transpose, Matrix.mul_assoc]

/-- `(Bᵀx + Aᵀy)ᵀ Σ (Cᵀz + Eᵀw)` -/
theorem quarticInner_second (A B : Mat K D ℝ) (S : Mat D D ℝ) (C E : Mat L D ℝ) (x y : Vec K ℝ)
    (z w : Vec L ℝ) :
    dot (vecMul (vadd (vecMul x B) (vecMul y A)) S) (vadd (vecMul z C) (vecMul w E))
      = ∑ i, ∑ l, (x i * z l * covR B S C i l + x i * w l * covR B S E i l
          + y i * z l * covR A S C i l + y i * w l * covR A S E i l) := by
  rw [dot_eq]
  simp only [toV_vecMul, toV_vadd, covR_toM, Matrix.add_vecMul, add_dotProduct, dotProduct_add,
    bilin, toV_apply, ← Finset.sum_add_distrib]
  refine Finset.sum_congr rfl fun i _ => Finset.sum_congr rfl fun l _ => ?_
  ring

/-! ## quadratic, cubic inner, quartic inner -/

theorem C03_alg_quad_outer (v : IntV R D ℝ) (f : AffForm R K D ℝ) (g : AffForm R L D ℝ)
    (r : Fin R) (i : Fin K) (j : Fin L) :
    (v.expQuadOuter f g r) i j = wick2 (mean v f r i) (mean v g r j) (cov v f g r i j) := by
  simp only [IntV.expQuadOuter, IntV.Exx, tab2_apply, quadOuter_core, mulVec_apply, aff_apply,
    wick2, cov, mean]
  ring

theorem C03_alg_quad_inner (v : IntV R D ℝ) (hS : ∀ r i j, v.Sigma r i j = v.Sigma r j i)
    (f g : AffForm R K D ℝ) (r : Fin R) :
    v.expQuadInner f g r = ∑ i, wick2 (mean v f r i) (mean v g r i) (cov v f g r i i) := by
  simp only [IntV.expQuadInner, quadInner_tr, quadInner_mm]
  simp only [dot_real, mulVec_apply, aff_apply,
    wick2, cov, covR_symm (hS r) (B := g.A r), mean, ← Finset.sum_add_distrib]
  refine Finset.sum_congr rfl fun i _ => ?_
  ring

theorem C03_alg_cubic_inner (v : IntV R D ℝ) (f : AffForm R K D ℝ) (g h : AffForm R L D ℝ)
    (r : Fin R) (i : Fin K) :
    (v.expCubicInner f g h r) i = ∑ l, wick3 (mean v f r i) (mean v g r l) (mean v h r l)
      (cov v f g r i l) (cov v f h r i l) (cov v g h r l l) := by
  simp only [IntV.expCubicInner, tab_apply, cubicInner_core, dot_real, trace_real, ASB_apply,
    aff_apply, wick3, cov, Finset.mul_sum, ← Finset.sum_add_distrib]
  refine Finset.sum_congr rfl fun l _ => ?_
  ring

theorem C03_alg_quartic_inner (v : IntV R D ℝ) (hS : ∀ r i j, v.Sigma r i j = v.Sigma r j i)
    (f g : AffForm R K D ℝ) (h e : AffForm R L D ℝ) (r : Fin R) :
    v.expQuarticInner f g h e r = ∑ i, ∑ l, wick4 (mean v f r i) (mean v g r i) (mean v h r l)
      (mean v e r l) (cov v f g r i i) (cov v f h r i l) (cov v f e r i l) (cov v g h r i l)
      (cov v g e r i l) (cov v h e r l l) := by
  simp only [IntV.expQuarticInner, quarticInner_first, quarticInner_second]
  simp only [dot_real, trace_real, ASB_apply, aff_apply, ← Finset.sum_add_distrib]
  rw [Finset.sum_mul_sum]
  simp only [cov, wick4, ← Finset.sum_add_distrib]
  refine Finset.sum_congr rfl fun i _ => Finset.sum_congr rfl fun l _ => ?_
  rw [covR_symm (hS r) (A := e.A r) (B := g.A r) l i,
    covR_symm (hS r) (A := h.A r) (B := g.A r) l i]
  ring

/-! ## the `integrate_*` wrappers: total mass times the expectation -/

theorem C03_alg_quad_outer_integrate (v : IntV R D ℝ) (f : AffForm R K D ℝ) (g : AffForm R L D ℝ)
    (r : Fin R) (i : Fin K) (j : Fin L) :
    (v.integrateQuadOuter f g) r i j
      = v.mass r * wick2 (mean v f r i) (mean v g r j) (cov v f g r i j) := by
  simp only [IntV.integrateQuadOuter, tab_apply, smulM_apply, C03_alg_quad_outer]

theorem C03_alg_quad_inner_integrate (v : IntV R D ℝ)
    (hS : ∀ r i j, v.Sigma r i j = v.Sigma r j i) (f g : AffForm R K D ℝ) (r : Fin R) :
    (v.integrateQuadInner f g) r
      = v.mass r * ∑ i, wick2 (mean v f r i) (mean v g r i) (cov v f g r i i) := by
  simp only [IntV.integrateQuadInner, tab_apply, C03_alg_quad_inner v hS]

theorem C03_alg_xbxx_integrate (v : IntV R D ℝ) (b : Arr R (Vec D ℝ)) (r : Fin R) (i j : Fin D) :
    (v.integrateXbxx b) r i j = v.mass r * ∑ k, b r k * wick3 (v.mu r i) (v.mu r k) (v.mu r j)
      (v.Sigma r i k) (v.Sigma r i j) (v.Sigma r k j) := by
  simp only [IntV.integrateXbxx, tab_apply, smulM_apply, C03_alg_xbxx]

theorem C03_alg_cubic_outer_x_integrate (v : IntV R D ℝ) (A : Arr R (Vec D ℝ)) (a : Arr R ℝ)
    (r : Fin R) (i j : Fin D) :
    (v.integrateCubicOuter A a) r i j = v.mass r * ((∑ k, A r k * wick3 (v.mu r i) (v.mu r k)
      (v.mu r j) (v.Sigma r i k) (v.Sigma r i j) (v.Sigma r k j))
      + a r * wick2 (v.mu r i) (v.mu r j) (v.Sigma r i j)) := by
  simp only [IntV.integrateCubicOuter, tab_apply, smulM_apply, C03_alg_cubic_outer_x]

theorem C03_alg_cubic_inner_integrate (v : IntV R D ℝ) (f : AffForm R K D ℝ)
    (g h : AffForm R L D ℝ) (r : Fin R) (i : Fin K) :
    (v.integrateCubicInner f g h) r i = v.mass r * ∑ l, wick3 (mean v f r i) (mean v g r l)
      (mean v h r l) (cov v f g r i l) (cov v f h r i l) (cov v g h r l l) := by
  simp only [IntV.integrateCubicInner, tab_apply, smulV_apply, C03_alg_cubic_inner]

theorem C03_alg_cubic_outer_integrate (v : IntV R D ℝ) (f g : AffForm R K D ℝ)
    (h : AffForm R L D ℝ) (r : Fin R) (j : Fin L) :
    (v.integrateCubicOuterG f g h) r j = v.mass r * ∑ i, wick3 (mean v f r i) (mean v g r i)
      (mean v h r j) (cov v f g r i i) (cov v f h r i j) (cov v g h r i j) := by
  simp only [IntV.integrateCubicOuterG, tab_apply, smulV_apply, C03_alg_cubic_outer]

theorem C03_alg_quartic_outer_integrate (v : IntV R D ℝ) (f : AffForm R K D ℝ)
    (g h : AffForm R L D ℝ) (e : AffForm R M D ℝ) (r : Fin R) (i : Fin K) (j : Fin M) :
    (v.integrateQuarticOuter f g h e) r i j = v.mass r * ∑ l, wick4 (mean v f r i) (mean v g r l)
      (mean v h r l) (mean v e r j) (cov v f g r i l) (cov v f h r i l) (cov v f e r i j)
      (cov v g h r l l) (cov v g e r l j) (cov v h e r l j) := by
  simp only [IntV.integrateQuarticOuter, tab_apply, smulM_apply, C03_alg_quartic_outer]

theorem C03_alg_quartic_inner_integrate (v : IntV R D ℝ)
    (hS : ∀ r i j, v.Sigma r i j = v.Sigma r j i) (f g : AffForm R K D ℝ)
    (h e : AffForm R L D ℝ) (r : Fin R) :
    (v.integrateQuarticInner f g h e) r = v.mass r * ∑ i, ∑ l, wick4 (mean v f r i)
      (mean v g r i) (mean v h r l) (mean v e r l) (cov v f g r i i) (cov v f h r i l)
      (cov v f e r i l) (cov v g h r i l) (cov v g e r i l) (cov v h e r l l) := by
  simp only [IntV.integrateQuarticInner, tab_apply, C03_alg_quartic_inner v hS]

/-! ## `x` as the identity form (omitted matrix and vector) -/

/-- `x bᵀ x xᵀ` in the vocabulary of forms: all three `x` are the default form -/
theorem C03_alg_xbxx_default (v : IntV R D ℝ) (b : Arr R (Vec D ℝ)) (r : Fin R) (i j : Fin D) :
    let x : AffForm R D D ℝ := getDefault none none
    (v.expXbxx b r) i j = ∑ k, b r k * wick3 (mean v x r i) (mean v x r k) (mean v x r j)
      (cov v x x r i k) (cov v x x r i j) (cov v x x r k j) := by
  simp only [mean_default, cov_default, C03_alg_xbxx]

/-- `E[xᵀx] = Σ_i (μ_i² + Σ_ii)`: both forms omitted -/
theorem C03_alg_quad_inner_default (v : IntV R D ℝ)
    (hS : ∀ r i j, v.Sigma r i j = v.Sigma r j i) (r : Fin R) :
    v.expQuadInner (getDefault none none : AffForm R D D ℝ) (getDefault none none) r
      = ∑ i, (v.mu r i * v.mu r i + v.Sigma r i i) := by
  simp only [C03_alg_quad_inner v hS, mean_default, cov_default, wick2]

/-! ## the hypothesis is satisfiable on a non-trivial object -/

/-- one component, `D = 2`, `μ = (1, -1)`, `Σ = [[2, 1], [1, 2]]`, mass `3` -/
noncomputable def exampleView : IntV 1 2 ℝ :=
  ⟨tab fun _ => 3, tab fun _ => tab fun i => if i.1 = 0 then 1 else -1,
    tab fun _ => tab2 fun i j => if i = j then 2 else 1⟩

theorem exampleView_symm : ∀ r i j, exampleView.Sigma r i j = exampleView.Sigma r j i := by
  intro r i j
  simp only [exampleView, tab_apply, eq_comm]

/-- `∫ xᵀx dφ = 3 · (1 + 2 + 1 + 2) = 18` -/
example : (exampleView.integrateQuadInner (getDefault none none : AffForm 1 2 2 ℝ)
    (getDefault none none)) 0 = 18 := by
  rw [C03_alg_quad_inner_integrate _ exampleView_symm]
  simp only [mean_default, cov_default, wick2, Fin.sum_univ_two]
  simp [exampleView]
  norm_num

end GT.Props.C03

#print axioms GT.Props.C03.getDefault_none_A
#print axioms GT.Props.C03.getDefault_none_a
#print axioms GT.Props.C03.getDefault_shared_A
#print axioms GT.Props.C03.getDefault_shared_a
#print axioms GT.Props.C03.getDefault_perComp_A
#print axioms GT.Props.C03.getDefault_perComp_a
#print axioms GT.Props.C03.mean_default
#print axioms GT.Props.C03.cov_default
#print axioms GT.Props.C03.ASB_apply
#print axioms GT.Props.C03.C03_alg_x
#print axioms GT.Props.C03.C03_alg_linear
#print axioms GT.Props.C03.C03_alg_linear_integrate
#print axioms GT.Props.C03.C03_alg_xxT
#print axioms GT.Props.C03.C03_alg_xxT_integrate
#print axioms GT.Props.C03.C03_alg_quad_inner
#print axioms GT.Props.C03.C03_alg_quad_inner_integrate
#print axioms GT.Props.C03.C03_alg_quad_outer
#print axioms GT.Props.C03.C03_alg_quad_outer_integrate
#print axioms GT.Props.C03.C03_alg_xbxx
#print axioms GT.Props.C03.C03_alg_xbxx_default
#print axioms GT.Props.C03.C03_alg_xbxx_integrate
#print axioms GT.Props.C03.C03_alg_cubic_outer_x
#print axioms GT.Props.C03.C03_alg_cubic_outer_x_integrate
#print axioms GT.Props.C03.C03_alg_cubic_inner
#print axioms GT.Props.C03.C03_alg_cubic_inner_integrate
#print axioms GT.Props.C03.C03_alg_cubic_outer
#print axioms GT.Props.C03.C03_alg_cubic_outer_integrate
#print axioms GT.Props.C03.C03_alg_quartic_outer
#print axioms GT.Props.C03.C03_alg_quartic_outer_integrate
#print axioms GT.Props.C03.C03_alg_quartic_inner
#print axioms GT.Props.C03.C03_alg_quartic_inner_integrate
