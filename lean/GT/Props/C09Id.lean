import GT.Props.C09
import GT.Props.C15
/-!
# C09 for the identity-mean classes — `affine_conditional_transformation` is Bayes' rule

`c : CondIdB Rc D ℝ` is `ConditionalIdentityGaussianPDF` / `ConditionalIdentityDiagGaussianPDF`:
`p(y|x) = N(y; x, Σy)` (no `M`, `b` stored).  With a prior `p(x) = N(x; μ, Σx)`
(`p : PdfV Rx D ℝ`, `PdfFullOK p`) the object `post := c.affineConditional be p` (a general
`CondB (Rc * Rx) D D ℝ`) is the conditional `p(x|y)`:

* `C09Id_posterior_params` / `C09Id_posterior_condOK`: `Λpost = Λx + Λy` (positive definite),
  `Σpost = Λpost⁻¹`, `ln det Σpost`, `Mpost = Σpost Λy`, `bpost = Σpost Λx μ`;
* `C09Id_bayes`: `ln p(x|y) + ln p(y) = ln N(y; x, Σy) + ln p(x)` for all `x`, `y`, with
  `p(y) = N(μ, Σy + Σx)`;
* `C09Id_bayes_model`: the same for the model objects (`CondIdB.conditionOnX`,
  `CondIdB.affineMarginal`, `evaluate_ln`);
* `C09Id_round_trip`, `C09Id_round_trip_model`: conditioning back recovers `Σy`, `Λy`, `M = I`,
  `b = 0`.

Every batch regime of the model (all `Rc`, `Rx`; component `k` pairs conditional `unflatL k` with prior
`unflatR k`) and both the full and the diagonal identity class (`affine_conditional_transformation`
does not read the flag).  Proofs transport the `CondB` theorems of `C09.lean` along
`CondIdB.toCond` with `C15_identity_affineConditional` (same object).
-/
namespace GT.Props.C09Id
open GT Matrix

variable {Rc Rx D : Nat}

/-! ## the embedding `toCond` on fields -/

@[simp] theorem toCond_M {R : Nat} (c : CondIdB R D ℝ) (r : Fin R) : toM (c.toCond.M r) = 1 := by
  simp only [CondIdB.toCond, tab_apply, toM_eye]

@[simp] theorem toCond_b {R : Nat} (c : CondIdB R D ℝ) (r : Fin R) : toV (c.toCond.b r) = 0 := by
  simp only [CondIdB.toCond, tab_apply, toV_zeroV]

@[simp] theorem toCond_Sigma {R : Nat} (c : CondIdB R D ℝ) : c.toCond.Sigma = c.Sigma := rfl
@[simp] theorem toCond_Lambda {R : Nat} (c : CondIdB R D ℝ) : c.toCond.Lambda = c.Lambda := rfl
@[simp] theorem toCond_lnDetSigma {R : Nat} (c : CondIdB R D ℝ) : c.toCond.lnDetSigma = c.lnDetSigma := rfl

/-- the identity class builds the same posterior object as the general class with `M = I`, `b = 0` -/
theorem affineConditional_eq_toCond {be : Backend ℝ} (c : CondIdB Rc D ℝ) (hc : C07.CondIdOK c)
    (p : PdfV Rx D ℝ) : c.affineConditional be p = c.toCond.affineConditional be p :=
  C15.C15_identity_affineConditional c (C15.CondIdSymm.of_ok hc) p

/-- posterior precision `Λx + Λy` of component `k` -/
noncomputable def postPrecId (c : CondIdB Rc D ℝ) (p : PdfV Rx D ℝ) (k : Fin (Rc * Rx)) :
    Matrix (Fin D) (Fin D) ℝ :=
  toM (p.Lambda (unflatR k)) + toM (c.Lambda (unflatL k))

theorem postPrec_toCond (c : CondIdB Rc D ℝ) (p : PdfV Rx D ℝ) (k : Fin (Rc * Rx)) :
    C09.postPrec c.toCond p k = postPrecId c p k := by
  simp only [C09.postPrec, postPrecId, toCond_M, toCond_Lambda, Matrix.transpose_one, Matrix.one_mul,
    Matrix.mul_one]

variable {be : Backend ℝ} (hbe : be.Spec)
include hbe

/-- **C09 (a), identity classes**: the parameters of
`post = c.affine_conditional_transformation(p)`, component `k` (conditional `unflatL k`, prior
`unflatR k`): precision `Λx + Λy` (positive definite), `Σpost = Λpost⁻¹`, `ln det Σpost`,
`Mpost = Σpost Λy`, `bpost = Σpost Λx μ`. -/
theorem C09Id_posterior_params (c : CondIdB Rc D ℝ) (hc : C07.CondIdOK c) (p : PdfV Rx D ℝ)
    (hp : PdfFullOK p) (k : Fin (Rc * Rx)) :
    (postPrecId c p k).PosDef ∧
    toM ((c.affineConditional be p).Lambda k) = postPrecId c p k ∧
    toM ((c.affineConditional be p).Sigma k) = (postPrecId c p k)⁻¹ ∧
    (c.affineConditional be p).lnDetSigma k = Real.log (toM ((c.affineConditional be p).Sigma k)).det ∧
    toM ((c.affineConditional be p).M k) =
      toM ((c.affineConditional be p).Sigma k) * toM (c.Lambda (unflatL k)) ∧
    toV ((c.affineConditional be p).b k) =
      toM ((c.affineConditional be p).Sigma k) *ᵥ
        (toM (p.Lambda (unflatR k)) *ᵥ toV (p.mu (unflatR k))) := by
  have h := C09.C09_posterior_params hbe c.toCond hc p hp k
  rw [← affineConditional_eq_toCond c hc p, postPrec_toCond] at h
  simpa only [toCond_M, toCond_b, toCond_Lambda, Matrix.transpose_one, Matrix.one_mul,
    Matrix.mulVec_zero, sub_zero] using h

/-- **C09 (a), identity classes**: the returned conditional is well formed. -/
theorem C09Id_posterior_condOK (c : CondIdB Rc D ℝ) (hc : C07.CondIdOK c) (p : PdfV Rx D ℝ)
    (hp : PdfFullOK p) : C10.CondOK (c.affineConditional be p) := by
  rw [affineConditional_eq_toCond c hc p]
  exact C09.C09_posterior_condOK hbe c.toCond hc p hp

/-- **C09 (b), Bayes' rule, identity classes**:
`ln p(x|y) + ln N(y; μ, Σy + Σx) = ln N(y; x, Σy) + ln N(x; μ, Σx)` for all `x`, `y`, with `p(x|y)`
given by the parameters of `affine_conditional_transformation`. -/
theorem C09Id_bayes (c : CondIdB Rc D ℝ) (hc : C07.CondIdOK c) (p : PdfV Rx D ℝ) (hp : PdfFullOK p)
    (k : Fin (Rc * Rx)) (x y : Fin D → ℝ) :
    normalLn (toM ((c.affineConditional be p).M k) *ᵥ y + toV ((c.affineConditional be p).b k))
        (toM ((c.affineConditional be p).Sigma k))⁻¹
        (Real.log (toM ((c.affineConditional be p).Sigma k)).det) x
      + normalLn (toV (p.mu (unflatR k)))
          (toM (c.Sigma (unflatL k)) + toM (p.Sigma (unflatR k)))⁻¹
          (Real.log (toM (c.Sigma (unflatL k)) + toM (p.Sigma (unflatR k))).det) y
      = normalLn x (toM (c.Sigma (unflatL k)))⁻¹ (Real.log (toM (c.Sigma (unflatL k))).det) y
        + normalLn (toV (p.mu (unflatR k))) (toM (p.Sigma (unflatR k)))⁻¹
          (Real.log (toM (p.Sigma (unflatR k))).det) x := by
  have h := C09.C09_bayes hbe c.toCond hc p hp k x y
  rw [← affineConditional_eq_toCond c hc p] at h
  simpa only [toCond_M, toCond_b, toCond_Sigma, Matrix.transpose_one, Matrix.one_mul, Matrix.mul_one,
    Matrix.one_mulVec, add_zero] using h

/-- `CondIdB.conditionOnX` evaluates to `N(y; x, Σy)` -/
theorem conditionOnXId_evalLn {R K : Nat} (c : CondIdB R D ℝ) (hc : C07.CondIdOK c)
    (xs : Arr K (Vec D ℝ)) (k : Fin (R * K)) (y : Fin D → ℝ) :
    (c.conditionOnX be xs).evalLn k (ofV y) =
      normalLn (toV (xs (unflatR k))) (toM (c.Sigma (unflatL k)))⁻¹
        (Real.log (toM (c.Sigma (unflatL k))).det) y := by
  rw [C15.C15_identity_conditionOnX, C10.conditionOnX_evalLn hbe c.toCond hc]
  simp only [toCond_M, toCond_b, toCond_Sigma, Matrix.one_mulVec, add_zero]

/-- `CondIdB.affineMarginal` evaluates to `N(y; μ, Σy + Σx)` -/
theorem affineMarginalId_evalLn (c : CondIdB Rc D ℝ) (hc : C07.CondIdOK c) (p : PdfV Rx D ℝ)
    (hp : PdfFullOK p) (k : Fin (Rc * Rx)) (y : Fin D → ℝ) :
    (c.affineMarginal be p).evalLn k (ofV y) =
      normalLn (toV (p.mu (unflatR k))) (toM (c.Sigma (unflatL k)) + toM (p.Sigma (unflatR k)))⁻¹
        (Real.log (toM (c.Sigma (unflatL k)) + toM (p.Sigma (unflatR k))).det) y := by
  rw [C15.C15_identity_affineMarginal, C09.affineMarginal_evalLn hbe c.toCond hc p hp]
  simp only [toCond_M, toCond_b, toCond_Sigma, Matrix.transpose_one, Matrix.one_mul, Matrix.mul_one,
    Matrix.one_mulVec, add_zero]

/-- **C09 (b) for the model objects, identity classes**: for point batches `xs`, `ys`,
`post.condition_on_x(ys)(xs) · marginal(ys) = cond.condition_on_x(xs)(ys) · prior(xs)` in the log
domain, with `post = cond.affine_conditional_transformation(prior)`,
`marginal = cond.affine_marginal_transformation(prior)` and `cond` an identity-mean conditional. -/
theorem C09Id_bayes_model {Nx Ny : Nat} (c : CondIdB Rc D ℝ) (hc : C07.CondIdOK c) (p : PdfV Rx D ℝ)
    (hp : PdfFullOK p) (xs : Arr Nx (Vec D ℝ)) (ys : Arr Ny (Vec D ℝ)) (k : Fin (Rc * Rx))
    (i : Fin Nx) (j : Fin Ny) :
    ((c.affineConditional be p).conditionOnX be ys).evalLn (flat k j) (ofV (toV (xs i)))
      + (c.affineMarginal be p).evalLn k (ofV (toV (ys j)))
      = (c.conditionOnX be xs).evalLn (flat (unflatL k) i) (ofV (toV (ys j)))
        + p.evalLn (unflatR k) (ofV (toV (xs i))) := by
  rw [C15.C15_identity_conditionOnX, C15.C15_identity_affineMarginal,
    affineConditional_eq_toCond c hc p]
  exact C09.C09_bayes_model hbe c.toCond hc p hp xs ys k i j

/-- **C09 (c), round trip, identity classes**: let `post = cond.affine_conditional_transformation(p)`
and let `py` be (a view of) the marginal `p(y) = N(μ, Σy + Σx)` of component `k`.  Then
`post.affine_conditional_transformation(py)` has, in the component pairing `k` with that marginal,
the parameters `Σy`, `Λy`, `M = I`, `b = 0` of the original identity-mean conditional. -/
theorem C09Id_round_trip {Ry : Nat} (c : CondIdB Rc D ℝ) (hc : C07.CondIdOK c) (p : PdfV Rx D ℝ)
    (hp : PdfFullOK p) (py : PdfV Ry D ℝ) (hpy : PdfFullOK py) (k : Fin (Rc * Rx))
    (k2 : Fin (Rc * Rx * Ry)) (hk : unflatL k2 = k)
    (hSy : toM (py.Sigma (unflatR k2)) = toM (c.Sigma (unflatL k)) + toM (p.Sigma (unflatR k)))
    (hmuy : toV (py.mu (unflatR k2)) = toV (p.mu (unflatR k))) :
    toM (((c.affineConditional be p).affineConditional be py).Sigma k2) = toM (c.Sigma (unflatL k)) ∧
    toM (((c.affineConditional be p).affineConditional be py).Lambda k2) = toM (c.Lambda (unflatL k)) ∧
    toM (((c.affineConditional be p).affineConditional be py).M k2) = 1 ∧
    toV (((c.affineConditional be p).affineConditional be py).b k2) = 0 := by
  have h := C09.C09_round_trip hbe c.toCond hc p hp py hpy k k2 hk
    (by simpa only [toCond_M, toCond_Sigma, Matrix.transpose_one, Matrix.one_mul, Matrix.mul_one] using hSy)
    (by simpa only [toCond_M, toCond_b, Matrix.one_mulVec, add_zero] using hmuy)
  rw [← affineConditional_eq_toCond c hc p] at h
  simpa only [toCond_M, toCond_b, toCond_Sigma, toCond_Lambda] using h

/-- **C09 (c) for the model objects, identity classes**: with `py` the view of
`cond.affine_marginal_transformation(p)`, the component `flat k k` of
`post.affine_conditional_transformation(py)` has the parameters of the original conditional. -/
theorem C09Id_round_trip_model (c : CondIdB Rc D ℝ) (hc : C07.CondIdOK c) (p : PdfV Rx D ℝ)
    (hp : PdfFullOK p) (py : PdfV (Rc * Rx) D ℝ) (hpy : (c.affineMarginal be p).asPdf = some py)
    (k : Fin (Rc * Rx)) :
    toM (((c.affineConditional be p).affineConditional be py).Sigma (flat k k)) = toM (c.Sigma (unflatL k)) ∧
    toM (((c.affineConditional be p).affineConditional be py).Lambda (flat k k)) = toM (c.Lambda (unflatL k)) ∧
    toM (((c.affineConditional be p).affineConditional be py).M (flat k k)) = 1 ∧
    toV (((c.affineConditional be p).affineConditional be py).b (flat k k)) = 0 := by
  rw [C15.C15_identity_affineMarginal] at hpy
  have h := C09.C09_round_trip_model hbe c.toCond hc p hp py hpy k
  rw [← affineConditional_eq_toCond c hc p] at h
  simpa only [toCond_M, toCond_b, toCond_Sigma, toCond_Lambda] using h

/-! ## non-vacuity -/

omit hbe in
/-- a concrete identity-mean conditional `y | x ~ N(x, [[2,1],[1,2]])` (non-diagonal noise) and the
prior `N((1,−1), [[2,1],[1,2]])` satisfy all hypotheses (with the backend of `Bridge/SpecSat.lean`);
a batch of two conditionals. -/
example : ∃ (be : Backend ℝ) (c : CondIdB 2 2 ℝ) (p : PdfV 1 2 ℝ),
    be.Spec ∧ C07.CondIdOK c ∧ PdfFullOK p ∧ c.Sigma 1 0 1 = 1 ∧ p.Sigma 0 0 1 = 1 := by
  refine ⟨Backend.sat,
    ⟨false, tab fun _ => examplePdf.Sigma 0, tab fun _ => examplePdf.Lambda 0,
      tab fun _ => examplePdf.lnDetSigma 0⟩,
    examplePdf, Backend.sat_spec, ⟨fun r => ?_, fun r => ?_, fun r => ?_⟩,
    examplePdf_ok, by simp [examplePdf, ofM], by simp [examplePdf, ofM]⟩
  · simpa only [toCond_Sigma, tab_apply] using examplePdf_ok.posDef 0
  · simpa only [toCond_Sigma, toCond_Lambda, tab_apply] using examplePdf_ok.lambda 0
  · simpa only [toCond_Sigma, toCond_lnDetSigma, tab_apply] using examplePdf_ok.lnDet 0

end GT.Props.C09Id

section axioms
#print axioms GT.Props.C09Id.C09Id_posterior_params
#print axioms GT.Props.C09Id.C09Id_posterior_condOK
#print axioms GT.Props.C09Id.C09Id_bayes
#print axioms GT.Props.C09Id.C09Id_bayes_model
#print axioms GT.Props.C09Id.C09Id_round_trip
#print axioms GT.Props.C09Id.C09Id_round_trip_model
end axioms
