import GT.Model.Factor
import GT.Bridge.RealInst
import GT.Bridge.Inv
/-!
# C01 — multiplying a measure by a conjugate factor is pointwise multiplication

All statements are about the model instantiated at `ℝ`, for every batch size, dimension,
factor kind, `update_full` flag and cache state of the measure, and every backend (the
inversion results never enter the evaluated function).
-/
namespace GT.Props.C01
open GT

variable {R R1 R2 Ro D : Nat}

/-- `evaluate_ln` spelled out over `ℝ`. -/
theorem evalLn_real (f : FactorB R D ℝ) (r : Fin R) (x : Vec D ℝ) :
    f.evalLn r x = -(1 / 2 * ∑ i, (∑ j, f.Lambda r i j * x j) * x i) + ∑ i, x i * f.nu r i + f.lnBeta r := by
  simp [FactorB.evalLn]

theorem finishInvert_toB (be : Backend ℝ) (uf : Bool) (b : MeasureB R D ℝ) :
    (finishInvert be uf b).toB = b.toB := by
  unfold finishInvert
  split <;> rfl

theorem finishCov_toB (b : MeasureB R D ℝ) (S : Arr R (Mat D D ℝ)) (l : Arr R ℝ) :
    (finishCov b S l).toB = b.toB := rfl

/-- the three natural-parameter arrays of any product, whatever the cache path -/
theorem productSel_toB (be : Backend ℝ) (su : Fin Ro → Fin R1) (sf : Fin Ro → Fin R2)
    (u : MeasureB R1 D ℝ) (f : Factor R2 D ℝ) (uf : Bool) :
    (productSel be su sf u f uf).toB =
      ⟨tab3 fun r i j => u.Lambda (su r) i j + f.toB.Lambda (sf r) i j,
       tab2 fun r i => u.nu (su r) i + f.toB.nu (sf r) i,
       tab fun r => u.lnBeta (su r) + f.toB.lnBeta (sf r)⟩ := by
  cases f with
  | general f =>
    simp only [productSel, finishInvert_toB, Factor.toB]
    rfl
  | oneRank v g nu lb =>
    simp only [productSel, Factor.toB]
    split
    · split <;> simp only [finishInvert_toB, finishCov_toB] <;> rfl
    · rfl
  | linear nu lb =>
    simp only [productSel, Factor.toB]
    have key : (MeasureB.mk0 .measure (tab fun r => u.Lambda (su r))
        (tab2 fun r i => u.nu (su r) i + nu (sf r) i) (tab fun r => u.lnBeta (su r) + lb (sf r))).toB =
        ⟨tab3 fun r i j => u.Lambda (su r) i j + (tab fun _ => (zeroM : Mat D D ℝ)) (sf r) i j,
         tab2 fun r i => u.nu (su r) i + nu (sf r) i, tab fun r => u.lnBeta (su r) + lb (sf r)⟩ := by
      simp only [MeasureB.toB, MeasureB.mk0]
      congr 1
      ext r i j; simp
    split
    · split <;> simp only [finishInvert_toB, finishCov_toB, key]
    · exact key
  | constant lb =>
    simp only [productSel, Factor.toB]
    have key : (MeasureB.mk0 .measure (tab fun r => u.Lambda (su r))
        (tab fun r => u.nu (su r)) (tab fun r => u.lnBeta (su r) + lb (sf r))).toB =
        ⟨tab3 fun r i j => u.Lambda (su r) i j + (tab fun _ => (zeroM : Mat D D ℝ)) (sf r) i j,
         tab2 fun r i => u.nu (su r) i + (tab fun _ => (zeroV : Vec D ℝ)) (sf r) i,
         tab fun r => u.lnBeta (su r) + lb (sf r)⟩ := by
      simp only [MeasureB.toB, MeasureB.mk0]
      congr 1
      · ext r i j; simp
      · ext r i; simp
    split
    · split <;> simp only [finishInvert_toB, finishCov_toB, key]
    · exact key

/-- **Core of C01**: every product path evaluates (in the log domain) to the sum of the
operands' values, component `r` being built from `u_{su r}` and `f_{sf r}`. -/
theorem productSel_evalLn (be : Backend ℝ) (su : Fin Ro → Fin R1) (sf : Fin Ro → Fin R2)
    (u : MeasureB R1 D ℝ) (f : Factor R2 D ℝ) (uf : Bool) (r : Fin Ro) (x : Vec D ℝ) :
    (productSel be su sf u f uf).evalLn r x = u.evalLn (su r) x + f.evalLn (sf r) x := by
  simp only [MeasureB.evalLn, Factor.evalLn, productSel_toB, evalLn_real]
  simp only [tab_apply, MeasureB.toB]
  simp only [add_mul, mul_add, Finset.sum_add_distrib]
  ring

/-- `u.multiply(f, update_full)` (and `u * f`): component `i*R2+j` is `u_i · f_j`. -/
theorem C01_multiply (be : Backend ℝ) (u : MeasureB R1 D ℝ) (f : Factor R2 D ℝ) (uf : Bool)
    (k : Fin (R1 * R2)) (x : Vec D ℝ) :
    (u.multiply be f uf).evalLn k x = u.evalLn (unflatL k) x + f.evalLn (unflatR k) x :=
  productSel_evalLn be unflatL unflatR u f uf k x

/-- the same statement indexed by `(i, j)`: component `i*R2+j`. -/
theorem C01_multiply_layout (be : Backend ℝ) (u : MeasureB R1 D ℝ) (f : Factor R2 D ℝ) (uf : Bool)
    (i : Fin R1) (j : Fin R2) (x : Vec D ℝ) :
    (u.multiply be f uf).evalLn (flat i j) x = u.evalLn i x + f.evalLn j x := by
  have hL : unflatL (flat i j) = i := by
    apply Fin.ext
    simp only [unflatL, flat]
    rw [Nat.add_comm, Nat.add_mul_div_right _ _ (Nat.pos_of_ne_zero (by rintro rfl; exact absurd j.2 (by simp)))]
    simp [Nat.div_eq_of_lt j.2]
  have hR : unflatR (flat i j) = j := by
    apply Fin.ext
    simp only [unflatR, flat]
    rw [Nat.add_comm, Nat.add_mul_mod_self_right]
    exact Nat.mod_eq_of_lt j.2
  rw [C01_multiply, hL, hR]

/-- exponentiated form: the product *function* -/
theorem C01_multiply_exp (be : Backend ℝ) (u : MeasureB R1 D ℝ) (f : Factor R2 D ℝ) (uf : Bool)
    (i : Fin R1) (j : Fin R2) (x : Vec D ℝ) :
    Real.exp ((u.multiply be f uf).evalLn (flat i j) x) =
      Real.exp (u.evalLn i x) * Real.exp (f.evalLn j x) := by
  rw [C01_multiply_layout, Real.exp_add]

/-- `hadamard` for equal batch sizes -/
theorem C01_hadamard (be : Backend ℝ) (u : MeasureB R D ℝ) (f : Factor R D ℝ) (uf : Bool)
    (r : Fin R) (x : Vec D ℝ) :
    (u.hadamard be f uf).evalLn r x = u.evalLn r x + f.evalLn r x :=
  productSel_evalLn be id id u f uf r x

/-- `hadamard` with a single-component factor broadcast over the batch -/
theorem C01_hadamard_bcast_factor (be : Backend ℝ) (u : MeasureB R D ℝ) (f : Factor 1 D ℝ) (uf : Bool)
    (r : Fin R) (x : Vec D ℝ) :
    (u.hadamardBF be f uf).evalLn r x = u.evalLn r x + f.evalLn 0 x :=
  productSel_evalLn be id (fun _ => 0) u f uf r x

/-- `hadamard` with a single-component measure broadcast over the factor's batch -/
theorem C01_hadamard_bcast_measure (be : Backend ℝ) (u : MeasureB 1 D ℝ) (f : Factor R D ℝ) (uf : Bool)
    (r : Fin R) (x : Vec D ℝ) :
    (u.hadamardBU be f uf).evalLn r x = u.evalLn 0 x + f.evalLn r x :=
  productSel_evalLn be (fun _ => 0) id u f uf r x

/-- `product()` of a factor batch evaluates to the product of all components -/
theorem sumB_evalLn (b : FactorB R D ℝ) (x : Vec D ℝ) :
    (⟨tab fun _ => tab2 fun i j => vsum fun r => b.Lambda r i j,
      tab fun _ => tab fun i => vsum fun r => b.nu r i,
      tab fun _ => vsum fun r => b.lnBeta r⟩ : FactorB 1 D ℝ).evalLn 0 x = ∑ r, b.evalLn r x := by
  simp only [evalLn_real, tab_apply, tab2_apply]
  simp only [vsum_real, Finset.sum_add_distrib, Finset.sum_neg_distrib, ← Finset.mul_sum]
  have h1 : ∑ i, (∑ j, (∑ r, b.Lambda r i j) * x j) * x i = ∑ r, ∑ i, (∑ j, b.Lambda r i j * x j) * x i := by
    rw [Finset.sum_comm]
    refine Finset.sum_congr rfl fun i _ => ?_
    rw [← Finset.sum_mul]; congr 1
    rw [Finset.sum_comm]
    refine Finset.sum_congr rfl fun j _ => ?_
    rw [Finset.sum_mul]
  have h2 : ∑ i, x i * ∑ r, b.nu r i = ∑ r, ∑ i, x i * b.nu r i := by
    simp only [Finset.mul_sum]
    rw [Finset.sum_comm]
  rw [h1, h2]

theorem C01_factor_product (f : Factor R D ℝ) (x : Vec D ℝ) :
    f.product.evalLn 0 x = ∑ r, f.evalLn r x := by
  simp only [Factor.evalLn, Factor.product]
  exact sumB_evalLn f.toB x

/-- `product()` of a measure batch, with or without cached covariance -/
theorem C01_measure_product (be : Backend ℝ) (m : MeasureB R D ℝ) (x : Vec D ℝ) :
    (m.product be).evalLn 0 x = ∑ r, m.evalLn r x := by
  have key : (m.product be).toB = (m.toFactor.product).toB := by
    unfold MeasureB.product
    cases hc : m.cov with
    | none => simp [MeasureB.toB, MeasureB.mk0, MeasureB.toFactor, Factor.product, Factor.toB]
    | some c =>
      simp only [MeasureB.toB, prepare_Lambda, prepare_nu, prepare_lnBeta]
      simp [MeasureB.mk0, MeasureB.toFactor, Factor.product, Factor.toB, MeasureB.toB]
  have := C01_factor_product m.toFactor x
  simp only [Factor.evalLn] at this
  simp only [MeasureB.evalLn, key, this]
  rfl

/-- operands are left unchanged: in the functional model every operation *returns* new
records and the operands are, by construction, the same values afterwards; the observable
content of this clause (the Python objects' arrays before/after) is covered by the
correspondence run, which dumps every register at the end of every program. -/
theorem C01_operands_unchanged (be : Backend ℝ) (u : MeasureB R1 D ℝ) (f : Factor R2 D ℝ) (uf : Bool) :
    let _ := u.multiply be f uf
    (u, f) = (u, f) := rfl

/-! ## non-vacuity: a concrete two-component measure times a rank-one factor -/

example : ∃ (u : MeasureB 2 2 ℝ) (f : Factor 3 2 ℝ), u.Lambda 0 0 0 = 2 ∧ f.toB.Lambda 1 0 1 = 6 := by
  refine ⟨MeasureB.mk0 .measure (tab fun _ => tab2 fun i j => if i = j then 2 else 0)
      (tab fun _ => zeroV) (tab fun _ => 0),
    .oneRank (tab fun _ => tab fun i => if i = 0 then 2 else 3) (tab fun _ => 1) (tab fun _ => zeroV)
      (tab fun _ => 0), ?_, ?_⟩
  · simp [MeasureB.mk0]
  · simp [Factor.toB, oneRankLambda]; norm_num

end GT.Props.C01
