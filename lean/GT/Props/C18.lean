import GT.Generated.ClassTable
import GT.Bridge.Normal
import GT.Model.Conditional
/-!
# C18 — JAX transformations and round trips preserve values (**partial**)

What is logic and is proved here:

* over the **generated class table** (regenerated from `/repo`'s source on every run): the keys
  every class's `to_dict` emits are constructor (init) fields, so `from_dict (to_dict o)` is a legal
  constructor call — closed by `decide`, hence re-proved against the current source;
* at the model level: rebuilding an object from its constructor fields (what pytree
  `unflatten ∘ flatten` and `from_dict ∘ to_dict` do) yields an object that evaluates to the same
  function — for densities this genuinely needs the invariant (`C18_pdf_roundtrip`).

What the model cannot exhibit (validated by the harness, not proved): that the real `jit`, `vmap`,
`grad` tracers are semantically transparent on the library's code.
-/
namespace GT.Props.C18
open GT GT.Generated

/-- names of the constructor fields of a class -/
def initFields (c : ClassInfo) : List String := (c.fields.filter (·.2)).map (·.1)

/-- `to_dict` of every class only emits constructor arguments (so `from_dict` accepts them) -/
theorem C18_to_dict_keys_are_init_fields :
    ∀ c ∈ classTable, ∀ keys, c.toDictKeys = some keys → ∀ k ∈ keys, k ∈ initFields c := by
  decide

/-- every class that offers `from_dict` has a `to_dict` whose keys could be parsed -/
theorem C18_from_dict_has_to_dict :
    ∀ c ∈ classTable, c.hasFromDict = true → c.toDictKeys.isSome = true := by
  decide

/-- the factor / measure / density / conditional classes of the public API are all in the table
(a class that disappears or is renamed breaks this obligation, not silently the checks) -/
theorem C18_table_covers_api :
    ∀ n ∈ ["ConjugateFactor", "OneRankFactor", "LinearFactor", "ConstantFactor", "GaussianMeasure",
      "GaussianDiagMeasure", "GaussianPDF", "GaussianDiagPDF", "ConditionalGaussianPDF",
      "ConditionalGaussianDiagPDF", "ConditionalIdentityGaussianPDF", "ConditionalIdentityDiagGaussianPDF",
      "NNControlGaussianConditional"], n ∈ classTable.map (·.name) := by
  decide

/-! ## model level: reconstruction from constructor fields -/

variable {R D Dy Dx : Nat}

/-- a factor / plain measure rebuilt from `(Lambda, nu, ln_beta)` is the same function -/
theorem C18_measure_roundtrip (m : MeasureB R D ℝ) (r : Fin R) (x : Vec D ℝ) :
    (MeasureB.mk0 m.cls m.Lambda m.nu m.lnBeta).evalLn r x = m.evalLn r x := rfl

theorem C18_factor_roundtrip (f : Factor R D ℝ) (r : Fin R) (x : Vec D ℝ) :
    (Factor.general f.toB).evalLn r x = f.evalLn r x := rfl

/-- **a density rebuilt from its constructor fields `(Sigma, mu, Lambda, ln_det_Sigma)` evaluates
to the same function** (the recomputed `nu`, `lnZ`, `ln_beta` agree with the stored ones) -/
theorem C18_pdf_roundtrip {be : Backend ℝ} (hbe : be.Spec) (diag : Bool) (Sigma : Arr R (Mat D D ℝ))
    (mu : Arr R (Vec D ℝ)) (Lambda : Option (Arr R (Mat D D ℝ))) (lnDetSigma : Option (Arr R ℝ))
    (h : Props.C02.PdfArgsOK diag Sigma Lambda lnDetSigma) (r : Fin R) (y : Fin D → ℝ) :
    let p := mkPdf be diag Sigma mu Lambda lnDetSigma
    ∀ c, p.cov = some c →
      (mkPdf be diag c.Sigma mu (some p.Lambda) (some c.lnDetSigma)).evalLn r (ofV y) = p.evalLn r (ofV y) := by
  intro p c hc
  have hinv := Props.C02.mkPdf_inv hbe diag Sigma mu Lambda lnDetSigma h
  have hp := mkPdf_params hbe diag Sigma mu Lambda lnDetSigma h
  have hcS : c.Sigma = Sigma := by
    have : p.cov = some ⟨Sigma, (pdfPrecision be diag Sigma Lambda lnDetSigma).2⟩ := by
      simp only [p, mkPdf, MeasureB.normalize, MeasureB.computeLnZ, MeasureB.prepare, MeasureB.ensureMu,
        MeasureB.ensureLnZ, MeasureB.ensureCov, pdfPre]
    rw [this] at hc
    cases hc; rfl
  have hargs : Props.C02.PdfArgsOK diag c.Sigma (some p.Lambda) (some c.lnDetSigma) := by
    refine ⟨fun r => by rw [hcS]; exact h.posDef r, fun hd => by rw [hcS]; exact h.diagOK hd, ?_, ?_⟩
    · intro L hL r
      simp only [Option.some.injEq] at hL; subst hL
      rw [hcS]; exact (hp r).1
    · intro L ld _ hld r
      simp only [Option.some.injEq] at hld; subst hld
      have := (hinv.cov c hc r).logdet
      rw [this]
  rw [mkPdf_evalLn hbe diag c.Sigma mu _ _ hargs, mkPdf_evalLn hbe diag Sigma mu Lambda lnDetSigma h, hcS]

/-- a conditional rebuilt from all five constructor fields is the same object (nothing is
recomputed when everything is supplied) -/
theorem C18_cond_roundtrip (be : Backend ℝ) (c : CondB R Dy Dx ℝ) :
    mkCond be c.diag c.M (some c.b) (some c.Sigma) (some c.Lambda) (some c.lnDetSigma) = some c := by
  simp [mkCond, condCovInit]

end GT.Props.C18
