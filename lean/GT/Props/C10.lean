import GT.Model.Conditional
import GT.Bridge.Normal
/-!
# C10 — `set_y` is the likelihood `x ↦ p(y|x)` including its normaliser

On the pinned tree the full statement is **false** for `Dx ≠ Dy` (known finding
`set_y-normaliser-uses-Dx`): the code writes `Dx·log 2π` where the density of `y` needs
`Dy·log 2π`.  Proved here: the exact offset for *all* inputs (`C10_set_y_offset`, which pins the
implementation's behaviour completely), the property itself under `Dx = Dy` (`C10_set_y_partial`),
and a concrete counterexample to the full statement (`C10_counterexample`).

FULL STATEMENT (not provable for the current code, see the counterexample):
  `(c.setYSel sc y).evalLn n x = (c.conditionOnX be xs).evalLn (flat (sc n) k) (y n)`  for all `Dx, Dy`.
-/
namespace GT.Props.C10
open GT Matrix

variable {R N Dy Dx : Nat}

/-- a well-formed linear-Gaussian conditional: positive definite noise covariance with its
inverse and log-determinant (what every constructor establishes) -/
structure CondOK (c : CondB R Dy Dx ℝ) : Prop where
  posDef : ∀ r, (toM (c.Sigma r)).PosDef
  lambda : ∀ r, toM (c.Lambda r) = (toM (c.Sigma r))⁻¹
  lnDet : ∀ r, c.lnDetSigma r = Real.log (toM (c.Sigma r)).det

/-- expansion of the Gaussian exponent in `x` -/
theorem quad_expand (Λ : Matrix (Fin Dy) (Fin Dy) ℝ) (hΛ : Λᵀ = Λ) (M : Matrix (Fin Dy) (Fin Dx) ℝ)
    (w : Fin Dy → ℝ) (x : Fin Dx → ℝ) :
    (w - M *ᵥ x) ⬝ᵥ Λ *ᵥ (w - M *ᵥ x) =
      w ⬝ᵥ Λ *ᵥ w - 2 * (x ⬝ᵥ (w ᵥ* (Λ * M))) + x ⬝ᵥ (Mᵀ * Λ * M) *ᵥ x := by
  have h1 : w ⬝ᵥ Λ *ᵥ (M *ᵥ x) = x ⬝ᵥ (w ᵥ* (Λ * M)) := by
    rw [Matrix.mulVec_mulVec, Matrix.dotProduct_mulVec, dotProduct_comm]
  have h2 : (M *ᵥ x) ⬝ᵥ Λ *ᵥ w = x ⬝ᵥ (w ᵥ* (Λ * M)) := by
    rw [← h1, Matrix.dotProduct_mulVec, ← Matrix.mulVec_transpose, hΛ, dotProduct_comm]
  have h3 : (M *ᵥ x) ⬝ᵥ Λ *ᵥ (M *ᵥ x) = x ⬝ᵥ (Mᵀ * Λ * M) *ᵥ x := by
    rw [Matrix.mul_assoc, ← Matrix.mulVec_mulVec, Matrix.dotProduct_mulVec x, Matrix.vecMul_transpose,
      Matrix.mulVec_mulVec]
  simp only [Matrix.mulVec_sub, sub_dotProduct, dotProduct_sub, h1, h2, h3]
  ring

/-- the function `set_y(y)` evaluates to, for every `Dx`, `Dy` -/
theorem setY_evalLn (sc : Fin N → Fin R) (c : CondB R Dy Dx ℝ) (hc : CondOK c) (y : Arr N (Vec Dy ℝ))
    (n : Fin N) (x : Fin Dx → ℝ) :
    (c.setYSel sc y).evalLn n (ofV x) =
      normalLn (toM (c.M (sc n)) *ᵥ x + toV (c.b (sc n))) (toM (c.Sigma (sc n)))⁻¹
        (Real.log (toM (c.Sigma (sc n))).det) (toV (y n))
      + ((Dy : ℝ) - (Dx : ℝ)) / 2 * Real.log (2 * Real.pi) := by
  have hS := hc.posDef (sc n)
  have hΛsym : ((toM (c.Sigma (sc n)))⁻¹)ᵀ = (toM (c.Sigma (sc n)))⁻¹ := by
    rw [← Matrix.conjTranspose_eq_transpose_of_trivial]; exact hS.inv.isHermitian
  simp only [Factor.evalLn, CondB.setYSel, Factor.toB, FactorB.evalLn, tab_apply, half_real, quad_eq,
    dot_eq, toV_ofV, toM_mmul, toM_transpose, toV_vecMul, toV_vsub, ofNat_real, log2pi_real,
    hc.lambda (sc n), hc.lnDet (sc n), normalLn]
  have hw : toV (y n) - (toM (c.M (sc n)) *ᵥ x + toV (c.b (sc n))) =
      (toV (y n) - toV (c.b (sc n))) - toM (c.M (sc n)) *ᵥ x := by
    ext i; simp only [Pi.sub_apply, Pi.add_apply]; ring
  rw [hw, quad_expand _ hΛsym]
  have hq : ((toV (y n) - toV (c.b (sc n))) ᵥ* (toM (c.Sigma (sc n)))⁻¹) ⬝ᵥ (toV (y n) - toV (c.b (sc n))) =
      (toV (y n) - toV (c.b (sc n))) ⬝ᵥ (toM (c.Sigma (sc n)))⁻¹ *ᵥ (toV (y n) - toV (c.b (sc n))) := by
    rw [Matrix.dotProduct_mulVec]
  rw [hq]
  ring

variable {be : Backend ℝ} (hbe : be.Spec)
include hbe

/-- `cond(x)(y)`: conditioning on `x` gives the normal density `N(y; Mx+b, Σ)` (component
`r*K+k` for conditional `r` and point `k`) -/
theorem conditionOnX_evalLn {K : Nat} (c : CondB R Dy Dx ℝ) (hc : CondOK c) (xs : Arr K (Vec Dx ℝ))
    (k : Fin (R * K)) (y : Fin Dy → ℝ) :
    (c.conditionOnX be xs).evalLn k (ofV y) =
      normalLn (toM (c.M (unflatL k)) *ᵥ toV (xs (unflatR k)) + toV (c.b (unflatL k)))
        (toM (c.Sigma (unflatL k)))⁻¹ (Real.log (toM (c.Sigma (unflatL k))).det) y := by
  unfold CondB.conditionOnX
  rw [mkPdf_evalLn hbe]
  · simp only [tab_apply, CondB.condMu, toV_vadd, toV_mulVec]
  · refine ⟨fun r => by simpa using hc.posDef _, by simp, ?_, ?_⟩
    · intro L hL r
      simp only [Option.some.injEq] at hL; subst hL
      simpa using hc.lambda _
    · intro L ld _ hld r
      simp only [Option.some.injEq] at hld; subst hld
      simpa using hc.lnDet _

/-- **C10, exact behaviour of the pinned code**: `set_y(y)(x)` is `cond(x)(y)` plus the constant
`(Dy − Dx)/2 · log 2π` — for every `R`, `N`, `Dx`, `Dy`, every parameter value and every point.
`k` is any point index with `xs k = x`; `sc` pairs observation `n` with its conditional. -/
theorem C10_set_y_offset {K : Nat} (sc : Fin N → Fin R) (c : CondB R Dy Dx ℝ) (hc : CondOK c)
    (y : Arr N (Vec Dy ℝ)) (xs : Arr K (Vec Dx ℝ)) (n : Fin N) (k : Fin K) :
    (c.setYSel sc y).evalLn n (ofV (toV (xs k))) =
      (c.conditionOnX be xs).evalLn (flat (sc n) k) (ofV (toV (y n)))
        + ((Dy : ℝ) - (Dx : ℝ)) / 2 * Real.log (2 * Real.pi) := by
  have hL : unflatL (flat (sc n) k) = sc n := by
    apply Fin.ext
    simp only [unflatL, flat]
    rw [Nat.add_comm, Nat.add_mul_div_right _ _ (Nat.pos_of_ne_zero (by rintro rfl; exact absurd k.2 (by simp)))]
    simp [Nat.div_eq_of_lt k.2]
  have hR : unflatR (flat (sc n) k) = k := by
    apply Fin.ext
    simp only [unflatR, flat]
    rw [Nat.add_comm, Nat.add_mul_mod_self_right]
    exact Nat.mod_eq_of_lt k.2
  rw [setY_evalLn sc c hc, conditionOnX_evalLn hbe c hc, hL, hR]

/-- **C10 (partial: `Dx = Dy`)**: then `set_y(y)(x) = cond(x)(y)` exactly. -/
theorem C10_set_y_partial {D K : Nat} (sc : Fin N → Fin R) (c : CondB R D D ℝ) (hc : CondOK c)
    (y : Arr N (Vec D ℝ)) (xs : Arr K (Vec D ℝ)) (n : Fin N) (k : Fin K) :
    (c.setYSel sc y).evalLn n (ofV (toV (xs k))) =
      (c.conditionOnX be xs).evalLn (flat (sc n) k) (ofV (toV (y n))) := by
  rw [C10_set_y_offset hbe sc c hc y xs n k]; simp

/-- **C10 counterexample** (the finding): with `Dy = 1`, `Dx = 2` the two sides differ by
`−½ log 2π ≠ 0`, whatever the parameters. -/
theorem C10_counterexample {K : Nat} (sc : Fin N → Fin R) (c : CondB R 1 2 ℝ) (hc : CondOK c)
    (y : Arr N (Vec 1 ℝ)) (xs : Arr K (Vec 2 ℝ)) (n : Fin N) (k : Fin K) :
    (c.setYSel sc y).evalLn n (ofV (toV (xs k))) ≠
      (c.conditionOnX be xs).evalLn (flat (sc n) k) (ofV (toV (y n))) := by
  rw [C10_set_y_offset hbe sc c hc y xs n k]
  intro h
  have hlog : 0 < Real.log (2 * Real.pi) := by
    apply Real.log_pos
    have := Real.two_le_pi
    linarith
  have : ((1 : ℕ) : ℝ) - ((2 : ℕ) : ℝ) = -1 := by norm_num
  rw [this] at h
  linarith

omit hbe in
/-- the returned factor is a well-formed batch with one component per observation: by
construction `Factor N Dx` has `N` components in every stored array; the precision of
component `n` is `MᵀΛM` of the paired conditional. -/
theorem C10_batch_wellformed (sc : Fin N → Fin R) (c : CondB R Dy Dx ℝ) (y : Arr N (Vec Dy ℝ)) (n : Fin N) :
    toM ((c.setYSel sc y).toB.Lambda n) =
      (toM (c.M (sc n)))ᵀ * toM (c.Lambda (sc n)) * toM (c.M (sc n)) := by
  simp [CondB.setYSel, Factor.toB]

end GT.Props.C10
