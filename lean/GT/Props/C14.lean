import GT.Model.LogCond
import GT.Math.Moments
import GT.Math.Block
import GT.Props.C03
import GT.Props.C10
import GT.Bridge.SpecSat
/-!
# C14 — expected log-factors and expected log-conditionals are the true integrals

All right-hand sides are Lebesgue integrals over `Fin D → ℝ` (Mathlib) against the unnormalised
Gaussian weight `exp (m.evalLn r ·)` of component `r`.

* view facts (`intView_ok`, `C14_view_mass/mu/Sigma/Sigma_symm`): after `integral()` the view holds
  the true mass, `μ = Λ⁻¹ν`, `Σ = Λ⁻¹`; `exp_evalLn_eq`: the weight is `β · gaussW Λ ν`.
* `C14_integrateLinear`, `C14_integrateQuadInner` (+ `_intView` forms): the keys `(Ax+a)` and
  `(Ax+a)'(Bx+b)` are the integrals of the affine form / inner product of affine forms.
* `C14_log_factor` (`C14_log_factor_classes`): `integrate("log u(x)", factor=f)` is `∫ ln f dφ` for
  every conjugate factor, factor batch selected by `sf` (`R_f = 1` or `R_f = R`); the factor's `Λ`
  need not be symmetric.
* `C14_log_conditional_y`, `C14_log_conditional`: the expected log-conditionals are
  `E[ln N(y; Mx+b, Σ)]` under the hypothesis `hmass` that the component has mass one (true for every
  density: `C14_view_mass_density`).  The code adds the `x`-independent terms without the mass
  factor, so for an unnormalised measure the result differs from the integral by the explicit
  offset of `C14_log_conditional_y_offset` / `C14_log_conditional_offset` (exact for all inputs).
-/
namespace GT.Props.C14
open GT Matrix MeasureTheory GT.Math GT.Props.C03

/-! ## affine moments of the Gaussian weight (Mathlib vocabulary) -/

section math
variable {n : Type*} [Fintype n] [DecidableEq n] {Λ : Matrix n n ℝ}

theorem integrable_linear_mul_gaussW (hΛ : Λ.PosDef) (ν a : n → ℝ) :
    Integrable (fun x => (a ⬝ᵥ x) * gaussW Λ ν x) := by
  simpa only [pow_one] using integrable_linear_pow_mul_gaussW hΛ ν a 1

omit [DecidableEq n] in
theorem affine_eq (ν a : n → ℝ) (α : ℝ) :
    (fun x => (a ⬝ᵥ x + α) * gaussW Λ ν x)
      = fun x => (a ⬝ᵥ x) * gaussW Λ ν x + α * gaussW Λ ν x := by
  funext x; ring

theorem integrable_affine_mul_gaussW (hΛ : Λ.PosDef) (ν a : n → ℝ) (α : ℝ) :
    Integrable (fun x => (a ⬝ᵥ x + α) * gaussW Λ ν x) := by
  rw [affine_eq]
  exact (integrable_linear_mul_gaussW hΛ ν a).add ((integrable_gaussW hΛ ν).const_mul α)

theorem integral_affine_mul_gaussW (hΛ : Λ.PosDef) (ν a : n → ℝ) (α : ℝ) :
    ∫ x, (a ⬝ᵥ x + α) * gaussW Λ ν x = (∫ x, gaussW Λ ν x) * (a ⬝ᵥ Λ⁻¹ *ᵥ ν + α) := by
  rw [affine_eq, integral_add (integrable_linear_mul_gaussW hΛ ν a)
    ((integrable_gaussW hΛ ν).const_mul α), integral_const_mul, gaussian_first_moment hΛ]
  ring

omit [DecidableEq n] in
theorem affine2_eq (ν a b : n → ℝ) (α β : ℝ) :
    (fun x => (a ⬝ᵥ x + α) * (b ⬝ᵥ x + β) * gaussW Λ ν x)
      = fun x => (a ⬝ᵥ x) * (b ⬝ᵥ x) * gaussW Λ ν x + β * ((a ⬝ᵥ x) * gaussW Λ ν x)
          + α * ((b ⬝ᵥ x) * gaussW Λ ν x) + α * β * gaussW Λ ν x := by
  funext x; ring

theorem integrable_affine2_mul_gaussW (hΛ : Λ.PosDef) (ν a b : n → ℝ) (α β : ℝ) :
    Integrable (fun x => (a ⬝ᵥ x + α) * (b ⬝ᵥ x + β) * gaussW Λ ν x) := by
  rw [affine2_eq]
  exact (((integrable_two_linear_mul_gaussW hΛ ν a b).add
    ((integrable_linear_mul_gaussW hΛ ν a).const_mul β)).add
    ((integrable_linear_mul_gaussW hΛ ν b).const_mul α)).add
    ((integrable_gaussW hΛ ν).const_mul (α * β))

theorem integral_affine2_mul_gaussW (hΛ : Λ.PosDef) (ν a b : n → ℝ) (α β : ℝ) :
    ∫ x, (a ⬝ᵥ x + α) * (b ⬝ᵥ x + β) * gaussW Λ ν x
      = (∫ x, gaussW Λ ν x)
        * ((a ⬝ᵥ Λ⁻¹ *ᵥ ν + α) * (b ⬝ᵥ Λ⁻¹ *ᵥ ν + β) + a ⬝ᵥ Λ⁻¹ *ᵥ b) := by
  have i2 := integrable_two_linear_mul_gaussW hΛ ν a b
  have ia := (integrable_linear_mul_gaussW hΛ ν a).const_mul β
  have ib := (integrable_linear_mul_gaussW hΛ ν b).const_mul α
  have i0 := (integrable_gaussW hΛ ν).const_mul (α * β)
  rw [affine2_eq, integral_add _ i0, integral_add _ ib, integral_add i2 ia, integral_const_mul,
    integral_const_mul, integral_const_mul, gaussian_mixed_second_moment hΛ,
    gaussian_first_moment hΛ, gaussian_first_moment hΛ]
  · ring
  · exact i2.add ia
  · exact (i2.add ia).add ib

end math

/-! ## 1. what `_prepare_integration` leaves behind -/

variable {R D K : Nat}

/-- the weight of component `r` splits into `β` times the Gaussian weight in natural parameters -/
theorem exp_evalLn_eq (m : MeasureB R D ℝ) (r : Fin R) (x : Fin D → ℝ) :
    Real.exp (m.evalLn r (ofV x))
      = Real.exp (m.lnBeta r) * gaussW (toM (m.Lambda r)) (toV (m.nu r)) x := by
  rw [C02.evalLn_eq, Real.exp_add, mul_comm, gaussW_apply]

/-- an integration view `v` that describes the measure `m`: total mass, mean and covariance -/
structure ViewOK (m : MeasureB R D ℝ) (v : IntV R D ℝ) : Prop where
  posDef : ∀ r, (toM (m.Lambda r)).PosDef
  mass : ∀ r, v.mass r = ∫ x : Fin D → ℝ, Real.exp (m.evalLn r (ofV x))
  mu : ∀ r, toV (v.mu r) = (toM (m.Lambda r))⁻¹ *ᵥ toV (m.nu r)
  Sigma : ∀ r, toM (v.Sigma r) = (toM (m.Lambda r))⁻¹

theorem ViewOK.symm {m : MeasureB R D ℝ} {v : IntV R D ℝ} (hv : ViewOK m v) :
    ∀ r i j, v.Sigma r i j = v.Sigma r j i := by
  intro r i j
  have h := PosDef_inv_transpose (hv.posDef r)
  rw [← hv.Sigma r] at h
  have := congrFun (congrFun h i) j
  simpa using this.symm

theorem ViewOK.mass_eq {m : MeasureB R D ℝ} {v : IntV R D ℝ} (hv : ViewOK m v) (r : Fin R) :
    v.mass r = Real.exp (m.lnBeta r) * ∫ x, gaussW (toM (m.Lambda r)) (toV (m.nu r)) x := by
  rw [hv.mass r]
  simp_rw [exp_evalLn_eq]
  rw [integral_const_mul]

theorem ViewOK.mass_pos {m : MeasureB R D ℝ} {v : IntV R D ℝ} (hv : ViewOK m v) (r : Fin R) :
    0 < v.mass r := by
  rw [hv.mass_eq r]
  exact mul_pos (Real.exp_pos _) (integral_gaussW_pos (hv.posDef r) _)

section view
variable {be : Backend ℝ} (hbe : be.Spec) {m : MeasureB R D ℝ}
include hbe

/-- **view facts**: after `integral()` the view holds the true mass, `μ = Λ⁻¹ν`, `Σ = Λ⁻¹` -/
theorem intView_ok (h : m.Inv) : ViewOK m (m.intView be).2 := by
  have hp := inv_prepare (be := be) hbe h
  have hmu : (m.prepare be).mu.isSome := C02.ensureMu_mu_isSome
  have hcov : (m.prepare be).cov.isSome := hp.covOfMu hmu
  have hint : m.integral be
      = (m.prepare be, tab fun r => Real.exp ((m.prepare be).lnZPlusLnBeta r)) := rfl
  have hmass : ∀ r, (m.integral be).2 r = ∫ x : Fin D → ℝ, Real.exp (m.evalLn r (ofV x)) :=
    fun r => C02.C02_integral hbe h r
  cases hc : (m.prepare be).cov with
  | none => simp [hc] at hcov
  | some c =>
    cases hm : (m.prepare be).mu with
    | none => simp [hm] at hmu
    | some mu =>
      have hview : (m.intView be).2 = ⟨(m.integral be).2, mu, c.Sigma⟩ := by
        simp only [MeasureB.intView, hint, hc, hm]
      rw [hview]
      refine ⟨h.posDef, hmass, ?_, ?_⟩
      · intro r
        have := hp.mu mu hm r
        simpa only [prepare_Lambda, prepare_nu] using this
      · intro r
        have := (hp.cov c hc r).inv
        simpa only [prepare_Lambda] using this

theorem C14_view_mass (h : m.Inv) (r : Fin R) :
    (m.intView be).2.mass r = ∫ x : Fin D → ℝ, Real.exp (m.evalLn r (ofV x)) :=
  (intView_ok hbe h).mass r

theorem C14_view_mu (h : m.Inv) (r : Fin R) :
    toV ((m.intView be).2.mu r) = (toM (m.Lambda r))⁻¹ *ᵥ toV (m.nu r) :=
  (intView_ok hbe h).mu r

theorem C14_view_Sigma (h : m.Inv) (r : Fin R) :
    toM ((m.intView be).2.Sigma r) = (toM (m.Lambda r))⁻¹ :=
  (intView_ok hbe h).Sigma r

theorem C14_view_Sigma_symm (h : m.Inv) (r : Fin R) (i j : Fin D) :
    (m.intView be).2.Sigma r i j = (m.intView be).2.Sigma r j i :=
  (intView_ok hbe h).symm r i j

end view

/-! ## 2. first and second moments of affine forms, model level -/

section moments
variable {m : MeasureB R D ℝ} {v : IntV R D ℝ} (hv : ViewOK m v)
include hv

theorem integrable_weight (r : Fin R) :
    Integrable (fun x : Fin D → ℝ => Real.exp (m.evalLn r (ofV x))) := by
  simp_rw [exp_evalLn_eq]
  exact (integrable_gaussW (hv.posDef r) _).const_mul _

theorem integrable_aff1 (r : Fin R) (a : Fin D → ℝ) (α : ℝ) :
    Integrable (fun x : Fin D → ℝ => (a ⬝ᵥ x + α) * Real.exp (m.evalLn r (ofV x))) := by
  have : (fun x : Fin D → ℝ => (a ⬝ᵥ x + α) * Real.exp (m.evalLn r (ofV x)))
      = fun x => Real.exp (m.lnBeta r)
          * ((a ⬝ᵥ x + α) * gaussW (toM (m.Lambda r)) (toV (m.nu r)) x) := by
    funext x; rw [exp_evalLn_eq]; ring
  rw [this]
  exact (integrable_affine_mul_gaussW (hv.posDef r) _ a α).const_mul _

theorem integral_aff1 (r : Fin R) (a : Fin D → ℝ) (α : ℝ) :
    ∫ x : Fin D → ℝ, (a ⬝ᵥ x + α) * Real.exp (m.evalLn r (ofV x))
      = v.mass r * (a ⬝ᵥ toV (v.mu r) + α) := by
  have : (fun x : Fin D → ℝ => (a ⬝ᵥ x + α) * Real.exp (m.evalLn r (ofV x)))
      = fun x => Real.exp (m.lnBeta r)
          * ((a ⬝ᵥ x + α) * gaussW (toM (m.Lambda r)) (toV (m.nu r)) x) := by
    funext x; rw [exp_evalLn_eq]; ring
  rw [this, integral_const_mul, integral_affine_mul_gaussW (hv.posDef r), hv.mass_eq r, hv.mu r]
  ring

theorem integrable_aff2 (r : Fin R) (a b : Fin D → ℝ) (α β : ℝ) :
    Integrable (fun x : Fin D → ℝ =>
      (a ⬝ᵥ x + α) * (b ⬝ᵥ x + β) * Real.exp (m.evalLn r (ofV x))) := by
  have : (fun x : Fin D → ℝ => (a ⬝ᵥ x + α) * (b ⬝ᵥ x + β) * Real.exp (m.evalLn r (ofV x)))
      = fun x => Real.exp (m.lnBeta r)
          * ((a ⬝ᵥ x + α) * (b ⬝ᵥ x + β) * gaussW (toM (m.Lambda r)) (toV (m.nu r)) x) := by
    funext x; rw [exp_evalLn_eq]; ring
  rw [this]
  exact (integrable_affine2_mul_gaussW (hv.posDef r) _ a b α β).const_mul _

theorem integral_aff2 (r : Fin R) (a b : Fin D → ℝ) (α β : ℝ) :
    ∫ x : Fin D → ℝ, (a ⬝ᵥ x + α) * (b ⬝ᵥ x + β) * Real.exp (m.evalLn r (ofV x))
      = v.mass r * ((a ⬝ᵥ toV (v.mu r) + α) * (b ⬝ᵥ toV (v.mu r) + β)
          + a ⬝ᵥ toM (v.Sigma r) *ᵥ b) := by
  have : (fun x : Fin D → ℝ => (a ⬝ᵥ x + α) * (b ⬝ᵥ x + β) * Real.exp (m.evalLn r (ofV x)))
      = fun x => Real.exp (m.lnBeta r)
          * ((a ⬝ᵥ x + α) * (b ⬝ᵥ x + β) * gaussW (toM (m.Lambda r)) (toV (m.nu r)) x) := by
    funext x; rw [exp_evalLn_eq]; ring
  rw [this, integral_const_mul, integral_affine2_mul_gaussW (hv.posDef r), hv.mass_eq r, hv.mu r,
    hv.Sigma r]
  ring

omit hv in
/-- the affine form `A x + a`, row `i` -/
theorem aff_row (f : AffForm R K D ℝ) (r : Fin R) (i : Fin K) (x : Fin D → ℝ) :
    (toM (f.A r) *ᵥ x + toV (f.a r)) i = (fun j => f.A r i j) ⬝ᵥ x + f.a r i := rfl

omit hv in
theorem mean_eq (f : AffForm R K D ℝ) (r : Fin R) (i : Fin K) :
    mean v f r i = (fun j => f.A r i j) ⬝ᵥ toV (v.mu r) + f.a r i := rfl

omit hv in
theorem cov_eq {L : Nat} (f : AffForm R K D ℝ) (g : AffForm R L D ℝ) (r : Fin R) (i : Fin K)
    (j : Fin L) :
    cov v f g r i j = (fun k => f.A r i k) ⬝ᵥ toM (v.Sigma r) *ᵥ (fun l => g.A r j l) := by
  simp only [cov, covR, dotProduct, Matrix.mulVec, toM_apply, Finset.mul_sum, mul_assoc]

/-- **linear key**: `integrate("(Ax+a)")` is the integral of the affine form -/
theorem C14_integrateLinear (f : AffForm R K D ℝ) (r : Fin R) (i : Fin K) :
    (v.integrateLinear f r) i
      = ∫ x : Fin D → ℝ, (toM (f.A r) *ᵥ x + toV (f.a r)) i * Real.exp (m.evalLn r (ofV x)) := by
  simp_rw [aff_row]
  rw [C03_alg_linear_integrate, integral_aff1 hv, mean_eq]

theorem integrable_affine_row (f : AffForm R K D ℝ) (r : Fin R) (i : Fin K) :
    Integrable (fun x : Fin D → ℝ =>
      (toM (f.A r) *ᵥ x + toV (f.a r)) i * Real.exp (m.evalLn r (ofV x))) := by
  simp_rw [aff_row]
  exact integrable_aff1 hv r _ _

theorem integrable_quadInner (f g : AffForm R K D ℝ) (r : Fin R) :
    Integrable (fun x : Fin D → ℝ =>
      (∑ i, (toM (f.A r) *ᵥ x + toV (f.a r)) i * (toM (g.A r) *ᵥ x + toV (g.a r)) i)
        * Real.exp (m.evalLn r (ofV x))) := by
  simp_rw [aff_row, Finset.sum_mul]
  exact integrable_finsetSum _ fun i _ => integrable_aff2 hv r _ _ _ _

/-- **quadratic inner key**: `integrate("(Ax+a)'(Bx+b)")` is the integral of the inner product of
the two affine forms -/
theorem C14_integrateQuadInner (f g : AffForm R K D ℝ) (r : Fin R) :
    v.integrateQuadInner f g r
      = ∫ x : Fin D → ℝ,
          (∑ i, (toM (f.A r) *ᵥ x + toV (f.a r)) i * (toM (g.A r) *ᵥ x + toV (g.a r)) i)
            * Real.exp (m.evalLn r (ofV x)) := by
  simp_rw [aff_row, Finset.sum_mul]
  rw [integral_finsetSum _ fun i _ => integrable_aff2 hv r _ _ _ _,
    C03_alg_quad_inner_integrate v hv.symm, Finset.mul_sum]
  refine Finset.sum_congr rfl fun i _ => ?_
  rw [integral_aff2 hv, wick2, mean_eq, mean_eq, cov_eq]

end moments

section
variable {be : Backend ℝ} (hbe : be.Spec) {m : MeasureB R D ℝ}
include hbe

theorem C14_integrateLinear_intView (h : m.Inv) (f : AffForm R K D ℝ) (r : Fin R) (i : Fin K) :
    ((m.intView be).2.integrateLinear f r) i
      = ∫ x : Fin D → ℝ, (toM (f.A r) *ᵥ x + toV (f.a r)) i * Real.exp (m.evalLn r (ofV x)) :=
  C14_integrateLinear (intView_ok hbe h) f r i

theorem C14_integrateQuadInner_intView (h : m.Inv) (f g : AffForm R K D ℝ) (r : Fin R) :
    (m.intView be).2.integrateQuadInner f g r
      = ∫ x : Fin D → ℝ,
          (∑ i, (toM (f.A r) *ᵥ x + toV (f.a r)) i * (toM (g.A r) *ᵥ x + toV (g.a r)) i)
            * Real.exp (m.evalLn r (ofV x)) :=
  C14_integrateQuadInner (intView_ok hbe h) f g r

end

/-! ## 3. `integrate("log u(x)", factor=f)` -/

/-- a conjugate factor's log-value in Mathlib vocabulary (no symmetry of `Λ` needed) -/
theorem factor_evalLn_eq {Rf : Nat} (fb : FactorB Rf D ℝ) (s : Fin Rf) (x : Fin D → ℝ) :
    fb.evalLn s (ofV x) =
      -(1 / 2) * (x ⬝ᵥ toM (fb.Lambda s) *ᵥ x) + toV (fb.nu s) ⬝ᵥ x + fb.lnBeta s := by
  simp only [FactorB.evalLn, half_real, quad_eq, dot_eq, toV_ofV]
  rw [dotProduct_comm x (toV (fb.nu s))]
  ring

theorem toM_default_A (r : Fin R) :
    toM ((getDefault none none : AffForm R D D ℝ).A r) = 1 := by
  ext i j
  simp only [toM_apply, getDefault_none_A, Matrix.one_apply, Fin.val_inj]

theorem toV_default_a (r : Fin R) :
    toV ((getDefault none none : AffForm R K D ℝ).a r) = 0 := by
  ext i
  simp only [toV_apply, getDefault_none_a, Pi.zero_apply]

section logFactor
variable {m : MeasureB R D ℝ} {v : IntV R D ℝ} (hv : ViewOK m v) {Rf : Nat}
include hv

/-- the quadratic term `∫ xᵀ(Λ_f x) dφ` as the code computes it -/
theorem quadForm_view (B : Arr R (Mat D D ℝ)) (r : Fin R) :
    Integrable (fun x : Fin D → ℝ => (x ⬝ᵥ toM (B r) *ᵥ x) * Real.exp (m.evalLn r (ofV x))) ∧
    v.integrateQuadInner (getDefault none none) ⟨B, tab fun _ => zeroV⟩ r
      = ∫ x : Fin D → ℝ, (x ⬝ᵥ toM (B r) *ᵥ x) * Real.exp (m.evalLn r (ofV x)) := by
  have hQ : ∀ x : Fin D → ℝ,
      (∑ i, (toM ((getDefault none none : AffForm R D D ℝ).A r) *ᵥ x
          + toV ((getDefault none none : AffForm R D D ℝ).a r)) i
        * (toM ((⟨B, tab fun _ => zeroV⟩ : AffForm R D D ℝ).A r) *ᵥ x
          + toV ((⟨B, tab fun _ => zeroV⟩ : AffForm R D D ℝ).a r)) i)
      = x ⬝ᵥ toM (B r) *ᵥ x := by
    intro x
    simp only [toM_default_A, toV_default_a, Matrix.one_mulVec, add_zero, tab_apply, toV_zeroV]
    rfl
  have h1 := integrable_quadInner hv (getDefault none none) ⟨B, tab fun _ => zeroV⟩ r
  have h2 := C14_integrateQuadInner hv (getDefault none none) ⟨B, tab fun _ => zeroV⟩ r
  simp_rw [hQ] at h1 h2
  exact ⟨h1, h2⟩

/-- `νᵀ ∫ x dφ` -/
theorem linForm_view (a : Vec D ℝ) (r : Fin R) :
    dot a (v.integrateX r)
      = ∫ x : Fin D → ℝ, (toV a ⬝ᵥ x + 0) * Real.exp (m.evalLn r (ofV x)) := by
  rw [integral_aff1 hv]
  simp only [dot_real, C03_alg_x, dotProduct, toV_apply, add_zero, Finset.mul_sum]
  exact Finset.sum_congr rfl fun i _ => by ring

/-- **C14 (log-factor), view form** -/
theorem log_factor_view (sf : Fin R → Fin Rf) (fb : FactorB Rf D ℝ) (r : Fin R) :
    (integrateLogFactor v sf fb) r
      = ∫ x : Fin D → ℝ, fb.evalLn (sf r) (ofV x) * Real.exp (m.evalLn r (ofV x)) := by
  obtain ⟨iQ, eQ⟩ := quadForm_view hv (tab fun r => fb.Lambda (sf r)) r
  simp only [tab_apply] at iQ eQ
  have iL := integrable_aff1 hv r (toV (fb.nu (sf r))) 0
  have iW := integrable_weight hv r
  have hfe : ∀ x : Fin D → ℝ, fb.evalLn (sf r) (ofV x) * Real.exp (m.evalLn r (ofV x))
      = -(1 / 2) * ((x ⬝ᵥ toM (fb.Lambda (sf r)) *ᵥ x) * Real.exp (m.evalLn r (ofV x)))
        + (toV (fb.nu (sf r)) ⬝ᵥ x + 0) * Real.exp (m.evalLn r (ofV x))
        + fb.lnBeta (sf r) * Real.exp (m.evalLn r (ofV x)) := by
    intro x; rw [factor_evalLn_eq]; ring
  have hL : (integrateLogFactor v sf fb) r
      = -(1 / 2 * v.integrateQuadInner (getDefault none none)
            ⟨tab fun r => fb.Lambda (sf r), tab fun _ => zeroV⟩ r)
        + dot (fb.nu (sf r)) (v.integrateX r) + fb.lnBeta (sf r) * v.mass r := by
    simp only [integrateLogFactor, tab_apply, half_real]
  rw [hL, eQ, linForm_view hv, hv.mass r]
  simp_rw [hfe]
  rw [integral_add _ (iW.const_mul _), integral_add (iQ.const_mul _) iL, integral_const_mul,
    integral_const_mul]
  · ring
  · exact (iQ.const_mul _).add iL

end logFactor

section
variable {be : Backend ℝ} (hbe : be.Spec) {m : MeasureB R D ℝ}
include hbe

/-- **C14 (log-factor)**: `integrate("log u(x)", factor=f)` is the integral of `ln f` against the
measure, for every measure satisfying the invariant and every conjugate factor (`R_f = 1` with
`sf = fun _ => 0`, `R_f = R` with `sf = id`; no symmetry of the factor's `Λ` is needed). -/
theorem C14_log_factor (h : m.Inv) {Rf : Nat} (sf : Fin R → Fin Rf) (fb : FactorB Rf D ℝ)
    (r : Fin R) :
    (integrateLogFactor (m.intView be).2 sf fb) r
      = ∫ x : Fin D → ℝ, fb.evalLn (sf r) (ofV x) * Real.exp (m.evalLn r (ofV x)) :=
  log_factor_view (intView_ok hbe h) sf fb r

/-- all four factor classes (`Factor.evalLn` goes through `toB`) -/
theorem C14_log_factor_classes (h : m.Inv) {Rf : Nat} (sf : Fin R → Fin Rf) (f : Factor Rf D ℝ)
    (r : Fin R) :
    (integrateLogFactor (m.intView be).2 sf f.toB) r
      = ∫ x : Fin D → ℝ, f.evalLn (sf r) (ofV x) * Real.exp (m.evalLn r (ofV x)) :=
  log_factor_view (intView_ok hbe h) sf f.toB r

end

/-! ## forms `(A x + a, Λ A x + Λ a)`: the Mahalanobis term of the log-conditionals -/

section lamForms
variable {m : MeasureB R D ℝ} {v : IntV R D ℝ} (hv : ViewOK m v)
include hv

/-- `∫ (Ax+a)ᵀ L (Ax+a) dφ` when the second form is `L` times the first -/
theorem quadLam_view (f g : AffForm R K D ℝ) (r : Fin R) (L : Matrix (Fin K) (Fin K) ℝ)
    (hA : toM (g.A r) = L * toM (f.A r)) (ha : toV (g.a r) = L *ᵥ toV (f.a r)) :
    Integrable (fun x : Fin D → ℝ =>
      ((toM (f.A r) *ᵥ x + toV (f.a r)) ⬝ᵥ L *ᵥ (toM (f.A r) *ᵥ x + toV (f.a r)))
        * Real.exp (m.evalLn r (ofV x))) ∧
    v.integrateQuadInner f g r = ∫ x : Fin D → ℝ,
      ((toM (f.A r) *ᵥ x + toV (f.a r)) ⬝ᵥ L *ᵥ (toM (f.A r) *ᵥ x + toV (f.a r)))
        * Real.exp (m.evalLn r (ofV x)) := by
  have hQ : ∀ x : Fin D → ℝ,
      (∑ i, (toM (f.A r) *ᵥ x + toV (f.a r)) i * (toM (g.A r) *ᵥ x + toV (g.a r)) i)
        = (toM (f.A r) *ᵥ x + toV (f.a r)) ⬝ᵥ L *ᵥ (toM (f.A r) *ᵥ x + toV (f.a r)) := by
    intro x
    rw [hA, ha, ← Matrix.mulVec_mulVec, ← Matrix.mulVec_add]
    rfl
  have h1 := integrable_quadInner hv f g r
  have h2 := C14_integrateQuadInner hv f g r
  simp_rw [hQ] at h1 h2
  exact ⟨h1, h2⟩

/-- `yᵀ ∫ L (Ax+a) dφ` -/
theorem dotLin_view (f g : AffForm R K D ℝ) (r : Fin R) (L : Matrix (Fin K) (Fin K) ℝ)
    (hA : toM (g.A r) = L * toM (f.A r)) (ha : toV (g.a r) = L *ᵥ toV (f.a r)) (y : Vec K ℝ) :
    Integrable (fun x : Fin D → ℝ =>
      (toV y ⬝ᵥ L *ᵥ (toM (f.A r) *ᵥ x + toV (f.a r))) * Real.exp (m.evalLn r (ofV x))) ∧
    dot y (v.integrateLinear g r) = ∫ x : Fin D → ℝ,
      (toV y ⬝ᵥ L *ᵥ (toM (f.A r) *ᵥ x + toV (f.a r))) * Real.exp (m.evalLn r (ofV x)) := by
  have hrow : ∀ (x : Fin D → ℝ) (i : Fin K), (toM (g.A r) *ᵥ x + toV (g.a r)) i
      = (L *ᵥ (toM (f.A r) *ᵥ x + toV (f.a r))) i := by
    intro x i
    rw [hA, ha, ← Matrix.mulVec_mulVec, ← Matrix.mulVec_add]
  have hsum : ∀ x : Fin D → ℝ,
      (toV y ⬝ᵥ L *ᵥ (toM (f.A r) *ᵥ x + toV (f.a r))) * Real.exp (m.evalLn r (ofV x))
        = ∑ i, y i * ((L *ᵥ (toM (f.A r) *ᵥ x + toV (f.a r))) i
            * Real.exp (m.evalLn r (ofV x))) := by
    intro x
    simp only [dotProduct, Finset.sum_mul, toV_apply, mul_assoc]
  have hint : ∀ i : Fin K, Integrable (fun x : Fin D → ℝ =>
      y i * ((L *ᵥ (toM (f.A r) *ᵥ x + toV (f.a r))) i * Real.exp (m.evalLn r (ofV x)))) := by
    intro i
    have := (integrable_affine_row hv g r i).const_mul (y i)
    simp_rw [hrow] at this
    exact this
  simp_rw [hsum]
  refine ⟨integrable_finsetSum _ fun i _ => hint i, ?_⟩
  rw [integral_finsetSum _ fun i _ => hint i, dot_real]
  refine Finset.sum_congr rfl fun i _ => ?_
  rw [integral_const_mul, C14_integrateLinear hv]
  simp_rw [hrow]

end lamForms

/-- expansion of the Mahalanobis term around `y` for symmetric `L` -/
theorem mahal_expand {N : Nat} (L : Matrix (Fin N) (Fin N) ℝ) (hL : Lᵀ = L) (y u : Fin N → ℝ) :
    (y - u) ⬝ᵥ L *ᵥ (y - u) = y ⬝ᵥ L *ᵥ y - 2 * (y ⬝ᵥ L *ᵥ u) + u ⬝ᵥ L *ᵥ u := by
  have hs := dotProduct_mulVec_symm hL u y
  simp only [Matrix.mulVec_sub, sub_dotProduct, dotProduct_sub, hs]
  ring

/-! ## 5. `integrate_log_conditional_y(p_x)(y)` -/

section condY
variable {Rp Dy Dx : Nat} {p : MeasureB Rp Dx ℝ} {v : IntV Rp Dx ℝ} (hv : ViewOK p v)
include hv

/-- **exact behaviour for every mass**: the code multiplies the `x`-dependent terms by the total
mass of `p_x` but not the two `x`-independent ones -/
theorem log_conditional_y_view (c : CondB 1 Dy Dx ℝ) (hc : C10.CondOK c) (r : Fin Rp)
    (y : Fin Dy → ℝ) :
    c.integrateLogConditionalY v r (ofV y)
      = (∫ x : Fin Dx → ℝ,
          normalLn (toM (c.M 0) *ᵥ x + toV (c.b 0)) (toM (c.Sigma 0))⁻¹
            (Real.log (toM (c.Sigma 0)).det) y * Real.exp (p.evalLn r (ofV x)))
        + (1 - v.mass r) * (-(1 / 2) * (y ⬝ᵥ (toM (c.Sigma 0))⁻¹ *ᵥ y)
            - 1 / 2 * ((Dy : ℝ) * Real.log (2 * Real.pi) + Real.log (toM (c.Sigma 0)).det)) := by
  have hsym : (toM (c.Lambda 0))ᵀ = toM (c.Lambda 0) := by
    rw [hc.lambda 0]; exact PosDef_inv_transpose (hc.posDef 0)
  rw [← hc.lambda 0, ← hc.lnDet 0]
  -- the two forms of the model
  have hcode : c.integrateLogConditionalY v r (ofV y)
      = -(1 / 2 * dot (ofV y) (mulVec (c.Lambda 0) (ofV y)))
        + dot (ofV y) (v.integrateLinear
            ⟨tab fun _ => mmul (c.Lambda 0) (c.M 0), tab fun _ => mulVec (c.Lambda 0) (c.b 0)⟩ r)
        + -(1 / 2 * (v.integrateQuadInner ⟨tab fun _ => c.M 0, tab fun _ => c.b 0⟩
            ⟨tab fun _ => mmul (c.Lambda 0) (c.M 0), tab fun _ => mulVec (c.Lambda 0) (c.b 0)⟩ r
              + (c.lnDetSigma 0 + (Dy : ℝ) * Real.log (2 * Real.pi)))) := by
    simp only [CondB.integrateLogConditionalY, half_real, ofNat_real, log2pi_real]
  have hA : toM ((⟨tab fun _ => mmul (c.Lambda 0) (c.M 0),
      tab fun _ => mulVec (c.Lambda 0) (c.b 0)⟩ : AffForm Rp Dy Dx ℝ).A r)
      = toM (c.Lambda 0) * toM ((⟨tab fun _ => c.M 0, tab fun _ => c.b 0⟩ : AffForm Rp Dy Dx ℝ).A r) := by
    simp only [tab_apply, toM_mmul]
  have ha : toV ((⟨tab fun _ => mmul (c.Lambda 0) (c.M 0),
      tab fun _ => mulVec (c.Lambda 0) (c.b 0)⟩ : AffForm Rp Dy Dx ℝ).a r)
      = toM (c.Lambda 0) *ᵥ toV ((⟨tab fun _ => c.M 0, tab fun _ => c.b 0⟩ : AffForm Rp Dy Dx ℝ).a r) := by
    simp only [tab_apply, toV_mulVec]
  obtain ⟨iQ, eQ⟩ := quadLam_view hv _ _ r _ hA ha
  obtain ⟨iL, eL⟩ := dotLin_view hv _ _ r _ hA ha (ofV y)
  simp only [tab_apply, toV_ofV] at iQ eQ iL eL
  have iW := integrable_weight hv r
  rw [hcode, eQ, eL, dot_eq, toV_mulVec, toV_ofV]
  have hN : ∀ x : Fin Dx → ℝ,
      normalLn (toM (c.M 0) *ᵥ x + toV (c.b 0)) (toM (c.Lambda 0)) (c.lnDetSigma 0) y
          * Real.exp (p.evalLn r (ofV x))
        = (-(1 / 2) * (y ⬝ᵥ toM (c.Lambda 0) *ᵥ y)) * Real.exp (p.evalLn r (ofV x))
          + (y ⬝ᵥ toM (c.Lambda 0) *ᵥ (toM (c.M 0) *ᵥ x + toV (c.b 0)))
              * Real.exp (p.evalLn r (ofV x))
          + -(1 / 2) * (((toM (c.M 0) *ᵥ x + toV (c.b 0)) ⬝ᵥ
              toM (c.Lambda 0) *ᵥ (toM (c.M 0) *ᵥ x + toV (c.b 0)))
              * Real.exp (p.evalLn r (ofV x)))
          + (-(1 / 2) * ((Dy : ℝ) * Real.log (2 * Real.pi) + c.lnDetSigma 0))
              * Real.exp (p.evalLn r (ofV x)) := by
    intro x
    rw [normalLn, mahal_expand _ hsym]
    ring
  simp_rw [hN]
  rw [integral_add _ (iW.const_mul _), integral_add _ (iQ.const_mul _),
    integral_add (iW.const_mul _) iL, integral_const_mul, integral_const_mul, integral_const_mul,
    ← hv.mass r]
  · ring
  · exact (iW.const_mul _).add iL
  · exact ((iW.const_mul _).add iL).add (iQ.const_mul _)

end condY

section
variable {be : Backend ℝ} (hbe : be.Spec) {Rp Dy Dx : Nat} {p : MeasureB Rp Dx ℝ}
include hbe

/-- **C14 (`integrate_log_conditional_y`)**: for a density `p_x` (mass one) the returned function
is `y ↦ E_{p(x)}[ln N(y; M x + b, Σ)]`. -/
theorem C14_log_conditional_y (hp : p.Inv) (c : CondB 1 Dy Dx ℝ) (hc : C10.CondOK c) (r : Fin Rp)
    (hmass : (p.intView be).2.mass r = 1) (y : Fin Dy → ℝ) :
    c.integrateLogConditionalY (p.intView be).2 r (ofV y)
      = ∫ x : Fin Dx → ℝ,
          normalLn (toM (c.M 0) *ᵥ x + toV (c.b 0)) (toM (c.Sigma 0))⁻¹
            (Real.log (toM (c.Sigma 0)).det) y * Real.exp (p.evalLn r (ofV x)) := by
  rw [log_conditional_y_view (intView_ok hbe hp) c hc r y, hmass]
  ring

/-- the same for an arbitrary (unnormalised) measure: exact offset -/
theorem C14_log_conditional_y_offset (hp : p.Inv) (c : CondB 1 Dy Dx ℝ) (hc : C10.CondOK c)
    (r : Fin Rp) (y : Fin Dy → ℝ) :
    c.integrateLogConditionalY (p.intView be).2 r (ofV y)
      = (∫ x : Fin Dx → ℝ,
          normalLn (toM (c.M 0) *ᵥ x + toV (c.b 0)) (toM (c.Sigma 0))⁻¹
            (Real.log (toM (c.Sigma 0)).det) y * Real.exp (p.evalLn r (ofV x)))
        + (1 - (p.intView be).2.mass r) * (-(1 / 2) * (y ⬝ᵥ (toM (c.Sigma 0))⁻¹ *ᵥ y)
            - 1 / 2 * ((Dy : ℝ) * Real.log (2 * Real.pi) + Real.log (toM (c.Sigma 0)).det)) :=
  log_conditional_y_view (intView_ok hbe hp) c hc r y

end

/-! ## 4. `integrate_log_conditional(q)` for `q` over `(y, x)` -/

/-- the `y` block of a joint point `(y, x)` (y first) -/
def ypart {Dy Dx : Nat} (z : Fin (Dy + Dx) → ℝ) : Fin Dy → ℝ := fun i => z (Fin.castAdd Dx i)
/-- the `x` block of a joint point `(y, x)` -/
def xpart {Dy Dx : Nat} (z : Fin (Dy + Dx) → ℝ) : Fin Dx → ℝ := fun j => z (Fin.natAdd Dy j)

/-- the form `y − M x − b` on the joint space, as the code builds it (`A = [I, −M]`, `a = −b`) -/
def jointForm {Rc Rp Dy Dx : Nat} (c : CondB Rc Dy Dx ℝ) (sc : Fin Rp → Fin Rc) :
    AffForm Rp Dy (Dy + Dx) ℝ :=
  ⟨tab3 fun r i j =>
      match splitIdx j with
      | Sum.inl j => (eye : Mat Dy Dy ℝ) i j
      | Sum.inr j => -(c.M (sc r) i j),
   tab2 fun r i => -(c.b (sc r) i)⟩

/-- `Λ` times `jointForm` -/
def jointFormT {Rc Rp Dy Dx : Nat} (c : CondB Rc Dy Dx ℝ) (sc : Fin Rp → Fin Rc) :
    AffForm Rp Dy (Dy + Dx) ℝ :=
  ⟨tab fun r => mmul (c.Lambda (sc r)) ((jointForm c sc).A r),
   tab fun r => mulVec (c.Lambda (sc r)) ((jointForm c sc).a r)⟩

theorem jointForm_apply {Rc Rp Dy Dx : Nat} (c : CondB Rc Dy Dx ℝ) (sc : Fin Rp → Fin Rc)
    (r : Fin Rp) (z : Fin (Dy + Dx) → ℝ) :
    toM ((jointForm c sc).A r) *ᵥ z + toV ((jointForm c sc).a r)
      = ypart z - (toM (c.M (sc r)) *ᵥ xpart z + toV (c.b (sc r))) := by
  ext i
  simp only [Pi.add_apply, Pi.sub_apply, Matrix.mulVec, dotProduct, jointForm, toM_apply,
    toV_apply, tab_apply, Fin.sum_univ_add, splitIdx_castAdd, splitIdx_natAdd,
    eye_apply, ite_mul, one_mul, zero_mul, Finset.sum_ite_eq, Finset.mem_univ, if_true, neg_mul,
    Finset.sum_neg_distrib, ypart, xpart]
  ring

theorem integrateLogConditional_eq {Rc Rp Dy Dx : Nat} (c : CondB Rc Dy Dx ℝ)
    (v : IntV Rp (Dy + Dx) ℝ) (sc : Fin Rp → Fin Rc) (r : Fin Rp) :
    (c.integrateLogConditional v sc) r
      = -(1 / 2 * (v.integrateQuadInner (jointForm c sc) (jointFormT c sc) r
          + (c.lnDetSigma (sc r) + (Dy : ℝ) * Real.log (2 * Real.pi)))) := by
  simp only [CondB.integrateLogConditional, jointForm, jointFormT, tab_apply, half_real,
    ofNat_real, log2pi_real]
  rfl

section condJoint
variable {Rc Rp Dy Dx : Nat} {q : MeasureB Rp (Dy + Dx) ℝ} {v : IntV Rp (Dy + Dx) ℝ}
  (hv : ViewOK q v)
include hv

/-- **exact behaviour for every mass**: the normaliser `−½(ln det Σ + Dy log 2π)` is added without
the mass factor -/
theorem log_conditional_view (c : CondB Rc Dy Dx ℝ) (hc : C10.CondOK c) (sc : Fin Rp → Fin Rc)
    (r : Fin Rp) :
    (c.integrateLogConditional v sc) r
      = (∫ z : Fin (Dy + Dx) → ℝ,
          normalLn (toM (c.M (sc r)) *ᵥ xpart z + toV (c.b (sc r))) (toM (c.Sigma (sc r)))⁻¹
            (Real.log (toM (c.Sigma (sc r))).det) (ypart z) * Real.exp (q.evalLn r (ofV z)))
        - (1 - v.mass r)
          * (1 / 2 * ((Dy : ℝ) * Real.log (2 * Real.pi) + Real.log (toM (c.Sigma (sc r))).det)) := by
  rw [← hc.lambda (sc r), ← hc.lnDet (sc r)]
  have hA : toM ((jointFormT c sc).A r)
      = toM (c.Lambda (sc r)) * toM ((jointForm c sc).A r) := by
    simp only [jointFormT, tab_apply, toM_mmul]
  have ha : toV ((jointFormT c sc).a r)
      = toM (c.Lambda (sc r)) *ᵥ toV ((jointForm c sc).a r) := by
    simp only [jointFormT, tab_apply, toV_mulVec]
  obtain ⟨iQ, eQ⟩ := quadLam_view hv _ _ r _ hA ha
  simp only [jointForm_apply] at iQ eQ
  have iW := integrable_weight hv r
  rw [integrateLogConditional_eq, eQ]
  have hN : ∀ z : Fin (Dy + Dx) → ℝ,
      normalLn (toM (c.M (sc r)) *ᵥ xpart z + toV (c.b (sc r))) (toM (c.Lambda (sc r)))
          (c.lnDetSigma (sc r)) (ypart z) * Real.exp (q.evalLn r (ofV z))
        = -(1 / 2) * (((ypart z - (toM (c.M (sc r)) *ᵥ xpart z + toV (c.b (sc r)))) ⬝ᵥ
              toM (c.Lambda (sc r)) *ᵥ
                (ypart z - (toM (c.M (sc r)) *ᵥ xpart z + toV (c.b (sc r)))))
              * Real.exp (q.evalLn r (ofV z)))
          + (-(1 / 2) * ((Dy : ℝ) * Real.log (2 * Real.pi) + c.lnDetSigma (sc r)))
              * Real.exp (q.evalLn r (ofV z)) := by
    intro z
    rw [normalLn]
    ring
  simp_rw [hN]
  rw [integral_add (iQ.const_mul _) (iW.const_mul _), integral_const_mul, integral_const_mul,
    ← hv.mass r]
  ring

end condJoint

section
variable {be : Backend ℝ} (hbe : be.Spec) {Rc Rp Dy Dx : Nat} {q : MeasureB Rp (Dy + Dx) ℝ}
include hbe

/-- **C14 (`integrate_log_conditional`)**: for a density `q` over `(y, x)` (mass one) the result is
`E_q[ln N(y; M x + b, Σ)]`; `sc` pairs component `r` of `q` with its conditional (`R_c = 1` or
`R_c = R_q`). -/
theorem C14_log_conditional (hq : q.Inv) (c : CondB Rc Dy Dx ℝ) (hc : C10.CondOK c)
    (sc : Fin Rp → Fin Rc) (r : Fin Rp) (hmass : (q.intView be).2.mass r = 1) :
    (c.integrateLogConditional (q.intView be).2 sc) r
      = ∫ z : Fin (Dy + Dx) → ℝ,
          normalLn (toM (c.M (sc r)) *ᵥ xpart z + toV (c.b (sc r))) (toM (c.Sigma (sc r)))⁻¹
            (Real.log (toM (c.Sigma (sc r))).det) (ypart z) * Real.exp (q.evalLn r (ofV z)) := by
  rw [log_conditional_view (intView_ok hbe hq) c hc sc r, hmass]
  ring

/-- the same for an arbitrary (unnormalised) measure: exact offset -/
theorem C14_log_conditional_offset (hq : q.Inv) (c : CondB Rc Dy Dx ℝ) (hc : C10.CondOK c)
    (sc : Fin Rp → Fin Rc) (r : Fin Rp) :
    (c.integrateLogConditional (q.intView be).2 sc) r
      = (∫ z : Fin (Dy + Dx) → ℝ,
          normalLn (toM (c.M (sc r)) *ᵥ xpart z + toV (c.b (sc r))) (toM (c.Sigma (sc r)))⁻¹
            (Real.log (toM (c.Sigma (sc r))).det) (ypart z) * Real.exp (q.evalLn r (ofV z)))
        - (1 - (q.intView be).2.mass r)
          * (1 / 2 * ((Dy : ℝ) * Real.log (2 * Real.pi) + Real.log (toM (c.Sigma (sc r))).det)) :=
  log_conditional_view (intView_ok hbe hq) c hc sc r

end

/-! ## densities have mass one; non-vacuity -/

section
variable {be : Backend ℝ} (hbe : be.Spec)
include hbe

/-- the mass hypothesis of `C14_log_conditional` / `C14_log_conditional_y` holds for every object
built by the density constructor -/
theorem C14_view_mass_density (diag : Bool) (Sigma : Arr R (Mat D D ℝ)) (mu : Arr R (Vec D ℝ))
    (Lambda : Option (Arr R (Mat D D ℝ))) (lnDetSigma : Option (Arr R ℝ))
    (h : C02.PdfArgsOK diag Sigma Lambda lnDetSigma) (r : Fin R) :
    ((mkPdf be diag Sigma mu Lambda lnDetSigma).intView be).2.mass r = 1 := by
  rw [C14_view_mass hbe (C02.mkPdf_inv hbe diag Sigma mu Lambda lnDetSigma h)]
  exact C02.C02_density_integrates_to_one hbe diag Sigma mu Lambda lnDetSigma h r

end

theorem stdArgs_ok (R D : Nat) :
    C02.PdfArgsOK (R := R) (D := D) false (tab fun _ => eye) none none :=
  ⟨fun r => by simp [Matrix.PosDef.one], by simp, by simp, by simp⟩

/-- a conditional with unit noise covariance and arbitrary `M`, `b` -/
def unitCond {Dy Dx : Nat} (R : Nat) (M : Mat Dy Dx ℝ) (b : Vec Dy ℝ) : CondB R Dy Dx ℝ :=
  ⟨false, tab fun _ => M, tab fun _ => b, tab fun _ => eye, tab fun _ => eye, tab fun _ => 0⟩

theorem unitCond_ok {Dy Dx : Nat} (R : Nat) (M : Mat Dy Dx ℝ) (b : Vec Dy ℝ) :
    C10.CondOK (unitCond R M b) := by
  refine ⟨?_, ?_, ?_⟩ <;> intro r <;> simp [unitCond, Matrix.PosDef.one]

theorem posDef_2112 : (!![2, 1; 1, 2] : Matrix (Fin 2) (Fin 2) ℝ).PosDef := by
  apply Matrix.PosDef.of_dotProduct_mulVec_pos
  · ext i j; fin_cases i <;> fin_cases j <;> simp
  · intro x hx
    have hx' : x 0 ≠ 0 ∨ x 1 ≠ 0 := by
      by_contra hcon
      push Not at hcon
      apply hx
      ext i; fin_cases i <;> simp [hcon.1, hcon.2]
    simp only [dotProduct, Matrix.mulVec, Fin.sum_univ_two, star_trivial, Matrix.of_apply,
      Matrix.cons_val', Matrix.cons_val_zero, Matrix.cons_val_one, Matrix.cons_val_fin_one]
    rcases hx' with h0 | h1
    · nlinarith [sq_nonneg (x 0 + x 1), sq_pos_of_ne_zero h0, sq_nonneg (x 1)]
    · nlinarith [sq_nonneg (x 0 + x 1), sq_pos_of_ne_zero h1, sq_nonneg (x 0)]

/-- all hypotheses are jointly satisfiable on non-trivial objects: a backend meeting the contract; an
unnormalised two-component measure with a non-diagonal precision and a factor with a
NON-symmetric `Λ` (log-factor); two-component densities over `(y, x) ∈ ℝ^{1+2}` and over
`x ∈ ℝ²` with mass one and conditionals `ℝ² → ℝ¹` with `M = (3, 5)` (log-conditionals) -/
example : ∃ be : Backend ℝ, be.Spec ∧
    ∃ (m : MeasureB 2 2 ℝ) (fb : FactorB 1 2 ℝ) (q : MeasureB 2 (1 + 2) ℝ) (p : MeasureB 2 2 ℝ)
      (c : CondB 2 1 2 ℝ) (c1 : CondB 1 1 2 ℝ),
      m.Inv ∧ m.Lambda 0 0 1 = 1 ∧ fb.Lambda 0 0 1 ≠ fb.Lambda 0 1 0 ∧
      q.Inv ∧ (∀ r, (q.intView be).2.mass r = 1) ∧
      p.Inv ∧ (∀ r, (p.intView be).2.mass r = 1) ∧
      C10.CondOK c ∧ C10.CondOK c1 ∧ c.M 0 0 1 = 5 ∧ c1.M 0 0 1 = 5 := by
  refine ⟨Backend.sat, Backend.sat_spec,
    MeasureB.mk0 .measure (tab fun _ => ofM !![2, 1; 1, 2]) (tab fun _ => ofV ![1, -1])
      (tab fun _ => 3),
    ⟨tab fun _ => ofM !![1, 2; 0, 1], tab fun _ => ofV ![1, 0], tab fun _ => 0⟩,
    mkPdf Backend.sat false (tab fun _ => eye) (tab fun _ => ofV ![1, 2, 3]) none none,
    mkPdf Backend.sat false (tab fun _ => eye) (tab fun _ => ofV ![1, 2]) none none,
    unitCond 2 (ofM !![3, 5]) (ofV ![1]), unitCond 1 (ofM !![3, 5]) (ofV ![1]),
    ?_, ?_, ?_, ?_, ?_, ?_, ?_, unitCond_ok _ _ _, unitCond_ok _ _ _, ?_, ?_⟩
  · exact inv_mk0 _ _ _ _ (fun r => by simpa using posDef_2112) (by simp [MCls.isDiag])
  · simp [MeasureB.mk0, ofM]
  · simp [ofM]
  · exact C02.mkPdf_inv Backend.sat_spec _ _ _ _ _ (stdArgs_ok _ _)
  · exact fun r => C14_view_mass_density Backend.sat_spec _ _ _ _ _ (stdArgs_ok _ _) r
  · exact C02.mkPdf_inv Backend.sat_spec _ _ _ _ _ (stdArgs_ok _ _)
  · exact fun r => C14_view_mass_density Backend.sat_spec _ _ _ _ _ (stdArgs_ok _ _) r
  · simp [unitCond, ofM]
  · simp [unitCond, ofM]

end GT.Props.C14

#print axioms GT.Props.C14.intView_ok
#print axioms GT.Props.C14.C14_view_mass
#print axioms GT.Props.C14.C14_view_mu
#print axioms GT.Props.C14.C14_view_Sigma
#print axioms GT.Props.C14.C14_view_Sigma_symm
#print axioms GT.Props.C14.exp_evalLn_eq
#print axioms GT.Props.C14.C14_integrateLinear
#print axioms GT.Props.C14.C14_integrateQuadInner
#print axioms GT.Props.C14.C14_integrateLinear_intView
#print axioms GT.Props.C14.C14_integrateQuadInner_intView
#print axioms GT.Props.C14.C14_log_factor
#print axioms GT.Props.C14.C14_log_factor_classes
#print axioms GT.Props.C14.C14_log_conditional_y
#print axioms GT.Props.C14.C14_log_conditional_y_offset
#print axioms GT.Props.C14.C14_log_conditional
#print axioms GT.Props.C14.C14_log_conditional_offset
#print axioms GT.Props.C14.C14_view_mass_density
