import GT.Bridge.PdfOK
import GT.Bridge.SpecSat
import Mathlib.LinearAlgebra.Matrix.ToLin
import GT.Math.MarginalIntegral
/-!
# C05 — marginals and linear images of a Gaussian density

* `C05_marginal_evalLn`: `get_marginal(dims)` evaluates to the normal log-density with mean
  `μ∘dims` and covariance `Σ[dims,dims]` (any injective `dims`, any order); it satisfies the
  invariant and integrates to one.
* `C05_marginal_params`: mean and covariance of the returned object, for any `dims`.
* `C05_marginal_perm`: for a permutation of all coordinates the marginal is the original density
  in permuted coordinates.
* `C05_linear_sum_evalLn`: `get_density_of_linear_sum(W, b)` is `N(Wμ+b, WΣWᵀ)`; full row rank of
  `W` gives the positive definiteness needed.
* `C05_marginal_density_integral`: for `dims` = the first `K` coordinates, the marginal density is
  the Lebesgue integral of the joint density over the remaining coordinates.
-/
namespace GT.Props.C05
open GT Matrix MeasureTheory

variable {R D K : Nat}

/-! ## marginals -/

theorem toM_sub (S : Arr R (Mat D D ℝ)) (dims : Fin K → Fin D) (r : Fin R) :
    toM ((tab3 fun r i j => S r (dims i) (dims j)) r) = (toM (S r)).submatrix dims dims := by
  ext i j; simp

theorem toV_sub (mu : Arr R (Vec D ℝ)) (dims : Fin K → Fin D) (r : Fin R) :
    toV ((tab2 fun r i => mu r (dims i)) r) = toV (mu r) ∘ dims := by
  ext i; simp

/-- the arguments `get_marginal` passes to the constructor are admissible -/
theorem marginal_argsOK (p : PdfV R D ℝ) (hp : PdfOK p) (hd : PdfDiagOK p) (dims : Fin K → Fin D)
    (hinj : Function.Injective dims) :
    C02.PdfArgsOK p.diag (tab3 fun r i j => p.Sigma r (dims i) (dims j)) none none := by
  refine ⟨fun r => ?_, fun hdg r i j hij => ?_, by simp, by simp⟩
  · rw [toM_sub]; exact (hp.posDef r).submatrix hinj
  · simp only [tab3_apply]
    exact hd hdg r _ _ (fun h => hij (hinj h))

variable {be : Backend ℝ} (hbe : be.Spec)
include hbe

/-- **C05** `get_marginal(dims)` is `N(μ∘dims, Σ[dims,dims])`, for any list of distinct
coordinates in any order, full and diagonal class. -/
theorem C05_marginal_evalLn (p : PdfV R D ℝ) (hp : PdfOK p) (hd : PdfDiagOK p) (dims : Fin K → Fin D)
    (hinj : Function.Injective dims) (r : Fin R) (y : Fin K → ℝ) :
    (p.getMarginal be dims).evalLn r (ofV y) =
      normalLn (toV (p.mu r) ∘ dims) ((toM (p.Sigma r)).submatrix dims dims)⁻¹
        (Real.log ((toM (p.Sigma r)).submatrix dims dims).det) y := by
  unfold PdfV.getMarginal
  rw [mkPdf_evalLn hbe _ _ _ _ _ (marginal_argsOK p hp hd dims hinj), toM_sub, toV_sub]

/-- the marginal satisfies the consistency invariant -/
theorem C05_marginal_inv (p : PdfV R D ℝ) (hp : PdfOK p) (hd : PdfDiagOK p) (dims : Fin K → Fin D)
    (hinj : Function.Injective dims) : (p.getMarginal be dims).Inv :=
  C02.mkPdf_inv hbe _ _ _ _ _ (marginal_argsOK p hp hd dims hinj)

/-- the marginal integrates to one -/
theorem C05_marginal_integral_one (p : PdfV R D ℝ) (hp : PdfOK p) (hd : PdfDiagOK p)
    (dims : Fin K → Fin D) (hinj : Function.Injective dims) (r : Fin R) :
    ∫ y : Fin K → ℝ, Real.exp ((p.getMarginal be dims).evalLn r (ofV y)) = 1 :=
  C02.C02_density_integrates_to_one hbe _ _ _ _ _ (marginal_argsOK p hp hd dims hinj) r

omit hbe in
/-- **C05** mean and covariance of the object returned by `get_marginal(dims)`, for **any**
`dims` (no hypothesis at all: this is what is stored). -/
theorem C05_marginal_params (p : PdfV R D ℝ) (dims : Fin K → Fin D) :
    ∃ j : PdfV R K ℝ, (p.getMarginal be dims).asPdf = some j ∧ j.diag = p.diag ∧
      (∀ r i, j.mu r i = p.mu r (dims i)) ∧
      (∀ r, toV (j.mu r) = toV (p.mu r) ∘ dims) ∧
      (∀ r i i', j.Sigma r i i' = p.Sigma r (dims i) (dims i')) ∧
      (∀ r, toM (j.Sigma r) = (toM (p.Sigma r)).submatrix dims dims) := by
  unfold PdfV.getMarginal
  obtain ⟨j, hj, hS, hmu, -, -, -, -, hdg⟩ := mkPdf_asPdf (be := be) p.diag
    (tab3 fun r i j => p.Sigma r (dims i) (dims j)) (tab2 fun r i => p.mu r (dims i)) none none
  refine ⟨j, hj, by rw [hdg, mkPdf_cls], ?_, ?_, ?_, ?_⟩
  · intro r i; rw [hmu]; simp
  · intro r; rw [hmu, toV_sub]
  · intro r i i'; rw [hS]; simp
  · intro r; rw [hS, toM_sub]

/-- under the preconditions the returned view is a consistent density view (its `Lambda` is the
inverse of `Σ[dims,dims]`, its `ln_det_Sigma` the log-determinant) -/
theorem C05_marginal_ok (p : PdfV R D ℝ) (hp : PdfOK p) (hd : PdfDiagOK p) (dims : Fin K → Fin D)
    (hinj : Function.Injective dims) :
    ∃ j : PdfV R K ℝ, (p.getMarginal be dims).asPdf = some j ∧ PdfOK j ∧ PdfDiagOK j ∧
      (∀ r, toV (j.mu r) = toV (p.mu r) ∘ dims) ∧
      (∀ r, toM (j.Sigma r) = (toM (p.Sigma r)).submatrix dims dims) := by
  unfold PdfV.getMarginal
  obtain ⟨j, hj, hS, hmu, -, hok, hdok⟩ := mkPdf_asPdf_ok hbe p.diag
    (tab3 fun r i j => p.Sigma r (dims i) (dims j)) (tab2 fun r i => p.mu r (dims i)) none none
    (marginal_argsOK p hp hd dims hinj)
  refine ⟨j, hj, hok, hdok, ?_, ?_⟩
  · intro r; rw [hmu, toV_sub]
  · intro r; rw [hS, toM_sub]

omit hbe in
/-- the normal log-density is invariant under a simultaneous permutation of coordinates -/
theorem normalLn_perm (σ : Equiv.Perm (Fin D)) (μ : Fin D → ℝ) (S : Matrix (Fin D) (Fin D) ℝ)
    (y : Fin D → ℝ) :
    normalLn (μ ∘ σ) (S.submatrix σ σ)⁻¹ (Real.log (S.submatrix σ σ).det) (y ∘ σ) =
      normalLn μ S⁻¹ (Real.log S.det) y := by
  simp only [normalLn, Matrix.inv_submatrix_equiv, Matrix.det_submatrix_equiv_self]
  have h1 : (y ∘ σ - μ ∘ σ) = (y - μ) ∘ σ := rfl
  rw [h1, Matrix.submatrix_mulVec_equiv]
  have h2 : ((y - μ) ∘ ⇑σ) ∘ ⇑σ.symm = y - μ := by
    ext i; simp
  rw [h2]
  have h3 : (y - μ) ∘ ⇑σ ⬝ᵥ (S⁻¹ *ᵥ (y - μ)) ∘ ⇑σ = (y - μ) ⬝ᵥ S⁻¹ *ᵥ (y - μ) := by
    simp only [dotProduct, Function.comp_apply]
    exact Equiv.sum_comp σ fun i => (y - μ) i * (S⁻¹ *ᵥ (y - μ)) i
  rw [h3]

/-- **C05** a permutation of *all* coordinates: the "marginal" is the original normal density,
read in the permuted coordinates. -/
theorem C05_marginal_perm (p : PdfV R D ℝ) (hp : PdfOK p) (hd : PdfDiagOK p)
    (σ : Equiv.Perm (Fin D)) (r : Fin R) (y : Fin D → ℝ) :
    (p.getMarginal be σ).evalLn r (ofV (y ∘ σ)) =
      normalLn (toV (p.mu r)) (toM (p.Sigma r))⁻¹ (Real.log (toM (p.Sigma r)).det) y := by
  rw [C05_marginal_evalLn hbe p hp hd σ σ.injective r, normalLn_perm]

/-! ## linear images -/

omit hbe in
/-- the offset `b` (zero if not given) -/
def offset (b : Option (Arr R (Vec K ℝ))) (r : Fin R) : Fin K → ℝ :=
  match b with
  | some b => toV (b r)
  | none => 0

omit hbe in
theorem linearSum_argsOK (p : PdfV R D ℝ) (W : Arr R (Mat K D ℝ))
    (hW : ∀ r, (toM (W r) * toM (p.Sigma r) * (toM (W r))ᵀ).PosDef) :
    C02.PdfArgsOK false (tab fun r => mmul (mmul (W r) (p.Sigma r)) (transpose (W r))) none none := by
  refine ⟨fun r => ?_, by simp, by simp, by simp⟩
  simpa only [tab_apply, toM_mmul, toM_transpose] using hW r

/-- **C05** `get_density_of_linear_sum(W, b)` is `N(Wμ + b, WΣWᵀ)`. -/
theorem C05_linear_sum_evalLn (p : PdfV R D ℝ) (W : Arr R (Mat K D ℝ)) (b : Option (Arr R (Vec K ℝ)))
    (hW : ∀ r, (toM (W r) * toM (p.Sigma r) * (toM (W r))ᵀ).PosDef) (r : Fin R) (y : Fin K → ℝ) :
    (p.linearSum be W b).evalLn r (ofV y) =
      normalLn (toM (W r) *ᵥ toV (p.mu r) + offset b r)
        (toM (W r) * toM (p.Sigma r) * (toM (W r))ᵀ)⁻¹
        (Real.log (toM (W r) * toM (p.Sigma r) * (toM (W r))ᵀ).det) y := by
  cases b with
  | none =>
    simp only [PdfV.linearSum, offset, add_zero]
    rw [mkPdf_evalLn hbe _ _ _ _ _ (linearSum_argsOK p W hW)]
    simp only [tab_apply, toM_mmul, toM_transpose, toV_mulVec]
  | some b =>
    simp only [PdfV.linearSum, offset]
    rw [mkPdf_evalLn hbe _ _ _ _ _ (linearSum_argsOK p W hW)]
    simp only [tab_apply, toM_mmul, toM_transpose, toV_mulVec, toV_vadd]

theorem C05_linear_sum_inv (p : PdfV R D ℝ) (W : Arr R (Mat K D ℝ)) (b : Option (Arr R (Vec K ℝ)))
    (hW : ∀ r, (toM (W r) * toM (p.Sigma r) * (toM (W r))ᵀ).PosDef) : (p.linearSum be W b).Inv := by
  cases b <;> exact C02.mkPdf_inv hbe _ _ _ _ _ (linearSum_argsOK p W hW)

theorem C05_linear_sum_integral_one (p : PdfV R D ℝ) (W : Arr R (Mat K D ℝ))
    (b : Option (Arr R (Vec K ℝ)))
    (hW : ∀ r, (toM (W r) * toM (p.Sigma r) * (toM (W r))ᵀ).PosDef) (r : Fin R) :
    ∫ y : Fin K → ℝ, Real.exp ((p.linearSum be W b).evalLn r (ofV y)) = 1 := by
  cases b <;> exact C02.C02_density_integrates_to_one hbe _ _ _ _ _ (linearSum_argsOK p W hW) r

omit hbe in
/-- stored mean and covariance of the linear image (no hypothesis) -/
theorem C05_linear_sum_params (p : PdfV R D ℝ) (W : Arr R (Mat K D ℝ)) (b : Option (Arr R (Vec K ℝ))) :
    ∃ j : PdfV R K ℝ, (p.linearSum be W b).asPdf = some j ∧ j.diag = false ∧
      (∀ r, toV (j.mu r) = toM (W r) *ᵥ toV (p.mu r) + offset b r) ∧
      (∀ r, toM (j.Sigma r) = toM (W r) * toM (p.Sigma r) * (toM (W r))ᵀ) := by
  cases b with
  | none =>
    simp only [PdfV.linearSum, offset, add_zero]
    obtain ⟨j, hj, hS, hmu, -, -, -, -, hdg⟩ := mkPdf_asPdf (be := be) false
      (tab fun r => mmul (mmul (W r) (p.Sigma r)) (transpose (W r)))
      (tab fun r => mulVec (W r) (p.mu r)) none none
    refine ⟨j, hj, by rw [hdg, mkPdf_cls], fun r => ?_, fun r => ?_⟩
    · rw [hmu]; simp only [tab_apply, toV_mulVec]
    · rw [hS]; simp only [tab_apply, toM_mmul, toM_transpose]
  | some b =>
    simp only [PdfV.linearSum, offset]
    obtain ⟨j, hj, hS, hmu, -, -, -, -, hdg⟩ := mkPdf_asPdf (be := be) false
      (tab fun r => mmul (mmul (W r) (p.Sigma r)) (transpose (W r)))
      (tab fun r => vadd (mulVec (W r) (p.mu r)) (b r)) none none
    refine ⟨j, hj, by rw [hdg, mkPdf_cls], fun r => ?_, fun r => ?_⟩
    · rw [hmu]; simp only [tab_apply, toV_mulVec, toV_vadd]
    · rw [hS]; simp only [tab_apply, toM_mmul, toM_transpose]

omit hbe in
/-- full row rank of `W` (injectivity of `v ↦ v W`) makes `W Σ Wᵀ` positive definite -/
theorem linearSum_posDef_of_injective (p : PdfV R D ℝ) (hp : PdfOK p) (W : Arr R (Mat K D ℝ))
    (hW : ∀ r, Function.Injective (toM (W r)).vecMul) (r : Fin R) :
    (toM (W r) * toM (p.Sigma r) * (toM (W r))ᵀ).PosDef := by
  have := (hp.posDef r).mul_mul_conjTranspose_same (hW r)
  rwa [Matrix.conjTranspose_eq_transpose_of_trivial] at this

omit hbe in
/-- the same with linearly independent rows -/
theorem linearSum_posDef_of_linearIndependent_rows (p : PdfV R D ℝ) (hp : PdfOK p)
    (W : Arr R (Mat K D ℝ)) (hW : ∀ r, LinearIndependent ℝ (toM (W r)).row) (r : Fin R) :
    (toM (W r) * toM (p.Sigma r) * (toM (W r))ᵀ).PosDef :=
  linearSum_posDef_of_injective p hp W (fun r => Matrix.vecMul_injective_iff.2 (hW r)) r

/-- **C05** for `W` of full row rank: `get_density_of_linear_sum(W, b)` is `N(Wμ + b, WΣWᵀ)`. -/
theorem C05_linear_sum_evalLn_of_fullRank (p : PdfV R D ℝ) (hp : PdfOK p) (W : Arr R (Mat K D ℝ))
    (b : Option (Arr R (Vec K ℝ))) (hW : ∀ r, LinearIndependent ℝ (toM (W r)).row) (r : Fin R)
    (y : Fin K → ℝ) :
    (p.linearSum be W b).evalLn r (ofV y) =
      normalLn (toM (W r) *ᵥ toV (p.mu r) + offset b r)
        (toM (W r) * toM (p.Sigma r) * (toM (W r))ᵀ)⁻¹
        (Real.log (toM (W r) * toM (p.Sigma r) * (toM (W r))ᵀ).det) y :=
  C05_linear_sum_evalLn hbe p W b (linearSum_posDef_of_linearIndependent_rows p hp W hW) r y

/-! ## the marginal density is the integral of the joint density over the dropped coordinates -/

omit hbe in
theorem normalLn_eq_nLn (μ : Fin D → ℝ) (Λ : Matrix (Fin D) (Fin D) ℝ) (ℓ : ℝ) (y : Fin D → ℝ) :
    normalLn μ Λ ℓ y = Math.nLn μ Λ ℓ y := by
  simp [normalLn, Math.nLn]

/-- **C05** (`dims` = the first `K` of `K + L` coordinates): the density returned by
`get_marginal` is the integral of the joint normal density over the last `L` coordinates. -/
theorem C05_marginal_density_integral {L : Nat} (p : PdfV R (K + L) ℝ) (hp : PdfOK p)
    (hd : PdfDiagOK p) (r : Fin R) (y : Fin K → ℝ) :
    Real.exp ((p.getMarginal be (Fin.castAdd L)).evalLn r (ofV y)) =
      ∫ z : Fin L → ℝ, Real.exp (normalLn (toV (p.mu r)) (toM (p.Sigma r))⁻¹
        (Real.log (toM (p.Sigma r)).det) (Fin.append y z)) := by
  rw [C05_marginal_evalLn hbe p hp hd _ (Fin.castAdd_injective K L) r y]
  have hS := hp.posDef r
  have h1 : ∀ z : Fin L → ℝ,
      normalLn (toV (p.mu r)) (toM (p.Sigma r))⁻¹ (Real.log (toM (p.Sigma r)).det) (Fin.append y z) =
        Math.nLn (toV (p.mu r) ∘ finSumFinEquiv)
          ((toM (p.Sigma r)).submatrix finSumFinEquiv finSumFinEquiv)⁻¹
          (Real.log ((toM (p.Sigma r)).submatrix finSumFinEquiv finSumFinEquiv).det) (Sum.elim y z) := by
    intro z
    rw [normalLn_eq_nLn, Math.nLn_equiv finSumFinEquiv]
    congr 1
    ext (i | j) <;> simp
  simp_rw [h1]
  rw [Math.gaussian_marginal_integral _ (hS.submatrix finSumFinEquiv.injective)]
  have h2 : ((toM (p.Sigma r)).submatrix finSumFinEquiv finSumFinEquiv).toBlocks₁₁ =
      (toM (p.Sigma r)).submatrix (Fin.castAdd L) (Fin.castAdd L) := by
    ext i j; simp [Matrix.toBlocks₁₁]
  have h3 : (toV (p.mu r) ∘ finSumFinEquiv) ∘ Sum.inl = toV (p.mu r) ∘ Fin.castAdd L := by
    ext i; simp
  rw [h2, h3, normalLn_eq_nLn]

/-- the same, with the joint given as an object built by the density constructor: the right-hand
side is the integral of *its* evaluated density -/
theorem C05_marginal_density_integral_mkPdf {L : Nat} (diag : Bool) (Sigma : Arr R (Mat (K + L) (K + L) ℝ))
    (mu : Arr R (Vec (K + L) ℝ)) (Lambda : Option (Arr R (Mat (K + L) (K + L) ℝ)))
    (lnDetSigma : Option (Arr R ℝ)) (h : C02.PdfArgsOK diag Sigma Lambda lnDetSigma)
    (j : PdfV R (K + L) ℝ) (hj : (mkPdf be diag Sigma mu Lambda lnDetSigma).asPdf = some j)
    (r : Fin R) (y : Fin K → ℝ) :
    Real.exp ((j.getMarginal be (Fin.castAdd L)).evalLn r (ofV y)) =
      ∫ z : Fin L → ℝ,
        Real.exp ((mkPdf be diag Sigma mu Lambda lnDetSigma).evalLn r (ofV (Fin.append y z))) := by
  obtain ⟨j', hj', hS, hmu, -, hok, hdok⟩ := mkPdf_asPdf_ok hbe diag Sigma mu Lambda lnDetSigma h
  rw [hj] at hj'
  cases hj'
  rw [C05_marginal_density_integral hbe j hok hdok]
  simp_rw [mkPdf_evalLn hbe diag Sigma mu Lambda lnDetSigma h, hS, hmu]

/-! ## non-vacuity -/

omit hbe in
/-- the hypotheses are satisfiable: `N(μ, I₃)`, the coordinates `(2, 0)` (out of order), and the
full-row-rank map `W = (1 1 0)`. -/
example : ∃ (be : Backend ℝ) (p : PdfV 1 3 ℝ) (dims : Fin 2 → Fin 3) (W : Arr 1 (Mat 1 3 ℝ)),
    be.Spec ∧ PdfOK p ∧ PdfDiagOK p ∧ Function.Injective dims ∧
      (∀ r, Function.Injective (toM (W r)).vecMul) ∧
      (∀ y, (p.getMarginal be dims).evalLn 0 (ofV y) =
        normalLn ![3, 1] 1 0 y) := by
  let p : PdfV 1 3 ℝ := ⟨false, tab fun _ => eye, tab fun _ => ofV ![1, 2, 3], tab fun _ => 0,
    tab fun _ => eye, tab fun _ => 0, tab fun _ => ofV ![1, 2, 3], tab fun _ => 0⟩
  have hp : PdfOK p :=
    ⟨fun r => by simpa [p] using Matrix.PosDef.one, fun r => by simp [p], fun r => by simp [p]⟩
  have hd : PdfDiagOK p := by intro h; simp [p] at h
  have hinj : Function.Injective (![2, 0] : Fin 2 → Fin 3) := by decide
  refine ⟨Backend.sat, p, ![2, 0], tab fun _ => ofM !![1, 1, 0], Backend.sat_spec, hp, hd, hinj, ?_, ?_⟩
  · intro r v w hvw
    have h0 := congrFun hvw 0
    simp [Matrix.vecMul, dotProduct, ofM] at h0
    ext i
    rw [Fin.fin_one_eq_zero i]
    exact h0
  · intro y
    rw [C05_marginal_evalLn Backend.sat_spec p hp hd _ hinj]
    have hS : (toM (p.Sigma 0)).submatrix ![2, 0] ![2, 0] = 1 := by
      simp only [p, tab_apply, toM_eye]
      exact Matrix.submatrix_one _ hinj
    have hm : toV (p.mu 0) ∘ ![2, 0] = ![3, 1] := by
      ext i; fin_cases i <;> simp [p, ofV]
    rw [hS, hm]
    simp

end GT.Props.C05

#print axioms GT.Props.C05.C05_marginal_evalLn
#print axioms GT.Props.C05.C05_marginal_inv
#print axioms GT.Props.C05.C05_marginal_integral_one
#print axioms GT.Props.C05.C05_marginal_params
#print axioms GT.Props.C05.C05_marginal_ok
#print axioms GT.Props.C05.C05_marginal_perm
#print axioms GT.Props.C05.C05_linear_sum_evalLn
#print axioms GT.Props.C05.C05_linear_sum_params
#print axioms GT.Props.C05.C05_linear_sum_evalLn_of_fullRank
#print axioms GT.Props.C05.C05_marginal_density_integral
#print axioms GT.Props.C05.C05_marginal_density_integral_mkPdf
