import GT.Props.C07
/-!
# C08 — `affine_marginal_transformation` is the `y`-marginal of the joint

For `y | x ~ N(M x + b, Σy)` and `x ~ N(μ, Σx)`: component `k` of `c.affineMarginal be p` is
`N(M μ + b, Σy + M Σx Mᵀ)` (`C08_marginal_evalLn`, natural parameters `C08_marginal_params`, invariant
`C08_marginal_inv`), and it is *the same object* as `get_marginal` of the last `Dy` coordinates of
`affine_joint_transformation` (`C08_is_marginal_of_joint`: the covariance and mean arrays handed to
the density constructor coincide, so the two constructor calls are literally equal).  The same for
the identity-mean class.
-/
namespace GT.Props.C08
open GT Matrix
open GT.Props.C07 (PdfOK CondIdOK JS)

variable {R Rc Rx D Dx Dy : Nat}

/-! ## pure matrix facts -/

/-- `Σy + M Σx Mᵀ` is positive definite -/
theorem margSigma_posDef {Sx : Matrix (Fin Dx) (Fin Dx) ℝ} {Sy : Matrix (Fin Dy) (Fin Dy) ℝ}
    (hSx : Sx.PosDef) (hSy : Sy.PosDef) (M : Matrix (Fin Dy) (Fin Dx) ℝ) :
    (Sy + M * Sx * Mᵀ).PosDef := by
  have h := hSx.posSemidef.mul_mul_conjTranspose_same M
  rw [Matrix.conjTranspose_eq_transpose_of_trivial] at h
  exact hSy.add_posSemidef h

/-- the `y`-block of the joint covariance is the marginal covariance -/
theorem JS_yblock (Sx : Matrix (Fin Dx) (Fin Dx) ℝ) (Sy : Matrix (Fin Dy) (Fin Dy) ℝ)
    (M : Matrix (Fin Dy) (Fin Dx) ℝ) :
    (JS Sx Sy M).submatrix (Fin.natAdd Dx) (Fin.natAdd Dx) = Sy + M * Sx * Mᵀ := by
  ext i j
  simp [JS]

/-! ## the fields of a constructed density -/

/-- the density view of a constructed density carries the covariance and mean it was built from -/
theorem mkPdf_asPdf (be : Backend ℝ) (diag : Bool) (Sigma : Arr R (Mat D D ℝ)) (mu : Arr R (Vec D ℝ))
    (Lambda : Option (Arr R (Mat D D ℝ))) (lnDetSigma : Option (Arr R ℝ)) :
    ∃ j : PdfV R D ℝ, (mkPdf be diag Sigma mu Lambda lnDetSigma).asPdf = some j ∧
      j.Sigma = Sigma ∧ j.mu = mu ∧ j.diag = diag ∧
      j.Lambda = (mkPdf be diag Sigma mu Lambda lnDetSigma).Lambda ∧
      j.nu = (mkPdf be diag Sigma mu Lambda lnDetSigma).nu ∧
      j.lnBeta = (mkPdf be diag Sigma mu Lambda lnDetSigma).lnBeta := by
  refine ⟨_, rfl, rfl, rfl, ?_, rfl, rfl, rfl⟩
  cases diag <;> rfl

/-! ## `CondB.affineMarginal` -/

section marginal
variable {be : Backend ℝ} (hbe : be.Spec)

/-- the constructor arguments of `affine_marginal_transformation` are legal -/
theorem affineMarginal_args (c : CondB Rc Dy Dx ℝ) (hc : C10.CondOK c) (p : PdfV Rx Dx ℝ) (hp : PdfOK p) :
    Props.C02.PdfArgsOK false
      (tab fun k : Fin (Rc * Rx) => madd (c.Sigma (unflatL k))
        (mmul (mmul (c.M (unflatL k)) (p.Sigma (unflatR k))) (transpose (c.M (unflatL k)))))
      none none := by
  refine ⟨fun k => ?_, by simp, by simp, by simp⟩
  simp only [tab_apply, toM_madd, toM_mmul, toM_transpose]
  exact margSigma_posDef (hp.posDef _) (hc.posDef _) _

include hbe

/-- **C08**: `affine_marginal_transformation` is `N(M μ + b, Σy + M Σx Mᵀ)`, for every component
`k` (conditional `k / Rx`, prior component `k % Rx`) and every point. -/
theorem C08_marginal_evalLn (c : CondB Rc Dy Dx ℝ) (hc : C10.CondOK c) (p : PdfV Rx Dx ℝ) (hp : PdfOK p)
    (k : Fin (Rc * Rx)) (y : Fin Dy → ℝ) :
    (c.affineMarginal be p).evalLn k (ofV y) =
      normalLn (toM (c.M (unflatL k)) *ᵥ toV (p.mu (unflatR k)) + toV (c.b (unflatL k)))
        (toM (c.Sigma (unflatL k))
          + toM (c.M (unflatL k)) * toM (p.Sigma (unflatR k)) * (toM (c.M (unflatL k)))ᵀ)⁻¹
        (Real.log (toM (c.Sigma (unflatL k))
          + toM (c.M (unflatL k)) * toM (p.Sigma (unflatR k)) * (toM (c.M (unflatL k)))ᵀ).det) y := by
  unfold CondB.affineMarginal
  rw [mkPdf_evalLn hbe _ _ _ _ _ (affineMarginal_args c hc p hp)]
  simp only [tab_apply, CondB.condMu, toV_vadd, toV_mulVec, toM_madd, toM_mmul, toM_transpose]

/-- **C08, invariant**: the marginal satisfies the consistency invariant -/
theorem C08_marginal_inv (c : CondB Rc Dy Dx ℝ) (hc : C10.CondOK c) (p : PdfV Rx Dx ℝ) (hp : PdfOK p) :
    (c.affineMarginal be p).Inv :=
  Props.C02.mkPdf_inv hbe _ _ _ _ _ (affineMarginal_args c hc p hp)

/-- **C08, parameters**: covariance `Σy + M Σx Mᵀ` (positive definite), mean `M μ + b` as stored in
the returned density, and its natural parameters `Λ = Σ⁻¹`, `ν = Σ⁻¹ μ`, `ln β = −lnZ`. -/
theorem C08_marginal_params (c : CondB Rc Dy Dx ℝ) (hc : C10.CondOK c) (p : PdfV Rx Dx ℝ) (hp : PdfOK p)
    (k : Fin (Rc * Rx)) :
    let S := toM (c.Sigma (unflatL k))
          + toM (c.M (unflatL k)) * toM (p.Sigma (unflatR k)) * (toM (c.M (unflatL k)))ᵀ
    let m := toM (c.M (unflatL k)) *ᵥ toV (p.mu (unflatR k)) + toV (c.b (unflatL k))
    S.PosDef ∧
    (∃ j : PdfV (Rc * Rx) Dy ℝ, (c.affineMarginal be p).asPdf = some j ∧
      toM (j.Sigma k) = S ∧ toV (j.mu k) = m ∧ j.diag = false) ∧
    toM ((c.affineMarginal be p).Lambda k) = S⁻¹ ∧
    toV ((c.affineMarginal be p).nu k) = S⁻¹ *ᵥ m ∧
    (c.affineMarginal be p).lnBeta k = -lnZRef S⁻¹ (S⁻¹ *ᵥ m) := by
  intro S m
  refine ⟨margSigma_posDef (hp.posDef _) (hc.posDef _) _, ?_, ?_⟩
  · obtain ⟨j, hj, hS, hm, hd, -⟩ := mkPdf_asPdf be false
      (tab fun k : Fin (Rc * Rx) => madd (c.Sigma (unflatL k))
        (mmul (mmul (c.M (unflatL k)) (p.Sigma (unflatR k))) (transpose (c.M (unflatL k)))))
      (tab fun k => c.condMu (unflatL k) (p.mu (unflatR k))) none none
    refine ⟨j, hj, ?_, ?_, hd⟩
    · rw [hS]; simp only [tab_apply, toM_madd, toM_mmul, toM_transpose, S]
    · rw [hm]; simp only [tab_apply, CondB.condMu, toV_vadd, toV_mulVec, m]
  · have h := mkPdf_params hbe false _ (tab fun k : Fin (Rc * Rx) => c.condMu (unflatL k) (p.mu (unflatR k)))
      none none (affineMarginal_args c hc p hp) k
    simp only [tab_apply, CondB.condMu, toV_vadd, toV_mulVec, toM_madd, toM_mmul, toM_transpose] at h
    exact h

omit hbe in
/-- **C08, the marginal is the marginal of the joint (objects)**: `get_marginal` of the last `Dy`
coordinates of `affine_joint_transformation` *is* `affine_marginal_transformation` — the density
view of the joint exists, and the covariance/mean arrays cut out of it are exactly the arrays
`affine_marginal_transformation` hands to the constructor.  Structural: holds for all parameter
values. -/
theorem C08_is_marginal_of_joint (c : CondB Rc Dy Dx ℝ) (p : PdfV Rx Dx ℝ) :
    ∃ j : PdfV (Rc * Rx) (Dx + Dy) ℝ, (c.affineJoint be p).asPdf = some j ∧
      (tab3 fun k a b => j.Sigma k (Fin.natAdd Dx a) (Fin.natAdd Dx b)) =
        (tab fun k : Fin (Rc * Rx) => madd (c.Sigma (unflatL k))
          (mmul (mmul (c.M (unflatL k)) (p.Sigma (unflatR k))) (transpose (c.M (unflatL k))))) ∧
      (tab2 fun k a => j.mu k (Fin.natAdd Dx a)) =
        (tab fun k : Fin (Rc * Rx) => c.condMu (unflatL k) (p.mu (unflatR k))) ∧
      j.getMarginal be (fun a : Fin Dy => Fin.natAdd Dx a) = c.affineMarginal be p := by
  rw [C07.affineJoint_eq]
  obtain ⟨j, hj, hS, hm, hd, -⟩ := mkPdf_asPdf be false
    (tab fun k : Fin (Rc * Rx) => jointSigma (p.Sigma (unflatR k)) (c.Sigma (unflatL k)) (c.M (unflatL k)))
    (tab fun k => vappend (p.mu (unflatR k)) (c.condMu (unflatL k) (p.mu (unflatR k))))
    (some (tab fun k => jointLambda (p.Lambda (unflatR k)) (c.Lambda (unflatL k)) (c.M (unflatL k))))
    (some (tab fun k => C07.jointLnDet be (p.Sigma (unflatR k)) (p.Lambda (unflatR k))
          (p.lnDetSigma (unflatR k)) (c.Sigma (unflatL k)) (c.Lambda (unflatL k))
          (c.lnDetSigma (unflatL k)) (c.M (unflatL k))))
  have h1 : (tab3 fun k a b => j.Sigma k (Fin.natAdd Dx a) (Fin.natAdd Dx b)) =
      (tab fun k : Fin (Rc * Rx) => madd (c.Sigma (unflatL k))
        (mmul (mmul (c.M (unflatL k)) (p.Sigma (unflatR k))) (transpose (c.M (unflatL k))))) := by
    rw [hS]
    ext k a b
    simp only [tab_apply, jointSigma, block, splitIdx_natAdd]
  have h2 : (tab2 fun k a => j.mu k (Fin.natAdd Dx a)) =
      (tab fun k : Fin (Rc * Rx) => c.condMu (unflatL k) (p.mu (unflatR k))) := by
    rw [hm]
    ext k a
    simp only [tab_apply, vappend_natAdd]
  refine ⟨j, hj, h1, h2, ?_⟩
  simp only [PdfV.getMarginal, CondB.affineMarginal, h1, h2, hd]

/-- **C08, the marginal is the marginal of the joint (parameters)**: in Mathlib vocabulary, the
marginal's covariance and mean are the `y`-block of the joint covariance and the `y`-part of the
joint mean, and the marginal's natural parameters are those of that block. -/
theorem C08_is_marginal_of_joint_params (c : CondB Rc Dy Dx ℝ) (hc : C10.CondOK c) (p : PdfV Rx Dx ℝ)
    (hp : PdfOK p) (k : Fin (Rc * Rx)) :
    let SJ := JS (toM (p.Sigma (unflatR k))) (toM (c.Sigma (unflatL k))) (toM (c.M (unflatL k)))
    let S := SJ.submatrix (Fin.natAdd Dx) (Fin.natAdd Dx)
    let mJ := Sum.elim (toV (p.mu (unflatR k)))
      (toM (c.M (unflatL k)) *ᵥ toV (p.mu (unflatR k)) + toV (c.b (unflatL k))) ∘ finSumFinEquiv.symm
    let m := mJ ∘ Fin.natAdd Dx
    toM ((c.affineMarginal be p).Lambda k) = S⁻¹ ∧
    toV ((c.affineMarginal be p).nu k) = S⁻¹ *ᵥ m ∧
    (c.affineMarginal be p).lnBeta k = -lnZRef S⁻¹ (S⁻¹ *ᵥ m) ∧
    ∀ y, (c.affineMarginal be p).evalLn k (ofV y) = normalLn m S⁻¹ (Real.log S.det) y := by
  intro SJ S mJ m
  have hS : S = toM (c.Sigma (unflatL k))
      + toM (c.M (unflatL k)) * toM (p.Sigma (unflatR k)) * (toM (c.M (unflatL k)))ᵀ := JS_yblock _ _ _
  have hm : m = toM (c.M (unflatL k)) *ᵥ toV (p.mu (unflatR k)) + toV (c.b (unflatL k)) := by
    ext a; simp [m, mJ]
  obtain ⟨-, -, h1, h2, h3⟩ := C08_marginal_params hbe c hc p hp k
  rw [hS, hm]
  exact ⟨h1, h2, h3, fun y => C08_marginal_evalLn hbe c hc p hp k y⟩

end marginal

/-! ## `CondIdB.affineMarginal` (identity mean) -/

section marginalId
variable {be : Backend ℝ} (hbe : be.Spec)

theorem affineMarginalId_args (c : CondIdB Rc D ℝ) (hc : CondIdOK c) (p : PdfV Rx D ℝ) (hp : PdfOK p) :
    Props.C02.PdfArgsOK false
      (tab fun k : Fin (Rc * Rx) => madd (c.Sigma (unflatL k)) (p.Sigma (unflatR k))) none none := by
  refine ⟨fun k => ?_, by simp, by simp, by simp⟩
  simp only [tab_apply, toM_madd]
  have hSy : (toM (c.Sigma (unflatL k))).PosDef := hc.posDef _
  exact hSy.add (hp.posDef _)

include hbe

/-- **C08, identity class**: the marginal is `N(μ, Σy + Σx)` -/
theorem C08_marginalId_evalLn (c : CondIdB Rc D ℝ) (hc : CondIdOK c) (p : PdfV Rx D ℝ) (hp : PdfOK p)
    (k : Fin (Rc * Rx)) (y : Fin D → ℝ) :
    (c.affineMarginal be p).evalLn k (ofV y) =
      normalLn (toV (p.mu (unflatR k))) (toM (c.Sigma (unflatL k)) + toM (p.Sigma (unflatR k)))⁻¹
        (Real.log (toM (c.Sigma (unflatL k)) + toM (p.Sigma (unflatR k))).det) y := by
  unfold CondIdB.affineMarginal
  rw [mkPdf_evalLn hbe _ _ _ _ _ (affineMarginalId_args c hc p hp)]
  simp only [tab_apply, toM_madd]

/-- **C08, identity class, invariant** -/
theorem C08_marginalId_inv (c : CondIdB Rc D ℝ) (hc : CondIdOK c) (p : PdfV Rx D ℝ) (hp : PdfOK p) :
    (c.affineMarginal be p).Inv :=
  Props.C02.mkPdf_inv hbe _ _ _ _ _ (affineMarginalId_args c hc p hp)

/-- **C08, identity class, parameters** -/
theorem C08_marginalId_params (c : CondIdB Rc D ℝ) (hc : CondIdOK c) (p : PdfV Rx D ℝ) (hp : PdfOK p)
    (k : Fin (Rc * Rx)) :
    let S := toM (c.Sigma (unflatL k)) + toM (p.Sigma (unflatR k))
    let m := toV (p.mu (unflatR k))
    S.PosDef ∧
    toM ((c.affineMarginal be p).Lambda k) = S⁻¹ ∧
    toV ((c.affineMarginal be p).nu k) = S⁻¹ *ᵥ m ∧
    (c.affineMarginal be p).lnBeta k = -lnZRef S⁻¹ (S⁻¹ *ᵥ m) := by
  intro S m
  have hSy : (toM (c.Sigma (unflatL k))).PosDef := hc.posDef _
  refine ⟨hSy.add (hp.posDef _), ?_⟩
  have h := mkPdf_params hbe false _ (tab fun k : Fin (Rc * Rx) => p.mu (unflatR k))
    none none (affineMarginalId_args c hc p hp) k
  simp only [tab_apply, toM_madd] at h
  exact h

/-- the identity class agrees with the general class with `M = I`, `b = 0` at every point -/
theorem C08_marginalId_eq_toCond (c : CondIdB Rc D ℝ) (hc : CondIdOK c) (p : PdfV Rx D ℝ) (hp : PdfOK p)
    (k : Fin (Rc * Rx)) (y : Fin D → ℝ) :
    (c.affineMarginal be p).evalLn k (ofV y) = (c.toCond.affineMarginal be p).evalLn k (ofV y) := by
  rw [C08_marginalId_evalLn hbe c hc p hp, C08_marginal_evalLn hbe c.toCond hc p hp]
  simp [CondIdB.toCond]

omit hbe in
/-- **C08, identity class, the marginal is the marginal of the joint (objects)** -/
theorem C08_is_marginal_of_joint_id (c : CondIdB Rc D ℝ) (p : PdfV Rx D ℝ) :
    ∃ j : PdfV (Rc * Rx) (D + D) ℝ, (c.affineJoint be p).asPdf = some j ∧
      (tab3 fun k a b => j.Sigma k (Fin.natAdd D a) (Fin.natAdd D b)) =
        (tab fun k : Fin (Rc * Rx) => madd (c.Sigma (unflatL k)) (p.Sigma (unflatR k))) ∧
      (tab2 fun k a => j.mu k (Fin.natAdd D a)) = (tab fun k : Fin (Rc * Rx) => p.mu (unflatR k)) ∧
      j.getMarginal be (fun a : Fin D => Fin.natAdd D a) = c.affineMarginal be p := by
  rw [C07.affineJointId_eq]
  obtain ⟨j, hj, hS, hm, hd, -⟩ := mkPdf_asPdf be false
    (tab fun k : Fin (Rc * Rx) => block (p.Sigma (unflatR k)) (transpose (p.Sigma (unflatR k)))
      (p.Sigma (unflatR k)) (madd (c.Sigma (unflatL k)) (p.Sigma (unflatR k))))
    (tab fun k => vappend (p.mu (unflatR k)) (p.mu (unflatR k)))
    (some (tab fun k => block (madd (p.Lambda (unflatR k)) (c.Lambda (unflatL k)))
      (transpose (mneg (c.Lambda (unflatL k)))) (mneg (c.Lambda (unflatL k))) (c.Lambda (unflatL k))))
    (some (tab fun k => -(-(c.lnDetSigma (unflatL k)) +
      be.slogdet (msub (madd (p.Lambda (unflatR k)) (c.Lambda (unflatL k))) (c.Lambda (unflatL k))))))
  have h1 : (tab3 fun k a b => j.Sigma k (Fin.natAdd D a) (Fin.natAdd D b)) =
      (tab fun k : Fin (Rc * Rx) => madd (c.Sigma (unflatL k)) (p.Sigma (unflatR k))) := by
    rw [hS]
    ext k a b
    simp only [tab_apply, block, splitIdx_natAdd]
  have h2 : (tab2 fun k a => j.mu k (Fin.natAdd D a)) =
      (tab fun k : Fin (Rc * Rx) => p.mu (unflatR k)) := by
    rw [hm]
    ext k a
    simp only [tab_apply, vappend_natAdd]
  refine ⟨j, hj, h1, h2, ?_⟩
  simp only [PdfV.getMarginal, CondIdB.affineMarginal, h1, h2, hd]

end marginalId

/-! ## non-vacuity -/

/-- the hypotheses hold for concrete objects (`Dy < Dx`, `Dy > Dx`, identity class), and there the
marginal covariance `Σy + M Σx Mᵀ = 1 + 3² + 5² = 35` is not a trivial one -/
example :
    (∃ (c : CondB 2 1 2 ℝ) (p : PdfV 3 2 ℝ), C10.CondOK c ∧ PdfOK p ∧
      (toM (c.Sigma 0) + toM (c.M 0) * toM (p.Sigma 0) * (toM (c.M 0))ᵀ) 0 0 = 35) ∧
    (∃ (c : CondB 2 2 1 ℝ) (p : PdfV 3 1 ℝ), C10.CondOK c ∧ PdfOK p) ∧
    (∃ (c : CondIdB 2 2 ℝ) (p : PdfV 3 2 ℝ), CondIdOK c ∧ PdfOK p) :=
  ⟨⟨C07.stdCond 2 (ofM !![3, 5]) (ofV ![1]), C07.stdPdf 3 2 (ofV ![1, 2]), C07.stdCond_ok _ _ _,
      C07.stdPdf_ok _ _ _, by
        simp [C07.stdCond, C07.stdPdf, Matrix.vecMul, dotProduct, Fin.sum_univ_two]; norm_num⟩,
   ⟨C07.stdCond 2 (ofM !![3; 7]) (ofV ![1, 4]), C07.stdPdf 3 1 (ofV ![2]), C07.stdCond_ok _ _ _,
      C07.stdPdf_ok _ _ _⟩,
   ⟨C07.stdCondId 2 2, C07.stdPdf 3 2 (ofV ![1, 2]), C07.stdCondId_ok _ _, C07.stdPdf_ok _ _ _⟩⟩

end GT.Props.C08

section axioms
#print axioms GT.Props.C08.C08_marginal_evalLn
#print axioms GT.Props.C08.C08_marginal_inv
#print axioms GT.Props.C08.C08_marginal_params
#print axioms GT.Props.C08.C08_is_marginal_of_joint
#print axioms GT.Props.C08.C08_is_marginal_of_joint_params
#print axioms GT.Props.C08.C08_marginalId_evalLn
#print axioms GT.Props.C08.C08_marginalId_inv
#print axioms GT.Props.C08.C08_marginalId_params
#print axioms GT.Props.C08.C08_marginalId_eq_toCond
#print axioms GT.Props.C08.C08_is_marginal_of_joint_id
end axioms
