import GT.Props.C12
import GT.Model.Integrals
import GT.Model.LogCond
import GT.Model.ApproxFeature
import GT.Model.Hetero
/-!
# C12 (extension) — naturality in the batch index for the remaining operations

`C12.lean` shows "slicing commutes with the operation" for products, the density constructor,
conditioning on `x`, the affine transformations of the linear conditionals, `set_y`, `log_integral`,
`get_density`, `get_marginal`, `entropy`, `kl`, `linear_sum`.  This file adds, in the same style
(`reindexM g m` etc. takes components `g 0, g 1, …`; `C12_measure_slice`/`C12_pdf_slice` connect it
to `slice` with in-range integer indices):

* (a) the 12 polynomial integrals (`intView` + `IntV.integrate*`): integrating the sliced measure
  with sliced per-component coefficients (shared coefficients stay shared) = slice of the integral;
* (b) `integrateLogFactor`, `CondB.integrateLogConditional`, `CondB.integrateLogConditionalY` in the
  batch of the density argument (and of the factor / conditional argument);
* (c) `PdfV.update` (untouched / replaced components), `conditionOnExplicit`, `conditionOn`;
* (d) `conditionalEntropy`, `mutualInformation` of both linear families with a batch on either side;
* (e) the approximate conditionals in the batch of `p(x)`: `FeatCondB.expectedMoments`,
  `expectedCrossTerms`, `affineMarginal`, `affineJoint`, `affineConditional`; `HeteroB.…` for every
  method table whose `integrateNoiseDiagonal` is natural (`NoiseDiagNatural`; proved for the exp and
  cosh−1 classes).

As in `C12.lean`, no statement has a hypothesis on the backend or on the parameters.
-/
namespace GT.Props.C12Ext
open GT GT.Props.C12

variable {R R1 R2 Ro N N1 N2 D Dx Dy K L M : Nat}

/-! ## slices of integration views and of coefficient arrays -/

section defs
variable {α : Type}

/-- components `g 0, g 1, …` of an integration view -/
def reindexIV (g : Fin N → Fin R) (v : IntV R D α) : IntV N D α :=
  ⟨tab fun n => v.mass (g n), tab fun n => v.mu (g n), tab fun n => v.Sigma (g n)⟩

/-- components `g 0, g 1, …` of an affine form (after `_get_default`) -/
def reindexAF (g : Fin N → Fin R) (f : AffForm R K D α) : AffForm N K D α :=
  ⟨tab fun n => f.A (g n), tab fun n => f.a (g n)⟩

/-- a matrix argument as passed by the caller: shared stays shared, per-component is sliced -/
def reindexMatArg (g : Fin N → Fin R) : MatArg R K D α → MatArg N K D α
  | .shared A => .shared A
  | .perComp A => .perComp (tab fun n => A (g n))

def reindexVecArg (g : Fin N → Fin R) : VecArg R K α → VecArg N K α
  | .shared a => .shared a
  | .perComp a => .perComp (tab fun n => a (g n))

def reindexFB (g : Fin N → Fin R) (f : FactorB R D α) : FactorB N D α :=
  ⟨tab fun n => f.Lambda (g n), tab fun n => f.nu (g n), tab fun n => f.lnBeta (g n)⟩

end defs

/-- `_get_default` commutes with slicing: shared / omitted coefficients are the same for every
component, per-component coefficients follow the batch index -/
theorem getDefault_reindex (g : Fin N → Fin R) (mat : Option (MatArg R K D ℝ))
    (vec : Option (VecArg R K ℝ)) :
    getDefault (mat.map (reindexMatArg g)) (vec.map (reindexVecArg g)) =
      reindexAF g (getDefault mat vec) := by
  rcases mat with _ | A | A <;> rcases vec with _ | a | a <;>
    simp only [getDefault, reindexAF, reindexMatArg, reindexVecArg, Option.map_some, Option.map_none,
      tab_apply]

/-- the view of a density-view slice is the slice of the measure -/
theorem toMeasure_reindex (g : Fin N → Fin R) (p : PdfV R D ℝ) :
    (reindexP g p).toMeasure = reindexM g p.toMeasure := by
  simp only [PdfV.toMeasure, reindexP, reindexM, reindexCov, Option.map_some, Option.map_none]
  rfl

/-- **`self.integral()` followed by reading `mu`, `Sigma`** is component-wise -/
theorem intView_reindex (be : Backend ℝ) (g : Fin N → Fin R) (m : MeasureB R D ℝ) :
    (reindexM g m).intView be = (reindexM g (m.intView be).1, reindexIV g (m.intView be).2) := by
  simp only [MeasureB.intView, C12_integral]
  generalize m.integral be = mi
  rcases mi with ⟨m', mass⟩
  cases hc : m'.cov <;> cases hm : m'.mu <;>
    simp only [reindexM, reindexIV, reindexCov, hc, hm, Option.map_some, Option.map_none, tab_apply]

theorem intView_reindex_fst (be : Backend ℝ) (g : Fin N → Fin R) (m : MeasureB R D ℝ) :
    ((reindexM g m).intView be).1 = reindexM g (m.intView be).1 := by rw [intView_reindex]

theorem intView_reindex_snd (be : Backend ℝ) (g : Fin N → Fin R) (m : MeasureB R D ℝ) :
    ((reindexM g m).intView be).2 = reindexIV g (m.intView be).2 := by rw [intView_reindex]

/-! ## (a) the polynomial integrals on a view: component `n` reads component `g n` only -/

section integrals
variable (g : Fin N → Fin R) (v : IntV R D ℝ)

theorem mass_reindex : (reindexIV g v).mass = tab fun n => v.mass (g n) := rfl

theorem integrateX_reindex : (reindexIV g v).integrateX = tab fun n => v.integrateX (g n) := by
  ext n i; simp only [IntV.integrateX, reindexIV, tab_apply]

theorem integrateLinear_reindex (f : AffForm R K D ℝ) :
    (reindexIV g v).integrateLinear (reindexAF g f) = tab fun n => v.integrateLinear f (g n) := by
  ext n; simp only [IntV.integrateLinear, IntV.aff, reindexIV, reindexAF, tab_apply]

theorem integrateXXT_reindex : (reindexIV g v).integrateXXT = tab fun n => v.integrateXXT (g n) := by
  ext n; simp only [IntV.integrateXXT, IntV.Exx, reindexIV, tab_apply]

theorem integrateQuadInner_reindex (f h : AffForm R K D ℝ) :
    (reindexIV g v).integrateQuadInner (reindexAF g f) (reindexAF g h) =
      tab fun n => v.integrateQuadInner f h (g n) := by
  ext n
  simp only [IntV.integrateQuadInner, IntV.expQuadInner, IntV.aff, reindexIV, reindexAF, tab_apply]

theorem integrateQuadOuter_reindex (f : AffForm R K D ℝ) (h : AffForm R L D ℝ) :
    (reindexIV g v).integrateQuadOuter (reindexAF g f) (reindexAF g h) =
      tab fun n => v.integrateQuadOuter f h (g n) := by
  ext n
  simp only [IntV.integrateQuadOuter, IntV.expQuadOuter, IntV.Exx, IntV.aff, reindexIV, reindexAF,
    tab_apply]

theorem integrateXbxx_reindex (b : Arr R (Vec D ℝ)) :
    (reindexIV g v).integrateXbxx (tab fun n => b (g n)) = tab fun n => v.integrateXbxx b (g n) := by
  ext n
  simp only [IntV.integrateXbxx, IntV.expXbxx, IntV.Exx, reindexIV, tab_apply]

theorem integrateCubicOuter_reindex (A : Arr R (Vec D ℝ)) (a : Arr R ℝ) :
    (reindexIV g v).integrateCubicOuter (tab fun n => A (g n)) (tab fun n => a (g n)) =
      tab fun n => v.integrateCubicOuter A a (g n) := by
  ext n
  simp only [IntV.integrateCubicOuter, IntV.expCubicOuter, IntV.expXbxx, IntV.Exx, reindexIV, tab_apply]

theorem integrateCubicInner_reindex (f : AffForm R K D ℝ) (h e : AffForm R L D ℝ) :
    (reindexIV g v).integrateCubicInner (reindexAF g f) (reindexAF g h) (reindexAF g e) =
      tab fun n => v.integrateCubicInner f h e (g n) := by
  ext n
  simp only [IntV.integrateCubicInner, IntV.expCubicInner, IntV.ASB, IntV.aff, reindexIV, reindexAF,
    tab_apply]

theorem integrateCubicOuterG_reindex (f h : AffForm R K D ℝ) (e : AffForm R L D ℝ) :
    (reindexIV g v).integrateCubicOuterG (reindexAF g f) (reindexAF g h) (reindexAF g e) =
      tab fun n => v.integrateCubicOuterG f h e (g n) := by
  ext n
  simp only [IntV.integrateCubicOuterG, IntV.expCubicOuterG, IntV.ASB, IntV.aff, reindexIV, reindexAF,
    tab_apply]

theorem integrateQuarticOuter_reindex (f : AffForm R K D ℝ) (h e : AffForm R L D ℝ)
    (d : AffForm R M D ℝ) :
    (reindexIV g v).integrateQuarticOuter (reindexAF g f) (reindexAF g h) (reindexAF g e) (reindexAF g d) =
      tab fun n => v.integrateQuarticOuter f h e d (g n) := by
  ext n
  simp only [IntV.integrateQuarticOuter, IntV.expQuarticOuter, IntV.ASB, IntV.aff, reindexIV, reindexAF,
    tab_apply]

theorem integrateQuarticInner_reindex (f h : AffForm R K D ℝ) (e d : AffForm R L D ℝ) :
    (reindexIV g v).integrateQuarticInner (reindexAF g f) (reindexAF g h) (reindexAF g e) (reindexAF g d) =
      tab fun n => v.integrateQuarticInner f h e d (g n) := by
  ext n
  simp only [IntV.integrateQuarticInner, IntV.expQuarticInner, IntV.ASB, IntV.aff, reindexIV, reindexAF,
    tab_apply]

/-- shared (2-D / 1-D) coefficients: the same form is used for every component -/
theorem integrateLinear_reindex_const (A : Mat K D ℝ) (a : Vec K ℝ) :
    (reindexIV g v).integrateLinear ⟨tab fun _ => A, tab fun _ => a⟩ =
      tab fun n => v.integrateLinear ⟨tab fun _ => A, tab fun _ => a⟩ (g n) := by
  ext n; simp only [IntV.integrateLinear, IntV.aff, reindexIV, tab_apply]

theorem integrateQuadInner_reindex_const (A B : Mat K D ℝ) (a b : Vec K ℝ) :
    (reindexIV g v).integrateQuadInner ⟨tab fun _ => A, tab fun _ => a⟩ ⟨tab fun _ => B, tab fun _ => b⟩ =
      tab fun n => v.integrateQuadInner ⟨tab fun _ => A, tab fun _ => a⟩
        ⟨tab fun _ => B, tab fun _ => b⟩ (g n) := by
  ext n
  simp only [IntV.integrateQuadInner, IntV.expQuadInner, IntV.aff, reindexIV, tab_apply]

end integrals

/-! ## (a) the 12 integrals of a measure: `integrate(…)` of the slice = slice of `integrate(…)` -/

section measure_integrals
variable (be : Backend ℝ) (g : Fin N → Fin R) (m : MeasureB R D ℝ)

/-- `integrate("1")` -/
theorem C12_integrate_mass :
    ((reindexM g m).intView be).2.mass = tab fun n => (m.intView be).2.mass (g n) := by
  rw [intView_reindex_snd, mass_reindex]

/-- `integrate("x")` -/
theorem C12_integrate_x :
    ((reindexM g m).intView be).2.integrateX = tab fun n => (m.intView be).2.integrateX (g n) := by
  rw [intView_reindex_snd, integrateX_reindex]

/-- `integrate("(Ax+a)")` -/
theorem C12_integrate_linear (f : AffForm R K D ℝ) :
    ((reindexM g m).intView be).2.integrateLinear (reindexAF g f) =
      tab fun n => (m.intView be).2.integrateLinear f (g n) := by
  rw [intView_reindex_snd, integrateLinear_reindex]

/-- `integrate("xx'")` -/
theorem C12_integrate_xxT :
    ((reindexM g m).intView be).2.integrateXXT = tab fun n => (m.intView be).2.integrateXXT (g n) := by
  rw [intView_reindex_snd, integrateXXT_reindex]

/-- `integrate("(Ax+a)'(Bx+b)")` -/
theorem C12_integrate_quad_inner (f h : AffForm R K D ℝ) :
    ((reindexM g m).intView be).2.integrateQuadInner (reindexAF g f) (reindexAF g h) =
      tab fun n => (m.intView be).2.integrateQuadInner f h (g n) := by
  rw [intView_reindex_snd, integrateQuadInner_reindex]

/-- `integrate("(Ax+a)(Bx+b)'")` -/
theorem C12_integrate_quad_outer (f : AffForm R K D ℝ) (h : AffForm R L D ℝ) :
    ((reindexM g m).intView be).2.integrateQuadOuter (reindexAF g f) (reindexAF g h) =
      tab fun n => (m.intView be).2.integrateQuadOuter f h (g n) := by
  rw [intView_reindex_snd, integrateQuadOuter_reindex]

/-- `integrate("xb'xx'")` -/
theorem C12_integrate_xbxx (b : Arr R (Vec D ℝ)) :
    ((reindexM g m).intView be).2.integrateXbxx (tab fun n => b (g n)) =
      tab fun n => (m.intView be).2.integrateXbxx b (g n) := by
  rw [intView_reindex_snd, integrateXbxx_reindex]

/-- `integrate("x(A'x+a)x'")` -/
theorem C12_integrate_cubic_outer_x (A : Arr R (Vec D ℝ)) (a : Arr R ℝ) :
    ((reindexM g m).intView be).2.integrateCubicOuter (tab fun n => A (g n)) (tab fun n => a (g n)) =
      tab fun n => (m.intView be).2.integrateCubicOuter A a (g n) := by
  rw [intView_reindex_snd, integrateCubicOuter_reindex]

/-- `integrate("(Ax+a)(Bx+b)'(Cx+c)")` -/
theorem C12_integrate_cubic_inner (f : AffForm R K D ℝ) (h e : AffForm R L D ℝ) :
    ((reindexM g m).intView be).2.integrateCubicInner (reindexAF g f) (reindexAF g h) (reindexAF g e) =
      tab fun n => (m.intView be).2.integrateCubicInner f h e (g n) := by
  rw [intView_reindex_snd, integrateCubicInner_reindex]

/-- `integrate("(Ax+a)'(Bx+b)(Cx+c)'")` -/
theorem C12_integrate_cubic_outer (f h : AffForm R K D ℝ) (e : AffForm R L D ℝ) :
    ((reindexM g m).intView be).2.integrateCubicOuterG (reindexAF g f) (reindexAF g h) (reindexAF g e) =
      tab fun n => (m.intView be).2.integrateCubicOuterG f h e (g n) := by
  rw [intView_reindex_snd, integrateCubicOuterG_reindex]

/-- `integrate("(Ax+a)(Bx+b)'(Cx+c)(Dx+d)'")` -/
theorem C12_integrate_quartic_outer (f : AffForm R K D ℝ) (h e : AffForm R L D ℝ)
    (d : AffForm R M D ℝ) :
    ((reindexM g m).intView be).2.integrateQuarticOuter (reindexAF g f) (reindexAF g h) (reindexAF g e)
        (reindexAF g d) =
      tab fun n => (m.intView be).2.integrateQuarticOuter f h e d (g n) := by
  rw [intView_reindex_snd, integrateQuarticOuter_reindex]

/-- `integrate("(Ax+a)'(Bx+b)(Cx+c)'(Dx+d)")` -/
theorem C12_integrate_quartic_inner (f h : AffForm R K D ℝ) (e d : AffForm R L D ℝ) :
    ((reindexM g m).intView be).2.integrateQuarticInner (reindexAF g f) (reindexAF g h) (reindexAF g e)
        (reindexAF g d) =
      tab fun n => (m.intView be).2.integrateQuarticInner f h e d (g n) := by
  rw [intView_reindex_snd, integrateQuarticInner_reindex]

/-- the same in terms of the arguments the caller passes (`A_mat`, `a_vec`, … each omitted, shared
2-D/1-D, or per-component 3-D/2-D): here for `"(Ax+a)'(Bx+b)"`; the other forms follow in the same
way from `getDefault_reindex`. -/
theorem C12_integrate_quad_inner_args (A B : Option (MatArg R K D ℝ)) (a b : Option (VecArg R K ℝ)) :
    ((reindexM g m).intView be).2.integrateQuadInner
        (getDefault (A.map (reindexMatArg g)) (a.map (reindexVecArg g)))
        (getDefault (B.map (reindexMatArg g)) (b.map (reindexVecArg g))) =
      tab fun n => (m.intView be).2.integrateQuadInner (getDefault A a) (getDefault B b) (g n) := by
  rw [getDefault_reindex, getDefault_reindex, C12_integrate_quad_inner]

theorem C12_integrate_linear_args (A : Option (MatArg R K D ℝ)) (a : Option (VecArg R K ℝ)) :
    ((reindexM g m).intView be).2.integrateLinear
        (getDefault (A.map (reindexMatArg g)) (a.map (reindexVecArg g))) =
      tab fun n => (m.intView be).2.integrateLinear (getDefault A a) (g n) := by
  rw [getDefault_reindex, C12_integrate_linear]

theorem C12_integrate_quartic_inner_args (A B : Option (MatArg R K D ℝ)) (a b : Option (VecArg R K ℝ))
    (C E : Option (MatArg R L D ℝ)) (c e : Option (VecArg R L ℝ)) :
    ((reindexM g m).intView be).2.integrateQuarticInner
        (getDefault (A.map (reindexMatArg g)) (a.map (reindexVecArg g)))
        (getDefault (B.map (reindexMatArg g)) (b.map (reindexVecArg g)))
        (getDefault (C.map (reindexMatArg g)) (c.map (reindexVecArg g)))
        (getDefault (E.map (reindexMatArg g)) (e.map (reindexVecArg g))) =
      tab fun n => (m.intView be).2.integrateQuarticInner (getDefault A a) (getDefault B b)
        (getDefault C c) (getDefault E e) (g n) := by
  rw [getDefault_reindex, getDefault_reindex, getDefault_reindex, getDefault_reindex,
    C12_integrate_quartic_inner]

end measure_integrals

/-- **user level, measures**: `m.slice(idx)` (in-range, possibly negative / repeated indices)
followed by `integral()` and reading `mu`, `Sigma` gives the addressed components of the view of
`m`; with the `…_reindex` lemmas above, every `integrate(…)` of the slice is the slice of
`integrate(…)`. -/
theorem C12_intView_take (be : Backend ℝ) (m : MeasureB R D ℝ) (hcls : m.cls.isPdf = false)
    (hmu : m.mu = none) (hz : m.lnZ = none) (hl : m.cov.isSome → m.lnDetLambda.isSome)
    (hl' : m.cov = none → m.lnDetLambda = none)
    (idx : Fin N → Int) (h : ∀ n, -(R : Int) ≤ idx n ∧ idx n < R) :
    (m.slice be idx).map (fun m' => (m'.intView be).2) =
      some (reindexIV (fun n => resolve R (idx n) (h n)) (m.intView be).2) := by
  rw [C12_measure_slice be m hcls hmu hz hl hl' idx h, Option.map_some, intView_reindex_snd]

/-- **user level, measures**, one integral spelled out: `m.slice(idx).integrate("(Ax+a)'(Bx+b)", …)`
with the per-component coefficient arrays sliced by the same index array. -/
theorem C12_integrate_quad_inner_take (be : Backend ℝ) (m : MeasureB R D ℝ) (hcls : m.cls.isPdf = false)
    (hmu : m.mu = none) (hz : m.lnZ = none) (hl : m.cov.isSome → m.lnDetLambda.isSome)
    (hl' : m.cov = none → m.lnDetLambda = none)
    (idx : Fin N → Int) (h : ∀ n, -(R : Int) ≤ idx n ∧ idx n < R) (f e : AffForm R K D ℝ) :
    (m.slice be idx).map (fun m' => (m'.intView be).2.integrateQuadInner
        ⟨take f.A idx (tab2 fun _ _ => Transc.nan), take f.a idx nanV⟩
        ⟨take e.A idx (tab2 fun _ _ => Transc.nan), take e.a idx nanV⟩) =
      some (tab fun n => (m.intView be).2.integrateQuadInner f e (resolve R (idx n) (h n))) := by
  rw [C12_measure_slice be m hcls hmu hz hl hl' idx h, Option.map_some, take_eq _ idx _ h,
    take_eq _ idx _ h, take_eq _ idx _ h, take_eq _ idx _ h]
  exact congrArg some (C12_integrate_quad_inner be _ m f e)

/-- **user level, densities**: `p.slice(idx)` re-constructs the density from the taken arrays
(`C12_pdf_slice`); its integration view is the slice of the view of the re-constructed density. -/
theorem C12_intView_take_pdf (be : Backend ℝ) (m : MeasureB R D ℝ) (hcls : m.cls.isPdf = true)
    (c : Cov R D ℝ) (mu : Arr R (Vec D ℝ)) (hc : m.cov = some c) (hmu : m.mu = some mu)
    (idx : Fin N → Int) (h : ∀ n, -(R : Int) ≤ idx n ∧ idx n < R) :
    (m.slice be idx).map (fun m' => (m'.intView be).2) =
      some (reindexIV (fun n => resolve R (idx n) (h n))
        ((mkPdf be m.cls.isDiag c.Sigma mu (some m.Lambda) (some c.lnDetSigma)).intView be).2) := by
  rw [C12_pdf_slice be m hcls c mu hc hmu idx h, Option.map_some, intView_reindex_snd]

/-! ## (b) expected log-factors and log-conditionals -/

section logs
variable {Rf Rc : Nat}

/-- `_integrate_log_factor(phi)` in the batch of `phi`: component `n` reads component `g n` of the
measure and the factor component selected for it -/
theorem C12_integrate_log_factor (g : Fin N → Fin R) (v : IntV R D ℝ) (sf : Fin R → Fin Rf)
    (f : FactorB Rf D ℝ) :
    integrateLogFactor (reindexIV g v) (sf ∘ g) f = tab fun n => integrateLogFactor v sf f (g n) := by
  ext n
  simp only [integrateLogFactor, IntV.integrateQuadInner, IntV.expQuadInner, IntV.integrateX, IntV.aff,
    getDefault, reindexIV, tab_apply, Function.comp_apply]

/-- … and in the batch of the factor -/
theorem C12_integrate_log_factor_factor (gf : Fin R2 → Fin Rf) (v : IntV R D ℝ) (sf : Fin R → Fin R2)
    (f : FactorB Rf D ℝ) :
    integrateLogFactor v sf (reindexFB gf f) = integrateLogFactor v (gf ∘ sf) f := by
  simp only [integrateLogFactor, reindexFB, tab_apply, Function.comp_apply]

/-- measure-level form: `factor.integrate_log_factor(phi.slice(…))` -/
theorem C12_integrate_log_factor_measure (be : Backend ℝ) (g : Fin N → Fin R) (m : MeasureB R D ℝ)
    (sf : Fin R → Fin Rf) (f : FactorB Rf D ℝ) :
    integrateLogFactor ((reindexM g m).intView be).2 (sf ∘ g) f =
      tab fun n => integrateLogFactor (m.intView be).2 sf f (g n) := by
  rw [intView_reindex_snd, C12_integrate_log_factor]

/-- `integrate_log_conditional(p_yx)` in the batch of `p_yx` -/
theorem C12_integrate_log_conditional (g : Fin N → Fin R) (c : CondB Rc Dy Dx ℝ)
    (v : IntV R (Dy + Dx) ℝ) (sc : Fin R → Fin Rc) :
    c.integrateLogConditional (reindexIV g v) (sc ∘ g) =
      tab fun n => c.integrateLogConditional v sc (g n) := by
  ext n
  simp only [CondB.integrateLogConditional, IntV.integrateQuadInner, IntV.expQuadInner, IntV.aff,
    reindexIV, tab_apply, Function.comp_apply]

/-- … and in the batch of the conditional -/
theorem C12_integrate_log_conditional_cond (gc : Fin R2 → Fin Rc) (c : CondB Rc Dy Dx ℝ)
    (v : IntV R (Dy + Dx) ℝ) (sc : Fin R → Fin R2) :
    (reindexC gc c).integrateLogConditional v sc = c.integrateLogConditional v (gc ∘ sc) := by
  simp only [CondB.integrateLogConditional, reindexC, tab_apply, Function.comp_apply]

theorem C12_integrate_log_conditional_measure (be : Backend ℝ) (g : Fin N → Fin R) (c : CondB Rc Dy Dx ℝ)
    (m : MeasureB R (Dy + Dx) ℝ) (sc : Fin R → Fin Rc) :
    c.integrateLogConditional ((reindexM g m).intView be).2 (sc ∘ g) =
      tab fun n => c.integrateLogConditional (m.intView be).2 sc (g n) := by
  rw [intView_reindex_snd, C12_integrate_log_conditional]

/-- `integrate_log_conditional_y(p_x)(y)` in the batch of `p_x` -/
theorem C12_integrate_log_conditional_y (g : Fin N → Fin R) (c : CondB 1 Dy Dx ℝ) (v : IntV R Dx ℝ)
    (n : Fin N) (y : Vec Dy ℝ) :
    c.integrateLogConditionalY (reindexIV g v) n y = c.integrateLogConditionalY v (g n) y := by
  simp only [CondB.integrateLogConditionalY, IntV.integrateQuadInner, IntV.expQuadInner,
    IntV.integrateLinear, IntV.aff, reindexIV, tab_apply]

theorem C12_integrate_log_conditional_y_measure (be : Backend ℝ) (g : Fin N → Fin R) (c : CondB 1 Dy Dx ℝ)
    (m : MeasureB R Dx ℝ) (n : Fin N) (y : Vec Dy ℝ) :
    c.integrateLogConditionalY ((reindexM g m).intView be).2 n y =
      c.integrateLogConditionalY (m.intView be).2 (g n) y := by
  rw [intView_reindex_snd, C12_integrate_log_conditional_y]

end logs

/-! ## (c) `update`, `condition_on_explicit`, `condition_on` -/

section update
variable {β : Type}

/-- the per-array selection made by `PdfV.update` -/
def updSel (idx : Fin N → Fin R) (old : Arr R β) (new : Arr N β) : Arr R β := tab fun r =>
  match (List.finRange N).reverse.find? (fun n => idx n = r) with
  | some n => new n
  | none => old r

theorem update_eq (p : PdfV R D ℝ) (idx : Fin N → Fin R) (d : PdfV N D ℝ) :
    p.update idx d =
      { p with
        Lambda := updSel idx p.Lambda d.Lambda, Sigma := updSel idx p.Sigma d.Sigma
        mu := updSel idx p.mu d.mu, lnDetSigma := updSel idx p.lnDetSigma d.lnDetSigma
        lnZ := updSel idx p.lnZ d.lnZ, nu := updSel idx p.nu d.nu
        lnBeta := updSel idx p.lnBeta d.lnBeta } := rfl

/-- a component no index addresses keeps its old value -/
theorem updSel_untouched (idx : Fin N → Fin R) (old : Arr R β) (new : Arr N β) (r : Fin R)
    (hr : ∀ n, idx n ≠ r) : updSel idx old new r = old r := by
  have h : (List.finRange N).reverse.find? (fun n => decide (idx n = r)) = none := by
    rw [List.find?_eq_none]
    intro n _
    simpa using hr n
  simp only [updSel, tab_apply, h]

/-- for distinct indices the component addressed by `idx n` receives component `n` of the source -/
theorem updSel_addressed (idx : Fin N → Fin R) (hinj : Function.Injective idx) (old : Arr R β)
    (new : Arr N β) (n : Fin N) : updSel idx old new (idx n) = new n := by
  cases h : (List.finRange N).reverse.find? (fun k => decide (idx k = idx n)) with
  | none =>
    rw [List.find?_eq_none] at h
    have := h n (by simp)
    simp at this
  | some k =>
    have hk := List.find?_some h
    have : k = n := hinj (by simpa using hk)
    subst this
    simp only [updSel, tab_apply, h]

/-- **`update(indices, density)`**: components not addressed are untouched (all seven arrays) -/
theorem C12_update_untouched (p : PdfV R D ℝ) (idx : Fin N → Fin R) (d : PdfV N D ℝ) (r : Fin R)
    (hr : ∀ n, idx n ≠ r) :
    reindexP (fun _ : Fin 1 => r) (p.update idx d) = reindexP (fun _ : Fin 1 => r) p := by
  simp only [update_eq, reindexP, updSel_untouched idx _ _ r hr]

/-- **`update(indices, density)`**: for distinct indices, slicing the result at `indices` returns the
source density (with the class flag of the updated object) -/
theorem C12_update_addressed (p : PdfV R D ℝ) (idx : Fin N → Fin R) (hinj : Function.Injective idx)
    (d : PdfV N D ℝ) :
    reindexP idx (p.update idx d) = { reindexP id d with diag := p.diag } := by
  simp only [update_eq, reindexP, updSel_addressed idx hinj, id]

/-- field form: every array of the updated density, component by component -/
theorem C12_update_fields (p : PdfV R D ℝ) (idx : Fin N → Fin R) (hinj : Function.Injective idx)
    (d : PdfV N D ℝ) :
    (∀ n, (p.update idx d).Sigma (idx n) = d.Sigma n ∧ (p.update idx d).mu (idx n) = d.mu n ∧
      (p.update idx d).Lambda (idx n) = d.Lambda n ∧ (p.update idx d).nu (idx n) = d.nu n ∧
      (p.update idx d).lnBeta (idx n) = d.lnBeta n ∧ (p.update idx d).lnDetSigma (idx n) = d.lnDetSigma n ∧
      (p.update idx d).lnZ (idx n) = d.lnZ n) ∧
    (∀ r, (∀ n, idx n ≠ r) → (p.update idx d).Sigma r = p.Sigma r ∧ (p.update idx d).mu r = p.mu r ∧
      (p.update idx d).Lambda r = p.Lambda r ∧ (p.update idx d).nu r = p.nu r ∧
      (p.update idx d).lnBeta r = p.lnBeta r ∧ (p.update idx d).lnDetSigma r = p.lnDetSigma r ∧
      (p.update idx d).lnZ r = p.lnZ r) := by
  rw [update_eq]
  refine ⟨fun n => ?_, fun r hr => ?_⟩
  · simp only [updSel_addressed idx hinj, and_self]
  · simp only [updSel_untouched idx _ _ r hr, and_self]

/-- corollary: an update with distinct indices followed by the slice at those indices does not
depend on the old density (only on its class flag) -/
theorem C12_update_forgets (p p' : PdfV R D ℝ) (hd : p.diag = p'.diag) (idx : Fin N → Fin R)
    (hinj : Function.Injective idx) (d : PdfV N D ℝ) :
    reindexP idx (p.update idx d) = reindexP idx (p'.update idx d) := by
  rw [C12_update_addressed p idx hinj d, C12_update_addressed p' idx hinj d, hd]

end update

/-- **`condition_on_explicit(dim_y, dim_x)`** of a batched density is component-wise -/
theorem C12_condition_on_explicit {Ky Kx : Nat} (be : Backend ℝ) (g : Fin N → Fin R) (p : PdfV R D ℝ)
    (dimY : Fin Ky → Fin D) (dimX : Fin Kx → Fin D) :
    (reindexP g p).conditionOnExplicit be dimY dimX = reindexC g (p.conditionOnExplicit be dimY dimX) := by
  simp only [PdfV.conditionOnExplicit, invertBatch, reindexC, reindexP, tab_apply, if_false,
    Bool.false_eq_true]

/-- **`condition_on(dim_y)`** of a batched density is component-wise -/
theorem C12_condition_on {Ky : Nat} (be : Backend ℝ) (g : Fin N → Fin R) (p : PdfV R D ℝ)
    (dimY : Fin Ky → Fin D) :
    (reindexP g p).conditionOn be dimY = reindexC g (p.conditionOn be dimY) := by
  unfold PdfV.conditionOn
  exact C12_condition_on_explicit be g p dimY _

/-! ## (d) conditional entropy and mutual information, batch on either side -/

section entropies
variable {Rc Rx : Nat}

/-- the pairing `k ↦ (gc (k / N2), gx (k % N2))` of the result components -/
def pairIdx (gc : Fin N1 → Fin Rc) (gx : Fin N2 → Fin Rx) (k : Fin (N1 * N2)) : Fin (Rc * Rx) :=
  flat (gc (unflatL k)) (gx (unflatR k))

/-- **`conditional_entropy(p_x)`**: slicing the conditional with `gc` and the prior with `gx` gives
the components `gc i * Rx + gx j` of the full result -/
theorem C12_conditional_entropy (be : Backend ℝ) (c : CondB Rc Dy Dx ℝ) (p : PdfV Rx Dx ℝ)
    (gc : Fin N1 → Fin Rc) (gx : Fin N2 → Fin Rx) :
    (reindexC gc c).conditionalEntropy be (reindexP gx p) =
      (c.conditionalEntropy be p).map fun h => tab fun k => h (pairIdx gc gx k) := by
  simp only [CondB.conditionalEntropy, ← C12_affine_joint, asPdf_reindex]
  cases (c.affineJoint be p).asPdf with
  | none => rfl
  | some j =>
    simp only [Option.map_some, C12_entropy, tab_apply, pairIdx, unflatR_flat]

/-- **`mutual_information(p_x)`** -/
theorem C12_mutual_information (be : Backend ℝ) (c : CondB Rc Dy Dx ℝ) (p : PdfV Rx Dx ℝ)
    (gc : Fin N1 → Fin Rc) (gx : Fin N2 → Fin Rx) :
    (reindexC gc c).mutualInformation be (reindexP gx p) =
      (c.mutualInformation be p).map fun i => tab fun k => i (pairIdx gc gx k) := by
  simp only [CondB.mutualInformation, C12_conditional_entropy, ← C12_affine_marginal, asPdf_reindex]
  cases c.conditionalEntropy be p <;> cases (c.affineMarginal be p).asPdf <;>
    simp only [Option.map_some, Option.map_none, C12_entropy, tab_apply, pairIdx]

theorem C12_conditional_entropy_id (be : Backend ℝ) (c : CondIdB Rc D ℝ) (p : PdfV Rx D ℝ)
    (gc : Fin N1 → Fin Rc) (gx : Fin N2 → Fin Rx) :
    (reindexCI gc c).conditionalEntropy be (reindexP gx p) =
      (c.conditionalEntropy be p).map fun h => tab fun k => h (pairIdx gc gx k) := by
  simp only [CondIdB.conditionalEntropy, ← C12_affine_joint_id, asPdf_reindex]
  cases (c.affineJoint be p).asPdf with
  | none => rfl
  | some j =>
    simp only [Option.map_some, C12_entropy, tab_apply, pairIdx, unflatR_flat]

theorem C12_mutual_information_id (be : Backend ℝ) (c : CondIdB Rc D ℝ) (p : PdfV Rx D ℝ)
    (gc : Fin N1 → Fin Rc) (gx : Fin N2 → Fin Rx) :
    (reindexCI gc c).mutualInformation be (reindexP gx p) =
      (c.mutualInformation be p).map fun i => tab fun k => i (pairIdx gc gx k) := by
  simp only [CondIdB.mutualInformation, C12_conditional_entropy_id, ← C12_affine_marginal_id,
    asPdf_reindex]
  cases c.conditionalEntropy be p <;> cases (c.affineMarginal be p).asPdf <;>
    simp only [Option.map_some, Option.map_none, C12_entropy, tab_apply, pairIdx]

/-- component form: entry `flat i j` of `conditional_entropy` only depends on conditional `i` and
prior `j` -/
theorem C12_conditional_entropy_component (be : Backend ℝ) (c : CondB Rc Dy Dx ℝ) (p : PdfV Rx Dx ℝ)
    (i : Fin Rc) (j : Fin Rx) :
    (reindexC (fun _ : Fin 1 => i) c).conditionalEntropy be (reindexP (fun _ : Fin 1 => j) p) =
      (c.conditionalEntropy be p).map fun h => tab fun _ => h (flat i j) := by
  rw [C12_conditional_entropy]; rfl

end entropies

/-! ## (e) approximate conditionals: naturality in the batch of `p(x)` -/

/-- slice of the left operand of a `multiply`: `k ↦ (g (k / K), k % K)` -/
def liftL {K : Nat} (g : Fin N → Fin R) (k : Fin (N * K)) : Fin (R * K) :=
  flat (g (unflatL k)) (unflatR k)

theorem liftL_flat {K : Nat} (g : Fin N → Fin R) (n : Fin N) (k : Fin K) :
    liftL g (flat n k) = flat (g n) k := by
  simp only [liftL, unflatL_flat, unflatR_flat]

theorem reindexF_id (f : Factor R D ℝ) : reindexF (id : Fin R → Fin R) f = f := by
  cases f <;> simp only [reindexF, id, Arr.ofFn_get]

/-- `phi.slice(…).multiply(factor)`: only the measure is sliced -/
theorem multiply_reindex_left (be : Backend ℝ) (g : Fin N → Fin R1) (u : MeasureB R1 D ℝ)
    (f : Factor R2 D ℝ) (uf : Bool) :
    (reindexM g u).multiply be f uf = reindexM (liftL g) (u.multiply be f uf) := by
  have h := C12_multiply_slice be g (id : Fin R2 → Fin R2) u f uf
  rw [reindexF_id] at h
  exact h

theorem integralLight_reindex (be : Backend ℝ) (g : Fin N → Fin R) (m : MeasureB R D ℝ) :
    (reindexM g m).integralLight be =
      (reindexM g (m.integralLight be).1, tab fun n => (m.integralLight be).2 (g n)) := by
  simp only [MeasureB.integralLight, C12_log_integral_light, tab_apply]

/-- the covariance logic shared by the conditional constructors, `Sigma` given -/
theorem mkCond_reindex (be : Backend ℝ) (g : Fin N → Fin R) (Mn : Arr R (Mat Dy Dx ℝ))
    (bn : Arr R (Vec Dy ℝ)) (Sn : Arr R (Mat Dy Dy ℝ)) :
    mkCond be false (tab fun n => Mn (g n)) (some (tab fun n => bn (g n))) (some (tab fun n => Sn (g n)))
        none none =
      (mkCond be false Mn (some bn) (some Sn) none none).map (reindexC g) := by
  simp only [mkCond, condCovInit, invertBatch, reindexC, Option.getD_some, Option.map_some, tab_apply,
    if_false, Bool.false_eq_true]

section feature
variable {Dk : Nat} (be : Backend ℝ) (c : FeatCondB Dy Dx Dk ℝ) (g : Fin N → Fin R) (p : PdfV R Dx ℝ)

/-- **`get_expected_moments(p_x)`** of the feature-based conditionals (RBF, LSEM): component `n`
of the result for the sliced `p_x` is component `g n` of the result for `p_x` — the kernel
products (`p_x.multiply(k_func)`, batch `R·Dk`, and `…multiply(k_func)` again, batch `R·Dk·Dk`)
are reshaped back per component. -/
theorem C12_feat_expected_moments :
    c.expectedMoments be (reindexP g p) =
      (tab fun n => (c.expectedMoments be p).1 (g n), tab fun n => (c.expectedMoments be p).2 (g n)) := by
  simp only [FeatCondB.expectedMoments, toMeasure_reindex, intView_reindex, multiply_reindex_left,
    integrateX_reindex, integrateXXT_reindex, mass_reindex, tab_apply, liftL_flat]

/-- **`get_expected_cross_terms(p_x)`** -/
theorem C12_feat_expected_cross_terms :
    c.expectedCrossTerms be (reindexP g p) = tab fun n => c.expectedCrossTerms be p (g n) := by
  simp only [FeatCondB.expectedCrossTerms, toMeasure_reindex, intView_reindex, multiply_reindex_left,
    integrateX_reindex, integrateXXT_reindex, tab_apply, liftL_flat]

theorem featAffineMarginal_eq (p : PdfV R Dx ℝ) :
    c.affineMarginal be p =
      mkPdf be false (c.expectedMoments be p).2 (c.expectedMoments be p).1 none none := rfl

/-- **`affine_marginal_transformation(p_x)`** -/
theorem C12_feat_affine_marginal :
    c.affineMarginal be (reindexP g p) = reindexM g (c.affineMarginal be p) := by
  rw [featAffineMarginal_eq, featAffineMarginal_eq, C12_feat_expected_moments, ← mkPdf_reindex]
  rfl

theorem featAffineJoint_eq (p : PdfV R Dx ℝ) :
    c.affineJoint be p =
      mkPdf be false
        (tab fun r => block (p.Sigma r)
          (transpose (featCovYX (c.expectedCrossTerms be p) (c.expectedMoments be p).1 p.mu r))
          (featCovYX (c.expectedCrossTerms be p) (c.expectedMoments be p).1 p.mu r)
          ((c.expectedMoments be p).2 r))
        (tab fun r => vappend (p.mu r) ((c.expectedMoments be p).1 r)) none none := rfl

/-- **`affine_joint_transformation(p_x)`** -/
theorem C12_feat_affine_joint :
    c.affineJoint be (reindexP g p) = reindexM g (c.affineJoint be p) := by
  rw [featAffineJoint_eq, featAffineJoint_eq, C12_feat_expected_moments, C12_feat_expected_cross_terms,
    ← mkPdf_reindex]
  simp only [featCovYX, reindexP, tab_apply, Option.map_none]

theorem featAffineConditional_eq (p : PdfV R Dx ℝ) :
    c.affineConditional be p =
      (let muY := (c.expectedMoments be p).1
       let LamY := (invertBatch be false (c.expectedMoments be p).2).1
       let cov := featCovYX (c.expectedCrossTerms be p) muY p.mu
       let Mn : Arr R (Mat Dx Dy ℝ) := tab fun r => mmul (transpose (cov r)) (LamY r)
       let bn : Arr R (Vec Dx ℝ) := tab fun r => vsub (p.mu r) (mulVec (Mn r) (muY r))
       let Sn : Arr R (Mat Dx Dx ℝ) := tab fun r =>
         let S := msub (p.Sigma r) (mmul (Mn r) (cov r))
         tab2 fun i j => half * (S i j + S j i)
       mkCond be false Mn (some bn) (some Sn) none none) := rfl

/-- **`affine_conditional_transformation(p_x)`** -/
theorem C12_feat_affine_conditional :
    c.affineConditional be (reindexP g p) = (c.affineConditional be p).map (reindexC g) := by
  rw [featAffineConditional_eq, featAffineConditional_eq, C12_feat_expected_moments,
    C12_feat_expected_cross_terms]
  simp only []
  rw [← mkCond_reindex]
  simp only [featCovYX, invertBatch, reindexP, tab_apply, if_false, Bool.false_eq_true]

/-- **`conditional_entropy(p_x)`** of the feature-based conditionals -/
theorem C12_feat_conditional_entropy :
    c.conditionalEntropy be (reindexP g p) =
      (c.conditionalEntropy be p).map fun h => tab fun n => h (g n) := by
  simp only [FeatCondB.conditionalEntropy, C12_feat_affine_joint, asPdf_reindex]
  cases (c.affineJoint be p).asPdf <;>
    simp only [Option.map_some, Option.map_none, C12_entropy, tab_apply]

/-- **`mutual_information(p_x)`** of the feature-based conditionals -/
theorem C12_feat_mutual_information :
    c.mutualInformation be (reindexP g p) =
      (c.mutualInformation be p).map fun i => tab fun n => i (g n) := by
  simp only [FeatCondB.mutualInformation, C12_feat_conditional_entropy, C12_feat_affine_marginal,
    asPdf_reindex]
  cases c.conditionalEntropy be p <;> cases (c.affineMarginal be p).asPdf <;>
    simp only [Option.map_some, Option.map_none, C12_entropy, tab_apply]

end feature

section feature_logs
variable {Dk : Nat} (be : Backend ℝ) (c : FeatCondB Dy Dx Dk ℝ) (g : Fin N → Fin R)

/-- the `y`-independent pieces of `integrate_log_conditional_y(p_x)` of the feature-based
conditionals, in the batch of `p_x` -/
theorem C12_feat_log_conditional_y_terms (p : PdfV R Dx ℝ) :
    c.logConditionalYTerms be (reindexP g p) =
      (tab fun n => (c.logConditionalYTerms be p).1 (g n),
       tab fun n => (c.logConditionalYTerms be p).2 (g n)) := by
  simp only [FeatCondB.logConditionalYTerms, toMeasure_reindex, intView_reindex, multiply_reindex_left,
    integralLight_reindex, integrateLinear_reindex_const, integrateQuadInner_reindex_const, mass_reindex,
    tab_apply, liftL_flat]

/-- `log_expectation_y(y)`: component `n` for the sliced `p_x` is component `g n` -/
theorem C12_feat_log_conditional_y (p : PdfV R Dx ℝ) (n : Fin N) (y : Vec Dy ℝ) :
    c.logConditionalYAt (c.logConditionalYTerms be (reindexP g p)) n y =
      c.logConditionalYAt (c.logConditionalYTerms be p) (g n) y := by
  rw [C12_feat_log_conditional_y_terms]
  simp only [FeatCondB.logConditionalYAt, tab_apply]

end feature_logs

section feature_log_joint
variable {Dk : Nat} (be : Backend ℝ) (c : FeatCondB Dy Dx Dk ℝ) (g : Fin N → Fin R)

theorem Ekk_reindex (pm : MeasureB R Dx ℝ) (ff : Bool) :
    c.Ekk be (reindexM g pm) ff = tab fun n => c.Ekk be pm ff (g n) := by
  simp only [FeatCondB.Ekk, multiply_reindex_left, integralLight_reindex, tab_apply, liftL_flat]

/-- `integrate_log_conditional(p_yx, p_x)` of the feature-based conditionals in the (common) batch
of `p_yx` and of the optional `p_x` -/
theorem C12_feat_integrate_log_conditional (q : PdfV R (Dy + Dx) ℝ) (px : Option (PdfV R Dx ℝ)) :
    c.integrateLogConditional be (reindexP g q) (px.map (reindexP g)) =
      tab fun n => c.integrateLogConditional be q px (g n) := by
  cases px with
  | none =>
    simp only [FeatCondB.integrateLogConditional, Option.map_none, toMeasure_reindex, intView_reindex,
      multiply_reindex_left, C12_get_marginal, Ekk_reindex, integrateLinear_reindex_const,
      integrateQuadInner_reindex_const, tab_apply, liftL_flat]
  | some px =>
    simp only [FeatCondB.integrateLogConditional, Option.map_some, toMeasure_reindex, intView_reindex,
      multiply_reindex_left, Ekk_reindex, integrateLinear_reindex_const,
      integrateQuadInner_reindex_const, tab_apply, liftL_flat]

end feature_log_joint

/-! ### heteroscedastic conditionals -/

/-- what a link class has to provide: `_integrate_noise_diagonal(p_x)` (layout `r*Dk + k`) is
natural in the batch of `p_x` -/
def NoiseDiagNatural (ops : HLinkOps ℝ) : Prop :=
  ∀ {Dy Dx Da Dk R N : Nat} (be : Backend ℝ) (c : HeteroB Dy Dx Da Dk ℝ) (g : Fin N → Fin R)
    (p : PdfV R Dx ℝ),
    ops.integrateNoiseDiagonal be c (reindexP g p) =
      tab fun k => ops.integrateNoiseDiagonal be c p (liftL g k)

/-- `HeteroscedasticExpConditional._integrate_noise_diagonal` is natural -/
theorem expOps_noiseDiagNatural : NoiseDiagNatural (expOps : HLinkOps ℝ) := by
  intro Dy Dx Da Dk R N be c g p
  show expIntegrateNoiseDiagonal be c (reindexP g p) =
    tab fun k => expIntegrateNoiseDiagonal be c p (liftL g k)
  simp only [expIntegrateNoiseDiagonal, toMeasure_reindex, multiply_reindex_left, C12_integral]

/-- `HeteroscedasticCoshM1Conditional._integrate_noise_diagonal` is natural -/
theorem coshM1Ops_noiseDiagNatural : NoiseDiagNatural (coshM1Ops : HLinkOps ℝ) := by
  intro Dy Dx Da Dk R N be c g p
  show coshIntegrateNoiseDiagonal be c (reindexP g p) =
    tab fun k => coshIntegrateNoiseDiagonal be c p (liftL g k)
  simp only [coshIntegrateNoiseDiagonal, toMeasure_reindex, multiply_reindex_left, C12_integral,
    tab_apply]

section hetero
variable {Da Dk : Nat} (ops : HLinkOps ℝ) (hops : NoiseDiagNatural ops) (be : Backend ℝ)
  (c : HeteroB Dy Dx Da Dk ℝ) (g : Fin N → Fin R) (p : PdfV R Dx ℝ)

theorem meanForm_reindex : (c.meanForm : AffForm N Dy Dx ℝ) = reindexAF g c.meanForm := by
  simp only [HeteroB.meanForm, reindexAF, tab_apply]

theorem getDefault_none_reindex :
    (getDefault none none : AffForm N D D ℝ) = reindexAF g (getDefault none none) :=
  getDefault_reindex g none none

include hops in
/-- **`integrate_Sigma_x(p_x)`** -/
theorem C12_hetero_integrate_sigma_x :
    c.integrateSigmaX ops be (reindexP g p) = tab fun n => c.integrateSigmaX ops be p (g n) := by
  simp only [HeteroB.integrateSigmaX, hops be c g p, tab_apply, liftL_flat]

include hops in
/-- **`get_expected_moments(p_x)`** of the heteroscedastic conditionals: component `n` for the sliced
`p_x` is component `g n` for `p_x` -/
theorem C12_hetero_expected_moments :
    c.getExpectedMoments ops be (reindexP g p) =
      (tab fun n => (c.getExpectedMoments ops be p).1 (g n),
       tab fun n => (c.getExpectedMoments ops be p).2 (g n)) := by
  simp only [HeteroB.getExpectedMoments, C12_hetero_integrate_sigma_x ops hops, toMeasure_reindex,
    intView_reindex]
  rw [meanForm_reindex c g, integrateQuadOuter_reindex]
  simp only [HeteroB.condMu, reindexP, tab_apply]

/-- **`get_expected_cross_terms(p_x)`** -/
theorem C12_hetero_expected_cross_terms :
    c.getExpectedCrossTerms be (reindexP g p) = tab fun n => c.getExpectedCrossTerms be p (g n) := by
  simp only [HeteroB.getExpectedCrossTerms, toMeasure_reindex, intView_reindex]
  rw [meanForm_reindex c g, getDefault_none_reindex g, integrateQuadOuter_reindex]

theorem heteroAffineMarginal_eq (p : PdfV R Dx ℝ) :
    c.affineMarginal ops be p =
      mkPdf be false (c.getExpectedMoments ops be p).2 (c.getExpectedMoments ops be p).1 none none := rfl

include hops in
/-- **`affine_marginal_transformation(p_x)`** -/
theorem C12_hetero_affine_marginal :
    c.affineMarginal ops be (reindexP g p) = reindexM g (c.affineMarginal ops be p) := by
  rw [heteroAffineMarginal_eq, heteroAffineMarginal_eq, C12_hetero_expected_moments ops hops,
    ← mkPdf_reindex]
  rfl

theorem heteroAffineJoint_eq (p : PdfV R Dx ℝ) :
    c.affineJoint ops be p =
      mkPdf be false
        (tab fun r => block (p.Sigma r)
          (transpose (HeteroB.covYX (c.getExpectedCrossTerms be p) (c.getExpectedMoments ops be p).1 p r))
          (HeteroB.covYX (c.getExpectedCrossTerms be p) (c.getExpectedMoments ops be p).1 p r)
          ((c.getExpectedMoments ops be p).2 r))
        (tab fun r => vappend (p.mu r) ((c.getExpectedMoments ops be p).1 r)) none none := rfl

include hops in
/-- **`affine_joint_transformation(p_x)`** -/
theorem C12_hetero_affine_joint :
    c.affineJoint ops be (reindexP g p) = reindexM g (c.affineJoint ops be p) := by
  rw [heteroAffineJoint_eq, heteroAffineJoint_eq, C12_hetero_expected_moments ops hops,
    C12_hetero_expected_cross_terms, ← mkPdf_reindex]
  simp only [HeteroB.covYX, reindexP, tab_apply, Option.map_none]

theorem heteroAffineConditional_eq (p : PdfV R Dx ℝ) :
    c.affineConditional ops be p =
      (let muY := (c.getExpectedMoments ops be p).1
       let Ly := (invertBatch be false (c.getExpectedMoments ops be p).2).1
       let cov := HeteroB.covYX (c.getExpectedCrossTerms be p) muY p
       let Mn : Arr R (Mat Dx Dy ℝ) := tab fun r => mmul (transpose (cov r)) (Ly r)
       let bn : Arr R (Vec Dx ℝ) := tab fun r => vsub (p.mu r) (mulVec (Mn r) (muY r))
       let Sn : Arr R (Mat Dx Dx ℝ) := tab fun r => msub (p.Sigma r) (mmul (Mn r) (cov r))
       mkCond be false Mn (some bn) (some Sn) none none) := rfl

include hops in
/-- **`affine_conditional_transformation(p_x)`** -/
theorem C12_hetero_affine_conditional :
    c.affineConditional ops be (reindexP g p) = (c.affineConditional ops be p).map (reindexC g) := by
  rw [heteroAffineConditional_eq, heteroAffineConditional_eq, C12_hetero_expected_moments ops hops,
    C12_hetero_expected_cross_terms]
  simp only []
  rw [← mkCond_reindex]
  simp only [HeteroB.covYX, invertBatch, reindexP, tab_apply, if_false, Bool.false_eq_true]

include hops in
/-- corollary in the form "equal component ⇒ equal result component": two batches of priors whose
components `r`, `r'` coincide give the same moment-matched marginal in these components -/
theorem C12_hetero_affine_marginal_component {R' : Nat} (p' : PdfV R' Dx ℝ) (r : Fin R) (r' : Fin R')
    (h : reindexP (fun _ : Fin 1 => r) p = reindexP (fun _ : Fin 1 => r') p') :
    reindexM (fun _ : Fin 1 => r) (c.affineMarginal ops be p) =
      reindexM (fun _ : Fin 1 => r') (c.affineMarginal ops be p') := by
  rw [← C12_hetero_affine_marginal ops hops, ← C12_hetero_affine_marginal ops hops, h]

end hetero

/-! ## non-vacuity -/

/-- (a) two measure components (`D = 1`, precisions `1, 2`, natural means `0, 2`), per-component
coefficient arrays, the index array `[-1, 0, -1]`: the three results of
`m.slice(idx).integrate("(Ax+a)'(Bx+b)", A[idx], a[idx], B[idx], b[idx])` are the components
`1, 0, 1` of the integral over the full batch. -/
example (be : Backend ℝ) :
    let m : MeasureB 2 1 ℝ := MeasureB.mk0 .measure (tab fun r => tab2 fun _ _ => (r.1 : ℝ) + 1)
      (tab fun r => tab fun _ => 2 * (r.1 : ℝ)) (tab fun _ => 0)
    let f : AffForm 2 1 1 ℝ := ⟨tab fun r => tab2 fun _ _ => (r.1 : ℝ) + 3, tab fun _ => tab fun _ => 1⟩
    let e : AffForm 2 1 1 ℝ := ⟨tab fun _ => tab2 fun _ _ => 5, tab fun r => tab fun _ => -(r.1 : ℝ)⟩
    let idx : Fin 3 → Int := fun n => if n.1 = 1 then 0 else -1
    (m.slice be idx).map (fun m' => (m'.intView be).2.integrateQuadInner
        ⟨take f.A idx (tab2 fun _ _ => Transc.nan), take f.a idx nanV⟩
        ⟨take e.A idx (tab2 fun _ _ => Transc.nan), take e.a idx nanV⟩) =
      some (tab fun n : Fin 3 => (m.intView be).2.integrateQuadInner f e (if n.1 = 1 then 0 else 1)) := by
  intro m f e idx
  have hU : ∀ n : Fin 3, -((2 : Nat) : Int) ≤ idx n ∧ idx n < (2 : Nat) := by
    intro n; simp only [idx]; split <;> omega
  rw [C12_integrate_quad_inner_take be m rfl rfl rfl (by intro h; cases h) (fun _ => rfl) idx hU f e]
  congr 2
  funext n
  congr 1
  unfold resolve
  simp only [idx]
  split <;> rfl

/-- (c) three components, `update([2, 0], d)`: component `1` is untouched, components `2`, `0` are
the components `0`, `1` of the source. -/
example (p : PdfV 3 2 ℝ) (d : PdfV 2 2 ℝ) :
    let idx : Fin 2 → Fin 3 := fun n => if n.1 = 0 then 2 else 0
    (p.update idx d).Sigma 1 = p.Sigma 1 ∧ (p.update idx d).mu 1 = p.mu 1 ∧
      (p.update idx d).Sigma 2 = d.Sigma 0 ∧ (p.update idx d).lnZ 0 = d.lnZ 1 := by
  intro idx
  have hinj : Function.Injective idx := by decide
  obtain ⟨ha, hu⟩ := C12_update_fields p idx hinj d
  have h1 := hu 1 (by decide)
  exact ⟨h1.1, h1.2.1, (ha 0).1, (ha 1).2.2.2.2.2.2⟩

/-- (e) the hypothesis of the heteroscedastic statements holds for both concrete link classes -/
example : NoiseDiagNatural (expOps : HLinkOps ℝ) ∧ NoiseDiagNatural (coshM1Ops : HLinkOps ℝ) :=
  ⟨expOps_noiseDiagNatural, coshM1Ops_noiseDiagNatural⟩

end GT.Props.C12Ext

section axioms
#print axioms GT.Props.C12Ext.getDefault_reindex
#print axioms GT.Props.C12Ext.intView_reindex
#print axioms GT.Props.C12Ext.C12_integrate_mass
#print axioms GT.Props.C12Ext.C12_integrate_x
#print axioms GT.Props.C12Ext.C12_integrate_linear
#print axioms GT.Props.C12Ext.C12_integrate_xxT
#print axioms GT.Props.C12Ext.C12_integrate_quad_inner
#print axioms GT.Props.C12Ext.C12_integrate_quad_outer
#print axioms GT.Props.C12Ext.C12_integrate_xbxx
#print axioms GT.Props.C12Ext.C12_integrate_cubic_outer_x
#print axioms GT.Props.C12Ext.C12_integrate_cubic_inner
#print axioms GT.Props.C12Ext.C12_integrate_cubic_outer
#print axioms GT.Props.C12Ext.C12_integrate_quartic_outer
#print axioms GT.Props.C12Ext.C12_integrate_quartic_inner
#print axioms GT.Props.C12Ext.C12_integrate_quad_inner_args
#print axioms GT.Props.C12Ext.C12_integrate_linear_args
#print axioms GT.Props.C12Ext.C12_integrate_quartic_inner_args
#print axioms GT.Props.C12Ext.C12_intView_take
#print axioms GT.Props.C12Ext.C12_intView_take_pdf
#print axioms GT.Props.C12Ext.C12_integrate_quad_inner_take
#print axioms GT.Props.C12Ext.C12_integrate_log_factor
#print axioms GT.Props.C12Ext.C12_integrate_log_factor_factor
#print axioms GT.Props.C12Ext.C12_integrate_log_factor_measure
#print axioms GT.Props.C12Ext.C12_integrate_log_conditional
#print axioms GT.Props.C12Ext.C12_integrate_log_conditional_cond
#print axioms GT.Props.C12Ext.C12_integrate_log_conditional_measure
#print axioms GT.Props.C12Ext.C12_integrate_log_conditional_y
#print axioms GT.Props.C12Ext.C12_integrate_log_conditional_y_measure
#print axioms GT.Props.C12Ext.C12_update_untouched
#print axioms GT.Props.C12Ext.C12_update_addressed
#print axioms GT.Props.C12Ext.C12_update_fields
#print axioms GT.Props.C12Ext.C12_update_forgets
#print axioms GT.Props.C12Ext.C12_condition_on_explicit
#print axioms GT.Props.C12Ext.C12_condition_on
#print axioms GT.Props.C12Ext.C12_conditional_entropy
#print axioms GT.Props.C12Ext.C12_mutual_information
#print axioms GT.Props.C12Ext.C12_conditional_entropy_id
#print axioms GT.Props.C12Ext.C12_mutual_information_id
#print axioms GT.Props.C12Ext.C12_conditional_entropy_component
#print axioms GT.Props.C12Ext.multiply_reindex_left
#print axioms GT.Props.C12Ext.C12_feat_expected_moments
#print axioms GT.Props.C12Ext.C12_feat_expected_cross_terms
#print axioms GT.Props.C12Ext.C12_feat_affine_marginal
#print axioms GT.Props.C12Ext.C12_feat_affine_joint
#print axioms GT.Props.C12Ext.C12_feat_affine_conditional
#print axioms GT.Props.C12Ext.C12_feat_conditional_entropy
#print axioms GT.Props.C12Ext.C12_feat_mutual_information
#print axioms GT.Props.C12Ext.C12_feat_log_conditional_y_terms
#print axioms GT.Props.C12Ext.C12_feat_log_conditional_y
#print axioms GT.Props.C12Ext.C12_feat_integrate_log_conditional
#print axioms GT.Props.C12Ext.expOps_noiseDiagNatural
#print axioms GT.Props.C12Ext.coshM1Ops_noiseDiagNatural
#print axioms GT.Props.C12Ext.C12_hetero_integrate_sigma_x
#print axioms GT.Props.C12Ext.C12_hetero_expected_moments
#print axioms GT.Props.C12Ext.C12_hetero_expected_cross_terms
#print axioms GT.Props.C12Ext.C12_hetero_affine_marginal
#print axioms GT.Props.C12Ext.C12_hetero_affine_joint
#print axioms GT.Props.C12Ext.C12_hetero_affine_conditional
#print axioms GT.Props.C12Ext.C12_hetero_affine_marginal_component
end axioms
