import GT.Bridge.PdfOK
import GT.Bridge.SpecSat
import GT.Props.C10
import GT.Math.KL
import GT.Math.Block
import GT.Math.DetMono
/-!
# C13 — information-theoretic quantities: KL divergence, entropy, conditional entropy,
mutual information

* `C13_kl_eq`: `kl_divergence` (all broadcast patterns, through the selector form `klSel`) is the
  closed form `GT.Math.klGauss` of `KL(N(μp,Σp) ‖ N(μq,Σq))`; hence non-negative, zero exactly for
  equal mean and covariance.
* `C13_entropy_formula`, `C13_entropy_eq_neg_expected_log_at_mean_form`.
* `C13_conditional_entropy`: `conditional_entropy(p_x)` is the entropy of the noise `N(0, Σ_c)`
  (both branches of `if Dy < Dx` in `affine_joint_transformation`).
* `C13_mutual_information`: `½ (log det (Σ_c + M Σx Mᵀ) − log det Σ_c)`, non-negative, zero for
  `M = 0`.
-/
namespace GT.Props.C13
open GT Matrix

variable {R R1 R2 Ro Rc Rx D Dx Dy : Nat}

/-! ## 1–2: KL divergence -/

/-- **C13**: `kl_divergence` is the closed-form Gaussian KL divergence, for every broadcast
pattern (`sp`, `sq` select the component of each operand used for output component `r`). -/
theorem C13_kl_eq (sp : Fin Ro → Fin R1) (sq : Fin Ro → Fin R2) (p : PdfV R1 D ℝ) (q : PdfV R2 D ℝ)
    (hp : PdfOK p) (hq : PdfOK q) (r : Fin Ro) :
    klSel sp sq p q r =
      GT.Math.klGauss (toV (p.mu (sp r))) (toV (q.mu (sq r))) (toM (p.Sigma (sp r)))
        (toM (q.Sigma (sq r))) := by
  simp only [klSel, tab_apply, half_real, ofNat_real, dot_eq, trace_eq, toM_mmul, toV_vecMul, toV_vsub,
    hq.lambda, hq.lnDet, hp.lnDet, Math.klGauss, Fintype.card_fin]
  rw [Matrix.dotProduct_mulVec]

/-- non-negativity, selector form (covers all three broadcast patterns) -/
theorem C13_kl_nonneg_sel (sp : Fin Ro → Fin R1) (sq : Fin Ro → Fin R2) (p : PdfV R1 D ℝ)
    (q : PdfV R2 D ℝ) (hp : PdfOK p) (hq : PdfOK q) (r : Fin Ro) : 0 ≤ klSel sp sq p q r := by
  rw [C13_kl_eq sp sq p q hp hq r]
  exact Math.klGauss_nonneg _ _ _ _ (hp.posDef _) (hq.posDef _)

/-- zero iff same mean and same covariance, selector form -/
theorem C13_kl_eq_zero_iff_sel (sp : Fin Ro → Fin R1) (sq : Fin Ro → Fin R2) (p : PdfV R1 D ℝ)
    (q : PdfV R2 D ℝ) (hp : PdfOK p) (hq : PdfOK q) (r : Fin Ro) :
    klSel sp sq p q r = 0 ↔ p.mu (sp r) = q.mu (sq r) ∧ p.Sigma (sp r) = q.Sigma (sq r) := by
  rw [C13_kl_eq sp sq p q hp hq r, Math.klGauss_eq_zero_iff _ _ _ _ (hp.posDef _) (hq.posDef _),
    toV_injective.eq_iff, toM_injective.eq_iff]

/-- `KL(p‖p) = 0`, selector form -/
theorem C13_kl_self_sel (s : Fin Ro → Fin R) (p : PdfV R D ℝ) (hp : PdfOK p) (r : Fin Ro) :
    klSel s s p p r = 0 :=
  (C13_kl_eq_zero_iff_sel s s p p hp hp r).2 ⟨rfl, rfl⟩

/-- **C13** `p.kl_divergence(q) ≥ 0` — equal batch sizes -/
theorem C13_kl_nonneg (p q : PdfV R D ℝ) (hp : PdfOK p) (hq : PdfOK q) (r : Fin R) :
    0 ≤ klSel id id p q r := C13_kl_nonneg_sel id id p q hp hq r

/-- … `q` has one component, broadcast over the batch of `p` -/
theorem C13_kl_nonneg_bcast_q (p : PdfV R D ℝ) (q : PdfV 1 D ℝ) (hp : PdfOK p) (hq : PdfOK q)
    (r : Fin R) : 0 ≤ klSel id (fun _ => (0 : Fin 1)) p q r := C13_kl_nonneg_sel _ _ p q hp hq r

/-- … `p` has one component, broadcast over the batch of `q` -/
theorem C13_kl_nonneg_bcast_p (p : PdfV 1 D ℝ) (q : PdfV R D ℝ) (hp : PdfOK p) (hq : PdfOK q)
    (r : Fin R) : 0 ≤ klSel (fun _ => (0 : Fin 1)) id p q r := C13_kl_nonneg_sel _ _ p q hp hq r

/-- **C13** the divergence vanishes exactly when mean and covariance agree — equal batch sizes -/
theorem C13_kl_eq_zero_iff (p q : PdfV R D ℝ) (hp : PdfOK p) (hq : PdfOK q) (r : Fin R) :
    klSel id id p q r = 0 ↔ p.mu r = q.mu r ∧ p.Sigma r = q.Sigma r :=
  C13_kl_eq_zero_iff_sel id id p q hp hq r

theorem C13_kl_eq_zero_iff_bcast_q (p : PdfV R D ℝ) (q : PdfV 1 D ℝ) (hp : PdfOK p) (hq : PdfOK q)
    (r : Fin R) :
    klSel id (fun _ => (0 : Fin 1)) p q r = 0 ↔ p.mu r = q.mu 0 ∧ p.Sigma r = q.Sigma 0 :=
  C13_kl_eq_zero_iff_sel _ _ p q hp hq r

theorem C13_kl_eq_zero_iff_bcast_p (p : PdfV 1 D ℝ) (q : PdfV R D ℝ) (hp : PdfOK p) (hq : PdfOK q)
    (r : Fin R) :
    klSel (fun _ => (0 : Fin 1)) id p q r = 0 ↔ p.mu 0 = q.mu r ∧ p.Sigma 0 = q.Sigma r :=
  C13_kl_eq_zero_iff_sel _ _ p q hp hq r

/-- **C13** `p.kl_divergence(p) = 0` -/
theorem C13_kl_self (p : PdfV R D ℝ) (hp : PdfOK p) (r : Fin R) : klSel id id p p r = 0 :=
  C13_kl_self_sel id p hp r

/-- a one-component density against its own broadcast copy (`R` identical components) -/
theorem C13_kl_self_bcast (p : PdfV 1 D ℝ) (hp : PdfOK p) (r : Fin R) :
    klSel (fun _ : Fin R => (0 : Fin 1)) (fun _ => (0 : Fin 1)) p p r = 0 :=
  C13_kl_self_sel _ p hp r

/-! ## 3: entropy -/

/-- **C13** `entropy()` is `½ (D (1 + log 2π) + log det Σ)`. -/
theorem C13_entropy_formula (p : PdfV R D ℝ) (hp : PdfOK p) (r : Fin R) :
    p.entropy r =
      1 / 2 * ((D : ℝ) * (1 + Real.log (2 * Real.pi)) + Real.log (toM (p.Sigma r)).det) := by
  simp only [PdfV.entropy, tab_apply, half_real, ofNat_real, log2pi_real, hp.lnDet]

/-- **C13** `entropy = −ln N(μ; μ, Σ) + D/2`: together with `E[(x−μ)ᵀΛ(x−μ)] = D` this is
`−E[ln p]` (only the algebraic identity is stated). -/
theorem C13_entropy_eq_neg_expected_log_at_mean_form (p : PdfV R D ℝ) (hp : PdfOK p) (r : Fin R) :
    p.entropy r =
      -normalLn (toV (p.mu r)) (toM (p.Sigma r))⁻¹ (Real.log (toM (p.Sigma r)).det) (toV (p.mu r))
        + (D : ℝ) / 2 := by
  rw [C13_entropy_formula p hp r]
  simp only [normalLn, sub_self, Matrix.mulVec_zero, dotProduct_zero]
  ring

/-- the same identity for an arbitrary point: `−ln N(y; μ, Σ) = entropy − D/2 + ½ (y−μ)ᵀΛ(y−μ)` -/
theorem C13_neg_log_density_eq (p : PdfV R D ℝ) (hp : PdfOK p) (r : Fin R) (y : Fin D → ℝ) :
    -normalLn (toV (p.mu r)) (toM (p.Sigma r))⁻¹ (Real.log (toM (p.Sigma r)).det) y =
      p.entropy r - (D : ℝ) / 2
        + 1 / 2 * ((y - toV (p.mu r)) ⬝ᵥ (toM (p.Sigma r))⁻¹ *ᵥ (y - toV (p.mu r))) := by
  rw [C13_entropy_formula p hp r]
  simp only [normalLn]
  ring

/-! ## 4: conditional entropy -/

variable {be : Backend ℝ} (hbe : be.Spec)
include hbe

/-- the `ln_det_Sigma` that `affine_joint_transformation` hands to the joint density is
`log det Σx + log det Σ_c`, in **both** branches of `if Dy < Dx`. -/
theorem affineJoint_lnDet (c : CondB Rc Dy Dx ℝ) (hc : C10.CondOK c) (p : PdfV Rx Dx ℝ) (hp : PdfOK p) :
    ∃ j : PdfV (Rc * Rx) (Dx + Dy) ℝ, (c.affineJoint be p).asPdf = some j ∧
      ∀ k, j.lnDetSigma k =
        Real.log (toM (p.Sigma (unflatR k))).det + Real.log (toM (c.Sigma (unflatL k))).det := by
  simp only [CondB.affineJoint]
  refine Exists.imp (fun j hj => ⟨hj.1, ?_⟩) (mkPdf_asPdf (be := be) false _ _ _ _)
  intro k
  rw [hj.2.2.2.1]
  simp only [pdfPrecision, tab_apply]
  have hSx := hp.posDef (unflatR k)
  have hSc := hc.posDef (unflatL k)
  have hLcsym : (toM (c.Lambda (unflatL k)))ᵀ = toM (c.Lambda (unflatL k)) := by
    rw [hc.lambda, ← Matrix.conjTranspose_eq_transpose_of_trivial]; exact hSc.inv.isHermitian
  split
  · -- `Dy < Dx`: Schur complement of `Σx` in the joint covariance
    have key : toM (msub (madd (c.Sigma (unflatL k))
          (mmul (mmul (c.M (unflatL k)) (p.Sigma (unflatR k))) (transpose (c.M (unflatL k)))))
        (mmul (mmul (mmul (c.M (unflatL k)) (p.Sigma (unflatR k))) (p.Lambda (unflatR k)))
          (transpose (mmul (c.M (unflatL k)) (p.Sigma (unflatR k)))))) = toM (c.Sigma (unflatL k)) := by
      simp only [toM_msub, toM_madd, toM_mmul, toM_transpose, Matrix.transpose_mul, hp.sigma_symm]
      rw [Matrix.mul_assoc (toM (c.M (unflatL k))) (toM (p.Sigma (unflatR k))) (toM (p.Lambda (unflatR k))),
        hp.sigma_mul_lambda, Matrix.mul_one, ← Matrix.mul_assoc, add_sub_cancel_right]
    rw [hbe.slogdet, key, abs_of_pos hSc.det_pos, hp.lnDet]
  · -- `Dx ≤ Dy`: Schur complement of `Λ_c` in the joint precision
    have key : toM (msub (madd (p.Lambda (unflatR k))
          (mmul (transpose (c.M (unflatL k))) (mmul (transpose (c.Lambda (unflatL k))) (c.M (unflatL k)))))
        (mmul (transpose (mneg (mmul (transpose (c.Lambda (unflatL k))) (c.M (unflatL k)))))
          (mmul (c.Sigma (unflatL k)) (mneg (mmul (transpose (c.Lambda (unflatL k))) (c.M (unflatL k)))))))
        = toM (p.Lambda (unflatR k)) := by
      simp only [toM_msub, toM_madd, toM_mmul, toM_transpose, toM_mneg, Matrix.transpose_mul,
        Matrix.transpose_neg, hLcsym, Matrix.neg_mul, Matrix.mul_neg, neg_neg]
      have hSL : toM (c.Sigma (unflatL k)) * toM (c.Lambda (unflatL k)) = 1 := by
        rw [hc.lambda, Matrix.mul_nonsing_inv _ hSc.det_pos.ne'.isUnit]
      rw [← Matrix.mul_assoc (toM (c.Sigma (unflatL k))), hSL, Matrix.one_mul, Matrix.mul_assoc,
        add_sub_cancel_right]
    rw [hbe.slogdet, key, hc.lnDet, hp.lambda, Matrix.det_nonsing_inv, Ring.inverse_eq_inv',
      abs_of_pos (inv_pos.2 hSx.det_pos), Real.log_inv]
    ring

/-- **C13** `conditional_entropy(p_x)` returns the entropy of the noise `N(0, Σ_c)` of the
conditional: `H(Y|X) = ½ (Dy (1 + log 2π) + log det Σ_c)`; component `k` pairs conditional
`k / Rx` with marginal `k % Rx`. -/
theorem C13_conditional_entropy (c : CondB Rc Dy Dx ℝ) (hc : C10.CondOK c) (p : PdfV Rx Dx ℝ)
    (hp : PdfOK p) :
    ∃ h, c.conditionalEntropy be p = some h ∧
      ∀ k, h k = 1 / 2 * ((Dy : ℝ) * (1 + Real.log (2 * Real.pi))
        + Real.log (toM (c.Sigma (unflatL k))).det) := by
  obtain ⟨j, hj, hld⟩ := affineJoint_lnDet hbe c hc p hp
  refine ⟨tab fun k => j.entropy k - p.entropy (unflatR k),
    by simp only [CondB.conditionalEntropy, hj], ?_⟩
  intro k
  simp only [tab_apply, PdfV.entropy, half_real, ofNat_real, log2pi_real, hld, hp.lnDet]
  push_cast
  ring

/-! ## 5: mutual information -/

omit hbe in
/-- the covariance of `y` is positive definite -/
theorem marginalCov_posDef (c : CondB Rc Dy Dx ℝ) (hc : C10.CondOK c) (p : PdfV Rx Dx ℝ) (hp : PdfOK p)
    (k : Fin (Rc * Rx)) :
    (toM (c.Sigma (unflatL k)) + toM (c.M (unflatL k)) * toM (p.Sigma (unflatR k))
      * (toM (c.M (unflatL k)))ᵀ).PosDef := by
  refine (hc.posDef _).add_posSemidef ?_
  have := (hp.posDef (unflatR k)).posSemidef.mul_mul_conjTranspose_same (toM (c.M (unflatL k)))
  rwa [Matrix.conjTranspose_eq_transpose_of_trivial] at this

/-- the view of `affine_marginal_transformation`: `N(M μx + b, Σ_c + M Σx Mᵀ)` with the matching
log-determinant -/
theorem affineMarginal_asPdf (c : CondB Rc Dy Dx ℝ) (hc : C10.CondOK c) (p : PdfV Rx Dx ℝ) (hp : PdfOK p) :
    ∃ j : PdfV (Rc * Rx) Dy ℝ, (c.affineMarginal be p).asPdf = some j ∧
      ∀ k, j.lnDetSigma k = Real.log (toM (c.Sigma (unflatL k))
        + toM (c.M (unflatL k)) * toM (p.Sigma (unflatR k)) * (toM (c.M (unflatL k)))ᵀ).det := by
  simp only [CondB.affineMarginal]
  refine Exists.imp (fun j hj => ⟨hj.1, ?_⟩) (mkPdf_asPdf (be := be) false _ _ _ _)
  intro k
  rw [hj.2.2.2.1]
  simp only [pdfPrecision]
  rw [(invertBatch_spec hbe false _ (fun r => ?_) (by simp) k).2]
  · simp only [tab_apply, toM_madd, toM_mmul, toM_transpose]
  · simp only [tab_apply, toM_madd, toM_mmul, toM_transpose]
    exact marginalCov_posDef c hc p hp r

/-- **C13** `mutual_information(p_x) = H(Y) − H(Y|X) = ½ (log det (Σ_c + M Σx Mᵀ) − log det Σ_c)`. -/
theorem C13_mutual_information (c : CondB Rc Dy Dx ℝ) (hc : C10.CondOK c) (p : PdfV Rx Dx ℝ)
    (hp : PdfOK p) :
    ∃ i, c.mutualInformation be p = some i ∧
      ∀ k, i k = 1 / 2 * (Real.log (toM (c.Sigma (unflatL k))
          + toM (c.M (unflatL k)) * toM (p.Sigma (unflatR k)) * (toM (c.M (unflatL k)))ᵀ).det
        - Real.log (toM (c.Sigma (unflatL k))).det) := by
  obtain ⟨h, hh, hhv⟩ := C13_conditional_entropy hbe c hc p hp
  obtain ⟨j, hj, hld⟩ := affineMarginal_asPdf hbe c hc p hp
  refine ⟨tab fun k => j.entropy k - h k, by simp only [CondB.mutualInformation, hh, hj], ?_⟩
  intro k
  simp only [tab_apply, PdfV.entropy, half_real, ofNat_real, log2pi_real, hld, hhv]
  ring

/-- **C13** the mutual information is non-negative (`det Σ_c ≤ det (Σ_c + M Σx Mᵀ)`). -/
theorem C13_mi_nonneg (c : CondB Rc Dy Dx ℝ) (hc : C10.CondOK c) (p : PdfV Rx Dx ℝ) (hp : PdfOK p)
    (i : Arr (Rc * Rx) ℝ) (hi : c.mutualInformation be p = some i) (k : Fin (Rc * Rx)) : 0 ≤ i k := by
  obtain ⟨i', hi', hv⟩ := C13_mutual_information hbe c hc p hp
  rw [hi] at hi'
  cases hi'
  rw [hv k]
  have hQ : (toM (c.M (unflatL k)) * toM (p.Sigma (unflatR k)) * (toM (c.M (unflatL k)))ᵀ).PosSemidef := by
    have := (hp.posDef (unflatR k)).posSemidef.mul_mul_conjTranspose_same (toM (c.M (unflatL k)))
    rwa [Matrix.conjTranspose_eq_transpose_of_trivial] at this
  have := Math.log_det_le_log_det_add _ _ (hc.posDef (unflatL k)) hQ
  linarith

/-- **C13** no dependence on `x` (`M = 0`) gives zero mutual information. -/
theorem C13_mi_zero_of_M_zero (c : CondB Rc Dy Dx ℝ) (hc : C10.CondOK c) (p : PdfV Rx Dx ℝ)
    (hp : PdfOK p) (i : Arr (Rc * Rx) ℝ) (hi : c.mutualInformation be p = some i) (k : Fin (Rc * Rx))
    (hM : toM (c.M (unflatL k)) = 0) : i k = 0 := by
  obtain ⟨i', hi', hv⟩ := C13_mutual_information hbe c hc p hp
  rw [hi] at hi'
  cases hi'
  rw [hv k, hM]
  simp

/-- `H(Y) = H(Y|X) + I(X;Y)`: the three reported quantities are consistent -/
theorem C13_mi_add_conditional_entropy (c : CondB Rc Dy Dx ℝ) (hc : C10.CondOK c) (p : PdfV Rx Dx ℝ)
    (hp : PdfOK p) (i h : Arr (Rc * Rx) ℝ) (hi : c.mutualInformation be p = some i)
    (hh : c.conditionalEntropy be p = some h) (k : Fin (Rc * Rx)) :
    i k + h k = 1 / 2 * ((Dy : ℝ) * (1 + Real.log (2 * Real.pi))
      + Real.log (toM (c.Sigma (unflatL k))
          + toM (c.M (unflatL k)) * toM (p.Sigma (unflatR k)) * (toM (c.M (unflatL k)))ᵀ).det) := by
  obtain ⟨i', hi', hv⟩ := C13_mutual_information hbe c hc p hp
  obtain ⟨h', hh', hhv⟩ := C13_conditional_entropy hbe c hc p hp
  rw [hi] at hi'; rw [hh] at hh'
  cases hi'; cases hh'
  rw [hv k, hhv k]
  ring

/-! ## non-vacuity -/

omit hbe in
/-- the standard-covariance density view `N(mu, I)` (any dimension) -/
theorem stdPdf_ok (mu : Vec D ℝ) :
    PdfOK (⟨false, tab fun _ => eye, tab fun _ => mu, tab fun _ => 0, tab fun _ => eye, tab fun _ => 0,
      tab fun _ => mu, tab fun _ => 0⟩ : PdfV 1 D ℝ) :=
  ⟨fun r => by simpa using Matrix.PosDef.one, fun r => by simp, fun r => by simp⟩

omit hbe in
/-- the hypotheses are satisfiable and the statements have content: for `x ~ N(0, I₂)`,
`y | x ~ N(x₀ + x₁, 1)` the reported mutual information is `½ log 3 > 0`, and the KL divergence
between `N(0, I₂)` and `N((1,0), I₂)` is non-zero. -/
example : ∃ (be : Backend ℝ) (c : CondB 1 1 2 ℝ) (p q : PdfV 1 2 ℝ) (i : Arr (1 * 1) ℝ),
    be.Spec ∧ C10.CondOK c ∧ PdfOK p ∧ PdfOK q ∧ c.mutualInformation be p = some i ∧
      i ⟨0, by norm_num⟩ = 1 / 2 * Real.log 3 ∧ klSel id id p q 0 ≠ 0 := by
  let c : CondB 1 1 2 ℝ := ⟨false, tab fun _ => ofM !![1, 1], tab fun _ => zeroV, tab fun _ => eye,
    tab fun _ => eye, tab fun _ => 0⟩
  let p : PdfV 1 2 ℝ := ⟨false, tab fun _ => eye, tab fun _ => zeroV, tab fun _ => 0, tab fun _ => eye,
    tab fun _ => 0, tab fun _ => zeroV, tab fun _ => 0⟩
  let q : PdfV 1 2 ℝ := ⟨false, tab fun _ => eye, tab fun _ => ofV ![1, 0], tab fun _ => 0,
    tab fun _ => eye, tab fun _ => 0, tab fun _ => ofV ![1, 0], tab fun _ => 0⟩
  have hc : C10.CondOK c :=
    ⟨fun r => by simpa [c] using Matrix.PosDef.one, fun r => by simp [c], fun r => by simp [c]⟩
  have hp : PdfOK p := stdPdf_ok _
  have hq : PdfOK q := stdPdf_ok _
  obtain ⟨i, hi, hv⟩ := C13_mutual_information Backend.sat_spec c hc p hp
  refine ⟨Backend.sat, c, p, q, i, Backend.sat_spec, hc, hp, hq, hi, ?_, ?_⟩
  · rw [hv]
    simp [c, p, Matrix.vecMul, dotProduct, Fin.sum_univ_two]
    norm_num
  · rw [Ne, C13_kl_eq_zero_iff p q hp hq 0]
    intro h
    have := congrArg (fun v => toV v 0) h.1
    simp [p, q, ofV] at this

end GT.Props.C13

#print axioms GT.Props.C13.C13_kl_eq
#print axioms GT.Props.C13.C13_kl_nonneg
#print axioms GT.Props.C13.C13_kl_nonneg_bcast_q
#print axioms GT.Props.C13.C13_kl_nonneg_bcast_p
#print axioms GT.Props.C13.C13_kl_eq_zero_iff
#print axioms GT.Props.C13.C13_kl_self
#print axioms GT.Props.C13.C13_entropy_formula
#print axioms GT.Props.C13.C13_entropy_eq_neg_expected_log_at_mean_form
#print axioms GT.Props.C13.C13_conditional_entropy
#print axioms GT.Props.C13.C13_mutual_information
#print axioms GT.Props.C13.C13_mi_nonneg
#print axioms GT.Props.C13.C13_mi_zero_of_M_zero
#print axioms GT.Props.C13.C13_mi_add_conditional_entropy
