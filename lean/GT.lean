-- This module serves as the root of the `GT` library.
-- Import modules here that should be built as part of the library.
import GT.Basic
