import Lean
/-!
Audit of one property module: lists every theorem declared in the module with the axioms its
proof depends on (`Lean.CollectAxioms`).  Run with
`lake env lean --run scripts/Audit.lean GT.Props.C01`.
Output: one line per theorem, `thm <name> | <axiom> <axiom> …`, then `done <count>`.
-/
open Lean

unsafe def main (args : List String) : IO UInt32 := do
  let some modStr := args.head? | do IO.eprintln "usage: Audit <module>"; return 2
  let modName := modStr.toName
  initSearchPath (← findSysroot)
  unsafe enableInitializersExecution
  let env ← importModules #[{ module := modName }] {} (trustLevel := 1024) (loadExts := true)
  let some idx := env.getModuleIdx? modName | do IO.eprintln "module not found"; return 2
  let mut n := 0
  let names := env.constants.fold (init := #[]) fun acc name ci =>
    match ci with
    | .thmInfo _ => if env.getModuleIdxFor? name == some idx then acc.push name else acc
    | _ => acc
  let names := names.qsort (fun a b => a.toString < b.toString)
  for name in names do
    if name.isInternal then continue
    let (axs0, _) ← (collectAxioms name : CoreM (Array Name)).toIO
      { fileName := "<audit>", fileMap := default } { env := env }
    let axs := axs0.qsort (fun a b => a.toString < b.toString)
    IO.println s!"thm {name} | {" ".intercalate (axs.toList.map toString)}"
    n := n + 1
  IO.println s!"done {n}"
  return 0
