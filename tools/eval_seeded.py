#!/usr/bin/env python3
"""Runs the registered quick checks against every seeded change under /verif/seeded/<id>/ and records in
meta.json which checks catch it.  Development tool (not a registered command): it applies each patch to
/repo (git apply), runs the checks, and ALWAYS restores /repo (git checkout -- .)."""
import json, os, subprocess, sys, glob, re

VERIF = os.path.dirname(os.path.dirname(os.path.abspath(__file__)))
REPO = "/repo"

# which checks to run per primary property (primary first)
RELATED = {
    "C01": ["C01", "C12"], "C02": ["C02"], "C03": ["C03"], "C04": ["C04", "C15"], "C05": ["C05"], "C06": ["C06"],
    "C07": ["C07", "C02"], "C08": ["C08", "C12"], "C09": ["C09", "C15"], "C10": ["C10", "C12"], "C11": ["C11", "C09", "C07"],
    "C12": ["C12", "C04"], "C13": ["C13"], "C14": ["C14"], "C15": ["C15"], "C16": ["C16", "C14"], "C17": ["C17", "C16"],
    "C18": ["C18"], "C19": ["C19"], "C20": ["C20"],
}


def sh(cmd, cwd=None):
    env = dict(os.environ, GT_EVIDENCE_DIR=os.path.join(VERIF, "work", "evidence_scratch"))   # never overwrite the committed evidence
    return subprocess.run(cmd, cwd=cwd, capture_output=True, text=True, env=env)


def main(argv):
    only = set(argv)
    if sh(["git", "diff", "--quiet"], cwd=REPO).returncode != 0:
        print("/repo has uncommitted changes; refusing"); return 2
    head = sh(["git", "rev-parse", "--short", "HEAD"], cwd=REPO).stdout.strip()
    for d in sorted(glob.glob(os.path.join(VERIF, "seeded", "*"))):
        sid = os.path.basename(d)
        if only and sid not in only:
            continue
        patch = os.path.join(d, "patch.diff")
        if not os.path.exists(patch):
            continue
        conf = json.load(open(os.path.join(d, "confirm.json"))) if os.path.exists(os.path.join(d, "confirm.json")) else {}
        prop = conf.get("property", sid.split("-")[0])
        notes = open(os.path.join(d, "notes.txt")).read() if os.path.exists(os.path.join(d, "notes.txt")) else ""
        r = sh(["git", "apply", patch], cwd=REPO)
        if r.returncode != 0:
            print(sid, "patch does not apply to", head, r.stderr[:200])
            meta = dict(id=sid, property=prop, error=f"patch does not apply to /repo at {head}")
            json.dump(meta, open(os.path.join(d, "meta.json"), "w"), indent=1)
            continue
        results = {}
        try:
            for p in RELATED.get(prop, [prop]):
                if not os.path.exists(os.path.join(VERIF, "harness", "props", f"{p}.py")):
                    continue
                c = sh(["./check", p, "--tier", "quick"], cwd=VERIF)
                viol = [l for l in c.stdout.split("\n") if l.startswith("VIOLATION")]
                summ = [l for l in c.stdout.split("\n") if "seed=" in l]
                results[p] = dict(exit=c.returncode, violations=len(viol), no_failing_input=sum("no-failing-input-found" in l for l in viol),
                                  summary=summ[-1] if summ else c.stdout[-300:])
        finally:
            sh(["git", "checkout", "--", "."], cwd=REPO)
            sh(["/venv/bin/python", "harness/translate_classes.py"], cwd=VERIF)   # the generated class table follows /repo again
        detected = [p for p, v in results.items() if v["exit"] == 1 and v["violations"] > 0]
        meta = dict(
            id=sid, property=prop,
            breaks="see notes.txt (written by the sub-agent that produced the change)",
            needs_to_manifest=notes.strip()[:1500],
            confirmed_in_scratch_worktree=dict(demo_exit_clean=conf.get("demo_exit_clean"), demo_exit_mutated=conf.get("demo_exit_mutated"),
                                               existing_tests_exit_mutated=conf.get("pytest_exit_mutated"), tests_run=conf.get("tests_run")),
            what_i_ran=f"tools/confirm_mutation.sh (demo clean/mutated + pytest with the change) and tools/eval_seeded.py "
                       f"(git -C /repo apply patch.diff; ./check <P> --tier quick; git -C /repo checkout -- .) at /repo {head}",
            checks=results, detected_by=detected, detected=bool(detected),
        )
        json.dump(meta, open(os.path.join(d, "meta.json"), "w"), indent=1)
        print(sid, "detected by", detected, {p: v["exit"] for p, v in results.items()})
    return 0


if __name__ == "__main__":
    sys.exit(main(sys.argv[1:]))
