#!/bin/sh
# usage: confirm_mutation.sh <worktree> <m-dir> <seed-id> <property> "<test files>"
# Confirms a seeded change in its scratch worktree (demo passes clean / fails mutated, existing tests pass mutated)
# and stores it under /verif/seeded/<seed-id>/.
wt="$1"; md="$2"; sid="$3"; prop="$4"; tests="$5"
out=/verif/seeded/$sid
mkdir -p "$out"
cd "$wt" || exit 2
git checkout -q -- . 
export PYTHONDONTWRITEBYTECODE=1
/venv/bin/python "$md/demo.py" > "$out/demo_clean.log" 2>&1; c1=$?
git apply "$md/patch.diff" || { echo "apply failed" > "$out/ERROR"; exit 2; }
/venv/bin/python "$md/demo.py" > "$out/demo_mutated.log" 2>&1; c2=$?
/venv/bin/python -m pytest -q -p no:cacheprovider $tests > "$out/tests_mutated.log" 2>&1; c3=$?
git checkout -q -- .
cp "$md/patch.diff" "$out/patch.diff"; cp "$md/demo.py" "$out/demo.py"; cp "$md/notes.txt" "$out/notes.txt" 2>/dev/null
tail -1 "$out/tests_mutated.log" > "$out/tests_summary.txt"
cat > "$out/confirm.json" <<EOJ
{"seed_id": "$sid", "property": "$prop", "demo_exit_clean": $c1, "demo_exit_mutated": $c2, "pytest_exit_mutated": $c3, "tests_run": "$tests"}
EOJ
echo "$sid demo_clean=$c1 demo_mut=$c2 pytest=$c3"
