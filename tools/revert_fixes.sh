#!/bin/sh
# Development tool (not a registered command): re-introduce each repaired defect by reverse-applying its "fix:" commit to
# /repo's working tree, run the check of the property it was filed under, ALWAYS restore /repo.  A fixed entry of
# known_findings.json suppresses nothing, so every revert must be reported as a VIOLATION (not as a KNOWN-FINDING).
cd /verif || exit 2
if ! git -C /repo diff --quiet; then echo "/repo has uncommitted changes; refusing"; exit 2; fi
mkdir -p work/revert
for c in 43adc19:C12 5f1dc9d:C13 b726e89:C10 cf3fa3b:C07 43f1677:C18 88b711c:C18 40639b7:C20 8a32cfd:C20 8314672:C20 f40623b:C18 a0dce47:C12 2654f36:C18 3263fbe:C18; do
  h=${c%%:*}; p=${c##*:}
  git -C /repo show "$h" --format= > work/revert/$h.diff
  if ! (cd /repo && git apply -R --check /verif/work/revert/$h.diff 2>/dev/null); then echo "$h does not reverse-apply cleanly (later fixes touch the same lines)"; continue; fi
  (cd /repo && git apply -R /verif/work/revert/$h.diff)
  out=$(GT_EVIDENCE_DIR=/verif/work/evidence_scratch ./check "$p" 2>&1); code=$?
  echo "revert $h -> $p exit=$code violations=$(echo "$out" | grep -c '^VIOLATION')"
  git -C /repo checkout -- .
done
/venv/bin/python harness/translate_classes.py >/dev/null 2>&1
