#!/bin/sh
# usage: tools/try_mutation.sh <patch.diff> <prop> [<prop> ...]   (development helper, not a registered command)
# applies the patch to /repo, runs the quick checks, and ALWAYS restores /repo.
patch="$1"; shift
cd /repo || exit 2
if ! git diff --quiet; then echo "/repo has uncommitted changes; refusing"; exit 2; fi
git apply "$patch" || { echo "patch does not apply"; exit 2; }
for p in "$@"; do
  out=$(cd /verif && GT_EVIDENCE_DIR=/verif/work/evidence_scratch ./check "$p" --tier quick 2>&1)
  code=$?
  echo "== $p exit=$code"
  echo "   violations=$(echo "$out" | grep -c '^VIOLATION') no-failing-input=$(echo "$out" | grep -c 'no-failing-input-found')"
  echo "$out" | grep -E "^VIOLATION|INFRA" | cut -c1-200 | head -3
  echo "$out" | grep -E "seed=" | cut -c1-220 | tail -1
done
git -C /repo checkout -- .
(cd /verif && /venv/bin/python harness/translate_classes.py >/dev/null 2>&1)   # the generated class table follows /repo again
git -C /repo status --short | head -3
