#!/usr/bin/env python3
"""Writes /verif/MANIFEST.json from the table below (one entry per claimed property)."""
import json, os

HERE = os.path.dirname(os.path.abspath(__file__))
VERIF = os.path.dirname(HERE)

TECH = "Lean 4 theorems about an executable model + differential correspondence of model and implementation"
NOTE = ("trusted: Lean 4.33 kernel, Mathlib v4.33, axioms propext/Classical.choice/Quot.sound only (audited per run); "
        "hypothesis Backend.Spec for JAX/LAPACK primitives (shown satisfiable: GT.exists_backend_spec); fidelity of the "
        "hand-written model lean/GT/Model/* is checked by sampling (correspondence run on every check); float64 rounding is "
        "outside the theorems (compared at rel. 1e-8 on inputs with condition number <= 1e4); harness/*.py and NumPy/SciPy oracles")

P = {
 "C01": ("GT.Props.C01: C01_multiply / C01_multiply_layout (component i*R2+j) / C01_hadamard, _bcast_factor, _bcast_measure / "
         "C01_factor_product / C01_measure_product prove for ALL R1,R2,D, all real parameters, every factor kind, both update_full "
         "values and every cache state that the product evaluates (log domain) to u_i(x)+f_j(x); operand immutability is observed by "
         "the correspondence run (register dumps before/after).", "§5 C01"),
 "C02": ("GT.Props.C02: C02_log_integral, C02_log_integral_light, C02_integral(_light): the reported (log-)mass equals the Lebesgue "
         "integral over Fin D → ℝ of exp(evaluate_ln) (M1: GT.Math.gaussian_integral_posDef) for every consistent measure; C02_normalize; "
         "C02_density_integrates_to_one for every constructor argument combination (PdfArgsOK) and class; C02_get_density. Densities "
         "returned by other APIs are covered through mkPdf (C05, C07, C08, C10 conditionOnX).", "§5 C02"),
 "C03": ("GT.Props.C03 (algebraic layer: all 12 keys equal contractions of Wick polynomials wick2/3/4, all sizes, shared/per-component/"
         "default coefficients) and GT.Props.C03Integral (analytic layer: C03_mass … C03_quartic_outer: every entry equals the Lebesgue "
         "integral of the polynomial expression times the evaluated function; GT.Math.Moments: mgf, moments 1–4, Isserlis-3/4).", "§5 C03"),
 "C04": ("GT.Props.C04: invariant MeasureB.Inv (Σ=Λ⁻¹, ln det Σ = log det Σ = −log det Λ, μ=Σν, lnZ Gaussian) preserved by every product path "
         "(full inversion, Sherman–Morrison + determinant lemma via GT.Math.RankOne, covariance reuse), queries, normalize, get_density, the "
         "density constructor; C04_reachable by induction over an inductive Reachable (all history lengths); C04_query_independence(_mass). "
         "GT.Props.C04Ext: C04X_reachable over ReachableX (26 constructors: the former plus slice with arbitrary — repeated, wrapped negative — index "
         "arrays, product(), in-place update, get_marginal, linear sums, condition_on(+_explicit)+condition_on_x, the three affine transformations "
         "of all conditional classes) — every object any such history produces satisfies the invariant; query independence across slice, "
         "product and update (C04X_*_query_independence); C04X_slice_returns, C04X_density_view (the Option hypotheses never restrict a history).", "§5 C04"),
 "C05": ("GT.Props.C05: C05_marginal_evalLn / _params / _perm (any index order), C05_linear_sum_evalLn(_of_fullRank), "
         "C05_marginal_density_integral (marginal density = integral of the joint over the dropped coordinates).", "§5 C05"),
 "C06": ("GT.Props.C06: C06_cond_params, C06_product_rule(_model): p(x_a|x_b)p(x_b)=p(x) for every index partition given as an "
         "equivalence, C06_condition_on_product_rule, complDims sorted/nodup/membership, C06_explicit_row_order.", "§5 C06"),
 "C07": ("GT.Props.C07: C07_chain_rule (both branches of the Dx>Dy log-determinant computation, every batch regime by the layout "
         "k ↦ (k/Rx, k%Rx)), C07_joint_params, C07_joint_inv, identity-mean class C07_chain_rule_id.", "§5 C07"),
 "C08": ("GT.Props.C08: C08_marginal_evalLn, C08_is_marginal_of_joint (as objects), identity class.", "§5 C08"),
 "C09": ("GT.Props.C09: C09_posterior_params, C09_bayes(_model): p(x|y)p(y)=p(y|x)p(x) pointwise, C09_round_trip(_model). GT.Props.C09Id: the same for the identity-mean classes (C09Id_posterior_params, C09Id_bayes(_model), C09Id_round_trip(_model)), both full and diagonal, all batch regimes.", "§5 C09"),
 "C10": ("GT.Props.C10: C10_set_y_offset proves for ALL inputs that set_y(y)(x) = cond(x)(y) + (Dy−Dx)/2·log 2π — the pinned code's exact "
         "behaviour (known finding set_y-normaliser-uses-Dx); C10_set_y_partial (Dx=Dy: the property), C10_counterexample (negation of the "
         "full statement). The check reports KNOWN-FINDING for deviations matching exactly that offset and VIOLATION for any other.", "§5 C10"),
 "C11": ("GT.Props.C11: C11_likelihood_product, C11_order_independent, C11_sequential_eq_batch, C11_posterior_normalized, "
         "C11_evidence_offset (evidence through likelihood factors = true log marginal likelihood + N(Dy−Dx)/2·log 2π, the propagated known "
         "finding), C11_evidence_partial (Dx=Dy). Workflows incl. Kalman filtering are run against a dense NumPy joint.", "§5 C11"),
 "C12": ("GT.Props.C12: naturality of every modelled operation in the batch index: productSel_reindex_out/in, C12_multiply_slice "
         "(layout i*R2+j), C12_hadamard*_slice, mkPdf_reindex, C12_condition_on_x (r*N+n), C12_affine_joint/marginal/conditional, "
         "C12_set_y_*, slices with repeated / wrapped negative indices (takeIdx), C12_kl, C12_entropy, …. GT.Props.C12Ext: the 12 polynomial integrals (per-component coefficients included), integrate_log_factor / _log_conditional / _log_conditional_y, update (untouched / addressed components), condition_on(_explicit), conditional entropy and mutual information with a batch on either side, and the feature / heteroscedastic transformations in the batch of p(x) (C12_feat_*, C12_hetero_*).", "§5 C12"),
 "C13": ("GT.Props.C13: C13_kl_eq (= GT.Math.klGauss), C13_kl_nonneg, C13_kl_eq_zero_iff (all broadcast patterns), entropy formula, "
         "C13_conditional_entropy, C13_mutual_information, C13_mi_nonneg, C13_mi_zero_of_M_zero, C13_mi_add_conditional_entropy. GT.Props.C13Id: conditional entropy and mutual information of the identity-mean classes (C13Id_*), and symmetry of I under the conditional transformation for both families and all batch regimes (C13_mi_symm, C13Id_mi_symm).", "§5 C13"),
 "C14": ("GT.Props.C14: C14_log_factor (all four factor classes, batch 1 or R), C14_log_conditional, C14_log_conditional_y as Lebesgue "
         "integrals (mass-one hypothesis explicit, offset versions without it). GT.Props.C14Feature: the feature-model clause — C14F_log_conditional_y, "
         "C14F_log_conditional (px = None), _px (px the x-marginal), _px_offset (exact value for any other px), _px_marginal, _iterated, for both "
         "kernels and all sizes.", "§5 C14"),
 "C15": ("GT.Props.C15: specialised = general: diagonal inversion, diagonal measures/densities/conditionals, factor kinds vs the general "
         "factor on the same (Λ,ν,β), identity-mean classes vs toCond, NN-control = set_control_variable + general operation.", "§5 C15"),
 "C16": ("GT.Props.C16 + GT.Props.C16Trunc (feature models and all four heteroscedastic links, any number R of components of p(x)): kernels are the documented unit-height bumps "
         "(C16_rbf_kernel, C16_lsem_kernel, C16_unit_height_*), read-out and condition_on_x density (C16_readout, C16_condition_on_x), kernel "
         "expectations = Lebesgue integrals of product measures (C16_E_k, C16_E_xk, C16_E_kk), moment matching by the tower rule (C16_mean, C16_cov, "
         "C16_cross, C16_tower_iterated), C16_marginal_params, C16_joint_params, C16_conditional_is_condition_on_joint; C16_hetero_mean/cross/cov and C16_hetero_{marginal,joint,"
         "conditional}_params for every link whose expected noise is the expected link value (NoiseOK): noiseOK_exp, noiseOK_cosh, and — through the "
         "push-forward of p(x) to h = w'x + w0 (gaussProb_map_affine, by mgf uniqueness) and C20's truncated moments — noiseOK_heaviside, noiseOK_relu "
         "(non-zero input weights; zero weights are the known finding hetero-trunc-degenerate). GT.Props.C16Joint states the property at face value: "
         "q_r(x,y) = p(y|x) p_r(x) is a probability density on R^(Dx+Dy) and the mu / Sigma of affine_marginal_transformation and of "
         "affine_joint_transformation are the mean vector and covariance matrix of q_r (C16J_marginal_mean/_cov, C16J_joint_mean/_cov; "
         "C16J_exp, C16J_coshM1, C16J_heaviside, C16J_relu; Tonelli/Fubini proved, heteroscedastic case under the decoupling hypothesis).", "§5 C16"),
 "C17": ("PARTIAL (known findings hetero-woodbury-Da>Dy, hetero-trunc-degenerate, hetero-trunc-far-tail). GT.Props.C17 + GT.Props.C17Trunc + GT.Math.Bounds: C17_cov (all "
         "links, all shapes), C17_precision_partial / C17_precision_square (Λ = Σ(x)⁻¹ and ln det under the decoupling hypothesis, which holds for "
         "Da = Dy), C17_counterexample (the full statement is false for Dy=1, Da=2), C17_lower_bound_exp / _coshM1 / _relu (returned value ≤ true "
         "expectation, integrability proved; ReLU: both Dx branches, ω* ≥ 0 proved), C17_step_equality (step link: returned value = true expectation, "
         "Dx = 1 and Dx > 1 branches, via conditioning g on h inside the Gaussian: gauss_condition_sq), C17_tight_at_zero_weights (exp, cosh−1); the variational parameter is the actual output of the (repaired, live) fixed-point loop: "
         "omegaWhile_invariant, reluOmegaStar_nonneg, omegaStar_exp_cases / _coshM1_cases (ω* ≠ 0 or the unit's integrand vanishes a.e.) — no "
         "statement depends on the number of iterations or on convergence. "
         "Hypotheses of the step/ReLU theorems: non-zero input weights and a regular (g,h) covariance — exactly the complement of the known finding "
         "hetero-trunc-degenerate. NOT proved: the asymptotic quadratic decay of the gap (numerical test), anything for Da > Dy beyond the _coded forms.", "§5 C17"),
 "C18": ("PARTIAL. GT.Props.C18: decide-theorems over the class table REGENERATED from /repo's source on every run (to_dict keys are "
         "constructor fields, from_dict has to_dict, API classes present); C18_pdf_roundtrip, C18_cond_roundtrip. GT.Props.C18Approx: an object "
         "rebuilt by its constructor from its own constructor fields (what pytree unflatten, dataclasses.replace and from_dict do) is the SAME "
         "structure — C18_pdf_roundtrip_eq, C18_feat_roundtrip (+ after update_Sigma, replace of kernel parameters), C18_hetero_roundtrip, "
         "C18_trunc_measure_roundtrip / _pdf_roundtrip (+ nested rebuild of the inner measure), C18_trunc_getDensity_idem, C18_nn_roundtrip, and "
         "slice with arange(R) is the identity (C18_*_slice_all). jit/vmap/scan/grad transparency is validated by running pipelines and "
         "finite-difference gradient checks (incl. the variational bounds of all four heteroscedastic links, objects passed as pytrees, nested objects, "
         "one-sided truncated integrals, call order jit-before-eager), not proved; the pytree machinery itself is modelled as a constructor call.", "§5 C18"),
 "C19": ("GT.Props.C19: C19_affine_image, C19_factor, C19_law (push-forward of the standard Gaussian under μ+Lξ is the measure with "
         "density N(μ,Σ)), C19_joint_law / C19_sample_law (mutual independence across draws and components), C19_mean_cov. The PRNG is a "
         "trusted primitive; the statistical clause is a test (thorough tier).", "§5 C19"),
 "C20": ("GT.Props.C20 + GT.Math.TruncMoments: C20_eval (value inside, zero outside, closed ends), C20_mass, C20_x, C20_x2, "
         "C20_xk for EVERY k (the scan recursion is proved equal to the truncated moments, finite and infinite limits), C20_additive, "
         "C20_density_* (normalised variant: u/Z_trunc inside, integrates to one, exact mean and variance), C20_cdf_difference (the "
         "mirrored upper-tail evaluation is the identity over the reals), constructor establishes the hypotheses (mkTruncMeasure_ok). "
         "The far-tail *float* accuracy clause is outside the theorems (validated against mpmath/scipy quadrature).", "§5 C20"),
}


def main():
    checks = []
    for pid in sorted(P):
        text, ref = P[pid]
        if not os.path.exists(os.path.join(VERIF, "harness", "props", f"{pid}.py")):
            continue
        if not os.path.exists(os.path.join(VERIF, "lean", "GT", "Props", f"{pid}.lean")):
            continue
        checks.append({
            "property_id": pid,
            "quick_cmd": f"./check {pid} --tier quick",
            "thorough_cmd": f"./check {pid} --tier thorough",
            "evidence_file": f"evidence/{pid}.json",
            "replay_cmd_template": f"./check {pid} --replay {{path}}",
            "engine": "lean-model",
            "level_claimed": {"category": "proof", "text": text, "design_ref": "DESIGN.md " + ref},
            "level_note": NOTE,
            "technique": TECH,
        })
    claimed = {c["property_id"] for c in checks}
    na = []
    props = [json.loads(l)["id"] for l in open(os.path.join(VERIF, "properties.jsonl"))]
    for pid in props:
        if pid not in claimed:
            na.append({"property_id": pid, "reason": "not yet claimed: model / theorems for this property are still under construction in this "
                       "session (machine-checked proof applies; see DESIGN.md §5 " + pid + ")"})
    man = {
        "version": 1,
        "setup_cmd": "cd lean && lake build GT gtdriver",
        "hooks": {
            "guard": "GAUSSIAN_TOOLBOX_VERIF",
            "enable": "no instrumentation is compiled into /repo: every observation point is a public attribute or method; the checks "
                      "import /repo's working tree in-process (sys.path) with GAUSSIAN_TOOLBOX_VERIF=1 set (unused by the library)",
            "baseline_off_cmd": "cd /repo && /venv/bin/python -m pytest -ra -q -p no:cacheprovider --timeout=900 --continue-on-collection-errors",
            "source_commits": [],
            "add_only": True,
        },
        "engines": [
            {"name": "lean-model", "path": "lean/", "serves_properties": sorted(claimed),
             "kind_free_text": "Lean 4 executable model (GT/Model), bridge and mathematics (GT/Bridge, GT/Math), property theorems (GT/Props), native line-protocol driver (gtdriver), axiom audit (scripts/Audit.lean)"},
            {"name": "correspondence-harness", "path": "harness/", "serves_properties": sorted(claimed),
             "kind_free_text": "Python register machine running the real library and the Lean driver on the same programs; NumPy/SciPy property oracles for the failing-input search; class-table translator"},
        ],
        "checks": checks,
        "notes": "Fix commits in /repo (each 'fix:'): see known_findings.json 'fixed'. Known findings: known_findings.json. Seeded changes: seeded/. See DESIGN.md.",
        "not_applicable": na,
    }
    json.dump(man, open(os.path.join(VERIF, "MANIFEST.json"), "w"), indent=1)
    print("claimed:", sorted(claimed))
    print("not claimed:", [x["property_id"] for x in na])


if __name__ == "__main__":
    main()
